import LachesisVerif.Proofs.VecHB1
/-!
Analysis of `assignBranch` (fillGlobalBranchID) and preservation of the branch-table invariant I1
(`BranchInv`, plus `BranchConsec`: a branch carries consecutive sequence numbers) by `add`.
-/
set_option linter.unusedVariables false
namespace VecProofs
open Model.Vec

def newBr (s : VState) (e : Event) : VState × Nat :=
  ({ s with nBr := s.nBr + 1,
            lastSeq := fun b => if b = s.nBr then e.seq else s.lastSeq b,
            creatorOf := fun b => if b = s.nBr then e.creator else s.creatorOf b }, s.nBr)
def extBr (s : VState) (e : Event) (b0 : Nat) : VState × Nat :=
  ({ s with lastSeq := fun b => if b = b0 then e.seq else s.lastSeq b }, b0)

theorem assign_A1 (s : VState) (e : Event) (h1 : e.seq = 1) (h0 : s.lastSeq e.creator = 0) :
    s.assignBranch e = extBr s e e.creator := by
  unfold VState.assignBranch extBr
  simp [h1, h0, Gen.Vec.firstOnBranch]
theorem assign_A2 (s : VState) (e : Event) (h1 : e.seq = 1) (h0 : s.lastSeq e.creator ≠ 0) :
    s.assignBranch e = newBr s e := by
  unfold VState.assignBranch newBr
  simp [h1, h0, Gen.Vec.firstOnBranch]
theorem assign_B1 (s : VState) (e : Event) (sp : Nat) (ps : List Nat) (h1 : 1 < e.seq) (hp : e.parents = sp :: ps)
    (h0 : (s.lastSeq (s.branchOf sp) + 1) % 4294967296 = e.seq) :
    s.assignBranch e = extBr s e (s.branchOf sp) := by
  unfold VState.assignBranch extBr
  have : ¬ e.seq ≤ 1 := by omega
  simp [this, hp, h0, Gen.Vec.extendsBranch]
theorem assign_B2 (s : VState) (e : Event) (sp : Nat) (ps : List Nat) (h1 : 1 < e.seq) (hp : e.parents = sp :: ps)
    (h0 : (s.lastSeq (s.branchOf sp) + 1) % 4294967296 ≠ e.seq) :
    s.assignBranch e = newBr s e := by
  unfold VState.assignBranch newBr
  have : ¬ e.seq ≤ 1 := by omega
  simp [this, hp, h0, Gen.Vec.extendsBranch]

/-- every sequence number between those of two events of one branch is present on the branch -/
def BranchConsec (h : Hist) (s : VState) : Prop :=
  ∀ i j, i < h.length → j < h.length → s.branchOf i = s.branchOf j →
    ∀ k, (h.ev j).seq ≤ k → k ≤ (h.ev i).seq → ∃ m, m < h.length ∧ s.branchOf m = s.branchOf i ∧ (h.ev m).seq = k

/-- what `assignBranch` does, uniformly for the "extend a branch" and the "open a branch" case -/
structure AssignSpec (h : Hist) (s : VState) (e : Event) (s1 : VState) (me : Nat) : Prop where
  nVals_eq : s1.nVals = s.nVals
  hb_eq : s1.hb = s.hb
  la_eq : s1.la = s.la
  branchOf_eq : s1.branchOf = s.branchOf
  parents_eq : s1.parents = s.parents
  size_eq : s1.size = s.size
  lastSeq_eq : ∀ b, s1.lastSeq b = if b = me then e.seq else s.lastSeq b
  me_lt : me < s1.nBr
  nBr_cases : (s1.nBr = s.nBr ∧ me < s.nBr) ∨ (s1.nBr = s.nBr + 1 ∧ me = s.nBr)
  creatorOf_old : ∀ b, b < s.nBr → s1.creatorOf b = s.creatorOf b
  creatorOf_me : s1.creatorOf me = e.creator
  on_branch : ∀ j, j < h.length → s.branchOf j = me →
    s.lastSeq me + 1 = e.seq ∧ ∃ p, p ∈ e.parents ∧ Anc h p j

/-- no event lies on a branch whose last seq is 0 -/
theorem no_event_of_last_zero {nVals : Nat} {h : Hist} {s : VState} (hv : Valid nVals h)
    (bi : BranchInv h s) {b : Nat} (hb : s.lastSeq b = 0) : ∀ j, j < h.length → s.branchOf j ≠ b := by
  intro j hj hjb
  have h1 := bi.last_ub j hj
  rw [hjb, hb] at h1
  have := (hv.ev_facts j hj).seq_pos
  omega

theorem newBr_spec {nVals : Nat} {h : Hist} {s : VState} (e : Event) (hv : Valid nVals h)
    (bi : BranchInv h s) : AssignSpec h s e (newBr s e).1 (newBr s e).2 where
  nVals_eq := rfl
  hb_eq := rfl
  la_eq := rfl
  branchOf_eq := rfl
  parents_eq := rfl
  size_eq := rfl
  lastSeq_eq := fun b => rfl
  me_lt := by simp [newBr]
  nBr_cases := Or.inr ⟨rfl, rfl⟩
  creatorOf_old := by
    intro b hb
    have : b ≠ s.nBr := by omega
    simp [newBr, this]
  creatorOf_me := by simp [newBr]
  on_branch := by
    intro j hj hjb
    have := bi.branch_lt j hj
    simp only [newBr] at hjb
    omega

theorem extBr_spec {h : Hist} {s : VState} (e : Event) (b0 : Nat)
    (hb0 : b0 < s.nBr) (hc : s.creatorOf b0 = e.creator)
    (hon : ∀ j, j < h.length → s.branchOf j = b0 →
      s.lastSeq b0 + 1 = e.seq ∧ ∃ p, p ∈ e.parents ∧ Anc h p j) :
    AssignSpec h s e (extBr s e b0).1 (extBr s e b0).2 where
  nVals_eq := rfl
  hb_eq := rfl
  la_eq := rfl
  branchOf_eq := rfl
  parents_eq := rfl
  size_eq := rfl
  lastSeq_eq := fun b => rfl
  me_lt := hb0
  nBr_cases := Or.inl ⟨rfl, hb0⟩
  creatorOf_old := fun b _ => rfl
  creatorOf_me := hc
  on_branch := hon

/-- analysis of `assignBranch`: an event extends its self-parent's branch iff it is the next seq on
    it (or is the first event of its creator's primary branch), otherwise it opens a new branch -/
theorem assign_spec {nVals : Nat} {h : Hist} {s : VState} {e : Event} (hv : Valid nVals h)
    (hn : ValidNext nVals h e) (bi : BranchInv h s) (hnv : s.nVals = nVals) :
    AssignSpec h s e (s.assignBranch e).1 (s.assignBranch e).2 := by
  by_cases h1 : e.seq = 1
  · by_cases h0 : s.lastSeq e.creator = 0
    · rw [assign_A1 s e h1 h0]
      have hc := hn.creator_lt
      refine extBr_spec e e.creator ?_ (bi.primary _ (by omega)) ?_
      · have := bi.nVals_le; omega
      · intro j hj hjb
        exact absurd hjb (no_event_of_last_zero hv bi h0 j hj)
    · rw [assign_A2 s e h1 h0]
      exact newBr_spec e hv bi
  · have hpos := hn.seq_pos
    have h1' : 1 < e.seq := by omega
    obtain ⟨sp, ps, hp, hspc, hsps, _⟩ := hn.self h1'
    have hsp : sp < h.length := hn.parents_lt sp (by rw [hp]; simp)
    by_cases h0 : (s.lastSeq (s.branchOf sp) + 1) % 4294967296 = e.seq
    · rw [assign_B1 s e sp ps h1' hp h0]
      have hbl := bi.branch_lt sp hsp
      -- the last seq of the branch is attained by an event, hence small: no wrap-around
      have hls : s.lastSeq (s.branchOf sp) + 1 = e.seq := by
        by_cases hz : s.lastSeq (s.branchOf sp) = 0
        · rw [hz] at h0 ⊢; omega
        · obtain ⟨i, hi, _, his⟩ := bi.last_attained _ hbl hz
          have := (hv.ev_facts i hi).seq_lt
          omega
      have hub := bi.last_ub sp hsp
      refine extBr_spec e _ hbl ?_ ?_
      · rw [bi.creator_eq sp hsp]; exact hspc
      · intro j hj hjb
        refine ⟨hls, sp, by rw [hp]; simp, ?_⟩
        have hjs := bi.last_ub j hj
        rw [hjb] at hjs
        exact bi.chain sp j hsp hj hjb.symm (by omega)
    · rw [assign_B2 s e sp ps h1' hp h0]
      exact newBr_spec e hv bi

/-! ### the state after `add`, seen from the state before -/

/-- the vector computed for the new event before fork detection -/
def mergedParents (hb : HBT) (nBr me : Nat) (e : Event) : HBV :=
  e.parents.foldl (fun v p => VState.collectFrom v (hb.get p) nBr) (HBV.zero.set me ⟨e.seq, e.seq⟩)

structure AddView (h : Hist) (s : VState) (e : Event) (s' : VState) (me : Nat) : Prop where
  nVals_eq : s'.nVals = s.nVals
  size_eq : s'.size = h.length + 1
  branchOf_eq : ∀ i, s'.branchOf i = if i = h.length then me else s.branchOf i
  parents_eq : ∀ i, s'.parents i = if i = h.length then e.parents else s.parents i
  lastSeq_eq : ∀ b, s'.lastSeq b = if b = me then e.seq else s.lastSeq b
  me_lt : me < s'.nBr
  nBr_cases : (s'.nBr = s.nBr ∧ me < s.nBr) ∨ (s'.nBr = s.nBr + 1 ∧ me = s.nBr)
  creatorOf_old : ∀ b, b < s.nBr → s'.creatorOf b = s.creatorOf b
  creatorOf_me : s'.creatorOf me = e.creator
  on_branch : ∀ j, j < h.length → s.branchOf j = me →
    s.lastSeq me + 1 = e.seq ∧ ∃ p, p ∈ e.parents ∧ Anc h p j
  hb_old : ∀ a, a ≠ h.length → s'.hb.get a = s.hb.get a
  hb_new : ∃ s1 : VState, s1.nBr = s'.nBr ∧ s1.nVals = s'.nVals ∧ s1.creatorOf = s'.creatorOf ∧
    s'.hb.get h.length = s1.detectForks (mergedParents s.hb s'.nBr me e)

theorem add_view {nVals : Nat} {h : Hist} {s : VState} {e : Event} (hv : Valid nVals h)
    (hn : ValidNext nVals h e) (bi : BranchInv h s) (hnv : s.nVals = nVals) :
    AddView h s e (s.add e) (s.assignBranch e).2 := by
  have A := assign_spec hv hn bi hnv
  have hsz := bi.size_eq
  revert A
  unfold VState.add
  rcases s.assignBranch e with ⟨s1, me⟩
  intro A
  simp only at A ⊢
  exact {
    nVals_eq := A.nVals_eq
    size_eq := by rw [hsz]
    branchOf_eq := by intro i; rw [A.branchOf_eq, hsz]
    parents_eq := by intro i; rw [A.parents_eq, hsz]
    lastSeq_eq := A.lastSeq_eq
    me_lt := A.me_lt
    nBr_cases := A.nBr_cases
    creatorOf_old := A.creatorOf_old
    creatorOf_me := A.creatorOf_me
    on_branch := A.on_branch
    hb_old := by
      intro a ha
      rw [← hsz] at ha
      simp [HBT.setRow, ha, A.hb_eq]
    hb_new := ⟨s1, rfl, rfl, rfl, by simp [HBT.setRow, hsz, mergedParents, A.hb_eq]⟩ }

theorem idx_cases {h : Hist} {e : Event} {i : Nat} (hi : i < (h ++ [e]).length) :
    i < h.length ∨ i = h.length := by
  rw [length_snoc] at hi; omega

/-- old events of the branch of the new event: smaller seq, and ancestors of the new event -/
theorem AddView.old_on_me {h : Hist} {s s' : VState} {e : Event} {me : Nat} (V : AddView h s e s' me)
    (bi : BranchInv h s) {j : Nat} (hj : j < h.length) (hb : s.branchOf j = me) :
    (h.ev j).seq < e.seq ∧ Anc (h ++ [e]) h.length j := by
  obtain ⟨hl, p, hp, hpj⟩ := V.on_branch j hj hb
  have := bi.last_ub j hj
  rw [hb] at this
  refine ⟨by omega, Anc.step (by rw [length_snoc]; omega) ?_ (hpj.snoc e)⟩
  rw [ev_snoc_eq]; exact hp

theorem AddView.branchOf_old {h : Hist} {s s' : VState} {e : Event} {me : Nat} (V : AddView h s e s' me)
    {i : Nat} (hi : i < h.length) : s'.branchOf i = s.branchOf i := by
  rw [V.branchOf_eq, if_neg (Nat.ne_of_lt hi)]

theorem AddView.branchOf_new {h : Hist} {s s' : VState} {e : Event} {me : Nat} (V : AddView h s e s' me) :
    s'.branchOf h.length = me := by
  rw [V.branchOf_eq, if_pos rfl]

theorem AddView.nBr_le {h : Hist} {s s' : VState} {e : Event} {me : Nat} (V : AddView h s e s' me) :
    s.nBr ≤ s'.nBr := by
  rcases V.nBr_cases with ⟨h1, _⟩ | ⟨h1, _⟩ <;> omega

theorem AddView.lt_of_ne_me {h : Hist} {s s' : VState} {e : Event} {me : Nat} (V : AddView h s e s' me)
    {b : Nat} (hb : b < s'.nBr) (hne : b ≠ me) : b < s.nBr := by
  rcases V.nBr_cases with ⟨h1, _⟩ | ⟨h1, h2⟩ <;> omega

end VecProofs
