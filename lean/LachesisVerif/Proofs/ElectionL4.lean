import LachesisVerif.Proofs.ElectionL2
/-!
Graph-level lemmas behind C10/C01, part 3: L4 (a decision fixes all later votes and excludes the
opposite decision) and uniqueness of the Atropos. Everything is first proved from slot-uniqueness
of forkless-caused roots as an explicit hypothesis (`SlotUnique`), then L2 discharges it under BFT.
-/
namespace ElectionRules
open VecProofs
open Classical

namespace Net
variable (N : Net)

/-- roots of one slot that are forkless-caused by anything coincide (conclusion of L2) -/
def SlotUnique : Prop := ∀ g b₁ b₂ a a', N.IsRoot b₁ g → N.IsRoot b₂ g → N.creator b₁ = N.creator b₂ →
  N.FC a b₁ → N.FC a' b₂ → b₁ = b₂

theorem slotUnique_of_BFT (hv : Valid N.nVals N.h) (hfa : N.FramesAccepted) (hbft : N.BFT) : N.SlotUnique :=
  fun _ _ _ _ _ h₁ h₂ hc c₁ c₂ => N.slot_unique hv hfa hbft h₁ h₂ hc c₁ c₂

theorem quorum_pos : 1 ≤ N.quorum := by unfold quorum; omega

theorem causedWeight_congr (e g : Nat) (P Q : Nat → Prop) (h : ∀ r, N.IsRoot r g → (P r ↔ Q r)) :
    N.causedWeight e g P = N.causedWeight e g Q := by
  apply N.weightOf_congr
  intro u _
  constructor
  · rintro ⟨r, h1, h2, h3, h4⟩; exact ⟨r, h1, h2, h3, (h r h1).1 h4⟩
  · rintro ⟨r, h1, h2, h3, h4⟩; exact ⟨r, h1, h2, h3, (h r h1).2 h4⟩

theorem causedWeight_zero (e g : Nat) (P : Nat → Prop) (h : ∀ r, N.IsRoot r g → ¬ P r) :
    N.causedWeight e g P = 0 := by
  apply N.weightOf_zero
  rintro u _ ⟨r, h1, _, _, h4⟩
  exact h r h1 h4

/-- the core counting step of L4 -/
theorem core_count (hsu : N.SlotUnique) (g : Nat) (V : Nat → Prop) (R R' : Nat)
    (hq : N.quorum ≤ N.causedWeight R g V) (hall : N.quorum ≤ N.causedWeight R' g (fun _ => True)) :
    2 * N.quorum ≤ N.causedWeight R' g V + N.total ∧
    N.causedWeight R' g (fun p => ¬ V p) + N.quorum ≤ N.total := by
  constructor
  · have h1 : 2 * N.quorum ≤ N.weightOf (fun u => (∃ r, N.IsRoot r g ∧ N.creator r = u ∧ N.FC R r ∧ V r) ∧
        (∃ r, N.IsRoot r g ∧ N.creator r = u ∧ N.FC R' r ∧ True)) + N.total := N.quorum_overlap _ _ hq hall
    have h2 : N.weightOf (fun u => (∃ r, N.IsRoot r g ∧ N.creator r = u ∧ N.FC R r ∧ V r) ∧
        (∃ r, N.IsRoot r g ∧ N.creator r = u ∧ N.FC R' r ∧ True)) ≤ N.causedWeight R' g V := by
      apply N.weightOf_mono
      rintro u _ ⟨⟨r, a1, a2, a3, a4⟩, ⟨r', b1, b2, b3, _⟩⟩
      have := hsu g r r' R R' a1 b1 (a2.trans b2.symm) a3 b3
      subst this
      exact ⟨r, a1, a2, b3, a4⟩
    omega
  · have h1 := N.weightOf_add (fun u => ∃ r, N.IsRoot r g ∧ N.creator r = u ∧ N.FC R' r ∧ ¬ V r)
      (fun u => ∃ r, N.IsRoot r g ∧ N.creator r = u ∧ N.FC R r ∧ V r)
    have h2 := N.weightOf_zero (fun u => (∃ r, N.IsRoot r g ∧ N.creator r = u ∧ N.FC R' r ∧ ¬ V r) ∧
        (∃ r, N.IsRoot r g ∧ N.creator r = u ∧ N.FC R r ∧ V r)) (by
      rintro u _ ⟨⟨r', b1, b2, b3, b4⟩, ⟨r, a1, a2, a3, a4⟩⟩
      have := hsu g r r' R R' a1 b1 (a2.trans b2.symm) a3 b3
      subst this
      exact b4 a4)
    have h3 := N.weightOf_le_total (fun u => (∃ r, N.IsRoot r g ∧ N.creator r = u ∧ N.FC R' r ∧ ¬ V r) ∨
        (∃ r, N.IsRoot r g ∧ N.creator r = u ∧ N.FC R r ∧ V r))
    have hq' : N.quorum ≤ N.weightOf (fun u => ∃ r, N.IsRoot r g ∧ N.creator r = u ∧ N.FC R r ∧ V r) := hq
    show N.weightOf (fun u => ∃ r, N.IsRoot r g ∧ N.creator r = u ∧ N.FC R' r ∧ ¬ V r) + N.quorum ≤ N.total
    omega

/-- a root of frame `g + 1 ≥ 2` is forkless-caused by a quorum of roots of frame `g` -/
theorem root_prev_quorum (hfa : N.FramesAccepted) {r g : Nat} (hr : N.IsRoot r (g + 1)) (hg : 1 ≤ g) :
    N.quorum ≤ N.causedWeight r g (fun _ => True) := by
  obtain ⟨hlt, h1, h2⟩ := hr
  have := hfa r hlt
  unfold Allowed at this
  by_cases hs : (N.h.ev r).seq ≤ 1
  · rw [if_pos hs] at this; omega
  · rw [if_neg hs] at this
    exact Nat.le_trans (this.2 g (by omega) (by omega))
      (N.weightOf_mono _ _ (fun _ _ ⟨p, a, b, c, _⟩ => ⟨p, a, b, c, trivial⟩))

theorem voteYes_succ (f k r v : Nat) (hk : 1 ≤ k) :
    N.voteYes f (k + 1) r v ↔
      N.causedWeight r (f + k) (fun p => ¬ N.voteYes f k p v) ≤ N.causedWeight r (f + k) (fun p => N.voteYes f k p v) := by
  obtain ⟨j, rfl⟩ : ∃ j, k = j + 1 := ⟨k - 1, by omega⟩
  exact Iff.rfl

theorem decidesYes_succ (f k r v : Nat) (hk : 1 ≤ k) :
    N.DecidesYes f (k + 1) r v ↔
      N.IsRoot r (f + (k + 1)) ∧ N.quorum ≤ N.causedWeight r (f + k) (fun p => N.voteYes f k p v) := by
  unfold DecidesYes
  have e1 : f + (k + 1) - 1 = f + k := by omega
  rw [e1, Nat.add_sub_cancel]
  exact ⟨fun h => ⟨h.2.1, h.2.2⟩, fun h => ⟨by omega, h.1, h.2⟩⟩

theorem decidesNo_succ (f k r v : Nat) (hk : 1 ≤ k) :
    N.DecidesNo f (k + 1) r v ↔
      N.IsRoot r (f + (k + 1)) ∧ N.quorum ≤ N.causedWeight r (f + k) (fun p => ¬ N.voteYes f k p v) := by
  unfold DecidesNo
  have e1 : f + (k + 1) - 1 = f + k := by omega
  rw [e1, Nat.add_sub_cancel]
  exact ⟨fun h => ⟨h.2.1, h.2.2⟩, fun h => ⟨by omega, h.1, h.2⟩⟩

/-- a yes-decision at round `k+1` forces every root of that round to vote yes and not to decide no -/
theorem same_round_yes (hfa : N.FramesAccepted) (hsu : N.SlotUnique) (f k r r' v : Nat) (hk : 1 ≤ k)
    (hd : N.DecidesYes f (k + 1) r v) (hr' : N.IsRoot r' (f + (k + 1))) :
    N.voteYes f (k + 1) r' v ∧ ¬ N.DecidesNo f (k + 1) r' v := by
  rw [N.decidesYes_succ f k r v hk] at hd
  have hall := N.root_prev_quorum hfa (g := f + k) hr' (by omega)
  obtain ⟨c1, c2⟩ := N.core_count hsu (f + k) (fun p => N.voteYes f k p v) r r' hd.2 hall
  have h3 := N.three_quorum
  constructor
  · rw [N.voteYes_succ f k r' v hk]; omega
  · rw [N.decidesNo_succ f k r' v hk]; intro h; omega

theorem same_round_no (hfa : N.FramesAccepted) (hsu : N.SlotUnique) (f k r r' v : Nat) (hk : 1 ≤ k)
    (hd : N.DecidesNo f (k + 1) r v) (hr' : N.IsRoot r' (f + (k + 1))) :
    ¬ N.voteYes f (k + 1) r' v ∧ ¬ N.DecidesYes f (k + 1) r' v := by
  rw [N.decidesNo_succ f k r v hk] at hd
  have hall := N.root_prev_quorum hfa (g := f + k) hr' (by omega)
  obtain ⟨c1, c2⟩ := N.core_count hsu (f + k) (fun p => ¬ N.voteYes f k p v) r r' hd.2 hall
  have e : N.causedWeight r' (f + k) (fun p => ¬ ¬ N.voteYes f k p v) =
      N.causedWeight r' (f + k) (fun p => N.voteYes f k p v) :=
    N.causedWeight_congr _ _ _ _ (fun _ _ => Classical.not_not)
  rw [e] at c2
  have h3 := N.three_quorum
  constructor
  · rw [N.voteYes_succ f k r' v hk]; omega
  · rw [N.decidesYes_succ f k r' v hk]; intro h; omega

/-- if all roots of round `k` vote yes, so do all roots of round `k+1`, and none decides no -/
theorem step_yes (f k r' v : Nat) (hk : 1 ≤ k)
    (hall : ∀ p, N.IsRoot p (f + k) → N.voteYes f k p v) :
    N.voteYes f (k + 1) r' v ∧ ¬ N.DecidesNo f (k + 1) r' v := by
  have h0 := N.causedWeight_zero r' (f + k) (fun p => ¬ N.voteYes f k p v) (fun p hp hn => hn (hall p hp))
  have hq := N.quorum_pos
  constructor
  · rw [N.voteYes_succ f k r' v hk, h0]; exact Nat.zero_le _
  · rw [N.decidesNo_succ f k r' v hk, h0]; intro h; omega

theorem step_no (hfa : N.FramesAccepted) (f k r' v : Nat) (hk : 1 ≤ k) (hr' : N.IsRoot r' (f + (k + 1)))
    (hall : ∀ p, N.IsRoot p (f + k) → ¬ N.voteYes f k p v) :
    ¬ N.voteYes f (k + 1) r' v ∧ ¬ N.DecidesYes f (k + 1) r' v := by
  have h0 := N.causedWeight_zero r' (f + k) (fun p => N.voteYes f k p v) (fun p hp hy => hall p hp hy)
  have h1 : N.causedWeight r' (f + k) (fun p => ¬ N.voteYes f k p v) = N.causedWeight r' (f + k) (fun _ => True) :=
    N.causedWeight_congr _ _ _ _ (fun p hp => ⟨fun _ => trivial, fun _ => hall p hp⟩)
  have h2 := N.root_prev_quorum hfa (g := f + k) hr' (by omega)
  have hq := N.quorum_pos
  constructor
  · rw [N.voteYes_succ f k r' v hk, h0, h1]; omega
  · rw [N.decidesYes_succ f k r' v hk, h0]; intro h; omega

theorem propagate_yes (hfa : N.FramesAccepted) (hsu : N.SlotUnique) (f k r v : Nat) (hk : 1 ≤ k)
    (hd : N.DecidesYes f (k + 1) r v) :
    ∀ n r', N.IsRoot r' (f + (k + 1 + n)) → N.voteYes f (k + 1 + n) r' v ∧ ¬ N.DecidesNo f (k + 1 + n) r' v := by
  intro n
  induction n with
  | zero => intro r' hr'; exact N.same_round_yes hfa hsu f k r r' v hk hd hr'
  | succ n ih => intro r' _; exact N.step_yes f (k + 1 + n) r' v (by omega) (fun p hp => (ih p hp).1)

theorem propagate_no (hfa : N.FramesAccepted) (hsu : N.SlotUnique) (f k r v : Nat) (hk : 1 ≤ k)
    (hd : N.DecidesNo f (k + 1) r v) :
    ∀ n r', N.IsRoot r' (f + (k + 1 + n)) → ¬ N.voteYes f (k + 1 + n) r' v ∧ ¬ N.DecidesYes f (k + 1 + n) r' v := by
  intro n
  induction n with
  | zero => intro r' hr'; exact N.same_round_no hfa hsu f k r r' v hk hd hr'
  | succ n ih => intro r' hr'; exact N.step_no hfa f (k + 1 + n) r' v (by omega) hr' (fun p hp => (ih p hp).1)

/-- L4 from slot-uniqueness -/
theorem L4_of_slotUnique (hfa : N.FramesAccepted) (hsu : N.SlotUnique) (f v : Nat) :
    (N.DecidedYes f v → ¬ N.DecidedNo f v) ∧
    (∀ k r, N.DecidesYes f k r v → ∀ k' r', k ≤ k' → N.IsRoot r' (f + k') → N.voteYes f k' r' v) ∧
    (∀ k r, N.DecidesNo f k r v → ∀ k' r', k ≤ k' → N.IsRoot r' (f + k') → ¬ N.voteYes f k' r' v) := by
  have py : ∀ k r, N.DecidesYes f k r v → ∀ k' r', k ≤ k' → N.IsRoot r' (f + k') →
      N.voteYes f k' r' v ∧ ¬ N.DecidesNo f k' r' v := by
    intro k r hd k' r' hkk hr'
    have h2 : 2 ≤ k := hd.1
    obtain ⟨j, rfl⟩ : ∃ j, k = j + 1 := ⟨k - 1, by omega⟩
    obtain ⟨n, rfl⟩ : ∃ n, k' = j + 1 + n := ⟨k' - (j + 1), by omega⟩
    exact N.propagate_yes hfa hsu f j r v (by omega) hd n r' hr'
  have pn : ∀ k r, N.DecidesNo f k r v → ∀ k' r', k ≤ k' → N.IsRoot r' (f + k') →
      ¬ N.voteYes f k' r' v ∧ ¬ N.DecidesYes f k' r' v := by
    intro k r hd k' r' hkk hr'
    have h2 : 2 ≤ k := hd.1
    obtain ⟨j, rfl⟩ : ∃ j, k = j + 1 := ⟨k - 1, by omega⟩
    obtain ⟨n, rfl⟩ : ∃ n, k' = j + 1 + n := ⟨k' - (j + 1), by omega⟩
    exact N.propagate_no hfa hsu f j r v (by omega) hd n r' hr'
  refine ⟨?_, fun k r hd k' r' hkk hr' => (py k r hd k' r' hkk hr').1,
    fun k r hd k' r' hkk hr' => (pn k r hd k' r' hkk hr').1⟩
  rintro ⟨k₁, r₁, d₁⟩ ⟨k₂, r₂, d₂⟩
  rcases Nat.le_total k₁ k₂ with hle | hle
  · exact (py k₁ r₁ d₁ k₂ r₂ hle d₂.2.1).2 d₂
  · exact (pn k₂ r₂ d₂ k₁ r₁ hle d₁.2.1).2 d₁

/-- L4 -/
theorem L4_holds : N.L4 :=
  fun hv hfa hbft f v => N.L4_of_slotUnique hfa (N.slotUnique_of_BFT hv hfa hbft) f v

theorem atroposUnique_of_slotUnique (hfa : N.FramesAccepted) (hsu : N.SlotUnique) (f a a' : Nat)
    (h : N.IsAtropos f a) (h' : N.IsAtropos f a') : a = a' := by
  obtain ⟨v, _, dy, dn, ra, ca, r, _, fa⟩ := h
  obtain ⟨v', _, dy', dn', ra', ca', r', _, fa'⟩ := h'
  have hvv : v = v' := by
    rcases Nat.lt_trichotomy v v' with hlt | heq | hgt
    · exact absurd (dn' v hlt) ((N.L4_of_slotUnique hfa hsu f v).1 dy)
    · exact heq
    · exact absurd (dn v' hgt) ((N.L4_of_slotUnique hfa hsu f v').1 dy')
  subst hvv
  exact hsu f a a' r r' ra ra' (ca.trans ca'.symm) fa fa'

/-- the Atropos is unique -/
theorem atroposUnique_holds : N.AtroposUnique :=
  fun hv hfa hbft f a a' h h' => N.atroposUnique_of_slotUnique hfa (N.slotUnique_of_BFT hv hfa hbft) f a a' h h'

end Net
end ElectionRules
