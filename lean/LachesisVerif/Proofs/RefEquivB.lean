import LachesisVerif.Proofs.RefEquivA
import LachesisVerif.Proofs.VecHB1
/-!
# Reference equivalence, part B: parents-first histories and the history of an instance

* `PF h`: the parents of every event of `h` are earlier positions (the only part of `Valid` that
  ancestry needs); `Anc` under appending an event, for `PF` histories.
* `histOf s`: the Prop-level history (`VecProofs.Hist`) of a reference instance.
* `histOf_insert`: a successful `insert` appends exactly one event to `histOf`.
-/
namespace RefEquiv
open Spec.Lachesis VecProofs Model.Vec

/-! ### parents-first histories -/

/-- parents are earlier positions -/
def PF (h : Hist) : Prop := ∀ i, i < h.length → ∀ p ∈ (h.ev i).parents, p < i

theorem PF.nil : PF [] := by intro i hi; simp at hi

theorem PF.snoc {h : Hist} {e : Event} (hp : PF h) (he : ∀ p ∈ e.parents, p < h.length) :
    PF (h ++ [e]) := by
  intro i hi p hpm
  rw [length_snoc] at hi
  by_cases hlt : i < h.length
  · rw [ev_snoc_lt h e hlt] at hpm; exact hp i hlt p hpm
  · have : i = h.length := by omega
    subst this
    rw [ev_snoc_eq] at hpm; exact he p hpm

theorem anc_le {h : Hist} (hp : PF h) {a b : Nat} (hab : Anc h a b) : b ≤ a := by
  induction hab with
  | refl _ => exact Nat.le_refl _
  | step ha hpm _ ih => have := hp _ ha _ hpm; omega

theorem anc_lt_right {h : Hist} (hp : PF h) {a b : Nat} (hab : Anc h a b) : b < h.length := by
  have := anc_le hp hab
  have := hab.lt_left
  omega

/-- ancestry of old events is unchanged when an event is appended -/
theorem anc_snoc_old' {h : Hist} (hp : PF h) (e : Event) {a b : Nat} (ha : a < h.length) :
    Anc (h ++ [e]) a b ↔ Anc h a b := by
  constructor
  · intro hab
    induction hab with
    | refl _ => exact Anc.refl ha
    | @step a p b _ hpm _ ih =>
      rw [ev_snoc_lt h e ha] at hpm
      have hpa := hp _ ha _ hpm
      exact Anc.step ha hpm (ih (by omega))
  · exact Anc.snoc e

/-- ancestry of the appended event = itself ∪ the ancestries of its parents -/
theorem anc_snoc_new' {h : Hist} (hp : PF h) {e : Event} (he : ∀ p ∈ e.parents, p < h.length)
    {b : Nat} : Anc (h ++ [e]) h.length b ↔ b = h.length ∨ ∃ p, p ∈ e.parents ∧ Anc h p b := by
  constructor
  · intro hab
    cases hab with
    | refl _ => exact Or.inl rfl
    | step _ hpm hpb =>
      rw [ev_snoc_eq] at hpm
      exact Or.inr ⟨_, hpm, (anc_snoc_old' hp e (he _ hpm)).1 hpb⟩
  · rintro (rfl | ⟨p, hpm, hpb⟩)
    · exact Anc.refl (by rw [length_snoc]; omega)
    · refine Anc.step (by rw [length_snoc]; omega) ?_ (hpb.snoc e)
      rw [ev_snoc_eq]; exact hpm

/-- a fork seen by an old event is the same in the old and in the extended history -/
theorem forkSeen_snoc_old' {h : Hist} (hp : PF h) (e : Event) {a c : Nat} (ha : a < h.length) :
    ForkSeen (h ++ [e]) a c ↔ ForkSeen h a c := by
  constructor
  · rintro ⟨x, y, hxy, hax, hay, hcx, hcy, hs⟩
    have hax' := (anc_snoc_old' hp e ha).1 hax
    have hay' := (anc_snoc_old' hp e ha).1 hay
    have hx := anc_lt_right hp hax'
    have hy := anc_lt_right hp hay'
    rw [ev_snoc_lt h e hx] at hcx hs
    rw [ev_snoc_lt h e hy] at hcy hs
    exact ⟨x, y, hxy, hax', hay', hcx, hcy, hs⟩
  · rintro ⟨x, y, hxy, hax, hay, hcx, hcy, hs⟩
    have hx := anc_lt_right hp hax
    have hy := anc_lt_right hp hay
    refine ⟨x, y, hxy, hax.snoc e, hay.snoc e, ?_, ?_, ?_⟩
    · rw [ev_snoc_lt h e hx]; exact hcx
    · rw [ev_snoc_lt h e hy]; exact hcy
    · rw [ev_snoc_lt h e hx, ev_snoc_lt h e hy]; exact hs

/-! ### the history of an instance -/

/-- parents of a reference event as positions -/
def parentPos (s : Inst) (e : Ev) : List Nat := (e.parents.map s.posOf).filterMap id

/-- the Prop-level event at position `i` of a reference instance -/
def evOf (s : Inst) (i : Nat) : Event :=
  { creator := s.creatorIdx i, seq := (s.ev i).seq, parents := parentPos s (s.ev i) }

/-- the Prop-level history of a reference instance: creators as canonical validator indices,
    parents as positions -/
def histOf (s : Inst) : Hist := (List.range s.size).map (evOf s)

theorem length_histOf (s : Inst) : (histOf s).length = s.size := by
  unfold histOf; rw [List.length_map, List.length_range]

theorem ev_histOf (s : Inst) {i : Nat} (hi : i < s.size) : (histOf s).ev i = evOf s i := by
  unfold Hist.ev histOf
  rw [List.getD_eq_getElem?_getD, List.getElem?_map, List.getElem?_range hi]
  rfl

theorem mem_parentPos {s : Inst} {e : Ev} {p : Nat} :
    p ∈ parentPos s e ↔ ∃ n ∈ e.parents, s.posOf n = some p := by
  unfold parentPos
  rw [List.mem_filterMap]
  constructor
  · rintro ⟨o, ho, hid⟩
    obtain ⟨n, hn, rfl⟩ := List.mem_map.1 ho
    exact ⟨n, hn, hid⟩
  · rintro ⟨n, hn, hp⟩
    exact ⟨_, List.mem_map.2 ⟨n, hn, rfl⟩, hp⟩

theorem posOf_lt {s : Inst} {n p : Nat} (h : s.posOf n = some p) : p < s.size := by
  unfold Inst.posOf at h
  obtain ⟨hlt, _⟩ := Array.findIdx?_eq_some_iff_getElem.1 h
  exact hlt

theorem idxOf_lt {s : Inst} {id c : Nat} (h : s.idxOf id = some c) : c < s.nv := by
  unfold Inst.idxOf at h
  obtain ⟨hlt, _⟩ := List.findIdx?_eq_some_iff_getElem.1 h
  exact hlt

/-- two ids with the same canonical index are equal -/
theorem idxOf_inj {s : Inst} {id id' c : Nat} (h : s.idxOf id = some c) (h' : s.idxOf id' = some c) :
    id = id' := by
  unfold Inst.idxOf at h h'
  obtain ⟨hlt, h1, _⟩ := List.findIdx?_eq_some_iff_getElem.1 h
  obtain ⟨_, h2, _⟩ := List.findIdx?_eq_some_iff_getElem.1 h'
  have e1 : s.vals[c].1 = id := by simpa using h1
  have e2 : s.vals[c].1 = id' := by simpa using h2
  rw [← e1, ← e2]

/-! ### read-after-write lemmas for `insert` -/

section ins
variable {s s' : Inst} {e : Ev}

theorem size_insert (h : s.insert e = some s') : s'.size = s.size + 1 := by
  obtain ⟨cv, _, _, _, hevs, _⟩ := insert_some h
  unfold Inst.size; rw [hevs, Array.size_push]

theorem nv_insert (h : s.insert e = some s') : s'.nv = s.nv := by
  obtain ⟨cv, _, _, hvals, _⟩ := insert_some h
  unfold Inst.nv; rw [hvals]

theorem ev_insert_old (h : s.insert e = some s') {i : Nat} (hi : i < s.size) : s'.ev i = s.ev i := by
  obtain ⟨cv, _, _, _, hevs, _⟩ := insert_some h
  unfold Inst.size at hi
  unfold Inst.ev
  rw [hevs, Array.getD_eq_getD_getElem?, Array.getD_eq_getD_getElem?, Array.getElem?_push_lt hi,
    Array.getElem?_eq_getElem hi]

theorem ev_insert_new (h : s.insert e = some s') : s'.ev s.size = e := by
  obtain ⟨cv, _, _, _, hevs, _⟩ := insert_some h
  unfold Inst.ev Inst.size
  rw [hevs, Array.getD_eq_getD_getElem?, Array.getElem?_push_size]
  rfl

theorem idxOf_insert (h : s.insert e = some s') (id : Nat) : s'.idxOf id = s.idxOf id := by
  obtain ⟨cv, _, _, hvals, _⟩ := insert_some h
  unfold Inst.idxOf; rw [hvals]

theorem posOf_insert (h : s.insert e = some s') {n p : Nat} (hp : s.posOf n = some p) :
    s'.posOf n = some p := by
  obtain ⟨cv, _, _, _, hevs, _⟩ := insert_some h
  unfold Inst.posOf at hp ⊢
  rw [hevs, Array.findIdx?_push, hp]
  rfl

theorem creatorIdx_insert_old (h : s.insert e = some s') {i : Nat} (hi : i < s.size) :
    s'.creatorIdx i = s.creatorIdx i := by
  unfold Inst.creatorIdx
  rw [ev_insert_old h hi, idxOf_insert h]

theorem creatorIdx_insert_new (h : s.insert e = some s') :
    s'.creatorIdx s.size = (s.idxOf e.creator).getD 0 := by
  unfold Inst.creatorIdx
  rw [ev_insert_new h, idxOf_insert h]

theorem parentPos_insert (h : s.insert e = some s') {e0 : Ev}
    (hok : ∀ n ∈ e0.parents, ∃ p, s.posOf n = some p) : parentPos s' e0 = parentPos s e0 := by
  unfold parentPos
  congr 1
  apply List.map_congr_left
  intro n hn
  obtain ⟨p, hp⟩ := hok n hn
  rw [hp, posOf_insert h hp]

/-- every parent number of every event resolves to a position -/
def ParentsOK (s : Inst) : Prop := ∀ i, i < s.size → ∀ n ∈ (s.ev i).parents, ∃ p, s.posOf n = some p

/-- the Prop-level event appended by inserting `e` into `s` -/
def newEv (s : Inst) (e : Ev) : Event :=
  { creator := (s.idxOf e.creator).getD 0, seq := e.seq, parents := parentPos s e }

theorem evOf_insert_old (h : s.insert e = some s') (hok : ParentsOK s) {i : Nat} (hi : i < s.size) :
    evOf s' i = evOf s i := by
  unfold evOf
  rw [creatorIdx_insert_old h hi, ev_insert_old h hi, parentPos_insert h (hok i hi)]

theorem evOf_insert_new (h : s.insert e = some s') : evOf s' s.size = newEv s e := by
  unfold evOf newEv
  rw [creatorIdx_insert_new h, ev_insert_new h]
  obtain ⟨cv, _, hps, _⟩ := insert_some h
  rw [parentPos_insert h hps]

/-- a successful insert appends exactly one event to the history -/
theorem histOf_insert (h : s.insert e = some s') (hok : ParentsOK s) :
    histOf s' = histOf s ++ [newEv s e] := by
  unfold histOf
  rw [size_insert h, List.range_succ, List.map_append, List.map_cons, List.map_nil,
    evOf_insert_new h]
  congr 1
  apply List.map_congr_left
  intro i hi
  exact evOf_insert_old h hok (List.mem_range.1 hi)

theorem parentsOK_insert (h : s.insert e = some s') (hok : ParentsOK s) : ParentsOK s' := by
  intro i hi n hn
  rw [size_insert h] at hi
  by_cases hlt : i < s.size
  · rw [ev_insert_old h hlt] at hn
    obtain ⟨p, hp⟩ := hok i hlt n hn
    exact ⟨p, posOf_insert h hp⟩
  · have : i = s.size := by omega
    subst this
    rw [ev_insert_new h] at hn
    obtain ⟨cv, _, hps, _⟩ := insert_some h
    obtain ⟨p, hp⟩ := hps n hn
    exact ⟨p, posOf_insert h hp⟩

theorem newEv_parents_lt (s : Inst) (e : Ev) : ∀ p ∈ (newEv s e).parents, p < (histOf s).length := by
  intro p hp
  obtain ⟨n, _, hn⟩ := mem_parentPos.1 hp
  rw [length_histOf]
  exact posOf_lt hn

end ins

end RefEquiv
