import LachesisVerif.Proofs.ComposeEpochs2
/-!
Composition, part 7: restarts in a several-epoch run of the combined model `Model.Indexed` (C08 across
epochs). Go: `abft/bootstrap.go` `Bootstrap` loads the epoch state and the last decided state from the
DB, re-creates the election for frame `ldf + 1` and re-processes the known roots — in whatever epoch the
instance was stopped. Model: `Model.Indexed.restartIndexed` (`Orderer.bootstrap` over the PERSISTED index).

* `restartsIx app n s out`: `n` restarts in a row; blocks a restart would emit are appended to `out` (with
  the cheater lists of the persisted index), a restart that reports a seal stops the sequence.
* `runEpochIxR N app ids rs s out`: `Compose.runEpochIx` with `rs[i]` restarts before the `i`-th submitted
  event of the epoch (missing entries = 0) and `rs[ids.length]` restarts after the last one.
* `restart_sim_seal`: a restart of the combined model whose application MAY seal, from the restart of the
  Orderer model with the graph oracle and the never-sealing application (`OrdererEpochs.boot_sim`,
  `Compose.bootstrap_congr`): if the latter decides nothing, so does the former.
* `restarts_sim`: in a state of a running instance (L5 invariant `OInv`/`OpenEl` for the Orderer
  component, `CInv` for the index) any number of restarts emit nothing, report no seal, change only the
  volatile election, and the invariants hold again (`OrdererRestart3.restart_open`).
-/
namespace Compose
open Model.Pos Model.Election Model.Orderer Model.Vec Model.Indexed VecProofs ElectionRules ElectionRefine
open OrdererProofs OrdererEpochs OrdererRestart OrdererRestart3

/-- `n` restarts in a row over the persisted state -/
def restartsIx (app : App) : Nat → IState → List Block → Option (IState × List Block × Bool)
  | 0, s, out => some (s, out, false)
  | n + 1, s, out =>
    match restartIndexed app s with
    | .error _ => none
    | .ok (s', ds, sealed) =>
      if sealed then some (s', out ++ ds.map (fun d => (⟨d, cheaters s.v (pos s.evs d.atropos)⟩ : Block)), true)
      else restartsIx app n s' (out ++ ds.map (fun d => (⟨d, cheaters s.v (pos s.evs d.atropos)⟩ : Block)))

/-- one epoch with restarts: `rs.headD 0` restarts before every submitted event (then `rs.tail` for the
    rest) and after the last one; otherwise as `runEpochIx` -/
def runEpochIxR (N : Net) (app : App) : List Nat → List Nat → IState → List Block →
    Option (IState × List Block × List Nat)
  | [], rs, s, out =>
    match restartsIx app (rs.headD 0) s out with
    | none => none
    | some (s0, out0, _) => some (s0, out0, [])
  | id :: rest, rs, s, out =>
    match restartsIx app (rs.headD 0) s out with
    | none => none
    | some (s0, out0, true) => some (s0, out0, id :: rest)
    | some (s0, out0, false) =>
      match processIndexed app s0 (evOf N id) with
      | (s', .ok bs) =>
        if bs.any (·.d.sealed) then some (s', out0 ++ bs, rest) else runEpochIxR N app rest rs.tail s' (out0 ++ bs)
      | _ => none

/-- a restart of the combined model with an application that may seal -/
theorem restart_sim_seal {N : Net} {vals : Vals} {app : App} (G : GOK N vals) {s : IState} (C : CInv N vals s)
    {o' : OState} (hb : bootstrap (envFC N (unsealed app)) s.o = .ok (o', [], false)) :
    restartIndexed app s = .ok (⟨o', s.v, s.evs⟩, [], false) ∧ CInv N vals ⟨o', s.v, s.evs⟩ := by
  have A := agree_envOf app G.ok C.idx G.hnd G.hsmall
  refine ⟨?_, C.idx, (bootstrap_K (envFC N (unsealed app)) (fun _ _ => rfl) C.k _ _ _ hb).1⟩
  have hb2 : bootstrap (envFC N app) s.o = .ok (o', [], false) := by
    unfold bootstrap at hb ⊢
    rw [envFC_unsealed] at hb
    have := boot_sim (envFC N app) s.o.epoch (s.o.roots.length + 2)
      { s.o with el := reset s.o.vals (Gen.Orderer.bootstrapFrameToDecide s.o.ldf) } [] o' [] false rfl rfl hb
    simp only [cut] at this
    rw [this]
  unfold restartIndexed
  rw [C.k.vals, bootstrap_congr A C.k.roots, hb2]
  rfl

/-- any number of restarts of a running instance: nothing emitted, no seal, only the election changes -/
theorem restarts_sim {N : Net} {vals : Vals} {app : App} (G : GOK N vals) {done : List Nat}
    {blocks : List (Nat × Nat)} (n : Nat) : ∀ (o : OState) (v : VState) (evs : List Nat) (out : List Block),
    CInv N vals ⟨o, v, evs⟩ → OInv N vals done blocks o → OpenEl N vals o (fun _ => False) →
    ∃ el', restartsIx app n ⟨o, v, evs⟩ out = some (⟨{ o with el := el' }, v, evs⟩, out, false) ∧
      CInv N vals ⟨{ o with el := el' }, v, evs⟩ ∧ OpenEl N vals { o with el := el' } (fun _ => False) := by
  induction n with
  | zero => intro o v evs out C _ O; exact ⟨o.el, rfl, C, O⟩
  | succ k ih =>
    intro o v evs out C I O
    obtain ⟨el₂, hb, O₂⟩ := restart_open (ctx_unsealed G app) I O
    obtain ⟨hr, C₂⟩ := restart_sim_seal G C hb
    have I₂ : OInv N vals done blocks { o with el := el₂ } := ⟨I.vals_eq, I.table, I.closed, I.ldf, I.frames, I.atropoi⟩
    obtain ⟨el', h1, h2, h3⟩ := ih { o with el := el₂ } v evs out C₂ I₂ O₂
    refine ⟨el', ?_, h2, h3⟩
    simp only [restartsIx, hr, Bool.false_eq_true, if_false, List.map_nil, List.append_nil]
    exact h1

end Compose
