import LachesisVerif.Proofs.RefEquivK
import LachesisVerif.Proofs.OrdererFinal
/-!
# Reference equivalence, part L: model blocks = reference blocks (one epoch)

`model_eq_reference`: let the executable reference accept the events `evs` of one epoch (any order it
accepts, no seals; `Run`), ending in state `s` with blocks `out`. Let the implementation-level model
(`Model.Orderer.process`, fed by `runIds`) process the events of the net of `s` in ANY parents-first
order covering all of them, under the hypotheses `Ctx` of L5 (valid history, forkers below one third,
frames < 2^31, canonical validator record, forkless-cause oracle = the graph relation, no seals).
Then the model accepts every event and its `(frame, Atropos)` sequence is the reference's (the
reference names the Atropos by protocol number, the model by position: `(s.ev a).n`).

Both sequences are the Atropoi of the Prop-level rules for the frames 1, 2, … up to the first frame
without Atropos (`reference_blocks`, `OrdererProofs.L5_run`), and the Atropos is unique.

## Summary of parts H–L (namespace `RefEquiv`)

frames (H): `spf_netOf`, `mem_rootsAt`, `quorumOn_iff`, `allowed_iff`, `allowed_iff_C04`,
`allowed_eq_frameAccepted`, `maxFrame_eq_calcFrameIdx`, `maxFrame_spec`; votes (I): `VotesOK`,
`votesOK_first`, `votesOK_step`; election (J): `electionFrom_spec`, `atroposSpec_cases`,
`atroposSpec_sound`, `atroposSpec_complete`, `atroposSpec_iff`, `atroposSpec_undecided_iff`;
loop and runs (K): `decideLoop_spec`, `process_ok`, `process_accepts_iff`, `framesAccepted_insert`,
`Run`, `run_inv`; here: `reference_blocks`, `model_eq_reference`.

## Not proved

* Seals / several epochs (`decideLoop` with a non-empty seal list, `Inst.fresh` of the next epoch).
* The `events` field of a block (newly confirmed ancestry, `sortNat`) is part M (`reference_delivered`).
* The index → validator-id map of the cheater list is the reference's own `idOf`.
* Uniqueness of protocol numbers is not assumed anywhere (blocks are tied to positions).
-/
namespace RefEquiv
open Spec.Lachesis VecProofs ElectionRules OrdererProofs Model.Pos Model.Election Model.Orderer
open Spec.Lachesis.Inst (Block)

/-- the reference's blocks, by index: block `i` has frame `i + 1`, its Atropos is the protocol number
    of the position `a` with `IsAtropos (i + 1) a`, its cheaters are the validators (canonical order,
    as ids) with a fork visible in the ancestry of `a`; under BFT the next frame has no Atropos -/
theorem reference_blocks {ep : Nat} {rvals : List (Nat × Nat)} {evs : List Ev} {s : Inst} {out : List Block}
    (hrun : Run ep rvals evs s out) :
    s.ldf = out.length ∧
    (∀ i (h : i < out.length), (out[i]).frame = i + 1 ∧ (out[i]).sealed = false ∧
      ∃ a, a < s.size ∧ (out[i]).atropos = (s.ev a).n ∧ (netOf s).IsAtropos (i + 1) a ∧
        (out[i]).cheaters = ((List.range s.nv).filter (fun v => bit (s.forksOf a) v)).map s.idOf ∧
        ∀ v, bit (s.forksOf a) v = true ↔ ForkSeen (histOf s) a v) ∧
    ((netOf s).BFT → ∀ a, ¬ (netOf s).IsAtropos (out.length + 1) a) := by
  have I := run_inv hrun
  refine ⟨I.ldf, fun i h => ?_, I.stop⟩
  obtain ⟨h1, _, h3, a, ha, h4, h5, h6⟩ := blocksFrom_get s 0 out I.blocks i h
  rw [show 0 + 1 + i = i + 1 by omega] at h1 h5
  exact ⟨h1, h3, a, ha, h4, h5, h6, fun v => I.good.finv a v ha⟩

/-- the model side of `C10_model_eq_rules_partial` -/
theorem model_blocks {N : Net} {vals : Vals} {env : Env} (C : Ctx N vals env) (ep : Nat)
    (ids : List Nat) (hpf : PFFrom N [] ids) (hall : ∀ e, e < N.h.length → e ∈ ids) :
    ∃ sm ds, runIds N env ids (initial ep vals) [] = some (sm, ds) ∧ sm.ldf = ds.length ∧
      (∀ i (h : i < ds.length), (ds[i]).frame = i + 1 ∧ N.IsAtropos (i + 1) (ds[i]).atropos) ∧
      ∀ a, ¬ N.IsAtropos (ds.length + 1) a := by
  obtain ⟨sm, ds, h, I, O⟩ := L5_run C ep ids hpf
  refine ⟨sm, ds, h, by rw [I.ldf, List.length_map], ?_, ?_⟩
  · intro i hi
    have hi' : i < (ds.map blk).length := by rw [List.length_map]; exact hi
    have f1 := I.frames i hi'
    have a1 := I.atropoi _ (List.getElem_mem hi')
    rw [List.getElem_map] at f1 a1
    have f1' : (ds[i]).frame = i + 1 := f1
    exact ⟨f1', by rw [← f1']; exact a1⟩
  · intro a
    have := no_next_atropos C I O (fun e he => List.mem_reverse.2 (hall e he)) a
    rw [List.length_map] at this
    exact this

/-- model blocks = reference blocks, as `(frame, Atropos)` sequences, for every parents-first order -/
theorem model_eq_reference {ep : Nat} {rvals : List (Nat × Nat)} {evs : List Ev} {s : Inst} {out : List Block}
    (hrun : Run ep rvals evs s out) {vals : Vals} {env : Env} (C : Ctx (netOf s) vals env) (mep : Nat)
    (ids : List Nat) (hpf : PFFrom (netOf s) [] ids) (hall : ∀ e, e < s.size → e ∈ ids) :
    ∃ sm ds, runIds (netOf s) env ids (initial mep vals) [] = some (sm, ds) ∧ sm.ldf = s.ldf ∧
      ds.map (fun d => (d.frame, (s.ev d.atropos).n)) = out.map (fun b => (b.frame, b.atropos)) := by
  obtain ⟨sm, ds, hm, hldf, hds, hlast⟩ := model_blocks C mep ids hpf
    (fun e he => hall e (by rw [length_netOf] at he; exact he))
  obtain ⟨rldf, hout, hstop⟩ := reference_blocks hrun
  have hlen : ds.length = out.length := by
    rcases Nat.lt_trichotomy ds.length out.length with hlt | heq | hgt
    · obtain ⟨_, _, a, _, _, hat, _⟩ := hout ds.length hlt
      exact absurd hat (hlast a)
    · exact heq
    · exact absurd (hds out.length hgt).2 (hstop C.hbft _)
  refine ⟨sm, ds, hm, by rw [hldf, rldf, hlen], ?_⟩
  apply List.ext_getElem
  · rw [List.length_map, List.length_map, hlen]
  · intro i h1 h2
    rw [List.getElem_map, List.getElem_map]
    rw [List.length_map] at h1 h2
    obtain ⟨f1, hat1⟩ := hds i h1
    obtain ⟨f2, _, a, _, ha, hat2, _⟩ := hout i h2
    have := (netOf s).atroposUnique_holds C.hv C.hfa C.hbft (i + 1) _ _ hat1 hat2
    rw [f1, f2, ha, this]

/-! ### canonical model inputs, the reference's own order -/

open Classical in
/-- the canonical environment of a net: the forkless-cause oracle answers the graph relation,
    event ids are their own sort keys, the application never seals -/
noncomputable def canonEnv (N : Net) : Env :=
  { observe := fun a b => decide (N.FC a b), idKey := fun x => x, sealAt := fun _ _ => none }

/-- `Ctx` holds for the canonical validator record and environment of every valid net with accepted
    and bounded frames, forkers below one third and total weight ≤ 2^31 - 1 -/
theorem ctx_canon (N : Net) (hv : Valid N.nVals N.h) (hfa : N.FramesAccepted) (hbft : N.BFT)
    (hb : FrameBound N) (htot : N.total ≤ 2147483647) :
    Ctx N (ElectionRefine.canonVals N) (canonEnv N) :=
  { hv := hv, hfa := hfa, hbft := hbft, hb := hb
    ok := (ElectionRefine.setup_exists N 1 hv hfa hbft htot (by decide)).vals
    obs := (ElectionRefine.setup_exists N 1 hv hfa hbft htot (by decide)).obs
    noseal := fun _ _ => rfl }

/-- the positions in ascending order are a parents-first order -/
theorem pfFrom_range' (N : Net) (hv : Valid N.nVals N.h) : ∀ (n k : Nat) (done : List Nat),
    k + n = N.h.length → (∀ x, x < k → x ∈ done) → (∀ x ∈ done, x < k) → PFFrom N done (List.range' k n) := by
  intro n
  induction n with
  | zero => intro k done _ _ _; exact trivial
  | succ n ih =>
    intro k done hlen hall hlt
    rw [List.range'_succ]
    refine ⟨by omega, fun hk => absurd (hlt k hk) (Nat.lt_irrefl _), ?_, ?_⟩
    · intro x hx hne
      have := ElectionRules.anc_le hv hx
      exact hall x (by omega)
    · apply ih (k + 1) (k :: done) (by omega)
      · intro x hx
        by_cases hxk : x = k
        · subst hxk; exact List.mem_cons_self
        · exact List.mem_cons_of_mem _ (hall x (by omega))
      · intro x hx
        rcases List.mem_cons.1 hx with rfl | hx
        · omega
        · have := hlt x hx; omega

theorem pfFrom_range (N : Net) (hv : Valid N.nVals N.h) : PFFrom N [] (List.range N.h.length) := by
  rw [List.range_eq_range']
  exact pfFrom_range' N hv N.h.length 0 [] (by omega) (fun x hx => by omega) (fun x hx => by cases hx)

/-- model blocks = reference blocks with every hypothesis on the graph discharged by the run itself:
    what remains is BFT, the 31-bit bounds and the canonical model inputs. The model processes the
    events in the order in which the reference accepted them. -/
theorem model_eq_reference_canon {ep : Nat} {rvals : List (Nat × Nat)} {evs : List Ev} {s : Inst}
    {out : List Block} (hrun : Run ep rvals evs s out) (hbft : (netOf s).BFT)
    (hb : FrameBound (netOf s)) (htot : (netOf s).total ≤ 2147483647) (mep : Nat) :
    ∃ sm ds, runIds (netOf s) (canonEnv (netOf s)) (List.range s.size)
        (initial mep (ElectionRefine.canonVals (netOf s))) [] = some (sm, ds) ∧ sm.ldf = s.ldf ∧
      ds.map (fun d => (d.frame, (s.ev d.atropos).n)) = out.map (fun b => (b.frame, b.atropos)) := by
  have I := run_inv hrun
  have C := ctx_canon (netOf s) I.valid I.fa hbft hb htot
  have hpf := pfFrom_range (netOf s) I.valid
  rw [length_netOf] at hpf
  exact model_eq_reference hrun C mep (List.range s.size) hpf (fun e he => List.mem_range.2 he)

/-! ### non-vacuity: a run of the reference (one validator, one accepted event) for which all
hypotheses of `model_eq_reference_canon` hold. (`Array.findIdx?` inside `posOf` does not reduce in the
kernel, so longer runs cannot be evaluated by `decide`; the `cons` stream runs them natively.) -/

def exV1 : List (Nat × Nat) := [(7, 1)]
def exE0 : Ev := { n := 10, epoch := 1, creator := 7, seq := 1, lamport := 1, frame := 1, parents := [] }

theorem exRun1 : ∃ s out, Run 1 exV1 [exE0] s out := by
  have h : (insertL (start 1 exV1) exE0).isSome = true := by decide
  obtain ⟨s1, hs1⟩ := Option.isSome_iff_exists.1 h
  rw [← insert_eq_insertL] at hs1
  have hal : s1.allowed (start 1 exV1).size = true := by
    unfold Inst.allowed
    simp only []
    rw [ev_insert_new hs1, if_pos (by decide)]
    decide
  obtain ⟨s', bs, hp⟩ := ((process_accepts_iff [] (s := start 1 exV1) rfl hs1).1).2 hal
  have g : GoodEv (start 1 exV1) exE0 :=
    ⟨by decide, by decide, fun _ p hp => by rw [parentPos_eq_L] at hp; exact absurd hp List.not_mem_nil,
     fun h => absurd h (by decide)⟩
  exact ⟨s', [] ++ bs, Run.snoc Run.nil g hp⟩

theorem exRun1_hyps {s : Inst} {out : List Block} (h : Run 1 exV1 [exE0] s out) :
    (netOf s).BFT ∧ FrameBound (netOf s) ∧ (netOf s).total ≤ 2147483647 := by
  have hevs : s.evs = #[exE0] := Array.ext' (run_evs h)
  have hvals := run_vals h
  have hsize : s.size = 1 := by unfold Inst.size; rw [hevs]; rfl
  have htot : (netOf s).total = 1 := by
    rw [total_netOf]; unfold Inst.total; rw [hvals]; rfl
  refine ⟨?_, ?_, by omega⟩
  · unfold Net.BFT
    have h0 : (netOf s).weightOf (netOf s).Forker = 0 := by
      apply Net.weightOf_zero
      rintro v _ ⟨x, y, hne, hx, hy, _⟩
      rw [length_netOf, hsize] at hx hy
      omega
    rw [h0, htot]; decide
  · intro e he
    rw [length_netOf, hsize] at he
    have he0 : e = 0 := by omega
    subst he0
    show (s.ev 0).frame < 2147483648
    unfold Inst.ev; rw [hevs]
    decide

/-- hence the model, fed that event, emits the reference's blocks -/
example : ∃ s out, Run 1 exV1 [exE0] s out ∧
    ∃ sm ds, runIds (netOf s) (canonEnv (netOf s)) (List.range s.size)
        (initial 1 (ElectionRefine.canonVals (netOf s))) [] = some (sm, ds) ∧ sm.ldf = s.ldf ∧
      ds.map (fun d => (d.frame, (s.ev d.atropos).n)) = out.map (fun b => (b.frame, b.atropos)) := by
  obtain ⟨s, out, h⟩ := exRun1
  obtain ⟨h1, h2, h3⟩ := exRun1_hyps h
  exact ⟨s, out, h, model_eq_reference_canon h h1 h2 h3 1⟩

end RefEquiv
