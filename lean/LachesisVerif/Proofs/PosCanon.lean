import LachesisVerif.Model.PosCanon
import LachesisVerif.Props.C11
/-! Helper lemmas for C12 (canonical order, builder invariants). -/
namespace Proofs.PosCanon
open Model.Pos Model.PosCanon Model.Enc

/-- the canonical order as a relation -/
def Sorted (l : Pairs) : Prop := l.Pairwise (fun a b => less a b = true)

/-- `less` spelled out (unfolds the regenerated kernels of validators.Less) -/
theorem less_iff (a b : Nat × Nat) : less a b = true ↔ (a.2 > b.2 ∨ (a.2 = b.2 ∧ a.1 < b.1)) := by
  unfold less Gen.Pos.lessCond Gen.Pos.lessThen Gen.Pos.lessElse
  by_cases h : a.2 = b.2
  · simp [h]
  · simp [h]

theorem less_asymm {a b : Nat × Nat} (h : less a b = true) : less b a = false := by
  have := (less_iff a b).1 h
  cases hb : less b a
  · rfl
  · have := (less_iff b a).1 hb; omega

theorem less_trans {a b c : Nat × Nat} (h₁ : less a b = true) (h₂ : less b c = true) : less a c = true := by
  have := (less_iff a b).1 h₁
  have := (less_iff b c).1 h₂
  exact (less_iff a c).2 (by omega)

theorem less_total {a b : Nat × Nat} (h : a ≠ b) : less a b = true ∨ less b a = true := by
  rw [less_iff, less_iff]
  have : a.1 ≠ b.1 ∨ a.2 ≠ b.2 := by
    by_cases h1 : a.1 = b.1
    · right; intro h2; exact h (Prod.ext h1 h2)
    · left; exact h1
  omega

/-- Two sorted permutations of the same list are equal (the order is asymmetric). -/
theorem sorted_perm_eq : ∀ {l₁ l₂ : Pairs}, l₁.Perm l₂ → Sorted l₁ → Sorted l₂ → l₁ = l₂
  | [], l₂, hp, _, _ => (List.Perm.nil_eq hp)
  | a :: t₁, [], hp, _, _ => by simpa using hp.length_eq
  | a :: t₁, b :: t₂, hp, h₁, h₂ => by
    have hab : a = b := by
      by_cases hab : a = b
      · exact hab
      · exfalso
        have ha : a ∈ t₂ := by
          have : a ∈ b :: t₂ := hp.subset List.mem_cons_self
          rcases List.mem_cons.1 this with h | h
          · exact absurd h hab
          · exact h
        have hb : b ∈ t₁ := by
          have : b ∈ a :: t₁ := hp.symm.subset List.mem_cons_self
          rcases List.mem_cons.1 this with h | h
          · exact absurd h.symm hab
          · exact h
        have l1 : less a b = true := (List.pairwise_cons.1 h₁).1 b hb
        have l2 : less b a = true := (List.pairwise_cons.1 h₂).1 a ha
        rw [less_asymm l1] at l2
        cases l2
    subst hab
    have ht : t₁ = t₂ := sorted_perm_eq (List.Perm.cons_inv hp) (List.pairwise_cons.1 h₁).2 (List.pairwise_cons.1 h₂).2
    rw [ht]

theorem insertSorted_perm (x : Nat × Nat) (l : Pairs) : (insertSorted x l).Perm (x :: l) := by
  induction l with
  | nil => exact List.Perm.refl _
  | cons y ys ih =>
    unfold insertSorted
    split
    · exact List.Perm.refl _
    · exact (List.Perm.cons y ih).trans (List.Perm.swap x y ys)

theorem insertSorted_sorted (x : Nat × Nat) (l : Pairs) (hs : Sorted l) (hx : x ∉ l) :
    Sorted (insertSorted x l) := by
  induction l with
  | nil => simp [insertSorted, Sorted]
  | cons y ys ih =>
    unfold insertSorted
    have hy := List.pairwise_cons.1 hs
    by_cases hxy : less x y = true
    · rw [if_pos hxy]
      refine List.pairwise_cons.2 ⟨?_, hs⟩
      intro z hz
      rcases List.mem_cons.1 hz with rfl | hz
      · exact hxy
      · exact less_trans hxy (hy.1 z hz)
    · rw [if_neg hxy]
      have hne : x ≠ y := fun h => hx (h ▸ List.mem_cons_self)
      have hyx : less y x = true := by
        rcases less_total hne with h | h
        · exact absurd h hxy
        · exact h
      refine List.pairwise_cons.2 ⟨?_, ih hy.2 (fun h => hx (List.mem_cons_of_mem _ h))⟩
      intro z hz
      have : z ∈ x :: ys := (insertSorted_perm x ys).subset hz
      rcases List.mem_cons.1 this with rfl | hz
      · exact hyx
      · exact hy.1 z hz

theorem sortPairs_perm (b : Pairs) : (sortPairs b).Perm b := by
  induction b with
  | nil => exact List.Perm.refl _
  | cons x xs ih =>
    show (insertSorted x (sortPairs xs)).Perm (x :: xs)
    exact (insertSorted_perm x _).trans (List.Perm.cons x ih)

theorem sortPairs_sorted (b : Pairs) (hnd : b.Nodup) : Sorted (sortPairs b) := by
  induction b with
  | nil => simp [sortPairs, Sorted]
  | cons x xs ih =>
    have h := List.nodup_cons.1 hnd
    show Sorted (insertSorted x (sortPairs xs))
    exact insertSorted_sorted x _ (ih h.2) (fun hm => h.1 ((sortPairs_perm xs).subset hm))

/-- the builder written with the regenerated zero test is C11's `set` -/
theorem setK_eq_set (b : Pairs) (id w : Nat) : setK b id w = Model.Pos.set b id w := by
  unfold setK Model.Pos.set Gen.PosBig.setDeletes
  by_cases h : w = 0 <;> simp [h]

/-- builder invariant: a Go map — distinct ids — that never stores a zero weight -/
structure BInv (b : Pairs) : Prop where
  nodup : (b.map (·.1)).Nodup
  nonzero : ∀ p ∈ b, p.2 ≠ 0

theorem nodup_of_binv {b : Pairs} (h : BInv b) : b.Nodup := by
  have := h.nodup
  generalize b = l at this
  induction l with
  | nil => exact List.nodup_nil
  | cons p ps ih =>
    simp only [List.map_cons, List.nodup_cons] at this ⊢
    exact ⟨fun hm => this.1 (List.mem_map_of_mem hm), ih this.2⟩

theorem getW_cons (p : Nat × Nat) (ps : Pairs) (id : Nat) :
    getW (p :: ps) id = if p.1 = id then p.2 else getW ps id := by
  unfold getW
  by_cases h : p.1 = id
  · simp [h]
  · simp [h]

theorem getW_filter_eq (b : Pairs) (id : Nat) : getW (b.filter (fun p => p.1 != id)) id = 0 := by
  induction b with
  | nil => rfl
  | cons p ps ih =>
    by_cases h : p.1 = id
    · simp [h]; exact ih
    · have : (p.1 != id) = true := by simp [h]
      rw [List.filter_cons, if_pos this, getW_cons, if_neg h]; exact ih

theorem getW_filter_ne (b : Pairs) (id id' : Nat) (hne : id' ≠ id) :
    getW (b.filter (fun p => p.1 != id)) id' = getW b id' := by
  induction b with
  | nil => rfl
  | cons p ps ih =>
    by_cases h : p.1 = id
    · have h' : ¬ p.1 = id' := fun e => hne (e.symm.trans h)
      have : (p.1 != id) = false := by simp [h]
      rw [List.filter_cons, this, getW_cons, if_neg h']; simpa using ih
    · have : (p.1 != id) = true := by simp [h]
      rw [List.filter_cons, if_pos this, getW_cons, getW_cons, ih]

theorem getW_append_single (f : Pairs) (id w id' : Nat) (hf : ∀ p ∈ f, p.1 ≠ id) :
    getW (f ++ [(id, w)]) id' = if id' = id then w else getW f id' := by
  induction f with
  | nil =>
    rw [List.nil_append, getW_cons]
    by_cases h : id = id'
    · simp [h]
    · have : ¬ id' = id := fun e => h e.symm
      simp [h, this, getW]
  | cons p ps ih =>
    have hp := hf p List.mem_cons_self
    rw [List.cons_append, getW_cons, getW_cons, ih (fun q hq => hf q (List.mem_cons_of_mem _ hq))]
    by_cases h : p.1 = id'
    · have : ¬ id' = id := fun e => hp (h.trans e)
      simp [h, this]
    · simp [h]

theorem find_filter_none (b : Pairs) (id : Nat) :
    (b.filter (fun p => p.1 != id)).find? (fun p => p.1 == id) = none := by
  rw [List.find?_eq_none]
  intro x hx
  have := (List.mem_filter.1 hx).2
  simpa using this

/-- `Set` is a map update: afterwards `id` reads `w`, every other id reads as before. -/
theorem getW_setK (b : Pairs) (id w id' : Nat) :
    getW (setK b id w) id' = if id' = id then w else getW b id' := by
  unfold setK Gen.PosBig.setDeletes
  by_cases hw : w = 0
  · simp only [hw, decide_true, if_true]
    by_cases h : id' = id
    · rw [if_pos h, h]; exact getW_filter_eq b id
    · rw [if_neg h]; exact getW_filter_ne b id id' h
  · simp only [hw, decide_false, Bool.false_eq_true, if_false]
    rw [getW_append_single]
    · by_cases h : id' = id
      · simp [h]
      · simp only [h, if_false]; exact getW_filter_ne b id id' h
    · intro p hp
      have := (List.mem_filter.1 hp).2
      simpa using this

theorem binv_filter {b : Pairs} (h : BInv b) (id : Nat) : BInv (b.filter (fun p => p.1 != id)) := by
  constructor
  · have hs : ((b.filter (fun p => p.1 != id)).map (·.1)).Sublist (b.map (·.1)) :=
      (List.filter_sublist).map _
    exact hs.nodup h.nodup
  · intro p hp; exact h.nonzero p (List.mem_filter.1 hp).1

theorem binv_setK {b : Pairs} (h : BInv b) (id w : Nat) : BInv (setK b id w) := by
  unfold setK Gen.PosBig.setDeletes
  by_cases hw : w = 0
  · simp only [hw, decide_true, if_true]; exact binv_filter h id
  · simp only [hw, decide_false, Bool.false_eq_true, if_false]
    have hf := binv_filter h id
    constructor
    · rw [List.map_append, List.nodup_append]
      refine ⟨hf.nodup, by simp, ?_⟩
      intro a ha c hc
      simp at hc
      subst hc
      rcases List.mem_map.1 ha with ⟨p, hp, rfl⟩
      have := (List.mem_filter.1 hp).2
      simpa using this
    · intro p hp
      rcases List.mem_append.1 hp with hp | hp
      · exact hf.nonzero p hp
      · simp at hp; subst hp; exact hw

theorem binv_nil : BInv [] := ⟨by simp, by simp⟩

theorem binv_applySets_from (ops : List (Nat × Nat)) (b : Pairs) (h : BInv b) :
    BInv (ops.foldl (fun b p => setK b p.1 p.2) b) := by
  induction ops generalizing b with
  | nil => exact h
  | cons o os ih => exact ih _ (binv_setK h o.1 o.2)

theorem binv_applySets (ops : List (Nat × Nat)) : BInv (applySets ops) :=
  binv_applySets_from ops [] binv_nil

theorem getW_foldl (ops : List (Nat × Nat)) (b : Pairs) (id : Nat) :
    getW (ops.foldl (fun b p => setK b p.1 p.2) b) id =
      ops.foldl (fun w p => if p.1 = id then p.2 else w) (getW b id) := by
  induction ops generalizing b with
  | nil => rfl
  | cons o os ih =>
    simp only [List.foldl_cons]
    rw [ih, getW_setK]
    by_cases h : o.1 = id
    · simp [h]
    · have : ¬ id = o.1 := fun e => h e.symm
      simp [h, this]

/-- the builder denotes the map "last weight set" -/
theorem getW_applySets (ops : List (Nat × Nat)) (id : Nat) : getW (applySets ops) id = finalW ops id :=
  getW_foldl ops [] id

theorem mem_iff_getW {b : Pairs} (h : BInv b) (id w : Nat) : (id, w) ∈ b ↔ w ≠ 0 ∧ getW b id = w := by
  induction b with
  | nil => simp [getW]; intro h1 h2; exact h1 h2.symm
  | cons p ps ih =>
    have hps : BInv ps := ⟨(List.nodup_cons.1 h.nodup).2, fun q hq => h.nonzero q (List.mem_cons_of_mem _ hq)⟩
    have hp0 := h.nonzero p List.mem_cons_self
    have hnot : p.1 ∉ ps.map (·.1) := (List.nodup_cons.1 h.nodup).1
    rw [getW_cons, List.mem_cons]
    by_cases he : p.1 = id
    · rw [if_pos he]
      constructor
      · rintro (h1 | h1)
        · rw [← h1] at hp0 ⊢; exact ⟨hp0, rfl⟩
        · exact absurd (List.mem_map_of_mem (f := (·.1)) h1) (he ▸ hnot)
      · rintro ⟨_, h2⟩
        left; exact Prod.ext he.symm h2.symm
    · rw [if_neg he, ← ih hps]
      constructor
      · rintro (h1 | h1)
        · exact absurd (congrArg Prod.fst h1).symm he
        · exact h1
      · exact Or.inr

/-- two builders denoting the same map hold the same pairs, up to order -/
theorem perm_of_same_getW {b₁ b₂ : Pairs} (h₁ : BInv b₁) (h₂ : BInv b₂)
    (h : ∀ id, getW b₁ id = getW b₂ id) : b₁.Perm b₂ := by
  rw [List.perm_ext_iff_of_nodup (nodup_of_binv h₁) (nodup_of_binv h₂)]
  intro ⟨id, w⟩
  rw [mem_iff_getW h₁, mem_iff_getW h₂, h id]

/-! ### RLP round trip -/

theorem beBytes_length (k n : Nat) : (beBytes k n).length = k := by
  induction k with
  | zero => rfl
  | succ k ih => simp [beBytes, ih]

theorem foldl_be (k n a : Nat) :
    (beBytes k n).foldl (fun a b => a * 256 + b) a = a * 256 ^ k + n % 256 ^ k := by
  induction k generalizing a with
  | zero => simp [beBytes, Nat.mod_one]
  | succ k ih =>
    simp only [beBytes, List.foldl_cons, ih]
    rw [Nat.mod_pow_succ, Nat.pow_succ]
    rw [Nat.add_mul, Nat.mul_assoc, Nat.mul_comm 256 (256 ^ k), Nat.mul_comm (n / 256 ^ k % 256)]
    omega

theorem be_roundtrip (k n : Nat) (h : n < 256 ^ k) : beVal (beBytes k n) = n := by
  unfold beVal
  rw [foldl_be, Nat.mod_eq_of_lt h]
  simp

/-- the minimal big-endian form has no leading zero byte -/
theorem beBytes_head (k n : Nat) (hk : 1 ≤ k) (hlo : 256 ^ (k - 1) ≤ n) (hhi : n < 256 ^ k) :
    (beBytes k n ++ rest).headD 0 ≠ 0 := by
  cases k with
  | zero => omega
  | succ k =>
    simp only [beBytes, List.cons_append, List.headD_cons]
    simp only [Nat.add_sub_cancel] at hlo
    have hpos : 0 < 256 ^ k := Nat.pow_pos (by decide)
    have h1 : 1 ≤ n / 256 ^ k := (Nat.le_div_iff_mul_le hpos).2 (by omega)
    have h2 : n / 256 ^ k < 256 := (Nat.div_lt_iff_lt_mul hpos).2 (by rw [Nat.pow_succ, Nat.mul_comm] at hhi; exact hhi)
    omega

theorem byteLen_spec (n : Nat) (h0 : 0 < n) (h : n < 18446744073709551616) :
    256 ^ (byteLen n - 1) ≤ n ∧ n < 256 ^ byteLen n ∧ 1 ≤ byteLen n ∧ byteLen n ≤ 8 := by
  unfold byteLen
  repeat' split
  all_goals (refine ⟨?_, ?_, ?_, ?_⟩ <;> simp <;> omega)

theorem byteLen_le4 (n : Nat) (h : n < 4294967296) : byteLen n ≤ 4 := by
  unfold byteLen
  repeat' split
  all_goals omega

theorem take_append_be (k n : Nat) (rest : Bytes) : (beBytes k n ++ rest).take k = beBytes k n := by
  have := beBytes_length k n
  rw [List.take_append_of_le_length (by omega), List.take_of_length_le (by omega)]

theorem drop_append_be (k n : Nat) (rest : Bytes) : (beBytes k n ++ rest).drop k = rest := by
  have := beBytes_length k n
  rw [List.drop_append_of_le_length (by omega), List.drop_of_length_le (by omega), List.nil_append]

theorem decUint_encUint (n : Nat) (h : n < 4294967296) (rest : Bytes) :
    decUint (encUint n ++ rest) = some (n, rest) := by
  unfold encUint
  by_cases h0 : n = 0
  · subst h0; simp [decUint, beVal]
  · rw [if_neg h0]
    by_cases h1 : n < 128
    · rw [if_pos h1]; simp [decUint, h1, h0]
    · rw [if_neg h1]
      have hs := byteLen_spec n (by omega) (by omega)
      have h4 := byteLen_le4 n h
      generalize hk : byteLen n = k at hs h4
      have hhead := beBytes_head (rest := rest) k n hs.2.2.1 hs.1 hs.2.1
      have hlen := beBytes_length k n
      simp only [List.cons_append, decUint]
      rw [if_neg (by omega), if_pos (by omega)]
      simp only [Nat.add_sub_cancel_left]
      rw [if_neg (by omega), if_neg (by rw [List.length_append]; omega)]
      rw [take_append_be, drop_append_be, be_roundtrip k n hs.2.1]
      have hb : ((beBytes k n ++ rest).headD 0 == 0) = false := by simpa using hhead
      have hv : decide (n < 128) = false := by simpa using h1
      rw [hb, hv]
      simp

theorem decListHeader_enc (len : Nat) (h : len < 18446744073709551616) (rest : Bytes) :
    decListHeader (encListHeader len ++ rest) = some (len, rest) := by
  unfold encListHeader
  by_cases h1 : len < 56
  · rw [if_pos h1]
    simp only [List.cons_append, List.nil_append, decListHeader]
    rw [if_neg (by omega), if_pos (by omega)]
    simp
  · rw [if_neg h1]
    have hs := byteLen_spec len (by omega) h
    generalize hk : byteLen len = k at hs
    have hhead := beBytes_head (rest := rest) k len hs.2.2.1 hs.1 hs.2.1
    have hlen := beBytes_length k len
    simp only [List.cons_append, decListHeader]
    rw [if_neg (by omega), if_neg (by omega)]
    simp only [Nat.add_sub_cancel_left]
    rw [if_neg (by rw [List.length_append]; omega)]
    rw [take_append_be, drop_append_be, be_roundtrip k len hs.2.1]
    have hb : ((beBytes k len ++ rest).headD 0 == 0) = false := by simpa using hhead
    have hv : decide (len < 56) = false := by simpa using h1
    rw [hb, hv]
    simp

theorem encUint_length (n : Nat) (h : n < 4294967296) : 1 ≤ (encUint n).length ∧ (encUint n).length ≤ 5 := by
  unfold encUint
  have := byteLen_le4 n h
  split
  · simp
  · split
    · simp
    · simp [beBytes_length]; omega

theorem decPair_enc (p : Nat × Nat) (h1 : p.1 < 4294967296) (h2 : p.2 < 4294967296) :
    decPair (encUint p.1 ++ encUint p.2) = some p := by
  unfold decPair
  rw [decUint_encUint p.1 h1]
  simp only
  have := decUint_encUint p.2 h2 []
  rw [List.append_nil] at this
  rw [this]
  simp

theorem encPair_length (p : Nat × Nat) (h1 : p.1 < 4294967296) (h2 : p.2 < 4294967296) :
    1 ≤ (encPair p).length ∧ (encPair p).length ≤ 11 := by
  have a := encUint_length p.1 h1
  have b := encUint_length p.2 h2
  unfold encPair encListHeader
  simp only [List.length_append]
  rw [if_pos (by omega)]
  simp; omega

theorem decItems_ne_nil (fuel : Nat) (l : Bytes) (h : l ≠ []) :
    decItems (fuel + 1) l =
      match decListHeader l with
      | none => none
      | some (len, r) =>
        if r.length < len then none
        else
          match decPair (r.take len), decItems fuel (r.drop len) with
          | some p, some ps => some (p :: ps)
          | _, _ => none := by
  cases l with
  | nil => exact absurd rfl h
  | cons b bs => rfl

def Fields32 (ps : List (Nat × Nat)) : Prop := ∀ p ∈ ps, p.1 < 4294967296 ∧ p.2 < 4294967296

theorem decItems_enc (ps : List (Nat × Nat)) (hf : Fields32 ps) (fuel : Nat) (hfuel : (encItems ps).length ≤ fuel) :
    decItems fuel (encItems ps) = some ps := by
  induction ps generalizing fuel with
  | nil => cases fuel <;> rfl
  | cons p ps ih =>
    have hp := hf p List.mem_cons_self
    have hl := encPair_length p hp.1 hp.2
    have hu1 := encUint_length p.1 hp.1
    have hu2 := encUint_length p.2 hp.2
    have e : encItems (p :: ps) = encPair p ++ encItems ps := by simp [encItems]
    rw [e] at hfuel ⊢
    rw [List.length_append] at hfuel
    cases fuel with
    | zero => omega
    | succ fuel =>
      rw [decItems_ne_nil _ _ (by intro h; have := congrArg List.length h; simp only [List.length_append, List.length_nil] at this; omega)]
      have hdec : decListHeader (encPair p ++ encItems ps) =
          some ((encUint p.1 ++ encUint p.2).length, (encUint p.1 ++ encUint p.2) ++ encItems ps) := by
        unfold encPair
        simp only [List.append_assoc]
        have := decListHeader_enc (encUint p.1 ++ encUint p.2).length (by rw [List.length_append]; omega)
          (encUint p.1 ++ (encUint p.2 ++ encItems ps))
        simpa [List.append_assoc] using this
      rw [hdec]
      simp only
      rw [if_neg (by rw [List.length_append]; omega)]
      rw [List.take_append_of_le_length (Nat.le_refl _), List.take_of_length_le (Nat.le_refl _)]
      rw [List.drop_append_of_le_length (Nat.le_refl _), List.drop_of_length_le (Nat.le_refl _), List.nil_append]
      rw [decPair_enc p hp.1 hp.2, ih (fun q hq => hf q (List.mem_cons_of_mem _ hq)) fuel (by omega)]

theorem encItems_length_le (ps : List (Nat × Nat)) (hf : Fields32 ps) : (encItems ps).length ≤ 11 * ps.length := by
  induction ps with
  | nil => simp [encItems]
  | cons p ps ih =>
    have hp := hf p List.mem_cons_self
    have := encPair_length p hp.1 hp.2
    have := ih (fun q hq => hf q (List.mem_cons_of_mem _ hq))
    have e : encItems (p :: ps) = encPair p ++ encItems ps := by simp [encItems]
    rw [e, List.length_append, List.length_cons]
    omega

theorem decPairs_enc (ps : List (Nat × Nat)) (hf : Fields32 ps) (hlen : (encItems ps).length < 18446744073709551616) :
    decPairs (encPairs ps) = some ps := by
  unfold decPairs encPairs
  rw [decListHeader_enc _ hlen]
  simp only
  rw [if_neg (by simp)]
  exact decItems_enc ps hf _ (Nat.le_refl _)

/-! ### builders filled from duplicate-free call lists; totality of `build` -/

theorem filter_ne_self (acc : Pairs) (id : Nat) (h : id ∉ acc.map (·.1)) :
    acc.filter (fun p => p.1 != id) = acc := by
  rw [List.filter_eq_self]
  intro p hp
  have : p.1 ≠ id := fun e => h (e ▸ List.mem_map_of_mem hp)
  simpa using this

/-- With distinct ids every `Set` just appends (or, for a zero weight, does nothing). -/
theorem foldl_setK_nodup (l acc : Pairs) (h : ((acc ++ l).map (·.1)).Nodup) :
    l.foldl (fun b p => setK b p.1 p.2) acc = acc ++ l.filter (fun p => p.2 != 0) := by
  induction l generalizing acc with
  | nil => simp
  | cons p ps ih =>
    have hnot : p.1 ∉ acc.map (·.1) := by
      rw [List.map_append, List.nodup_append] at h
      intro hm
      exact h.2.2 _ hm _ (by simp) rfl
    simp only [List.foldl_cons]
    have hs : setK acc p.1 p.2 = if p.2 = 0 then acc else acc ++ [p] := by
      unfold setK Gen.PosBig.setDeletes
      rw [filter_ne_self acc p.1 hnot]
      by_cases h0 : p.2 = 0 <;> simp [h0]
    rw [hs]
    by_cases h0 : p.2 = 0
    · rw [if_pos h0, ih acc (by
        rw [List.map_append] at h ⊢
        rw [List.map_cons] at h
        exact (List.nodup_append.1 h).1 |> fun ha => List.nodup_append.2 ⟨ha, (List.nodup_cons.1 (List.nodup_append.1 h).2.1).2,
          fun a ha' b hb => (List.nodup_append.1 h).2.2 a ha' b (List.mem_cons_of_mem _ hb)⟩)]
      have : (p.2 != 0) = false := by simp [h0]
      rw [List.filter_cons, this]; rfl
    · rw [if_neg h0, ih (acc ++ [p]) (by simpa [List.append_assoc] using h)]
      have : (p.2 != 0) = true := by simp [h0]
      rw [List.filter_cons, if_pos this]; simp

theorem applySets_nodup (l : Pairs) (h : (l.map (·.1)).Nodup) :
    applySets l = l.filter (fun p => p.2 != 0) := by
  unfold applySets
  rw [foldl_setK_nodup l [] (by simpa using h)]; simp

/-- re-inserting the content of a builder reproduces it -/
theorem applySets_self (l : Pairs) (h : BInv l) : applySets l = l := by
  rw [applySets_nodup l h.nodup, List.filter_eq_self]
  intro p hp; simpa using h.nonzero p hp

theorem binv_perm {a b : Pairs} (hp : a.Perm b) (h : BInv b) : BInv a :=
  ⟨((hp.map (·.1)).nodup_iff).2 h.nodup, fun p hm => h.nonzero p (hp.subset hm)⟩

theorem sumChecked_ok (ps : Pairs) (t : Nat) (h : t + (ps.map (·.2)).sum < 4294967296) :
    sumChecked ps t = some (t + (ps.map (·.2)).sum) := by
  induction ps generalizing t with
  | nil => simp [sumChecked]
  | cons p ps ih =>
    simp only [List.map_cons, List.sum_cons] at h ⊢
    have hm : (t + p.2) % 4294967296 = t + p.2 := Nat.mod_eq_of_lt (by omega)
    have hw : Gen.Pos.sumWrapped (t + p.2) t = false := by unfold Gen.Pos.sumWrapped; simp
    simp only [sumChecked, hm, hw]
    rw [ih (t + p.2) (by omega)]
    simp only [Bool.false_eq_true, if_false]
    congr 1; omega

/-- `build` succeeds exactly on the totals within the weight limit -/
theorem build_ok (b : Pairs) (h : (b.map (·.2)).sum ≤ 2147483647) :
    build b = some { sorted := sortPairs b, total := (b.map (·.2)).sum } := by
  have hs : ((sortPairs b).map (·.2)).sum = (b.map (·.2)).sum := ((sortPairs_perm b).map (·.2)).sum_nat
  unfold build total
  simp only
  rw [sumChecked_ok _ 0 (by omega), Nat.zero_add, hs]
  have : Gen.Pos.overLimit (b.map (·.2)).sum = false := (C11.limit_is_maxint32 _).2 h
  simp [this]

theorem length_le_sum (l : List Nat) (h : ∀ x ∈ l, x ≠ 0) : l.length ≤ l.sum := by
  induction l with
  | nil => simp
  | cons x xs ih =>
    have := h x List.mem_cons_self
    have := ih (fun y hy => h y (List.mem_cons_of_mem _ hy))
    simp only [List.length_cons, List.sum_cons]; omega

theorem sum_filter_ne_zero (l : Pairs) : ((l.filter (fun p => p.2 != 0)).map (·.2)).sum = (l.map (·.2)).sum := by
  induction l with
  | nil => rfl
  | cons p ps ih =>
    by_cases h : p.2 = 0
    · have : (p.2 != 0) = false := by simp [h]
      rw [List.filter_cons, this]; simp [h, ih]
    · have : (p.2 != 0) = true := by simp [h]
      rw [List.filter_cons, if_pos this]; simp [ih]

/-! ### arithmetic of the big builder -/

theorem bitLen_spec (n : Nat) : n < 2 ^ bitLen n ∧ (n ≠ 0 → 2 ^ (bitLen n - 1) ≤ n) := by
  unfold bitLen
  by_cases h : n = 0
  · simp [h]
  · rw [if_neg h]
    exact ⟨Nat.lt_log2_self, fun _ => by simpa using Nat.log2_self_le h⟩

theorem sum_div_le (l : List Nat) (d : Nat) : (l.map (· / d)).sum ≤ l.sum / d := by
  by_cases hd : d = 0
  · subst hd; simp
    induction l with
    | nil => simp
    | cons x xs ih => simpa using ih
  · have hpos : 0 < d := Nat.pos_of_ne_zero hd
    induction l with
    | nil => simp
    | cons x xs ih =>
      simp only [List.map_cons, List.sum_cons]
      rw [Nat.le_div_iff_mul_le hpos, Nat.add_mul]
      have h1 := Nat.div_mul_le_self x d
      have h2 := (Nat.le_div_iff_mul_le hpos).1 ih
      omega

theorem mem_le_sum (l : List Nat) (x : Nat) (h : x ∈ l) : x ≤ l.sum := by
  induction l with
  | nil => cases h
  | cons y ys ih =>
    simp only [List.sum_cons]
    rcases List.mem_cons.1 h with rfl | h
    · omega
    · have := ih h; omega

end Proofs.PosCanon
