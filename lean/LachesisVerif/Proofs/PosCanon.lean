import LachesisVerif.Model.PosCanon
/-! Helper lemmas for C12 (canonical order, builder invariants). -/
namespace Proofs.PosCanon
open Model.Pos Model.PosCanon

/-- the canonical order as a relation -/
def Sorted (l : Pairs) : Prop := l.Pairwise (fun a b => less a b = true)

/-- `less` spelled out (unfolds the regenerated kernels of validators.Less) -/
theorem less_iff (a b : Nat × Nat) : less a b = true ↔ (a.2 > b.2 ∨ (a.2 = b.2 ∧ a.1 < b.1)) := by
  unfold less Gen.Pos.lessCond Gen.Pos.lessThen Gen.Pos.lessElse
  by_cases h : a.2 = b.2
  · simp [h]
  · simp [h]
    omega

theorem less_asymm {a b : Nat × Nat} (h : less a b = true) : less b a = false := by
  have := (less_iff a b).1 h
  cases hb : less b a
  · rfl
  · have := (less_iff b a).1 hb; omega

theorem less_trans {a b c : Nat × Nat} (h₁ : less a b = true) (h₂ : less b c = true) : less a c = true := by
  have := (less_iff a b).1 h₁
  have := (less_iff b c).1 h₂
  exact (less_iff a c).2 (by omega)

theorem less_total {a b : Nat × Nat} (h : a ≠ b) : less a b = true ∨ less b a = true := by
  rw [less_iff, less_iff]
  have : a.1 ≠ b.1 ∨ a.2 ≠ b.2 := by
    by_cases h1 : a.1 = b.1
    · right; intro h2; exact h (Prod.ext h1 h2)
    · left; exact h1
  omega

/-- Two sorted permutations of the same list are equal (the order is asymmetric). -/
theorem sorted_perm_eq : ∀ {l₁ l₂ : Pairs}, l₁.Perm l₂ → Sorted l₁ → Sorted l₂ → l₁ = l₂
  | [], l₂, hp, _, _ => (List.Perm.nil_eq hp)
  | a :: t₁, [], hp, _, _ => by simpa using hp.length_eq
  | a :: t₁, b :: t₂, hp, h₁, h₂ => by
    have hab : a = b := by
      by_cases hab : a = b
      · exact hab
      · exfalso
        have ha : a ∈ t₂ := by
          have : a ∈ b :: t₂ := hp.subset List.mem_cons_self
          rcases List.mem_cons.1 this with h | h
          · exact absurd h hab
          · exact h
        have hb : b ∈ t₁ := by
          have : b ∈ a :: t₁ := hp.symm.subset List.mem_cons_self
          rcases List.mem_cons.1 this with h | h
          · exact absurd h.symm hab
          · exact h
        have l1 : less a b = true := (List.pairwise_cons.1 h₁).1 b hb
        have l2 : less b a = true := (List.pairwise_cons.1 h₂).1 a ha
        rw [less_asymm l1] at l2
        cases l2
    subst hab
    have ht : t₁ = t₂ := sorted_perm_eq (List.Perm.cons_inv hp) (List.pairwise_cons.1 h₁).2 (List.pairwise_cons.1 h₂).2
    rw [ht]

theorem insertSorted_perm (x : Nat × Nat) (l : Pairs) : (insertSorted x l).Perm (x :: l) := by
  induction l with
  | nil => exact List.Perm.refl _
  | cons y ys ih =>
    unfold insertSorted
    split
    · exact List.Perm.refl _
    · exact (List.Perm.cons y ih).trans (List.Perm.swap x y ys)

theorem insertSorted_sorted (x : Nat × Nat) (l : Pairs) (hs : Sorted l) (hx : x ∉ l) :
    Sorted (insertSorted x l) := by
  induction l with
  | nil => simp [insertSorted, Sorted]
  | cons y ys ih =>
    unfold insertSorted
    have hy := List.pairwise_cons.1 hs
    by_cases hxy : less x y = true
    · rw [if_pos hxy]
      refine List.pairwise_cons.2 ⟨?_, hs⟩
      intro z hz
      rcases List.mem_cons.1 hz with rfl | hz
      · exact hxy
      · exact less_trans hxy (hy.1 z hz)
    · rw [if_neg hxy]
      have hne : x ≠ y := fun h => hx (h ▸ List.mem_cons_self)
      have hyx : less y x = true := by
        rcases less_total hne with h | h
        · exact absurd h hxy
        · exact h
      refine List.pairwise_cons.2 ⟨?_, ih hy.2 (fun h => hx (List.mem_cons_of_mem _ h))⟩
      intro z hz
      have : z ∈ x :: ys := (insertSorted_perm x ys).subset hz
      rcases List.mem_cons.1 this with rfl | hz
      · exact hyx
      · exact hy.1 z hz

theorem sortPairs_perm (b : Pairs) : (sortPairs b).Perm b := by
  induction b with
  | nil => exact List.Perm.refl _
  | cons x xs ih =>
    show (insertSorted x (sortPairs xs)).Perm (x :: xs)
    exact (insertSorted_perm x _).trans (List.Perm.cons x ih)

theorem sortPairs_sorted (b : Pairs) (hnd : b.Nodup) : Sorted (sortPairs b) := by
  induction b with
  | nil => simp [sortPairs, Sorted]
  | cons x xs ih =>
    have h := List.nodup_cons.1 hnd
    show Sorted (insertSorted x (sortPairs xs))
    exact insertSorted_sorted x _ (ih h.2) (fun hm => h.1 ((sortPairs_perm xs).subset hm))

end Proofs.PosCanon
