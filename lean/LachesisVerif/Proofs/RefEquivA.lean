import LachesisVerif.Spec.Lachesis
import LachesisVerif.Spec.ElectionRules
import LachesisVerif.Proofs.VecDefs
/-!
# Reference equivalence, part A: bit-mask and fold lemmas, the shape of `Inst.insert`

The executable reference `Spec.Lachesis` (oracle of the `cons`/`vec` correspondence streams) works
with `Nat` bit masks; the theorems of the project are about the Prop-level graph rules of
`VecProofs` / `ElectionRules`. The files `RefEquivA … RefEquivG` prove that both agree on every
instance built by `Inst.insert` (final statements: `RefEquivE`, `RefEquivF`; summary: `RefEquivG`).

This file: generic lemmas about `Nat.testBit` of folds, sums, and the explicit form of the
instance returned by `Inst.insert`.
-/
namespace RefEquiv
open Spec.Lachesis

/-! ### bits -/

theorem bit_one_shl (i x : Nat) : bit (1 <<< i) x = decide (i = x) := by
  unfold bit
  rw [Nat.one_shiftLeft, Nat.testBit_two_pow]

theorem bit_or (m n x : Nat) : bit (m ||| n) x = (bit m x || bit n x) := Nat.testBit_or m n x
theorem bit_and (m n x : Nat) : bit (m &&& n) x = (bit m x && bit n x) := Nat.testBit_and m n x
theorem bit_zero (x : Nat) : bit 0 x = false := Nat.zero_testBit x

theorem ne_zero_iff_bit (m : Nat) : (m != 0) = true ↔ ∃ x, bit m x = true := by
  constructor
  · intro h
    have : m ≠ 0 := by simpa using h
    exact Nat.exists_testBit_of_ne_zero this
  · rintro ⟨x, hx⟩
    have : m ≠ 0 := by
      intro h0
      rw [h0, bit_zero] at hx
      cases hx
    simpa using this

/-- bits of an or-fold -/
theorem bit_foldl_or (f : Nat → Nat) (l : List Nat) (init x : Nat) :
    bit (l.foldl (fun m p => m ||| f p) init) x = (bit init x || l.any (fun p => bit (f p) x)) := by
  induction l generalizing init with
  | nil => simp
  | cons p ps ih =>
    rw [List.foldl_cons, ih, bit_or, List.any_cons, Bool.or_assoc]

/-- bits of a conditional single-bit fold -/
theorem bit_foldl_cond (P : Nat → Bool) (l : List Nat) (init x : Nat) :
    bit (l.foldl (fun m v => if P v then m ||| (1 <<< v) else m) init) x =
      (bit init x || l.any (fun v => decide (v = x) && P v)) := by
  induction l generalizing init with
  | nil => simp
  | cons p ps ih =>
    rw [List.foldl_cons, ih, List.any_cons]
    by_cases hp : P p = true
    · rw [if_pos hp, bit_or, bit_one_shl, hp, Bool.and_true, Bool.or_assoc]
    · have hp' : P p = false := by simpa using hp
      rw [if_neg hp, hp', Bool.and_false, Bool.false_or]

theorem bit_foldl_cond_range (P : Nat → Bool) (n x : Nat) :
    bit ((List.range n).foldl (fun m v => if P v then m ||| (1 <<< v) else m) 0) x = true ↔
      x < n ∧ P x = true := by
  rw [bit_foldl_cond, bit_zero, Bool.false_or, List.any_eq_true]
  constructor
  · rintro ⟨v, hv, h⟩
    rw [Bool.and_eq_true, decide_eq_true_eq] at h
    obtain ⟨rfl, hp⟩ := h
    exact ⟨List.mem_range.1 hv, hp⟩
  · rintro ⟨hx, hp⟩
    exact ⟨x, List.mem_range.2 hx, by simp [hp]⟩

/-! ### folds -/

theorem foldl_add_eq_sum (w : Nat → Nat) (l : List Nat) (init : Nat) :
    l.foldl (fun acc v => acc + w v) init = init + (l.map w).sum := by
  induction l generalizing init with
  | nil => simp
  | cons p ps ih => rw [List.foldl_cons, ih, List.map_cons, List.sum_cons, Nat.add_assoc]

theorem foldl_add_eq_sum' (l : List Nat) (init : Nat) :
    l.foldl (· + ·) init = init + l.sum := by
  induction l generalizing init with
  | nil => simp
  | cons p ps ih => rw [List.foldl_cons, ih, List.sum_cons, Nat.add_assoc]

/-- a max-fold from 0 is an upper bound, and is attained unless the list is empty -/
theorem foldl_max_spec (f : Nat → Nat) (l : List Nat) (init : Nat) :
    let r := l.foldl (fun acc i => max acc (f i)) init
    init ≤ r ∧ (∀ i ∈ l, f i ≤ r) ∧ (r = init ∨ ∃ i ∈ l, f i = r) := by
  induction l generalizing init with
  | nil => simp
  | cons p ps ih =>
    intro r
    have h := ih (max init (f p))
    obtain ⟨h1, h2, h3⟩ := h
    refine ⟨by have := Nat.le_max_left init (f p); exact Nat.le_trans this h1, ?_, ?_⟩
    · intro i hi
      rcases List.mem_cons.1 hi with rfl | hi
      · exact Nat.le_trans (Nat.le_max_right init (f i)) h1
      · exact h2 i hi
    · rcases h3 with h3 | ⟨i, hi, h3⟩
      · by_cases hle : f p ≤ init
        · left
          show List.foldl _ (max init (f p)) ps = init
          rw [h3]; exact Nat.max_eq_left hle
        · right
          refine ⟨p, List.mem_cons_self, ?_⟩
          show f p = List.foldl _ (max init (f p)) ps
          rw [h3]; exact (Nat.max_eq_right (by omega)).symm
      · exact Or.inr ⟨i, List.mem_cons_of_mem _ hi, h3⟩

/-! ### the shape of `Inst.insert` -/

/-- ancestry mask computed by `insert` for the new event -/
def insAm (s : Inst) (e : Ev) : Nat :=
  ((e.parents.map s.posOf).filterMap id).foldl (fun m p => m ||| s.ancOf p) (1 <<< s.size)

/-- the explicit form of the result of a successful `insert` -/
theorem insert_some {s s' : Inst} {e : Ev} (h : s.insert e = some s') :
    ∃ cv, s.idxOf e.creator = some cv ∧ (∀ n ∈ e.parents, ∃ p, s.posOf n = some p) ∧
      s'.vals = s.vals ∧ s'.evs = s.evs.push e ∧ s'.anc = s.anc.push (insAm s e) ∧
      s'.desc = (s.desc.mapIdx (fun j d => if bit (insAm s e) j then d ||| (1 <<< s.size) else d)).push
                  (1 <<< s.size) ∧
      s'.byCreator = (if cv < s.byCreator.size then s.byCreator.modify cv (· ||| (1 <<< s.size))
                      else s.byCreator) ∧
      ∃ s1 : Inst, s1.evs = s'.evs ∧ s1.byCreator = s'.byCreator ∧
        s'.forks = (s.forks.push 0).set! s.size
          ((List.range s.nv).foldl (fun m v => if s1.forkIn (insAm s e) v then m ||| (1 <<< v) else m) 0) := by
  unfold Inst.insert at h
  simp only [] at h
  split at h
  · cases h
  · rename_i hps
    split at h
    · cases h
    · rename_i cv hcv
      injection h with h
      subst h
      refine ⟨cv, hcv, ?_, rfl, rfl, rfl, rfl, rfl, ⟨_, rfl, rfl, rfl⟩⟩
      intro n hn
      cases hp : s.posOf n with
      | some p => exact ⟨p, rfl⟩
      | none =>
        exfalso
        apply hps
        rw [List.any_eq_true]
        exact ⟨none, List.mem_map.2 ⟨n, hn, hp⟩, rfl⟩

end RefEquiv
