import LachesisVerif.Proofs.RefEquivG
import LachesisVerif.Proofs.ElectionL4
import LachesisVerif.Props.C04
/-!
# Reference equivalence, part H: roots, quorum on a frame, the frame rule (C04)

For every instance satisfying the invariants of `Inst.insert` (`Good s`, parts C–E), with
`N = netOf s` (part F):

* `spf_netOf`: `selfParentFrame` is `N.spf`; `mem_rootsAt`: `rootsAt f` lists exactly the positions
  with `N.IsRoot · f` (once each, ascending: `rootsAt_pairwise`);
* `weightMask_eq`, `weight_creatorMask`: the weight of a validator mask / of the creators of a list;
* `quorumOn_iff`: `quorumOn i f` ↔ `N.quorum ≤ N.causedWeight i f (· ≠ i)`;
* `allowed_iff`: `allowed i` ↔ `N.Allowed i (frame i)` (for an event whose self-parent, if any, is its
  first parent and has a frame ≥ 1 — true in valid histories with accepted frames);
  `allowed_iff_C04`, `allowed_eq_frameAccepted`: = C04's `Allowed` = the model's `frameAccepted`;
* `maxFrame_eq_calcFrameIdx`, `maxFrame_spec`: `maxFrame` = the model's `calcFrameIdx` = the highest
  allowed frame at most 100 above the self-parent's.
-/
namespace RefEquiv
open Spec.Lachesis VecProofs Model.Vec ElectionRules

section frames
variable {s : Inst}

theorem length_netOf (s : Inst) : (netOf s).h.length = s.size := length_histOf s

theorem creator_netOf (s : Inst) {i : Nat} (h : i < s.size) : (netOf s).creator i = s.creatorIdx i :=
  creator_histOf s h

theorem seq_netOf (s : Inst) {i : Nat} (h : i < s.size) : ((netOf s).h.ev i).seq = (s.ev i).seq :=
  seq_histOf s h

theorem parents_netOf (s : Inst) {i : Nat} (h : i < s.size) :
    ((netOf s).h.ev i).parents = parentPos s (s.ev i) := by
  show ((histOf s).ev i).parents = _
  rw [ev_histOf s h]; rfl

theorem parentPos_nil (s : Inst) (e : Ev) (h : e.parents = []) : parentPos s e = [] := by
  unfold parentPos; rw [h]; rfl

theorem parentPos_cons (s : Inst) (e : Ev) {n q : Nat} {ns : List Nat} (h : e.parents = n :: ns)
    (hq : s.posOf n = some q) : ∃ qs, parentPos s e = q :: qs := by
  unfold parentPos
  rw [h, List.map_cons, hq]
  exact ⟨_, rfl⟩

/-- the self-parent frame of the reference is the one of the rules -/
theorem spf_netOf (hi : Inv s) {i : Nat} (h : i < s.size) :
    (netOf s).spf i = s.selfParentFrame (s.ev i) := by
  unfold Net.spf Inst.selfParentFrame
  rw [seq_netOf s h, parents_netOf s h]
  by_cases hs : (s.ev i).seq ≤ 1
  · rw [if_pos hs, if_pos hs]
  · rw [if_neg hs, if_neg hs]
    cases hp : (s.ev i).parents with
    | nil => rw [parentPos_nil s _ hp]
    | cons n ns =>
      obtain ⟨q, hq⟩ := hi.pok i h n (by rw [hp]; exact List.mem_cons_self)
      obtain ⟨qs, hqs⟩ := parentPos_cons s _ hp hq
      rw [hqs]
      simp only [hq]
      rfl

/-- `rootsAt f` lists exactly the roots of frame `f` -/
theorem mem_rootsAt (hi : Inv s) {f r : Nat} : r ∈ s.rootsAt f ↔ (netOf s).IsRoot r f := by
  unfold Inst.rootsAt Net.IsRoot
  rw [List.mem_filter, List.mem_range, length_netOf, Bool.and_eq_true, decide_eq_true_eq, decide_eq_true_eq]
  constructor
  · rintro ⟨h, h1, h2⟩
    exact ⟨h, by rw [spf_netOf hi h]; exact h1, h2⟩
  · rintro ⟨h, h1, h2⟩
    exact ⟨h, by rw [← spf_netOf hi h]; exact h1, h2⟩

theorem rootsAt_lt {f r : Nat} (h : r ∈ s.rootsAt f) : r < s.size := by
  unfold Inst.rootsAt at h
  exact List.mem_range.1 (List.mem_filter.1 h).1

/-- ascending, hence without repetition -/
theorem rootsAt_pairwise (s : Inst) (f : Nat) : (s.rootsAt f).Pairwise (· < ·) := by
  unfold Inst.rootsAt
  exact List.Pairwise.filter _ List.pairwise_lt_range

theorem rootsAt_zero (s : Inst) : s.rootsAt 0 = [] := by
  unfold Inst.rootsAt
  apply List.filter_eq_nil_iff.2
  intro i _
  simp

/-! ### weights of masks -/

/-- the weight of a mask of validator indices is the rules' weight of the set of its bits -/
theorem weightMask_eq (s : Inst) (m : Nat) :
    s.weightMask m = (netOf s).weightOf (fun v => bit m v = true) := by
  unfold Inst.weightMask Net.weightOf
  rw [foldl_add_eq_sum, Nat.zero_add]
  show _ = (((List.range s.nv).filter _).map s.weightIdx).sum
  congr 2
  apply List.filter_congr
  intro v _
  rw [Bool.eq_iff_iff]
  exact (@decide_eq_true_iff _ (Classical.propDecidable _)).symm

theorem bit_creatorMask (s : Inst) (l : List Nat) (v : Nat) :
    bit (l.foldl (fun m r => m ||| (1 <<< s.creatorIdx r)) 0) v = true ↔ ∃ r ∈ l, s.creatorIdx r = v := by
  rw [bit_foldl_or (fun r => 1 <<< s.creatorIdx r), bit_zero, Bool.false_or, List.any_eq_true]
  constructor
  · rintro ⟨r, hr, h⟩
    rw [bit_one_shl, decide_eq_true_eq] at h
    exact ⟨r, hr, h⟩
  · rintro ⟨r, hr, h⟩
    exact ⟨r, hr, by rw [bit_one_shl, decide_eq_true_eq]; exact h⟩

/-- the weight of the creators of a list of events -/
theorem weight_creatorMask (s : Inst) (l : List Nat) :
    s.weightMask (l.foldl (fun m r => m ||| (1 <<< s.creatorIdx r)) 0) =
      (netOf s).weightOf (fun v => ∃ r ∈ l, s.creatorIdx r = v) := by
  rw [weightMask_eq]
  apply Net.weightOf_congr
  intro v _
  exact bit_creatorMask s l v

theorem weightMask_zero (s : Inst) : s.weightMask 0 = 0 := by
  unfold Inst.weightMask
  have : (List.range s.nv).filter (bit 0) = [] := by
    apply List.filter_eq_nil_iff.2
    intro v _
    rw [bit_zero]; exact Bool.false_ne_true
  rw [this]; rfl

theorem quorum_pos (s : Inst) : 1 ≤ s.quorum := by unfold Inst.quorum; omega

/-! ### quorum on a frame, the frame rule -/

/-- no quorum on frame 0 (it has no roots) -/
theorem quorumOn_zero (s : Inst) (i : Nat) : s.quorumOn i 0 = false := by
  unfold Inst.quorumOn
  simp only []
  rw [rootsAt_zero, List.filter_nil, List.foldl_nil, weightMask_zero, decide_eq_false_iff_not]
  have := quorum_pos s
  omega

/-- `quorumOn i f`: the creators of the roots of frame `f` other than `i` that `i` forkless-causes
    hold a quorum -/
theorem quorumOn_iff (hg : Good s) {i : Nat} (h : i < s.size) (f : Nat) :
    s.quorumOn i f = true ↔ (netOf s).quorum ≤ (netOf s).causedWeight i f (fun r => r ≠ i) := by
  unfold Inst.quorumOn
  simp only []
  rw [decide_eq_true_iff, weight_creatorMask, quorum_netOf]
  have e : (netOf s).weightOf (fun v => ∃ r ∈ (s.rootsAt f).filter (fun r => r != i && s.fcSpec i r),
        s.creatorIdx r = v) = (netOf s).causedWeight i f (fun r => r ≠ i) := by
    unfold Net.causedWeight
    apply Net.weightOf_congr
    intro v _
    constructor
    · rintro ⟨r, hr, hc⟩
      rw [List.mem_filter, Bool.and_eq_true, bne_iff_ne] at hr
      obtain ⟨hr1, hne, hfc⟩ := hr
      have hlt := rootsAt_lt hr1
      exact ⟨r, (mem_rootsAt hg.inv).1 hr1, by rw [creator_netOf s hlt]; exact hc,
        (hg.fcSpec_iff_FC h hlt).1 hfc, hne⟩
    · rintro ⟨r, h1, h2, h3, h4⟩
      have hlt : r < s.size := by have := h1.1; rwa [length_netOf] at this
      refine ⟨r, ?_, by rw [← creator_netOf s hlt]; exact h2⟩
      rw [List.mem_filter, Bool.and_eq_true, bne_iff_ne]
      exact ⟨(mem_rootsAt hg.inv).2 h1, h4, (hg.fcSpec_iff_FC h hlt).2 h3⟩
  rw [e]

/-- the frame check of the reference is the frame rule of the rules. `hpar`: an event with seq > 1
    has parents and its self-parent's frame is ≥ 1 (valid history, accepted frames). -/
theorem allowed_iff (hg : Good s) {i : Nat} (h : i < s.size)
    (hpar : 1 < (s.ev i).seq → (s.ev i).parents ≠ [] ∧ 1 ≤ s.selfParentFrame (s.ev i)) :
    s.allowed i = true ↔ (netOf s).Allowed i (s.ev i).frame := by
  unfold Inst.allowed Net.Allowed
  simp only []
  rw [seq_netOf s h, spf_netOf hg.inv h]
  by_cases hs : (s.ev i).seq ≤ 1
  · rw [if_pos hs, if_pos (by simp [hs])]; exact beq_iff_eq
  · obtain ⟨hne, hspf⟩ := hpar (by omega)
    have hemp : (s.ev i).parents.isEmpty = false := by
      cases hp : (s.ev i).parents with
      | nil => exact absurd hp hne
      | cons _ _ => rfl
    rw [if_neg hs, if_neg (by simp [hs, hemp])]
    rw [Bool.and_eq_true, Bool.and_eq_true, decide_eq_true_eq, decide_eq_true_eq, List.all_eq_true]
    generalize s.selfParentFrame (s.ev i) = spf at hspf
    constructor
    · rintro ⟨⟨h1, _⟩, h3⟩
      refine ⟨h1, fun g hg1 hg2 => ?_⟩
      have := h3 (g - spf) (List.mem_range.2 (by omega))
      rw [show spf + (g - spf) = g by omega] at this
      exact (quorumOn_iff hg h g).1 this
    · rintro ⟨h1, h2⟩
      refine ⟨⟨h1, by omega⟩, fun k hk => ?_⟩
      have := List.mem_range.1 hk
      exact (quorumOn_iff hg h _).2 (h2 _ (by omega) (by omega))

/-- the self-parent frame is 0 for first events and for events without parents -/
theorem selfParentFrame_zero (s : Inst) (e : Ev) (h : (decide (e.seq ≤ 1) || e.parents.isEmpty) = true) :
    s.selfParentFrame e = 0 := by
  unfold Inst.selfParentFrame
  by_cases hs : e.seq ≤ 1
  · rw [if_pos hs]
  · rw [if_neg hs]
    cases hp : e.parents with
    | nil => rfl
    | cons _ _ => rw [hp] at h; simp [hs] at h

/-- the frame check of the reference in the form of C04 (`Q g` = `quorumOn i g`) -/
theorem allowed_iff_C04 (s : Inst) (i : Nat)
    (hsp : 1 < (s.ev i).seq → (s.ev i).parents ≠ [] → 1 ≤ s.selfParentFrame (s.ev i)) :
    s.allowed i = true ↔ C04.Allowed (s.quorumOn i) (s.selfParentFrame (s.ev i)) (s.ev i).frame := by
  unfold Inst.allowed C04.Allowed
  simp only []
  by_cases hc : (decide ((s.ev i).seq ≤ 1) || (s.ev i).parents.isEmpty) = true
  · rw [if_pos hc, if_pos (selfParentFrame_zero s _ hc)]; exact beq_iff_eq
  · have hc' := hc
    rw [Bool.or_eq_true, decide_eq_true_eq, not_or] at hc'
    have hne : (s.ev i).parents ≠ [] := by
      intro h0; rw [h0] at hc'; exact hc'.2 rfl
    have hspf := hsp (by omega) hne
    rw [if_neg hc, if_neg (by omega)]
    rw [Bool.and_eq_true, Bool.and_eq_true, decide_eq_true_eq, decide_eq_true_eq, List.all_eq_true]
    generalize s.selfParentFrame (s.ev i) = spf at hspf
    constructor
    · rintro ⟨⟨h1, _⟩, h3⟩
      refine ⟨h1, fun g hg1 hg2 => ?_⟩
      have := h3 (g - spf) (List.mem_range.2 (by omega))
      rw [show spf + (g - spf) = g by omega] at this
      exact this
    · rintro ⟨h1, h2⟩
      refine ⟨⟨h1, by omega⟩, fun k hk => ?_⟩
      have := List.mem_range.1 hk
      exact h2 _ (by omega) (by omega)

/-- the reference's frame check is the model's (`Model.Election.frameAccepted`, C04) on the same
    quorum predicate and self-parent frame -/
theorem allowed_eq_frameAccepted (s : Inst) (i : Nat)
    (hsp : 1 < (s.ev i).seq → (s.ev i).parents ≠ [] → 1 ≤ s.selfParentFrame (s.ev i)) :
    s.allowed i =
      Model.Election.frameAccepted (s.quorumOn i) (s.selfParentFrame (s.ev i)) (s.ev i).frame := by
  rw [Bool.eq_iff_iff, allowed_iff_C04 s i hsp, C04.C04_process_accepts_iff _ _ _ (quorumOn_zero s i)]

/-! ### the highest allowed frame (`Build`) -/

theorem maxFrameFrom_eq_frameLoop (s : Inst) (i : Nat) (fuel f : Nat) :
    s.maxFrameFrom i fuel f = Model.Election.frameLoop (s.quorumOn i) (f + fuel) fuel f := by
  induction fuel generalizing f with
  | zero => rfl
  | succ fuel ih =>
    unfold Inst.maxFrameFrom Model.Election.frameLoop Gen.Orderer.frameLoopCond
    rw [ih (f + 1), decide_eq_true (by omega : f < f + (fuel + 1)), Bool.true_and,
      show f + 1 + fuel = f + (fuel + 1) by omega]

/-- `maxFrame` is the model's `calcFrameIdx` in building mode -/
theorem maxFrame_eq_calcFrameIdx (s : Inst) (i : Nat) (hb : s.selfParentFrame (s.ev i) < 2147483648) :
    s.maxFrame i = Model.Election.calcFrameIdx (s.quorumOn i) (s.selfParentFrame (s.ev i)) 0 false := by
  unfold Inst.maxFrame Model.Election.calcFrameIdx Gen.Orderer.maxFrameToCheck Gen.Orderer.useClaimedBound Gen.Orderer.frameIsZero
    Gen.Orderer.frameIfZero
  simp only []
  generalize s.selfParentFrame (s.ev i) = spf at hb
  rw [maxFrameFrom_eq_frameLoop, Nat.mod_eq_of_lt (by omega : spf + 100 < 4294967296),
    if_neg Bool.false_ne_true, Nat.add_sub_cancel_left]
  generalize Model.Election.frameLoop (s.quorumOn i) (spf + 100) 100 spf = r
  by_cases hr : r = 0
  · subst hr; rfl
  · rw [if_neg (by simpa using hr), if_neg (by simpa using hr)]

/-- C04 for the reference's `Build`: the highest allowed frame, at most 100 above the self-parent's -/
theorem maxFrame_spec (s : Inst) (i : Nat) (hb : s.selfParentFrame (s.ev i) < 2147483648) :
    C04.Allowed (s.quorumOn i) (s.selfParentFrame (s.ev i)) (s.maxFrame i) ∧
    s.maxFrame i ≤ max 1 (s.selfParentFrame (s.ev i) + 100) ∧
    ∀ f, C04.Allowed (s.quorumOn i) (s.selfParentFrame (s.ev i)) f →
      f ≤ s.selfParentFrame (s.ev i) + 100 → f ≤ s.maxFrame i := by
  rw [maxFrame_eq_calcFrameIdx s i hb]
  exact C04.C04_build_max _ _ (quorumOn_zero s i) hb

end frames
end RefEquiv
