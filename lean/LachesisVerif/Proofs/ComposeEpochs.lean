import LachesisVerif.Proofs.ComposeRun
import LachesisVerif.Proofs.OrdererEpochs4
/-!
Composition, part 5: several epochs for the combined model `Model.Indexed` (Orderer over this
instance's own vector index, index reset for the new validators by a seal — `processIndexed`).

`step_sim_seal`: one `Process` call of the combined model whose application may seal, computed from
the `process` call of the Orderer model with the graph oracle and an application that never seals
(`unsealed app`; `OrdererEpochs.process_sim`, `Compose.process_congr`, `Compose.process_K`): the decided
frames are cut at the first frame at which the application seals (`OrdererEpochs.cut`), the cheater
lists are C03's sentence about the epoch's graph, and after a seal the combined state is *exactly*
`Model.Indexed.initial (epoch+1) nv` (new Orderer state, empty index for the new validators).
-/
namespace Compose
open Model.Pos Model.Election Model.Orderer Model.Vec Model.Indexed VecProofs ElectionRules ElectionRefine
open OrdererProofs OrdererEpochs

/-- the same application, never sealing (the setting of L5 and of `Compose.sim_all`) -/
def unsealed (app : App) : App := { app with sealAt := fun _ _ => none }

/-- a decided frame with C03's cheater list for its Atropos in the epoch's graph -/
noncomputable def specBlock (N : Net) (d : Decided) : Block := ⟨d, specCheaters N d.atropos⟩

theorem envFC_unsealed (N : Net) (app : App) : envFC N (unsealed app) = noSeal (envFC N app) := rfl

theorem envOf_unsealed (app : App) (vals : Vals) (v : VState) (evs : List Nat) :
    envOf (unsealed app) vals v evs = noSeal (envOf app vals v evs) := rfl

/-- the entries of a cut list name Atropoi of the uncut list -/
theorem cut_atropos (sealAt : Nat → Nat → Option Vals) (ep : Nat) : ∀ (ds l : List Decided) (nv : Vals),
    cut sealAt ep ds = some (l, nv) → ∀ d ∈ l, ∃ d' ∈ ds, d.atropos = d'.atropos := by
  intro ds
  induction ds with
  | nil => intro l nv h; simp [cut] at h
  | cons d rest ih =>
    intro l nv h
    simp only [cut] at h
    cases hs : sealAt ep d.frame with
    | some nv' =>
      rw [hs] at h
      simp only [Option.some.injEq, Prod.mk.injEq] at h
      obtain ⟨rfl, rfl⟩ := h
      intro x hx
      simp only [List.mem_singleton] at hx
      subst hx
      exact ⟨d, List.mem_cons_self, rfl⟩
    | none =>
      rw [hs] at h
      simp only at h
      cases hc : cut sealAt ep rest with
      | none => rw [hc] at h; cases h
      | some q =>
        obtain ⟨l', nv'⟩ := q
        rw [hc] at h
        simp only [Option.some.injEq, Prod.mk.injEq] at h
        obtain ⟨rfl, rfl⟩ := h
        intro x hx
        rcases List.mem_cons.1 hx with rfl | hx
        · exact ⟨x, List.mem_cons_self, rfl⟩
        · obtain ⟨d', hd', e⟩ := ih l' nv' hc x hx
          exact ⟨d', List.mem_cons_of_mem _ hd', e⟩

/-- one `Process` call of the combined model with an application that may seal -/
theorem step_sim_seal {N : Net} {vals : Vals} {app : App} (G : GOK N vals) {s : IState} (C : CInv N vals s)
    {ep : Nat} (hep : s.o.epoch = ep) {id : Nat} (hid : id < N.h.length) (hnew : id ∉ s.evs)
    (hpar : ∀ p ∈ (N.h.ev id).parents, p ∈ s.evs) {o' : OState} {ds : List Decided}
    (hp : process (envFC N (unsealed app)) s.o id (N.creator id) (N.spf id) (N.fr id) = (o', .ok ds)) :
    processIndexed app s (evOf N id) =
      (match cut app.sealAt ep ds with
       | none => (⟨o', s.v.add (vev N s.evs id), s.evs ++ [id]⟩, .ok (ds.map (specBlock N)))
       | some (l, nv) => (Model.Indexed.initial (Gen.Orderer.sealedEpoch ep) nv, .ok (l.map (specBlock N)))) ∧
    CInv N vals ⟨o', s.v.add (vev N s.evs id), s.evs ++ [id]⟩ ∧ (∀ d ∈ ds, d.sealed = false) ∧ o'.epoch = ep := by
  have hcr : N.creator id < N.nVals := (valid_at G.hv hid).creator_lt
  have hadd : addEvent s (evOf N id) = (s.v.add (vev N s.evs id), s.evs ++ [id]) := by
    unfold addEvent evOf vev
    simp only
    rw [C.k.vals, canon_idxOf G.ok.canon hcr]
  have I1 := idxInv_add C.idx G.hv hid hnew hpar
  have A := agree_envOf (unsealed app) G.ok I1 G.hnd G.hsmall
  have K0 : KInv (· ∈ s.evs ++ [id]) vals s.o := C.k.mono (fun a h => List.mem_append_left _ h)
  have hid1 : id ∈ s.evs ++ [id] := List.mem_append_right _ List.mem_cons_self
  have hpc := process_congr A K0.roots id (N.creator id) (N.spf id) (N.fr id) hid1
  obtain ⟨K1, ho⟩ := process_K (envFC N (unsealed app)) (fun _ _ => rfl) K0 id _ _ _ hid1 o' ds hp
  have hp' : process (noSeal (envOf app vals (s.v.add (vev N s.evs id)) (s.evs ++ [id]))) s.o id (N.creator id)
      (N.spf id) (N.fr id) = (o', .ok ds) := hpc.trans hp
  have hps := process_sim (envOf app vals (s.v.add (vev N s.evs id)) (s.evs ++ [id])) ep s.o id _ _ _ o' ds hep hp'
  obtain ⟨_, he1⟩ := process_noSeal_unsealed _ s.o id _ _ _ o' ds hp'
  refine ⟨?_, ⟨I1, K1⟩, fun d hd => (ho d hd).2, he1.trans hep⟩
  have hsa : (envOf app vals (s.v.add (vev N s.evs id)) (s.evs ++ [id])).sealAt = app.sealAt := rfl
  rw [hsa] at hps
  unfold processIndexed
  rw [hadd]
  simp only
  rw [C.k.vals]
  have e1 : (evOf N id).id = id := rfl
  have e2 : (evOf N id).creator = N.creator id := rfl
  have e3 : (evOf N id).spf = N.spf id := rfl
  have e4 : (evOf N id).claimed = N.fr id := rfl
  rw [e1, e2, e3, e4, hps]
  cases hc : cut app.sealAt ep ds with
  | none =>
    have hany : ds.any (·.sealed) = false := by
      rw [List.any_eq_false]; intro d hd; rw [(ho d hd).2]; simp
    have hch : ds.map (fun d => (⟨d, cheaters (s.v.add (vev N s.evs id)) (pos (s.evs ++ [id]) d.atropos)⟩ : Block)) =
        ds.map (specBlock N) := by
      apply List.map_congr_left
      intro d hd
      unfold specBlock
      rw [cheaters_eq_spec I1 G.hsmall (ho d hd).1]
    simp only [hany, hch, Bool.false_eq_true, if_false]
  | some q =>
    obtain ⟨l, nv⟩ := q
    obtain ⟨hany, _⟩ := cut_some _ _ _ _ _ hc
    have hch : l.map (fun d => (⟨d, cheaters (s.v.add (vev N s.evs id)) (pos (s.evs ++ [id]) d.atropos)⟩ : Block)) =
        l.map (specBlock N) := by
      apply List.map_congr_left
      intro d hd
      obtain ⟨d', hd', e⟩ := cut_atropos _ _ _ _ _ hc d hd
      unfold specBlock
      rw [e, cheaters_eq_spec I1 G.hsmall (ho d' hd').1]
    simp only [hany, hch, if_true]
    rfl

/-! ### one epoch -/

/-- the events of one epoch submitted to the combined model: every event must be accepted; stop at the
    call that emits a sealed frame, the rest of the list (events of the old epoch that would arrive
    after the seal) is returned as skipped and not submitted; the blocks are collected -/
def runEpochIx (N : Net) (app : App) : List Nat → IState → List Block → Option (IState × List Block × List Nat)
  | [], s, out => some (s, out, [])
  | id :: rest, s, out =>
    match processIndexed app s (evOf N id) with
    | (s', .ok bs) => if bs.any (·.d.sealed) then some (s', out ++ bs, rest) else runEpochIx N app rest s' (out ++ bs)
    | _ => none

theorem any_sealed_specBlock (N : Net) (l : List Decided) :
    (l.map (specBlock N)).any (·.d.sealed) = l.any (·.sealed) := by
  rw [List.any_map]; rfl

/-- **One epoch of the combined model with a sealing application**, from the run of the Orderer model
    with the graph oracle and the never-sealing application over the same events: the blocks are
    the decided frames `more` of the latter, cut at the first frame at which the application seals,
    with C03's cheater lists; without a seal the Orderer component ends as in that run, with a seal the
    combined state is exactly `initial (ep+1) nv`. -/
theorem epoch_sim {N : Net} {vals : Vals} (app : App) (G : GOK N vals) (ep : Nat) :
    ∀ (ids : List Nat) (s : IState) (done : List Nat) (outD : List Decided) (out : List Block) (s' : OState)
      (outD' : List Decided), CInv N vals s → s.o.epoch = ep → (∀ x, x ∈ done ↔ x ∈ s.evs) → PFFrom N done ids →
      runIds N (envFC N (unsealed app)) ids s.o outD = some (s', outD') →
      ∃ more, outD' = outD ++ more ∧
        ((cut app.sealAt ep more = none ∧ ∃ t, runEpochIx N app ids s out = some (t, out ++ more.map (specBlock N), []) ∧
            t.o = s') ∨
         (∃ l nv sk, cut app.sealAt ep more = some (l, nv) ∧
            runEpochIx N app ids s out =
              some (Model.Indexed.initial (Gen.Orderer.sealedEpoch ep) nv, out ++ l.map (specBlock N), sk))) := by
  intro ids
  induction ids with
  | nil =>
    intro s done outD out s' outD' _ _ _ _ h
    simp only [runIds, Option.some.injEq, Prod.mk.injEq] at h
    exact ⟨[], by simp [h.2], Or.inl ⟨rfl, s, by simp [runEpochIx], h.1⟩⟩
  | cons id rest ih =>
    intro s done outD out s' outD' C hep hdone hpf h
    obtain ⟨hid, hnew, hpar, hrest⟩ := hpf
    simp only [runIds] at h
    split at h
    · rename_i o1 ds1 hp
      have hnew' : id ∉ s.evs := fun hm => hnew ((hdone id).2 hm)
      have hpar' : ∀ p ∈ (N.h.ev id).parents, p ∈ s.evs :=
        fun p hp => (hdone p).1 (parents_done G.hv hid hpar p hp)
      obtain ⟨e1, C1, hun, hep1⟩ := step_sim_seal G C hep hid hnew' hpar' hp
      cases hc : cut app.sealAt ep ds1 with
      | none =>
        rw [hc] at e1
        have hdone1 : ∀ x, x ∈ id :: done ↔ x ∈ s.evs ++ [id] := by
          intro x
          simp only [List.mem_cons, List.mem_append, List.not_mem_nil, or_false, hdone x]
          exact Or.comm
        have hany : (ds1.map (specBlock N)).any (·.d.sealed) = false := by
          rw [any_sealed_specBlock, List.any_eq_false]; intro d hd; rw [hun d hd]; decide
        obtain ⟨more, hm, hcase⟩ := ih ⟨o1, s.v.add (vev N s.evs id), s.evs ++ [id]⟩ (id :: done) (outD ++ ds1)
          (out ++ ds1.map (specBlock N)) s' outD' C1 hep1 hdone1 hrest h
        refine ⟨ds1 ++ more, by rw [hm, List.append_assoc], ?_⟩
        rw [cut_append_none _ _ _ _ hc]
        rcases hcase with ⟨hcm, t, hr, ht⟩ | ⟨l, nv, sk, hcm, hr⟩
        · refine Or.inl ⟨by rw [hcm]; rfl, t, ?_, ht⟩
          simp only [runEpochIx, e1, hany, Bool.false_eq_true, if_false, hr, List.map_append, List.append_assoc]
        · refine Or.inr ⟨ds1 ++ l, nv, sk, by rw [hcm]; rfl, ?_⟩
          simp only [runEpochIx, e1, hany, Bool.false_eq_true, if_false, hr, List.map_append, List.append_assoc]
      | some q =>
        obtain ⟨l, nv⟩ := q
        rw [hc] at e1
        obtain ⟨hany, _⟩ := cut_some _ _ _ _ _ hc
        obtain ⟨more, hm⟩ := runIds_out N _ rest _ _ _ _ h
        refine ⟨ds1 ++ more, by rw [hm, List.append_assoc], Or.inr ⟨l, nv, rest, cut_append_some _ _ _ _ _ hc, ?_⟩⟩
        simp only [runEpochIx, e1, any_sealed_specBlock, hany, if_true]
    · cases h

end Compose
