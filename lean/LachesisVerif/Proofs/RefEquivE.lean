import LachesisVerif.Proofs.RefEquivD
/-!
# Reference equivalence, part E: forks and the merged view (C06)

`forkIn` on an ancestry mask is `ForkSeen`, the stored fork masks are `ForkSeen` (`FInv`),
`hbSpec` is `ForkSeen` / `MaxSeq`. Final statements for built instances are at the end.
-/
namespace RefEquiv
open Spec.Lachesis VecProofs Model.Vec

theorem mem_members {m n i : Nat} : i ∈ members m n ↔ i < n ∧ bit m i = true := by
  unfold members
  rw [List.mem_filter, List.mem_range]

section inv
variable {s : Inst}

theorem creator_histOf (s : Inst) {i : Nat} (h : i < s.size) : ((histOf s).ev i).creator = s.creatorIdx i := by
  rw [ev_histOf s h]; rfl

theorem seq_histOf (s : Inst) {i : Nat} (h : i < s.size) : ((histOf s).ev i).seq = (s.ev i).seq := by
  rw [ev_histOf s h]; rfl

theorem creatorIdx_lt (hi : Inv s) {i : Nat} (h : i < s.size) : s.creatorIdx i < s.nv := by
  obtain ⟨cv, hcv⟩ := hi.cre i h
  unfold Inst.creatorIdx
  rw [hcv]
  exact idxOf_lt hcv

theorem anc_size_lt (hi : Inv s) {a x : Nat} (h : Anc (histOf s) a x) : x < s.size := by
  have := anc_lt_right hi.pf h
  rw [length_histOf] at this
  exact this

/-- a fork is only ever seen for a validator index -/
theorem forkSeen_lt (hi : Inv s) {a v : Nat} (h : ForkSeen (histOf s) a v) : v < s.nv := by
  obtain ⟨x, y, _, hax, _, hcx, _⟩ := h
  have hx := anc_size_lt hi hax
  rw [creator_histOf s hx] at hcx
  rw [← hcx]
  exact creatorIdx_lt hi hx

/-- the events of validator `v` inside the ancestry of `a` -/
theorem mem_anc_byC (hi : Inv s) {a v : Nat} (ha : a < s.size) (hv : v < s.nv) (i : Nat) :
    i ∈ members (s.ancOf a &&& s.byCreator.getD v 0) s.size ↔
      Anc (histOf s) a i ∧ ((histOf s).ev i).creator = v := by
  rw [mem_members, bit_and, Bool.and_eq_true, hi.anc a i ha, hi.byC v i hv]
  constructor
  · rintro ⟨hlt, hanc, _, hc⟩
    exact ⟨hanc, by rw [creator_histOf s hlt]; exact hc⟩
  · rintro ⟨hanc, hc⟩
    have hlt := anc_size_lt hi hanc
    rw [creator_histOf s hlt] at hc
    exact ⟨hlt, hanc, hlt, hc⟩

/-- `forkIn` on the ancestry mask of `a` = a fork of `v` is visible in the ancestry of `a` -/
theorem forkIn_iff_inv (hi : Inv s) {a v : Nat} (ha : a < s.size) (hv : v < s.nv) :
    s.forkIn (s.ancOf a) v = true ↔ ForkSeen (histOf s) a v := by
  unfold Inst.forkIn ForkSeen
  simp only []
  rw [List.any_eq_true]
  constructor
  · rintro ⟨i, him, h1⟩
    rw [List.any_eq_true] at h1
    obtain ⟨j, hjm, h2⟩ := h1
    rw [Bool.and_eq_true, bne_iff_ne, beq_iff_eq] at h2
    obtain ⟨hia, hic⟩ := (mem_anc_byC hi ha hv i).1 him
    obtain ⟨hja, hjc⟩ := (mem_anc_byC hi ha hv j).1 hjm
    refine ⟨i, j, h2.1, hia, hja, hic, hjc, ?_⟩
    rw [seq_histOf s (anc_size_lt hi hia), seq_histOf s (anc_size_lt hi hja)]
    exact h2.2
  · rintro ⟨x, y, hxy, hax, hay, hcx, hcy, hs⟩
    refine ⟨x, (mem_anc_byC hi ha hv x).2 ⟨hax, hcx⟩, ?_⟩
    rw [List.any_eq_true]
    refine ⟨y, (mem_anc_byC hi ha hv y).2 ⟨hay, hcy⟩, ?_⟩
    rw [Bool.and_eq_true, bne_iff_ne, beq_iff_eq]
    rw [seq_histOf s (anc_size_lt hi hax), seq_histOf s (anc_size_lt hi hay)] at hs
    exact ⟨hxy, hs⟩

/-- `maxSeqIn` on the ancestry mask of `a` = the highest observed seq of `v` -/
theorem maxSeqIn_spec (hi : Inv s) {a v : Nat} (ha : a < s.size) (hv : v < s.nv) :
    MaxSeq (histOf s) a v (s.maxSeqIn (s.ancOf a) v) := by
  unfold Inst.maxSeqIn
  have hm := mem_anc_byC hi ha hv
  generalize members (s.ancOf a &&& s.byCreator.getD v 0) s.size = l at hm
  have hspec := foldl_max_spec (fun i => (s.ev i).seq) l 0
  simp only [] at hspec
  obtain ⟨_, hub, hatt⟩ := hspec
  generalize List.foldl (fun acc i => max acc (s.ev i).seq) 0 l = r at hub hatt
  constructor
  · intro x hax hcx
    rw [seq_histOf s (anc_size_lt hi hax)]
    exact hub x ((hm x).2 ⟨hax, hcx⟩)
  · rcases hatt with h0 | ⟨i, hil, hir⟩
    · by_cases hex : ∃ x, Anc (histOf s) a x ∧ ((histOf s).ev x).creator = v
      · obtain ⟨x, hax, hcx⟩ := hex
        right
        refine ⟨x, hax, hcx, ?_⟩
        have := hub x ((hm x).2 ⟨hax, hcx⟩)
        rw [seq_histOf s (anc_size_lt hi hax)]
        omega
      · left
        exact ⟨h0, fun x hax hcx => hex ⟨x, hax, hcx⟩⟩
    · right
      obtain ⟨hai, hci⟩ := (hm i).1 hil
      exact ⟨i, hai, hci, by rw [seq_histOf s (anc_size_lt hi hai)]; exact hir⟩

end inv

/-- the value described by `MaxSeq` is unique -/
theorem maxSeq_unique {h : Hist} {a c m m' : Nat} (h1 : MaxSeq h a c m) (h2 : MaxSeq h a c m') :
    m = m' := by
  obtain ⟨u1, e1⟩ := h1
  obtain ⟨u2, e2⟩ := h2
  rcases e1 with ⟨z1, n1⟩ | ⟨x1, a1, c1, s1⟩ <;> rcases e2 with ⟨z2, n2⟩ | ⟨x2, a2, c2, s2⟩
  · omega
  · exact absurd c2 (n1 x2 a2)
  · exact absurd c1 (n2 x1 a1)
  · have := u1 x2 a2 c2
    have := u2 x1 a1 c1
    omega

/-! ### the stored fork masks -/

/-- meaning of the stored fork masks -/
def FInv (s : Inst) : Prop :=
  ∀ a v, a < s.size → (bit (s.forksOf a) v = true ↔ ForkSeen (histOf s) a v)

theorem finv_start (ep : Nat) (vals : List (Nat × Nat)) : FInv (start ep vals) := by
  intro a v ha; exact absurd ha (Nat.not_lt_zero _)

theorem finv_insert {s s' : Inst} {e : Ev} (hi : Inv s) (hf : FInv s) (h : s.insert e = some s') :
    FInv s' := by
  have hi' := inv_insert hi h
  intro a v ha
  rw [size_insert h] at ha
  by_cases hlt : a < s.size
  · rw [forksOf_insert_old h (by rw [hi.forks_size]; exact hlt) hi.forks_size, histOf_insert h hi.pok,
      forkSeen_snoc_old' hi.pf _ (by rw [length_histOf]; exact hlt)]
    exact hf a v hlt
  · have : a = s.size := by omega
    subst this
    have ham : insAm s e = s'.ancOf s.size := by
      have := ancOf_insert_new h
      rw [hi.anc_size] at this
      exact this.symm
    rw [forksOf_insert_new h hi.forks_size, bit_foldl_cond_range, ham]
    have hs' : s.size < s'.size := by rw [size_insert h]; omega
    constructor
    · rintro ⟨hv, hfk⟩
      exact (forkIn_iff_inv hi' hs' (by rw [nv_insert h]; exact hv)).1 hfk
    · intro hfs
      have hv := forkSeen_lt hi' hfs
      exact ⟨by rw [← nv_insert h]; exact hv, (forkIn_iff_inv hi' hs' hv).2 hfs⟩

theorem Built.finv {ep : Nat} {vals : List (Nat × Nat)} {evs : List Ev} {s : Inst}
    (hb : Built ep vals evs s) : FInv s :=
  Built.rec_on (P := fun _ s => FInv s) (finv_start ep vals)
    (fun _ _ _ _ hb0 hf h => finv_insert hb0.inv hf h) hb

/-! ### final statements (ancestry, forks, merged view)

Stated twice: for any instance satisfying the invariants (`Good s`; this also covers the instances
the oracle reaches through `process`, see `Reach.good` in part G), and for `Built` instances. -/

/-- everything `insert` maintains -/
structure Good (s : Inst) : Prop where
  inv : Inv s
  finv : FInv s

theorem Built.good {ep : Nat} {vals : List (Nat × Nat)} {evs : List Ev} {s : Inst}
    (hb : Built ep vals evs s) : Good s := ⟨hb.inv, hb.finv⟩

section good
variable {s : Inst}

theorem Good.hbSpec_none_iff (hg : Good s) {a : Nat} (ha : a < s.size) (v : Nat) :
    s.hbSpec a v = none ↔ ForkSeen (histOf s) a v := by
  rw [← hg.finv a v ha]
  unfold Inst.hbSpec
  split
  · rename_i h; exact ⟨fun _ => h, fun _ => rfl⟩
  · rename_i h; exact ⟨fun h1 => (by cases h1), fun h1 => absurd h1 h⟩

theorem Good.hbSpec_some (hg : Good s) {a v m : Nat} (ha : a < s.size) (hv : v < s.nv)
    (h : s.hbSpec a v = some m) : ¬ ForkSeen (histOf s) a v ∧ MaxSeq (histOf s) a v m := by
  have hnf : ¬ ForkSeen (histOf s) a v := by
    intro hf
    rw [(hg.hbSpec_none_iff ha v).2 hf] at h
    cases h
  refine ⟨hnf, ?_⟩
  unfold Inst.hbSpec at h
  rw [if_neg (fun hbit => hnf ((hg.finv a v ha).1 hbit))] at h
  injection h with h
  rw [← h]
  exact maxSeqIn_spec hg.inv ha hv

theorem Good.hbSpec_of_maxSeq (hg : Good s) {a v m : Nat} (ha : a < s.size) (hv : v < s.nv)
    (hnf : ¬ ForkSeen (histOf s) a v) (hm : MaxSeq (histOf s) a v m) : s.hbSpec a v = some m := by
  unfold Inst.hbSpec
  rw [if_neg (fun hbit => hnf ((hg.finv a v ha).1 hbit))]
  rw [maxSeq_unique (maxSeqIn_spec hg.inv ha hv) hm]

end good

section final
variable {ep : Nat} {vals : List (Nat × Nat)} {evs : List Ev} {s : Inst}

/-- the ancestry mask of `a` is the set of ancestors-or-self of `a` -/
theorem ancOf_iff (hb : Built ep vals evs s) {a : Nat} (ha : a < s.size) (x : Nat) :
    bit (s.ancOf a) x = true ↔ Anc (histOf s) a x := hb.inv.anc a x ha

/-- the descendant mask of `b` is the set of events having `b` as an ancestor-or-self -/
theorem descOf_iff (hb : Built ep vals evs s) {b : Nat} (h : b < s.size) (x : Nat) :
    bit (s.descOf b) x = true ↔ Anc (histOf s) x b := hb.inv.desc b x h

/-- the per-creator mask -/
theorem byCreator_iff (hb : Built ep vals evs s) {v : Nat} (hv : v < s.nv) (i : Nat) :
    bit (s.byCreator.getD v 0) i = true ↔ i < s.size ∧ s.creatorIdx i = v := hb.inv.byC v i hv

theorem forkIn_iff (hb : Built ep vals evs s) {a v : Nat} (ha : a < s.size) (hv : v < s.nv) :
    s.forkIn (s.ancOf a) v = true ↔ ForkSeen (histOf s) a v := forkIn_iff_inv hb.inv ha hv

/-- the stored fork mask (no bound on `v` needed: no bits at or above `s.nv`) -/
theorem forks_iff (hb : Built ep vals evs s) {a : Nat} (ha : a < s.size) (v : Nat) :
    bit (s.forksOf a) v = true ↔ ForkSeen (histOf s) a v := hb.finv a v ha

/-- C06: the merged view reports a fork exactly when one is visible in the ancestry -/
theorem hbSpec_none_iff (hb : Built ep vals evs s) {a : Nat} (ha : a < s.size) (v : Nat) :
    s.hbSpec a v = none ↔ ForkSeen (histOf s) a v := hb.good.hbSpec_none_iff ha v

/-- C06: otherwise it reports the highest observed sequence number -/
theorem hbSpec_some (hb : Built ep vals evs s) {a v m : Nat} (ha : a < s.size) (hv : v < s.nv)
    (h : s.hbSpec a v = some m) : ¬ ForkSeen (histOf s) a v ∧ MaxSeq (histOf s) a v m :=
  hb.good.hbSpec_some ha hv h

/-- converse: with no fork in sight `hbSpec` returns the value described by `MaxSeq` -/
theorem hbSpec_of_maxSeq (hb : Built ep vals evs s) {a v m : Nat} (ha : a < s.size) (hv : v < s.nv)
    (hnf : ¬ ForkSeen (histOf s) a v) (hm : MaxSeq (histOf s) a v m) : s.hbSpec a v = some m :=
  hb.good.hbSpec_of_maxSeq ha hv hnf hm

end final

end RefEquiv
