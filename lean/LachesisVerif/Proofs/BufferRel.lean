import LachesisVerif.Proofs.BufferSteps
/-! A reflexive-transitive relation on buffer states that every atomic step respects is respected by
    the whole (recursive) `pushEvent`, by the spill loop and hence by every operation. No invariant is
    needed: the argument is purely structural. Instance: the trace only grows at its head. -/
namespace C14
open Model.EventsBuffer

structure StepRel (O : Oracle) (R : St → St → Prop) : Prop where
  refl : ∀ s, R s s
  trans : ∀ a b c, R a b → R b c → R a c
  drop : ∀ s c e, R s (drop s c e)
  release : ∀ s c, R s (release s c)
  process : ∀ s c, R s (processComplete O s c).1
  inc : ∀ s I, R s { s with inc := I }
  oof : ∀ s, R s { s with oof := true }

theorem loop_rel {O : Oracle} {R : St → St → Prop} (h : StepRel O R) (guard : Bool) (step : St → Nat → St)
    (hstep : ∀ s ch, R s (step s ch)) (eid : Nat) :
    ∀ rest s, R s (loopChildren guard step eid rest s) := by
  intro rest
  induction rest with
  | nil => intro s; exact h.refl s
  | cons ch rest ih =>
    intro s
    unfold loopChildren
    split
    · exact ih s
    · split
      · exact h.trans _ _ _ (hstep s ch) (ih _)
      · exact ih s

/-- state after check/process/release of `c` and the loop over the snapshot (before the final Remove) -/
def afterLoop (guard : Bool) (O : Oracle) (fuel : Nat) (st : St) (c : Nat) (snap : Option (List Nat)) : St :=
  if (processComplete O st c).2 = true then
    loopChildren guard
      (fun s ch => (pushEv guard O fuel s ch (some (snap.getD ((release (processComplete O st c).1 c).inc.map (·.2)))) true).1)
      (st.recs c).ev.id (snap.getD ((release (processComplete O st c).1 c).inc.map (·.2)))
      (release (processComplete O st c).1 c)
  else release (processComplete O st c).1 c

theorem pushEv_succ (guard : Bool) (O : Oracle) (fuel : Nat) (st : St) (c : Nat) (snap : Option (List Nat)) (recheck : Bool) :
    pushEv guard O (fuel + 1) st c snap recheck =
      if st.isConn (st.recs c).ev.id then
        (release (if recheck then { st with inc := incRemove st.inc (st.recs c).ev.id }
                  else drop { st with inc := incRemove st.inc (st.recs c).ev.id } c errConnected) c, false)
      else if !st.complete (st.recs c).ev then
        (if recheck then st else { st with inc := incAdd st.inc (st.recs c).ev.id c }, false)
      else
        ({ afterLoop guard O fuel st c snap with inc := incRemove (afterLoop guard O fuel st c snap).inc (st.recs c).ev.id },
         (processComplete O st c).2) := rfl

theorem pushEv_rel {O : Oracle} {R : St → St → Prop} (h : StepRel O R) (guard : Bool) :
    ∀ fuel st c snap recheck, R st (pushEv guard O fuel st c snap recheck).1 := by
  intro fuel
  induction fuel with
  | zero => intro st c snap recheck; exact h.oof st
  | succ fuel ih =>
    intro st c snap recheck
    rw [pushEv_succ]
    split
    · -- Exists
      refine h.trans _ _ _ ?_ (h.release _ c)
      split
      · exact h.inc st _
      · exact h.trans _ _ _ (h.inc st _) (h.drop _ c _)
    · split
      · split
        · exact h.refl st
        · exact h.inc st _
      · -- process
        have h2 : R st (release (processComplete O st c).1 c) := h.trans _ _ _ (h.process st c) (h.release _ c)
        refine h.trans _ _ _ ?_ (h.inc _ _)
        unfold afterLoop
        split
        · exact h.trans _ _ _ h2 (loop_rel h guard _ (fun s ch => ih s ch _ true) _ _ _)
        · exact h2

theorem spill_rel {O : Oracle} {R : St → St → Prop} (h : StepRel O R) (ln ls : Nat) :
    ∀ l st, R st (spill ln ls l st) := by
  intro l
  induction l with
  | nil => intro st; unfold spill; exact h.inc st _
  | cons p rest ih =>
    intro st
    obtain ⟨id, c⟩ := p
    unfold spill
    split
    · exact h.trans _ _ _ (h.trans _ _ _ (h.trans _ _ _ (h.inc st rest) (h.drop _ c _)) (h.release _ c)) (ih _)
    · exact h.inc st _

/-- the trace grows at its head only -/
def Ext (s s' : St) : Prop := ∃ d, s'.trace = d ++ s.trace

theorem ext_stepRel (O : Oracle) : StepRel O Ext where
  refl := fun s => ⟨[], rfl⟩
  trans := by
    intro a b c ⟨d1, h1⟩ ⟨d2, h2⟩
    exact ⟨d2 ++ d1, by rw [h2, h1, List.append_assoc]⟩
  drop := fun s c e => ⟨[], by simp⟩
  release := by
    intro s c
    rw [Ext, release_trace]
    split
    · exact ⟨[], rfl⟩
    · exact ⟨[_], rfl⟩
  process := by
    intro s c
    rcases processComplete_cases O s c with e | e | e <;> rw [e]
    · exact ⟨[.check c false], by simp⟩
    · exact ⟨[.process c false, .check c true], rfl⟩
    · exact ⟨[.process c true, .check c true], rfl⟩
  inc := fun s I => ⟨[], rfl⟩
  oof := fun s => ⟨[], rfl⟩

theorem pushEvent_ext (O : Oracle) (ln ls : Nat) (st : St) (e : Ev) (tag : Nat) :
    Ext st (pushEvent true O ln ls st e tag).1 := by
  have h := ext_stepRel O
  have h0 : Ext st { st with n := st.n + 1, recs := setRec st.recs st.n ⟨e, tag, 0, false⟩ } := ⟨[], rfl⟩
  unfold pushEvent
  split
  · exact h.trans _ _ _ h0 (h.trans _ _ _ (h.drop _ _ _) (h.release _ _))
  · exact h.trans _ _ _ h0 (h.trans _ _ _ (pushEv_rel h true _ _ _ _ _) (spill_rel h ln ls _ _))

theorem clear_ext (st : St) : Ext st (clear st) := spill_rel (ext_stepRel Oracle.allOk) 0 0 _ _

end C14
