import LachesisVerif.Model.Processor
/-! C15: the ordered reassembly of `Enqueue` hands the events of a batch to `process()` in batch order,
    whatever the order in which the check results arrive. -/
namespace C15
open Model.Processor

variable {σ : Type} (hd : σ → Item → Nat → σ × List Nat)

/-- the state after handling the first `k` items in batch order, item `i` with error `errs i` -/
def runTo (errs : Nat → Nat) (items : List Item) (s0 : σ) : Nat → σ
  | 0 => s0
  | k + 1 =>
    match items[k]? with
    | some it => (hd (runTo errs items s0 k) it (errs k)).1
    | none => runTo errs items s0 k

theorem getD_set (l : List (Option Nat)) (i j : Nat) (v : Option Nat) :
    (l.set i v).getD j none = if i = j ∧ i < l.length then v else l.getD j none := by
  simp only [List.getD_eq_getElem?_getD, List.getElem?_set]
  by_cases e : i = j
  · subst e
    by_cases h : i < l.length
    · simp [h]
    · simp [h]
  · simp [e]

/-- the shape of the batch after the results `D` have arrived -/
structure Shape (errs : Nat → Nat) (items : List Item) (s0 : σ) (D : List Nat) (b : Batch) (s : σ) : Prop where
  items_eq : b.items = items
  ordered : b.ordered = true
  len : b.results.length = items.length
  le : b.processed ≤ items.length
  low : ∀ j, j < b.processed → j ∈ D
  res : ∀ j, j < items.length →
    b.results.getD j none = if j ∈ D ∧ b.processed ≤ j then some (errs j) else none
  st : s = runTo hd errs items s0 b.processed

theorem orderedInner_shape (errs : Nat → Nat) (items : List Item) (s0 : σ) (D : List Nat) :
    ∀ fuel b s, Shape hd errs items s0 D b s → items.length - b.processed < fuel →
      Shape hd errs items s0 D (orderedInner hd fuel b s).1 (orderedInner hd fuel b s).2 ∧
      ((orderedInner hd fuel b s).1.processed = items.length ∨ (orderedInner hd fuel b s).1.processed ∉ D) := by
  intro fuel
  induction fuel with
  | zero => intro b s _ h; omega
  | succ fuel ih =>
    intro b s sh hf
    unfold orderedInner
    by_cases hk : b.processed < items.length
    · have hres := sh.res b.processed hk
      by_cases hD : b.processed ∈ D
      · -- the next result is there: handle it
        have hsome : b.results.getD b.processed none = some (errs b.processed) := by
          rw [hres]; simp [hD]
        have hit : b.items[b.processed]? = some (items[b.processed]'hk) := by
          rw [sh.items_eq]; exact List.getElem?_eq_getElem hk
        have hloop : Gen.Buffer.orderedLoop b.processed b.results.length (some (errs b.processed)).isSome = true := by
          unfold Gen.Buffer.orderedLoop
          rw [sh.len]; simp [hk]
        simp only [hsome, hit, hloop, if_true]
        apply ih
        · exact {
            items_eq := sh.items_eq
            ordered := sh.ordered
            len := by simp [sh.len]
            le := hk
            low := by
              intro j hj
              have hj' : j < b.processed + 1 := hj
              by_cases e : j = b.processed
              · rw [e]; exact hD
              · exact sh.low j (by omega)
            res := by
              intro j hj
              show (b.results.set b.processed none).getD j none = if j ∈ D ∧ b.processed + 1 ≤ j then some (errs j) else none
              rw [getD_set]
              by_cases e : b.processed = j
              · subst e
                simp [sh.len, hk]
              · rw [if_neg (fun h => e h.1), sh.res j hj]
                by_cases hjD : j ∈ D
                · by_cases hle : b.processed ≤ j
                  · have : b.processed + 1 ≤ j := by omega
                    simp [hjD, hle, this]
                  · have : ¬ b.processed + 1 ≤ j := by omega
                    simp [hle, this]
                · simp [hjD]
            st := by
              show (hd s (items[b.processed]'hk) (errs b.processed)).1 = runTo hd errs items s0 (b.processed + 1)
              unfold runTo
              rw [List.getElem?_eq_getElem hk, ← sh.st] }
        · show items.length - (b.processed + 1) < fuel
          omega
      · -- the next result is missing: stop
        have hnone : b.results.getD b.processed none = none := by
          rw [hres]; simp [hD]
        have hloop : Gen.Buffer.orderedLoop b.processed b.results.length (none : Option Nat).isSome = false := by
          unfold Gen.Buffer.orderedLoop
          simp
        simp only [hnone, hloop, Bool.false_eq_true, if_false]
        exact ⟨sh, Or.inr hD⟩
    · have hloop : Gen.Buffer.orderedLoop b.processed b.results.length (b.results.getD b.processed none).isSome = false := by
        unfold Gen.Buffer.orderedLoop
        rw [sh.len]; simp [hk]
      simp only [hloop, Bool.false_eq_true, if_false]
      exact ⟨sh, Or.inl (by have := sh.le; omega)⟩

theorem consume_shape (errs : Nat → Nat) (items : List Item) (s0 : σ) (D : List Nat) (b : Batch) (s : σ)
    (sh : Shape hd errs items s0 D b s) (hstop : b.processed = items.length ∨ b.processed ∉ D)
    (pos : Nat) (hpos : pos < items.length) (hnew : pos ∉ D) :
    Shape hd errs items s0 (pos :: D) (consume hd b s pos (errs pos)).1 (consume hd b s pos (errs pos)).2 ∧
    ((consume hd b s pos (errs pos)).1.processed = items.length ∨
      (consume hd b s pos (errs pos)).1.processed ∉ pos :: D) := by
  have hkpos : b.processed ≤ pos := by
    apply Nat.le_of_not_lt
    intro h
    exact hnew (sh.low pos h)
  have hk : b.processed < items.length := by omega
  unfold consume
  have hloop : Gen.Buffer.batchLoop b.processed b.items.length = true := by
    unfold Gen.Buffer.batchLoop
    rw [sh.items_eq]; simp [hk]
  simp only [hloop, Bool.not_true, Bool.false_eq_true, if_false, sh.ordered, if_true]
  rw [sh.items_eq]
  apply orderedInner_shape
  · exact {
      items_eq := rfl
      ordered := rfl
      len := by simp [sh.len]
      le := sh.le
      low := fun j hj => List.mem_cons_of_mem _ (sh.low j hj)
      res := by
        intro j hj
        show (b.results.set pos (some (errs pos))).getD j none = if j ∈ pos :: D ∧ b.processed ≤ j then some (errs j) else none
        rw [getD_set]
        by_cases e : pos = j
        · subst e
          simp [sh.len, hpos, hkpos]
        · rw [if_neg (fun h => e h.1), sh.res j hj]
          have : j ∈ pos :: D ↔ j ∈ D := by
            simp only [List.mem_cons]
            constructor
            · intro h; rcases h with h | h
              · exact absurd h.symm e
              · exact h
            · exact Or.inr
          simp only [this]
      st := sh.st }
  · show items.length - b.processed < items.length + 1
    omega

theorem drain_shape (errs : Nat → Nat) (items : List Item) (s0 : σ) :
    ∀ (L : List Nat) (D : List Nat) (b : Batch) (s : σ), Shape hd errs items s0 D b s →
      (b.processed = items.length ∨ b.processed ∉ D) → L.Nodup → (∀ pos ∈ L, pos < items.length ∧ pos ∉ D) →
      Shape hd errs items s0 (L.reverse ++ D)
        (drain hd b s (L.map fun pos => (pos, errs pos))).1 (drain hd b s (L.map fun pos => (pos, errs pos))).2 ∧
      ((drain hd b s (L.map fun pos => (pos, errs pos))).1.processed = items.length ∨
        (drain hd b s (L.map fun pos => (pos, errs pos))).1.processed ∉ L.reverse ++ D) := by
  intro L
  induction L with
  | nil =>
    intro D b s sh hstop _ _
    simp only [List.map_nil, List.reverse_nil, List.nil_append]
    unfold drain
    exact ⟨⟨sh.items_eq, sh.ordered, sh.len, sh.le, sh.low, sh.res, sh.st⟩, hstop⟩
  | cons pos L ih =>
    intro D b s sh hstop hnd hL
    rw [List.nodup_cons] at hnd
    obtain ⟨hp1, hp2⟩ := hL pos List.mem_cons_self
    obtain ⟨sh', hstop'⟩ := consume_shape hd errs items s0 D b s sh hstop pos hp1 hp2
    have := ih (pos :: D) _ _ sh' hstop' hnd.2 (by
      intro q hq
      obtain ⟨hq1, hq2⟩ := hL q (List.mem_cons_of_mem _ hq)
      refine ⟨hq1, ?_⟩
      intro h
      rcases List.mem_cons.1 h with h | h
      · subst h; exact hnd.1 hq
      · exact hq2 h)
    simp only [List.map_cons, List.reverse_cons, List.append_assoc, List.singleton_append]
    unfold drain
    exact this

end C15
