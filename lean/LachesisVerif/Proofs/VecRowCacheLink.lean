import LachesisVerif.Proofs.VecRowCache
/-!
Row caches of the vector index, part 3: the store under the cache (`Model.VecRowCache.Base`: overlay
as a finite map + pair counter) is the layered table of `Model.VecPersist` (overlay as a total
function `Tab` + flag `dirty`): same reads, same `Put`, same `Flush`, same guard of `DropNotFlushed`.
So the uncached reads the transparency theorems refer to are the reads `Model.VecPersist.PState.view`
is built from.
-/
namespace VecRowCacheProofs
open Model.VecPersist (Tab)
open Model.VecRowCache

variable {α : Type}

/-- the overlay as a `Tab` -/
def ovTab (ov : List (Nat × α)) : Tab α := ⟨fun a => ov.lookup a⟩

/-- the flag `PState.dirty` -/
def dirtyOf (b : Base α) : Bool := Gen.VecPersist.dropClears b.notFlushedPairs

theorem read_eq_tab_look (b : Base α) (a : Nat) : b.read a = Tab.look (ovTab b.ov) b.store a := rfl

theorem ovTab_put (ov : List (Nat × α)) (k : Nat) (x : α) (a : Nat) :
    (ovTab (put ov k x)).get a = ((ovTab ov).set k x).get a := by
  have h := look_put ov (⟨fun _ => none⟩ : Tab α) k x a
  simp only [look] at h
  simp only [ovTab, Tab.set]
  by_cases hk : a = k
  · simp only [hk, if_true] at h ⊢
    cases hl : List.lookup k (put ov k x) with
    | none => rw [hl] at h; cases h
    | some y => rw [hl] at h; exact h
  · simp only [hk, if_false] at h ⊢
    cases hl : List.lookup a (put ov k x) with
    | none =>
      rw [hl] at h
      cases hl2 : List.lookup a ov with
      | none => rfl
      | some y => rw [hl2] at h; cases h
    | some y =>
      rw [hl] at h
      cases hl2 : List.lookup a ov with
      | none => rw [hl2] at h; cases h
      | some z => rw [hl2] at h; exact h

theorem ovTab_nil (a : Nat) : (ovTab ([] : List (Nat × α))).get a = (Tab.empty : Tab α).get a := rfl

theorem flush_store_eq_merge (b : Base α) (a : Nat) :
    b.flush.store.get a = (Tab.merge (ovTab b.ov) b.store).get a := rfl

/-- the guard, fed as `PState.dropNotFlushed` feeds it (1 / 0 from the flag) -/
theorem guard_eq_flag (b : Base α) :
    Gen.VecPersist.dropClears (if dirtyOf b then 1 else 0) = Gen.VecPersist.dropClears b.notFlushedPairs := by
  unfold dirtyOf
  cases h : Gen.VecPersist.dropClears b.notFlushedPairs with
  | true => rfl
  | false => rfl

end VecRowCacheProofs
