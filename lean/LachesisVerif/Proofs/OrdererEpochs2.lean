import LachesisVerif.Proofs.OrdererEpochs
/-!
Several epochs, part 2: `bootstrapElection`, `handleElection` and `process` of a sealing instance,
computed from the run of the unsealing one (`noSeal`).
-/
namespace OrdererEpochs
open Model.Pos Model.Election Model.Orderer ElectionProofs ElectionRefine OrdererSeal OrdererRestart OrdererProofs

theorem boot_step_dec (env : Env) (fuel : Nat) (s : OState) (out : List Decided) (el' : Election) (f a : Nat)
    (h : processKnownRoots env s (s.roots.length + 2) (Gen.Orderer.knownRootsFirstFrame s.ldf) s.el =
      .ok (el', some (f, a))) :
    bootstrapElection env (fuel + 1) s out =
      if (onFrameDecided env { s with el := el' } f a).2.sealed then
        .ok ((onFrameDecided env { s with el := el' } f a).1, out ++ [(onFrameDecided env { s with el := el' } f a).2], true)
      else bootstrapElection env fuel (onFrameDecided env { s with el := el' } f a).1
        (out ++ [(onFrameDecided env { s with el := el' } f a).2]) := by
  simp only [bootstrapElection, h]

/-- without a sealing application `bootstrapElection` stays in the epoch, never reports a seal and only appends -/
theorem boot_noSeal_shape (env : Env) (fuel : Nat) : ∀ (s : OState) (out : List Decided) (s' : OState)
    (out' : List Decided) (fl : Bool), bootstrapElection (noSeal env) fuel s out = .ok (s', out', fl) →
    s'.epoch = s.epoch ∧ fl = false ∧ ∃ more, out' = out ++ more := by
  induction fuel with
  | zero =>
    intro s out s' out' fl h
    simp only [bootstrapElection] at h
    cases h
    exact ⟨rfl, rfl, [], by simp⟩
  | succ k ih =>
    intro s out s' out' fl h
    cases hp : processKnownRoots env s (s.roots.length + 2) (Gen.Orderer.knownRootsFirstFrame s.ldf) s.el with
    | error x => simp only [bootstrapElection, pkr_noSeal, hp] at h; cases h
    | ok p =>
      obtain ⟨el', r⟩ := p
      cases r with
      | none =>
        rw [boot_none (noSeal env) k s out el' (by rw [pkr_noSeal]; exact hp)] at h
        cases h
        exact ⟨rfl, rfl, [], by simp⟩
      | some q =>
        obtain ⟨f, a⟩ := q
        rw [boot_step_dec (noSeal env) k s out el' f a (by rw [pkr_noSeal]; exact hp), onFrameDecided_noSeal] at h
        simp only [Bool.false_eq_true, if_false] at h
        obtain ⟨h1, h2, more, h3⟩ := ih _ _ _ _ _ h
        exact ⟨h1, h2, _ :: more, by rw [h3, List.append_assoc]; rfl⟩

/-- `bootstrapElection` with a sealing application, from the run without -/
theorem boot_sim (env : Env) (ep : Nat) (fuel : Nat) : ∀ (s : OState) (out : List Decided) (s' : OState)
    (out' : List Decided) (fl : Bool), s.epoch = ep → cut env.sealAt ep out = none →
    bootstrapElection (noSeal env) fuel s out = .ok (s', out', fl) →
    bootstrapElection env fuel s out =
      match cut env.sealAt ep out' with
      | none => .ok (s', out', false)
      | some (l, nv) => .ok (initial (Gen.Orderer.sealedEpoch ep) nv, l, true) := by
  induction fuel with
  | zero =>
    intro s out s' out' fl _ hcut h
    simp only [bootstrapElection] at h ⊢
    cases h
    simp only [hcut]
  | succ k ih =>
    intro s out s' out' fl hep hcut h
    cases hp : processKnownRoots env s (s.roots.length + 2) (Gen.Orderer.knownRootsFirstFrame s.ldf) s.el with
    | error x => simp only [bootstrapElection, pkr_noSeal, hp] at h; cases h
    | ok p =>
      obtain ⟨el', r⟩ := p
      cases r with
      | none =>
        rw [boot_none (noSeal env) k s out el' (by rw [pkr_noSeal]; exact hp)] at h
        cases h
        rw [boot_none env k s out el' hp]
        simp only [hcut]
      | some q =>
        obtain ⟨f, a⟩ := q
        rw [boot_step_dec (noSeal env) k s out el' f a (by rw [pkr_noSeal]; exact hp), onFrameDecided_noSeal] at h
        simp only [Bool.false_eq_true, if_false] at h
        rw [boot_step_dec env k s out el' f a hp]
        cases hs : env.sealAt ep f with
        | some nv =>
          have hs' : env.sealAt ({ s with el := el' } : OState).epoch f = some nv := by rw [← hs, ← hep]
          obtain ⟨_, _, more, hm⟩ := boot_noSeal_shape env k _ _ _ _ _ h
          rw [onFrameDecided_some env _ f a nv hs', hm, cut_seal_snoc _ _ _ _ _ nv hcut (by exact hs)]
          simp only [if_true]
          rw [← hep]
        | none =>
          have hs' : env.sealAt ({ s with el := el' } : OState).epoch f = none := by rw [← hs, ← hep]
          rw [onFrameDecided_none env _ f a hs']
          simp only [Bool.false_eq_true, if_false]
          exact ih _ _ _ _ _ hep (cut_none_snoc _ _ _ _ hcut (by exact hs)) h

/-! ### `handleElection` -/

section HE
variable (env : Env) (id c frame fuel g : Nat) (s : OState) (out : List Decided)

theorem he_succ_stop (hc : (!Gen.Orderer.electionLoopCond g frame) = true) :
    handleElection env id c frame (fuel + 1) g s out = .ok (s, out) := by
  rw [handleElection_succ, if_pos hc]

theorem he_succ_err (hc : ¬ (!Gen.Orderer.electionLoopCond g frame) = true) (x : ElErr)
    (hp : processRoot env.observe (framesOf s.roots) s.el ⟨id, g, c⟩ = .error x) :
    handleElection env id c frame (fuel + 1) g s out = .error x := by
  rw [handleElection_succ, if_neg hc, hp]

theorem he_succ_none (hc : ¬ (!Gen.Orderer.electionLoopCond g frame) = true) (el' : Election)
    (hp : processRoot env.observe (framesOf s.roots) s.el ⟨id, g, c⟩ = .ok (el', none)) :
    handleElection env id c frame (fuel + 1) g s out =
      handleElection env id c frame fuel (g + 1) { s with el := el' } out := by
  rw [handleElection_succ, if_neg hc, hp]

theorem he_succ_dec (hc : ¬ (!Gen.Orderer.electionLoopCond g frame) = true) (el' : Election) (df a : Nat)
    (hp : processRoot env.observe (framesOf s.roots) s.el ⟨id, g, c⟩ = .ok (el', some (df, a))) :
    handleElection env id c frame (fuel + 1) g s out =
      afterDecision env id c frame fuel g (onFrameDecided env { s with el := el' } df a) out := by
  rw [handleElection_succ, if_neg hc, hp]

theorem afterDecision_sealed (p : OState × Decided) (hp : p.2.sealed = true) :
    afterDecision env id c frame fuel g p out = .ok (p.1, out ++ [p.2]) := by
  unfold afterDecision; rw [if_pos hp]

theorem afterDecision_unsealed (p : OState × Decided) (hp : p.2.sealed = false) :
    afterDecision env id c frame fuel g p out =
      match bootstrapElection env (p.1.roots.length + 2) p.1 (out ++ [p.2]) with
      | .error x => .error x
      | .ok (s2, out2, sealed) =>
        if sealed then .ok (s2, out2) else handleElection env id c frame fuel (g + 1) s2 out2 := by
  unfold afterDecision; rw [if_neg (by rw [hp]; decide)]; rfl

end HE

/-- without a sealing application `handleElection` stays in the epoch and only appends -/
theorem handle_noSeal_shape (env : Env) (id c frame : Nat) (fuel : Nat) : ∀ (g : Nat) (s : OState)
    (out : List Decided) (s' : OState) (out' : List Decided),
    handleElection (noSeal env) id c frame fuel g s out = .ok (s', out') →
    s'.epoch = s.epoch ∧ ∃ more, out' = out ++ more := by
  induction fuel with
  | zero =>
    intro g s out s' out' h
    simp only [handleElection] at h
    cases h
    exact ⟨rfl, [], by simp⟩
  | succ k ih =>
    intro g s out s' out' h
    by_cases hc : (!Gen.Orderer.electionLoopCond g frame) = true
    · rw [he_succ_stop _ _ _ _ _ _ _ _ hc] at h
      cases h
      exact ⟨rfl, [], by simp⟩
    · cases hp : processRoot env.observe (framesOf s.roots) s.el ⟨id, g, c⟩ with
      | error x => rw [he_succ_err (noSeal env) _ _ _ _ _ _ _ hc x hp] at h; cases h
      | ok p =>
        obtain ⟨el', r⟩ := p
        cases r with
        | none =>
          rw [he_succ_none (noSeal env) _ _ _ _ _ _ _ hc el' hp] at h
          have := ih _ _ _ _ _ h
          exact this
        | some q =>
          obtain ⟨df, a⟩ := q
          rw [he_succ_dec (noSeal env) _ _ _ _ _ _ _ hc el' df a hp, onFrameDecided_noSeal,
            afterDecision_unsealed _ _ _ _ _ _ _ _ rfl] at h
          simp only at h
          split at h
          · cases h
          · rename_i s2 out2 fl hb
            obtain ⟨e1, e2, more, e3⟩ := boot_noSeal_shape env _ _ _ _ _ _ hb
            subst e2
            simp only [Bool.false_eq_true, if_false] at h
            obtain ⟨f1, more', f3⟩ := ih _ _ _ _ _ h
            exact ⟨f1.trans e1, ⟨s.epoch, df, a, false⟩ :: (more ++ more'), by rw [f3, e3]; simp⟩

/-- `handleElection` with a sealing application, from the run without -/
theorem handle_sim (env : Env) (ep : Nat) (id c frame : Nat) (fuel : Nat) : ∀ (g : Nat) (s : OState)
    (out : List Decided) (s' : OState) (out' : List Decided), s.epoch = ep → cut env.sealAt ep out = none →
    handleElection (noSeal env) id c frame fuel g s out = .ok (s', out') →
    handleElection env id c frame fuel g s out =
      match cut env.sealAt ep out' with
      | none => .ok (s', out')
      | some (l, nv) => .ok (initial (Gen.Orderer.sealedEpoch ep) nv, l) := by
  induction fuel with
  | zero =>
    intro g s out s' out' _ hcut h
    simp only [handleElection] at h ⊢
    cases h
    simp only [hcut]
  | succ k ih =>
    intro g s out s' out' hep hcut h
    by_cases hc : (!Gen.Orderer.electionLoopCond g frame) = true
    · rw [he_succ_stop _ _ _ _ _ _ _ _ hc] at h
      cases h
      rw [he_succ_stop _ _ _ _ _ _ _ _ hc]
      simp only [hcut]
    · cases hp : processRoot env.observe (framesOf s.roots) s.el ⟨id, g, c⟩ with
      | error x => rw [he_succ_err (noSeal env) _ _ _ _ _ _ _ hc x hp] at h; cases h
      | ok p =>
        obtain ⟨el', r⟩ := p
        cases r with
        | none =>
          rw [he_succ_none (noSeal env) _ _ _ _ _ _ _ hc el' hp] at h
          rw [he_succ_none env _ _ _ _ _ _ _ hc el' hp]
          exact ih _ _ _ _ _ hep hcut h
        | some q =>
          obtain ⟨df, a⟩ := q
          rw [he_succ_dec (noSeal env) _ _ _ _ _ _ _ hc el' df a hp, onFrameDecided_noSeal,
            afterDecision_unsealed _ _ _ _ _ _ _ _ rfl] at h
          simp only at h
          rw [he_succ_dec env _ _ _ _ _ _ _ hc el' df a hp]
          split at h
          · cases h
          · rename_i s2 out2 fl hb
            obtain ⟨e1, e2, more, e3⟩ := boot_noSeal_shape env _ _ _ _ _ _ hb
            subst e2
            simp only [Bool.false_eq_true, if_false] at h
            obtain ⟨_, more', f3⟩ := handle_noSeal_shape env _ _ _ _ _ _ _ _ _ h
            cases hs : env.sealAt ep df with
            | some nv =>
              have hs' : env.sealAt ({ s with el := el' } : OState).epoch df = some nv := by rw [← hs, ← hep]
              rw [onFrameDecided_some env _ df a nv hs', afterDecision_sealed _ _ _ _ _ _ _ _ rfl, f3, e3,
                List.append_assoc (out ++ _), cut_seal_snoc _ _ _ _ _ nv hcut (by exact hs)]
              simp only
              rw [← hep]
            | none =>
              have hs' : env.sealAt ({ s with el := el' } : OState).epoch df = none := by rw [← hs, ← hep]
              have hcut1 := cut_none_snoc env.sealAt ep out ⟨s.epoch, df, a, false⟩ hcut (by exact hs)
              rw [onFrameDecided_none env _ df a hs', afterDecision_unsealed _ _ _ _ _ _ _ _ rfl]
              simp only
              rw [boot_sim env ep _ _ _ _ _ _ (by exact hep) hcut1 hb]
              cases hc2 : cut env.sealAt ep out2 with
              | none =>
                simp only [Bool.false_eq_true, if_false]
                exact ih _ _ _ _ _ (e1.trans hep) hc2 h
              | some q =>
                obtain ⟨l, nv⟩ := q
                simp only [if_true]
                rw [f3, cut_append_some _ _ _ _ _ hc2]

end OrdererEpochs
