import LachesisVerif.Proofs.RefEquivC
/-!
# Reference equivalence, part D: `Inv` is kept by `insert`, and holds at the start
-/
namespace RefEquiv
open Spec.Lachesis VecProofs Model.Vec

section pres
variable {s s' : Inst} {e : Ev}

theorem anc_insert (hi : Inv s) (h : s.insert e = some s') (a x : Nat) (ha : a < s'.size) :
    bit (s'.ancOf a) x = true ↔ Anc (histOf s') a x := by
  rw [histOf_insert h hi.pok]
  rw [size_insert h] at ha
  by_cases hlt : a < s.size
  · rw [ancOf_insert_old h (by rw [hi.anc_size]; exact hlt),
      anc_snoc_old' hi.pf _ (by rw [length_histOf]; exact hlt)]
    exact hi.anc a x hlt
  · have : a = s.size := by omega
    subst this
    have h2 := ancOf_insert_new h
    rw [hi.anc_size] at h2
    rw [h2]
    exact bit_insAm_anc hi e x

theorem desc_insert (hi : Inv s) (h : s.insert e = some s') (b x : Nat) (hb : b < s'.size) :
    bit (s'.descOf b) x = true ↔ Anc (histOf s') x b := by
  have hpf' : PF (histOf s ++ [newEv s e]) := hi.pf.snoc (newEv_parents_lt s e)
  rw [histOf_insert h hi.pok]
  rw [size_insert h] at hb
  have hlen : (histOf s ++ [newEv s e]).length = s.size + 1 := by rw [length_snoc, length_histOf]
  by_cases hlt : b < s.size
  · rw [descOf_insert_old h (by rw [hi.desc_size]; exact hlt)]
    by_cases hx : x < s.size
    · -- an old descendant
      rw [anc_snoc_old' hi.pf _ (by rw [length_histOf]; exact hx), ← hi.desc b x hlt]
      split
      · rw [bit_or, bit_one_shl, Bool.or_eq_true, decide_eq_true_eq]
        constructor
        · rintro (h1 | h1)
          · exact h1
          · omega
        · exact Or.inl
      · exact Iff.rfl
    · have hold : ¬ (bit (s.descOf b) x = true) := by
        intro hb'
        have := ((hi.desc b x hlt).1 hb').lt_left
        rw [length_histOf] at this
        exact hx this
      by_cases hxe : x = s.size
      · subst hxe
        rw [← bit_insAm_anc hi e b]
        by_cases ham : bit (insAm s e) b = true
        · rw [if_pos ham, bit_or, bit_one_shl]
          simp [ham]
        · rw [if_neg ham]
          exact ⟨fun h1 => absurd h1 hold, fun h1 => absurd h1 ham⟩
      · have hne : ¬ Anc (histOf s ++ [newEv s e]) x b := by
          intro hc
          have := hc.lt_left
          rw [hlen] at this
          omega
        constructor
        · intro h1
          exfalso
          split at h1
          · rw [bit_or, bit_one_shl, Bool.or_eq_true, decide_eq_true_eq] at h1
            rcases h1 with h1 | h1
            · exact hold h1
            · exact hxe h1.symm
          · exact hold h1
        · intro h1; exact absurd h1 hne
  · have : b = s.size := by omega
    subst this
    have h2 := descOf_insert_new h
    rw [hi.desc_size] at h2
    rw [h2, bit_one_shl, decide_eq_true_eq]
    constructor
    · intro h1
      subst h1
      exact Anc.refl (by rw [hlen]; omega)
    · intro h1
      have h3 := anc_le hpf' h1
      have h4 := h1.lt_left
      rw [hlen] at h4
      omega

theorem byC_insert (hi : Inv s) (h : s.insert e = some s') (v i : Nat) (hv : v < s'.nv) :
    bit (s'.byCreator.getD v 0) i = true ↔ i < s'.size ∧ s'.creatorIdx i = v := by
  obtain ⟨cv, hcv, _⟩ := insert_some h
  rw [nv_insert h] at hv
  rw [byCreator_insert h hcv hi.byC_size, size_insert h]
  have hnew : s'.creatorIdx s.size = cv := by rw [creatorIdx_insert_new h, hcv]; rfl
  have hold := hi.byC v i hv
  by_cases hlt : i < s.size
  · rw [creatorIdx_insert_old h hlt]
    have hb : bit (s.byCreator.getD v 0 ||| (1 <<< s.size)) i = bit (s.byCreator.getD v 0) i := by
      rw [bit_or, bit_one_shl, decide_eq_false (by omega), Bool.or_false]
    split
    · rw [hb, hold]
      exact ⟨fun h1 => ⟨by omega, h1.2⟩, fun h1 => ⟨hlt, h1.2⟩⟩
    · rw [hold]
      exact ⟨fun h1 => ⟨by omega, h1.2⟩, fun h1 => ⟨hlt, h1.2⟩⟩
  · have hno : ¬ (bit (s.byCreator.getD v 0) i = true) := fun h1 => hlt (hold.1 h1).1
    by_cases hie : i = s.size
    · subst hie
      rw [hnew]
      split
      · rename_i hcvv
        rw [bit_or, bit_one_shl]
        simp [hcvv]
      · rename_i hcvv
        exact ⟨fun h1 => absurd h1 hno, fun h1 => absurd h1.2 hcvv⟩
    · split
      · rw [bit_or, bit_one_shl, Bool.or_eq_true, decide_eq_true_eq]
        constructor
        · rintro (h1 | h1)
          · exact absurd h1 hno
          · omega
        · intro h1; omega
      · exact ⟨fun h1 => absurd h1 hno, fun h1 => by omega⟩

theorem inv_insert (hi : Inv s) (h : s.insert e = some s') : Inv s' := by
  obtain ⟨h1, h2, h3⟩ := sizes_insert h
  have hsz := size_insert h
  refine ⟨by rw [h1, hi.anc_size, hsz], by rw [h2, hi.desc_size, hsz], by rw [h3, hi.forks_size, hsz],
    by rw [byCreator_size_insert h, hi.byC_size, nv_insert h], parentsOK_insert h hi.pok, ?_, ?_,
    anc_insert hi h, desc_insert hi h, byC_insert hi h⟩
  · intro i hlt
    rw [hsz] at hlt
    by_cases hl : i < s.size
    · rw [ev_insert_old h hl, idxOf_insert h]; exact hi.cre i hl
    · have : i = s.size := by omega
      subst this
      rw [ev_insert_new h, idxOf_insert h]
      obtain ⟨cv, hcv, _⟩ := insert_some h
      exact ⟨cv, hcv⟩
  · rw [histOf_insert h hi.pok]
    exact hi.pf.snoc (newEv_parents_lt s e)

end pres

/-! ### the start instance, built instances -/

/-- a fresh instance of epoch `ep` over the validators `vals` (canonical order: id, weight) -/
def start (ep : Nat) (vals : List (Nat × Nat)) : Inst :=
  { epoch := ep, vals := vals, byCreator := Array.replicate vals.length 0 }

/-- the reference's own constructor is a `start` -/
theorem fresh_eq_start (ep : Nat) (pairs : List (Nat × Nat)) :
    Inst.fresh ep pairs = start ep (canonVals pairs) := rfl

theorem inv_start (ep : Nat) (vals : List (Nat × Nat)) : Inv (start ep vals) := by
  refine ⟨rfl, rfl, rfl, Array.size_replicate, ?_, ?_, PF.nil, ?_, ?_, ?_⟩
  · intro i hi; exact absurd hi (Nat.not_lt_zero _)
  · intro i hi; exact absurd hi (Nat.not_lt_zero _)
  · intro a x ha; exact absurd ha (Nat.not_lt_zero _)
  · intro a x ha; exact absurd ha (Nat.not_lt_zero _)
  · intro v i hv
    have h0 : (start ep vals).byCreator.getD v 0 = 0 := by
      show (Array.replicate vals.length 0).getD v 0 = 0
      rw [Array.getD_eq_getD_getElem?, Array.getElem?_replicate]
      split <;> rfl
    rw [h0, bit_zero]
    exact ⟨fun h => Bool.noConfusion h, fun h => absurd h.1 (Nat.not_lt_zero _)⟩

/-- `Built ep vals evs s`: inserting the events `evs`, in this order, into the fresh instance of
    epoch `ep` over `vals` succeeded at every step (`insert` returned `some`) and gave `s` -/
def Built (ep : Nat) (vals : List (Nat × Nat)) (evs : List Ev) (s : Inst) : Prop :=
  evs.foldlM (fun s e => s.insert e) (start ep vals) = some s

theorem Built.nil (ep : Nat) (vals : List (Nat × Nat)) : Built ep vals [] (start ep vals) := rfl

theorem Built.snoc {ep : Nat} {vals : List (Nat × Nat)} {evs : List Ev} {s s' : Inst} {e : Ev}
    (hb : Built ep vals evs s) (h : s.insert e = some s') : Built ep vals (evs ++ [e]) s' := by
  unfold Built at hb ⊢
  rw [List.foldlM_append, hb]
  simpa using h

/-- induction principle: `Built` is generated by `nil` and `snoc` -/
theorem Built.rec_on {ep : Nat} {vals : List (Nat × Nat)} {P : List Ev → Inst → Prop}
    (hnil : P [] (start ep vals))
    (hsnoc : ∀ evs s e s', Built ep vals evs s → P evs s → s.insert e = some s' → P (evs ++ [e]) s')
    {evs : List Ev} {s : Inst} (hb : Built ep vals evs s) : P evs s := by
  generalize hn : evs.length = n
  induction n generalizing evs s with
  | zero =>
    have he : evs = [] := List.eq_nil_of_length_eq_zero hn
    subst he
    have : s = start ep vals := by
      have h : some (start ep vals) = some s := hb
      injection h with h; exact h.symm
    subst this; exact hnil
  | succ n ih =>
    rcases List.eq_nil_or_concat evs with he | ⟨evs0, e, he⟩
    · subst he; simp at hn
    · rw [List.concat_eq_append] at he
      subst he
      have hlen : evs0.length = n := by simpa using hn
      unfold Built at hb
      rw [List.foldlM_append] at hb
      cases hm : evs0.foldlM (fun s e => s.insert e) (start ep vals) with
      | none => rw [hm] at hb; simp at hb
      | some s0 =>
        rw [hm] at hb
        have hins : s0.insert e = some s := by simpa using hb
        exact hsnoc evs0 s0 e s hm (ih hm hlen) hins

theorem Built.inv {ep : Nat} {vals : List (Nat × Nat)} {evs : List Ev} {s : Inst}
    (hb : Built ep vals evs s) : Inv s :=
  Built.rec_on (P := fun _ s => Inv s) (inv_start ep vals) (fun _ _ _ _ _ hi h => inv_insert hi h) hb

end RefEquiv
