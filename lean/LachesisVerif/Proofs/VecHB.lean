import LachesisVerif.Proofs.VecHB9
/-!
Preservation of the HighestBefore invariant I2 (`VecInv`, `VecInv2`) by `add`, and the invariants
I1/I2 for every valid history by induction over `Valid` (`hb_invariants`).

The size hypothesis `nVals + h.length < 2^32` is needed because `AtLeastOneFork` compares
`idx.Validator(len(BranchIDCreatorIdxs))`, a 32-bit value (kernel `Gen.Vec.atLeastOneFork`).
-/
namespace VecProofs
open Model.Vec Model.Vec.VState

theorem vecInv_of_view {nVals : Nat} {h : Hist} {s s' : VState} {e : Event} {me : Nat}
    {nBrAt : Nat → Nat} (hv : Valid nVals h) (hn : ValidNext nVals h e) (V : AddView h s e s' me)
    (bi' : BranchInv (h ++ [e]) s') (bc' : BranchConsec (h ++ [e]) s')
    (vi : VecInv h s nBrAt) (vi2 : VecInv2 h s nBrAt) (hlt : s'.nBr < 4294967296) :
    VecInv (h ++ [e]) s' (fun a => if a = h.length then s'.nBr else nBrAt a) ∧
    VecInv2 (h ++ [e]) s' (fun a => if a = h.length then s'.nBr else nBrAt a) := by
  have hv' : Valid nVals (h ++ [e]) := Valid.snoc hv hn
  have hle := V.nBr_le
  -- the new row
  obtain ⟨s1, e1, e2, e3, hrow⟩ := V.hb_new
  have C := (loopCtx_of_inv hv' bi' bc' hlt h.length).transfer e1 e2 e3
  have hs1 : SoundV s1 (ForkSeen (h ++ [e]) h.length) (mergedParents s.hb s'.nBr me e) := by
    have := mergedParents_sound hv hn V vi vi2
    unfold SoundV at this ⊢
    rw [e1, e3]; exact this
  obtain ⟨S2, R2, _, C2⟩ := detectForks_spec C hs1 (mergedParents_rep hv hn V bi' vi vi2)
  rw [← hrow] at S2 R2 C2
  unfold SoundV at S2
  rw [e1, e3] at S2 C2
  -- old rows
  have old_sound : ∀ a b, a < h.length → ((s'.hb.get a).get b).isFork = true →
      b < nBrAt a ∧ ForkSeen (h ++ [e]) a (s'.creatorOf b) := by
    intro a b ha hf
    rw [V.hb_old a (Nat.ne_of_lt ha)] at hf
    obtain ⟨h1, h2⟩ := vi.sound a b ha hf
    have := vi.mono a ha
    rw [V.creatorOf_old b (by omega)]
    exact ⟨h1, (forkSeen_snoc_old hv e ha).2 h2⟩
  constructor
  · constructor
    · -- sound
      intro a b ha hf
      rcases idx_cases ha with ha | rfl
      · simp only [if_neg (Nat.ne_of_lt ha)]; exact old_sound a b ha hf
      · simp only [if_true]; exact S2 b hf
    · -- complete
      intro a b ha hb hF
      rcases idx_cases ha with ha | rfl
      · simp only [if_neg (Nat.ne_of_lt ha)] at hb
        have := vi.mono a ha
        rw [V.creatorOf_old b (by omega)] at hF
        rw [V.hb_old a (Nat.ne_of_lt ha)]
        exact vi.complete a b ha hb ((forkSeen_snoc_old hv e ha).1 hF)
      · simp only [if_true] at hb
        exact C2 b hb hF
    · -- rep
      intro a b ha hF
      rcases idx_cases ha with ha | rfl
      · have hnf : ((s'.hb.get a).get b).isFork = false := by
          cases hf : ((s'.hb.get a).get b).isFork with
          | false => rfl
          | true => exact absurd (old_sound a b ha hf).2 hF
        rw [V.hb_old a (Nat.ne_of_lt ha)] at hnf ⊢
        exact (entry_rep vi vi2 ha hnf).congr (fun k => (obsSeq_snoc_old hv V ha b k).symm)
      · apply R2 b
        cases hf : ((s'.hb.get h.length).get b).isFork with
        | false => rfl
        | true => exact absurd (S2 b hf).2 hF
    · -- mono
      intro a ha
      rcases idx_cases ha with ha | rfl
      · simp only [if_neg (Nat.ne_of_lt ha)]; have := vi.mono a ha; omega
      · simp only [if_true]; exact Nat.le_refl _
    · -- base
      intro a ha
      rw [V.nVals_eq]
      rcases idx_cases ha with ha | rfl
      · simp only [if_neg (Nat.ne_of_lt ha)]; exact vi.base a ha
      · simp only [if_true]; have := bi'.nVals_le; rw [V.nVals_eq] at this; exact this
  · constructor
    · -- beyond
      intro a b ha hb
      rcases idx_cases ha with ha | rfl
      · simp only [if_neg (Nat.ne_of_lt ha)] at hb
        rw [V.hb_old a (Nat.ne_of_lt ha)]
        exact vi2.beyond a b ha hb
      · simp only [if_true] at hb
        have hnf : ((s'.hb.get h.length).get b).isFork = false := by
          cases hf : ((s'.hb.get h.length).get b).isFork with
          | false => rfl
          | true => have := (S2 b hf).1; omega
        apply (R2 b hnf).of_empty
        rintro k ⟨i, hai, hib, _⟩
        have := bi'.branch_lt i (hai.lt_right hv')
        omega
    · -- seen_lt
      intro a i ha hai
      rcases idx_cases ha with ha | rfl
      · simp only [if_neg (Nat.ne_of_lt ha)]
        have hai' := (anc_snoc_old hv e ha).1 hai
        rw [V.branchOf_old (hai'.lt_right hv)]
        exact vi2.seen_lt a i ha hai'
      · simp only [if_true]
        exact bi'.branch_lt i (hai.lt_right hv')

/-- everything the induction carries -/
structure AllInv (nVals : Nat) (h : Hist) (s : VState) (nBrAt : Nat → Nat) : Prop where
  bi : BranchInv h s
  vi : VecInv h s nBrAt
  vi2 : VecInv2 h s nBrAt
  bc : BranchConsec h s
  nVals_eq : s.nVals = nVals
  nBr_le : s.nBr ≤ nVals + h.length

theorem allInv_init (nVals : Nat) : AllInv nVals [] (VState.init nVals) (fun _ => 0) where
  bi := by
    constructor
    · rfl
    · exact Nat.le_refl _
    · intro c _; rfl
    · intro b hb; exact hb
    · intro i hi; simp at hi
    · intro i hi; simp at hi
    · intro i j hi; simp at hi
    · intro i j hi; simp at hi
    · intro i hi; simp at hi
    · intro b _ hl; exact absurd rfl hl
    · intro b _; rfl
    · intro i hi; simp at hi
  vi :=
    { sound := fun a b ha => by simp at ha
      complete := fun a b ha => by simp at ha
      rep := fun a b ha => by simp at ha
      mono := fun a ha => by simp at ha
      base := fun a ha => by simp at ha }
  vi2 := by
    constructor
    · intro a b ha; simp at ha
    · intro a i ha; simp at ha
  bc := by intro i j hi; simp at hi
  nVals_eq := rfl
  nBr_le := Nat.le_refl _

theorem allInv_add {nVals : Nat} {h : Hist} {s : VState} {e : Event} {nBrAt : Nat → Nat}
    (hv : Valid nVals h) (hn : ValidNext nVals h e) (A : AllInv nVals h s nBrAt)
    (hsz : nVals + (h ++ [e]).length < 4294967296) :
    ∃ nBrAt', AllInv nVals (h ++ [e]) (s.add e) nBrAt' := by
  have V := add_view hv hn A.bi A.nVals_eq
  have bi' := branchInv_of_view hv hn A.bi A.nVals_eq V
  have bc' := consec_of_view hv A.bi A.bc V
  have hnb : (s.add e).nBr ≤ nVals + (h ++ [e]).length := by
    have := A.nBr_le
    rw [length_snoc]
    rcases V.nBr_cases with ⟨h1, _⟩ | ⟨h1, _⟩ <;> omega
  obtain ⟨v1, v2⟩ := vecInv_of_view hv hn V bi' bc' A.vi A.vi2 (by omega)
  exact ⟨_, ⟨bi', v1, v2, bc', by rw [V.nVals_eq]; exact A.nVals_eq, hnb⟩⟩

theorem allInv_of_valid {nVals : Nat} {h : Hist} (hv : Valid nVals h)
    (hsz : nVals + h.length < 4294967296) : ∃ nBrAt, AllInv nVals h (run nVals h) nBrAt := by
  induction hv with
  | nil => exact ⟨_, allInv_init nVals⟩
  | @snoc h e hv hn ih =>
    obtain ⟨nBrAt, A⟩ := ih (by rw [length_snoc] at hsz; omega)
    rw [run_snoc]
    exact allInv_add hv hn A hsz

/-- I1 and I2 hold after indexing any valid history (of fewer than 2^32 − nVals events) -/
theorem hb_invariants {nVals : Nat} {h : Hist} (hv : Valid nVals h)
    (hsz : nVals + h.length < 4294967296) :
    ∃ nBrAt, BranchInv h (run nVals h) ∧ VecInv h (run nVals h) nBrAt ∧
      VecInv2 h (run nVals h) nBrAt ∧ BranchConsec h (run nVals h) := by
  obtain ⟨nBrAt, A⟩ := allInv_of_valid hv hsz
  exact ⟨nBrAt, A.bi, A.vi, A.vi2, A.bc⟩

end VecProofs
