import LachesisVerif.Proofs.ComposeIndex
import LachesisVerif.Proofs.ComposeTrace
import LachesisVerif.Proofs.OrdererRestart3c
import LachesisVerif.Props.C03
/-!
Composition, part 4: the combined model `Model.Indexed` (Orderer over this instance's own vector
index) simulates the Orderer model run with the graph oracle `N.FC`: `step_sim`, `sim_all`. All
theorems about `Model.Orderer` runs under `OrdererProofs.Ctx` (C01, C08, C10) therefore transfer to the
combined model with the oracle hypothesis discharged.
-/
namespace Compose
open Model.Pos Model.Election Model.Orderer Model.Vec Model.Indexed VecProofs ElectionRules ElectionRefine
open OrdererProofs OrdererRestart3

/-- the submitted form of event `id` of the history `N` -/
def evOf (N : Net) (id : Nat) : IEvent :=
  ⟨id, N.creator id, (N.h.ev id).seq, (N.h.ev id).parents, N.spf id, N.fr id⟩

/-- submit the events `ids` of `N` to the combined model one after the other; collect the answers -/
def runAllIx (N : Net) (app : App) : List Nat → IState → IState × List IRes
  | [], s => (s, [])
  | id :: rest, s =>
    ((runAllIx N app rest (processIndexed app s (evOf N id)).1).1,
     (processIndexed app s (evOf N id)).2 :: (runAllIx N app rest (processIndexed app s (evOf N id)).1).2)

open Classical in
/-- the Orderer environment whose oracle is the graph relation itself -/
noncomputable def envFC (N : Net) (app : App) : Env :=
  { observe := fun a b => decide (N.FC a b), idKey := app.idKey, sealAt := app.sealAt }

open Classical in
/-- C03's sentence: the validators, in canonical order, with a fork among the ancestors-or-self of `a` -/
noncomputable def specCheaters (N : Net) (a : Nat) : List Nat :=
  (List.range N.nVals).filter (fun c => decide (ForkSeen N.h a c))

/-- the graph-side hypotheses: those of `OrdererProofs.Ctx` except the oracle and the seal, plus the two
    side conditions of C05 (distinct parents: basic check; 32-bit branch ids) -/
structure GOK (N : Net) (vals : Vals) : Prop where
  hv : Valid N.nVals N.h
  hfa : N.FramesAccepted
  hbft : N.BFT
  hb : FrameBound N
  ok : ValsOK vals N.nVals N.w
  hnd : ∀ i, i < N.h.length → (N.h.ev i).parents.Nodup
  hsmall : N.nVals + N.h.length < 4294967296

theorem ctx_envFC {N : Net} {vals : Vals} (G : GOK N vals) (app : App) (hns : ∀ ep f, app.sealAt ep f = none) :
    Ctx N vals (envFC N app) :=
  ⟨G.hv, G.hfa, G.hbft, G.hb, G.ok, fun a b => by simp [envFC], hns⟩

/-- invariant of the combined state: the index is this instance's index of `evs`; the Orderer's table
    and election only name events of `evs` -/
structure CInv (N : Net) (vals : Vals) (s : IState) : Prop where
  idx : IdxInv N s.evs s.v
  k : KInv (· ∈ s.evs) vals s.o

theorem cInv_initial {N : Net} {vals : Vals} (ok : ValsOK vals N.nVals N.w) (ep : Nat) :
    CInv N vals (Model.Indexed.initial ep vals) := by
  refine ⟨?_, kInv_initial _ ep vals⟩
  show IdxInv N [] (VState.init vals.len)
  rw [canon_len ok.canon]
  exact idxInv_init N

/-- the cheater loop over the instance's own index computes C03's sentence about the graph -/
theorem cheaters_eq_spec {N : Net} {evs : List Nat} {v : VState} (I : IdxInv N evs v)
    (hsmall : N.nVals + N.h.length < 4294967296) {a : Nat} (ha : a ∈ evs) :
    cheaters v (pos evs a) = specCheaters N a := by
  have hpf := la_valid_pf I.valid
  have hlen := length_le_of_pfList I.pf
  have hla : pos evs a < (histOf N evs).length := by rw [length_histOf]; exact pos_lt ha
  rw [I.run]
  show C03.cheaters _ _ = _
  rw [C03.C03_cheaters_exact I.valid (by rw [length_histOf]; omega) hla]
  unfold specCheaters
  apply List.filter_congr
  intro c _
  rw [decide_eq_decide, emb_fork_iff (emb_histOf I.pf) hpf hla c]
  simp only [getD_pos ha]

open Classical in
theorem agree_envOf {N : Net} {vals : Vals} {evs : List Nat} {v : VState} (app : App)
    (ok : ValsOK vals N.nVals N.w) (I : IdxInv N evs v) (hnd : ∀ i, i < N.h.length → (N.h.ev i).parents.Nodup)
    (hsmall : N.nVals + N.h.length < 4294967296) :
    Agree (· ∈ evs) (envOf app vals v evs) (envFC N app) := by
  refine ⟨rfl, rfl, fun a b ha hb => ?_⟩
  show v.fc vals.weightByIdx vals.quorum (pos evs a) (pos evs b) = decide (N.FC a b)
  rw [Bool.eq_iff_iff, observe_eq_FC ok I hnd hsmall ha hb, decide_eq_true_iff]

/-- one `Process` call of the combined model = one `process` call of the Orderer model with the graph
    oracle, the index grows by the event, the cheater lists are C03's -/
theorem step_sim {N : Net} {vals : Vals} {app : App} (G : GOK N vals) (hns : ∀ ep f, app.sealAt ep f = none)
    {s : IState} (C : CInv N vals s) {id : Nat} (hid : id < N.h.length) (hnew : id ∉ s.evs)
    (hpar : ∀ p ∈ (N.h.ev id).parents, p ∈ s.evs) {o' : OState} {ds : List Decided}
    (hp : process (envFC N app) s.o id (N.creator id) (N.spf id) (N.fr id) = (o', .ok ds)) :
    processIndexed app s (evOf N id) =
      (⟨o', s.v.add (vev N s.evs id), s.evs ++ [id]⟩,
       .ok (ds.map (fun d => (⟨d, specCheaters N d.atropos⟩ : Block)))) ∧
    CInv N vals ⟨o', s.v.add (vev N s.evs id), s.evs ++ [id]⟩ := by
  have hcr : N.creator id < N.nVals := (valid_at G.hv hid).creator_lt
  have hadd : addEvent s (evOf N id) = (s.v.add (vev N s.evs id), s.evs ++ [id]) := by
    unfold addEvent evOf vev
    simp only
    rw [C.k.vals, canon_idxOf G.ok.canon hcr]
  have I1 := idxInv_add C.idx G.hv hid hnew hpar
  have A := agree_envOf app G.ok I1 G.hnd G.hsmall
  have K0 : KInv (· ∈ s.evs ++ [id]) vals s.o := C.k.mono (fun a h => List.mem_append_left _ h)
  have hid1 : id ∈ s.evs ++ [id] := List.mem_append_right _ List.mem_cons_self
  have hpc := process_congr A K0.roots id (N.creator id) (N.spf id) (N.fr id) hid1
  obtain ⟨K1, ho⟩ := process_K (envFC N app) hns K0 id _ _ _ hid1 o' ds hp
  have hany : ds.any (·.sealed) = false := by
    rw [List.any_eq_false]
    intro d hd
    rw [(ho d hd).2]; simp
  have hch : ds.map (fun d => (⟨d, cheaters (s.v.add (vev N s.evs id)) (pos (s.evs ++ [id]) d.atropos)⟩ : Block)) =
      ds.map (fun d => (⟨d, specCheaters N d.atropos⟩ : Block)) := by
    apply List.map_congr_left
    intro d hd
    rw [cheaters_eq_spec I1 G.hsmall (ho d hd).1]
  refine ⟨?_, I1, K1⟩
  unfold processIndexed
  rw [hadd]
  simp only
  rw [C.k.vals]
  have e1 : (evOf N id).id = id := rfl
  have e2 : (evOf N id).creator = N.creator id := rfl
  have e3 : (evOf N id).spf = N.spf id := rfl
  have e4 : (evOf N id).claimed = N.fr id := rfl
  rw [e1, e2, e3, e4, hpc, hp]
  simp only [hany, hch, Bool.false_eq_true, if_false]

/-- parents of a new event of a parents-first order have been processed -/
theorem parents_done {N : Net} (hv : Valid N.nVals N.h) {done : List Nat} {id : Nat} (hid : id < N.h.length)
    (hpar : ∀ x, Anc N.h id x → x ≠ id → x ∈ done) : ∀ p ∈ (N.h.ev id).parents, p ∈ done := by
  intro p hp
  have hlt : p < id := la_valid_pf hv id hid p hp
  exact hpar p (Anc.step hid hp (Anc.refl (by omega))) (by omega)

/-- **Simulation.** If the Orderer model with the graph oracle accepts the events `ids` from the
    Orderer component of a combined state, the combined model accepts them too, with the same decided
    frames per event, C03's cheater lists, the same final Orderer state, and the index extended by
    `ids` in that order. -/
theorem sim_all {N : Net} {vals : Vals} {app : App} (G : GOK N vals) (hns : ∀ ep f, app.sealAt ep f = none) :
    ∀ (ids : List Nat) (s : IState) (done : List Nat) (dss : List (List Decided)),
      CInv N vals s → (∀ x, x ∈ done ↔ x ∈ s.evs) → PFFrom N done ids →
      (runAll N (envFC N app) ids s.o).2 = dss.map Res.ok →
      ∃ v', runAllIx N app ids s =
          (⟨(runAll N (envFC N app) ids s.o).1, v', s.evs ++ ids⟩,
           dss.map (fun ds => IRes.ok (ds.map (fun d => (⟨d, specCheaters N d.atropos⟩ : Block))))) ∧
        CInv N vals ⟨(runAll N (envFC N app) ids s.o).1, v', s.evs ++ ids⟩ := by
  intro ids
  induction ids with
  | nil =>
    intro s done dss C _ _ h
    cases dss with
    | nil => exact ⟨s.v, by simp [runAllIx, runAll], by rw [List.append_nil]; exact C⟩
    | cons d ds => simp [runAll] at h
  | cons id rest ih =>
    intro s done dss C hdone hpf h
    obtain ⟨hid, hnew, hpar, hrest⟩ := hpf
    cases dss with
    | nil => simp [runAll] at h
    | cons ds dss' =>
      simp only [runAll, List.map_cons, List.cons.injEq] at h
      have hp : process (envFC N app) s.o id (N.creator id) (N.spf id) (N.fr id) =
          ((process (envFC N app) s.o id (N.creator id) (N.spf id) (N.fr id)).1, Res.ok ds) := Prod.ext rfl h.1
      have hnew' : id ∉ s.evs := fun hm => hnew ((hdone id).2 hm)
      have hpar' : ∀ p ∈ (N.h.ev id).parents, p ∈ s.evs :=
        fun p hp => (hdone p).1 (parents_done G.hv hid hpar p hp)
      obtain ⟨e1, C1⟩ := step_sim G hns C hid hnew' hpar' hp
      have hdone1 : ∀ x, x ∈ id :: done ↔ x ∈ s.evs ++ [id] := by
        intro x
        simp only [List.mem_cons, List.mem_append, List.not_mem_nil, or_false, hdone x]
        exact Or.comm
      obtain ⟨v', e2, C2⟩ := ih _ (id :: done) dss' C1 hdone1 hrest h.2
      refine ⟨v', ?_, ?_⟩
      · simp only [runAllIx, runAll, e1, e2, List.map_cons, List.append_assoc, List.singleton_append]
      · simpa only [runAll, List.append_assoc, List.singleton_append] using C2

/-- a restart of the combined model over the PERSISTED index state is a restart of the Orderer model
    with the graph oracle -/
theorem restart_sim {N : Net} {vals : Vals} {app : App} (G : GOK N vals) (hns : ∀ ep f, app.sealAt ep f = none)
    {s : IState} (C : CInv N vals s) {o' : OState} (hb : bootstrap (envFC N app) s.o = .ok (o', [], false)) :
    restartIndexed app s = .ok (⟨o', s.v, s.evs⟩, [], false) ∧ CInv N vals ⟨o', s.v, s.evs⟩ := by
  have A := agree_envOf app G.ok C.idx G.hnd G.hsmall
  refine ⟨?_, C.idx, (bootstrap_K (envFC N app) hns C.k _ _ _ hb).1⟩
  unfold restartIndexed
  rw [C.k.vals, bootstrap_congr A C.k.roots, hb]
  rfl

/-- accepted runs of `runIds` are runs of `runAll` with all answers `ok` -/
theorem runAll_of_runIds (N : Net) (env : Env) (ids : List Nat) :
    ∀ (s : OState) (out : List Decided) (s' : OState) (out' : List Decided),
      runIds N env ids s out = some (s', out') →
      ∃ dss : List (List Decided), (runAll N env ids s).2 = dss.map Res.ok ∧ (runAll N env ids s).1 = s' ∧
        out' = out ++ dss.flatten := by
  induction ids with
  | nil =>
    intro s out s' out' h
    simp only [runIds, Option.some.injEq, Prod.mk.injEq] at h
    exact ⟨[], rfl, h.1, by simp [h.2]⟩
  | cons id rest ih =>
    intro s out s' out' h
    simp only [runIds] at h
    cases hp : process env s id (N.creator id) (N.spf id) (N.fr id) with
    | mk s1 r =>
      rw [hp] at h
      cases r with
      | wrongFrame => simp at h
      | failed x => simp at h
      | ok ds =>
        simp only at h
        obtain ⟨dss, h1, h2, h3⟩ := ih _ _ _ _ h
        refine ⟨ds :: dss, ?_, ?_, ?_⟩
        · simp only [runAll, hp, h1, List.map_cons]
        · simp only [runAll, hp, h2]
        · rw [h3, List.flatten_cons, List.append_assoc]

end Compose
