import LachesisVerif.Proofs.ProcessorBal
/-! C15: the "held" invariant of `ProcessorBal` is carried through the inserter machinery
    (`orderedInner`, `consume`, `drain`, `pump`) and through every operation of a well-formed sequence. -/
namespace C15
open Model.EventsBuffer Model.Processor C14

/-- what an ordered batch will still hand to `process()`: the items from `processed` on -/
def needO (w : Bool) (b : Batch) : Nat := totalW w (b.items.drop b.processed)
/-- what an unordered batch will still hand to `process()`: the items at the positions `L` whose check
    result is still to be consumed -/
def needU (w : Bool) (items : List Item) (L : List Nat) : Nat := (L.map (wAt w items)).sum
def need (w : Bool) (b : Batch) (L : List Nat) : Nat := if b.ordered then needO w b else needU w b.items L

theorem need_ordered {w : Bool} {b : Batch} (L : List Nat) (h : b.ordered = true) : need w b L = needO w b := by
  unfold need; rw [if_pos h]

theorem need_unordered {w : Bool} {b : Batch} (L : List Nat) (h : ¬ b.ordered = true) :
    need w b L = needU w b.items L := by
  unfold need; rw [if_neg h]

theorem needU_cons (w : Bool) (items : List Item) (pos : Nat) (L : List Nat) :
    needU w items (pos :: L) = wAt w items pos + needU w items L := rfl

theorem need_cons_le (w : Bool) (b : Batch) (pos : Nat) (L : List Nat) : need w b L ≤ need w b (pos :: L) := by
  unfold need
  split
  · exact Nat.le_refl _
  · rw [needU_cons]; omega

/-- the fields `need` looks at, apart from `processed` -/
def Same (b b' : Batch) : Prop := b'.items = b.items ∧ b'.ordered = b.ordered ∧ b'.id = b.id

/-- the batch after one round of the ordered loop -/
def nextB (b : Batch) (req : List Nat) : Batch :=
  { b with results := b.results.set b.processed none, processed := b.processed + 1, toRequest := b.toRequest ++ req }

section generic
variable {σ : Type} (hd : σ → Item → Nat → σ × List Nat) (H : (Bool → Nat) → σ → Prop)

structure HeldLike : Prop where
  mono : ∀ K K' s, (∀ w, K' w ≤ K w) → H K s → H K' s
  step : ∀ K s it e, H (fun w => K w + wtOf w it) s → H K (hd s it e).1

variable {hd H}

theorem orderedInner_held (hh : HeldLike hd H) : ∀ fuel b s (K : Bool → Nat),
    H (fun w => K w + needO w b) s →
      H (fun w => K w + needO w (orderedInner hd fuel b s).1) (orderedInner hd fuel b s).2 ∧
      Same b (orderedInner hd fuel b s).1 := by
  intro fuel
  induction fuel with
  | zero => intro b s K h; exact ⟨h, rfl, rfl, rfl⟩
  | succ fuel ih =>
    intro b s K h
    unfold orderedInner
    split
    · split
      · rename_i it err heq1 heq2
        obtain ⟨hlt, hget⟩ := List.getElem?_eq_some_iff.1 heq1
        have hdrop : b.items.drop b.processed = it :: b.items.drop (b.processed + 1) := by
          rw [List.drop_eq_getElem_cons hlt, hget]
        have hneed : ∀ w, needO w b = wtOf w it + needO w (nextB b (hd s it err).2) := by
          intro w
          show totalW w (b.items.drop b.processed) = wtOf w it + totalW w (b.items.drop (b.processed + 1))
          rw [hdrop]; rfl
        have h' := hh.step (fun w => K w + needO w (nextB b (hd s it err).2)) s it err
          (hh.mono _ _ s (fun w => by rw [hneed w]; omega) h)
        obtain ⟨a, c⟩ := ih (nextB b (hd s it err).2) _ K h'
        exact ⟨a, c.1, c.2.1, c.2.2⟩
      · exact ⟨h, rfl, rfl, rfl⟩
    · exact ⟨h, rfl, rfl, rfl⟩

theorem consume_held (hh : HeldLike hd H) (b : Batch) (s : σ) (pos err : Nat) (K : Bool → Nat) (L : List Nat)
    (h : H (fun w => K w + need w b (pos :: L)) s) :
    H (fun w => K w + need w (consume hd b s pos err).1 L) (consume hd b s pos err).2 ∧
    Same b (consume hd b s pos err).1 := by
  unfold consume
  split
  · exact ⟨hh.mono _ _ s (fun w => Nat.add_le_add_left (need_cons_le w b pos L) _) h, rfl, rfl, rfl⟩
  · split
    · rename_i ho
      obtain ⟨a, c⟩ := orderedInner_held hh (b.items.length + 1) { b with results := b.results.set pos (some err) } s K
        (hh.mono _ _ s (fun w => by
          rw [need_ordered _ ho]
          exact Nat.le_refl _) h)
      have ho' : (orderedInner hd (b.items.length + 1) { b with results := b.results.set pos (some err) } s).1.ordered = true := by
        rw [c.2.1]; exact ho
      refine ⟨hh.mono _ _ _ (fun w => ?_) a, c.1, c.2.1, c.2.2⟩
      rw [need_ordered _ ho']
      exact Nat.le_refl _
    · rename_i ho
      split
      · rename_i it heq
        refine ⟨?_, rfl, rfl, rfl⟩
        apply hh.step
        refine hh.mono _ _ s (fun w => ?_) h
        rw [need_unordered _ ho, needU_cons]
        have e1 : wAt w b.items pos = wtOf w it := by unfold wAt; rw [heq]
        rw [e1]
        show K w + need w { b with processed := b.processed + 1, toRequest := b.toRequest ++ (hd s it err).2 } L + wtOf w it ≤ _
        rw [need_unordered (b := { b with processed := b.processed + 1, toRequest := b.toRequest ++ (hd s it err).2 }) L ho]
        show K w + needU w b.items L + wtOf w it ≤ _
        omega
      · exact ⟨hh.mono _ _ s (fun w => Nat.add_le_add_left (need_cons_le w b pos L) _) h, rfl, rfl, rfl⟩

theorem drain_held (hh : HeldLike hd H) : ∀ (q : List (Nat × Nat)) (b : Batch) (s : σ) (K : Bool → Nat) (L : List Nat),
    H (fun w => K w + need w b (q.map (·.1) ++ L)) s →
      H (fun w => K w + need w (drain hd b s q).1 L) (drain hd b s q).2 ∧
      Same b (drain hd b s q).1 ∧ (drain hd b s q).1.queue = [] := by
  intro q
  induction q with
  | nil => intro b s K L h; exact ⟨h, ⟨rfl, rfl, rfl⟩, rfl⟩
  | cons x q ih =>
    intro b s K L h
    obtain ⟨pos, err⟩ := x
    obtain ⟨a, c⟩ := consume_held hh b s pos err K (q.map (·.1) ++ L) h
    obtain ⟨a', c', q'⟩ := ih _ _ K L a
    show H (fun w => K w + need w (drain hd (consume hd b s pos err).1 (consume hd b s pos err).2 q).1 L)
        (drain hd (consume hd b s pos err).1 (consume hd b s pos err).2 q).2 ∧
      Same b (drain hd (consume hd b s pos err).1 (consume hd b s pos err).2 q).1 ∧
      (drain hd (consume hd b s pos err).1 (consume hd b s pos err).2 q).1.queue = []
    exact ⟨a', ⟨c'.1.trans c.1, c'.2.1.trans c.2.1, c'.2.2.trans c.2.2⟩, q'⟩
end generic

/-! ### the inserter worker -/

theorem heldLike_handle (init : List Nat) (cfg : Cfg) (O : Oracle) :
    HeldLike (handle cfg O) (Held init cfg) :=
  ⟨fun _ _ _ hk h => h.mono hk, fun K st it e h => held_handle init cfg O K st it e h⟩

/-- what the pending batches will still hand to `process()`; `F id` = the positions whose check result
    will still be delivered to batch `id` -/
def pneed (w : Bool) (F : Nat → List Nat) (bs : List Batch) : Nat :=
  (bs.map (fun b => need w b (b.queue.map (·.1) ++ F b.id))).sum

theorem pneed_cons (w : Bool) (F : Nat → List Nat) (b : Batch) (bs : List Batch) :
    pneed w F (b :: bs) = need w b (b.queue.map (·.1) ++ F b.id) + pneed w F bs := rfl

theorem pump_cons (cfg : Cfg) (O : Oracle) (b : Batch) (rest : List Batch) (st : PSt) :
    pump cfg O (b :: rest) st =
      if (drain (handle cfg O) b st b.queue).1.finished = true
      then pump cfg O rest (finish (drain (handle cfg O) b st b.queue).1 (drain (handle cfg O) b st b.queue).2)
      else ((drain (handle cfg O) b st b.queue).1 :: rest, (drain (handle cfg O) b st b.queue).2) := rfl

theorem pump_held (init : List Nat) (cfg : Cfg) (O : Oracle) (F : Nat → List Nat) :
    ∀ (bs : List Batch) (st : PSt) (K : Bool → Nat), Held init cfg (fun w => K w + pneed w F bs) st →
      Held init cfg (fun w => K w + pneed w F (pump cfg O bs st).1) (pump cfg O bs st).2 := by
  intro bs
  induction bs with
  | nil => intro st K h; exact h
  | cons b rest ih =>
    intro st K h
    obtain ⟨a, sm, hq⟩ := drain_held (heldLike_handle init cfg O) b.queue b st (fun w => K w + pneed w F rest) (F b.id)
      (h.mono (fun w => by rw [pneed_cons]; omega))
    rw [pump_cons]
    split
    · apply ih
      exact (held_finish init cfg _ _ _ a).mono (fun w => Nat.le_add_right _ _)
    · show Held init cfg (fun w => K w + pneed w F ((drain (handle cfg O) b st b.queue).1 :: rest)) (drain (handle cfg O) b st b.queue).2
      refine a.mono (fun w => ?_)
      rw [pneed_cons, hq, sm.2.2]
      show K w + (need w (drain (handle cfg O) b st b.queue).1 (F b.id) + pneed w F rest) ≤ _
      omega

end C15
