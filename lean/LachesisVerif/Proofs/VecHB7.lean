import LachesisVerif.Proofs.VecHB6
/-!
`detectForks`, part 3: completeness of the overlap loop and the specification of `detectForks`.
-/
namespace VecProofs
open Model.Vec Model.Vec.VState

theorem body2_complete {s : VState} {F : Nat → Prop} {Obs : Nat → Nat → Prop} (C : LoopCtx s F Obs)
    {v : HBV} (hu : Uniform s v) (hr : RepV Obs v) {c : Nat} (hc : c < s.nVals) (hF : F c)
    (b : Nat) (hb : b < s.nBr ∧ s.creatorOf b = c) : ((loop2Body s v c).get b).isFork = true := by
  have hcb : c < s.nBr := by have := C.nVals_le; omega
  have hcc : s.creatorOf c = c := C.primary c hc
  unfold loop2Body
  simp only
  split
  · rename_i hfc
    exact hu c b hcb hb.1 (by rw [hcc, hb.2]) hfc
  · rename_i hfc
    obtain ⟨x, y, k, hxy, hx, hy, hcx, hcy, hox, hoy⟩ := C.ov_complete c hF
    have nf : ∀ z, z < s.nBr → s.creatorOf z = c → (v.get z).isFork = false := by
      intro z hz hcz
      cases hfz : (v.get z).isFork with
      | false => rfl
      | true => exact absurd (hu z c hz hcb (by rw [hcz, hcc]) hfz) hfc
    have hfx := nf x hx hcx
    have hfy := nf y hy hcy
    have bx := (hr x hfx).bounds hox
    have by' := (hr y hfy).bounds hoy
    have hov : overlap v x y = true := by
      rw [overlap_iff]
      exact ⟨hxy, Or.inr (by omega), Or.inr (by omega), by omega, by omega⟩
    have hany : (s.branchesOf c).any (fun a => (s.branchesOf c).any (fun b => overlap v a b)) = true :=
      List.any_eq_true.2 ⟨x, (mem_branchesOf s c x).2 ⟨hx, hcx⟩,
        List.any_eq_true.2 ⟨y, (mem_branchesOf s c y).2 ⟨hy, hcy⟩, hov⟩⟩
    rw [if_pos hany, setForkDetected_get, if_pos hb]
    exact isFork_marker

theorem loop2_complete {s : VState} {F : Nat → Prop} {Obs : Nat → Nat → Prop} (C : LoopCtx s F Obs)
    (cs : List Nat) (hcs : ∀ c, c ∈ cs → c < s.nVals) (v : HBV) (hu : Uniform s v) (hr : RepV Obs v)
    (c : Nat) (hc : c ∈ cs) (hF : F c) (b : Nat) (hb : b < s.nBr ∧ s.creatorOf b = c) :
    ((cs.foldl (loop2Body s) v).get b).isFork = true := by
  induction cs generalizing v with
  | nil => simp at hc
  | cons c0 cs ih =>
    simp only [List.foldl_cons]
    rcases List.mem_cons.1 hc with rfl | hc'
    · exact (foldl_le _ (body2_le s) cs _).fork (body2_complete C hu hr (hcs c (by simp)) hF b hb)
    · exact ih (fun c h => hcs c (List.mem_cons_of_mem _ h)) _ (body2_uniform c0 hu)
        (hr.le (body2_le s v c0)) hc'

theorem atLeastOneFork_iff {s : VState} (h : s.nBr < 4294967296) :
    s.atLeastOneFork = true ↔ s.nVals < s.nBr := by
  unfold atLeastOneFork Gen.Vec.atLeastOneFork
  rw [Nat.mod_eq_of_lt h]
  simp

/-- without a second branch of some creator there is no fork -/
theorem LoopCtx.no_fork_of_no_branch {s : VState} {F : Nat → Prop} {Obs : Nat → Nat → Prop}
    (C : LoopCtx s F Obs) (h : ¬ s.nVals < s.nBr) (c : Nat) : ¬ F c := by
  intro hF
  obtain ⟨x, y, k, hxy, hx, hy, hcx, hcy, _, _⟩ := C.ov_complete c hF
  have := C.nVals_le
  have h1 := C.primary x (by omega)
  have h2 := C.primary y (by omega)
  omega

/-- specification of the two fork-detection loops -/
theorem detectForks_spec {s : VState} {F : Nat → Prop} {Obs : Nat → Nat → Prop} (C : LoopCtx s F Obs)
    {v : HBV} (hs : SoundV s F v) (hr : RepV Obs v) :
    SoundV s F (s.detectForks v) ∧ RepV Obs (s.detectForks v) ∧ Le v (s.detectForks v) ∧
    (∀ b, b < s.nBr → F (s.creatorOf b) → ((s.detectForks v).get b).isFork = true) := by
  rw [detectForks_eq]
  by_cases hal : s.atLeastOneFork = true
  · rw [hal]
    simp only [Bool.not_true, Bool.false_eq_true, if_false]
    have le1 := foldl_le _ (body1_le s) (List.range s.nVals) v
    have s1 : SoundV s F ((List.range s.nVals).foldl (loop1Body s) v) :=
      foldl_sound (Obs := Obs) _ (body1_le s) (fun v c hs _ => body1_sound c hs) _ v hs hr
    have r1 := hr.le le1
    have u1 := loop1_uniform C.creator_lt v
    have le2 := foldl_le _ (body2_le s) (List.range s.nVals) ((List.range s.nVals).foldl (loop1Body s) v)
    refine ⟨?_, r1.le le2, le1.trans le2, ?_⟩
    · exact foldl_sound _ (body2_le s) (fun v c hs hr => body2_sound C c hs hr) _ _ s1 r1
    · intro b hb hF
      exact loop2_complete C _ (fun c hc => List.mem_range.1 hc) _ u1 r1 (s.creatorOf b)
        (List.mem_range.2 (C.creator_lt b hb)) hF b ⟨hb, rfl⟩
  · have hal' : s.atLeastOneFork = false := by simpa using hal
    rw [hal']
    simp only [Bool.not_false, if_true]
    refine ⟨hs, hr, Le.refl v, ?_⟩
    intro b _ hF
    have := mt (atLeastOneFork_iff C.nBr_lt).2 hal
    exact absurd hF (C.no_fork_of_no_branch this _)

end VecProofs
