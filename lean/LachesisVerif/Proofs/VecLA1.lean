import LachesisVerif.Proofs.VecDefs
/-!
C05, part 1: elementary facts about histories (`Hist.ev`, `Anc`, `Valid`), the frame of
`assignBranch` / `add`, and a small auxiliary invariant `LAux` (size, parents table, branch
bounds, `lastSeq` upper bound) that the LowestAfter proof needs at *every* prefix of the history.
All names are prefixed `la_` (the C06 proofs live in the same namespace).
-/
namespace VecProofs
open Model.Vec

/-! ### histories -/

theorem la_ev_append_left {h : Hist} (ext : Hist) {i : Nat} (hi : i < h.length) :
    Hist.ev (h ++ ext) i = Hist.ev h i := by
  unfold Hist.ev
  simp [List.getD_eq_getElem?_getD, List.getElem?_append_left hi]

theorem la_ev_snoc_self (h : Hist) (e : Event) : Hist.ev (h ++ [e]) h.length = e := by
  unfold Hist.ev
  simp [List.getD_eq_getElem?_getD]

/-- parents-first: every parent is an earlier position -/
def PF (h : Hist) : Prop := ∀ i, i < h.length → ∀ p ∈ (Hist.ev h i).parents, p < i

theorem la_valid_pf {nVals : Nat} {h : Hist} (hv : Valid nVals h) : PF h := by
  induction hv with
  | nil => intro i hi; simp at hi
  | @snoc h e _ hn ih =>
    intro i hi p hp
    rw [List.length_append, List.length_singleton] at hi
    by_cases hlt : i < h.length
    · rw [la_ev_append_left _ hlt] at hp; exact ih i hlt p hp
    · have : i = h.length := by omega
      subst this
      rw [la_ev_snoc_self] at hp
      exact hn.parents_lt p hp

theorem la_valid_take {nVals : Nat} {h : Hist} (hv : Valid nVals h) (k : Nat) : Valid nVals (h.take k) := by
  induction hv with
  | nil => simpa using Valid.nil
  | @snoc h e hv' hn ih =>
    by_cases hk : k ≤ h.length
    · rw [List.take_append_of_le_length hk]; exact ih
    · rw [List.take_of_length_le (by simp; omega)]; exact Valid.snoc hv' hn

theorem la_valid_prefix {nVals : Nat} {h ext : Hist} (hv : Valid nVals (h ++ ext)) : Valid nVals h := by
  have := la_valid_take hv h.length
  rwa [List.take_left'] at this
  rfl

/-! ### ancestry -/

theorem la_anc_lt_left {h : Hist} {a b : Nat} (hab : Anc h a b) : a < h.length := by
  cases hab with
  | refl h => exact h
  | step h _ _ => exact h

theorem la_anc_trans {h : Hist} {a b c : Nat} (hab : Anc h a b) (hbc : Anc h b c) : Anc h a c := by
  induction hab with
  | refl _ => exact hbc
  | step hlt hp _ ih => exact Anc.step hlt hp (ih hbc)

theorem la_anc_le {h : Hist} (hpf : PF h) {a b : Nat} (hab : Anc h a b) : b ≤ a := by
  induction hab with
  | refl _ => exact Nat.le_refl _
  | step hlt hp _ ih => have := hpf _ hlt _ hp; omega

theorem la_anc_lt_right {h : Hist} (hpf : PF h) {a b : Nat} (hab : Anc h a b) : b < h.length := by
  have := la_anc_le hpf hab; have := la_anc_lt_left hab; omega

theorem la_anc_append {h : Hist} (ext : Hist) {a b : Nat} (hab : Anc h a b) : Anc (h ++ ext) a b := by
  induction hab with
  | refl hlt => exact Anc.refl (by rw [List.length_append]; omega)
  | step hlt hp _ ih =>
    refine Anc.step (by rw [List.length_append]; omega) ?_ ih
    rw [la_ev_append_left _ hlt]; exact hp

theorem la_anc_of_append {h : Hist} (hpf : PF h) (ext : Hist) {a b : Nat}
    (hab : Anc (h ++ ext) a b) (ha : a < h.length) : Anc h a b := by
  induction hab with
  | refl _ => exact Anc.refl ha
  | step _ hp _ ih =>
    rw [la_ev_append_left _ ha] at hp
    have := hpf _ ha _ hp
    exact Anc.step ha hp (ih (by omega))

theorem la_anc_append_iff {h : Hist} (hpf : PF h) (ext : Hist) {a b : Nat} (ha : a < h.length) :
    Anc (h ++ ext) a b ↔ Anc h a b :=
  ⟨fun hab => la_anc_of_append hpf ext hab ha, la_anc_append ext⟩

/-- the ancestors of the newest event -/
theorem la_anc_new {h : Hist} (hpf : PF h) (e : Event) (hpl : ∀ p ∈ e.parents, p < h.length) (b : Nat) :
    Anc (h ++ [e]) h.length b ↔ b = h.length ∨ ∃ p ∈ e.parents, Anc h p b := by
  constructor
  · intro hab
    cases hab with
    | refl _ => exact Or.inl rfl
    | step _ hp hpb =>
      rw [la_ev_snoc_self] at hp
      exact Or.inr ⟨_, hp, la_anc_of_append hpf _ hpb (hpl _ hp)⟩
  · rintro (rfl | ⟨p, hp, hpb⟩)
    · exact Anc.refl (by simp)
    · exact Anc.step (by simp) (by rw [la_ev_snoc_self]; exact hp) (la_anc_append _ hpb)

theorem la_forkseen_append_iff {h : Hist} (hpf : PF h) (ext : Hist) {a : Nat} (ha : a < h.length) (c : Nat) :
    ForkSeen (h ++ ext) a c ↔ ForkSeen h a c := by
  constructor
  · rintro ⟨x, y, hne, hx, hy, h1, h2, h3⟩
    have hx' := la_anc_of_append hpf ext hx ha
    have hy' := la_anc_of_append hpf ext hy ha
    have hxl := la_anc_lt_right hpf hx'
    have hyl := la_anc_lt_right hpf hy'
    rw [la_ev_append_left _ hxl] at h1 h3
    rw [la_ev_append_left _ hyl] at h2 h3
    exact ⟨x, y, hne, hx', hy', h1, h2, h3⟩
  · rintro ⟨x, y, hne, hx, hy, h1, h2, h3⟩
    have hxl := la_anc_lt_right hpf hx
    have hyl := la_anc_lt_right hpf hy
    refine ⟨x, y, hne, la_anc_append _ hx, la_anc_append _ hy, ?_, ?_, ?_⟩
    · rw [la_ev_append_left _ hxl]; exact h1
    · rw [la_ev_append_left _ hyl]; exact h2
    · rw [la_ev_append_left _ hxl, la_ev_append_left _ hyl]; exact h3

theorem la_run_snoc (nVals : Nat) (h : Hist) (e : Event) :
    run nVals (h ++ [e]) = (run nVals h).add e := by
  unfold run; rw [List.foldl_append]; rfl

/-! ### frame of `assignBranch` and `add` -/

/-- what `assignBranch` does: tables other than `lastSeq`/`creatorOf`/`nBr` are untouched, the
    branch of the event gets `lastSeq = e.seq`, and the three ways the branch is chosen -/
theorem la_assign_cases (s : VState) (e : Event) :
    ((s.assignBranch e).1.size = s.size ∧ (s.assignBranch e).1.parents = s.parents ∧
      (s.assignBranch e).1.la = s.la ∧ (s.assignBranch e).1.hb = s.hb ∧
      (s.assignBranch e).1.branchOf = s.branchOf ∧ (s.assignBranch e).1.nVals = s.nVals) ∧
    (∀ b, (s.assignBranch e).1.lastSeq b = if b = (s.assignBranch e).2 then e.seq else s.lastSeq b) ∧
    (((s.assignBranch e).2 = s.nBr ∧ (s.assignBranch e).1.nBr = s.nBr + 1) ∨
     ((s.assignBranch e).1.nBr = s.nBr ∧
       (((s.assignBranch e).2 = e.creator ∧ s.lastSeq (s.assignBranch e).2 = 0) ∨
        (e.parents ≠ [] ∧ (s.assignBranch e).2 = s.branchOf (e.parents.headD 0) ∧
          (s.lastSeq (s.assignBranch e).2 + 1) % 4294967296 = e.seq)))) := by
  unfold VState.assignBranch
  by_cases h1 : (decide (e.seq ≤ 1) || e.parents.isEmpty) = true
  · rw [if_pos h1]
    by_cases h2 : Gen.Vec.firstOnBranch (s.lastSeq e.creator) = true
    · rw [if_pos h2]
      refine ⟨⟨rfl, rfl, rfl, rfl, rfl, rfl⟩, fun b => rfl, Or.inr ⟨rfl, Or.inl ⟨rfl, ?_⟩⟩⟩
      simpa [Gen.Vec.firstOnBranch] using h2
    · rw [if_neg h2]
      exact ⟨⟨rfl, rfl, rfl, rfl, rfl, rfl⟩, fun b => rfl, Or.inl ⟨rfl, rfl⟩⟩
  · rw [if_neg h1]
    by_cases h2 : Gen.Vec.extendsBranch (s.lastSeq (s.branchOf (e.parents.headD 0))) e.seq = true
    · dsimp only; rw [if_pos h2]
      refine ⟨⟨rfl, rfl, rfl, rfl, rfl, rfl⟩, fun b => rfl, Or.inr ⟨rfl, Or.inr ⟨?_, rfl, ?_⟩⟩⟩
      · intro hnil; apply h1; simp [hnil]
      · simpa [Gen.Vec.extendsBranch] using h2
    · dsimp only; rw [if_neg h2]
      exact ⟨⟨rfl, rfl, rfl, rfl, rfl, rfl⟩, fun b => rfl, Or.inl ⟨rfl, rfl⟩⟩

theorem la_add_size (s : VState) (e : Event) : (s.add e).size = s.size + 1 := rfl

theorem la_add_branchOf (s : VState) (e : Event) (a : Nat) :
    (s.add e).branchOf a = if a = s.size then (s.assignBranch e).2 else s.branchOf a := by
  have := (la_assign_cases s e).1.2.2.2.2.1
  show (if a = s.size then (s.assignBranch e).2 else (s.assignBranch e).1.branchOf a) = _
  rw [this]

theorem la_add_parents (s : VState) (e : Event) (a : Nat) :
    (s.add e).parents a = if a = s.size then e.parents else s.parents a := by
  have := (la_assign_cases s e).1.2.1
  show (if a = s.size then e.parents else (s.assignBranch e).1.parents a) = _
  rw [this]

theorem la_add_lastSeq (s : VState) (e : Event) : (s.add e).lastSeq = (s.assignBranch e).1.lastSeq := rfl
theorem la_add_nBr (s : VState) (e : Event) : (s.add e).nBr = (s.assignBranch e).1.nBr := rfl
theorem la_add_nVals (s : VState) (e : Event) : (s.add e).nVals = s.nVals :=
  (la_assign_cases s e).1.2.2.2.2.2

theorem la_add_la (s : VState) (e : Event) :
    (s.add e).la = (VState.visitLA s.parents (s.assignBranch e).2 e.seq ((s.size + 1) * (s.size + 2))
        e.parents.reverse s.la).setRow s.size (LAV.zero.set (s.assignBranch e).2 e.seq) := by
  obtain ⟨hsz, hpar, hla, _⟩ := (la_assign_cases s e).1
  show (VState.visitLA (s.assignBranch e).1.parents (s.assignBranch e).2 e.seq
      (((s.assignBranch e).1.size + 1) * ((s.assignBranch e).1.size + 2)) e.parents.reverse
      (s.assignBranch e).1.la).setRow s.size (LAV.zero.set (s.assignBranch e).2 e.seq) = _
  rw [hsz, hpar, hla]

/-! ### the auxiliary invariant -/

/-- the part of I1 that the LowestAfter proof needs at every prefix (proved here directly; the full
    branch invariant `BranchInv` is the business of Proofs/VecHB*.lean) -/
structure LAux (nVals : Nat) (h : Hist) (s : VState) : Prop where
  size_eq : s.size = h.length
  nvals_eq : s.nVals = nVals
  nvals_le : nVals ≤ s.nBr
  nbr_le : s.nBr ≤ nVals + h.length
  parents_eq : ∀ i, i < h.length → s.parents i = (Hist.ev h i).parents
  branch_lt : ∀ i, i < h.length → s.branchOf i < s.nBr
  last_ub : ∀ i, i < h.length → (Hist.ev h i).seq ≤ s.lastSeq (s.branchOf i)
  last_bd : ∀ b, s.lastSeq b < 2147483646

theorem la_aux_init (nVals : Nat) : LAux nVals [] (VState.init nVals) where
  size_eq := rfl
  nvals_eq := rfl
  nvals_le := Nat.le_refl _
  nbr_le := Nat.le_add_right _ _
  parents_eq := fun i hi => by simp at hi
  branch_lt := fun i hi => by simp at hi
  last_ub := fun i hi => by simp at hi
  last_bd := fun b => by show (0 : Nat) < 2147483646; omega

/-- the new event carries the highest seq of its branch, and its branch is a valid branch -/
theorem la_assign_top {nVals : Nat} {h : Hist} {s : VState} {e : Event}
    (hx : LAux nVals h s) (hn : ValidNext nVals h e) :
    (s.assignBranch e).2 < (s.add e).nBr ∧ s.nBr ≤ (s.add e).nBr ∧ (s.add e).nBr ≤ s.nBr + 1 ∧
    ∀ i, i < h.length → s.branchOf i = (s.assignBranch e).2 → (Hist.ev h i).seq ≤ e.seq := by
  obtain ⟨_, _, hcase⟩ := la_assign_cases s e
  rw [la_add_nBr]
  rcases hcase with ⟨hme, hnb⟩ | ⟨hnb, ⟨hme, hz⟩ | ⟨hne, hme, hext⟩⟩
  · refine ⟨by omega, by omega, by omega, fun i hi hbi => ?_⟩
    have := hx.branch_lt i hi; omega
  · refine ⟨?_, by omega, by omega, fun i hi hbi => ?_⟩
    · have := hn.creator_lt; have := hx.nvals_le; omega
    · have := hx.last_ub i hi; rw [hbi, hz] at this; omega
  · have hmem : e.parents.headD 0 ∈ e.parents := by
      cases hp : e.parents with
      | nil => exact absurd hp hne
      | cons a l => simp
    refine ⟨?_, by omega, by omega, fun i hi hbi => ?_⟩
    · have := hx.branch_lt _ (hn.parents_lt _ hmem); omega
    · have h1 := hx.last_ub i hi; rw [hbi] at h1
      have h2 := hx.last_bd (s.assignBranch e).2
      omega

theorem la_aux_add {nVals : Nat} {h : Hist} {s : VState} {e : Event}
    (hx : LAux nVals h s) (hn : ValidNext nVals h e) : LAux nVals (h ++ [e]) (s.add e) := by
  obtain ⟨hme, hnb1, hnb2, htop⟩ := la_assign_top hx hn
  have hls := (la_assign_cases s e).2.1
  have hlen : (h ++ [e]).length = h.length + 1 := by simp
  refine ⟨?_, ?_, ?_, ?_, ?_, ?_, ?_, ?_⟩
  · rw [la_add_size, hx.size_eq, hlen]
  · rw [la_add_nVals, hx.nvals_eq]
  · have := hx.nvals_le; omega
  · have := hx.nbr_le; omega
  · intro i hi
    rw [la_add_parents, hx.size_eq]
    by_cases hil : i = h.length
    · rw [if_pos hil, hil, la_ev_snoc_self]
    · rw [if_neg hil, la_ev_append_left _ (by omega), hx.parents_eq i (by omega)]
  · intro i hi
    rw [la_add_branchOf, hx.size_eq]
    by_cases hil : i = h.length
    · rw [if_pos hil]; exact hme
    · rw [if_neg hil]; have := hx.branch_lt i (by omega); omega
  · intro i hi
    rw [la_add_lastSeq, hls, la_add_branchOf, hx.size_eq]
    by_cases hil : i = h.length
    · rw [if_pos hil, if_pos rfl, hil, la_ev_snoc_self]; exact Nat.le_refl _
    · rw [if_neg hil, la_ev_append_left _ (by omega)]
      by_cases hb : s.branchOf i = (s.assignBranch e).2
      · rw [if_pos hb]; exact htop i (by omega) hb
      · rw [if_neg hb]; exact hx.last_ub i (by omega)
  · intro b
    rw [la_add_lastSeq, hls]
    by_cases hb : b = (s.assignBranch e).2
    · rw [if_pos hb]; exact hn.seq_lt
    · rw [if_neg hb]; exact hx.last_bd b

theorem la_aux_run {nVals : Nat} {h : Hist} (hv : Valid nVals h) : LAux nVals h (run nVals h) := by
  induction hv with
  | nil => exact la_aux_init nVals
  | snoc _ hn ih => rw [la_run_snoc]; exact la_aux_add ih hn

end VecProofs
