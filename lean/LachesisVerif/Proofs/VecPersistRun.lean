import LachesisVerif.Proofs.VecPersistView
/-!
Persistence of the vector index, part 2: the invariant tying the persisted store, the overlay and
the in-memory BranchesInfo to the functional model `VecProofs.run`, for every sequence of
`Add` / `Flush` / `DropNotFlushed` / readers / restarts.
-/
namespace VecPersistProofs
open Model.Vec Model.VecPersist VecProofs

/-- ghost bookkeeping: (events whose `Flush` happened, events added since and not dropped) -/
def track : List Event × List Event → Op → List Event × List Event
  | (f, p), .add e => (f, p ++ [e])
  | (f, p), .flush => (f ++ p, [])
  | (f, _), .drop => (f, [])
  | (f, p), .query => (f, p)
  | (f, _), .restart => (f, [])

def trackAll (fp : List Event × List Event) (ops : List Op) : List Event × List Event := ops.foldl track fp

/-- the events persisted by the sequence -/
def flushedOf (ops : List Op) : List Event := (trackAll ([], []) ops).1
/-- the events added after the last flush / drop / restart -/
def pendingOf (ops : List Op) : List Event := (trackAll ([], []) ops).2
/-- the events that were added and not dropped -/
def survivors (ops : List Op) : List Event := flushedOf ops ++ pendingOf ops

/-- the overlay is empty and no position is in use beyond the persisted ones -/
def Clean (s : PState) : Prop := s.ov = Rows.empty ∧ s.size = s.fsize

structure Inv (n : Nat) (s : PState) (f p : List Event) : Prop where
  nv : s.nVals = n
  /-- the parent DB alone is the index of the flushed events -/
  sv : s.storeView = run n f
  /-- the working view is the index of the flushed and the pending events -/
  vw : s.view = run n (f ++ p)
  /-- `vi.bi == nil` only when nothing is pending -/
  nobi : s.bi = none → p = [] ∧ Clean s
  /-- `NotFlushedPairs() == 0` only when nothing is pending -/
  nodirty : s.dirty = false → p = [] ∧ Clean s
  /-- the BranchesInfo record is missing from the parent DB only while no event is persisted -/
  norec : s.storeBI = none → f = []

theorem run_snoc (n : Nat) (h : List Event) (e : Event) : run n (h ++ [e]) = (run n h).add e := by
  simp only [run, List.foldl_append, List.foldl_cons, List.foldl_nil]

theorem inv_fresh (n : Nat) : Inv n (PState.fresh n) [] [] :=
  ⟨rfl, rfl, rfl, fun _ => ⟨rfl, rfl, rfl⟩, fun _ => ⟨rfl, rfl, rfl⟩, fun _ => rfl⟩

/-! ### views after each call -/

theorem storeView_flush (s : PState) : s.flush.storeView = s.view := by
  cases h : s.bi <;> simp only [PState.storeView, PState.view, flush_def, loadBI_def, curBI_def, h] <;> rfl

theorem view_flush (s : PState) : s.flush.view = s.view := by
  cases h : s.bi <;> simp only [PState.view, flush_def, loadBI_def, curBI_def, h] <;> rfl

theorem view_of_clean (s : PState) (hb : s.bi = none) (hc : Clean s) : s.view = s.storeView := by
  obtain ⟨hov, hsz⟩ := hc
  simp only [PState.view, PState.storeView, curBI_def, hb, hov, hsz]
  rfl

theorem view_reset (s : PState) : s.reset.view = s.storeView := rfl

theorem view_initBI (s : PState) : s.initBI.view = s.view := by
  cases h : s.bi with
  | some b => simp only [initBI_def, h]
  | none =>
    simp only [initBI_def, h, PState.view, curBI_def]

theorem storeView_initBI (s : PState) : s.initBI.storeView = s.storeView := by
  cases h : s.bi <;> simp only [initBI_def, h] <;> rfl

theorem view_drop (s : PState) (hd : s.dirty = false → Clean s) : s.dropNotFlushed.view = s.storeView := by
  cases h : s.dirty
  · obtain ⟨hov, _⟩ := hd h
    simp only [PState.view, PState.storeView, drop_def, curBI_def, h, hov]
    rfl
  · simp only [PState.view, PState.storeView, drop_def, curBI_def, h]
    rfl

/-! ### the invariant is kept by every call -/

theorem inv_add {n : Nat} {s : PState} {f p : List Event} (h : Inv n s f p) (e : Event) :
    Inv n (s.add e) f (p ++ [e]) where
  nv := h.nv
  sv := h.sv
  vw := by rw [view_add, h.vw, ← List.append_assoc, run_snoc]
  nobi := fun hb => by simp only [PState.add] at hb; exact absurd hb (by simp only [reduceCtorEq, not_false_eq_true])
  nodirty := fun hd => by simp only [PState.add] at hd; exact absurd hd (by decide)
  norec := h.norec

theorem inv_flush {n : Nat} {s : PState} {f p : List Event} (h : Inv n s f p) :
    Inv n s.flush (f ++ p) [] where
  nv := h.nv
  sv := by rw [storeView_flush, h.vw]
  vw := by rw [view_flush, h.vw, List.append_nil]
  nobi := fun _ => ⟨rfl, rfl, rfl⟩
  nodirty := fun _ => ⟨rfl, rfl, rfl⟩
  norec := fun hr => by
    cases hb : s.bi with
    | some b => simp only [flush_def, hb, reduceCtorEq] at hr
    | none =>
      simp only [flush_def, hb] at hr
      rw [h.norec hr, (h.nobi hb).1]; rfl

theorem inv_drop {n : Nat} {s : PState} {f p : List Event} (h : Inv n s f p) :
    Inv n s.dropNotFlushed f [] where
  nv := h.nv
  sv := h.sv
  vw := by rw [view_drop s (fun hd => (h.nodirty hd).2), h.sv, List.append_nil]
  nobi := fun _ => by
    refine ⟨rfl, ?_, rfl⟩
    cases hd : s.dirty
    · simp only [drop_def, hd]; exact (h.nodirty hd).2.1
    · simp only [drop_def, hd]; rfl
  nodirty := fun _ => by
    refine ⟨rfl, ?_, rfl⟩
    cases hd : s.dirty
    · simp only [drop_def, hd]; exact (h.nodirty hd).2.1
    · simp only [drop_def, hd]; rfl
  norec := h.norec

theorem inv_reset {n : Nat} {s : PState} {f p : List Event} (h : Inv n s f p) :
    Inv n s.reset f [] where
  nv := h.nv
  sv := h.sv
  vw := by rw [view_reset, h.sv, List.append_nil]
  nobi := fun _ => ⟨rfl, rfl, rfl⟩
  nodirty := fun _ => ⟨rfl, rfl, rfl⟩
  norec := h.norec

theorem inv_initBI {n : Nat} {s : PState} {f p : List Event} (h : Inv n s f p) :
    Inv n s.initBI f p := by
  cases hb : s.bi with
  | some b =>
    have : s.initBI = s := by simp only [initBI_def, hb]
    rw [this]; exact h
  | none =>
    refine ⟨?_, ?_, ?_, ?_, ?_, ?_⟩
    · simp only [initBI_def, hb]; exact h.nv
    · rw [storeView_initBI]; exact h.sv
    · rw [view_initBI]; exact h.vw
    · intro _; simp only [initBI_def, hb]; exact h.nobi hb
    · intro hd; simp only [initBI_def, hb] at hd ⊢; exact h.nodirty hd
    · intro hr; simp only [initBI_def, hb] at hr; exact h.norec hr

theorem inv_step {n : Nat} {s : PState} {f p : List Event} (h : Inv n s f p) (op : Op) :
    Inv n (s.step op) (track (f, p) op).1 (track (f, p) op).2 := by
  cases op with
  | add e => exact inv_add h e
  | flush => exact inv_flush h
  | drop => exact inv_drop h
  | query => exact inv_initBI h
  | restart => exact inv_initBI (inv_reset h)

theorem inv_exec {n : Nat} (ops : List Op) : ∀ {s : PState} {f p : List Event}, Inv n s f p →
    Inv n (s.exec ops) (trackAll (f, p) ops).1 (trackAll (f, p) ops).2 := by
  induction ops with
  | nil => intro s f p h; exact h
  | cons op ops ih =>
    intro s f p h
    have h1 := inv_step h op
    have := ih h1
    simp only [PState.exec, trackAll, List.foldl_cons] at this ⊢
    exact this

/-- every state reachable from a fresh index satisfies the invariant for the ghost bookkeeping -/
theorem inv_reachable (n : Nat) (ops : List Op) :
    Inv n ((PState.fresh n).exec ops) (flushedOf ops) (pendingOf ops) :=
  inv_exec ops (inv_fresh n)
