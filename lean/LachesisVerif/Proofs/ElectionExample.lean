import LachesisVerif.Proofs.ElectionComplete
/-!
A concrete non-vacuity witness for the election theorems of C10/C01: one validator (weight 1), a
chain of three events `0 ← 1 ← 2` accepted in frames 1, 2, 3. All hypotheses (`Valid`,
`FramesAccepted`, `BFT`, `Setup` with *computable* oracles, `FeedClosed`) hold, the model's election
for frame 1 returns event 0, and hence event 0 is the Atropos of frame 1 by the rules.
-/
namespace ElectionExample
open Model.Pos Model.Election ElectionRules ElectionProofs VecProofs ElectionRefine Model.Vec

def net : Net :=
  { h := [{ creator := 0, seq := 1, parents := [] }, { creator := 0, seq := 2, parents := [0] },
          { creator := 0, seq := 3, parents := [1] }]
    nVals := 1, w := fun _ => 1, fr := fun e => e + 1 }

def vals : Vals := { sorted := [(0, 1)], total := 1 }
def observe (a b : Nat) : Bool := decide (b ≤ a ∧ a < 3)
def frameRoots (g : Nat) : List Root := if 1 ≤ g ∧ g ≤ 3 then [⟨g - 1, g, 0⟩] else []

theorem valid : Valid net.nVals net.h := by
  have h0 : Valid 1 [] := Valid.nil
  have h1 := Valid.snoc (e := { creator := 0, seq := 1, parents := [] }) h0
    { parents_lt := (by intro p hp; cases hp), creator_lt := (by decide), seq_pos := (by decide),
      seq_lt := (by decide), first := (by intro _ p hp; cases hp), self := (by intro h; exact absurd h (by decide)) }
  have h2 := Valid.snoc (e := { creator := 0, seq := 2, parents := [0] }) h1
    { parents_lt := (by intro p hp; simp at hp; subst hp; decide), creator_lt := (by decide), seq_pos := (by decide),
      seq_lt := (by decide), first := (by intro h; exact absurd h (by decide)),
      self := (fun _ => ⟨0, [], rfl, rfl, rfl, by intro p hp; cases hp⟩) }
  exact Valid.snoc (e := { creator := 0, seq := 3, parents := [1] }) h2
    { parents_lt := (by intro p hp; simp at hp; subst hp; decide), creator_lt := (by decide), seq_pos := (by decide),
      seq_lt := (by decide), first := (by intro h; exact absurd h (by decide)),
      self := (fun _ => ⟨1, [], rfl, rfl, rfl, by intro p hp; cases hp⟩) }

theorem anc_iff (a b : Nat) : Anc net.h a b ↔ (b ≤ a ∧ a < 3) := by
  constructor
  · intro h; exact ⟨anc_le valid h, anc_lt_left h⟩
  · rintro ⟨h1, h2⟩
    have r0 : Anc net.h 0 0 := Anc.refl (by decide)
    have r1 : Anc net.h 1 1 := Anc.refl (by decide)
    have r2 : Anc net.h 2 2 := Anc.refl (by decide)
    have s10 : Anc net.h 1 0 := Anc.step (by decide) (show 0 ∈ (net.h.ev 1).parents from List.mem_cons_self) r0
    have s21 : Anc net.h 2 1 := Anc.step (by decide) (show 1 ∈ (net.h.ev 2).parents from List.mem_cons_self) r1
    have s20 : Anc net.h 2 0 := anc_trans s21 s10
    have ha : a = 0 ∨ a = 1 ∨ a = 2 := by omega
    rcases ha with rfl | rfl | rfl
    · have : b = 0 := by omega
      subst this; exact r0
    · have hb : b = 0 ∨ b = 1 := by omega
      rcases hb with rfl | rfl
      · exact s10
      · exact r1
    · have hb : b = 0 ∨ b = 1 ∨ b = 2 := by omega
      rcases hb with rfl | rfl | rfl
      · exact s20
      · exact s21
      · exact r2

theorem seq_eq (x : Nat) (hx : x < 3) : (net.h.ev x).seq = x + 1 := by
  have : x = 0 ∨ x = 1 ∨ x = 2 := by omega
  rcases this with rfl | rfl | rfl <;> rfl

theorem no_fork (a c : Nat) : ¬ ForkSeen net.h a c := by
  rintro ⟨x, y, hne, hx, hy, _, _, hs⟩
  have hx3 : x < 3 := anc_lt_right valid hx
  have hy3 : y < 3 := anc_lt_right valid hy
  rw [seq_eq x hx3, seq_eq y hy3] at hs
  omega

theorem creator_zero (e : Nat) : net.creator e = 0 := by
  unfold Net.creator Hist.ev
  by_cases h : e < 3
  · have : e = 0 ∨ e = 1 ∨ e = 2 := by omega
    rcases this with rfl | rfl | rfl <;> rfl
  · have : net.h.getD e default = default := by
      rw [List.getD_eq_getElem?_getD, List.getElem?_eq_none (by simp [net]; omega)]; rfl
    rw [this]; rfl

/-- weight of a set containing validator 0 -/
theorem weight_one (P : Nat → Prop) (h : P 0) : net.weightOf P = 1 := by
  rw [Net.weightOf_eq]
  show wsum _ [0] _ = 1
  rw [wsum_cons, wsum_nil, if_pos h]
  rfl

theorem weight_zero (P : Nat → Prop) (h : ¬ P 0) : net.weightOf P = 0 := by
  apply Net.weightOf_zero
  intro v hv
  have : v = 0 := by simp [net] at hv; omega
  subst this; exact h

theorem total_one : net.total = 1 := weight_one _ trivial
theorem quorum_one : net.quorum = 1 := by unfold Net.quorum; rw [total_one]

theorem fc_iff (a b : Nat) : net.FC a b ↔ (b ≤ a ∧ a < 3) := by
  unfold Net.FC
  rw [quorum_one]
  constructor
  · rintro ⟨_, hq⟩
    by_cases h0 : (¬ ForkSeen net.h a 0 ∧ ∃ e, net.creator e = 0 ∧ Anc net.h e b ∧ Anc net.h a e)
    · obtain ⟨_, e, _, h1, h2⟩ := h0
      exact (anc_iff a b).1 (anc_trans h2 h1)
    · rw [weight_zero _ h0] at hq; omega
  · intro h
    refine ⟨no_fork _ _, ?_⟩
    rw [weight_one _ ⟨no_fork _ _, b, creator_zero b, (anc_iff b b).2 ⟨Nat.le_refl _, by omega⟩, (anc_iff a b).2 h⟩]
    exact Nat.le_refl _

theorem spf_eq' (e : Nat) (he : e < 3) : net.spf e = e := by
  have : e = 0 ∨ e = 1 ∨ e = 2 := by omega
  rcases this with rfl | rfl | rfl <;> rfl

theorem isRoot_iff (e g : Nat) : net.IsRoot e g ↔ (e < 3 ∧ g = e + 1) := by
  unfold Net.IsRoot
  constructor
  · rintro ⟨h1, h2, h3⟩
    have h1' : e < 3 := h1
    rw [spf_eq' e h1'] at h2
    have : net.fr e = e + 1 := rfl
    exact ⟨h1', by omega⟩
  · rintro ⟨h1, rfl⟩
    refine ⟨h1, ?_, Nat.le_refl _⟩
    rw [spf_eq' e h1]; omega

theorem framesAccepted : net.FramesAccepted := by
  intro e he
  have he3 : e < 3 := he
  unfold Net.Allowed
  rw [seq_eq e he3]
  by_cases h0 : e = 0
  · subst h0; rw [if_pos (by decide)]; rfl
  · rw [if_neg (by omega), spf_eq' e he3]
    refine ⟨by show e ≤ e + 1; omega, fun g h1 h2 => ?_⟩
    have hg : g = e := by have : net.fr e = e + 1 := rfl; omega
    subst hg
    rw [quorum_one]
    unfold Net.causedWeight
    rw [weight_one _ ⟨g - 1, (isRoot_iff _ _).2 ⟨by omega, by omega⟩, creator_zero _, (fc_iff _ _).2 ⟨by omega, he3⟩, by omega⟩]
    exact Nat.le_refl _

theorem bft : net.BFT := by
  unfold Net.BFT
  rw [total_one, weight_zero]
  · decide
  · rintro ⟨x, y, hne, hx, hy, _, _, hs⟩
    rw [seq_eq x hx, seq_eq y hy] at hs
    omega

theorem roots_iff (g : Nat) (r : Root) :
    r ∈ frameRoots g ↔ (r.frame = g ∧ net.IsRoot r.id g ∧ r.validator = net.creator r.id) := by
  revert g r
  intro g r
  rw [isRoot_iff, creator_zero]
  unfold frameRoots
  by_cases hg : 1 ≤ g ∧ g ≤ 3
  · rw [if_pos hg, List.mem_singleton]
    constructor
    · intro h; subst h; exact ⟨rfl, ⟨by show g - 1 < 3; omega, by show g = g - 1 + 1; omega⟩, rfl⟩
    · rintro ⟨h1, ⟨_, h3⟩, h4⟩
      cases r
      simp only at h1 h3 h4
      simp only [Root.mk.injEq]
      omega
  · rw [if_neg hg]
    constructor
    · intro h; cases h
    · rintro ⟨_, ⟨h2, h3⟩, _⟩; omega

theorem setup (f : Nat) (hf : f < 4294967296) : Setup net vals f observe frameRoots :=
  { vals := { canon := rfl, total := rfl, limit := by decide }
    obs := by intro a b; unfold observe; rw [decide_eq_true_iff, fc_iff]
    roots_sound := fun g r h => (roots_iff g r).1 h
    roots_seen := roots_seen_of_iff roots_iff
    nodup := by
      intro g; unfold frameRoots
      by_cases hg : 1 ≤ g ∧ g ≤ 3
      · rw [if_pos hg]; exact List.pairwise_singleton _ _
      · rw [if_neg hg]; exact List.Pairwise.nil
    creators := by intro e _; rw [creator_zero]; decide
    slots := net.slotUnique_of_BFT valid framesAccepted bft
    accepted := framesAccepted
    fbound := hf }

/-- the feed of the election for frame 1: the roots of frames 2 and 3 -/
def feed1 : List Root := [⟨1, 2, 0⟩, ⟨2, 3, 0⟩]

theorem feed1_closed : FeedClosed observe frameRoots 1 [] feed1 := by
  refine ⟨⟨by decide, by decide, ?_⟩, ⟨by decide, by decide, ?_⟩, trivial⟩
  · intro p hp hf _
    have : p = ⟨0, 1, 0⟩ := by simpa [frameRoots] using hp
    subst this; exact absurd hf (by decide)
  · intro p hp _ _
    have : p = ⟨1, 2, 0⟩ := by simpa [frameRoots] using hp
    subst this; exact List.mem_cons_self

/-- the model's election for frame 1 returns event 0 … -/
theorem run1 : ∃ el', runRoots observe frameRoots (reset vals 1) feed1 = .ok (el', some (1, 0)) := ⟨_, rfl⟩

/-- … hence event 0 is the Atropos of frame 1 by the rules (through `single_election`) -/
theorem atropos1 : net.IsAtropos 1 0 := by
  obtain ⟨el', h⟩ := run1
  rcases single_election (setup 1 (by decide)) feed1 feed1_closed with ⟨he, _⟩ | ⟨el2, res, he, _, hat⟩
  · rw [he] at h; cases h
  · rw [he] at h; cases h; exact (hat 1 0 rfl).2

/-- the election for frame 2 has seen the only later root and returns nothing -/
def feed2 : List Root := [⟨2, 3, 0⟩]
theorem feed2_closed : FeedClosed observe frameRoots 2 [] feed2 := by
  refine ⟨⟨by decide, by decide, ?_⟩, trivial⟩
  intro p hp hf _
  have : p = ⟨1, 2, 0⟩ := by simpa [frameRoots] using hp
  subst this; exact absurd hf (by decide)
theorem run2 : ∃ el', runRoots observe frameRoots (reset vals 2) feed2 = .ok (el', none) := ⟨_, rfl⟩

end ElectionExample
