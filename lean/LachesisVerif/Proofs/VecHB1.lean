import LachesisVerif.Proofs.VecDefs
/-!
History-extension lemmas for the vector-index proofs (C06/C05/C03): events of a history,
facts about valid histories, ancestry under appending one event, `run` on an appended history.
-/
namespace VecProofs
open Model.Vec

/-! ### events of `h ++ [e]` -/

theorem ev_snoc_lt (h : Hist) (e : Event) {i : Nat} (hi : i < h.length) :
    Hist.ev (h ++ [e]) i = Hist.ev h i := by
  unfold Hist.ev
  rw [List.getD_eq_getElem?_getD, List.getD_eq_getElem?_getD, List.getElem?_append_left hi]

theorem ev_snoc_eq (h : Hist) (e : Event) : Hist.ev (h ++ [e]) h.length = e := by
  unfold Hist.ev
  rw [List.getD_eq_getElem?_getD, List.getElem?_append_right (Nat.le_refl _)]
  simp

theorem length_snoc (h : Hist) (e : Event) : (h ++ [e]).length = h.length + 1 := by simp

/-! ### facts about every event of a valid history -/

structure EvFacts (nVals : Nat) (h : Hist) (i : Nat) : Prop where
  seq_pos : 1 ≤ (h.ev i).seq
  seq_lt : (h.ev i).seq < 2147483646
  creator_lt : (h.ev i).creator < nVals
  parents_lt : ∀ p ∈ (h.ev i).parents, p < i

theorem Valid.ev_facts {nVals : Nat} {h : Hist} (hv : Valid nVals h) :
    ∀ i, i < h.length → EvFacts nVals h i := by
  induction hv with
  | nil => intro i hi; simp at hi
  | @snoc h e _ hn ih =>
    intro i hi
    rw [length_snoc] at hi
    by_cases hlt : i < h.length
    · have := ih i hlt
      constructor <;> rw [ev_snoc_lt h e hlt]
      · exact this.seq_pos
      · exact this.seq_lt
      · exact this.creator_lt
      · exact this.parents_lt
    · have heq : i = h.length := by omega
      subst heq
      constructor <;> rw [ev_snoc_eq]
      · exact hn.seq_pos
      · exact hn.seq_lt
      · exact hn.creator_lt
      · exact hn.parents_lt

theorem Valid.prefix {nVals : Nat} {h : Hist} {e : Event} (hv : Valid nVals (h ++ [e])) :
    Valid nVals h ∧ ValidNext nVals h e := by
  generalize hh : h ++ [e] = h' at hv
  cases hv with
  | nil => simp at hh
  | @snoc h0 e0 hv0 hn0 =>
    have := List.append_inj' hh (by simp)
    obtain ⟨h1, h2⟩ := this
    simp at h2
    subst h1; subst h2
    exact ⟨hv0, hn0⟩

/-! ### ancestry -/

theorem Anc.lt_left {h : Hist} {a b : Nat} (hab : Anc h a b) : a < h.length := by
  cases hab with
  | refl ha => exact ha
  | step ha _ _ => exact ha

/-- in a parents-first history ancestors come earlier -/
theorem Anc.le {nVals : Nat} {h : Hist} (hv : Valid nVals h) {a b : Nat} (hab : Anc h a b) : b ≤ a := by
  induction hab with
  | refl _ => exact Nat.le_refl _
  | step ha hp _ ih =>
    have := (hv.ev_facts _ ha).parents_lt _ hp
    omega

theorem Anc.lt_right {nVals : Nat} {h : Hist} (hv : Valid nVals h) {a b : Nat} (hab : Anc h a b) :
    b < h.length := by
  have := hab.le hv
  have := hab.lt_left
  omega

theorem Anc.trans {h : Hist} {a b c : Nat} (hab : Anc h a b) (hbc : Anc h b c) : Anc h a c := by
  induction hab with
  | refl _ => exact hbc
  | step ha hp _ ih => exact Anc.step ha hp (ih hbc)

/-- ancestry is kept when the history grows -/
theorem Anc.snoc {h : Hist} (e : Event) {a b : Nat} (hab : Anc h a b) : Anc (h ++ [e]) a b := by
  induction hab with
  | refl ha => exact Anc.refl (by rw [length_snoc]; omega)
  | step ha hp _ ih =>
    refine Anc.step (by rw [length_snoc]; omega) ?_ ih
    rw [ev_snoc_lt h e ha]; exact hp

/-- ancestry of old events is unchanged when an event is appended -/
theorem anc_snoc_old {nVals : Nat} {h : Hist} (hv : Valid nVals h) (e : Event) {a b : Nat}
    (ha : a < h.length) : Anc (h ++ [e]) a b ↔ Anc h a b := by
  constructor
  · intro hab
    induction hab with
    | refl _ => exact Anc.refl ha
    | @step a p b _ hp _ ih =>
      rw [ev_snoc_lt h e ha] at hp
      have hpa := (hv.ev_facts _ ha).parents_lt _ hp
      exact Anc.step ha hp (ih (by omega))
  · exact Anc.snoc e

/-- ancestry of the appended event = itself ∪ the ancestries of its parents -/
theorem anc_snoc_new {nVals : Nat} {h : Hist} (hv : Valid nVals h) {e : Event}
    (hn : ValidNext nVals h e) {b : Nat} :
    Anc (h ++ [e]) h.length b ↔ b = h.length ∨ ∃ p, p ∈ e.parents ∧ Anc h p b := by
  constructor
  · intro hab
    cases hab with
    | refl _ => exact Or.inl rfl
    | step _ hp hpb =>
      rw [ev_snoc_eq] at hp
      exact Or.inr ⟨_, hp, (anc_snoc_old hv e (hn.parents_lt _ hp)).1 hpb⟩
  · rintro (rfl | ⟨p, hp, hpb⟩)
    · exact Anc.refl (by rw [length_snoc]; omega)
    · refine Anc.step (by rw [length_snoc]; omega) ?_ (hpb.snoc e)
      rw [ev_snoc_eq]; exact hp

theorem run_snoc (nVals : Nat) (h : Hist) (e : Event) :
    run nVals (h ++ [e]) = (run nVals h).add e := by
  unfold run
  rw [List.foldl_append]
  rfl

/-- a fork seen by an old event is the same in the old and in the extended history -/
theorem forkSeen_snoc_old {nVals : Nat} {h : Hist} (hv : Valid nVals h) (e : Event) {a c : Nat}
    (ha : a < h.length) : ForkSeen (h ++ [e]) a c ↔ ForkSeen h a c := by
  constructor
  · rintro ⟨x, y, hxy, hax, hay, hcx, hcy, hs⟩
    have hax' := (anc_snoc_old hv e ha).1 hax
    have hay' := (anc_snoc_old hv e ha).1 hay
    have hx := hax'.lt_right hv
    have hy := hay'.lt_right hv
    rw [ev_snoc_lt h e hx] at hcx hs
    rw [ev_snoc_lt h e hy] at hcy hs
    exact ⟨x, y, hxy, hax', hay', hcx, hcy, hs⟩
  · rintro ⟨x, y, hxy, hax, hay, hcx, hcy, hs⟩
    have hx := hax.lt_right hv
    have hy := hay.lt_right hv
    refine ⟨x, y, hxy, hax.snoc e, hay.snoc e, ?_, ?_, ?_⟩
    · rw [ev_snoc_lt h e hx]; exact hcx
    · rw [ev_snoc_lt h e hy]; exact hcy
    · rw [ev_snoc_lt h e hx, ev_snoc_lt h e hy]; exact hs

end VecProofs
