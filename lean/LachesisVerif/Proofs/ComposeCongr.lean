import LachesisVerif.Model.Orderer
/-!
Composition, part 1: `Orderer.process`, `build` and `bootstrap` ask their forkless-cause oracle only
about the event being processed and the events that own a root in the roots table. Two environments
that agree on those events (and have the same application side) give the same results.
-/
namespace Compose
open Model.Pos Model.Election Model.Orderer

/-- same application side, oracles agree on the events satisfying `Q` -/
structure Agree (Q : Nat → Prop) (e e' : Env) : Prop where
  idKey : e.idKey = e'.idKey
  sealAt : e.sealAt = e'.sealAt
  obs : ∀ a b, Q a → Q b → e.observe a b = e'.observe a b

/-- every root of the table belongs to a `Q`-event -/
def RootsIn (Q : Nat → Prop) (s : OState) : Prop := ∀ r ∈ s.roots, Q r.id

theorem foldl_congr_mem {α β} {f g : β → α → β} (l : List α) (h : ∀ b, ∀ a ∈ l, f b a = g b a) (init : β) :
    l.foldl f init = l.foldl g init := by
  induction l generalizing init with
  | nil => rfl
  | cons x xs ih =>
    simp only [List.foldl_cons]
    rw [h init x List.mem_cons_self]
    exact ih (fun b a ha => h b a (List.mem_cons_of_mem _ ha)) _

theorem mem_frameRoots_roots {s : OState} {f : Nat} {r : Root} (h : r ∈ frameRoots s f) : r ∈ s.roots :=
  (List.mem_filter.1 h).1

theorem insertRoot_congr {e e' : Env} (h : e.idKey = e'.idKey) (r : Root) (l : List Root) :
    insertRoot e r l = insertRoot e' r l := by
  induction l with
  | nil => rfl
  | cons x xs ih => simp only [insertRoot, h, ih]

theorem quorumOn_congr {Q : Nat → Prop} {e e' : Env} (A : Agree Q e e') {s : OState} (hr : RootsIn Q s)
    {id : Nat} (hid : Q id) (f : Nat) : quorumOn e s id f = quorumOn e' s id f := by
  unfold quorumOn
  have : (frameRoots s f).foldl (fun c r => if e.observe id r.id then (count s.vals c r.validator).1 else c) s.vals.newCounter =
      (frameRoots s f).foldl (fun c r => if e'.observe id r.id then (count s.vals c r.validator).1 else c) s.vals.newCounter := by
    apply foldl_congr_mem
    intro c r hm
    rw [A.obs id r.id hid (hr r (mem_frameRoots_roots hm))]
  simp only [this]

theorem processRoot_congr {o o' : Nat → Nat → Bool} (FR : Nat → List Root) (el : Election) (nr : Root)
    (h : ∀ r ∈ FR (Gen.Election.prevFrame nr.frame), o nr.id r.id = o' nr.id r.id) :
    processRoot o FR el nr = processRoot o' FR el nr := by
  have hf : (FR (Gen.Election.prevFrame nr.frame)).filter (fun r => o nr.id r.id) =
      (FR (Gen.Election.prevFrame nr.frame)).filter (fun r => o' nr.id r.id) := List.filter_congr h
  simp only [processRoot, hf]

theorem processRoot_congr' {Q : Nat → Prop} {e e' : Env} (A : Agree Q e e') {s : OState} (hr : RootsIn Q s)
    (el : Election) (nr : Root) (hn : Q nr.id) :
    processRoot e.observe (frameRoots s) el nr = processRoot e'.observe (frameRoots s) el nr :=
  processRoot_congr _ el nr (fun r hm => A.obs _ _ hn (hr r (mem_frameRoots_roots hm)))

theorem knownRootsFrame_congr {Q : Nat → Prop} {e e' : Env} (A : Agree Q e e') {s : OState} (hr : RootsIn Q s) :
    ∀ (l : List Root), (∀ r ∈ l, Q r.id) → ∀ el, knownRootsFrame e s l el = knownRootsFrame e' s l el := by
  intro l
  induction l with
  | nil => intro _ _; rfl
  | cons r rest ih =>
    intro hl el
    simp only [knownRootsFrame]
    rw [processRoot_congr' A hr el r (hl r List.mem_cons_self)]
    cases processRoot e'.observe (frameRoots s) el r with
    | error x => rfl
    | ok p =>
      obtain ⟨el', res⟩ := p
      cases res with
      | some v => rfl
      | none => exact ih (fun r hm => hl r (List.mem_cons_of_mem _ hm)) el'

theorem processKnownRoots_congr {Q : Nat → Prop} {e e' : Env} (A : Agree Q e e') {s : OState} (hr : RootsIn Q s) :
    ∀ (fuel f : Nat) (el : Election), processKnownRoots e s fuel f el = processKnownRoots e' s fuel f el := by
  intro fuel
  induction fuel with
  | zero => intro _ _; rfl
  | succ n ih =>
    intro f el
    simp only [processKnownRoots]
    rw [knownRootsFrame_congr A hr _ (fun r hm => hr r (mem_frameRoots_roots hm)) el]
    cases knownRootsFrame e' s (frameRoots s f) el with
    | error x => rfl
    | ok p =>
      obtain ⟨el', res⟩ := p
      cases res with
      | some v => rfl
      | none =>
        simp only
        split
        · rfl
        · exact ih (f + 1) el'

theorem onFrameDecided_congr {e e' : Env} (h : e.sealAt = e'.sealAt) (s : OState) (f a : Nat) :
    onFrameDecided e s f a = onFrameDecided e' s f a := by
  unfold onFrameDecided; rw [h]

theorem onFrameDecided_roots (e : Env) (s : OState) (f a : Nat) :
    (onFrameDecided e s f a).1.roots = s.roots ∨ (onFrameDecided e s f a).1.roots = [] := by
  unfold onFrameDecided
  split
  · exact Or.inr rfl
  · exact Or.inl rfl

theorem rootsIn_onFrameDecided {Q : Nat → Prop} (e : Env) {s : OState} (hr : RootsIn Q s) (f a : Nat) :
    RootsIn Q (onFrameDecided e s f a).1 := by
  intro r hm
  rcases onFrameDecided_roots e s f a with h | h
  · rw [h] at hm; exact hr r hm
  · rw [h] at hm; cases hm

theorem bootstrapElection_congr {Q : Nat → Prop} {e e' : Env} (A : Agree Q e e') :
    ∀ (fuel : Nat) (s : OState) (out : List Decided), RootsIn Q s →
      bootstrapElection e fuel s out = bootstrapElection e' fuel s out := by
  intro fuel
  induction fuel with
  | zero => intro _ _ _; rfl
  | succ n ih =>
    intro s out hr
    simp only [bootstrapElection]
    rw [processKnownRoots_congr A hr]
    cases processKnownRoots e' s (s.roots.length + 2) (Gen.Orderer.knownRootsFirstFrame s.ldf) s.el with
    | error x => rfl
    | ok p =>
      obtain ⟨el', res⟩ := p
      cases res with
      | none => rfl
      | some fa =>
        obtain ⟨frame, atropos⟩ := fa
        simp only
        rw [onFrameDecided_congr A.sealAt]
        have hr1 : RootsIn Q (onFrameDecided e' { s with el := el' } frame atropos).1 :=
          rootsIn_onFrameDecided e' (s := { s with el := el' }) hr frame atropos
        split
        · rfl
        · exact ih _ _ hr1

theorem rootsIn_bootstrapElection {Q : Nat → Prop} (e : Env) :
    ∀ (fuel : Nat) (s : OState) (out : List Decided) (s2 : OState) (out2 : List Decided) (b : Bool),
      RootsIn Q s → bootstrapElection e fuel s out = .ok (s2, out2, b) → RootsIn Q s2 := by
  intro fuel
  induction fuel with
  | zero =>
    intro s out s2 out2 b hr h
    simp only [bootstrapElection] at h
    cases h; exact hr
  | succ n ih =>
    intro s out s2 out2 b hr h
    simp only [bootstrapElection] at h
    cases hp : processKnownRoots e s (s.roots.length + 2) (Gen.Orderer.knownRootsFirstFrame s.ldf) s.el with
    | error x => rw [hp] at h; cases h
    | ok p =>
      obtain ⟨el', res⟩ := p
      rw [hp] at h
      cases res with
      | none => simp only at h; cases h; exact hr
      | some fa =>
        obtain ⟨frame, atropos⟩ := fa
        simp only at h
        have hr1 : RootsIn Q (onFrameDecided e { s with el := el' } frame atropos).1 :=
          rootsIn_onFrameDecided e (s := { s with el := el' }) hr frame atropos
        split at h
        · cases h; exact hr1
        · exact ih _ _ _ _ _ hr1 h

theorem handleElection_congr {Q : Nat → Prop} {e e' : Env} (A : Agree Q e e') (id creator frame : Nat) (hid : Q id) :
    ∀ (fuel f : Nat) (s : OState) (out : List Decided), RootsIn Q s →
      handleElection e id creator frame fuel f s out = handleElection e' id creator frame fuel f s out := by
  intro fuel
  induction fuel with
  | zero => intro _ _ _ _; rfl
  | succ n ih =>
    intro f s out hr
    simp only [handleElection]
    split
    · rfl
    · rw [processRoot_congr' A hr s.el ⟨id, f, creator⟩ hid]
      cases processRoot e'.observe (frameRoots s) s.el ⟨id, f, creator⟩ with
      | error x => rfl
      | ok p =>
        obtain ⟨el', res⟩ := p
        cases res with
        | none => exact ih (f + 1) { s with el := el' } out hr
        | some fa =>
          obtain ⟨df, atropos⟩ := fa
          simp only
          rw [onFrameDecided_congr A.sealAt]
          have hr1 : RootsIn Q (onFrameDecided e' { s with el := el' } df atropos).1 :=
            rootsIn_onFrameDecided e' (s := { s with el := el' }) hr df atropos
          split
          · rfl
          · rw [bootstrapElection_congr A _ _ _ hr1]
            cases hb : bootstrapElection e' ((onFrameDecided e' { s with el := el' } df atropos).1.roots.length + 2)
                (onFrameDecided e' { s with el := el' } df atropos).1
                (out ++ [(onFrameDecided e' { s with el := el' } df atropos).2]) with
            | error x => rfl
            | ok q =>
              obtain ⟨s2, out2, sealed⟩ := q
              simp only
              split
              · rfl
              · exact ih (f + 1) s2 out2 (rootsIn_bootstrapElection e' _ _ _ _ _ _ hr1 hb)

/-- the roots inserted for the processed event -/
theorem rootsIn_insert {Q : Nat → Prop} (e : Env) (id creator : Nat) (hid : Q id) :
    ∀ (fs : List Nat) (s : OState), RootsIn Q s →
      RootsIn Q (fs.foldl (fun s f => { s with roots := insertRoot e ⟨id, f, creator⟩ s.roots }) s) := by
  have hins : ∀ (r : Root) (l : List Root) (x : Root), x ∈ insertRoot e r l → x = r ∨ x ∈ l := by
    intro r l
    induction l with
    | nil => intro x hx; simp only [insertRoot, List.mem_singleton] at hx; exact Or.inl hx
    | cons y ys ih =>
      intro x hx
      simp only [insertRoot] at hx
      split at hx
      · rcases List.mem_cons.1 hx with h | h
        · exact Or.inl h
        · exact Or.inr h
      · split at hx
        · exact Or.inr hx
        · rcases List.mem_cons.1 hx with h | h
          · exact Or.inr (h ▸ List.mem_cons_self)
          · rcases ih x h with h' | h'
            · exact Or.inl h'
            · exact Or.inr (List.mem_cons_of_mem _ h')
  intro fs
  induction fs with
  | nil => intro s hr; exact hr
  | cons f rest ih =>
    intro s hr
    simp only [List.foldl_cons]
    apply ih
    intro r hm
    rcases hins _ _ _ hm with h | h
    · rw [h]; exact hid
    · exact hr r h

theorem insert_congr {e e' : Env} (h : e.idKey = e'.idKey) (id creator : Nat) :
    ∀ (fs : List Nat) (s : OState),
      fs.foldl (fun s f => { s with roots := insertRoot e ⟨id, f, creator⟩ s.roots }) s =
      fs.foldl (fun s f => { s with roots := insertRoot e' ⟨id, f, creator⟩ s.roots }) s := by
  intro fs
  induction fs with
  | nil => intro _; rfl
  | cons f rest ih =>
    intro s
    simp only [List.foldl_cons]
    rw [insertRoot_congr h, ih]

/-- `Orderer.process` depends on the oracle only through the processed event and the table's events -/
theorem process_congr {Q : Nat → Prop} {e e' : Env} (A : Agree Q e e') {s : OState} (hr : RootsIn Q s)
    (id creator spf claimed : Nat) (hid : Q id) :
    process e s id creator spf claimed = process e' s id creator spf claimed := by
  have hq : quorumOn e s id = quorumOn e' s id := funext (quorumOn_congr A hr hid)
  have hh := handleElection_congr A id creator claimed hid (claimed + 1) (Gen.Orderer.electionFirstFrame spf) _ []
    (rootsIn_insert e' id creator hid (rootFrames spf claimed) s hr)
  simp only [process, hq, insert_congr A.idKey, hh]

theorem build_congr {Q : Nat → Prop} {e e' : Env} (A : Agree Q e e') {s : OState} (hr : RootsIn Q s)
    (id spf : Nat) (hid : Q id) : Model.Orderer.build e s id spf = Model.Orderer.build e' s id spf := by
  have hq : quorumOn e s id = quorumOn e' s id := funext (quorumOn_congr A hr hid)
  unfold Model.Orderer.build
  rw [hq]

theorem bootstrap_congr {Q : Nat → Prop} {e e' : Env} (A : Agree Q e e') {s : OState} (hr : RootsIn Q s) :
    bootstrap e s = bootstrap e' s := by
  unfold bootstrap
  exact bootstrapElection_congr A _ _ _ hr

end Compose
