import LachesisVerif.Proofs.BufferBasic
/-! The safety invariant of the ordering-buffer model (C14) and its preservation by the atomic steps. -/
namespace C14
open Model.EventsBuffer

/-- `x` is the copy "in flight" (pushed but not yet buffered or released); `x = st.n` means none. -/
structure Inv (init : List Nat) (x : Nat) (st : St) : Prop where
  relsync : ∀ c, nRel c st.trace = if (st.recs c).released then 1 else 0
  noproc : ∀ c, (st.recs c).released = false → nProc c st.trace = 0
  procOk : procOk st.trace = true
  relOk : relOk st.trace = true
  incId : ∀ p ∈ st.inc, (st.recs p.2).ev.id = p.1 ∧ p.2 < st.n
  incNodup : (st.inc.map (·.1)).Nodup
  incLen : st.inc.length ≤ st.n
  buffered : ∀ c, c < st.n → c ≠ x → (st.recs c).released = false → ((st.recs c).ev.id, c) ∈ st.inc
  fresh : ∀ c, st.n ≤ c → (st.recs c).released = false
  parents : ∀ evOf : Nat → Ev, (∀ c, c < st.n → evOf c = (st.recs c).ev) →
      parentsOk evOf init st.trace = true ∧ st.conn = connOf evOf init st.trace
  oof : st.oof = false

/-- what every step inside one operation preserves -/
structure Frame (s s' : St) : Prop where
  n_eq : s'.n = s.n
  ev_eq : ∀ c, (s'.recs c).ev = (s.recs c).ev
  tag_eq : ∀ c, (s'.recs c).tag = (s.recs c).tag
  rel_mono : ∀ c, (s.recs c).released = true → (s'.recs c).released = true
  conn_mono : ∀ id, id ∈ s.conn → id ∈ s'.conn

theorem Frame.refl (s : St) : Frame s s := ⟨rfl, fun _ => rfl, fun _ => rfl, fun _ h => h, fun _ h => h⟩

theorem Frame.trans {a b c : St} (h₁ : Frame a b) (h₂ : Frame b c) : Frame a c :=
  ⟨h₂.n_eq.trans h₁.n_eq, fun x => (h₂.ev_eq x).trans (h₁.ev_eq x), fun x => (h₂.tag_eq x).trans (h₁.tag_eq x),
   fun x h => h₂.rel_mono x (h₁.rel_mono x h), fun x h => h₂.conn_mono x (h₁.conn_mono x h)⟩

/-! ### trace predicates skip what they do not talk about -/

@[simp] theorem parentsOk_released (evOf : Nat → Ev) (init : List Nat) (c e : Nat) (t : List Cb) :
    parentsOk evOf init (.released c e :: t) = parentsOk evOf init t := rfl
@[simp] theorem parentsOk_check (evOf : Nat → Ev) (init : List Nat) (c : Nat) (ok : Bool) (t : List Cb) :
    parentsOk evOf init (.check c ok :: t) = parentsOk evOf init t := rfl
@[simp] theorem parentsOk_connect (evOf : Nat → Ev) (init : List Nat) (id : Nat) (t : List Cb) :
    parentsOk evOf init (.connect id :: t) = parentsOk evOf init t := rfl
@[simp] theorem parentsOk_process (evOf : Nat → Ev) (init : List Nat) (c : Nat) (ok : Bool) (t : List Cb) :
    parentsOk evOf init (.process c ok :: t) =
      ((evOf c).parents.all (fun p => (connOf evOf init t).contains p) && parentsOk evOf init t) := rfl
@[simp] theorem connOf_released (evOf : Nat → Ev) (init : List Nat) (c e : Nat) (t : List Cb) :
    connOf evOf init (.released c e :: t) = connOf evOf init t := rfl
@[simp] theorem connOf_check (evOf : Nat → Ev) (init : List Nat) (c : Nat) (ok : Bool) (t : List Cb) :
    connOf evOf init (.check c ok :: t) = connOf evOf init t := rfl
@[simp] theorem connOf_connect (evOf : Nat → Ev) (init : List Nat) (id : Nat) (t : List Cb) :
    connOf evOf init (.connect id :: t) = id :: connOf evOf init t := rfl
@[simp] theorem connOf_process_ok (evOf : Nat → Ev) (init : List Nat) (c : Nat) (t : List Cb) :
    connOf evOf init (.process c true :: t) = (evOf c).id :: connOf evOf init t := rfl
@[simp] theorem connOf_process_fail (evOf : Nat → Ev) (init : List Nat) (c : Nat) (t : List Cb) :
    connOf evOf init (.process c false :: t) = connOf evOf init t := rfl
@[simp] theorem procOk_released (c e : Nat) (t : List Cb) : procOk (.released c e :: t) = procOk t := rfl
@[simp] theorem procOk_check (c : Nat) (ok : Bool) (t : List Cb) : procOk (.check c ok :: t) = procOk t := rfl
@[simp] theorem procOk_connect (id : Nat) (t : List Cb) : procOk (.connect id :: t) = procOk t := rfl
@[simp] theorem procOk_process (c : Nat) (ok : Bool) (t : List Cb) :
    procOk (.process c ok :: t) = (nProc c t == 0 && nRel c t == 0 && procOk t) := rfl
@[simp] theorem relOk_process (c : Nat) (ok : Bool) (t : List Cb) : relOk (.process c ok :: t) = relOk t := rfl
@[simp] theorem relOk_check (c : Nat) (ok : Bool) (t : List Cb) : relOk (.check c ok :: t) = relOk t := rfl
@[simp] theorem relOk_connect (id : Nat) (t : List Cb) : relOk (.connect id :: t) = relOk t := rfl
@[simp] theorem relOk_released (c e : Nat) (t : List Cb) : relOk (.released c e :: t) = (nRel c t == 0 && relOk t) := rfl

/-! ### atomic steps -/

theorem drop_frame (st : St) (c e : Nat) : Frame st (drop st c e) :=
  ⟨by simp, by simp, by simp, by simp, by simp⟩

theorem drop_inv {init : List Nat} {x : Nat} {st : St} (h : Inv init x st) (c e : Nat) : Inv init x (drop st c e) where
  relsync := by simpa using h.relsync
  noproc := by simpa using h.noproc
  procOk := by simpa using h.procOk
  relOk := by simpa using h.relOk
  incId := by simpa using h.incId
  incNodup := by simpa using h.incNodup
  incLen := by simpa using h.incLen
  buffered := by simpa using h.buffered
  fresh := by simpa using h.fresh
  parents := by simpa using h.parents
  oof := by simpa using h.oof

theorem release_frame (st : St) (c : Nat) : Frame st (release st c) := by
  refine ⟨rfl, by simp, by simp, ?_, by simp⟩
  intro c' hc'
  by_cases e : c' = c
  · subst e; exact release_released_self st c'
  · rw [release_released_other st c c' e]; exact hc'

theorem release_inv {init : List Nat} {x : Nat} {st : St} (h : Inv init x st) (c : Nat) (hc : c < st.n) :
    Inv init x (release st c) := by
  by_cases hr : (st.recs c).released = true
  · -- nothing is appended
    have ht : (release st c).trace = st.trace := by rw [release_trace, if_pos hr]
    have hrel : ∀ c', ((release st c).recs c').released = (st.recs c').released := by
      intro c'
      by_cases e : c' = c
      · subst e; rw [release_released_self, hr]
      · exact release_released_other st c c' e
    exact {
      relsync := by intro c'; rw [ht, hrel]; exact h.relsync c'
      noproc := by intro c'; rw [ht, hrel]; exact h.noproc c'
      procOk := by rw [ht]; exact h.procOk
      relOk := by rw [ht]; exact h.relOk
      incId := by simpa using h.incId
      incNodup := h.incNodup
      incLen := h.incLen
      buffered := by intro c'; rw [hrel]; simpa using h.buffered c'
      fresh := by intro c'; rw [hrel]; exact h.fresh c'
      parents := by rw [ht]; simpa using h.parents
      oof := h.oof }
  · have hr' : (st.recs c).released = false := by simpa using hr
    have ht : (release st c).trace = .released c (st.recs c).err :: st.trace := by
      rw [release_trace, hr']; rfl
    have h0 : nRel c st.trace = 0 := by rw [h.relsync c, hr']; rfl
    exact {
      relsync := by
        intro c'
        rw [ht]
        by_cases e : c' = c
        · subst e; rw [release_released_self]; simp [h0]
        · rw [release_released_other st c c' e, nRel_released, if_neg (Ne.symm e), Nat.zero_add]; exact h.relsync c'
      noproc := by
        intro c' hc'
        rw [ht, nProc_released]
        by_cases e : c' = c
        · subst e; rw [release_released_self] at hc'; cases hc'
        · rw [release_released_other st c c' e] at hc'; exact h.noproc c' hc'
      procOk := by rw [ht]; simpa using h.procOk
      relOk := by rw [ht]; simp [h0, h.relOk]
      incId := by simpa using h.incId
      incNodup := h.incNodup
      incLen := h.incLen
      buffered := by
        intro c' h1 h2 h3
        by_cases e : c' = c
        · subst e; rw [release_released_self] at h3; cases h3
        · rw [release_released_other st c c' e] at h3
          simpa using h.buffered c' h1 h2 h3
      fresh := by
        intro c' h1
        have e : c' ≠ c := by intro e; subst e; exact absurd hc (Nat.not_lt.2 h1)
        rw [release_released_other st c c' e]; exact h.fresh c' h1
      parents := by rw [ht]; simpa using h.parents
      oof := h.oof }

end C14
