import LachesisVerif.Proofs.ComposeCongr
import LachesisVerif.Proofs.ElectionInv
/-!
Composition, part 3: where the events named by the Orderer come from. Without seals, `process` keeps
the validators, every root of the table belongs to the processed events, and every Atropos it emits
is the id of a root that was in the table (so: an event this instance has indexed — its cheater list
can be read from the instance's own index). Frame-free variant of `ElectionProofs.Inv` (no 32-bit
side conditions).
-/
namespace Compose
open Model.Pos Model.Election Model.Orderer ElectionProofs

/-- every root named by a stored yes-vote or decision is a `Q`-event -/
structure ElIn (Q : Nat → Prop) (el : Election) : Prop where
  votes : ∀ k vote, (k, vote) ∈ el.votes → vote.yes = true → Q vote.observedRoot
  decided : ∀ s vote, (s, vote) ∈ el.decidedRoots → vote.yes = true → Q vote.observedRoot

theorem elIn_reset (Q : Nat → Prop) (vals : Vals) (f : Nat) : ElIn Q (reset vals f) :=
  ⟨fun _ _ h => by simp [reset] at h, fun _ _ h => by simp [reset] at h⟩

theorem elIn_push {Q : Nat → Prop} {e : Election} (h : ElIn Q e) (nr : Root) (s : Nat) (vote : VoteValue)
    (hv : vote.yes = true → Q vote.observedRoot) : ElIn Q (pushVote e nr s vote) := by
  constructor
  · intro k v hm hy
    rw [pushVote_votes] at hm
    rcases List.mem_cons.1 hm with heq | hm
    · cases heq; exact hv hy
    · exact h.votes k v hm hy
  · intro s' v hm hy
    rw [pushVote_decided] at hm
    split at hm
    · rcases List.mem_cons.1 hm with heq | hm
      · cases heq; exact hv hy
      · exact h.decided s' v hm hy
    · exact h.decided s' v hm hy

theorem voteLoop_elIn {Q : Nat → Prop} (el : Election) (nr : Root) (round : Nat) (om : List (Nat × Root))
    (obs : List Root) (hel : ElIn Q el) (hom : ∀ s r, om.lookup s = some r → Q r.id) (subjects : List Nat)
    (e e' : Election) (hacc : ElIn Q e) (h : voteLoop el nr round om obs subjects e = .ok e') : ElIn Q e' := by
  induction subjects generalizing e with
  | nil => simp only [voteLoop] at h; cases h; exact hacc
  | cons s rest ih =>
    by_cases hf : Gen.Election.firstRound round = true
    · rw [voteLoop_cons_first _ _ _ _ _ _ _ _ hf] at h
      refine ih _ (elIn_push hacc nr s _ ?_) h
      intro hy
      unfold firstVote at hy ⊢
      cases hl : om.lookup s with
      | none => rw [hl] at hy; cases hy
      | some r => exact hom s r hl
    · have hf' : Gen.Election.firstRound round = false := by simpa using hf
      rw [voteLoop_cons_later _ _ _ _ _ _ _ _ hf'] at h
      cases ht : tally el s obs (tally0 el) with
      | error x => rw [ht] at h; cases h
      | ok t =>
        rw [ht] at h
        simp only at h
        by_cases hne : Gen.Election.notEnoughVotes (hasQuorum el.vals t.all) = true
        · rw [if_pos hne] at h; cases h
        · rw [if_neg hne] at h
          have tinv : TInv (fun _ _ a => Q a) el.frameToDecide s t :=
            tally_inv (fun _ _ a => Q a) el s hel.votes obs (tally0 el) t
              { some := by intro x hx; cases hx
                none := fun _ => ⟨rfl, rfl⟩ } ht
          refine ih _ (elIn_push hacc nr s _ ?_) h
          intro hy
          have hy' : Gen.Election.voteYes t.yes.sum t.no.sum = true := hy
          show Q (if Gen.Election.voteYes t.yes.sum t.no.sum = true then
            (match t.subject with | some h => h | none => 0) else 0)
          rw [if_pos hy']
          cases hs : t.subject with
          | some x => exact tinv.some x hs
          | none =>
            exfalso
            obtain ⟨h0, hna⟩ := tinv.none hs
            have hq : hasQuorum el.vals t.no = true := by
              rw [hna]; simpa [Gen.Election.notEnoughVotes] using hne
            have hpos := quorum_pos el.vals.total
            unfold hasQuorum Gen.Pos.hasQuorum Vals.quorum at hq
            unfold Gen.Election.voteYes at hy'
            rw [h0] at hy'
            simp only [decide_eq_true_eq] at hq hy'
            omega

theorem chooseAtropos_elIn {Q : Nat → Prop} {el : Election} (hel : ElIn Q el) {f a : Nat}
    (h : chooseAtropos el = .ok (some (f, a))) : Q a := by
  obtain ⟨_, v, _, vote, _, hl, hy, ha⟩ := chooseAtroposFrom_some el _ f a h
  rw [← ha]
  exact hel.decided v vote (lookup_mem _ _ _ hl) hy

/-- one `processRoot` call: the invariant is kept and a returned Atropos is a `Q`-event -/
theorem processRoot_elIn {Q : Nat → Prop} (observe : Nat → Nat → Bool) (FR : Nat → List Root) (el : Election)
    (nr : Root) (el' : Election) (res : Option (Nat × Nat)) (hel : ElIn Q el) (hFR : ∀ g r, r ∈ FR g → Q r.id)
    (h : processRoot observe FR el nr = .ok (el', res)) : ElIn Q el' ∧ ∀ f a, res = some (f, a) → Q a := by
  rcases processRoot_cases _ _ _ _ _ _ h with ⟨rfl, r, hc, hres⟩ | ⟨rfl, _, hres, _⟩ | ⟨_, _, _, hvl, hc⟩
  · refine ⟨hel, fun f a hfa => ?_⟩
    rw [hres] at hfa; cases hfa
    exact chooseAtropos_elIn hel hc
  · exact ⟨hel, fun f a hfa => by rw [hres] at hfa; cases hfa⟩
  · have hel' : ElIn Q el' := by
      refine voteLoop_elIn el nr _ _ _ hel ?_ _ el el' hel hvl
      intro s r hl
      have hm := lookup_mem _ _ _ hl
      exact seenMap_sound (seenRoots observe FR nr) [] (fun _ r => Q r.id) (by intro x hx; cases hx)
        (fun r hr => hFR _ r (List.mem_filter.1 hr).1) (s, r) hm
    refine ⟨hel', fun f a hfa => ?_⟩
    rw [hfa] at hc
    exact chooseAtropos_elIn hel' hc

/-! ### the Orderer loops (application never seals) -/

structure KInv (Q : Nat → Prop) (vals : Vals) (s : OState) : Prop where
  vals : s.vals = vals
  roots : RootsIn Q s
  el : ElIn Q s.el

def OutIn (Q : Nat → Prop) (out : List Decided) : Prop := ∀ d ∈ out, Q d.atropos ∧ d.sealed = false

theorem KInv.mono {Q Q' : Nat → Prop} {vals : Vals} {s : OState} (K : KInv Q vals s) (h : ∀ a, Q a → Q' a) :
    KInv Q' vals s :=
  ⟨K.vals, fun r hr => h _ (K.roots r hr),
   ⟨fun k v hm hy => h _ (K.el.votes k v hm hy), fun k v hm hy => h _ (K.el.decided k v hm hy)⟩⟩

theorem kInv_initial (Q : Nat → Prop) (ep : Nat) (vals : Vals) : KInv Q vals (initial ep vals) :=
  ⟨rfl, fun _ h => (by cases h), elIn_reset Q vals _⟩

theorem onFrameDecided_ns (env : Env) (hns : ∀ ep f, env.sealAt ep f = none) (s : OState) (f a : Nat) :
    onFrameDecided env s f a =
      ({ s with ldf := Gen.Orderer.nextLastDecided f, el := reset s.vals (Gen.Orderer.nextFrameToDecide f) },
       ⟨s.epoch, f, a, false⟩) := by
  unfold onFrameDecided; rw [hns]

theorem frameRoots_in {Q : Nat → Prop} {s : OState} (hr : RootsIn Q s) : ∀ g r, r ∈ frameRoots s g → Q r.id :=
  fun _ r hm => hr r (mem_frameRoots_roots hm)

theorem knownRootsFrame_K {Q : Nat → Prop} (env : Env) {s : OState} (hr : RootsIn Q s) :
    ∀ (l : List Root) (el el' : Election) (res : Option (Nat × Nat)), ElIn Q el →
      knownRootsFrame env s l el = .ok (el', res) → ElIn Q el' ∧ ∀ f a, res = some (f, a) → Q a := by
  intro l
  induction l with
  | nil =>
    intro el el' res hel h
    simp only [knownRootsFrame] at h
    cases h
    exact ⟨hel, fun _ _ h => by cases h⟩
  | cons r rest ih =>
    intro el el' res hel h
    simp only [knownRootsFrame] at h
    cases hp : processRoot env.observe (frameRoots s) el r with
    | error x => rw [hp] at h; cases h
    | ok p =>
      obtain ⟨e1, r1⟩ := p
      rw [hp] at h
      obtain ⟨h1, h2⟩ := processRoot_elIn _ _ _ _ _ _ hel (frameRoots_in hr) hp
      cases r1 with
      | some v =>
        simp only at h
        cases h
        exact ⟨h1, h2⟩
      | none => exact ih e1 el' res h1 h

theorem processKnownRoots_K {Q : Nat → Prop} (env : Env) {s : OState} (hr : RootsIn Q s) :
    ∀ (fuel f : Nat) (el el' : Election) (res : Option (Nat × Nat)), ElIn Q el →
      processKnownRoots env s fuel f el = .ok (el', res) → ElIn Q el' ∧ ∀ f a, res = some (f, a) → Q a := by
  intro fuel
  induction fuel with
  | zero =>
    intro f el el' res hel h
    simp only [processKnownRoots] at h
    cases h
    exact ⟨hel, fun _ _ h => by cases h⟩
  | succ n ih =>
    intro f el el' res hel h
    simp only [processKnownRoots] at h
    cases hp : knownRootsFrame env s (frameRoots s f) el with
    | error x => rw [hp] at h; cases h
    | ok p =>
      obtain ⟨e1, r1⟩ := p
      rw [hp] at h
      obtain ⟨h1, h2⟩ := knownRootsFrame_K env hr _ _ _ _ hel hp
      cases r1 with
      | some v =>
        simp only at h
        cases h
        exact ⟨h1, h2⟩
      | none =>
        simp only at h
        split at h
        · cases h; exact ⟨h1, fun _ _ h => by cases h⟩
        · exact ih _ _ _ _ h1 h

theorem outIn_snoc {Q : Nat → Prop} {out : List Decided} (ho : OutIn Q out) {d : Decided} (hq : Q d.atropos)
    (hs : d.sealed = false) : OutIn Q (out ++ [d]) := by
  intro x hx
  rcases List.mem_append.1 hx with h | h
  · exact ho x h
  · rw [List.mem_singleton.1 h]; exact ⟨hq, hs⟩

theorem bootstrapElection_K {Q : Nat → Prop} {vals : Vals} (env : Env) (hns : ∀ ep f, env.sealAt ep f = none) :
    ∀ (fuel : Nat) (s : OState) (out : List Decided) (s' : OState) (out' : List Decided) (b : Bool),
      KInv Q vals s → OutIn Q out → bootstrapElection env fuel s out = .ok (s', out', b) →
      KInv Q vals s' ∧ OutIn Q out' ∧ b = false := by
  intro fuel
  induction fuel with
  | zero =>
    intro s out s' out' b K ho h
    simp only [bootstrapElection] at h
    cases h; exact ⟨K, ho, rfl⟩
  | succ n ih =>
    intro s out s' out' b K ho h
    simp only [bootstrapElection] at h
    cases hp : processKnownRoots env s (s.roots.length + 2) (Gen.Orderer.knownRootsFirstFrame s.ldf) s.el with
    | error x => rw [hp] at h; cases h
    | ok p =>
      obtain ⟨e1, r1⟩ := p
      rw [hp] at h
      obtain ⟨h1, h2⟩ := processKnownRoots_K env K.roots _ _ _ _ _ K.el hp
      cases r1 with
      | none =>
        simp only at h
        cases h
        exact ⟨⟨K.vals, K.roots, h1⟩, ho, rfl⟩
      | some fa =>
        obtain ⟨frame, atropos⟩ := fa
        simp only at h
        rw [onFrameDecided_ns env hns] at h
        simp only [Bool.false_eq_true, if_false] at h
        have K1 : KInv Q vals (⟨s.epoch, s.vals, Gen.Orderer.nextLastDecided frame,
            reset s.vals (Gen.Orderer.nextFrameToDecide frame), s.roots⟩ : OState) := ⟨K.vals, K.roots, elIn_reset Q _ _⟩
        have ho1 : OutIn Q (out ++ [(⟨s.epoch, frame, atropos, false⟩ : Decided)]) :=
          outIn_snoc ho (h2 _ _ rfl) rfl
        exact ih _ _ _ _ _ K1 ho1 h

theorem handleElection_K {Q : Nat → Prop} {vals : Vals} (env : Env) (hns : ∀ ep f, env.sealAt ep f = none)
    (id creator frame : Nat) :
    ∀ (fuel f : Nat) (s : OState) (out : List Decided) (s' : OState) (out' : List Decided),
      KInv Q vals s → OutIn Q out → handleElection env id creator frame fuel f s out = .ok (s', out') →
      KInv Q vals s' ∧ OutIn Q out' := by
  intro fuel
  induction fuel with
  | zero =>
    intro f s out s' out' K ho h
    simp only [handleElection] at h
    cases h; exact ⟨K, ho⟩
  | succ n ih =>
    intro f s out s' out' K ho h
    simp only [handleElection] at h
    split at h
    · cases h; exact ⟨K, ho⟩
    · cases hp : processRoot env.observe (frameRoots s) s.el ⟨id, f, creator⟩ with
      | error x => rw [hp] at h; cases h
      | ok p =>
        obtain ⟨e1, r1⟩ := p
        rw [hp] at h
        obtain ⟨h1, h2⟩ := processRoot_elIn _ _ _ _ _ _ K.el (frameRoots_in K.roots) hp
        cases r1 with
        | none =>
          simp only at h
          exact ih _ _ _ _ _ (⟨K.vals, K.roots, h1⟩ : KInv Q vals { s with el := e1 }) ho h
        | some fa =>
          obtain ⟨df, atropos⟩ := fa
          simp only at h
          rw [onFrameDecided_ns env hns] at h
          simp only [Bool.false_eq_true, if_false] at h
          have K1 : KInv Q vals (⟨s.epoch, s.vals, Gen.Orderer.nextLastDecided df,
              reset s.vals (Gen.Orderer.nextFrameToDecide df), s.roots⟩ : OState) := ⟨K.vals, K.roots, elIn_reset Q _ _⟩
          have ho1 : OutIn Q (out ++ [(⟨s.epoch, df, atropos, false⟩ : Decided)]) :=
            outIn_snoc ho (h2 _ _ rfl) rfl
          split at h
          · cases h
          · rename_i s2 out2 sealed hb
            obtain ⟨K2, ho2, hs⟩ := bootstrapElection_K env hns _ _ _ _ _ _ K1 ho1 hb
            subst hs
            simp only [Bool.false_eq_true, if_false] at h
            exact ih _ _ _ _ _ K2 ho2 h

/-- `process` without seals: validators kept, table roots and emitted Atropoi belong to `Q`-events -/
theorem process_K {Q : Nat → Prop} {vals : Vals} (env : Env) (hns : ∀ ep f, env.sealAt ep f = none)
    {s : OState} (K : KInv Q vals s) (id creator spf claimed : Nat) (hid : Q id) (s' : OState) (ds : List Decided)
    (h : process env s id creator spf claimed = (s', .ok ds)) : KInv Q vals s' ∧ OutIn Q ds := by
  unfold process at h
  split at h
  · cases h
  · simp only at h
    split at h
    · cases h
    · rename_i s2 out hh
      cases h
      have hfold : ∀ (fs : List Nat) (t : OState), t.vals = vals → ElIn Q t.el →
          (fs.foldl (fun s f => { s with roots := insertRoot env ⟨id, f, creator⟩ s.roots }) t).vals = vals ∧
          ElIn Q (fs.foldl (fun s f => { s with roots := insertRoot env ⟨id, f, creator⟩ s.roots }) t).el := by
        intro fs
        induction fs with
        | nil => intro t h1 h2; exact ⟨h1, h2⟩
        | cons f rest ih => intro t h1 h2; simp only [List.foldl_cons]; exact ih _ h1 h2
      obtain ⟨g1, g2⟩ := hfold (rootFrames spf claimed) s K.vals K.el
      exact handleElection_K env hns id creator claimed _ _ _ _ _ _
        ⟨g1, rootsIn_insert env id creator hid _ s K.roots, g2⟩ (fun _ hd => by cases hd) hh

theorem bootstrap_K {Q : Nat → Prop} {vals : Vals} (env : Env) (hns : ∀ ep f, env.sealAt ep f = none)
    {s : OState} (K : KInv Q vals s) (s' : OState) (ds : List Decided) (b : Bool)
    (h : bootstrap env s = .ok (s', ds, b)) : KInv Q vals s' ∧ OutIn Q ds ∧ b = false := by
  unfold bootstrap at h
  exact bootstrapElection_K env hns _ _ _ _ _ _
    (⟨K.vals, K.roots, elIn_reset Q _ _⟩ : KInv Q vals { s with el := reset s.vals (Gen.Orderer.bootstrapFrameToDecide s.ldf) })
    (fun _ hd => by cases hd) h

end Compose
