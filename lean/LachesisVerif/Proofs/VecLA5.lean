import LachesisVerif.Proofs.VecLA4
/-!
C05, part 5: `fc` of the indexed history equals the graph definition `FCSpec`
(`la_fc_eq_spec`), and `FCSpec` of old events is unchanged by extending the history
(`la_fcspec_append`).
-/
namespace VecProofs
open Model.Vec

open Classical in
/-- (d) the weight the index accumulates = the weight of the validators of the graph definition -/
theorem la_fc_sum {nVals : Nat} {h : Hist} {nBrAt : Nat → Nat} (weight : Nat → Nat)
    (hB : BranchInv h (run nVals h)) (hV : VecInv h (run nVals h) nBrAt)
    (hV2 : VecInv2 h (run nVals h) nBrAt) (hv : Valid nVals h) (hpl : PLen h)
    {a b : Nat} (ha : a < h.length) (hb : b < h.length) :
    (((run nVals h).fcYes a b).eraseDups.map weight).foldl (· + ·) 0 =
      (((List.range nVals).filter (fun v => decide
        (¬ ForkSeen h a v ∧ ∃ e, (Hist.ev h e).creator = v ∧ Anc h e b ∧ Anc h a e))).map weight).sum := by
  apply la_sum_eraseDups
  intro v
  rw [la_fcYes_iff hB hV hV2 (la_lowinv_run hv hpl) ha hb v, decide_eq_true_eq]
  constructor
  · intro hp
    refine ⟨?_, hp⟩
    obtain ⟨_, e, hce, heb, _⟩ := hp
    have he := la_anc_lt_left heb
    have := hB.creator_lt _ (hB.branch_lt e he)
    rw [hB.creator_eq e he, hce, (la_aux_run hv).nvals_eq] at this
    exact this
  · exact fun hp => hp.2

/-- the weight is zero when `b` is not in the ancestry of `a` -/
theorem la_spec_sum_zero {nVals : Nat} {h : Hist} (weight : Nat → Nat) {a b : Nat} (p : Nat → Bool)
    (hp : ∀ v, p v = true → ∃ e, Anc h e b ∧ Anc h a e) (hab : ¬ Anc h a b) :
    (((List.range nVals).filter p).map weight).sum = 0 := by
  have : (List.range nVals).filter p = [] := by
    rw [List.filter_eq_nil_iff]
    intro v _ hv
    obtain ⟨e, h1, h2⟩ := hp v hv
    exact hab (la_anc_trans h2 h1)
  rw [this]; rfl

open Classical in
/-- C05, main statement: the index answers the graph definition.
    Hypotheses: I1/I2 for the final state (proved in Proofs/VecHB*.lean), validity, short parent
    lists, the 32-bit bound on branch ids, and a positive quorum. -/
theorem la_fc_eq_spec {nVals : Nat} {h : Hist} {nBrAt : Nat → Nat} (weight : Nat → Nat) (quorum : Nat)
    (hB : BranchInv h (run nVals h)) (hV : VecInv h (run nVals h) nBrAt)
    (hV2 : VecInv2 h (run nVals h) nBrAt) (hv : Valid nVals h) (hpl : PLen h)
    (hsmall : nVals + h.length < 4294967296) (hq : 0 < quorum)
    {a b : Nat} (ha : a < h.length) (hb : b < h.length) :
    (run nVals h).fc weight quorum a b = true ↔ FCSpec h nVals weight quorum a b := by
  have hsum := la_fc_sum weight hB hV hV2 hv hpl ha hb
  have hnb : (run nVals h).nBr < 4294967296 := by have := (la_aux_run hv).nbr_le; omega
  unfold FCSpec VState.fc
  rw [hsum]
  by_cases hab : Anc h a b
  · have h1 := la_fc_first hB hV hV2 hnb hab
    by_cases hf : ForkSeen h a (Hist.ev h b).creator
    · rw [if_pos (h1.mpr hf)]
      exact ⟨fun h' => Bool.noConfusion h', fun h' => absurd hf h'.1⟩
    · rw [if_neg (fun h' => hf (h1.mp h')), decide_eq_true_eq]
      exact ⟨fun h' => ⟨hf, h'⟩, fun h' => h'.2⟩
  · rw [la_spec_sum_zero weight _ ?_ hab]
    · constructor
      · intro h'
        split at h'
        · exact Bool.noConfusion h'
        · rw [decide_eq_true_eq] at h'; omega
      · intro h'; have := h'.2; omega
    · intro v hv'
      obtain ⟨_, e, _, h1, h2⟩ := of_decide_eq_true hv'
      exact ⟨e, h1, h2⟩

open Classical in
/-- the graph definition, evaluated on old events, does not see later events -/
theorem la_fcspec_append {h : Hist} (hpf : PF h) (ext : Hist) (nVals : Nat) (weight : Nat → Nat)
    (quorum : Nat) {a b : Nat} (ha : a < h.length) (hb : b < h.length) :
    FCSpec (h ++ ext) nVals weight quorum a b ↔ FCSpec h nVals weight quorum a b := by
  unfold FCSpec
  rw [la_ev_append_left ext hb, la_forkseen_append_iff hpf ext ha]
  have hfil : (List.range nVals).filter (fun v => decide
        (¬ ForkSeen (h ++ ext) a v ∧ ∃ e, (Hist.ev (h ++ ext) e).creator = v ∧
          Anc (h ++ ext) e b ∧ Anc (h ++ ext) a e)) =
      (List.range nVals).filter (fun v => decide
        (¬ ForkSeen h a v ∧ ∃ e, (Hist.ev h e).creator = v ∧ Anc h e b ∧ Anc h a e)) := by
    apply List.filter_congr
    intro v _
    rw [decide_eq_decide, la_forkseen_append_iff hpf ext ha]
    apply and_congr_right; intro _
    constructor
    · rintro ⟨e, hc, heb, hae⟩
      have hae' := la_anc_of_append hpf ext hae ha
      have he := la_anc_lt_right' hae'
      rw [la_ev_append_left ext he] at hc
      exact ⟨e, hc, la_anc_of_append hpf ext heb he, hae'⟩
    · rintro ⟨e, hc, heb, hae⟩
      have he := la_anc_lt_left heb
      refine ⟨e, ?_, la_anc_append ext heb, la_anc_append ext hae⟩
      rw [la_ev_append_left ext he]; exact hc
  rw [hfil]

end VecProofs
