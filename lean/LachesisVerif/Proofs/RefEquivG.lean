import LachesisVerif.Proofs.RefEquivF
/-!
# Reference equivalence, part G: validity of the history, protocol numbers, summary

## Summary of `RefEquivA … RefEquivG` (namespace `RefEquiv`)

Definitions: `start ep vals` (fresh instance; `Inst.fresh ep pairs = start ep (canonVals pairs)` by
`fresh_eq_start`), `Built ep vals evs s` (folding `Inst.insert` over `evs` from `start ep vals`
returned `some` at every step and ended in `s`), `histOf s` (the `VecProofs.Hist` of `s`: creator =
canonical validator index, parents = positions), `netOf s` (the `ElectionRules.Net` of `s`).

Proved for every `Built ep vals evs s` (no hypothesis on validator ids, weights, protocol numbers,
sequence numbers: the graph rules only need what a successful `insert` itself guarantees, i.e.
every parent number and the creator id resolve):
`ancOf_iff`, `descOf_iff`, `byCreator_iff`, `forkIn_iff`, `forks_iff`, `hbSpec_none_iff`,
`hbSpec_some`, `hbSpec_of_maxSeq` (part E), `fcSpec_iff_FCSpec`, `quorum_netOf`, `fcSpec_iff_FC`
(part F). The same statements hold for every instance satisfying the invariants (`Good s`:
`Good.hbSpec_none_iff`, `Good.hbSpec_some`, `Good.hbSpec_of_maxSeq`, `Good.fcSpec_iff_FCSpec`,
`Good.fcSpec_iff_FC`, and the fields of `Good.inv`, `Good.finv`), in particular (`Reach.good`) for
every state the oracle reaches from `Inst.fresh` through `process` (which also updates `ldf`,
`confirmed` and re-creates the instance on a seal, so that such states are not literally `Built`).
Further, here: `GoodBuilt.valid` (`Valid s.nv (histOf s)` when every inserted event satisfies
`GoodEv`), `posOf_n` (with pairwise distinct protocol numbers `posOf` inverts `Ev.n`), and the
non-vacuity witnesses `exBuilt`, `exGoodBuilt`.

## Not proved

* (In parts A–G.) The frame / election part of the reference (`selfParentFrame`, `rootsAt`,
  `quorumOn`, `allowed`, `maxFrame`, `votesOfFrame`, `electionFrom`, `atroposSpec`, `decideLoop`,
  `process`, `build`) versus `ElectionRules` (`IsRoot`, `Allowed`, `voteYes`, `IsAtropos`, …) is the
  subject of parts H–M (`RefEquivH … RefEquivM`; summary in `RefEquivL`), for one epoch without seals.
* `GoodBuilt.valid` is stated for `GoodBuilt` only: that `process` only accepts events satisfying
  `GoodEv` is not a property of the reference (it does not check sequence numbers), so there is no
  `Valid` statement for `Reach`.
-/
namespace RefEquiv
open Spec.Lachesis VecProofs Model.Vec

/-! ### validity of the history -/

/-- the natural hypotheses on an event `e` inserted into `s` (what the event checkers guarantee):
    sequence number in range; a first event has no parent of its own creator; a later event has its
    self-parent first (same creator, seq one less) and all other parents of other creators.
    Parents are taken as positions (`parentPos s e`; all of them resolve when `insert` succeeds). -/
structure GoodEv (s : Inst) (e : Ev) : Prop where
  seq_pos : 1 ≤ e.seq
  seq_lt : e.seq < 2147483646
  first : e.seq = 1 → ∀ p ∈ parentPos s e, (s.ev p).creator ≠ e.creator
  self : 1 < e.seq → ∃ sp ps, parentPos s e = sp :: ps ∧ (s.ev sp).creator = e.creator ∧
           (s.ev sp).seq + 1 = e.seq ∧ ∀ q ∈ ps, (s.ev q).creator ≠ e.creator

theorem parentPos_lt {s : Inst} {e : Ev} {p : Nat} (hp : p ∈ parentPos s e) : p < s.size := by
  obtain ⟨n, _, hn⟩ := mem_parentPos.1 hp
  exact posOf_lt hn

/-- creator ids versus canonical indices -/
theorem creator_histOf_eq_iff {s : Inst} (hi : Inv s) {e : Ev} {cv p : Nat}
    (hcv : s.idxOf e.creator = some cv) (hp : p < s.size) :
    ((histOf s).ev p).creator = cv ↔ (s.ev p).creator = e.creator := by
  rw [creator_histOf s hp]
  obtain ⟨c', hc'⟩ := hi.cre p hp
  unfold Inst.creatorIdx
  rw [hc']
  constructor
  · intro h
    have h' : c' = cv := h
    subst h'
    exact idxOf_inj hc' hcv
  · intro h
    rw [h, hcv] at hc'
    injection hc' with hc'
    exact hc'.symm

theorem validNext_insert {s s' : Inst} {e : Ev} (hi : Inv s) (h : s.insert e = some s')
    (hg : GoodEv s e) : ValidNext s.nv (histOf s) (newEv s e) := by
  obtain ⟨cv, hcv, _⟩ := insert_some h
  have hcr : (newEv s e).creator = cv := by unfold newEv; rw [hcv]; rfl
  refine ⟨newEv_parents_lt s e, by rw [hcr]; exact idxOf_lt hcv, hg.seq_pos, hg.seq_lt, ?_, ?_⟩
  · intro h1 p hp
    rw [hcr]
    intro hc
    exact hg.first h1 p hp ((creator_histOf_eq_iff hi hcv (parentPos_lt hp)).1 hc)
  · intro h1
    obtain ⟨sp, ps, hpar, hc, hs, hoth⟩ := hg.self h1
    have hmem : ∀ q, q ∈ sp :: ps → q < s.size := by
      intro q hq; rw [← hpar] at hq; exact parentPos_lt hq
    have hsp := hmem sp List.mem_cons_self
    refine ⟨sp, ps, hpar, ?_, ?_, ?_⟩
    · rw [hcr]; exact (creator_histOf_eq_iff hi hcv hsp).2 hc
    · rw [seq_histOf s hsp]; exact hs
    · intro q hq
      rw [hcr]
      intro hc'
      have hql := hmem q (List.mem_cons_of_mem _ hq)
      exact hoth q hq ((creator_histOf_eq_iff hi hcv hql).1 hc')

/-- `Built` where, in addition, every inserted event satisfied `GoodEv` at its insertion -/
inductive GoodBuilt (ep : Nat) (vals : List (Nat × Nat)) : List Ev → Inst → Prop
  | nil : GoodBuilt ep vals [] (start ep vals)
  | snoc {evs s e s'} : GoodBuilt ep vals evs s → GoodEv s e → s.insert e = some s' →
      GoodBuilt ep vals (evs ++ [e]) s'

theorem GoodBuilt.built {ep : Nat} {vals : List (Nat × Nat)} {evs : List Ev} {s : Inst}
    (hg : GoodBuilt ep vals evs s) : Built ep vals evs s := by
  induction hg with
  | nil => exact Built.nil ep vals
  | snoc _ _ h ih => exact ih.snoc h

/-- the history of an instance built from well-formed events is valid -/
theorem GoodBuilt.valid {ep : Nat} {vals : List (Nat × Nat)} {evs : List Ev} {s : Inst}
    (hg : GoodBuilt ep vals evs s) : Valid s.nv (histOf s) := by
  induction hg with
  | nil => exact Valid.nil
  | @snoc evs s e s' hb hge h ih =>
    have hi := hb.built.inv
    rw [histOf_insert h hi.pok, nv_insert h]
    exact Valid.snoc ih (validNext_insert hi h hge)

/-! ### the instances the oracle reaches through `process` -/

theorem good_start (ep : Nat) (vals : List (Nat × Nat)) : Good (start ep vals) :=
  ⟨inv_start ep vals, finv_start ep vals⟩

theorem good_insert {s s' : Inst} {e : Ev} (hg : Good s) (h : s.insert e = some s') : Good s' :=
  ⟨inv_insert hg.inv h, finv_insert hg.inv hg.finv h⟩

/-- the bookkeeping fields `ldf`, `confirmed` do not matter -/
theorem good_with {s : Inst} (hg : Good s) (f c : Nat) : Good { s with ldf := f, confirmed := c } := by
  have hi := hg.inv
  exact ⟨⟨hi.anc_size, hi.desc_size, hi.forks_size, hi.byC_size, hi.pok, hi.cre, hi.pf, hi.anc,
    hi.desc, hi.byC⟩, hg.finv⟩

theorem good_decideLoop (seals : Seals) : ∀ (fuel : Nat) (s : Inst) (out : List Inst.Block),
    Good s → Good (decideLoop seals fuel s out).1 := by
  intro fuel
  induction fuel with
  | zero => intro s out hg; exact hg
  | succ fuel ih =>
    intro s out hg
    unfold decideLoop
    split
    · exact hg
    · exact hg
    · simp only []
      split
      · exact good_start _ _
      · exact ih _ _ (good_with hg _ _)

theorem good_process (seals : Seals) {s : Inst} (e : Ev) (hg : Good s) :
    Good (process seals s e).1 := by
  unfold process
  split
  · exact hg
  · split
    · exact hg
    · rename_i s1 h1
      split
      · exact hg
      · exact good_decideLoop seals _ _ _ (good_insert hg h1)

/-- the states of the oracle: a fresh instance, then any number of `process` steps -/
inductive Reach : Inst → Prop
  | fresh (ep : Nat) (pairs : List (Nat × Nat)) : Reach (Inst.fresh ep pairs)
  | process {s : Inst} (seals : Seals) (e : Ev) : Reach s → Reach (process seals s e).1

/-- all of them satisfy the invariants, hence all `Good.*` statements of parts E, F apply -/
theorem Reach.good {s : Inst} (h : Reach s) : Good s := by
  induction h with
  | fresh ep pairs => exact good_start ep _
  | process seals e _ ih => exact good_process seals e ih

/-! ### protocol numbers -/

section numbers
variable {ep : Nat} {vals : List (Nat × Nat)} {evs : List Ev} {s : Inst}

/-- the events of a built instance are the inserted events, in order -/
theorem Built.evs_toList (hb : Built ep vals evs s) : s.evs.toList = evs :=
  Built.rec_on (P := fun evs s => s.evs.toList = evs) rfl
    (fun evs s e s' _ ih h => by
      obtain ⟨_, _, _, _, hevs, _⟩ := insert_some h
      rw [hevs, Array.toList_push, ih]) hb

theorem Built.size_eq (hb : Built ep vals evs s) : s.size = evs.length := by
  unfold Inst.size
  rw [← hb.evs_toList, Array.length_toList]

theorem ev_eq_getElem (s : Inst) {i : Nat} (h : i < s.evs.size) : s.ev i = s.evs[i] := by
  unfold Inst.ev
  rw [Array.getD_eq_getD_getElem?, Array.getElem?_eq_getElem h]
  rfl

/-- with pairwise distinct protocol numbers, `posOf` finds every event by its number, so the
    parents of `histOf` are exactly the events carrying the parent numbers -/
theorem posOf_n (hb : Built ep vals evs s) (hnd : (evs.map (·.n)).Nodup) {i : Nat} (hi : i < s.size) :
    s.posOf (s.ev i).n = some i := by
  rw [List.nodup_iff_pairwise_ne, List.pairwise_map, ← hb.evs_toList, List.pairwise_iff_getElem] at hnd
  unfold Inst.size at hi
  unfold Inst.posOf
  rw [Array.findIdx?_eq_some_iff_getElem, ev_eq_getElem s hi]
  refine ⟨hi, beq_self_eq_true _, ?_⟩
  intro j hji
  have := hnd j i (by rw [Array.length_toList]; omega) (by rw [Array.length_toList]; exact hi) hji
  rw [Array.getElem_toList, Array.getElem_toList] at this
  rw [beq_iff_eq]
  exact this

end numbers

/-! ### non-vacuity of `GoodBuilt` -/

theorem parentPos_eq_L (s : Inst) (e : Ev) :
    parentPos s e = (e.parents.map (posOfL s)).filterMap id := by
  unfold parentPos; rw [posOf_eq_posOfL]

/-- the example instance of part F is built from well-formed events -/
theorem exGoodBuilt : GoodBuilt 1 exVals exEvs exInst := by
  have h1 : (insertL (start 1 exVals) exEvs[0]).isSome = true := by decide
  obtain ⟨s1, hs1⟩ := Option.isSome_iff_exists.1 h1
  have h2 : (insertL ((insertL (start 1 exVals) exEvs[0]).getD default) exEvs[1]).isSome = true := by decide
  rw [hs1] at h2
  obtain ⟨s2, hs2⟩ := Option.isSome_iff_exists.1 h2
  have e2 : s2 = ((insertL ((insertL (start 1 exVals) exEvs[0]).getD default) exEvs[1]).getD default) := by
    rw [hs1]; exact (congrArg (·.getD default) hs2).symm
  have h3 : insertL s2 exEvs[2] = some exInst := by
    have : (insertL s2 exEvs[2]).isSome = true := by rw [e2]; decide
    obtain ⟨s3, hs3⟩ := Option.isSome_iff_exists.1 this
    rw [hs3]
    congr 1
    have : exInst = (insertL s2 exEvs[2]).getD default := by rw [e2]; rfl
    rw [this, hs3]; rfl
  rw [← insert_eq_insertL] at hs1 hs2 h3
  have g1 : GoodEv (start 1 exVals) exEvs[0] :=
    ⟨by decide, by decide, fun _ p hp => by rw [parentPos_eq_L] at hp; exact absurd hp List.not_mem_nil,
     fun h => absurd h (by decide)⟩
  have g2 : GoodEv s1 exEvs[1] :=
    ⟨by decide, by decide, fun _ p hp => by rw [parentPos_eq_L] at hp; exact absurd hp List.not_mem_nil,
     fun h => absurd h (by decide)⟩
  have g3 : GoodEv s2 exEvs[2] := by
    refine ⟨by decide, by decide, fun h => absurd h (by decide), fun _ => ⟨0, [1], ?_, ?_, ?_, ?_⟩⟩
    · rw [parentPos_eq_L, e2]; decide
    · rw [e2]; decide
    · rw [e2]; decide
    · rw [e2]; decide
  exact ((GoodBuilt.nil.snoc g1 hs1).snoc g2 hs2).snoc g3 h3

/-- hence its history is valid, and everything proved about valid histories applies to it -/
example : Valid 2 (histOf exInst) := exGoodBuilt.valid

end RefEquiv
