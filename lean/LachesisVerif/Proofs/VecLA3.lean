import LachesisVerif.Proofs.VecLA2
/-!
C05, part 3: what `add` does to the LowestAfter table (`la_add_la_spec`) and preservation of the
LowestAfter invariant `LowInv` (I3) — `la_lowinv_run`.

Extra hypothesis `PLen h`: the parent list of the event at position `i` has at most `i` entries
(the basic event check rejects double parents, and parents are earlier positions). It is what
makes the fuel `(size+1)*(size+2)` of the DFS sufficient; without it the model (and only the model:
the Go code has no fuel) could stop early on an event with a very long list of repeated parents.
-/
namespace VecProofs
open Model.Vec

/-- parent lists are short: at most as many parents as earlier events -/
def PLen (h : Hist) : Prop := ∀ i, i < h.length → (Hist.ev h i).parents.length ≤ i

theorem la_plen_prefix {h ext : Hist} (hp : PLen (h ++ ext)) : PLen h := by
  intro i hi
  have := hp i (by rw [List.length_append]; omega)
  rwa [la_ev_append_left _ hi] at this

/-- duplicate-free parent lists of earlier positions are short -/
theorem la_nodup_length_le : ∀ (k : Nat) (l : List Nat), l.Nodup → (∀ x ∈ l, x < k) → l.length ≤ k := by
  intro k l hnd hlt
  have := List.Nodup.length_le_of_subset hnd (l₂ := List.range k)
    (fun x hx => List.mem_range.mpr (hlt x hx))
  rwa [List.length_range] at this

theorem la_plen_of_nodup {h : Hist} (hpf : PF h)
    (hnd : ∀ i, i < h.length → (Hist.ev h i).parents.Nodup) : PLen h :=
  fun i hi => la_nodup_length_le i _ (hnd i hi) (hpf i hi)

section Add
variable {nVals : Nat} {h : Hist} {s : VState} {e : Event}

/-- reachability from the new event's parents in the parents table = ancestry in the history -/
theorem la_reach_iff (hx : LAux nVals h s) (hpf : PF h) (hn : ValidNext nVals h e) (w : Nat) :
    Reach s.parents e.parents w ↔ ∃ p, p ∈ e.parents ∧ Anc h p w := by
  constructor
  · intro hr
    induction hr with
    | root hw => exact ⟨_, hw, Anc.refl (hn.parents_lt _ hw)⟩
    | @step w p _ hp ih =>
      obtain ⟨p0, hp0, ha⟩ := ih
      have hwl := la_anc_lt_right hpf ha
      rw [hx.parents_eq w hwl] at hp
      have hpl : p < h.length := by have := hpf w hwl p hp; omega
      exact ⟨p0, hp0, la_anc_trans ha (Anc.step hwl hp (Anc.refl hpl))⟩
  · rintro ⟨p, hp, ha⟩
    have hgen : ∀ a b, Anc h a b → Reach s.parents e.parents a → Reach s.parents e.parents b := by
      intro a b hab
      induction hab with
      | refl _ => exact id
      | step hlt hq _ ih =>
        intro hr
        exact ih (Reach.step hr (by rw [hx.parents_eq _ hlt]; exact hq))
    exact hgen p w ha (Reach.root hp)

/-- (a) the LowestAfter table after `add`: the new row is `zero.set me seq`; in the old rows only
    column `me` changes, and exactly at the ancestors of the new event whose entry was zero -/
theorem la_add_la_spec (hx : LAux nVals h s) (hL : LowInv h s) (hn : ValidNext nVals h e)
    (hpf : PF h) (hpl : PLen (h ++ [e])) :
    (∀ br, (((s.add e).la.get h.length).get br) = if br = (s.assignBranch e).2 then e.seq else 0) ∧
    (∀ b br, b < h.length → br ≠ (s.assignBranch e).2 →
        ((s.add e).la.get b).get br = (s.la.get b).get br) ∧
    (∀ b, b < h.length → (s.la.get b).get (s.assignBranch e).2 ≠ 0 →
        ((s.add e).la.get b).get (s.assignBranch e).2 = (s.la.get b).get (s.assignBranch e).2) ∧
    (∀ b, b < h.length → (s.la.get b).get (s.assignBranch e).2 = 0 →
        (∃ p, p ∈ e.parents ∧ Anc h p b) → ((s.add e).la.get b).get (s.assignBranch e).2 = e.seq) ∧
    (∀ b, b < h.length → (s.la.get b).get (s.assignBranch e).2 = 0 →
        ¬ (∃ p, p ∈ e.parents ∧ Anc h p b) → ((s.add e).la.get b).get (s.assignBranch e).2 = 0) := by
  have hseq : e.seq ≠ 0 := by have := hn.seq_pos; omega
  have hlt : ∀ w, Reach s.parents e.parents w → w < h.length := by
    intro w hr
    obtain ⟨p, _, ha⟩ := (la_reach_iff hx hpf hn w).mp hr
    exact la_anc_lt_right hpf ha
  have hpar : ∀ w, w < h.length → (s.parents w).length ≤ h.length := by
    intro w hw
    rw [hx.parents_eq w hw]
    have := la_plen_prefix hpl w hw; omega
  have hrl : e.parents.length ≤ h.length := by
    have := hpl h.length (by simp)
    rwa [la_ev_snoc_self] at this
  have hdc : ∀ w, Reach s.parents e.parents w → (s.la.get w).get (s.assignBranch e).2 ≠ 0 →
      ∀ p, p ∈ s.parents w → (s.la.get p).get (s.assignBranch e).2 ≠ 0 := by
    intro w hr hw p hp hz
    have hwl := hlt w hr
    rw [hx.parents_eq w hwl] at hp
    have hpl' : p < h.length := by have := hpf w hwl p hp; omega
    obtain ⟨⟨i, hi, hbi, hai, _⟩, _⟩ := hL.least w _ hwl hw
    exact hL.zero p _ hpl' hz i hi hbi (la_anc_trans hai (Anc.step hwl hp (Anc.refl hpl')))
  obtain ⟨r1, r2, r3, r4⟩ := la_visit_result
    (la_visit_fuel (n := h.length) (me := (s.assignBranch e).2) (la0 := s.la) hseq hlt hpar hrl hdc)
  rw [la_add_la, hx.size_eq]
  have hrow : ∀ (t : LAT) (row : LAV) (b : Nat), b < h.length → (t.setRow h.length row).get b = t.get b := by
    intro t row b hb
    show (if b = h.length then row else t.get b) = _
    rw [if_neg (by omega)]
  refine ⟨?_, ?_, ?_, ?_, ?_⟩
  · intro br
    show ((if h.length = h.length then LAV.zero.set (s.assignBranch e).2 e.seq else _ : LAV).get br) = _
    rw [if_pos rfl]; rfl
  · intro b br hb hbr; rw [hrow _ _ b hb]; exact r1 b br hbr
  · intro b hb hnz; rw [hrow _ _ b hb]; exact r2 b hnz
  · intro b hb hz hr; rw [hrow _ _ b hb]; exact r3 b hz ((la_reach_iff hx hpf hn b).mpr hr)
  · intro b hb hz hr; rw [hrow _ _ b hb]
    exact r4 b hz (fun h' => hr ((la_reach_iff hx hpf hn b).mp h'))

theorem la_pf_snoc (hpf : PF h) (hpl : ∀ p, p ∈ e.parents → p < h.length) : PF (h ++ [e]) := by
  intro i hi p hp
  rw [List.length_append, List.length_singleton] at hi
  by_cases hlt : i < h.length
  · rw [la_ev_append_left _ hlt] at hp; exact hpf i hlt p hp
  · have : i = h.length := by omega
    subst this
    rw [la_ev_snoc_self] at hp
    exact hpl p hp

/-- I3 is preserved by `add` -/
theorem la_lowinv_add (hx : LAux nVals h s) (hL : LowInv h s) (hn : ValidNext nVals h e)
    (hpf : PF h) (hpl : PLen (h ++ [e])) : LowInv (h ++ [e]) (s.add e) := by
  obtain ⟨q0, q1, q2, q3, q4⟩ := la_add_la_spec hx hL hn hpf hpl
  obtain ⟨_, _, _, htop⟩ := la_assign_top hx hn
  have hseq : e.seq ≠ 0 := by have := hn.seq_pos; omega
  have hpf' : PF (h ++ [e]) := la_pf_snoc hpf hn.parents_lt
  have hlen : (h ++ [e]).length = h.length + 1 := by simp
  have hbr : ∀ i, (s.add e).branchOf i = if i = h.length then (s.assignBranch e).2 else s.branchOf i := by
    intro i; rw [la_add_branchOf, hx.size_eq]
  have hanc_old : ∀ i b, i < h.length → (Anc (h ++ [e]) i b ↔ Anc h i b) :=
    fun i b hi => la_anc_append_iff hpf [e] hi
  have hanc_new := la_anc_new hpf e hn.parents_lt
  have hanc_to_new : ∀ i, Anc (h ++ [e]) i h.length → i = h.length := by
    intro i ha
    have h1 := la_anc_le hpf' ha; have h2 := la_anc_lt_left ha; rw [hlen] at h2; omega
  generalize (s.assignBranch e).2 = me at q0 q1 q2 q3 q4 htop hbr
  constructor
  · intro b br hb hz i hi hbi hanc
    rw [hlen] at hb hi
    by_cases hbn : b = h.length
    · subst hbn
      have hin := hanc_to_new i hanc; subst hin
      rw [q0] at hz; rw [hbr, if_pos rfl] at hbi
      rw [if_pos hbi.symm] at hz; exact hseq hz
    · have hb' : b < h.length := by omega
      by_cases hbrme : br = me
      · subst hbrme
        have hz0 : (s.la.get b).get br = 0 := by
          by_cases h0 : (s.la.get b).get br = 0
          · exact h0
          · rw [q2 b hb' h0] at hz; exact absurd hz h0
        have hnr : ¬ ∃ p, p ∈ e.parents ∧ Anc h p b := fun hr => by
          rw [q3 b hb' hz0 hr] at hz; exact hseq hz
        by_cases hin : i = h.length
        · subst hin
          rcases (hanc_new b).mp hanc with h1 | h1
          · exact hbn h1
          · exact hnr h1
        · have hi' : i < h.length := by omega
          rw [hbr, if_neg hin] at hbi
          exact hL.zero b br hb' hz0 i hi' hbi ((hanc_old i b hi').mp hanc)
      · rw [q1 b br hb' hbrme] at hz
        by_cases hin : i = h.length
        · subst hin; rw [hbr, if_pos rfl] at hbi; exact hbrme hbi.symm
        · have hi' : i < h.length := by omega
          rw [hbr, if_neg hin] at hbi
          exact hL.zero b br hb' hz i hi' hbi ((hanc_old i b hi').mp hanc)
  · intro b br hb hnz
    rw [hlen] at hb
    by_cases hbn : b = h.length
    · subst hbn
      rw [q0] at hnz ⊢
      have hbrme : br = me := by
        by_cases hc : br = me
        · exact hc
        · rw [if_neg hc] at hnz; exact absurd rfl hnz
      subst hbrme
      rw [if_pos rfl]
      refine ⟨⟨h.length, by omega, by rw [hbr, if_pos rfl], Anc.refl (by omega), by rw [la_ev_snoc_self]⟩, ?_⟩
      intro i _ _ hanc
      have := hanc_to_new i hanc; subst this
      rw [la_ev_snoc_self]; exact Nat.le_refl _
    · have hb' : b < h.length := by omega
      by_cases hbrme : br = me
      · subst hbrme
        by_cases h0 : (s.la.get b).get br = 0
        · have hr : ∃ p, p ∈ e.parents ∧ Anc h p b := by
            by_cases hc : ∃ p, p ∈ e.parents ∧ Anc h p b
            · exact hc
            · exact absurd (q4 b hb' h0 hc) hnz
          rw [q3 b hb' h0 hr]
          refine ⟨⟨h.length, by omega, by rw [hbr, if_pos rfl], (hanc_new b).mpr (Or.inr hr),
            by rw [la_ev_snoc_self]⟩, ?_⟩
          intro i hi hbi hanc
          rw [hlen] at hi
          by_cases hin : i = h.length
          · subst hin; rw [la_ev_snoc_self]; exact Nat.le_refl _
          · exfalso
            have hi' : i < h.length := by omega
            rw [hbr, if_neg hin] at hbi
            exact hL.zero b br hb' h0 i hi' hbi ((hanc_old i b hi').mp hanc)
        · rw [q2 b hb' h0]
          obtain ⟨⟨i0, hi0, hb0, ha0, hs0⟩, hmin⟩ := hL.least b br hb' h0
          refine ⟨⟨i0, by omega, by rw [hbr, if_neg (by omega)]; exact hb0, la_anc_append _ ha0,
            by rw [la_ev_append_left _ hi0]; exact hs0⟩, ?_⟩
          intro i hi hbi hanc
          rw [hlen] at hi
          by_cases hin : i = h.length
          · subst hin; rw [la_ev_snoc_self, ← hs0]; exact htop i0 hi0 hb0
          · have hi' : i < h.length := by omega
            rw [hbr, if_neg hin] at hbi
            rw [la_ev_append_left _ hi']
            exact hmin i hi' hbi ((hanc_old i b hi').mp hanc)
      · rw [q1 b br hb' hbrme] at hnz ⊢
        obtain ⟨⟨i0, hi0, hb0, ha0, hs0⟩, hmin⟩ := hL.least b br hb' hnz
        refine ⟨⟨i0, by omega, by rw [hbr, if_neg (by omega)]; exact hb0, la_anc_append _ ha0,
          by rw [la_ev_append_left _ hi0]; exact hs0⟩, ?_⟩
        intro i hi hbi hanc
        rw [hlen] at hi
        by_cases hin : i = h.length
        · subst hin; rw [hbr, if_pos rfl] at hbi; exact absurd hbi.symm hbrme
        · have hi' : i < h.length := by omega
          rw [hbr, if_neg hin] at hbi
          rw [la_ev_append_left _ hi']
          exact hmin i hi' hbi ((hanc_old i b hi').mp hanc)

end Add

theorem la_lowinv_init (nVals : Nat) : LowInv [] (VState.init nVals) where
  zero := fun b br hb => by simp at hb
  least := fun b br hb => by simp at hb

/-- I3 holds after indexing any valid history with short parent lists -/
theorem la_lowinv_run {nVals : Nat} {h : Hist} (hv : Valid nVals h) (hpl : PLen h) :
    LowInv h (run nVals h) := by
  induction hv with
  | nil => exact la_lowinv_init nVals
  | @snoc h e hv' hn ih =>
    rw [la_run_snoc]
    exact la_lowinv_add (la_aux_run hv') (ih (la_plen_prefix hpl)) hn (la_valid_pf hv') hpl

end VecProofs
