import LachesisVerif.Proofs.RefEquivJ
import LachesisVerif.Proofs.ElectionL3
import LachesisVerif.Proofs.OrdererTable
/-!
# Reference equivalence, part K: `decideLoop`, `process`, whole runs of the reference

* generic lemmas about growing nets (`Extends`): the frame rule, the Atropos, BFT; accepted frames
  are at most the position plus one (`fr_le_succ`), so a frame with an Atropos is at least two below
  the number of events (`isAtropos_bound`: the fuel of `decideLoop` suffices);
* `decideLoop_spec`: without seals `decideLoop` emits the blocks `(ldf + 1, Atropos), (ldf + 2, Atropos), …`
  and stops at the first frame that has no Atropos;
* `process_ok`, `process_accepts_iff`: `process` accepts exactly the events whose frame is allowed;
* `Run`, `RunInv`, `run_inv`: the invariant of whole runs (one epoch, no seals, checked events).
-/
namespace ElectionRules
open VecProofs
open Classical

namespace Extends
variable {N N' : Net} (E : Extends N N')
include E

/-- the frame rule of an old event does not change when the history grows -/
theorem allowed_iff (hv : Valid N'.nVals N'.h) {e : Nat} (he : e < N.h.length) (f : Nat) :
    N'.Allowed e f ↔ N.Allowed e f := by
  unfold Net.Allowed
  rw [E.ev_eq he, E.spf_eq hv he, E.quorum_eq']
  have hcw : ∀ g, N'.causedWeight e g (fun r => r ≠ e) = N.causedWeight e g (fun r => r ≠ e) :=
    fun g => E.causedWeight_eq hv he g _ _ (fun _ _ => Iff.rfl)
  by_cases hs : (N.h.ev e).seq ≤ 1
  · rw [if_pos hs, if_pos hs]
  · rw [if_neg hs, if_neg hs]
    constructor
    · rintro ⟨h1, h2⟩; exact ⟨h1, fun g a b => by rw [← hcw g]; exact h2 g a b⟩
    · rintro ⟨h1, h2⟩; exact ⟨h1, fun g a b => by rw [hcw g]; exact h2 g a b⟩

/-- an Atropos stays the Atropos when the history grows -/
theorem isAtropos_mono (hv : Valid N'.nVals N'.h) {f a : Nat} (h : N.IsAtropos f a) : N'.IsAtropos f a := by
  obtain ⟨v, hvlt, ⟨k, r, hd⟩, hno, hroot, hc, r1, hr1, hfc⟩ := h
  refine ⟨v, by rw [E.nVals]; exact hvlt, ⟨k, r, ((E.decides_iff hv f k r v hd.2.1.1).1).2 hd⟩, ?_,
    (E.isRoot_iff hv hroot.1).2 hroot, by rw [E.creator_eq hroot.1]; exact hc,
    r1, (E.isRoot_iff hv hr1.1).2 hr1, (E.FC_iff hv hr1.1).2 hfc⟩
  intro u hu
  obtain ⟨k', r', hd'⟩ := hno u hu
  exact ⟨k', r', ((E.decides_iff hv f k' r' u hd'.2.1.1).2).2 hd'⟩

theorem forker_mono {v : Nat} (h : N.Forker v) : N'.Forker v := by
  obtain ⟨x, y, hne, hx, hy, cx, cy, hs⟩ := h
  refine ⟨x, y, hne, Nat.lt_of_lt_of_le hx E.len_le, Nat.lt_of_lt_of_le hy E.len_le, ?_, ?_, ?_⟩
  · rw [E.creator_eq hx]; exact cx
  · rw [E.creator_eq hy]; exact cy
  · rw [E.ev_eq hx, E.ev_eq hy]; exact hs

/-- forkers below one third in the grown history: also in the old one -/
theorem bft_mono (h : N'.BFT) : N.BFT := by
  unfold Net.BFT at h ⊢
  have h1 : N.weightOf N.Forker ≤ N.weightOf N'.Forker := N.weightOf_mono _ _ (fun _ _ hf => E.forker_mono hf)
  have h2 : N'.total = N.total := by unfold Net.total; exact E.weightOf_eq' _
  rw [E.weightOf_eq', h2] at h
  omega

end Extends

namespace Net
variable (N : Net)

/-- an accepted frame is at most the position plus one -/
theorem fr_le_succ (hv : Valid N.nVals N.h) (hfa : N.FramesAccepted) : ∀ e, e < N.h.length → N.fr e ≤ e + 1 := by
  intro e
  induction e using Nat.strongRecOn with
  | ind e ih =>
    intro he
    have ha := hfa e he
    unfold Allowed at ha
    by_cases hs : (N.h.ev e).seq ≤ 1
    · rw [if_pos hs] at ha; omega
    · rw [if_neg hs] at ha
      obtain ⟨sp, ps, hp, _, _⟩ := (valid_ev hv e he).self (by omega)
      have h1 := N.spf_eq (by omega) hp
      have hsp : sp < e := (valid_ev hv e he).parents_lt sp (by rw [hp]; exact List.mem_cons_self)
      have hspb := ih sp hsp (by omega)
      by_cases heq : N.fr e = N.spf e
      · omega
      · have hq := ha.2 (N.fr e - 1) (by omega) (by omega)
        have hpos : 0 < N.causedWeight e (N.fr e - 1) (fun r => r ≠ e) := Nat.lt_of_lt_of_le N.quorum_pos hq
        obtain ⟨u, _, r, hr, _, hfc, hne⟩ := N.weightOf_pos _ hpos
        have hle := anc_le hv (N.FC_anc hfc)
        have hrb := ih r (by omega) hr.1
        have := hr.2.2
        omega

/-- a frame that has an Atropos lies at least two below the number of events -/
theorem isAtropos_bound (hv : Valid N.nVals N.h) (hfa : N.FramesAccepted) {f a : Nat} (h : N.IsAtropos f a) :
    f + 2 ≤ N.h.length := by
  obtain ⟨v, _, ⟨k, r, hk, hroot, _⟩, _⟩ := h
  have := N.fr_le_succ hv hfa r hroot.1
  have := hroot.2.2
  have := hroot.1
  omega

end Net
end ElectionRules

namespace RefEquiv
open Spec.Lachesis VecProofs Model.Vec ElectionRules
open Spec.Lachesis.Inst (Block)

/-! ### `decideLoop` without seals -/

/-- the block emitted for Atropos `a` (a position) by the instance `s` -/
def mkBlock (s : Inst) (a : Nat) : Block :=
  ⟨s.epoch, s.ldf + 1, (s.ev a).n, ((List.range s.nv).filter (fun v => bit (s.forksOf a) v)).map s.idOf,
    sortNat (((members (s.ancOf a) s.size).filter (fun i => !bit s.confirmed i)).map (fun i => (s.ev i).n)),
    false⟩

/-- the bookkeeping after a block: next frame, ancestry of the Atropos confirmed -/
def advance (s : Inst) (a : Nat) : Inst :=
  { s with ldf := s.ldf + 1, confirmed := s.confirmed ||| s.ancOf a }

theorem decideLoop_zero (s : Inst) (out : List Block) : decideLoop [] 0 s out = (s, out) := rfl

theorem decideLoop_succ (fuel : Nat) (s : Inst) (out : List Block) :
    decideLoop [] (fuel + 1) s out =
      match s.atroposSpec (s.ldf + 1) with
      | .undecided => (s, out)
      | .allNo => (s, out)
      | .atropos a => decideLoop [] fuel (advance s a) (out ++ [mkBlock s a]) := rfl

theorem netOf_advance (s : Inst) (a : Nat) : netOf (advance s a) = netOf s := rfl
theorem histOf_advance (s : Inst) (a : Nat) : histOf (advance s a) = histOf s := rfl

/-- block `b` is the block of frame `f` of the rules on the graph of `s`: its Atropos is the protocol
    number of the event at a position `a` with `IsAtropos f a`; its cheaters are the validators with a
    bit in the stored fork mask of `a`, in canonical order; it is not sealed -/
def BlockOK (s : Inst) (f : Nat) (b : Block) : Prop :=
  b.frame = f ∧ b.epoch = s.epoch ∧ b.sealed = false ∧
  ∃ a, a < s.size ∧ b.atropos = (s.ev a).n ∧ (netOf s).IsAtropos f a ∧
    b.cheaters = ((List.range s.nv).filter (fun v => bit (s.forksOf a) v)).map s.idOf

/-- the blocks `bs` are the blocks of the frames `l + 1, l + 2, …` -/
def BlocksFrom (s : Inst) : Nat → List Block → Prop
  | _, [] => True
  | l, b :: bs => BlockOK s (l + 1) b ∧ BlocksFrom s (l + 1) bs

theorem blocksFrom_append (s : Inst) : ∀ (l : Nat) (bs cs : List Block),
    BlocksFrom s l (bs ++ cs) ↔ BlocksFrom s l bs ∧ BlocksFrom s (l + bs.length) cs := by
  intro l bs
  induction bs generalizing l with
  | nil => intro cs; exact ⟨fun h => ⟨trivial, h⟩, fun h => h.2⟩
  | cons b bs ih =>
    intro cs
    show BlockOK s (l + 1) b ∧ BlocksFrom s (l + 1) (bs ++ cs) ↔
      (BlockOK s (l + 1) b ∧ BlocksFrom s (l + 1) bs) ∧ BlocksFrom s (l + (bs.length + 1)) cs
    rw [ih (l + 1) cs, show l + 1 + bs.length = l + (bs.length + 1) by omega, and_assoc]

theorem blocksFrom_get (s : Inst) : ∀ (l : Nat) (bs : List Block), BlocksFrom s l bs →
    ∀ j (h : j < bs.length), BlockOK s (l + 1 + j) bs[j] := by
  intro l bs
  induction bs generalizing l with
  | nil => intro _ j h; cases h
  | cons b bs ih =>
    intro hb j h
    cases j with
    | zero => exact hb.1
    | succ j =>
      have := ih (l + 1) hb.2 j (by simpa using h)
      rw [show l + 1 + (j + 1) = l + 1 + 1 + j by omega]
      exact this

theorem blocksFrom_congr {s s' : Inst} (h : ∀ f b, BlockOK s f b → BlockOK s' f b) :
    ∀ (l : Nat) (bs : List Block), BlocksFrom s l bs → BlocksFrom s' l bs := by
  intro l bs
  induction bs generalizing l with
  | nil => intro _; trivial
  | cons b bs ih => intro hb; exact ⟨h _ _ hb.1, ih (l + 1) hb.2⟩

theorem blockOK_advance (s : Inst) (a : Nat) (f : Nat) (b : Block) (h : BlockOK (advance s a) f b) :
    BlockOK s f b := h

/-- without seals, `decideLoop` emits the blocks of the frames `ldf + 1, ldf + 2, …` (Atropoi of the
    rules), only advances `ldf` and `confirmed`, and stops — unless the fuel runs out — at a frame for
    which, under BFT, the rules have no Atropos -/
theorem decideLoop_spec : ∀ (fuel : Nat) (s : Inst) (out : List Block), Good s →
    Valid s.nv (histOf s) → (netOf s).FramesAccepted →
    ∃ n c bs, decideLoop [] fuel s out = ({ s with ldf := s.ldf + n, confirmed := c }, out ++ bs) ∧
      bs.length = n ∧ BlocksFrom s s.ldf bs ∧
      (n = fuel ∨ ((netOf s).BFT → ∀ a, ¬ (netOf s).IsAtropos (s.ldf + n + 1) a)) := by
  intro fuel
  induction fuel with
  | zero =>
    intro s out _ _ _
    exact ⟨0, s.confirmed, [], by rw [decideLoop_zero, List.append_nil]; rfl, rfl, trivial, Or.inl rfl⟩
  | succ fuel ih =>
    intro s out hg hv hfa
    rw [decideLoop_succ]
    have stop : ∀ (_ : ∀ a, s.atroposSpec (s.ldf + 1) ≠ .atropos a),
        ∃ n c bs, (s, out) = (({ s with ldf := s.ldf + n, confirmed := c } : Inst), out ++ bs) ∧
          bs.length = n ∧ BlocksFrom s s.ldf bs ∧
          (n = fuel + 1 ∨ ((netOf s).BFT → ∀ a, ¬ (netOf s).IsAtropos (s.ldf + n + 1) a)) := by
      intro hne
      refine ⟨0, s.confirmed, [], by rw [List.append_nil]; rfl, rfl, trivial, Or.inr ?_⟩
      intro hbft a ha
      exact hne a (atroposSpec_complete hg hv hfa hbft ha)
    cases hc : s.atroposSpec (s.ldf + 1) with
    | undecided => exact stop (fun a h => by rw [hc] at h; cases h)
    | allNo => exact stop (fun a h => by rw [hc] at h; cases h)
    | atropos a =>
      have hat := atroposSpec_sound hg hv hfa hc
      have halt : a < s.size := by
        obtain ⟨_, _, _, _, hroot, _⟩ := hat
        have := hroot.1
        rwa [length_netOf] at this
      obtain ⟨n, c, bs, h1, h2, h3, h4⟩ := ih (advance s a) (out ++ [mkBlock s a]) (good_with hg _ _) hv hfa
      refine ⟨n + 1, c, mkBlock s a :: bs, ?_, by rw [List.length_cons, h2], ?_, ?_⟩
      · show decideLoop [] fuel (advance s a) (out ++ [mkBlock s a]) = _
        rw [h1, List.append_assoc]
        show (({ s with ldf := s.ldf + 1 + n, confirmed := c } : Inst), _) = _
        rw [Nat.add_assoc, Nat.add_comm 1 n]
        rfl
      · exact ⟨⟨rfl, rfl, rfl, a, halt, rfl, hat, rfl⟩, blocksFrom_congr (blockOK_advance s a) _ _ h3⟩
      · rcases h4 with h4 | h4
        · exact Or.inl (by omega)
        · refine Or.inr (fun hbft b => ?_)
          have := h4 hbft b
          rw [show s.ldf + (n + 1) + 1 = s.ldf + 1 + n + 1 by omega]
          exact this

/-! ### `insert` grows the net -/

section ins
variable {s s1 : Inst} {e : Ev}

/-- `insert` leaves the bookkeeping fields alone -/
theorem meta_insert (h : s.insert e = some s1) :
    s1.ldf = s.ldf ∧ s1.confirmed = s.confirmed ∧ s1.epoch = s.epoch := by
  unfold Inst.insert at h
  simp only [] at h
  split at h
  · cases h
  · split at h
    · cases h
    · injection h with h
      subst h
      exact ⟨rfl, rfl, rfl⟩

theorem vals_insert (h : s.insert e = some s1) : s1.vals = s.vals := by
  obtain ⟨_, _, _, hvals, _⟩ := insert_some h
  exact hvals

theorem idOf_insert (h : s.insert e = some s1) : s1.idOf = s.idOf := by
  funext v; unfold Inst.idOf; rw [vals_insert h]

theorem weightIdx_insert (h : s.insert e = some s1) : s1.weightIdx = s.weightIdx := by
  funext v; unfold Inst.weightIdx; rw [vals_insert h]

/-- the net after an insert extends the net before -/
theorem extends_insert (hi : Inv s) (h : s.insert e = some s1) : Extends (netOf s) (netOf s1) :=
  { hist := ⟨[newEv s e], histOf_insert h hi.pok⟩
    nVals := nv_insert h
    w := weightIdx_insert h
    fr := fun i hi' => by
      rw [length_netOf] at hi'
      show (s1.ev i).frame = (s.ev i).frame
      rw [ev_insert_old h hi'] }

theorem valid_insert (hi : Inv s) (hv : Valid s.nv (histOf s)) (hge : GoodEv s e) (h : s.insert e = some s1) :
    Valid s1.nv (histOf s1) := by
  rw [histOf_insert h hi.pok, nv_insert h]
  exact Valid.snoc hv (validNext_insert hi h hge)

/-- a block of the rules stays one after an insert -/
theorem blockOK_insert (hg : Good s) (hv1 : Valid s1.nv (histOf s1)) (h : s.insert e = some s1) (f : Nat)
    (b : Block) (hb : BlockOK s f b) : BlockOK s1 f b := by
  obtain ⟨h1, h2, h3, a, ha, h4, h5, h6⟩ := hb
  refine ⟨h1, by rw [h2, (meta_insert h).2.2], h3, a, by rw [size_insert h]; omega,
    by rw [h4, ev_insert_old h ha], (extends_insert hg.inv h).isAtropos_mono hv1 h5, ?_⟩
  rw [h6, nv_insert h, idOf_insert h,
    forksOf_insert_old h (by rw [hg.inv.forks_size]; exact ha) hg.inv.forks_size]

/-- a checked event with seq > 1 has parents, and its self-parent's frame is ≥ 1 -/
theorem spf_pos_insert (hg : Good s) (hv : Valid s.nv (histOf s)) (hfa : (netOf s).FramesAccepted)
    (hge : GoodEv s e) (h : s.insert e = some s1) (hseq : 1 < e.seq) :
    e.parents ≠ [] ∧ 1 ≤ s1.selfParentFrame e := by
  have hg1 := good_insert hg h
  have hlt : s.size < s1.size := by rw [size_insert h]; omega
  have hev := ev_insert_new h
  obtain ⟨sp, ps, hpar, _, _, _⟩ := hge.self hseq
  have hne : e.parents ≠ [] := by
    intro h0; rw [parentPos_nil s e h0] at hpar; cases hpar
  refine ⟨hne, ?_⟩
  have hspl : sp < s.size := parentPos_lt (by rw [hpar]; exact List.mem_cons_self)
  have hps : ((netOf s1).h.ev s.size).parents = sp :: ps := by
    rw [parents_netOf s1 hlt, hev]
    obtain ⟨_, _, hok, _⟩ := insert_some h
    rw [parentPos_insert h hok, hpar]
  have hsq : 1 < ((netOf s1).h.ev s.size).seq := by rw [seq_netOf s1 hlt, hev]; exact hseq
  have h1 := (netOf s1).spf_eq hsq hps
  rw [spf_netOf hg1.inv hlt, hev] at h1
  rw [h1]
  show 1 ≤ (s1.ev sp).frame
  rw [ev_insert_old h hspl]
  exact OrdererProofs.fr_pos hv hfa sp (by rw [length_netOf]; exact hspl)

/-- the new event passes the frame check iff its claimed frame obeys the frame rule; then all
    frames of the grown net are accepted -/
theorem framesAccepted_insert (hg : Good s) (hv : Valid s.nv (histOf s)) (hfa : (netOf s).FramesAccepted)
    (hge : GoodEv s e) (h : s.insert e = some s1) :
    (s1.allowed s.size = true ↔ (netOf s1).Allowed s.size e.frame) ∧
    (s1.allowed s.size = true → (netOf s1).FramesAccepted) := by
  have hg1 := good_insert hg h
  have hv1 := valid_insert hg.inv hv hge h
  have E := extends_insert hg.inv h
  have hlt : s.size < s1.size := by rw [size_insert h]; omega
  have hev := ev_insert_new h
  have hiff : s1.allowed s.size = true ↔ (netOf s1).Allowed s.size e.frame := by
    have := allowed_iff hg1 hlt (by rw [hev]; exact spf_pos_insert hg hv hfa hge h)
    rw [hev] at this
    exact this
  refine ⟨hiff, fun hal i hi => ?_⟩
  rw [length_netOf, size_insert h] at hi
  by_cases hil : i < s.size
  · have hil' : i < (netOf s).h.length := by rw [length_netOf]; exact hil
    rw [E.fr i hil']
    exact (E.allowed_iff hv1 hil' _).2 (hfa i hil')
  · have : i = s.size := by omega
    subst this
    have := hiff.1 hal
    rw [← hev] at this
    exact this

end ins

/-! ### `process` -/

theorem process_eq (seals : Seals) (s : Inst) (e : Ev) : process seals s e =
    if e.epoch != s.epoch then (s, .skip) else
    match s.insert e with
    | none => (s, .noParent)
    | some s1 =>
      if !s1.allowed s.size then (s, .wrongFrame) else
      ((decideLoop seals (s1.size + 2) s1 []).1, .ok (decideLoop seals (s1.size + 2) s1 []).2) := rfl

/-- an accepted event: same epoch, parents and creator known, frame allowed; then `decideLoop` -/
theorem process_ok {seals : Seals} {s s' : Inst} {e : Ev} {bs : List Block}
    (h : process seals s e = (s', .ok bs)) :
    ∃ s1, e.epoch = s.epoch ∧ s.insert e = some s1 ∧ s1.allowed s.size = true ∧
      decideLoop seals (s1.size + 2) s1 [] = (s', bs) := by
  rw [process_eq] at h
  by_cases hep : (e.epoch != s.epoch) = true
  · rw [if_pos hep] at h; cases h
  · rw [if_neg hep] at h
    cases hins : s.insert e with
    | none => rw [hins] at h; cases h
    | some s1 =>
      rw [hins] at h
      simp only [] at h
      by_cases hal : (!s1.allowed s.size) = true
      · rw [if_pos hal] at h; cases h
      · rw [if_neg hal] at h
        injection h with h1 h2
        injection h2 with h2
        refine ⟨s1, by simpa using hep, rfl, by simpa using hal, ?_⟩
        rw [← h1, ← h2]

/-- `process` accepts an event of the current epoch that `insert` can place exactly when its claimed
    frame passes `allowed`; otherwise it answers "wrong frame" and leaves the instance alone -/
theorem process_accepts_iff (seals : Seals) {s s1 : Inst} {e : Ev} (hep : e.epoch = s.epoch)
    (hins : s.insert e = some s1) :
    ((∃ s' bs, process seals s e = (s', .ok bs)) ↔ s1.allowed s.size = true) ∧
    (process seals s e = (s, .wrongFrame) ↔ s1.allowed s.size = false) := by
  rw [process_eq, if_neg (by simpa using hep), hins]
  simp only []
  by_cases hal : s1.allowed s.size = true
  · rw [if_neg (by simpa using hal)]
    refine ⟨⟨fun _ => hal, fun _ => ⟨_, _, rfl⟩⟩, ⟨fun h => ?_, fun h => ?_⟩⟩
    · injection h with _ h2; cases h2
    · rw [hal] at h; cases h
  · have hal' : s1.allowed s.size = false := by simpa using hal
    rw [if_pos (by simpa using hal')]
    refine ⟨⟨?_, fun h => absurd h hal⟩, ⟨fun _ => hal', fun _ => rfl⟩⟩
    rintro ⟨s', bs, h⟩
    injection h with _ h2
    cases h2

/-! ### whole runs of the reference (one epoch, no seals) -/

/-- `Run ep vals evs s out`: the reference, started as `start ep vals` (= `Inst.fresh`), has accepted
    the events `evs` in this order through `process` without seals — every event checked (`GoodEv`,
    what the event checkers guarantee) — and is in state `s`, having emitted the blocks `out`.
    (Events answered `skip` / `noParent` / `wrongFrame` leave the state alone and are not listed.) -/
inductive Run (ep : Nat) (vals : List (Nat × Nat)) : List Ev → Inst → List Block → Prop
  | nil : Run ep vals [] (start ep vals) []
  | snoc {evs s out e s' bs} : Run ep vals evs s out → GoodEv s e → process [] s e = (s', .ok bs) →
      Run ep vals (evs ++ [e]) s' (out ++ bs)

/-- what holds after every accepted event -/
structure RunInv (s : Inst) (out : List Block) : Prop where
  good : Good s
  valid : Valid s.nv (histOf s)
  fa : (netOf s).FramesAccepted
  ldf : s.ldf = out.length
  blocks : BlocksFrom s 0 out
  stop : (netOf s).BFT → ∀ a, ¬ (netOf s).IsAtropos (out.length + 1) a

theorem runInv_start (ep : Nat) (vals : List (Nat × Nat)) : RunInv (start ep vals) [] :=
  { good := good_start ep vals
    valid := Valid.nil
    fa := fun e he => absurd he (Nat.not_lt_zero _)
    ldf := rfl
    blocks := trivial
    stop := fun _ a ha => by
      obtain ⟨_, _, _, _, hroot, _⟩ := ha
      exact absurd hroot.1 (Nat.not_lt_zero _) }

/-- one accepted event -/
theorem runInv_step {s s' : Inst} {out bs : List Block} {e : Ev} (I : RunInv s out) (hge : GoodEv s e)
    (h : process [] s e = (s', .ok bs)) : RunInv s' (out ++ bs) := by
  obtain ⟨s1, _, hins, hal, hdl⟩ := process_ok h
  have hg1 := good_insert I.good hins
  have hv1 := valid_insert I.good.inv I.valid hge hins
  have hfa1 := (framesAccepted_insert I.good I.valid I.fa hge hins).2 hal
  obtain ⟨n, c, bs', h1, h2, h3, h4⟩ := decideLoop_spec (s1.size + 2) s1 [] hg1 hv1 hfa1
  subst h2
  rw [hdl, List.nil_append] at h1
  injection h1 with h1a h1b
  subst h1a h1b
  have hldf1 : s1.ldf = out.length := by rw [(meta_insert hins).1]; exact I.ldf
  have hold : BlocksFrom s1 0 out := blocksFrom_congr (blockOK_insert I.good hv1 hins) 0 out I.blocks
  refine { good := good_with hg1 _ _, valid := hv1, fa := hfa1, ldf := ?_, blocks := ?_, stop := ?_ }
  · show s1.ldf + bs.length = (out ++ bs).length
    rw [List.length_append, hldf1]
  · have hb : BlocksFrom s1 0 (out ++ bs) := by
      rw [blocksFrom_append, Nat.zero_add, ← hldf1]
      exact ⟨hold, h3⟩
    exact blocksFrom_congr (s := s1) (s' := { s1 with ldf := s1.ldf + bs.length, confirmed := c }) (fun _ _ h => h) 0 _ hb
  · intro hbft a
    show ¬ (netOf s1).IsAtropos ((out ++ bs).length + 1) a
    rw [List.length_append, ← hldf1]
    rcases h4 with h4 | h4
    · -- the fuel cannot run out: the last block's frame is two below the number of events
      exfalso
      have hlast := blocksFrom_get s1 s1.ldf bs h3 (bs.length - 1) (by omega)
      obtain ⟨_, _, _, a', _, _, hat, _⟩ := hlast
      have := (netOf s1).isAtropos_bound hv1 hfa1 hat
      rw [length_netOf] at this
      omega
    · exact h4 hbft a

theorem run_inv {ep : Nat} {vals : List (Nat × Nat)} {evs : List Ev} {s : Inst} {out : List Block}
    (h : Run ep vals evs s out) : RunInv s out := by
  induction h with
  | nil => exact runInv_start ep vals
  | snoc _ hge hp ih => exact runInv_step ih hge hp

theorem decideLoop_evs : ∀ (fuel : Nat) (s : Inst) (out : List Block),
    (decideLoop [] fuel s out).1.evs = s.evs := by
  intro fuel
  induction fuel with
  | zero => intro s out; rfl
  | succ fuel ih =>
    intro s out
    rw [decideLoop_succ]
    cases s.atroposSpec (s.ldf + 1) with
    | undecided => rfl
    | allNo => rfl
    | atropos a => exact ih (advance s a) _

/-- the accepted events are the events of the instance, in order -/
theorem run_evs {ep : Nat} {vals : List (Nat × Nat)} {evs : List Ev} {s : Inst} {out : List Block}
    (h : Run ep vals evs s out) : s.evs.toList = evs := by
  induction h with
  | nil => rfl
  | snoc _ _ hp ih =>
    obtain ⟨s1, _, hins, _, hdl⟩ := process_ok hp
    obtain ⟨_, _, _, _, hevs, _⟩ := insert_some hins
    have := decideLoop_evs (s1.size + 2) s1 []
    rw [hdl] at this
    rw [this, hevs, Array.toList_push, ih]

theorem decideLoop_vals : ∀ (fuel : Nat) (s : Inst) (out : List Block),
    (decideLoop [] fuel s out).1.vals = s.vals := by
  intro fuel
  induction fuel with
  | zero => intro s out; rfl
  | succ fuel ih =>
    intro s out
    rw [decideLoop_succ]
    cases s.atroposSpec (s.ldf + 1) with
    | undecided => rfl
    | allNo => rfl
    | atropos a => exact ih (advance s a) _

/-- the validators never change within a run -/
theorem run_vals {ep : Nat} {vals : List (Nat × Nat)} {evs : List Ev} {s : Inst} {out : List Block}
    (h : Run ep vals evs s out) : s.vals = vals := by
  induction h with
  | nil => rfl
  | snoc _ _ hp ih =>
    obtain ⟨s1, _, hins, _, hdl⟩ := process_ok hp
    have := decideLoop_vals (s1.size + 2) s1 []
    rw [hdl] at this
    rw [this, vals_insert hins, ih]

end RefEquiv
