import LachesisVerif.Proofs.OrdererSeal
import LachesisVerif.Proofs.RestartEquiv
/-!
Helper lemmas for C08 (restart), part 1: the persisted / volatile split of `Model.Orderer.OState`,
the synchronisation invariant between `LastDecidedFrame` and the election's frame to decide, and the
loop of `processKnownRoots` as one `runRoots` over the roots table in table order.
-/
namespace OrdererRestart
open Model.Pos Model.Election Model.Orderer ElectionProofs ElectionRefine OrdererSeal

/-- the part of the state that lives in the main / epoch databases -/
structure SamePersisted (s s' : OState) : Prop where
  epoch : s'.epoch = s.epoch
  vals : s'.vals = s.vals
  ldf : s'.ldf = s.ldf
  roots : s'.roots = s.roots

theorem SamePersisted.refl (s : OState) : SamePersisted s s := ⟨rfl, rfl, rfl, rfl⟩
theorem SamePersisted.trans {a b c : OState} (h1 : SamePersisted a b) (h2 : SamePersisted b c) : SamePersisted a c :=
  ⟨h2.epoch.trans h1.epoch, h2.vals.trans h1.vals, h2.ldf.trans h1.ldf, h2.roots.trans h1.roots⟩

/-- `bootstrapElection` only appends to the list of decided frames, and if it appends nothing it has
    changed nothing but the election -/
theorem bootstrapElection_out (env : Env) (fuel : Nat) (s : OState) (out : List Decided)
    (s' : OState) (out' : List Decided) (flag : Bool)
    (h : bootstrapElection env fuel s out = .ok (s', out', flag)) :
    ∃ more, out' = out ++ more ∧ (more = [] → SamePersisted s s' ∧ flag = false) := by
  induction fuel generalizing s out with
  | zero => simp only [bootstrapElection] at h; cases h; exact ⟨[], by simp, fun _ => ⟨.refl _, rfl⟩⟩
  | succ k ih =>
    simp only [bootstrapElection] at h
    cases hp : processKnownRoots env s (s.roots.length + 2) (Gen.Orderer.knownRootsFirstFrame s.ldf) s.el with
    | error x => rw [hp] at h; cases h
    | ok p =>
      obtain ⟨el', r⟩ := p
      rw [hp] at h
      cases r with
      | none => simp only at h; cases h; exact ⟨[], by simp, fun _ => ⟨⟨rfl, rfl, rfl, rfl⟩, rfl⟩⟩
      | some q =>
        obtain ⟨frame, atropos⟩ := q
        simp only at h
        split at h
        · cases h; exact ⟨[_], rfl, fun hc => by cases hc⟩
        · obtain ⟨more, hm, _⟩ := ih _ _ h
          exact ⟨[_] ++ more, by rw [hm, List.append_assoc], fun hc => by cases hc⟩

/-- `LastDecidedFrame` and the election agree: the election decides the frame after the last decided
    one (what `Bootstrap` re-creates), over the current validators -/
structure Sync (s : OState) : Prop where
  ftd : s.el.frameToDecide = Gen.Orderer.bootstrapFrameToDecide s.ldf
  vals : s.el.vals = s.vals

theorem sync_initial (epoch : Nat) (vals : Vals) : Sync (initial epoch vals) :=
  ⟨(by show Gen.Orderer.sealedFrameToDecide = Gen.Orderer.bootstrapFrameToDecide Gen.Orderer.sealedLastDecided; decide), rfl⟩

theorem sync_onFrameDecided (env : Env) (s : OState) (frame atropos : Nat) :
    Sync (onFrameDecided env s frame atropos).1 := by
  rcases onFrameDecided_cases env s frame atropos with ⟨nv, _, he⟩ | ⟨_, he⟩
  · rw [he]; exact sync_initial _ _
  · rw [he]; exact ⟨rfl, rfl⟩

theorem Sync.with_el {s : OState} (h : Sync s) (el' : Election) (h1 : el'.frameToDecide = s.el.frameToDecide)
    (h2 : el'.vals = s.el.vals) : Sync { s with el := el' } := ⟨h1.trans h.ftd, h2.trans h.vals⟩

theorem sync_bootstrapElection (env : Env) (fuel : Nat) (s : OState) (out : List Decided)
    (s' : OState) (out' : List Decided) (flag : Bool) (hs : Sync s)
    (h : bootstrapElection env fuel s out = .ok (s', out', flag)) : Sync s' := by
  induction fuel generalizing s out with
  | zero => simp only [bootstrapElection] at h; cases h; exact hs
  | succ k ih =>
    simp only [bootstrapElection] at h
    cases hp : processKnownRoots env s (s.roots.length + 2) (Gen.Orderer.knownRootsFirstFrame s.ldf) s.el with
    | error x => rw [hp] at h; cases h
    | ok p =>
      obtain ⟨el', r⟩ := p
      rw [hp] at h
      have h1 := processKnownRoots_ftd _ _ _ _ _ _ _ hp
      cases r with
      | none => simp only at h; cases h; exact hs.with_el el' h1.1 h1.2.1
      | some q =>
        obtain ⟨frame, atropos⟩ := q
        simp only at h
        split at h
        · cases h; exact sync_onFrameDecided _ _ _ _
        · exact ih _ _ (sync_onFrameDecided _ _ _ _) h

theorem sync_handleElection (env : Env) (id creator frame : Nat) (fuel f : Nat) (s : OState) (out : List Decided)
    (s' : OState) (out' : List Decided) (hs : Sync s)
    (h : handleElection env id creator frame fuel f s out = .ok (s', out')) : Sync s' := by
  induction fuel generalizing f s out with
  | zero => simp only [handleElection] at h; cases h; exact hs
  | succ k ih =>
    simp only [handleElection] at h
    split at h
    · cases h; exact hs
    · cases hp : processRoot env.observe (frameRoots s) s.el ⟨id, f, creator⟩ with
      | error x => rw [hp] at h; cases h
      | ok p =>
        obtain ⟨el', r⟩ := p
        rw [hp] at h
        have h1 := processRoot_ftd _ _ _ _ _ _ hp
        cases r with
        | none => simp only at h; exact ih _ _ _ (hs.with_el el' h1.1 h1.2.1) h
        | some q =>
          obtain ⟨df, atropos⟩ := q
          simp only at h
          split at h
          · cases h; exact sync_onFrameDecided _ _ _ _
          · split at h
            · cases h
            · rename_i s2 out2 sealed hb
              have hs2 := sync_bootstrapElection env _ _ _ _ _ _ (sync_onFrameDecided _ _ _ _) hb
              split at h
              · cases h; exact hs2
              · exact ih _ _ _ hs2 h

/-- `Sync` is an invariant of `Process` -/
theorem sync_process (env : Env) (s : OState) (id creator spf claimed : Nat) (hs : Sync s) :
    Sync (process env s id creator spf claimed).1 := by
  unfold process
  split
  · exact hs
  · simp only
    split
    · exact hs
    · rename_i s2 out2 hh
      have hf := insertRoots_fields env id creator (rootFrames spf claimed) s
      obtain ⟨_, h2, h3, h4⟩ := hf
      exact sync_handleElection env _ _ _ _ _ _ _ _ _ ⟨by rw [h4, h3]; exact hs.ftd, by rw [h4, h2]; exact hs.vals⟩ hh

/-! ### `processKnownRoots` is one `runRoots` over the table, frame by frame -/

/-- `Store.GetFrameRoots` as a function of the table -/
def framesOf (roots : List Root) (f : Nat) : List Root := roots.filter (fun r => r.frame == f)

theorem frameRoots_eq (s : OState) : frameRoots s = framesOf s.roots := rfl

/-- the roots `processKnownRoots` feeds: frames `f, f+1, …` in table order, up to the first empty frame -/
def knownList (roots : List Root) : Nat → Nat → List Root
  | 0, _ => []
  | fuel + 1, f => if (framesOf roots f).length = 0 then [] else framesOf roots f ++ knownList roots fuel (f + 1)

theorem processKnownRoots_eq (env : Env) (s : OState) (fuel f : Nat) (el : Election) :
    processKnownRoots env s fuel f el = runRoots env.observe (frameRoots s) el (knownList s.roots fuel f) := by
  induction fuel generalizing f el with
  | zero => rfl
  | succ k ih =>
    simp only [processKnownRoots, knownList, knownRootsFrame_eq]
    show _ = runRoots env.observe (frameRoots s) el
      (if (frameRoots s f).length = 0 then [] else frameRoots s f ++ knownList s.roots k (f + 1))
    by_cases he : (frameRoots s f).length = 0
    · rw [if_pos he]
      have : frameRoots s f = [] := List.eq_nil_of_length_eq_zero he
      rw [this]
      simp [runRoots, Gen.Orderer.knownRootsStop]
    · rw [if_neg he, runRoots_append]
      cases runRoots env.observe (frameRoots s) el (frameRoots s f) with
      | error x => rfl
      | ok p =>
        obtain ⟨el', r⟩ := p
        cases r with
        | some q => rfl
        | none =>
          simp only [Gen.Orderer.knownRootsStop, he, decide_false, Bool.false_eq_true, if_false]
          exact ih (f + 1) el'

theorem bootstrapElection_of_run_none (env : Env) (fuel : Nat) (s0 : OState) (out : List Decided) (el' : Election)
    (h : runRoots env.observe (frameRoots s0) s0.el
      (knownList s0.roots (s0.roots.length + 2) (Gen.Orderer.knownRootsFirstFrame s0.ldf)) = .ok (el', none)) :
    bootstrapElection env (fuel + 1) s0 out = .ok ({ s0 with el := el' }, out, false) := by
  simp only [bootstrapElection]
  rw [processKnownRoots_eq, h]

/-- a restart that finds nothing to decide: only the election is rebuilt -/
theorem bootstrap_of_run_none (env : Env) (s : OState) (el' : Election)
    (h : runRoots env.observe (frameRoots s) (reset s.vals (Gen.Orderer.bootstrapFrameToDecide s.ldf))
      (knownList s.roots (s.roots.length + 2) (Gen.Orderer.knownRootsFirstFrame s.ldf)) = .ok (el', none)) :
    bootstrap env s = .ok ({ s with el := el' }, [], false) :=
  bootstrapElection_of_run_none env (s.roots.length + 1)
    { s with el := reset s.vals (Gen.Orderer.bootstrapFrameToDecide s.ldf) } [] el' h

theorem pairwise_of_mem {α : Type} {R : α → α → Prop} : ∀ (l : List α), (∀ a ∈ l, ∀ b ∈ l, R a b) → l.Pairwise R
  | [], _ => List.Pairwise.nil
  | x :: xs, h => List.pairwise_cons.2
      ⟨fun b hb => h x List.mem_cons_self b (List.mem_cons_of_mem _ hb),
       pairwise_of_mem xs (fun a ha b hb => h a (List.mem_cons_of_mem _ ha) b (List.mem_cons_of_mem _ hb))⟩

theorem mem_framesOf (roots : List Root) (g : Nat) (r : Root) : r ∈ framesOf roots g ↔ (r ∈ roots ∧ r.frame = g) := by
  unfold framesOf; rw [List.mem_filter]; simp

/-- membership in the fed list: roots of the frames reached, i.e. without an empty frame before them -/
theorem mem_knownList (roots : List Root) (fuel : Nat) : ∀ (f0 : Nat) (r : Root),
    r ∈ knownList roots fuel f0 ↔
      (r ∈ roots ∧ f0 ≤ r.frame ∧ r.frame < f0 + fuel ∧ ∀ g, f0 ≤ g → g ≤ r.frame → framesOf roots g ≠ []) := by
  induction fuel with
  | zero => intro f0 r; simp only [knownList]; constructor
            · intro h; cases h
            · rintro ⟨_, h1, h2, _⟩; omega
  | succ k ih =>
    intro f0 r
    simp only [knownList]
    by_cases he : (framesOf roots f0).length = 0
    · rw [if_pos he]
      have hnil : framesOf roots f0 = [] := List.eq_nil_of_length_eq_zero he
      constructor
      · intro h; cases h
      · rintro ⟨_, h1, _, h3⟩; exact absurd hnil (h3 f0 (Nat.le_refl _) h1)
    · rw [if_neg he, List.mem_append, ih (f0 + 1) r, mem_framesOf]
      have hne : framesOf roots f0 ≠ [] := fun h => he (by rw [h]; rfl)
      constructor
      · rintro (⟨h1, h2⟩ | ⟨h1, h2, h3, h4⟩)
        · refine ⟨h1, by omega, by omega, fun g hg1 hg2 => ?_⟩
          have : g = f0 := by omega
          rw [this]; exact hne
        · refine ⟨h1, by omega, by omega, fun g hg1 hg2 => ?_⟩
          by_cases hg : g = f0
          · rw [hg]; exact hne
          · exact h4 g (by omega) hg2
      · rintro ⟨h1, h2, h3, h4⟩
        by_cases hf : r.frame = f0
        · exact Or.inl ⟨h1, hf⟩
        · exact Or.inr ⟨h1, by omega, by omega, fun g hg1 hg2 => h4 g (by omega) hg2⟩

theorem knownList_pairwise (roots : List Root) (fuel : Nat) : ∀ f0,
    (knownList roots fuel f0).Pairwise (fun a b => a.frame ≤ b.frame) := by
  induction fuel with
  | zero => intro f0; exact List.Pairwise.nil
  | succ k ih =>
    intro f0
    simp only [knownList]
    split
    · exact List.Pairwise.nil
    · rw [List.pairwise_append]
      refine ⟨?_, ih (f0 + 1), ?_⟩
      · apply pairwise_of_mem
        intro a ha b hb
        rw [((mem_framesOf roots f0 a).1 ha).2, ((mem_framesOf roots f0 b).1 hb).2]
        exact Nat.le_refl _
      · intro a ha b hb
        have h1 := ((mem_framesOf roots f0 a).1 ha).2
        have h2 := ((mem_knownList roots k (f0 + 1) b).1 hb).2.1
        omega

/-- no frame without roots below a frame with roots (from `f0` on) -/
def Contiguous (roots : List Root) (f0 : Nat) : Prop :=
  ∀ r ∈ roots, f0 ≤ r.frame → ∀ g, f0 ≤ g → g ≤ r.frame → framesOf roots g ≠ []

theorem knownList_closed (observe : Nat → Nat → Bool) (roots : List Root) (fuel f0 : Nat)
    (hb : ∀ r ∈ roots, r.frame < 4294967296) :
    FeedClosed observe (framesOf roots) f0 [] (knownList roots fuel f0) := by
  apply feedClosed_of_ascending observe (framesOf roots) f0
    (fun g p hp => ((mem_framesOf roots g p).1 hp).2) _ [] (knownList_pairwise roots fuel f0)
  intro r hr
  obtain ⟨h1, h2, h3, h4⟩ := (mem_knownList roots fuel f0 r).1 hr
  refine ⟨(mem_framesOf roots _ r).2 ⟨h1, rfl⟩, hb r h1, fun p hp hfp => Or.inr ?_⟩
  obtain ⟨hp1, hp2⟩ := (mem_framesOf roots _ p).1 hp
  exact (mem_knownList roots fuel f0 p).2 ⟨hp1, by omega, by omega, fun g hg1 hg2 => h4 g hg1 (by omega)⟩

/-- frames `f0 … m` all non-empty: the table has at least that many roots -/
theorem frames_count (roots : List Root) (f0 m : Nat) (h : ∀ g, f0 ≤ g → g ≤ m → framesOf roots g ≠ []) :
    m + 1 - f0 ≤ roots.length := by
  have hsub : ∀ g ∈ List.range' f0 (m + 1 - f0), g ∈ roots.map (·.frame) := by
    intro g hg
    rw [List.mem_range'_1] at hg
    have hne := h g hg.1 (by omega)
    obtain ⟨r, hr⟩ := List.exists_mem_of_ne_nil _ hne
    obtain ⟨hr1, hr2⟩ := (mem_framesOf roots g r).1 hr
    exact List.mem_map.2 ⟨r, hr1, hr2⟩
  have := List.Nodup.length_le_of_subset (List.nodup_range' (s := f0) (n := m + 1 - f0) (step := 1)) hsub
  rwa [List.length_range', List.length_map] at this

theorem knownList_covers (roots : List Root) (f0 : Nat) (hc : Contiguous roots f0) :
    ∀ r ∈ roots, f0 ≤ r.frame → r ∈ knownList roots (roots.length + 2) f0 := by
  intro r hr hfr
  have hcont := hc r hr hfr
  have := frames_count roots f0 r.frame hcont
  exact (mem_knownList roots _ f0 r).2 ⟨hr, hfr, by omega, hcont⟩

/-- L5 for the running instance, as a hypothesis: its election is the result of feeding, from `reset`,
    a closed feed `rs` (the arrival order) made of exactly the known roots above the frame to decide;
    nothing was returned (everything decidable has been decided). -/
structure RunningFeed (env : Env) (s : OState) (rs : List Root) : Prop where
  closed : FeedClosed env.observe (frameRoots s) s.el.frameToDecide [] rs
  run : runRoots env.observe (frameRoots s) (reset s.vals s.el.frameToDecide) rs = .ok (s.el, none)
  known : ∀ r ∈ rs, r ∈ s.roots
  covers : ∀ r ∈ s.roots, s.el.frameToDecide < r.frame → r ∈ rs

/-- the feed of a restart -/
def restartFeed (s : OState) : List Root :=
  knownList s.roots (s.roots.length + 2) (Gen.Orderer.knownRootsFirstFrame s.ldf)

theorem restart_election_equiv (N : ElectionRules.Net) (env : Env) (s : OState) (rs : List Root)
    (hsync : Sync s) (S : Setup N s.vals s.el.frameToDecide env.observe (frameRoots s)) (hpos : 0 < N.nVals)
    (hrun : RunningFeed env s rs) (hcont : Contiguous s.roots s.el.frameToDecide)
    (hb : ∀ r ∈ s.roots, r.frame < 4294967296) :
    ∃ el₂, bootstrap env s = .ok ({ s with el := el₂ }, [], false) ∧
      runRoots env.observe (frameRoots s) (reset s.vals s.el.frameToDecide) (restartFeed s) = .ok (el₂, none) ∧
      FeedClosed env.observe (frameRoots s) s.el.frameToDecide [] (restartFeed s) ∧
      (∀ r ∈ rs, s.el.frameToDecide < r.frame → r ∈ restartFeed s) ∧
      (∀ r ∈ restartFeed s, s.el.frameToDecide < r.frame → r ∈ rs) ∧
      ElEquiv N s.el.frameToDecide rs.reverse s.el el₂ := by
  have hf0 : Gen.Orderer.knownRootsFirstFrame s.ldf = s.el.frameToDecide := hsync.ftd.symm
  have hclosed₂ : FeedClosed env.observe (frameRoots s) s.el.frameToDecide [] (restartFeed s) := by
    unfold restartFeed; rw [hf0]
    exact knownList_closed env.observe s.roots _ _ hb
  have h12 : ∀ r ∈ rs, s.el.frameToDecide < r.frame → r ∈ restartFeed s := by
    intro r hr hfr
    unfold restartFeed; rw [hf0]
    exact knownList_covers s.roots _ hcont r (hrun.known r hr) (by omega)
  have h21 : ∀ r ∈ restartFeed s, s.el.frameToDecide < r.frame → r ∈ rs := by
    intro r hr hfr
    unfold restartFeed at hr
    exact hrun.covers r ((mem_knownList _ _ _ r).1 hr).1 hfr
  obtain ⟨el₂, h₂, heq⟩ := restart_equiv_core S hpos rs (restartFeed s) hrun.closed hclosed₂ h12 h21 s.el none hrun.run
  refine ⟨el₂, ?_, h₂, hclosed₂, h12, h21, heq rfl⟩
  apply bootstrap_of_run_none
  rw [← hsync.ftd]; exact h₂

end OrdererRestart
