import LachesisVerif.Proofs.ProcessorInv
import LachesisVerif.Proofs.BufferRel
import LachesisVerif.Proofs.BufferCount
/-! C15: every handled event is reported released as many times as it was handled, once `Stop` has
    cleared the buffer (and never more often before). -/
namespace C15
open Model.EventsBuffer Model.Processor C14

/-- number of `Released` callbacks for tag `tg` in a processor-level trace -/
def cRel (tg : Nat) : List PCb → Nat
  | [] => 0
  | .released t _ :: l => (if t = tg then 1 else 0) + cRel tg l
  | _ :: l => cRel tg l

theorem cRel_relTag (tg : Nat) (st : PSt) (tag sz e : Nat) :
    cRel tg (relTag st tag sz e).trace = (if tag = tg then 1 else 0) + cRel tg st.trace := by
  unfold relTag
  show cRel tg (.released tag e :: ((if (st.sem.release sz).2 then [PCb.warn] else []) ++ st.trace)) = _
  cases (st.sem.release sz).2 <;> rfl

theorem tagRel_append (recs : Nat → Rec) (tg : Nat) : ∀ a b : List Cb, tagRel recs tg (a ++ b) = tagRel recs tg a + tagRel recs tg b := by
  intro a b
  induction a with
  | nil => simp [tagRel]
  | cons x a ih => cases x <;> simp only [List.cons_append, tagRel, ih] <;> omega

theorem tagRel_reverse (recs : Nat → Rec) (tg : Nat) : ∀ l : List Cb, tagRel recs tg l.reverse = tagRel recs tg l := by
  intro l
  induction l with
  | nil => rfl
  | cons x l ih =>
    rw [List.reverse_cons, tagRel_append, ih]
    cases x <;> simp [tagRel] <;> omega

theorem absorb_cRel (recs : Nat → Rec) (tg : Nat) :
    ∀ l st, cRel tg (absorb recs l st).trace = cRel tg st.trace + tagRel recs tg l := by
  intro l
  induction l with
  | nil => intro st; rfl
  | cons x l ih =>
    intro st
    cases x with
    | check c ok => simp only [absorb, tagRel]; rw [ih]; rfl
    | process c ok => simp only [absorb, tagRel]; rw [ih]; rfl
    | released c e =>
      simp only [absorb, tagRel]
      rw [ih, cRel_relTag]; omega
    | connect id => simp only [absorb, tagRel]; rw [ih]

theorem relTag_handled (st : PSt) (tag sz e : Nat) : (relTag st tag sz e).handled = st.handled := rfl

theorem absorb_handled (recs : Nat → Rec) : ∀ l st, (absorb recs l st).handled = st.handled := by
  intro l
  induction l with
  | nil => intro st; rfl
  | cons x l ih =>
    intro st
    cases x with
    | check c ok => exact ih _
    | process c ok => exact ih _
    | released c e => exact (ih _).trans (relTag_handled st _ _ e)
    | connect id => exact ih _

theorem added_of_ext {old new : St} {d : List Cb} (h : new.trace = d ++ old.trace) : added old new = d.reverse := by
  unfold added
  rw [h, List.length_append, Nat.add_sub_cancel, List.take_left']
  rfl

/-- tags and the number of copies: preserved by every internal step -/
def TagsKept (s s' : St) : Prop := s'.n = s.n ∧ ∀ c, (s'.recs c).tag = (s.recs c).tag

theorem tagsKept_stepRel (O : Oracle) : StepRel O TagsKept where
  refl := fun s => ⟨rfl, fun _ => rfl⟩
  trans := fun a b c h1 h2 => ⟨h2.1.trans h1.1, fun x => (h2.2 x).trans (h1.2 x)⟩
  drop := fun s c e => ⟨by simp, by simp⟩
  release := fun s c => ⟨rfl, by simp⟩
  process := fun s c => ⟨(procRel_frame O s c).n_eq.symm ▸ by
      have := (procRel_frame O s c).n_eq
      simpa using this, fun x => by
      have := (procRel_frame O s c).tag_eq x
      simpa using this⟩
  inc := fun s I => ⟨rfl, fun _ => rfl⟩
  oof := fun s => ⟨rfl, fun _ => rfl⟩

theorem pushEvent_tags (O : Oracle) (ln ls : Nat) (st : St) (e : Ev) (tag : Nat) :
    (∀ c, c < st.n → ((pushEvent true O ln ls st e tag).1.recs c).tag = (st.recs c).tag) ∧
    ((pushEvent true O ln ls st e tag).1.recs st.n).tag = tag := by
  have h := tagsKept_stepRel O
  have key : TagsKept (withFresh st e tag) (pushEvent true O ln ls st e tag).1 := by
    unfold pushEvent
    split
    · exact h.trans _ _ _ (h.drop _ _ _) (h.release _ _)
    · exact h.trans _ _ _ (pushEv_rel h true _ _ _ _ _) (spill_rel h ln ls _ _)
  constructor
  · intro c hc
    rw [key.2 c]
    show (setRec st.recs st.n _ c).tag = _
    rw [setRec_other _ _ _ _ (Nat.ne_of_lt hc)]
  · rw [key.2 st.n]
    show (setRec st.recs st.n _ st.n).tag = _
    simp

theorem clear_tags (st : St) : TagsKept st (clear st) := spill_rel (tagsKept_stepRel Oracle.allOk) 0 0 _ _

/-- released as often as handled, minus what still waits in the buffer -/
def RelInv (init : List Nat) (cfg : Cfg) (st : PSt) : Prop :=
  BufInv init cfg st ∧ ∀ tg, cRel tg st.trace + unrelTag st.buf tg = st.handled.count tg

theorem sumTo_new (f : Nat → Nat) (n : Nat) (g : Nat → Prop) [DecidablePred g] (hg : ∀ c, c < n → ¬ g c) :
    sumTo (fun c => if g c then f c else 0) n = 0 := by
  induction n with
  | zero => rfl
  | succ n ih =>
    simp only [sumTo]
    rw [ih (fun c hc => hg c (Nat.lt_succ_of_lt hc))]
    simp [hg n (Nat.lt_succ_self n)]

theorem relInv_stable (init : List Nat) (cfg : Cfg) (O : Oracle) : Stable cfg O (RelInv init cfg) where
  handle := by
    intro st it e h
    obtain ⟨hb, hc⟩ := h
    have hb' := (bufInv_stable init cfg O).handle st it e hb
    refine ⟨hb', ?_⟩
    intro tg
    rw [handle_eq]
    split
    · -- rejected
      show cRel tg (relTag (mark st it) it.tag it.ev.size e).trace + unrelTag st.buf tg = (it.tag :: st.handled).count tg
      rw [cRel_relTag, List.count_cons]
      have := hc tg
      show _ + cRel tg st.trace + _ = _
      by_cases e1 : it.tag = tg <;> simp [e1] <;> omega
    · split
      · -- too far ahead
        show cRel tg (relTag (st1Of (mark st it)) it.tag it.ev.size errSpilled).trace + unrelTag st.buf tg =
          (it.tag :: st.handled).count tg
        rw [cRel_relTag, List.count_cons]
        have := hc tg
        show _ + cRel tg st.trace + _ = _
        by_cases e1 : it.tag = tg <;> simp [e1] <;> omega
      · -- pushed into the buffer
        have hbuf2 : (st2Of (mark st it) it).buf = st.buf := st2Of_buf (mark st it) it
        have htr2 : cRel tg (st2Of (mark st it) it).trace = cRel tg st.trace := by
          unfold st2Of st1Of mark
          split <;> rfl
        have hh2 : (st2Of (mark st it) it).handled = it.tag :: st.handled := by
          unfold st2Of st1Of mark
          split <;> rfl
        show cRel tg (absorb _ _ _).trace + unrelTag (absorb _ _ _).buf tg = (absorb _ _ _).handled.count tg
        rw [absorb_cRel, absorb_buf, absorb_handled]
        show cRel tg (st2Of (mark st it) it).trace + _ + unrelTag (pushEvent true O cfg.bufNum cfg.bufSize (st2Of (mark st it) it).buf it.ev it.tag).1 tg =
          (st2Of (mark st it) it).handled.count tg
        rw [htr2, hh2, hbuf2, List.count_cons]
        obtain ⟨d, hd⟩ := pushEvent_ext O cfg.bufNum cfg.bufSize st.buf it.ev it.tag
        rw [added_of_ext hd, tagRel_reverse]
        obtain ⟨pg, pn, _, _, _⟩ := pushEvent_post init O cfg.bufNum cfg.bufSize st.buf it.ev it.tag hb.1 hb.2
        obtain ⟨t1, t2⟩ := pushEvent_tags O cfg.bufNum cfg.bufSize st.buf it.ev it.tag
        have acc := released_accounting hb.1 pg d hd (by rw [pn]; omega) t1 tg
        rw [pn] at acc
        simp only [sumTo] at acc
        rw [sumTo_new (fun _ => 1) st.buf.n (fun c => st.buf.n ≤ c ∧ ((pushEvent true O cfg.bufNum cfg.bufSize st.buf it.ev it.tag).1.recs c).tag = tg)
          (fun c hc h => by omega)] at acc
        rw [t2] at acc
        have := hc tg
        by_cases e1 : it.tag = tg <;> simp [e1] at acc ⊢ <;> omega
  finish := by
    intro b st h
    obtain ⟨hb, hc⟩ := h
    refine ⟨(bufInv_stable init cfg O).finish b st hb, ?_⟩
    intro tg
    have := hc tg
    unfold finish
    split <;> exact this

theorem pstep_relInv (init : List Nat) (O : Oracle) (p : Proc) (op : POp) (h : RelInv init p.cfg p.st) :
    RelInv init (pstep O p op).cfg (pstep O p op).st := by
  rw [pstep_cfg]
  have hst := relInv_stable init p.cfg O
  cases op with
  | enq id o items =>
    unfold pstep enqueue
    by_cases hok : (p.st.sem.tryAcquire (items.length % 4294967296) (totalSize items)).2 = true
    · simp only [hok, Bool.not_true, Bool.false_eq_true, if_false]
      exact pump_pres hst _ _ h
    · have : (p.st.sem.tryAcquire (items.length % 4294967296) (totalSize items)).2 = false := by simpa using hok
      simp only [this, Bool.not_false, if_true]
      exact h
  | deliver id pos err =>
    unfold pstep deliver
    exact pump_pres hst _ _ h
  | stop =>
    obtain ⟨hb, hc⟩ := h
    have hb' := pstep_bufInv init O p POp.stop hb
    rw [pstep_cfg] at hb'
    refine ⟨hb', ?_⟩
    intro tg
    show cRel tg (absorb _ _ _).trace + unrelTag (absorb _ _ _).buf tg = (absorb _ _ _).handled.count tg
    rw [absorb_cRel, absorb_buf, absorb_handled]
    show cRel tg p.st.trace + tagRel (clear p.st.buf).recs tg (added p.st.buf (clear p.st.buf)) +
      unrelTag (clear p.st.buf) tg = p.st.handled.count tg
    obtain ⟨d, hd⟩ := clear_ext p.st.buf
    rw [added_of_ext hd, tagRel_reverse]
    obtain ⟨cg, cn, _, _, _⟩ := clear_post init p.cfg.bufNum p.cfg.bufSize p.st.buf hb.1
    have acc := released_accounting hb.1 cg d hd (by rw [cn]; exact Nat.le_refl _) (fun c _ => (clear_tags p.st.buf).2 c) tg
    rw [cn, sumTo_new (fun _ => 1) p.st.buf.n (fun c => p.st.buf.n ≤ c ∧ ((clear p.st.buf).recs c).tag = tg)
      (fun c hc h => by omega)] at acc
    have := hc tg
    omega

theorem prun_relInv (init : List Nat) (O : Oracle) :
    ∀ ops p, RelInv init p.cfg p.st → RelInv init (prun O p ops).cfg (prun O p ops).st := by
  intro ops
  induction ops with
  | nil => intro p h; exact h
  | cons op ops ih =>
    intro p h
    unfold prun
    rw [List.foldl_cons]
    exact ih _ (pstep_relInv init O p op h)

theorem unrelTag_zero_of_empty {init : List Nat} {s : St} (h : Good init s) (he : s.inc = []) (tg : Nat) :
    unrelTag s tg = 0 := by
  have h' : Inv init s.n s := h
  unfold unrelTag
  have : sumTo (fun c => if (s.recs c).tag = tg ∧ (s.recs c).released = false then 1 else 0) s.n =
      sumTo (fun _ => 0) s.n := by
    apply sumTo_congr
    intro c hc
    cases hr : (s.recs c).released
    · have := h'.buffered c hc (Nat.ne_of_lt hc) hr
      rw [he] at this; cases this
    · simp
  rw [this]
  generalize s.n = k
  induction k with
  | zero => rfl
  | succ k ih => simp [sumTo, ih]

end C15
