import LachesisVerif.Model.Indexed
import LachesisVerif.Props.C05
import LachesisVerif.Proofs.VecEmb
import LachesisVerif.Proofs.VecHB1
import LachesisVerif.Proofs.ElectionRefine
/-!
Composition, part 2: the vector index of ONE instance. An instance that has accepted the events `evs`
(protocol numbers of a valid history `N`, in its own parents-first order) holds the index state
`run N.nVals (histOf N evs)`, where `histOf N evs` is the history of the same events re-numbered by
their positions in `evs`. That history is valid and embedded in `N.h` (`VecProofs.HistEmb`), hence
(C05 + `emb_fcspec`) the index answers `N.FC` on the accepted events: `observe_eq_FC`.
-/
namespace Compose
open Model.Vec Model.Indexed VecProofs ElectionRules ElectionRefine Model.Pos

/-! ### positions -/

theorem pos_lt {evs : List Nat} {a : Nat} (h : a ∈ evs) : pos evs a < evs.length :=
  List.idxOf_lt_length_iff.2 h

theorem mem_of_pos_lt {evs : List Nat} {a : Nat} (h : pos evs a < evs.length) : a ∈ evs :=
  List.idxOf_lt_length_iff.1 h

theorem getD_pos {evs : List Nat} {a : Nat} (h : a ∈ evs) : evs.getD (pos evs a) 0 = a := by
  have hl := pos_lt h
  rw [List.getD_eq_getElem?_getD, List.getElem?_eq_getElem hl]
  exact List.getElem_idxOf hl

theorem pos_inj {evs : List Nat} {a b : Nat} (ha : a ∈ evs) (hb : b ∈ evs) (h : pos evs a = pos evs b) : a = b := by
  rw [← getD_pos ha, ← getD_pos hb, h]

theorem getD_mem {evs : List Nat} {k : Nat} (hk : k < evs.length) : evs.getD k 0 ∈ evs := by
  rw [List.getD_eq_getElem?_getD, List.getElem?_eq_getElem hk]
  exact List.getElem_mem hk

theorem pos_getD {evs : List Nat} (hnd : evs.Nodup) {k : Nat} (hk : k < evs.length) : pos evs (evs.getD k 0) = k := by
  have e : evs.getD k 0 = evs[k] := by
    rw [List.getD_eq_getElem?_getD, List.getElem?_eq_getElem hk]; rfl
  rw [e]
  have hl : pos evs evs[k] < evs.length := pos_lt (List.getElem_mem hk)
  exact (List.getElem_inj hnd).1 (List.getElem_idxOf hl)

theorem pos_append_of_mem {evs : List Nat} (l : List Nat) {a : Nat} (h : a ∈ evs) : pos (evs ++ l) a = pos evs a := by
  unfold pos; rw [List.idxOf_append, if_pos h]

theorem pos_append_self {evs : List Nat} {a : Nat} (h : a ∉ evs) : pos (evs ++ [a]) a = evs.length := by
  unfold pos; rw [List.idxOf_append, if_neg h]; simp

/-! ### the instance's own history -/

/-- the index event of `N`'s event `id` when the events `evs` have been indexed before -/
def vev (N : Net) (evs : List Nat) (id : Nat) : Event :=
  ⟨N.creator id, (N.h.ev id).seq, (N.h.ev id).parents.map (pos evs)⟩

/-- the instance's history: the events `evs` re-numbered by position -/
def histOf (N : Net) (evs : List Nat) : Hist := evs.map (vev N evs)

/-- `evs`: distinct events of `N`, every parent accepted before its child -/
structure PFList (N : Net) (evs : List Nat) : Prop where
  nodup : evs.Nodup
  lt : ∀ id ∈ evs, id < N.h.length
  par : ∀ id ∈ evs, ∀ p ∈ (N.h.ev id).parents, p ∈ evs ∧ pos evs p < pos evs id

theorem pfList_nil (N : Net) : PFList N [] :=
  ⟨List.nodup_nil, fun _ h => (by cases h), fun _ h => (by cases h)⟩

theorem pfList_snoc {N : Net} {evs : List Nat} (P : PFList N evs) {id : Nat} (hid : id < N.h.length)
    (hnew : id ∉ evs) (hpar : ∀ p ∈ (N.h.ev id).parents, p ∈ evs) : PFList N (evs ++ [id]) := by
  refine ⟨?_, ?_, ?_⟩
  · rw [List.nodup_append]
    refine ⟨P.nodup, by simp, ?_⟩
    intro a ha b hb
    rw [List.mem_singleton.1 hb]
    intro h; exact hnew (h ▸ ha)
  · intro x hx
    rcases List.mem_append.1 hx with h | h
    · exact P.lt x h
    · rw [List.mem_singleton.1 h]; exact hid
  · intro x hx p hp
    rcases List.mem_append.1 hx with h | h
    · obtain ⟨h1, h2⟩ := P.par x h p hp
      exact ⟨List.mem_append_left _ h1, by rw [pos_append_of_mem _ h1, pos_append_of_mem _ h]; exact h2⟩
    · rw [List.mem_singleton.1 h] at hp ⊢
      have h1 := hpar p hp
      exact ⟨List.mem_append_left _ h1, by rw [pos_append_of_mem _ h1, pos_append_self hnew]; exact pos_lt h1⟩

theorem length_histOf (N : Net) (evs : List Nat) : (histOf N evs).length = evs.length := by
  unfold histOf; rw [List.length_map]

theorem ev_histOf (N : Net) {evs : List Nat} {k : Nat} (hk : k < evs.length) :
    Hist.ev (histOf N evs) k = vev N evs (evs.getD k 0) := by
  unfold Hist.ev histOf
  rw [List.getD_eq_getElem?_getD, List.getD_eq_getElem?_getD, List.getElem?_map, List.getElem?_eq_getElem hk]
  rfl

theorem ev_histOf_pos (N : Net) {evs : List Nat} {p : Nat} (hp : p ∈ evs) :
    Hist.ev (histOf N evs) (pos evs p) = vev N evs p := by
  rw [ev_histOf N (pos_lt hp), getD_pos hp]

theorem vev_append {N : Net} {evs : List Nat} (l : List Nat) {id : Nat}
    (hpar : ∀ p ∈ (N.h.ev id).parents, p ∈ evs) : vev N (evs ++ l) id = vev N evs id := by
  unfold vev
  congr 1
  exact List.map_congr_left (fun p hp => pos_append_of_mem l (hpar p hp))

theorem histOf_snoc {N : Net} {evs : List Nat} (P : PFList N evs) {id : Nat}
    (hpar : ∀ p ∈ (N.h.ev id).parents, p ∈ evs) : histOf N (evs ++ [id]) = histOf N evs ++ [vev N evs id] := by
  unfold histOf
  rw [List.map_append, List.map_singleton, vev_append [id] hpar]
  congr 1
  exact List.map_congr_left (fun x hx => vev_append [id] (fun p hp => (P.par x hx p hp).1))

/-! ### validity of the instance's history -/

theorem ev_take {h : Hist} {i p : Nat} (hp : p < i) : Hist.ev (h.take i) p = Hist.ev h p := by
  unfold Hist.ev
  rw [List.getD_eq_getElem?_getD, List.getD_eq_getElem?_getD, List.getElem?_take_of_lt hp]

/-- `Valid`, read at one position -/
theorem valid_at {nVals : Nat} {h : Hist} (hv : Valid nVals h) {i : Nat} (hi : i < h.length) :
    ValidNext nVals (h.take i) (Hist.ev h i) := by
  have h1 := la_valid_take hv (i + 1)
  have e : h.take (i + 1) = h.take i ++ [Hist.ev h i] := by
    rw [List.take_add_one, List.getElem?_eq_getElem hi]
    unfold Hist.ev
    rw [List.getD_eq_getElem?_getD, List.getElem?_eq_getElem hi]
    rfl
  rw [e] at h1
  exact (Valid.prefix h1).2

theorem validNext_vev {N : Net} {evs : List Nat} (hv : Valid N.nVals N.h) {id : Nat}
    (hid : id < N.h.length) (hpar : ∀ p ∈ (N.h.ev id).parents, p ∈ evs) :
    ValidNext N.nVals (histOf N evs) (vev N evs id) := by
  have V := valid_at hv hid
  have hplt : ∀ p ∈ (N.h.ev id).parents, p < id := fun p hp => by
    have := V.parents_lt p hp
    rw [List.length_take] at this; omega
  have hcr : ∀ p ∈ (N.h.ev id).parents, (Hist.ev (histOf N evs) (pos evs p)).creator = (N.h.ev p).creator := by
    intro p hp; rw [ev_histOf_pos N (hpar p hp)]; rfl
  refine ⟨?_, V.creator_lt, V.seq_pos, V.seq_lt, ?_, ?_⟩
  · intro q hq
    obtain ⟨p, hp, rfl⟩ := List.mem_map.1 hq
    rw [length_histOf]; exact pos_lt (hpar p hp)
  · intro h1 q hq
    obtain ⟨p, hp, rfl⟩ := List.mem_map.1 hq
    rw [hcr p hp]
    have := V.first h1 p hp
    rwa [ev_take (hplt p hp)] at this
  · intro h1
    obtain ⟨sp, ps, he, hc, hs, hothers⟩ := V.self h1
    have hsp : sp ∈ (N.h.ev id).parents := by rw [he]; exact List.mem_cons_self
    have hps : ∀ p ∈ ps, p ∈ (N.h.ev id).parents := fun p hp => by rw [he]; exact List.mem_cons_of_mem _ hp
    rw [ev_take (hplt sp hsp)] at hc hs
    refine ⟨pos evs sp, ps.map (pos evs), ?_, ?_, ?_, ?_⟩
    · show (N.h.ev id).parents.map (pos evs) = _
      rw [he]; rfl
    · rw [hcr sp hsp]; exact hc
    · rw [ev_histOf_pos N (hpar sp hsp)]; exact hs
    · intro q hq
      obtain ⟨p, hp, rfl⟩ := List.mem_map.1 hq
      rw [hcr p (hps p hp)]
      have := hothers p hp
      rwa [ev_take (hplt p (hps p hp))] at this

/-- the instance's history is embedded in `N.h` by "position ↦ protocol number" -/
theorem emb_histOf {N : Net} {evs : List Nat} (P : PFList N evs) :
    HistEmb (histOf N evs) N.h (fun k => evs.getD k 0) := by
  refine ⟨?_, ?_, ?_, ?_, ?_⟩
  · intro i hi
    rw [length_histOf] at hi
    exact P.lt _ (getD_mem hi)
  · intro i j hi hj h
    rw [length_histOf] at hi hj
    have := congrArg (pos evs) h
    rwa [pos_getD P.nodup hi, pos_getD P.nodup hj] at this
  · intro i hi
    rw [length_histOf] at hi
    rw [ev_histOf N hi]; rfl
  · intro i hi
    rw [length_histOf] at hi
    rw [ev_histOf N hi]; rfl
  · intro i hi
    rw [length_histOf] at hi
    rw [ev_histOf N hi]
    show _ = ((N.h.ev (evs.getD i 0)).parents.map (pos evs)).map _
    rw [List.map_map]
    symm
    have hid : ∀ p ∈ (N.h.ev (evs.getD i 0)).parents, ((fun k => evs.getD k 0) ∘ pos evs) p = p :=
      fun p hp => getD_pos (P.par _ (getD_mem hi) p hp).1
    rw [List.map_congr_left hid, List.map_id'' (fun _ => rfl)]

/-! ### the invariant of the index component -/

structure IdxInv (N : Net) (evs : List Nat) (v : VState) : Prop where
  pf : PFList N evs
  valid : Valid N.nVals (histOf N evs)
  run : v = run N.nVals (histOf N evs)

theorem idxInv_init (N : Net) : IdxInv N [] (VState.init N.nVals) :=
  ⟨pfList_nil N, Valid.nil, rfl⟩

theorem idxInv_add {N : Net} {evs : List Nat} {v : VState} (I : IdxInv N evs v) (hv : Valid N.nVals N.h)
    {id : Nat} (hid : id < N.h.length) (hnew : id ∉ evs) (hpar : ∀ p ∈ (N.h.ev id).parents, p ∈ evs) :
    IdxInv N (evs ++ [id]) (v.add (vev N evs id)) := by
  refine ⟨pfList_snoc I.pf hid hnew hpar, ?_, ?_⟩
  · rw [histOf_snoc I.pf hpar]
    exact Valid.snoc I.valid (validNext_vev hv hid hpar)
  · rw [histOf_snoc I.pf hpar, la_run_snoc, ← I.run]

theorem length_le_of_pfList {N : Net} {evs : List Nat} (P : PFList N evs) : evs.length ≤ N.h.length :=
  la_nodup_length_le _ _ P.nodup P.lt

theorem plen_histOf {N : Net} {evs : List Nat} (P : PFList N evs) (hpf : PF (histOf N evs))
    (hnd : ∀ i, i < N.h.length → (N.h.ev i).parents.Nodup) : PLen (histOf N evs) := by
  apply la_plen_of_nodup hpf
  intro i hi
  rw [length_histOf] at hi
  rw [ev_histOf N hi]
  show ((N.h.ev (evs.getD i 0)).parents.map (pos evs)).Nodup
  have hm := getD_mem hi
  have hn := hnd _ (P.lt _ hm)
  generalize hl : (N.h.ev (evs.getD i 0)).parents = l at hn
  have hin : ∀ p ∈ l, p ∈ evs := fun p hp => (P.par _ hm p (by rw [hl]; exact hp)).1
  clear hl
  induction l with
  | nil => exact List.nodup_nil
  | cons x xs ih =>
    rw [List.map_cons, List.nodup_cons]
    rw [List.nodup_cons] at hn
    refine ⟨?_, ih hn.2 (fun p hp => hin p (List.mem_cons_of_mem _ hp))⟩
    intro hx
    obtain ⟨y, hy, he⟩ := List.mem_map.1 hx
    have := pos_inj (hin y (List.mem_cons_of_mem _ hy)) (hin x List.mem_cons_self) he
    exact hn.1 (this ▸ hy)

/-! ### the index answers the graph relation -/

open Classical in
/-- `FCSpec` reads the weights of the validators `< nVals` only -/
theorem fcSpec_congr_weight {h : Hist} {nVals : Nat} {w w' : Nat → Nat} (hw : ∀ i, i < nVals → w i = w' i)
    (q a b : Nat) : FCSpec h nVals w q a b ↔ FCSpec h nVals w' q a b := by
  unfold FCSpec
  have : ∀ (l : List Nat), (∀ x ∈ l, x < nVals) → l.map w = l.map w' :=
    fun l hl => List.map_congr_left (fun x hx => hw x (hl x hx))
  rw [this _ (fun x hx => List.mem_range.1 (List.mem_filter.1 hx).1)]

/-- **(a)** the oracle of the combined model is the graph relation: an instance that has indexed the
    events `evs` of `N` in its own parents-first order (`IdxInv`) answers, for accepted events `a`, `b`
    asked at THEIR positions in that order, exactly `N.FC a b` (C05 for the instance's own history
    + the graph definition only looks at `a`'s ancestry, `VecProofs.emb_fcspec`). -/
theorem observe_eq_FC {N : Net} {vals : Vals} {evs : List Nat} {v : VState} (ok : ValsOK vals N.nVals N.w)
    (I : IdxInv N evs v) (hnd : ∀ i, i < N.h.length → (N.h.ev i).parents.Nodup)
    (hsmall : N.nVals + N.h.length < 4294967296) {a b : Nat} (ha : a ∈ evs) (hb : b ∈ evs) :
    v.fc vals.weightByIdx vals.quorum (pos evs a) (pos evs b) = true ↔ N.FC a b := by
  have hpf := la_valid_pf I.valid
  have hlen := length_le_of_pfList I.pf
  have hq : 0 < vals.quorum := by rw [quorum_eq ok]; unfold Net.quorum; omega
  have hla : pos evs a < (histOf N evs).length := by rw [length_histOf]; exact pos_lt ha
  have hlb : pos evs b < (histOf N evs).length := by rw [length_histOf]; exact pos_lt hb
  rw [I.run, C05.C05_fc_eq_spec _ _ I.valid (plen_histOf I.pf hpf hnd) (by rw [length_histOf]; omega) hq hla hlb,
    emb_fcspec (emb_histOf I.pf) hpf _ _ _ hla hlb]
  simp only [getD_pos ha, getD_pos hb]
  rw [N.FC_eq_FCSpec, quorum_eq ok]
  exact fcSpec_congr_weight (fun i hi => canon_weight ok.canon hi) _ _ _

end Compose
