import LachesisVerif.Proofs.KVOverlay
/-!
Merge correctness of the flushable iterator, part 1: the declarative merge `mergeView` of a sorted
tree (with tombstones) and a sorted parent list, characterised by lookups.
-/
namespace Model.Flushable
open Bytes Spec Spec.KV

/-- what a tree node contributes to the output -/
def emit (k : Bytes) : Option Bytes → KV
  | some v => [(k, v)]
  | none => []

/-- the tree laid over the parent items: the tree wins on equal keys, tombstones hide -/
def mergeView : Overlay → KV → KV
  | [], ps => ps
  | (tk, tv) :: ts, [] => emit tk tv ++ mergeView ts []
  | (tk, tv) :: ts, (pk, pv) :: ps =>
    if lexLt tk pk then emit tk tv ++ mergeView ts ((pk, pv) :: ps)
    else if tk = pk then emit tk tv ++ mergeView ts ps
    else (pk, pv) :: mergeView ((tk, tv) :: ts) ps
termination_by ts ps => ts.length + ps.length

theorem mergeView_nil (ps : KV) : mergeView [] ps = ps := by unfold mergeView; rfl

theorem mergeView_cons_nil (tk : Bytes) (tv : Option Bytes) (ts : Overlay) :
    mergeView ((tk, tv) :: ts) [] = emit tk tv ++ mergeView ts [] := by
  rw [mergeView]

theorem mergeView_cons_cons (tk : Bytes) (tv : Option Bytes) (ts : Overlay) (pk pv : Bytes) (ps : KV) :
    mergeView ((tk, tv) :: ts) ((pk, pv) :: ps) =
      if lexLt tk pk then emit tk tv ++ mergeView ts ((pk, pv) :: ps)
      else if tk = pk then emit tk tv ++ mergeView ts ps
      else (pk, pv) :: mergeView ((tk, tv) :: ts) ps := by
  rw [mergeView]

theorem allGt_emit_append {b k : Bytes} {tv : Option Bytes} {m : KV} (hk : lexLt b k = true) (h : KV.AllGt b m) :
    KV.AllGt b (emit k tv ++ m) := by
  intro x hx
  cases tv with
  | none => exact h x (by simpa [emit] using hx)
  | some v =>
    simp only [emit, List.cons_append, List.nil_append, List.mem_cons] at hx
    rcases hx with e | hx
    · subst e; exact hk
    · exact h x hx

/-- every key of the merge comes from one of the two sides -/
theorem allGt_mergeView {b : Bytes} : ∀ (ts : Overlay) (ps : KV), Overlay.AllGt b ts → KV.AllGt b ps →
    KV.AllGt b (mergeView ts ps) := by
  intro ts ps
  induction ts, ps using mergeView.induct with
  | case1 ps => intro _ h; rw [mergeView_nil]; exact h
  | case2 tk tv ts ih =>
    intro ht hp
    rw [mergeView_cons_nil]
    exact allGt_emit_append (ht _ List.mem_cons_self) (ih ht.tail hp)
  | case3 tk tv ts pk pv ps hlt ih =>
    intro ht hp
    rw [mergeView_cons_cons, if_pos hlt]
    exact allGt_emit_append (ht _ List.mem_cons_self) (ih ht.tail hp)
  | case4 tv ts tk pv ps hlt ih =>
    intro ht hp
    rw [mergeView_cons_cons, if_neg hlt, if_pos rfl]
    exact allGt_emit_append (ht _ List.mem_cons_self) (ih ht.tail (fun x hx => hp x (List.mem_cons_of_mem _ hx)))
  | case5 tk tv ts pk pv ps hlt hne ih =>
    intro ht hp
    rw [mergeView_cons_cons, if_neg hlt, if_neg hne]
    intro x hx
    rcases List.mem_cons.1 hx with e | hx
    · subst e; exact hp _ List.mem_cons_self
    · exact ih ht (fun x hx => hp x (List.mem_cons_of_mem _ hx)) x hx

theorem sorted_emit_append {k : Bytes} {tv : Option Bytes} {m : KV} (hg : KV.AllGt k m) (hs : KV.Sorted m) :
    KV.Sorted (emit k tv ++ m) := by
  cases tv with
  | none => simpa [emit] using hs
  | some v => exact KV.sorted_cons.2 ⟨hg, hs⟩

theorem sorted_mergeView : ∀ (ts : Overlay) (ps : KV), Overlay.Sorted ts → KV.Sorted ps → KV.Sorted (mergeView ts ps) := by
  intro ts ps
  induction ts, ps using mergeView.induct with
  | case1 ps => intro _ h; rw [mergeView_nil]; exact h
  | case2 tk tv ts ih =>
    intro ht hp
    obtain ⟨g, s⟩ := Overlay.sorted_cons.1 ht
    rw [mergeView_cons_nil]
    exact sorted_emit_append (allGt_mergeView _ _ g (fun _ h => by cases h)) (ih s hp)
  | case3 tk tv ts pk pv ps hlt ih =>
    intro ht hp
    obtain ⟨g, s⟩ := Overlay.sorted_cons.1 ht
    obtain ⟨gp, _⟩ := KV.sorted_cons.1 hp
    rw [mergeView_cons_cons, if_pos hlt]
    refine sorted_emit_append (allGt_mergeView _ _ g ?_) (ih s hp)
    intro x hx
    rcases List.mem_cons.1 hx with e | hx
    · subst e; exact hlt
    · exact lexLt_trans hlt (gp x hx)
  | case4 tv ts tk pv ps hlt ih =>
    intro ht hp
    obtain ⟨g, s⟩ := Overlay.sorted_cons.1 ht
    obtain ⟨gp, sp⟩ := KV.sorted_cons.1 hp
    rw [mergeView_cons_cons, if_neg hlt, if_pos rfl]
    exact sorted_emit_append (allGt_mergeView _ _ g gp) (ih s sp)
  | case5 tk tv ts pk pv ps hlt hne ih =>
    intro ht hp
    obtain ⟨g, s⟩ := Overlay.sorted_cons.1 ht
    obtain ⟨gp, sp⟩ := KV.sorted_cons.1 hp
    rw [mergeView_cons_cons, if_neg hlt, if_neg hne]
    have hgt : lexLt pk tk = true := by
      rcases lexLt_total tk pk with h | h | h
      · exact absurd h hlt
      · exact absurd h hne
      · exact h
    refine KV.sorted_cons.2 ⟨allGt_mergeView _ _ ?_ gp, ih ht sp⟩
    intro x hx
    rcases List.mem_cons.1 hx with e | hx
    · subst e; exact hgt
    · exact lexLt_trans hgt (g x hx)

theorem get_emit_append (k : Bytes) (tv : Option Bytes) (m : KV) (k' : Bytes) :
    KV.get (emit k tv ++ m) k' = match tv with
      | some v => if k = k' then some v else KV.get m k'
      | none => KV.get m k' := by
  cases tv with
  | none => rfl
  | some v => simp only [emit, List.cons_append, List.nil_append, KV.get_cons]

/-- lookups in the merge: the tree decides where it has a node, the parent elsewhere -/
theorem get_mergeView : ∀ (ts : Overlay) (ps : KV), Overlay.Sorted ts → KV.Sorted ps → ∀ k,
    KV.get (mergeView ts ps) k = match Overlay.lookup ts k with
      | some e => e
      | none => KV.get ps k := by
  intro ts ps
  induction ts, ps using mergeView.induct with
  | case1 ps => intro _ _ k; rw [mergeView_nil]; rfl
  | case2 tk tv ts ih =>
    intro ht hp k
    obtain ⟨g, s⟩ := Overlay.sorted_cons.1 ht
    rw [mergeView_cons_nil, get_emit_append, Overlay.lookup_cons]
    have hall : KV.AllGt tk (mergeView ts []) := allGt_mergeView _ _ g (fun _ h => by cases h)
    by_cases e : tk = k
    · subst e
      rw [if_pos rfl]
      cases tv with
      | some v => simp
      | none => simp [KV.get_none_of_allGt hall]
    · rw [if_neg e]
      cases tv with
      | some v => simp only [if_neg e]; exact ih s hp k
      | none => exact ih s hp k
  | case3 tk tv ts pk pv ps hlt ih =>
    intro ht hp k
    obtain ⟨g, s⟩ := Overlay.sorted_cons.1 ht
    obtain ⟨gp, _⟩ := KV.sorted_cons.1 hp
    rw [mergeView_cons_cons, if_pos hlt, get_emit_append, Overlay.lookup_cons]
    have hall : KV.AllGt tk (mergeView ts ((pk, pv) :: ps)) := by
      refine allGt_mergeView _ _ g ?_
      intro x hx
      rcases List.mem_cons.1 hx with e | hx
      · subst e; exact hlt
      · exact lexLt_trans hlt (gp x hx)
    by_cases e : tk = k
    · subst e
      rw [if_pos rfl]
      cases tv with
      | some v => simp
      | none => simp [KV.get_none_of_allGt hall]
    · rw [if_neg e]
      cases tv with
      | some v => simp only [if_neg e]; exact ih s hp k
      | none => exact ih s hp k
  | case4 tv ts tk pv ps hlt ih =>
    intro ht hp k
    obtain ⟨g, s⟩ := Overlay.sorted_cons.1 ht
    obtain ⟨gp, sp⟩ := KV.sorted_cons.1 hp
    rw [mergeView_cons_cons, if_neg hlt, if_pos rfl, get_emit_append, Overlay.lookup_cons]
    have hall : KV.AllGt tk (mergeView ts ps) := allGt_mergeView _ _ g gp
    by_cases e : tk = k
    · subst e
      rw [if_pos rfl]
      cases tv with
      | some v => simp
      | none => simp [KV.get_none_of_allGt hall]
    · rw [if_neg e]
      have hp' : KV.get ((tk, pv) :: ps) k = KV.get ps k := by rw [KV.get_cons, if_neg e]
      rw [hp']
      cases tv with
      | some v => simp only [if_neg e]; exact ih s sp k
      | none => exact ih s sp k
  | case5 tk tv ts pk pv ps hlt hne ih =>
    intro ht hp k
    obtain ⟨g, s⟩ := Overlay.sorted_cons.1 ht
    obtain ⟨gp, sp⟩ := KV.sorted_cons.1 hp
    rw [mergeView_cons_cons, if_neg hlt, if_neg hne, KV.get_cons]
    have hgt : lexLt pk tk = true := by
      rcases lexLt_total tk pk with h | h | h
      · exact absurd h hlt
      · exact absurd h hne
      · exact h
    by_cases e : pk = k
    · subst e
      rw [if_pos rfl]
      have : Overlay.lookup ((tk, tv) :: ts) pk = none := by
        apply Overlay.lookup_none_of_allGt
        intro x hx
        rcases List.mem_cons.1 hx with e | hx
        · subst e; exact hgt
        · exact lexLt_trans hgt (g x hx)
      rw [this, KV.get_cons, if_pos rfl]
    · rw [if_neg e, ih ht sp k, KV.get_cons, if_neg e]

/-- a parent item below every tree key comes out first -/
theorem mergeView_parent_first {ts : Overlay} {pk pv : Bytes} {ps : KV} (h : Overlay.AllGt pk ts) :
    mergeView ts ((pk, pv) :: ps) = (pk, pv) :: mergeView ts ps := by
  cases ts with
  | nil => rw [mergeView_nil, mergeView_nil]
  | cons t ts =>
    obtain ⟨tk, tv⟩ := t
    have hgt := h _ List.mem_cons_self
    rw [mergeView_cons_cons, if_neg (by simp [lexLt_asymm hgt]), if_neg (fun e => lexLt_ne hgt e.symm)]

/-- tombstones above every parent key change nothing -/
theorem mergeView_tombstones {tb : Overlay} (hn : ∀ x ∈ tb, x.2 = none) :
    ∀ (ps : KV), (∀ x ∈ tb, ∀ y ∈ ps, lexLt y.1 x.1 = true) → mergeView tb ps = ps := by
  intro ps
  induction ps with
  | nil =>
    intro _
    induction tb with
    | nil => rw [mergeView_nil]
    | cons t ts ih =>
      obtain ⟨tk, tv⟩ := t
      have : tv = none := hn (tk, tv) List.mem_cons_self
      subst this
      rw [mergeView_cons_nil, ih (fun x hx => hn x (List.mem_cons_of_mem _ hx)) (fun _ _ _ hy => by cases hy)]
      rfl
  | cons p ps ih =>
    intro hgt
    obtain ⟨pk, pv⟩ := p
    rw [mergeView_parent_first (fun x hx => hgt x hx (pk, pv) List.mem_cons_self),
      ih (fun x hx y hy => hgt x hx y (List.mem_cons_of_mem _ hy))]

theorem mergeView_append_tombstones {tb : Overlay} (hn : ∀ x ∈ tb, x.2 = none) :
    ∀ (a : Overlay) (ps : KV), (∀ x ∈ tb, ∀ y ∈ ps, lexLt y.1 x.1 = true) → mergeView (a ++ tb) ps = mergeView a ps := by
  intro a ps
  induction a, ps using mergeView.induct with
  | case1 ps => intro h; rw [List.nil_append, mergeView_nil]; exact mergeView_tombstones hn ps h
  | case2 tk tv ts ih =>
    intro h
    rw [List.cons_append, mergeView_cons_nil, mergeView_cons_nil, ih h]
  | case3 tk tv ts pk pv ps hlt ih =>
    intro h
    rw [List.cons_append, mergeView_cons_cons, mergeView_cons_cons, if_pos hlt, if_pos hlt, ih h]
  | case4 tv ts tk pv ps hlt ih =>
    intro h
    rw [List.cons_append, mergeView_cons_cons, mergeView_cons_cons, if_neg hlt, if_neg hlt, if_pos rfl, if_pos rfl,
      ih (fun x hx y hy => h x hx y (List.mem_cons_of_mem _ hy))]
  | case5 tk tv ts pk pv ps hlt hne ih =>
    intro h
    rw [List.cons_append, mergeView_cons_cons, mergeView_cons_cons, if_neg hlt, if_neg hlt, if_neg hne, if_neg hne]
    have := ih (fun x hx y hy => h x hx y (List.mem_cons_of_mem _ hy))
    rw [List.cons_append] at this
    rw [this]

end Model.Flushable
