import LachesisVerif.Proofs.KVIter
/-! Writes, flush and drop of `Model.Flushable` against the view (helper lemmas of C22). -/
namespace Model.Flushable
open Bytes Spec Spec.KV

theorem view_put_some {under : KV} {ov : Overlay} (hu : KV.Sorted under) (ho : Overlay.Sorted ov) (k v : Bytes) :
    overlayApply under (ov.put k (some v)) = (overlayApply under ov).insert k v := by
  apply KV.ext (sorted_overlayApply hu _) (sorted_insert (sorted_overlayApply hu _) _ _)
  intro k'
  rw [get_overlayApply (Overlay.sorted_put ho _ _), Overlay.lookup_put, get_insert, get_overlayApply ho]
  by_cases e : k = k'
  · simp [e]
  · simp [e]

theorem view_put_none {under : KV} {ov : Overlay} (hu : KV.Sorted under) (ho : Overlay.Sorted ov) (k : Bytes) :
    overlayApply under (ov.put k none) = (overlayApply under ov).erase k := by
  apply KV.ext (sorted_overlayApply hu _) (sorted_erase (sorted_overlayApply hu _) _)
  intro k'
  rw [get_overlayApply (Overlay.sorted_put ho _ _), Overlay.lookup_put, get_erase, get_overlayApply ho]
  by_cases e : k = k'
  · simp [e]
  · simp [e]

theorem applyOp_nodeOp (m : KV) (p : Bytes × Option Bytes) : applyOp m (nodeOp p) = applyNode m p := by
  obtain ⟨k, v⟩ := p
  cases v <;> rfl

/-- the batch written by `Flush` turns the underlying store into the view -/
theorem applyBatch_flushOps (under : KV) (ov : Overlay) : applyBatch under (flushOps ov) = overlayApply under ov := by
  unfold applyBatch flushOps overlayApply
  rw [List.foldl_map]
  congr 1
  funext m p
  exact applyOp_nodeOp m p

theorem get_eq_view_get {st : St} (ho : Overlay.Sorted st.overlay) (k : Bytes) : get st k = KV.get (view st) k := by
  unfold get getOver view
  rw [get_overlayApply ho]
  cases Overlay.lookup st.overlay k <;> rfl

theorem has_eq_view_has {st : St} (ho : Overlay.Sorted st.overlay) (k : Bytes) : has st k = KV.has (view st) k := by
  unfold has hasOver view KV.has
  rw [get_overlayApply ho]
  cases Overlay.lookup st.overlay k <;> rfl

/-- with the parent cursor exhausted the inner loop of `Next` ends without a pair only when the
    tree cursor is exhausted too: the outer `for it.treeOk || it.parentOk` of the Go code exits there,
    as `nextNoParent` assumes -/
theorem treeLoop_noParent_exhausts (pfx : Option Bytes) : ∀ (tree : Overlay) (prev : Option Bytes),
    (treeLoop pfx none tree prev).2.2 = none → (treeLoop pfx none tree prev).1 = [] := by
  intro tree
  induction tree with
  | nil => intro _ _; rfl
  | cons t ts ih =>
    obtain ⟨tk, tv⟩ := t
    intro prev
    rw [treeLoop_cons]
    simp only [Bool.false_eq_true, if_false]
    cases tv with
    | none => exact ih (some tk)
    | some v =>
      by_cases hp : pfxOk pfx tk = true
      · by_cases hg : gtp prev tk = true
        · simp [hp, hg]
        · simp only [hp, hg, if_true, Bool.false_eq_true, if_false]; exact ih prev
      · simp [hp]

end Model.Flushable
