import LachesisVerif.Proofs.BufferPush
/-! C14: the operations `PushEvent`, `Clear` and an outside connection preserve the invariant. -/
namespace C14
open Model.EventsBuffer

theorem incRemove_head {id c : Nat} {rest : List (Nat × Nat)} (hnd : (((id, c) :: rest).map (·.1)).Nodup) :
    incRemove ((id, c) :: rest) id = rest := by
  simp only [List.map_cons, List.nodup_cons] at hnd
  unfold incRemove
  rw [List.filter_cons]
  simp only [bne_self_eq_false, Bool.false_eq_true, if_false]
  rw [List.filter_eq_self]
  intro p hp
  have : p.1 ≠ id := fun e => hnd.1 (List.mem_map.2 ⟨p, hp, e⟩)
  simpa using this

theorem frame_setInc (s : St) (I : List (Nat × Nat)) : Frame s { s with inc := I } :=
  ⟨rfl, fun _ => rfl, fun _ => rfl, fun _ h => h, fun _ h => h⟩

/-- result of the spill loop: invariant kept, only releases happened, and the loop condition is false
    (or nothing is left) -/
theorem spill_post (init : List Nat) (x limNum limSize : Nat) :
    ∀ l st, st.inc = l → Inv init x st →
      Inv init x (spill limNum limSize l st) ∧ Frame st (spill limNum limSize l st) ∧
      (Gen.Buffer.spillCond (spill limNum limSize l st).inc.length limNum
          (weightOf (spill limNum limSize l st).recs (spill limNum limSize l st).inc) limSize = false ∨
        (spill limNum limSize l st).inc = []) := by
  intro l
  induction l with
  | nil =>
    intro st hl hinv
    have : spill limNum limSize [] st = st := by
      unfold spill
      cases st; simp at hl; subst hl; rfl
    rw [this]
    exact ⟨hinv, Frame.refl st, Or.inr hl⟩
  | cons p rest ih =>
    intro st hl hinv
    obtain ⟨id, c⟩ := p
    unfold spill
    by_cases hcond : Gen.Buffer.spillCond ((id, c) :: rest).length limNum (weightOf st.recs ((id, c) :: rest)) limSize = true
    · simp only [hcond, if_true]
      have hmem : (id, c) ∈ st.inc := by rw [hl]; exact List.mem_cons_self
      have hc : c < st.n := (hinv.incId _ hmem).2
      have hstate : release (drop { st with inc := rest } c errSpilled) c =
          { release (drop st c errSpilled) c with inc := rest } := by
        unfold drop
        split <;> rfl
      rw [hstate]
      have hinv1 := release_inv (drop_inv hinv c errSpilled) c (by simpa using hc)
      have hfr1 := Frame.trans (drop_frame st c errSpilled) (release_frame _ c)
      have hinc1 : (release (drop st c errSpilled) c).inc = (id, c) :: rest := by simpa using hl
      have hinv2 := remove_inv hinv1 id (by
        intro p hp he
        rw [hinc1] at hp
        have hnd := hinv1.incNodup
        rw [hinc1] at hnd
        have := fst_unique hnd hp List.mem_cons_self he
        subst this
        exact Or.inl (release_released_self _ c))
      rw [hinc1, incRemove_head (by have := hinv1.incNodup; rw [hinc1] at this; exact this)] at hinv2
      obtain ⟨a, b, d⟩ := ih _ rfl hinv2
      exact ⟨a, Frame.trans hfr1 (Frame.trans (frame_setInc _ rest) b), d⟩
    · have hcond' : Gen.Buffer.spillCond ((id, c) :: rest).length limNum (weightOf st.recs ((id, c) :: rest)) limSize = false := by
        simpa using hcond
      simp only [hcond', Bool.false_eq_true, if_false]
      have : ({ st with inc := (id, c) :: rest } : St) = st := by
        cases st; simp at hl; subst hl; rfl
      rw [this]
      exact ⟨hinv, Frame.refl st, Or.inl trivial⟩

/-- nobody in flight -/
def Good (init : List Nat) (st : St) : Prop := Inv init st.n st

/-- the spill loop would stop here: the buffer is within its limits -/
def Lim (limNum limSize : Nat) (st : St) : Prop :=
  Gen.Buffer.spillCond st.inc.length limNum st.weight limSize = false ∨ st.inc = []

theorem good_init (init : List Nat) : Good init (St.init init) := by
  unfold Good
  exact {
    relsync := fun _ => rfl
    noproc := fun _ _ => rfl
    procOk := rfl
    relOk := rfl
    incId := fun p hp => by cases hp
    incNodup := List.nodup_nil
    incLen := Nat.le_refl _
    buffered := fun c h => by cases h
    fresh := fun _ _ => rfl
    parents := fun _ _ => ⟨rfl, rfl⟩
    oof := rfl }

theorem weightOf_congr (recs recs' : Nat → Rec) (inc : List (Nat × Nat))
    (h : ∀ p ∈ inc, (recs' p.2).ev = (recs p.2).ev) : weightOf recs' inc = weightOf recs inc := by
  unfold weightOf
  congr 1
  apply List.map_congr_left
  intro p hp
  rw [h p hp]

/-- the record of a fresh copy -/
def withFresh (st : St) (e : Ev) (tag : Nat) : St :=
  { st with n := st.n + 1, recs := setRec st.recs st.n ⟨e, tag, 0, false⟩ }

theorem fresh_inv {init : List Nat} {st : St} (h : Good init st) (e : Ev) (tag : Nat) :
    Inv init st.n (withFresh st e tag) := by
  unfold Good at h
  exact {
    relsync := by
      intro c
      show nRel c st.trace = if (setRec st.recs st.n ⟨e, tag, 0, false⟩ c).released then 1 else 0
      by_cases ec : c = st.n
      · subst ec; rw [setRec_same, h.relsync, h.fresh _ (Nat.le_refl _)]
      · rw [setRec_other _ _ _ _ ec]; exact h.relsync c
    noproc := by
      intro c hc
      by_cases ec : c = st.n
      · subst ec; exact h.noproc _ (h.fresh _ (Nat.le_refl _))
      · have hc' : (setRec st.recs st.n ⟨e, tag, 0, false⟩ c).released = false := hc
        rw [setRec_other _ _ _ _ ec] at hc'
        exact h.noproc c hc'
    procOk := h.procOk
    relOk := h.relOk
    incId := by
      intro p hp
      have := h.incId p hp
      have ne : p.2 ≠ st.n := Nat.ne_of_lt this.2
      refine ⟨?_, Nat.lt_succ_of_lt this.2⟩
      show (setRec st.recs st.n _ p.2).ev.id = p.1
      rw [setRec_other _ _ _ _ ne]; exact this.1
    incNodup := h.incNodup
    incLen := Nat.le_succ_of_le h.incLen
    buffered := by
      intro c h1 h2 h3
      have h1' : c < st.n + 1 := h1
      have hlt : c < st.n := by omega
      have h3' : (setRec st.recs st.n ⟨e, tag, 0, false⟩ c).released = false := h3
      rw [setRec_other _ _ _ _ h2] at h3'
      have := h.buffered c hlt h2 h3'
      show ((setRec st.recs st.n _ c).ev.id, c) ∈ st.inc
      rw [setRec_other _ _ _ _ h2]; exact this
    fresh := by
      intro c hc
      have hc' : st.n + 1 ≤ c := hc
      have ne : c ≠ st.n := by omega
      show (setRec st.recs st.n _ c).released = false
      rw [setRec_other _ _ _ _ ne]; exact h.fresh c (by omega)
    parents := by
      intro evOf hev
      apply h.parents evOf
      intro c hc
      have ne : c ≠ st.n := Nat.ne_of_lt hc
      have := hev c (Nat.lt_succ_of_lt hc)
      have e2 : ((withFresh st e tag).recs c).ev = (st.recs c).ev := by
        show (setRec st.recs st.n _ c).ev = _
        rw [setRec_other _ _ _ _ ne]
      rw [this, e2]
    oof := h.oof }

theorem withFresh_frame_ev (st : St) (e : Ev) (tag : Nat) (c : Nat) (hc : c < st.n) :
    ((withFresh st e tag).recs c).ev = (st.recs c).ev := by
  show (setRec st.recs st.n _ c).ev = _
  rw [setRec_other _ _ _ _ (Nat.ne_of_lt hc)]

theorem pushEvent_post (init : List Nat) (O : Oracle) (limNum limSize : Nat) (st : St) (e : Ev) (tag : Nat)
    (h : Good init st) (hlim : Lim limNum limSize st) :
    Good init (pushEvent true O limNum limSize st e tag).1 ∧
    (pushEvent true O limNum limSize st e tag).1.n = st.n + 1 ∧
    (∀ c, c < st.n → ((pushEvent true O limNum limSize st e tag).1.recs c).ev = (st.recs c).ev) ∧
    ((pushEvent true O limNum limSize st e tag).1.recs st.n).ev = e ∧
    Lim limNum limSize (pushEvent true O limNum limSize st e tag).1 := by
  have hinv0 := fresh_inv h e tag
  have hpe : pushEvent true O limNum limSize st e tag =
      if st.inc.any (fun p => p.1 == e.id) then (release (drop (withFresh st e tag) st.n errDup) st.n, false)
      else (spill limNum limSize (pushEv true O (st.inc.length + 1) (withFresh st e tag) st.n none false).1.inc
              (pushEv true O (st.inc.length + 1) (withFresh st e tag) st.n none false).1,
            (pushEv true O (st.inc.length + 1) (withFresh st e tag) st.n none false).2) := rfl
  rw [hpe]
  by_cases hdup : st.inc.any (fun p => p.1 == e.id) = true
  · simp only [hdup, if_true]
    have hinv1 := release_inv (drop_inv hinv0 st.n errDup) st.n (by simp [withFresh])
    have hinv2 := inv_close hinv1 (Or.inl (release_released_self _ _)) (st.n + 1)
    have hfr := Frame.trans (drop_frame (withFresh st e tag) st.n errDup) (release_frame _ st.n)
    have hn : (release (drop (withFresh st e tag) st.n errDup) st.n).n = st.n + 1 := hfr.n_eq
    refine ⟨?_, hn, ?_, ?_, ?_⟩
    · unfold Good
      rw [hn]; exact hinv2
    · intro c hc; rw [hfr.ev_eq]; exact withFresh_frame_ev st e tag c hc
    · rw [hfr.ev_eq]; show (setRec st.recs st.n _ st.n).ev = e; simp
    · have hi : (release (drop (withFresh st e tag) st.n errDup) st.n).inc = st.inc := by simp [withFresh]
      have hw : (release (drop (withFresh st e tag) st.n errDup) st.n).weight = st.weight := by
        unfold St.weight
        rw [hi]
        apply weightOf_congr
        intro p hp
        rw [hfr.ev_eq]
        exact withFresh_frame_ev st e tag p.2 (h.incId p hp).2
      unfold Lim
      rw [hi, hw]; exact hlim
  · have hdup' : st.inc.any (fun p => p.1 == e.id) = false := Bool.eq_false_iff.2 hdup
    have hnew : ∀ p ∈ st.inc, p.1 ≠ e.id := by
      intro p hp he
      exact hdup (List.any_eq_true.2 ⟨p, hp, by simp [he]⟩)
    simp only [hdup', Bool.false_eq_true, if_false]
    have hrec : ((withFresh st e tag).recs st.n) = ⟨e, tag, 0, false⟩ := by
      show setRec st.recs st.n _ st.n = _
      simp
    have pre : Pre init st.n (withFresh st e tag) st.n none false (st.inc.length + 1) := {
      inv := hinv0
      hc := Nat.lt_succ_self _
      unreleased := by rw [hrec]
      mode := Or.inr ⟨rfl, rfl, by
        intro p hp
        rw [hrec]
        exact hnew p hp, rfl, Nat.le_refl _, Nat.lt_succ_of_le h.incLen⟩ }
    have post := pushEv_post init st.n O _ _ _ _ _ pre
    have hinv1 := inv_close post.inv post.done (st.n + 1)
    have hn1 : (pushEv true O (st.inc.length + 1) (withFresh st e tag) st.n none false).1.n = st.n + 1 := post.frame.n_eq
    obtain ⟨a, b, d⟩ := spill_post init (st.n + 1) limNum limSize _ _ rfl hinv1
    have hfr := Frame.trans post.frame b
    refine ⟨?_, hfr.n_eq, ?_, ?_, d⟩
    · unfold Good
      rw [hfr.n_eq]; exact a
    · intro c hc; rw [hfr.ev_eq]; exact withFresh_frame_ev st e tag c hc
    · rw [hfr.ev_eq, hrec]

theorem spillCond_mono {len w : Nat} (h : Gen.Buffer.spillCond len 0 w 0 = false) (limNum limSize : Nat) :
    Gen.Buffer.spillCond len limNum w limSize = false := by
  unfold Gen.Buffer.spillCond at h ⊢
  simp only [Bool.or_eq_false_iff, decide_eq_false_iff_not] at h ⊢
  omega

theorem clear_post (init : List Nat) (limNum limSize : Nat) (st : St) (h : Good init st) :
    Good init (clear st) ∧ (clear st).n = st.n ∧ (∀ c, ((clear st).recs c).ev = (st.recs c).ev) ∧
    Lim limNum limSize (clear st) ∧ (st.n < 4294967296 → (clear st).inc = []) := by
  unfold clear
  obtain ⟨a, b, d⟩ := spill_post init st.n 0 0 st.inc st rfl h
  refine ⟨?_, b.n_eq, b.ev_eq, ?_, ?_⟩
  · unfold Good; rw [b.n_eq]; exact a
  · rcases d with d | d
    · exact Or.inl (spillCond_mono d limNum limSize)
    · exact Or.inr d
  · intro hlen
    rcases d with d | d
    · have hle : (spill 0 0 st.inc st).inc.length ≤ st.n := by
        have := a.incLen
        rw [b.n_eq] at this
        exact this
      unfold Gen.Buffer.spillCond at d
      simp only [Bool.or_eq_false_iff, decide_eq_false_iff_not] at d
      have h0 : (spill 0 0 st.inc st).inc.length = 0 := by
        have := d.1
        omega
      exact List.length_eq_zero_iff.1 h0
    · exact d

theorem connect_post (init : List Nat) (limNum limSize : Nat) (st : St) (id : Nat) (h : Good init st)
    (hlim : Lim limNum limSize st) :
    Good init (connect st id) ∧ (connect st id).n = st.n ∧ (∀ c, ((connect st id).recs c).ev = (st.recs c).ev) ∧
    Lim limNum limSize (connect st id) := by
  refine ⟨?_, rfl, fun _ => rfl, hlim⟩
  unfold Good at h ⊢
  exact {
    relsync := fun c => by
      show nRel c (.connect id :: st.trace) = _
      rw [nRel_connect]; exact h.relsync c
    noproc := fun c hc => by
      show nProc c (.connect id :: st.trace) = _
      rw [nProc_connect]; exact h.noproc c hc
    procOk := by
      show procOk (.connect id :: st.trace) = true
      rw [procOk_connect]; exact h.procOk
    relOk := by
      show relOk (.connect id :: st.trace) = true
      rw [relOk_connect]; exact h.relOk
    incId := h.incId
    incNodup := h.incNodup
    incLen := h.incLen
    buffered := h.buffered
    fresh := h.fresh
    parents := by
      intro evOf hev
      obtain ⟨a, b⟩ := h.parents evOf hev
      refine ⟨?_, ?_⟩
      · show parentsOk evOf init (.connect id :: st.trace) = true
        rw [parentsOk_connect]; exact a
      · show id :: st.conn = connOf evOf init (.connect id :: st.trace)
        rw [connOf_connect, b]
    oof := h.oof }

theorem run_good (O : Oracle) (limNum limSize : Nat) (init : List Nat) :
    ∀ (ops : List Op) (st : St), Good init st → Lim limNum limSize st →
      Good init (run true O limNum limSize st ops) ∧ Lim limNum limSize (run true O limNum limSize st ops) ∧
      (run true O limNum limSize st ops).n ≤ st.n + ops.length := by
  intro ops
  induction ops with
  | nil => intro st h l; exact ⟨h, l, Nat.le_refl _⟩
  | cons op ops ih =>
    intro st h l
    unfold run
    rw [List.foldl_cons]
    have key : Good init (step true O limNum limSize st op) ∧ Lim limNum limSize (step true O limNum limSize st op) ∧
        (step true O limNum limSize st op).n ≤ st.n + 1 := by
      cases op with
      | push e =>
        obtain ⟨a, b, _, _, d⟩ := pushEvent_post init O limNum limSize st e st.n h l
        exact ⟨a, d, Nat.le_of_eq b⟩
      | connect id =>
        obtain ⟨a, b, _, d⟩ := connect_post init limNum limSize st id h l
        exact ⟨a, d, by show (connect st id).n ≤ _; rw [b]; omega⟩
      | clear =>
        obtain ⟨a, b, _, d, _⟩ := clear_post init limNum limSize st h
        exact ⟨a, d, by show (clear st).n ≤ _; rw [b]; omega⟩
    obtain ⟨a, b, c⟩ := ih _ key.1 key.2.1
    refine ⟨a, b, ?_⟩
    have := key.2.2
    simp only [List.length_cons]
    unfold run at c
    omega

theorem lim_init (limNum limSize : Nat) (init : List Nat) : Lim limNum limSize (St.init init) := Or.inr rfl

end C14
