import LachesisVerif.Proofs.RefEquivH
/-!
# Reference equivalence, part I: the votes of one frame (`votesOfFrame`)

`voteOf` is the body of `votesOfFrame` (one root, one subject); `VotesOK s f k fv` says that the
table `fv` holds, for every root `r` of frame `f + k` and every subject `v`, the vote of the rules
in the election of frame `f`: `yes ↔ N.voteYes f k r v`, `decided ↔ DecidesYes ∨ DecidesNo` (a
decided yes is a `DecidesYes`, a decided no a `DecidesNo`), and a yes-vote carries a root of the
subject in frame `f` that a root of frame `f + 1` forkless-causes (`ObsOK`).
`votesOK_first` (round 1) and `votesOK_step` (round `k + 1` from round `k`) prove it for the tables
computed by `votesOfFrame`, for every `Good` instance with accepted frames.
-/
namespace RefEquiv
open Spec.Lachesis VecProofs Model.Vec ElectionRules
open Spec.Lachesis.Inst (Vote FrameVotes lookupVote)

/-- the vote computed by `votesOfFrame` for root `r` and subject `v` -/
def voteOf (s : Inst) (f fr : Nat) (prev : FrameVotes) (r v : Nat) : Vote :=
  if fr == f + 1 then
    match (s.rootsAt f).find? (fun b => s.creatorIdx b == v && s.fcSpec r b) with
    | some b => { yes := true, decided := false, obs := b }
    | none => { yes := false, decided := false, obs := 0 }
  else
    let seen := (s.rootsAt (fr - 1)).filter (fun p => s.fcSpec r p)
    let yesR := seen.filter (fun p => (lookupVote prev p v).yes)
    let noR := seen.filter (fun p => !(lookupVote prev p v).yes)
    let wOf := fun (l : List Nat) => s.weightMask (l.foldl (fun m p => m ||| (1 <<< s.creatorIdx p)) 0)
    let yw := wOf yesR
    let nw := wOf noR
    let obs := match yesR with | [] => 0 | p :: _ => (lookupVote prev p v).obs
    { yes := decide (yw ≥ nw), decided := decide (yw ≥ s.quorum) || decide (nw ≥ s.quorum), obs := obs }

theorem votesOfFrame_eq (s : Inst) (f fr : Nat) (prev : FrameVotes) :
    s.votesOfFrame f fr prev =
      (s.rootsAt fr).map (fun r => (r, Array.ofFn (n := s.nv) (fun v => voteOf s f fr prev r v.val))) := rfl

theorem lookupVote_map (l : List Nat) (g : Nat → Array Vote) {r : Nat} (hr : r ∈ l) (v : Nat) :
    lookupVote (l.map (fun r => (r, g r))) r v = (g r).getD v default := by
  unfold lookupVote
  induction l with
  | nil => cases hr
  | cons x xs ih =>
    rw [List.map_cons, List.find?_cons]
    by_cases hx : x = r
    · subst hx
      simp
    · have hne : ((x, g x).1 == r) = false := by simpa using hx
      rw [hne]
      rcases List.mem_cons.1 hr with h | h
      · exact absurd h.symm hx
      · exact ih h

theorem getD_ofFn {n : Nat} (g : Nat → Vote) {v : Nat} (hv : v < n) :
    (Array.ofFn (n := n) (fun i => g i.val)).getD v default = g v := by
  rw [Array.getD_eq_getD_getElem?, Array.getElem?_ofFn, dif_pos hv]
  rfl

/-- reading the table computed by `votesOfFrame` -/
theorem lookupVote_votesOfFrame (s : Inst) (f fr : Nat) (prev : FrameVotes) {r v : Nat}
    (hr : r ∈ s.rootsAt fr) (hv : v < s.nv) :
    lookupVote (s.votesOfFrame f fr prev) r v = voteOf s f fr prev r v := by
  rw [votesOfFrame_eq, lookupVote_map _ (fun r => Array.ofFn (n := s.nv) (fun v => voteOf s f fr prev r v.val)) hr,
    getD_ofFn (fun v => voteOf s f fr prev r v) hv]

/-- the candidate carried by a yes-vote: a root of the subject in the frame to decide that some root
    of the next frame forkless-causes -/
def ObsOK (N : Net) (f v b : Nat) : Prop :=
  N.IsRoot b f ∧ N.creator b = v ∧ ∃ r, N.IsRoot r (f + 1) ∧ N.FC r b

/-- the table `fv` holds the votes of the rules for the roots of frame `f + k` -/
def VotesOK (s : Inst) (f k : Nat) (fv : FrameVotes) : Prop :=
  ∀ r v, r ∈ s.rootsAt (f + k) → v < s.nv →
    ((lookupVote fv r v).yes = true ↔ (netOf s).voteYes f k r v) ∧
    ((lookupVote fv r v).decided = true → (lookupVote fv r v).yes = true → (netOf s).DecidesYes f k r v) ∧
    ((lookupVote fv r v).decided = true → (lookupVote fv r v).yes = false → (netOf s).DecidesNo f k r v) ∧
    (((netOf s).DecidesYes f k r v ∨ (netOf s).DecidesNo f k r v) → (lookupVote fv r v).decided = true) ∧
    ((lookupVote fv r v).yes = true → ObsOK (netOf s) f v (lookupVote fv r v).obs)

section votes
variable {s : Inst}

/-- weight of the creators of the roots of frame `g` that `r` forkless-causes and that pass `Pb` -/
theorem weight_filter_roots (hg : Good s) {r : Nat} (hr : r < s.size) (g : Nat) (Pb : Nat → Bool)
    (P : Nat → Prop) (hP : ∀ p, p ∈ s.rootsAt g → (Pb p = true ↔ P p)) :
    s.weightMask ((((s.rootsAt g).filter (fun p => s.fcSpec r p)).filter Pb).foldl
        (fun m p => m ||| (1 <<< s.creatorIdx p)) 0) = (netOf s).causedWeight r g P := by
  rw [weight_creatorMask]
  unfold Net.causedWeight
  apply Net.weightOf_congr
  intro v _
  constructor
  · rintro ⟨p, hp, hc⟩
    rw [List.mem_filter, List.mem_filter] at hp
    obtain ⟨⟨hp1, hfc⟩, hpb⟩ := hp
    have hlt := rootsAt_lt hp1
    exact ⟨p, (mem_rootsAt hg.inv).1 hp1, by rw [creator_netOf s hlt]; exact hc,
      (hg.fcSpec_iff_FC hr hlt).1 hfc, (hP p hp1).1 hpb⟩
  · rintro ⟨p, h1, h2, h3, h4⟩
    have hlt : p < s.size := by have := h1.1; rwa [length_netOf] at this
    have hp1 := (mem_rootsAt hg.inv).2 h1
    refine ⟨p, ?_, by rw [← creator_netOf s hlt]; exact h2⟩
    rw [List.mem_filter, List.mem_filter]
    exact ⟨⟨hp1, (hg.fcSpec_iff_FC hr hlt).2 h3⟩, (hP p hp1).2 h4⟩

/-- the roots a root forkless-causes split into those satisfying `P` and the others -/
theorem causedWeight_split (N : Net) (r g : Nat) (P : Nat → Prop) :
    N.causedWeight r g (fun _ => True) ≤ N.causedWeight r g P + N.causedWeight r g (fun p => ¬ P p) := by
  have h1 := N.weightOf_add (fun u => ∃ p, N.IsRoot p g ∧ N.creator p = u ∧ N.FC r p ∧ P p)
    (fun u => ∃ p, N.IsRoot p g ∧ N.creator p = u ∧ N.FC r p ∧ ¬ P p)
  have h2 : N.causedWeight r g (fun _ => True) ≤
      N.weightOf (fun u => (∃ p, N.IsRoot p g ∧ N.creator p = u ∧ N.FC r p ∧ P p) ∨
        (∃ p, N.IsRoot p g ∧ N.creator p = u ∧ N.FC r p ∧ ¬ P p)) := by
    apply N.weightOf_mono
    rintro u _ ⟨p, a, b, c, _⟩
    by_cases hp : P p
    · exact Or.inl ⟨p, a, b, c, hp⟩
    · exact Or.inr ⟨p, a, b, c, hp⟩
  have h2' : N.weightOf (fun u => ∃ p, N.IsRoot p g ∧ N.creator p = u ∧ N.FC r p ∧ True) ≤ _ := h2
  show N.weightOf (fun u => ∃ p, N.IsRoot p g ∧ N.creator p = u ∧ N.FC r p ∧ True) ≤
    N.weightOf (fun u => ∃ p, N.IsRoot p g ∧ N.creator p = u ∧ N.FC r p ∧ P p) +
    N.weightOf (fun u => ∃ p, N.IsRoot p g ∧ N.creator p = u ∧ N.FC r p ∧ ¬ P p)
  omega

/-- weight of the creators of a list of events (the `wOf` of `votesOfFrame`) -/
def cmask (s : Inst) (l : List Nat) : Nat :=
  s.weightMask (l.foldl (fun m p => m ||| (1 <<< s.creatorIdx p)) 0)

/-- the previous-frame roots forkless-caused by `r` that vote yes / no on `v` -/
def yesRoots (s : Inst) (g : Nat) (prev : FrameVotes) (r v : Nat) : List Nat :=
  ((s.rootsAt g).filter (fun p => s.fcSpec r p)).filter (fun p => (lookupVote prev p v).yes)
def noRoots (s : Inst) (g : Nat) (prev : FrameVotes) (r v : Nat) : List Nat :=
  ((s.rootsAt g).filter (fun p => s.fcSpec r p)).filter (fun p => !(lookupVote prev p v).yes)

theorem voteOf_first (s : Inst) (f : Nat) (prev : FrameVotes) (r v : Nat) :
    voteOf s f (f + 1) prev r v =
      match (s.rootsAt f).find? (fun b => s.creatorIdx b == v && s.fcSpec r b) with
      | some b => { yes := true, decided := false, obs := b }
      | none => { yes := false, decided := false, obs := 0 } := by
  unfold voteOf
  rw [if_pos (beq_self_eq_true _)]

theorem voteOf_later (s : Inst) (f k : Nat) (hk : 1 ≤ k) (prev : FrameVotes) (r v : Nat) :
    voteOf s f (f + (k + 1)) prev r v =
      { yes := decide (cmask s (yesRoots s (f + k) prev r v) ≥ cmask s (noRoots s (f + k) prev r v)),
        decided := decide (cmask s (yesRoots s (f + k) prev r v) ≥ s.quorum) ||
                   decide (cmask s (noRoots s (f + k) prev r v) ≥ s.quorum),
        obs := match yesRoots s (f + k) prev r v with
               | [] => 0
               | p :: _ => (lookupVote prev p v).obs } := by
  unfold voteOf
  have hne : (f + (k + 1) == f + 1) = false := by
    rw [beq_eq_false_iff_ne]; omega
  rw [hne, if_neg Bool.false_ne_true, show f + (k + 1) - 1 = f + k by omega]
  rfl

/-- round 1: a root of frame `f + 1` votes yes for `v` iff it forkless-causes a root of `v` in frame `f` -/
theorem votesOK_first (hg : Good s) (f : Nat) (prev : FrameVotes) :
    VotesOK s f 1 (s.votesOfFrame f (f + 1) prev) := by
  intro r v hr hv
  have hrlt := rootsAt_lt hr
  have hroot := (mem_rootsAt hg.inv).1 hr
  rw [lookupVote_votesOfFrame s f (f + 1) prev hr hv, voteOf_first]
  have hyes : (netOf s).voteYes f 1 r v ↔ ∃ b, (netOf s).IsRoot b f ∧ (netOf s).creator b = v ∧ (netOf s).FC r b :=
    Iff.rfl
  have hnd : ¬ ((netOf s).DecidesYes f 1 r v ∨ (netOf s).DecidesNo f 1 r v) := by
    rintro (h | h) <;> exact absurd h.1 (by omega)
  cases hfind : (s.rootsAt f).find? (fun b => s.creatorIdx b == v && s.fcSpec r b) with
  | none =>
    refine ⟨?_, fun h => Bool.noConfusion h, fun h => Bool.noConfusion h, fun h => absurd h hnd,
      fun h => Bool.noConfusion h⟩
    rw [hyes]
    refine ⟨fun h => Bool.noConfusion h, ?_⟩
    rintro ⟨b, h1, h2, h3⟩
    have hblt : b < s.size := by have := h1.1; rwa [length_netOf] at this
    have := List.find?_eq_none.1 hfind b ((mem_rootsAt hg.inv).2 h1)
    exfalso
    apply this
    rw [Bool.and_eq_true, beq_iff_eq, ← creator_netOf s hblt]
    exact ⟨h2, (hg.fcSpec_iff_FC hrlt hblt).2 h3⟩
  | some b =>
    have hmem := List.mem_of_find?_eq_some hfind
    have hp := List.find?_some hfind
    rw [Bool.and_eq_true, beq_iff_eq] at hp
    have hblt := rootsAt_lt hmem
    have hb : (netOf s).IsRoot b f ∧ (netOf s).creator b = v ∧ (netOf s).FC r b :=
      ⟨(mem_rootsAt hg.inv).1 hmem, by rw [creator_netOf s hblt]; exact hp.1,
        (hg.fcSpec_iff_FC hrlt hblt).1 hp.2⟩
    refine ⟨⟨fun _ => hyes.2 ⟨b, hb⟩, fun _ => rfl⟩, fun h => Bool.noConfusion h,
      fun h => Bool.noConfusion h, fun h => absurd h hnd, fun _ => ⟨hb.1, hb.2.1, r, hroot, hb.2.2⟩⟩

theorem mem_yesRoots {g : Nat} {prev : FrameVotes} {r v p : Nat} :
    p ∈ yesRoots s g prev r v ↔ p ∈ s.rootsAt g ∧ s.fcSpec r p = true ∧ (lookupVote prev p v).yes = true := by
  unfold yesRoots
  rw [List.mem_filter, List.mem_filter, and_assoc]

/-- round `k + 1` from round `k`: weighted majority of the forkless-caused roots of the previous
    frame (a tie is a yes), decided when one side holds a quorum -/
theorem votesOK_step (hg : Good s) (hfa : (netOf s).FramesAccepted) (f k : Nat) (hk : 1 ≤ k)
    (prev : FrameVotes) (hprev : VotesOK s f k prev) :
    VotesOK s f (k + 1) (s.votesOfFrame f (f + (k + 1)) prev) := by
  intro r v hr hv
  have hrlt := rootsAt_lt hr
  have hroot : (netOf s).IsRoot r (f + (k + 1)) := (mem_rootsAt hg.inv).1 hr
  rw [lookupVote_votesOfFrame s f (f + (k + 1)) prev hr hv, voteOf_later s f k hk]
  have hyw : cmask s (yesRoots s (f + k) prev r v) =
      (netOf s).causedWeight r (f + k) (fun p => (netOf s).voteYes f k p v) :=
    weight_filter_roots hg hrlt (f + k) _ _ (fun p hp => (hprev p v hp hv).1)
  have hnw : cmask s (noRoots s (f + k) prev r v) =
      (netOf s).causedWeight r (f + k) (fun p => ¬ (netOf s).voteYes f k p v) :=
    weight_filter_roots hg hrlt (f + k) _ _ (fun p hp => by
      rw [Bool.not_eq_true', ← (hprev p v hp hv).1, Bool.not_eq_true])
  have hall := (netOf s).root_prev_quorum hfa (g := f + k) hroot (by omega)
  have hsplit := causedWeight_split (netOf s) r (f + k) (fun p => (netOf s).voteYes f k p v)
  have hq := quorum_netOf s
  have hqp := quorum_pos s
  have hvy := (netOf s).voteYes_succ f k r v hk
  have hdy := (netOf s).decidesYes_succ f k r v hk
  have hdn := (netOf s).decidesNo_succ f k r v hk
  rw [hyw, hnw]
  generalize (netOf s).causedWeight r (f + k) (fun p => (netOf s).voteYes f k p v) = Y at *
  generalize (netOf s).causedWeight r (f + k) (fun p => ¬ (netOf s).voteYes f k p v) = W at *
  refine ⟨?_, ?_, ?_, ?_, ?_⟩
  · show decide (Y ≥ W) = true ↔ _
    rw [decide_eq_true_iff, hvy]
  · show (decide (Y ≥ s.quorum) || decide (W ≥ s.quorum)) = true → decide (Y ≥ W) = true → _
    rw [Bool.or_eq_true, decide_eq_true_iff, decide_eq_true_iff, decide_eq_true_iff, hdy]
    intro h1 h2
    exact ⟨hroot, by omega⟩
  · show (decide (Y ≥ s.quorum) || decide (W ≥ s.quorum)) = true → decide (Y ≥ W) = false → _
    rw [Bool.or_eq_true, decide_eq_true_iff, decide_eq_true_iff, decide_eq_false_iff_not, hdn]
    intro h1 h2
    exact ⟨hroot, by omega⟩
  · show _ → (decide (Y ≥ s.quorum) || decide (W ≥ s.quorum)) = true
    rw [Bool.or_eq_true, decide_eq_true_iff, decide_eq_true_iff, hdy, hdn]
    rintro (h | h)
    · left; have := h.2; omega
    · right; have := h.2; omega
  · show decide (Y ≥ W) = true → ObsOK (netOf s) f v
        (match yesRoots s (f + k) prev r v with | [] => 0 | p :: _ => (lookupVote prev p v).obs)
    rw [decide_eq_true_iff]
    intro h1
    cases hY : yesRoots s (f + k) prev r v with
    | nil =>
      exfalso
      rw [hY] at hyw
      have : cmask s [] = 0 := weightMask_zero s
      omega
    | cons p ps =>
      have hp : p ∈ yesRoots s (f + k) prev r v := by rw [hY]; exact List.mem_cons_self
      obtain ⟨hp1, _, hp3⟩ := mem_yesRoots.1 hp
      exact (hprev p v hp1 hv).2.2.2.2 hp3

end votes
end RefEquiv
