import LachesisVerif.Proofs.ElectionRefineA
/-!
Single-election refinement (C10), part B: `voteLoop` as a fold of `pushVote`, the observed-roots
map, and `chooseAtropos` over validators in canonical numbering.
-/
namespace ElectionRefine
open Model.Pos Model.Election ElectionRules ElectionProofs

/-- the election after the votes `vf s` of root `nr` on the subjects have been stored -/
def pushAll (nr : Root) (vf : Nat → VoteValue) (subjects : List Nat) (e : Election) : Election :=
  subjects.foldl (fun e s => pushVote e nr s (vf s)) e

/-- if every subject's vote is computed without error (and is `vf s`), the loop stores them all -/
theorem voteLoop_eq_pushAll (el : Election) (nr : Root) (round : Nat) (om : List (Nat × Root)) (obs : List Root)
    (vf : Nat → VoteValue) (subjects : List Nat)
    (hfirst : Gen.Election.firstRound round = true → ∀ s ∈ subjects, vf s = firstVote om s)
    (hlater : Gen.Election.firstRound round = false → ∀ s ∈ subjects, ∃ t, tally el s obs (tally0 el) = .ok t ∧
      Gen.Election.notEnoughVotes (hasQuorum el.vals t.all) = false ∧ vf s = roundVote el t) :
    ∀ e, voteLoop el nr round om obs subjects e = .ok (pushAll nr vf subjects e) := by
  induction subjects with
  | nil => intro e; rfl
  | cons s rest ih =>
    intro e
    have ih' := ih (fun h x hx => hfirst h x (List.mem_cons_of_mem _ hx))
      (fun h x hx => hlater h x (List.mem_cons_of_mem _ hx))
    by_cases hf : Gen.Election.firstRound round = true
    · rw [voteLoop_cons_first _ _ _ _ _ _ _ _ hf, ih', ← hfirst hf s List.mem_cons_self]
      rfl
    · have hf' : Gen.Election.firstRound round = false := by simpa using hf
      obtain ⟨t, ht, hne, hv⟩ := hlater hf' s List.mem_cons_self
      rw [voteLoop_cons_later _ _ _ _ _ _ _ _ hf', ht]
      simp only
      rw [if_neg (by rw [hne]; exact Bool.false_ne_true), ih', ← hv]
      rfl

theorem pushAll_ftd (nr : Root) (vf : Nat → VoteValue) (subjects : List Nat) (e : Election) :
    (pushAll nr vf subjects e).frameToDecide = e.frameToDecide := by
  induction subjects generalizing e with
  | nil => rfl
  | cons s rest ih => exact (ih _).trans (pushVote_ftd _ _ _ _)

theorem pushAll_vals (nr : Root) (vf : Nat → VoteValue) (subjects : List Nat) (e : Election) :
    (pushAll nr vf subjects e).vals = e.vals := by
  induction subjects generalizing e with
  | nil => rfl
  | cons s rest ih => exact (ih _).trans (pushVote_vals _ _ _ _)

/-- stored votes after the loop: the old ones and one per subject -/
theorem pushAll_votes_mem (nr : Root) (vf : Nat → VoteValue) (subjects : List Nat) (e : Election)
    (x : (Root × Nat) × VoteValue) :
    x ∈ (pushAll nr vf subjects e).votes ↔ x ∈ e.votes ∨ ∃ s ∈ subjects, x = ((nr, s), vf s) := by
  induction subjects generalizing e with
  | nil => simp [pushAll]
  | cons s rest ih =>
    show x ∈ (pushAll nr vf rest (pushVote e nr s (vf s))).votes ↔ _
    rw [ih, pushVote_votes]
    simp only [List.mem_cons]
    constructor
    · rintro ((h | h) | ⟨s', hs', h⟩)
      · exact Or.inr ⟨s, Or.inl rfl, h⟩
      · exact Or.inl h
      · exact Or.inr ⟨s', Or.inr hs', h⟩
    · rintro (h | ⟨s', hs' | hs', h⟩)
      · exact Or.inl (Or.inr h)
      · subst hs'; exact Or.inl (Or.inl h)
      · exact Or.inr ⟨s', hs', h⟩

theorem pushAll_decided_mem (nr : Root) (vf : Nat → VoteValue) (subjects : List Nat) (e : Election)
    (x : Nat × VoteValue) :
    x ∈ (pushAll nr vf subjects e).decidedRoots ↔
      x ∈ e.decidedRoots ∨ ∃ s ∈ subjects, (vf s).decided = true ∧ x = (s, vf s) := by
  induction subjects generalizing e with
  | nil => simp [pushAll]
  | cons s rest ih =>
    show x ∈ (pushAll nr vf rest (pushVote e nr s (vf s))).decidedRoots ↔ _
    rw [ih, pushVote_decided]
    by_cases hd : (vf s).decided = true
    · rw [if_pos hd]
      simp only [List.mem_cons]
      constructor
      · rintro ((h | h) | ⟨s', hs', h⟩)
        · exact Or.inr ⟨s, Or.inl rfl, hd, h⟩
        · exact Or.inl h
        · exact Or.inr ⟨s', Or.inr hs', h⟩
      · rintro (h | ⟨s', hs' | hs', h⟩)
        · exact Or.inl (Or.inr h)
        · subst hs'; exact Or.inl (Or.inl h.2)
        · exact Or.inr ⟨s', hs', h⟩
    · rw [if_neg hd]
      simp only [List.mem_cons]
      constructor
      · rintro (h | ⟨s', hs', h⟩)
        · exact Or.inl h
        · exact Or.inr ⟨s', Or.inr hs', h⟩
      · rintro (h | ⟨s', hs' | hs', h⟩)
        · exact Or.inl h
        · subst hs'; exact absurd h.1 hd
        · exact Or.inr ⟨s', hs', h⟩

theorem lookup_isSome_of_key {α β} [BEq α] [LawfulBEq α] (l : List (α × β)) (k : α)
    (h : k ∈ l.map (·.1)) : ∃ v, l.lookup k = some v := by
  cases hl : l.lookup k with
  | some v => exact ⟨v, rfl⟩
  | none => exact absurd h (lookup_none_not_mem l k (by rw [hl]; rfl))

/-- every seen root's validator has an entry in the observed-roots map -/
theorem seenMap_keys (l : List Root) (m0 : List (Nat × Root)) :
    (∀ k ∈ m0.map (·.1), k ∈ (l.foldl (fun m r => (r.validator, r) :: m.filter (fun x => x.1 != r.validator)) m0).map (·.1)) ∧
    (∀ r ∈ l, r.validator ∈ (l.foldl (fun m r => (r.validator, r) :: m.filter (fun x => x.1 != r.validator)) m0).map (·.1)) := by
  induction l generalizing m0 with
  | nil => exact ⟨fun k hk => hk, fun r hr => by cases hr⟩
  | cons r rest ih =>
    simp only [List.foldl_cons]
    obtain ⟨i1, i2⟩ := ih ((r.validator, r) :: m0.filter (fun x => x.1 != r.validator))
    constructor
    · intro k hk
      apply i1
      by_cases hkr : k = r.validator
      · subst hkr; simp
      · obtain ⟨x, hx, rfl⟩ := List.mem_map.1 hk
        simp only [List.map_cons, List.mem_cons]
        right
        exact List.mem_map.2 ⟨x, List.mem_filter.2 ⟨hx, by simpa using hkr⟩, rfl⟩
    · intro r' hr'
      rcases List.mem_cons.1 hr' with rfl | hr'
      · apply i1; simp
      · exact i2 r' hr'

/-- `chooseAtropos` over validators numbered `a … a+m-1`: a returned Atropos comes from the first
    validator decided yes, all earlier ones being decided no -/
theorem chooseAtroposFrom_range (el : Election) (w : Nat → Nat) (m : Nat) : ∀ (a : Nat) (f' x : Nat),
    chooseAtroposFrom el ((List.range' a m).map (fun i => (i, w i))) = .ok (some (f', x)) →
    f' = el.frameToDecide ∧ ∃ v, a ≤ v ∧ v < a + m ∧
      (∀ u, a ≤ u → u < v → ∃ vote, el.decidedRoots.lookup u = some vote ∧ vote.yes = false) ∧
      ∃ vote, el.decidedRoots.lookup v = some vote ∧ vote.yes = true ∧ vote.observedRoot = x := by
  induction m with
  | zero => intro a f' x h; simp [chooseAtroposFrom] at h
  | succ m ih =>
    intro a f' x h
    rw [List.range'_succ, List.map_cons] at h
    simp only [chooseAtroposFrom] at h
    cases hl : el.decidedRoots.lookup a with
    | none => rw [hl] at h; cases h
    | some vote =>
      rw [hl] at h
      simp only at h
      by_cases hy : vote.yes = true
      · rw [if_pos hy] at h
        simp only [Except.ok.injEq, Option.some.injEq, Prod.mk.injEq] at h
        exact ⟨h.1.symm, a, Nat.le_refl _, by omega, fun u h1 h2 => by omega, vote, hl, hy, h.2⟩
      · rw [if_neg hy] at h
        obtain ⟨h1, v, hv1, hv2, hno, hyes⟩ := ih (a + 1) f' x h
        refine ⟨h1, v, by omega, by omega, ?_, hyes⟩
        intro u hu1 hu2
        by_cases hua : u = a
        · subst hua; exact ⟨vote, hl, by simpa using hy⟩
        · exact hno u (by omega) hu2

/-- the only error of `chooseAtropos` is "all decided no", and then they all are -/
theorem chooseAtroposFrom_range_error (el : Election) (w : Nat → Nat) (m : Nat) : ∀ (a : Nat) (e : ElErr),
    chooseAtroposFrom el ((List.range' a m).map (fun i => (i, w i))) = .error e →
    e = .allNo ∧ ∀ u, a ≤ u → u < a + m → ∃ vote, el.decidedRoots.lookup u = some vote ∧ vote.yes = false := by
  induction m with
  | zero => intro a e h; simp only [List.range'_zero, List.map_nil, chooseAtroposFrom] at h; cases h; exact ⟨rfl, fun u h1 h2 => by omega⟩
  | succ m ih =>
    intro a e h
    rw [List.range'_succ, List.map_cons] at h
    simp only [chooseAtroposFrom] at h
    cases hl : el.decidedRoots.lookup a with
    | none => rw [hl] at h; cases h
    | some vote =>
      rw [hl] at h
      simp only at h
      by_cases hy : vote.yes = true
      · rw [if_pos hy] at h; cases h
      · rw [if_neg hy] at h
        obtain ⟨h1, hno⟩ := ih (a + 1) e h
        refine ⟨h1, ?_⟩
        intro u hu1 hu2
        by_cases hua : u = a
        · subst hua; exact ⟨vote, hl, by simpa using hy⟩
        · exact hno u (by omega) (by omega)

end ElectionRefine
