import LachesisVerif.Proofs.ElectionInv
import LachesisVerif.Proofs.ElectionL4
import LachesisVerif.Props.C11
/-!
Single-election refinement (C10), part A: the weight counters of `Model.Pos` over a validator set in
canonical numbering compute `wsum` (the weight of a set of validator indices), and the inner `tally`
loop of `ProcessRoot` computes the yes / no / all weights of the observed roots without reaching
any of its error branches.
-/
namespace ElectionRefine
open Model.Pos Model.Election ElectionRules ElectionProofs

/-- validators are numbered by canonical index `0 … n-1` and carry the weights `w` -/
def Canon (vals : Vals) (n : Nat) (w : Nat → Nat) : Prop :=
  vals.sorted = (List.range n).map (fun i => (i, w i))

theorem canon_len {vals : Vals} {n : Nat} {w : Nat → Nat} (hc : Canon vals n w) : vals.len = n := by
  unfold Vals.len; rw [hc]; simp

theorem canon_idxOf {vals : Vals} {n : Nat} {w : Nat → Nat} (hc : Canon vals n w) {id : Nat} (h : id < n) :
    vals.idxOf id = id := by
  unfold Vals.idxOf
  rw [hc]
  have : ((List.range n).map (fun i => (i, w i))).findIdx? (fun p => p.1 == id) = some id := by
    rw [List.findIdx?_eq_some_iff_getElem]
    refine ⟨by simpa using h, by simp, ?_⟩
    intro j hj
    simp
    omega
  rw [this]; rfl

theorem canon_weights {vals : Vals} {n : Nat} {w : Nat → Nat} (hc : Canon vals n w) :
    C11.weights vals = (List.range n).map w := by
  unfold C11.weights; rw [hc, List.map_map]; rfl

theorem canon_weight {vals : Vals} {n : Nat} {w : Nat → Nat} (hc : Canon vals n w) {i : Nat} (h : i < n) :
    vals.weightByIdx i = w i := by
  rw [C11.weightByIdx_eq, canon_weights hc]
  simp [List.getD_eq_getElem?_getD, h]

theorem canon_ids {vals : Vals} {n : Nat} {w : Nat → Nat} (hc : Canon vals n w) :
    vals.sorted.map (·.1) = List.range n := by
  rw [hc, List.map_map]
  exact List.map_id' _

/-- the masked sum of C11 over a range is `wsum` of the mask -/
theorem msum_range' (w : Nat → Nat) (n : Nat) : ∀ (a : Nat) (m : List Bool),
    C11.msum ((List.range' a n).map w) m = wsum w (List.range' a n) (fun i => m.getD (i - a) false = true) := by
  induction n with
  | zero => intro a m; cases m <;> rfl
  | succ n ih =>
    intro a m
    rw [List.range'_succ, List.map_cons, wsum_cons]
    cases m with
    | nil =>
      rw [wsum_zero _ _ _ (by intro v _; simp)]
      simp [C11.msum]
    | cons b bs =>
      simp only [C11.msum]
      rw [ih (a + 1) bs]
      have e : wsum w (List.range' (a + 1) n) (fun i => (b :: bs).getD (i - a) false = true) =
          wsum w (List.range' (a + 1) n) (fun i => bs.getD (i - (a + 1)) false = true) := by
        apply wsum_congr
        intro v hv
        have : a + 1 ≤ v := (List.mem_range'_1.1 hv).1
        have e2 : v - a = (v - (a + 1)) + 1 := by omega
        rw [e2, List.getD_cons_succ]
      rw [e]
      simp

theorem msum_range (w : Nat → Nat) (n : Nat) (m : List Bool) :
    C11.msum ((List.range n).map w) m = wsum w (List.range n) (fun i => m.getD i false = true) := by
  rw [List.range_eq_range']
  exact msum_range' w n 0 m

/-- the standing assumptions on the validator set -/
structure ValsOK (vals : Vals) (n : Nat) (w : Nat → Nat) : Prop where
  canon : Canon vals n w
  total : (C11.weights vals).sum = vals.total
  limit : Gen.Pos.overLimit vals.total = false

/-- counter `c` has counted exactly the validators in `S` -/
structure CSet (vals : Vals) (n : Nat) (c : Counter) (S : Nat → Prop) : Prop where
  inv : C11.CInv vals c
  mem : ∀ i, i < n → (c.already.getD i false = true ↔ S i)

theorem CSet.congr {vals : Vals} {n : Nat} {c : Counter} {S S' : Nat → Prop} (h : CSet vals n c S)
    (hS : ∀ i, i < n → (S i ↔ S' i)) : CSet vals n c S' :=
  ⟨h.inv, fun i hi => (h.mem i hi).trans (hS i hi)⟩

theorem CSet.sum {vals : Vals} {n : Nat} {w : Nat → Nat} {c : Counter} {S : Nat → Prop} (ok : ValsOK vals n w)
    (h : CSet vals n c S) : c.sum = wsum w (List.range n) S := by
  rw [h.inv.sum, canon_weights ok.canon, msum_range]
  apply wsum_congr
  intro v hv
  exact h.mem v (List.mem_range.1 hv)

theorem CSet.new (vals : Vals) (n : Nat) : CSet vals n vals.newCounter (fun _ => False) :=
  ⟨C11.newCounter_inv vals, fun i _ => by
    simp only [Vals.newCounter, List.getD_eq_getElem?_getD, List.getElem?_replicate]
    split <;> simp⟩

theorem getD_set_true (l : List Bool) (i j : Nat) (hi : i < l.length) :
    (l.set i true).getD j false = true ↔ (l.getD j false = true ∨ j = i) := by
  rw [List.getD_eq_getElem?_getD, List.getD_eq_getElem?_getD, List.getElem?_set]
  by_cases hij : i = j
  · subst hij; simp [hi]
  · simp only [if_neg hij]
    constructor
    · intro h; exact Or.inl h
    · rintro (h | h)
      · exact h
      · exact absurd h.symm hij

/-- `Count` of validator `id` -/
theorem count_spec {vals : Vals} {n : Nat} {w : Nat → Nat} (ok : ValsOK vals n w) {c : Counter} {S : Nat → Prop}
    (h : CSet vals n c S) {id : Nat} (hid : id < n) :
    CSet vals n (count vals c id).1 (fun i => S i ∨ i = id) ∧ ((count vals c id).2 = true ↔ ¬ S id) := by
  rw [C11.count_eq, canon_idxOf ok.canon hid]
  have hlen := canon_len ok.canon
  obtain ⟨g1, g2, g3⟩ := C11.countByIdx_spec vals c id ok.total ok.limit (by omega) h.inv
  by_cases hal : c.already.getD id false = true
  · have hS : S id := (h.mem id hid).1 hal
    rw [g2 hal]
    refine ⟨⟨h.inv, fun i hi => ?_⟩, by simp [hS]⟩
    rw [h.mem i hi]
    constructor
    · exact Or.inl
    · rintro (h1 | h1)
      · exact h1
      · rw [h1]; exact hS
  · have hal' : c.already.getD id false = false := by simpa using hal
    have hS : ¬ S id := fun hs => hal ((h.mem id hid).2 hs)
    obtain ⟨f1, _, f3⟩ := g3 hal'
    refine ⟨⟨g1, fun i hi => ?_⟩, by simp [f1, hS]⟩
    rw [f3, getD_set_true _ _ _ (by rw [h.inv.len]; omega), h.mem i hi]

theorem tally_cons_yes (el : Election) (s : Nat) (r : Root) (rest : List Root) (t : Tally) (vote : VoteValue)
    (hl : el.votes.lookup (r, s) = some vote) (hy : vote.yes = true)
    (hsub : ∀ h, t.subject = some h → h = vote.observedRoot)
    (hfresh : (count el.vals t.all r.validator).2 = true) :
    tally el s (r :: rest) t = tally el s rest
      { yes := (count el.vals t.yes r.validator).1, no := t.no,
        all := (count el.vals t.all r.validator).1, subject := some vote.observedRoot } := by
  have hc : (match t.subject with | some h => h != vote.observedRoot | none => false) = false := by
    cases hs : t.subject with
    | none => rfl
    | some h => simp [hsub h hs]
  simp only [tally, hl, hy, if_true, Bool.true_and, hfresh, Bool.not_true, Bool.false_eq_true, if_false]
  exact if_neg (fun h => Bool.false_ne_true (hc.symm.trans h))

theorem tally_cons_no (el : Election) (s : Nat) (r : Root) (rest : List Root) (t : Tally) (vote : VoteValue)
    (hl : el.votes.lookup (r, s) = some vote) (hy : vote.yes = false)
    (hfresh : (count el.vals t.all r.validator).2 = true) :
    tally el s (r :: rest) t = tally el s rest
      { yes := t.yes, no := (count el.vals t.no r.validator).1,
        all := (count el.vals t.all r.validator).1, subject := t.subject } := by
  simp only [tally, hl, hy, Bool.false_and, Bool.false_eq_true, if_false, hfresh, Bool.not_true]

/-- what the tally has counted so far -/
structure TS (vals : Vals) (n : Nat) (Cand : Nat → Prop) (t : Tally) (Sy Sn Sa : Nat → Prop) : Prop where
  yes : CSet vals n t.yes Sy
  no : CSet vals n t.no Sn
  all : CSet vals n t.all Sa
  subj : ∀ b, t.subject = some b → Cand b

/-- the tally loop over observed roots with pairwise different, not yet counted slot validators, whose
    votes on `s` are stored, finishes without error and has counted the yes / no / all validators -/
theorem tally_spec {el : Election} {n : Nat} {w : Nat → Nat} (ok : ValsOK el.vals n w) (Cand : Nat → Prop)
    (hC : ∀ b b', Cand b → Cand b' → b = b') (Y : Root → Prop) (s : Nat) (obs : List Root) :
    ∀ (t : Tally) (Sy Sn Sa : Nat → Prop), TS el.vals n Cand t Sy Sn Sa →
      (∀ r ∈ obs, r.validator < n ∧ ¬ Sa r.validator ∧ ∃ vote, el.votes.lookup (r, s) = some vote ∧
        (vote.yes = true ↔ Y r) ∧ (vote.yes = true → Cand vote.observedRoot)) →
      (obs.map (·.validator)).Nodup →
      ∃ t', tally el s obs t = .ok t' ∧
        TS el.vals n Cand t' (fun i => Sy i ∨ ∃ r ∈ obs, r.validator = i ∧ Y r)
          (fun i => Sn i ∨ ∃ r ∈ obs, r.validator = i ∧ ¬ Y r) (fun i => Sa i ∨ ∃ r ∈ obs, r.validator = i) := by
  induction obs with
  | nil =>
    intro t Sy Sn Sa ht _ _
    exact ⟨t, rfl, ⟨ht.yes.congr (by simp), ht.no.congr (by simp), ht.all.congr (by simp), ht.subj⟩⟩
  | cons r rest ih =>
    intro t Sy Sn Sa ht hobs hnd
    obtain ⟨hrn, hrfresh, vote, hl, hyY, hcand⟩ := hobs r List.mem_cons_self
    obtain ⟨hnd1, hnd2⟩ := List.nodup_cons.1 hnd
    obtain ⟨call, cfresh⟩ := count_spec ok ht.all hrn
    have hfresh := cfresh.2 hrfresh
    have hrest : ∀ r' ∈ rest, r'.validator < n ∧ ¬ (Sa r'.validator ∨ r'.validator = r.validator) ∧
        ∃ vote, el.votes.lookup (r', s) = some vote ∧ (vote.yes = true ↔ Y r') ∧
          (vote.yes = true → Cand vote.observedRoot) := by
      intro r' hr'
      obtain ⟨a1, a2, a3⟩ := hobs r' (List.mem_cons_of_mem _ hr')
      refine ⟨a1, ?_, a3⟩
      rintro (h | h)
      · exact a2 h
      · exact hnd1 (List.mem_map.2 ⟨r', hr', h⟩)
    by_cases hy : vote.yes = true
    · rw [tally_cons_yes el s r rest t vote hl hy (fun h hs => hC _ _ (ht.subj h hs) (hcand hy)) hfresh]
      obtain ⟨t', e1, e2⟩ := ih ⟨(count el.vals t.yes r.validator).1, t.no, (count el.vals t.all r.validator).1,
          some vote.observedRoot⟩
        (fun i => Sy i ∨ i = r.validator) Sn (fun i => Sa i ∨ i = r.validator)
        ⟨(count_spec ok ht.yes hrn).1, ht.no, call, fun b hb => by cases hb; exact hcand hy⟩ hrest hnd2
      refine ⟨t', e1, ⟨e2.yes.congr ?_, e2.no.congr ?_, e2.all.congr ?_, e2.subj⟩⟩
      · intro i _
        constructor
        · rintro ((h | h) | ⟨r', hr', h1, h2⟩)
          · exact Or.inl h
          · exact Or.inr ⟨r, List.mem_cons_self, h.symm, hyY.1 hy⟩
          · exact Or.inr ⟨r', List.mem_cons_of_mem _ hr', h1, h2⟩
        · rintro (h | ⟨r', hr', h1, h2⟩)
          · exact Or.inl (Or.inl h)
          · rcases List.mem_cons.1 hr' with rfl | hr'
            · exact Or.inl (Or.inr h1.symm)
            · exact Or.inr ⟨r', hr', h1, h2⟩
      · intro i _
        constructor
        · rintro (h | ⟨r', hr', h1, h2⟩)
          · exact Or.inl h
          · exact Or.inr ⟨r', List.mem_cons_of_mem _ hr', h1, h2⟩
        · rintro (h | ⟨r', hr', h1, h2⟩)
          · exact Or.inl h
          · rcases List.mem_cons.1 hr' with rfl | hr'
            · exact absurd (hyY.1 hy) h2
            · exact Or.inr ⟨r', hr', h1, h2⟩
      · intro i _
        constructor
        · rintro ((h | h) | ⟨r', hr', h1⟩)
          · exact Or.inl h
          · exact Or.inr ⟨r, List.mem_cons_self, h.symm⟩
          · exact Or.inr ⟨r', List.mem_cons_of_mem _ hr', h1⟩
        · rintro (h | ⟨r', hr', h1⟩)
          · exact Or.inl (Or.inl h)
          · rcases List.mem_cons.1 hr' with rfl | hr'
            · exact Or.inl (Or.inr h1.symm)
            · exact Or.inr ⟨r', hr', h1⟩
    · have hy' : vote.yes = false := by simpa using hy
      have hnY : ¬ Y r := fun h => hy (hyY.2 h)
      rw [tally_cons_no el s r rest t vote hl hy' hfresh]
      obtain ⟨t', e1, e2⟩ := ih ⟨t.yes, (count el.vals t.no r.validator).1, (count el.vals t.all r.validator).1,
          t.subject⟩
        Sy (fun i => Sn i ∨ i = r.validator) (fun i => Sa i ∨ i = r.validator)
        ⟨ht.yes, (count_spec ok ht.no hrn).1, call, ht.subj⟩ hrest hnd2
      refine ⟨t', e1, ⟨e2.yes.congr ?_, e2.no.congr ?_, e2.all.congr ?_, e2.subj⟩⟩
      · intro i _
        constructor
        · rintro (h | ⟨r', hr', h1, h2⟩)
          · exact Or.inl h
          · exact Or.inr ⟨r', List.mem_cons_of_mem _ hr', h1, h2⟩
        · rintro (h | ⟨r', hr', h1, h2⟩)
          · exact Or.inl h
          · rcases List.mem_cons.1 hr' with rfl | hr'
            · exact absurd h2 hnY
            · exact Or.inr ⟨r', hr', h1, h2⟩
      · intro i _
        constructor
        · rintro ((h | h) | ⟨r', hr', h1, h2⟩)
          · exact Or.inl h
          · exact Or.inr ⟨r, List.mem_cons_self, h.symm, hnY⟩
          · exact Or.inr ⟨r', List.mem_cons_of_mem _ hr', h1, h2⟩
        · rintro (h | ⟨r', hr', h1, h2⟩)
          · exact Or.inl (Or.inl h)
          · rcases List.mem_cons.1 hr' with rfl | hr'
            · exact Or.inl (Or.inr h1.symm)
            · exact Or.inr ⟨r', hr', h1, h2⟩
      · intro i _
        constructor
        · rintro ((h | h) | ⟨r', hr', h1⟩)
          · exact Or.inl h
          · exact Or.inr ⟨r, List.mem_cons_self, h.symm⟩
          · exact Or.inr ⟨r', List.mem_cons_of_mem _ hr', h1⟩
        · rintro (h | ⟨r', hr', h1⟩)
          · exact Or.inl (Or.inl h)
          · rcases List.mem_cons.1 hr' with rfl | hr'
            · exact Or.inl (Or.inr h1.symm)
            · exact Or.inr ⟨r', hr', h1⟩

end ElectionRefine
