import LachesisVerif.Proofs.RefEpochs2
/-!
# Several epochs, part 3: model = reference for one epoch that may be sealed

The model names an Atropos by its position in the epoch's graph, the reference by protocol number; the
model's seal oracle is `Env.sealAt : epoch → frame → Option Vals`, the reference's the table `Seals`
(`(epoch, frame) ↦ validator pairs`). `SealsAgree`: both have an entry at the same frames of the epoch.

`cut_rcut`: equal key sequences are cut at the same place. `epoch_model_eq_reference`: the one-epoch
theorem `RefEquiv.model_eq_reference` (no seals) + `OrdererEpochs.runEpoch_sim` (model) +
`refEpoch_sim` (reference).
-/
namespace RefEpochs
open Spec.Lachesis RefEquiv VecProofs ElectionRules OrdererProofs OrdererEpochs
open Model.Pos Model.Election Model.Orderer
open Spec.Lachesis.Inst (Block)

/-- what is compared: (epoch, frame, Atropos as protocol number, sealed) -/
abbrev Key := Nat × Nat × Nat × Bool

/-- a decided frame of the model, its Atropos named by `nm` (position ↦ protocol number) -/
def dkey (nm : Nat → Nat) (d : Decided) : Key := (d.epoch, d.frame, nm d.atropos, d.sealed)
/-- a block of the reference -/
def bkey (b : Block) : Key := (b.epoch, b.frame, b.atropos, b.sealed)

/-- the application of the model and the seal table of the reference seal the same frames of epoch `ep` -/
def SealsAgree (seals : Seals) (sealAt : Nat → Nat → Option Vals) (ep : Nat) : Prop :=
  ∀ f, (seals.lookup (ep, f)).isSome = (sealAt ep f).isSome

theorem keys_eq (nm : Nat → Nat) (ep : Nat) : ∀ (ds : List Decided) (out : List Block),
    ds.map (fun d => (d.frame, nm d.atropos)) = out.map (fun b => (b.frame, b.atropos)) →
    (∀ d ∈ ds, d.sealed = false ∧ d.epoch = ep) → (∀ b ∈ out, b.sealed = false ∧ b.epoch = ep) →
    ds.map (dkey nm) = out.map bkey := by
  intro ds
  induction ds with
  | nil => intro out h _ _; cases out with
    | nil => rfl
    | cons b bs => simp at h
  | cons d ds ih =>
    intro out h h1 h2
    cases out with
    | nil => simp at h
    | cons b bs =>
      simp only [List.map_cons, List.cons.injEq, Prod.mk.injEq] at h
      have a1 := h1 d List.mem_cons_self
      have a2 := h2 b List.mem_cons_self
      simp only [List.map_cons]
      rw [ih bs h.2 (fun x hx => h1 x (List.mem_cons_of_mem _ hx)) (fun x hx => h2 x (List.mem_cons_of_mem _ hx))]
      simp only [dkey, bkey, a1.1, a1.2, a2.1, a2.2, h.1.1, h.1.2]

/-- equal key sequences are cut at the same place, with entries of the two tables for the same frame -/
theorem cut_rcut (seals : Seals) (sealAt : Nat → Nat → Option Vals) (ep : Nat) (nm : Nat → Nat)
    (hs : SealsAgree seals sealAt ep) : ∀ (ds : List Decided) (out : List Block),
    ds.map (dkey nm) = out.map bkey →
    (cut sealAt ep ds = none → rcut seals ep out = none) ∧
    (∀ l nv, cut sealAt ep ds = some (l, nv) → ∃ l' pairs F, rcut seals ep out = some (l', pairs) ∧
      l.map (dkey nm) = l'.map bkey ∧ sealAt ep F = some nv ∧ seals.lookup (ep, F) = some pairs) := by
  intro ds
  induction ds with
  | nil =>
    intro out h
    cases out with
    | nil => exact ⟨fun _ => rfl, fun l nv hc => by simp [cut] at hc⟩
    | cons b bs => simp at h
  | cons d ds ih =>
    intro out h
    cases out with
    | nil => simp at h
    | cons b bs =>
      simp only [List.map_cons, List.cons.injEq] at h
      obtain ⟨hk, hrest⟩ := h
      have hk' := hk
      simp only [dkey, bkey, Prod.mk.injEq] at hk'
      obtain ⟨k1, k2, k3, k4⟩ := hk'
      obtain ⟨ih1, ih2⟩ := ih bs hrest
      have hsf := hs d.frame
      simp only [cut, rcut, ← k2]
      cases hsa : sealAt ep d.frame with
      | some nv =>
        rw [hsa] at hsf
        cases hlk : seals.lookup (ep, d.frame) with
        | none => rw [hlk] at hsf; cases hsf
        | some pairs =>
          refine ⟨fun hc => (by cases hc), fun l nv' hc => ?_⟩
          simp only [Option.some.injEq, Prod.mk.injEq] at hc
          obtain ⟨rfl, rfl⟩ := hc
          refine ⟨_, pairs, d.frame, rfl, ?_, hsa, hlk⟩
          simp only [List.map_cons, List.map_nil, dkey, bkey, k1, k2, k3]
      | none =>
        rw [hsa] at hsf
        cases hlk : seals.lookup (ep, d.frame) with
        | some pairs => rw [hlk] at hsf; cases hsf
        | none =>
          simp only
          cases hcd : cut sealAt ep ds with
          | none =>
            rw [ih1 hcd]
            exact ⟨fun _ => rfl, fun l nv hc => by cases hc⟩
          | some q =>
            obtain ⟨l0, nv0⟩ := q
            obtain ⟨l', pairs, F, r1, r2, r3, r4⟩ := ih2 l0 nv0 hcd
            rw [r1]
            refine ⟨fun hc => (by cases hc), fun l nv hc => ?_⟩
            simp only [Option.some.injEq, Prod.mk.injEq] at hc
            obtain ⟨rfl, rfl⟩ := hc
            exact ⟨_, pairs, F, rfl, by simp only [List.map_cons, hk, r2], r3, r4⟩

theorem sealedEpoch_eq (ep : Nat) (h : ep + 1 < 4294967296) : Gen.Orderer.sealedEpoch ep = ep + 1 :=
  Nat.mod_eq_of_lt h

/-- **Model = reference for one epoch that may be sealed.** The reference, started as `start ep rvals`
    (= `Inst.fresh`), accepts the checked events `evs` without seals (`Run`), ending in `s`; the model is
    given the events of the net of `s` in any parents-first order `ids` covering all of them, under `Ctx`
    for its oracles with the application switched off; the model's application `env.sealAt` and the
    reference's table `seals` have entries at the same frames of epoch `ep`. Then `runEpoch` (model) and
    `refEpoch` (reference, on `evs` in the reference's order) both succeed and emit the same
    `(epoch, frame, Atropos, sealed)` sequence; either both seal — at the same frame `F`, and then the
    model is *exactly* `initial (ep+1) nv` and the reference *exactly* `Inst.fresh (ep+1) pairs` for the
    two entries at `(ep, F)` — or neither does, nothing is skipped, and they end in epoch `ep` with the
    validators they started with and the same last decided frame. -/
theorem epoch_model_eq_reference {ep : Nat} {rvals : List (Nat × Nat)} {evs : List Ev} {s : Inst}
    {out : List Block} (hrun : Run ep rvals evs s out) {vals : Vals} {env : Env}
    (C : Ctx (netOf s) vals (noSeal env)) (seals : Seals) (hs : SealsAgree seals env.sealAt ep)
    (ids : List Nat) (hpf : PFFrom (netOf s) [] ids) (hall : ∀ e, e < s.size → e ∈ ids)
    (hepb : ep + 1 < 4294967296) :
    ∃ sm ds skm sr bs skr, runEpoch (netOf s) env ids (initial ep vals) [] = some (sm, ds, skm) ∧
      refEpoch seals evs (start ep rvals) [] = some (sr, bs, skr) ∧
      ds.map (dkey (fun a => (s.ev a).n)) = bs.map bkey ∧
      ((ds.any (·.sealed) = true ∧ bs.any (·.sealed) = true ∧ ∃ F nv pairs, env.sealAt ep F = some nv ∧
          seals.lookup (ep, F) = some pairs ∧ sm = initial (ep + 1) nv ∧ sr = Inst.fresh (ep + 1) pairs) ∨
       (ds.any (·.sealed) = false ∧ bs.any (·.sealed) = false ∧ skm = [] ∧ skr = [] ∧ sm.epoch = ep ∧
          sr.epoch = ep ∧ sm.vals = vals ∧ sr.vals = rvals ∧ sm.ldf = sr.ldf)) := by
  obtain ⟨sm, ds, hm, hldf, hmap⟩ := model_eq_reference hrun C ep ids hpf hall
  obtain ⟨sm', ds', hm', I, _⟩ := L5_run C ep ids hpf
  rw [hm] at hm'
  simp only [Option.some.injEq, Prod.mk.injEq] at hm'
  obtain ⟨rfl, rfl⟩ := hm'
  have hr := run_refIds hrun
  obtain ⟨enm, _⟩ := runIds_noSeal_entries (netOf s) env ep ids _ _ _ _ rfl (by intro d hd; cases hd) hm
  obtain ⟨enr, _⟩ := refIds_nil_entries ep evs _ _ _ _ rfl (by intro d hd; cases hd) hr
  have hkeys := keys_eq (fun a => (s.ev a).n) ep ds out hmap enm enr
  obtain ⟨c1, c2⟩ := cut_rcut seals env.sealAt ep (fun a => (s.ev a).n) hs ds out hkeys
  rcases runEpoch_sim (netOf s) env ep ids _ _ _ _ rfl rfl hm with ⟨cm, rm, em⟩ | ⟨l, nv, skm, cm, rm⟩
  · have cr := c1 cm
    rcases refEpoch_sim seals ep evs _ _ _ _ rfl rfl hr with ⟨_, rr, er⟩ | ⟨l', pairs, skr, cr', _⟩
    · refine ⟨sm, ds, [], s, out, [], rm, rr, hkeys, Or.inr ⟨?_, ?_, rfl, rfl, em, er, I.vals_eq, run_vals hrun, hldf⟩⟩
      · rw [List.any_eq_false]; intro d hd; rw [(enm d hd).1]; decide
      · rw [List.any_eq_false]; intro d hd; rw [(enr d hd).1]; decide
    · rw [cr] at cr'; cases cr'
  · obtain ⟨l', pairs, F, cr, hl, hF1, hF2⟩ := c2 l nv cm
    rcases refEpoch_sim seals ep evs _ _ _ _ rfl rfl hr with ⟨cr', _, _⟩ | ⟨l'', pairs', skr, cr', rr⟩
    · rw [cr] at cr'; cases cr'
    · rw [cr] at cr'
      simp only [Option.some.injEq, Prod.mk.injEq] at cr'
      obtain ⟨rfl, rfl⟩ := cr'
      rw [sealedEpoch_eq ep hepb] at rm
      exact ⟨_, l, skm, _, l', skr, rm, rr, hl, Or.inl ⟨(cut_some _ _ _ _ _ cm).1,
        (rcut_some _ _ _ _ _ cr).1, F, nv, pairs, hF1, hF2, rfl, rfl⟩⟩

end RefEpochs
