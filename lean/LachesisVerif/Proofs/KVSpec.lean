import LachesisVerif.Spec.KV
import LachesisVerif.Proofs.KVOrder
/-! Lemmas on `Spec.KV`: lookups after insert/erase/filter, sortedness, extensionality. -/
namespace Spec.KV
open Bytes

theorem get_nil (k : Bytes) : get [] k = none := rfl

theorem get_cons (a b : Bytes) (m : KV) (k : Bytes) :
    get ((a, b) :: m) k = if a = k then some b else get m k := by
  unfold get
  by_cases h : a = k
  · simp [h]
  · simp [h]

/-- all keys of `m` are above `b` -/
def AllGt (b : Bytes) (m : KV) : Prop := ∀ x ∈ m, lexLt b x.1 = true

theorem sorted_cons {a : Bytes × Bytes} {m : KV} : Sorted (a :: m) ↔ AllGt a.1 m ∧ Sorted m := by
  unfold Sorted AllGt; exact List.pairwise_cons

theorem sorted_nil : Sorted [] := List.Pairwise.nil

theorem AllGt.trans {a b : Bytes} {m : KV} (h : AllGt b m) (hab : lexLt a b = true) : AllGt a m :=
  fun x hx => lexLt_trans hab (h x hx)

theorem get_none_of_allGt {k : Bytes} {m : KV} (h : AllGt k m) : get m k = none := by
  induction m with
  | nil => rfl
  | cons x xs ih =>
    obtain ⟨a, b⟩ := x
    rw [get_cons]
    have hx := h (a, b) List.mem_cons_self
    have : a ≠ k := fun e => by subst e; exact absurd hx (by simp [lexLt_irrefl])
    rw [if_neg this]
    exact ih (fun y hy => h y (List.mem_cons_of_mem _ hy))

theorem get_eq_some_mem {m : KV} {k v : Bytes} (h : get m k = some v) : (k, v) ∈ m := by
  induction m with
  | nil => simp [get_nil] at h
  | cons x xs ih =>
    obtain ⟨a, b⟩ := x
    rw [get_cons] at h
    by_cases e : a = k
    · rw [if_pos e] at h; cases h; subst e; exact List.mem_cons_self
    · rw [if_neg e] at h; exact List.mem_cons_of_mem _ (ih h)

theorem get_of_mem_sorted {m : KV} (hs : Sorted m) {k v : Bytes} (h : (k, v) ∈ m) : get m k = some v := by
  induction m with
  | nil => cases h
  | cons x xs ih =>
    obtain ⟨a, b⟩ := x
    obtain ⟨hgt, hs'⟩ := sorted_cons.1 hs
    rw [get_cons]
    rcases List.mem_cons.1 h with e | h'
    · cases e; simp
    · have : a ≠ k := fun e => by
        subst e; have := hgt _ h'; simp [lexLt_irrefl] at this
      rw [if_neg this]; exact ih hs' h'

/-- two sorted stores with the same lookups are equal -/
theorem ext {m1 m2 : KV} (h1 : Sorted m1) (h2 : Sorted m2) (h : ∀ k, get m1 k = get m2 k) : m1 = m2 := by
  induction m1 generalizing m2 with
  | nil =>
    cases m2 with
    | nil => rfl
    | cons y ys =>
      obtain ⟨a, b⟩ := y
      have := h a; rw [get_nil, get_cons, if_pos rfl] at this; cases this
  | cons x xs ih =>
    obtain ⟨a, b⟩ := x
    cases m2 with
    | nil => have := h a; rw [get_nil, get_cons, if_pos rfl] at this; cases this
    | cons y ys =>
      obtain ⟨c, d⟩ := y
      obtain ⟨g1, s1⟩ := sorted_cons.1 h1
      obtain ⟨g2, s2⟩ := sorted_cons.1 h2
      have hac : a = c := by
        rcases lexLt_total a c with hlt | heq | hgt
        · have := h a
          rw [get_cons, if_pos rfl, get_cons, if_neg (fun e => lexLt_ne hlt e.symm),
            get_none_of_allGt (AllGt.trans g2 hlt)] at this
          cases this
        · exact heq
        · have := h c
          rw [get_cons, if_neg (fun e => lexLt_ne hgt e.symm), get_none_of_allGt (AllGt.trans g1 hgt),
            get_cons, if_pos rfl] at this
          cases this
      subst hac
      have hbd : b = d := by
        have := h a; rw [get_cons, if_pos rfl, get_cons, if_pos rfl] at this; cases this; rfl
      subst hbd
      congr 1
      apply ih s1 s2
      intro k
      by_cases e : a = k
      · subst e; rw [get_none_of_allGt g1, get_none_of_allGt g2]
      · have := h k; rw [get_cons, if_neg e, get_cons, if_neg e] at this; exact this

/-! ### insert / erase -/

theorem get_insert (m : KV) (k v k' : Bytes) :
    get (insert m k v) k' = if k = k' then some v else get m k' := by
  induction m with
  | nil => simp [insert, get_cons, get_nil]
  | cons x xs ih =>
    obtain ⟨a, b⟩ := x
    unfold insert
    by_cases e : k = a
    · subst e; simp only [beq_self_eq_true, if_true, get_cons]
      by_cases e' : k = k' <;> simp [e']
    · have : (k == a) = false := by simpa using e
      simp only [this, Bool.false_eq_true, if_false]
      by_cases hl : lexLt k a = true
      · simp only [hl, if_true, get_cons]
      · simp only [hl, Bool.false_eq_true, if_false, get_cons, ih]
        by_cases e1 : a = k'
        · subst e1; simp [e]
        · simp [e1]

theorem allGt_insert {b : Bytes} {m : KV} {k v : Bytes} (h : AllGt b m) (hk : lexLt b k = true) : AllGt b (insert m k v) := by
  induction m with
  | nil => intro x hx; simp [insert] at hx; subst hx; exact hk
  | cons y ys ih =>
    obtain ⟨a, c⟩ := y
    have ha := h (a, c) List.mem_cons_self
    have hys : AllGt b ys := fun z hz => h z (List.mem_cons_of_mem _ hz)
    unfold insert
    split
    · intro x hx
      rcases List.mem_cons.1 hx with e | hx'
      · subst e; exact hk
      · exact hys x hx'
    · split
      · intro x hx
        rcases List.mem_cons.1 hx with e | hx'
        · subst e; exact hk
        · exact h x hx'
      · intro x hx
        rcases List.mem_cons.1 hx with e | hx'
        · subst e; exact ha
        · exact ih hys x hx'

theorem sorted_insert {m : KV} (hs : Sorted m) (k v : Bytes) : Sorted (insert m k v) := by
  induction m with
  | nil => unfold insert Sorted; simp
  | cons y ys ih =>
    obtain ⟨a, c⟩ := y
    obtain ⟨g, s⟩ := sorted_cons.1 hs
    unfold insert
    by_cases e : k = a
    · subst e
      simp only [beq_self_eq_true, if_true]
      exact sorted_cons.2 ⟨g, s⟩
    · have : (k == a) = false := by simpa using e
      simp only [this, Bool.false_eq_true, if_false]
      by_cases hl : lexLt k a = true
      · simp only [hl, if_true]
        refine sorted_cons.2 ⟨?_, hs⟩
        intro x hx
        rcases List.mem_cons.1 hx with e' | hx'
        · subst e'; exact hl
        · exact lexLt_trans hl (g x hx')
      · simp only [hl, Bool.false_eq_true, if_false]
        have hak : lexLt a k = true := by
          rcases lexLt_total a k with h | h | h
          · exact h
          · exact absurd h.symm e
          · exact absurd h hl
        exact sorted_cons.2 ⟨allGt_insert g hak, ih s⟩

theorem sorted_filter {m : KV} (hs : Sorted m) (f : Bytes × Bytes → Bool) : Sorted (m.filter f) :=
  List.Pairwise.filter f hs

theorem sorted_erase {m : KV} (hs : Sorted m) (k : Bytes) : Sorted (erase m k) := sorted_filter hs _

/-- lookups in a store filtered by a predicate on keys -/
theorem get_filter_key (m : KV) (q : Bytes → Bool) (k : Bytes) :
    get (m.filter (fun x => q x.1)) k = if q k then get m k else none := by
  induction m with
  | nil => simp [get_nil]
  | cons x xs ih =>
    obtain ⟨a, b⟩ := x
    by_cases hq : q a = true
    · rw [List.filter_cons_of_pos (by simpa using hq), get_cons, get_cons, ih]
      by_cases e : a = k
      · subst e; simp [hq]
      · simp [e]
    · rw [List.filter_cons_of_neg (by simpa using hq), get_cons, ih]
      by_cases e : a = k
      · subst e; simp [hq]
      · simp [e]

theorem get_erase (m : KV) (k k' : Bytes) : get (erase m k) k' = if k = k' then none else get m k' := by
  unfold erase
  rw [get_filter_key m (fun a => a != k) k']
  by_cases e : k = k'
  · subst e; simp
  · have : k' ≠ k := fun h => e h.symm
    simp [e, this]

theorem has_eq (m : KV) (k : Bytes) : has m k = (get m k).isSome := rfl

end Spec.KV

namespace Spec
open Bytes KV

theorem sorted_iterSpec {m : KV} (hs : Sorted m) (p s : Bytes) : Sorted (iterSpec m p s) := sorted_filter hs _

theorem get_iterSpec (m : KV) (p s k : Bytes) :
    get (iterSpec m p s) k = if (isPrefix p k && lexLe (p ++ s) k) then get m k else none :=
  get_filter_key m (fun a => isPrefix p a && lexLe (p ++ s) a) k

theorem sorted_applyOp {m : KV} (hs : Sorted m) (op : Op) : Sorted (applyOp m op) := by
  cases op with
  | put k v => exact sorted_insert hs k v
  | del k => exact sorted_erase hs k

theorem sorted_applyBatch {m : KV} (hs : Sorted m) (b : List Op) : Sorted (applyBatch m b) := by
  induction b generalizing m with
  | nil => exact hs
  | cons op ops ih => exact ih (sorted_applyOp hs op)

end Spec
