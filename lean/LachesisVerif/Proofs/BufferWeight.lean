import LachesisVerif.Proofs.BufferCount
/-! Weighted accounting of `Released` callbacks across one buffer operation: with a weight `w c` per
    copy (1 for "events", the event's size for "bytes"), what was waiting before plus what was pushed
    equals what is still waiting plus what was released by the operation. -/
namespace C14
open Model.EventsBuffer

/-- total weight of the `Released` entries of a trace piece -/
def relW (w : Nat → Nat) : List Cb → Nat
  | [] => 0
  | .released c _ :: t => w c + relW w t
  | _ :: t => relW w t

/-- total weight of the copies that are not released yet -/
def unrelW (w : Nat → Nat) (st : St) : Nat :=
  sumTo (fun c => if (st.recs c).released = false then w c else 0) st.n

theorem sumTo_zero : ∀ n, sumTo (fun _ => 0) n = 0 := by
  intro n
  induction n with
  | zero => rfl
  | succ n ih => simp [sumTo, ih]

theorem relW_append (w : Nat → Nat) : ∀ a b : List Cb, relW w (a ++ b) = relW w a + relW w b := by
  intro a b
  induction a with
  | nil => simp [relW]
  | cons x a ih => cases x <;> simp only [List.cons_append, relW, ih] <;> omega

theorem relW_reverse (w : Nat → Nat) : ∀ l : List Cb, relW w l.reverse = relW w l := by
  intro l
  induction l with
  | nil => rfl
  | cons x l ih =>
    rw [List.reverse_cons, relW_append, ih]
    cases x <;> simp [relW] <;> omega

/-- double counting -/
theorem relW_eq_sum (w : Nat → Nat) (N : Nat) :
    ∀ d : List Cb, (∀ c, N ≤ c → nRel c d = 0) → relW w d = sumTo (fun c => nRel c d * w c) N := by
  intro d
  induction d with
  | nil =>
    intro _
    have : sumTo (fun c => nRel c [] * w c) N = sumTo (fun _ => 0) N :=
      sumTo_congr N (fun c _ => by simp [nRel])
    rw [this, sumTo_zero]; rfl
  | cons x d ih =>
    intro h
    cases x with
    | released c0 e =>
      have hc0 : c0 < N := by
        apply Nat.lt_of_not_le
        intro hle
        have := h c0 hle
        simp [nRel] at this
      have hd : ∀ c, N ≤ c → nRel c d = 0 := by
        intro c hc
        have := h c hc
        simp only [nRel] at this
        omega
      simp only [relW]
      rw [ih hd]
      have : sumTo (fun c => nRel c (Cb.released c0 e :: d) * w c) N =
          sumTo (fun c => (if c0 = c then w c0 else 0) + nRel c d * w c) N := by
        apply sumTo_congr
        intro c _
        simp only [nRel]
        by_cases e1 : c0 = c
        · subst e1; simp [Nat.add_mul]
        · simp [e1]
      rw [this, sumTo_add, sumTo_indicator, if_pos hc0]
    | check c0 ok =>
      have hd : ∀ c, N ≤ c → nRel c d = 0 := fun c hc => by have := h c hc; simpa [nRel] using this
      simp only [relW]
      rw [ih hd]
      exact sumTo_congr N (fun c _ => by simp [nRel])
    | process c0 ok =>
      have hd : ∀ c, N ≤ c → nRel c d = 0 := fun c hc => by have := h c hc; simpa [nRel] using this
      simp only [relW]
      rw [ih hd]
      exact sumTo_congr N (fun c _ => by simp [nRel])
    | connect id =>
      have hd : ∀ c, N ≤ c → nRel c d = 0 := fun c hc => by have := h c hc; simpa [nRel] using this
      simp only [relW]
      rw [ih hd]
      exact sumTo_congr N (fun c _ => by simp [nRel])

theorem sumTo_split (f : Nat → Nat) (k : Nat) :
    ∀ m, k ≤ m → sumTo f m = sumTo f k + sumTo (fun c => if k ≤ c then f c else 0) m := by
  intro m
  induction m with
  | zero =>
    intro h
    have : k = 0 := by omega
    subst this; rfl
  | succ m ih =>
    intro hm
    by_cases e : k = m + 1
    · subst e
      have z : sumTo (fun c => if m + 1 ≤ c then f c else 0) (m + 1) = sumTo (fun _ => 0) (m + 1) :=
        sumTo_congr (m + 1) (fun c hc => by
          have : ¬ m + 1 ≤ c := by omega
          simp [this])
      rw [z, sumTo_zero]; rfl
    · have hm' : k ≤ m := by omega
      simp only [sumTo]
      rw [ih hm', if_pos hm']
      omega

/-- Across an operation of the buffer (`s` to `s'`, trace extended by `d`): the weight released by the
    operation plus the weight still waiting equals the weight that was waiting plus the weight of the
    copies pushed by the operation. -/
theorem weighted_accounting {init : List Nat} {s s' : St} (hs : Good init s) (hs' : Good init s') (d : List Cb)
    (hd : s'.trace = d ++ s.trace) (hn : s.n ≤ s'.n) (w : Nat → Nat) :
    relW w d + unrelW w s' = unrelW w s + sumTo (fun c => if s.n ≤ c then w c else 0) s'.n := by
  have hs0 : Inv init s.n s := hs
  have hs1 : Inv init s'.n s' := hs'
  have hper : ∀ c, nRel c d + (if (s.recs c).released then 1 else 0) = (if (s'.recs c).released then 1 else 0) := by
    intro c
    have a := hs1.relsync c
    rw [hd, nRel_append, hs0.relsync c] at a
    exact a
  have hzero : ∀ c, s'.n ≤ c → nRel c d = 0 := by
    intro c hc
    have := hper c
    rw [hs1.fresh c hc] at this
    simp at this
    exact this.1
  rw [relW_eq_sum w s'.n d hzero]
  unfold unrelW
  have hold : sumTo (fun c => if (s.recs c).released = false then w c else 0) s.n +
      sumTo (fun c => if s.n ≤ c then w c else 0) s'.n =
      sumTo (fun c => if (s.recs c).released = false then w c else 0) s'.n := by
    rw [sumTo_split (fun c => if (s.recs c).released = false then w c else 0) s.n s'.n hn]
    congr 1
    apply sumTo_congr
    intro c _
    by_cases hc : s.n ≤ c
    · simp [hc, hs0.fresh c hc]
    · simp [hc]
  rw [hold, ← sumTo_add]
  apply sumTo_congr
  intro c _
  have := hper c
  cases h1 : (s.recs c).released <;> cases h2 : (s'.recs c).released <;> simp [h1, h2] at this ⊢
  · simp [this]
  · simp [this]
  · simp [this]

end C14
