import LachesisVerif.Proofs.VecHB3
/-!
Algebra of `HighestBefore` entries: point-wise law of `collectFrom`, faithful entries (`Rep`),
`mergeOne` of two faithful entries is faithful for the union, fork marker is absorbing, and the
fold of `collectFrom` over a list of parents.
-/
namespace VecProofs
open Model.Vec Model.Vec.VState

@[simp] theorem HBV.set_same (v : HBV) (i : Nat) (x : BSeq) : (v.set i x).get i = x := by simp [HBV.set]
@[simp] theorem HBV.set_other (v : HBV) (i j : Nat) (x : BSeq) (h : j ≠ i) : (v.set i x).get j = v.get j := by
  simp [HBV.set, h]
theorem HBV.set_get (v : HBV) (i j : Nat) (x : BSeq) : (v.set i x).get j = if j = i then x else v.get j := rfl

/-- point-wise characterisation of CollectFrom -/
theorem collectFrom_apply (mine his : HBV) (num br : Nat) :
    (collectFrom mine his num).get br = if br < num then mergeOne (mine.get br) (his.get br) else mine.get br := by
  unfold collectFrom
  induction num with
  | zero => simp
  | succ k ih =>
    rw [List.range_succ, List.foldl_append]
    simp only [List.foldl_cons, List.foldl_nil]
    by_cases hbr : br = k
    · subst hbr
      rw [HBV.set_same, ih, if_neg (Nat.lt_irrefl _), if_pos (Nat.lt_succ_self _)]
    · rw [HBV.set_other _ _ _ _ hbr, ih]
      by_cases h1 : br < k
      · rw [if_pos h1, if_pos (by omega)]
      · rw [if_neg h1, if_neg (by omega)]

theorem isFork_iff (x : BSeq) : x.isFork = true ↔ x = forkMarker := by
  simp [BSeq.isFork]

theorem isFork_marker : forkMarker.isFork = true := by decide

theorem isFork_false_iff (x : BSeq) : x.isFork = false ↔ x ≠ forkMarker := by
  simp [BSeq.isFork]

theorem Rep.not_fork {S : Nat → Prop} {x : BSeq} (h : Rep S x) : x.isFork = false := by
  rw [isFork_false_iff]
  rcases h with ⟨_, rfl⟩ | ⟨hs, hm, hb, h1⟩
  · decide
  · intro hx
    have := hb _ hm
    rw [hx] at this h1
    simp [forkMarker] at this

theorem Rep.seq_zero_iff {S : Nat → Prop} {x : BSeq} (h : Rep S x) : x.seq = 0 ↔ ∀ n, ¬ S n := by
  rcases h with ⟨he, rfl⟩ | ⟨hs, hm, hb, h1⟩
  · simp [BSeq.zero, he]
  · constructor
    · intro h0; have := hb _ hm; omega
    · intro he; exact absurd hs (he _)

theorem Rep.of_empty {S : Nat → Prop} {x : BSeq} (h : Rep S x) (he : ∀ n, ¬ S n) : x = BSeq.zero := by
  rcases h with ⟨_, rfl⟩ | ⟨hs, _⟩
  · rfl
  · exact absurd hs (he _)

theorem Rep.congr {S T : Nat → Prop} {x : BSeq} (h : Rep S x) (hST : ∀ n, S n ↔ T n) : Rep T x := by
  have : S = T := funext fun n => propext (hST n)
  rw [← this]; exact h

theorem Rep.bounds {S : Nat → Prop} {x : BSeq} (h : Rep S x) {n : Nat} (hn : S n) :
    1 ≤ x.minSeq ∧ x.minSeq ≤ n ∧ n ≤ x.seq ∧ S x.seq ∧ S x.minSeq := by
  rcases h with ⟨he, _⟩ | ⟨hs, hm, hb, h1⟩
  · exact absurd hn (he n)
  · exact ⟨h1, (hb n hn).1, (hb n hn).2, hs, hm⟩

theorem mergeOne_zero_right (m : BSeq) : mergeOne m BSeq.zero = m := by
  unfold mergeOne
  rw [if_pos (by decide)]

theorem mergeOne_fork_left (h : BSeq) : (mergeOne forkMarker h).isFork = true := by
  unfold mergeOne
  split
  · exact isFork_marker
  · rw [if_pos isFork_marker]; exact isFork_marker

theorem mergeOne_fork_right (m : BSeq) : (mergeOne m forkMarker).isFork = true := by
  unfold mergeOne
  rw [if_neg (by decide)]
  split
  · assumption
  · rw [if_pos isFork_marker]; exact isFork_marker

/-- value of `mergeOne` on two unforked entries, the second non-empty -/
theorem mergeOne_val {m h : BSeq} (hm : m.isFork = false) (hh : h.isFork = false) (hs : h.seq ≠ 0) :
    mergeOne m h =
      ⟨if m.seq < h.seq then h.seq else m.seq,
       if m.seq = 0 ∨ m.minSeq > h.minSeq then h.minSeq else m.minSeq⟩ := by
  unfold mergeOne
  simp only [Gen.Vec.collectSkip, Gen.Vec.collectMinCond, Gen.Vec.collectSeqCond, hm, hh, hs,
    decide_false, Bool.false_and, Bool.false_eq_true, if_false, Bool.or_eq_true, decide_eq_true_eq]
  by_cases h1 : m.seq = 0 ∨ m.minSeq > h.minSeq
  · simp only [if_pos h1]
    by_cases h2 : m.seq < h.seq
    · simp only [if_pos h2]
    · simp only [if_neg h2]
  · simp only [if_neg h1]
    by_cases h2 : m.seq < h.seq
    · simp only [if_pos h2]
    · simp only [if_neg h2]

end VecProofs
