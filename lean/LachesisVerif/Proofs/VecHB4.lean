import LachesisVerif.Proofs.VecHB3
/-!
Algebra of `HighestBefore` entries: point-wise law of `collectFrom`, faithful entries (`Rep`),
`mergeOne` of two faithful entries is faithful for the union, fork marker is absorbing, and the
fold of `collectFrom` over a list of parents.
-/
namespace VecProofs
open Model.Vec Model.Vec.VState

@[simp] theorem HBV.set_same (v : HBV) (i : Nat) (x : BSeq) : (v.set i x).get i = x := by simp [HBV.set]
@[simp] theorem HBV.set_other (v : HBV) (i j : Nat) (x : BSeq) (h : j ≠ i) : (v.set i x).get j = v.get j := by
  simp [HBV.set, h]
theorem HBV.set_get (v : HBV) (i j : Nat) (x : BSeq) : (v.set i x).get j = if j = i then x else v.get j := rfl

/-- point-wise characterisation of CollectFrom -/
theorem collectFrom_apply (mine his : HBV) (num br : Nat) :
    (collectFrom mine his num).get br = if br < num then mergeOne (mine.get br) (his.get br) else mine.get br := by
  unfold collectFrom
  induction num with
  | zero => simp
  | succ k ih =>
    rw [List.range_succ, List.foldl_append]
    simp only [List.foldl_cons, List.foldl_nil]
    by_cases hbr : br = k
    · subst hbr
      rw [HBV.set_same, ih, if_neg (Nat.lt_irrefl _), if_pos (Nat.lt_succ_self _)]
    · rw [HBV.set_other _ _ _ _ hbr, ih]
      by_cases h1 : br < k
      · rw [if_pos h1, if_pos (by omega)]
      · rw [if_neg h1, if_neg (by omega)]

theorem isFork_iff (x : BSeq) : x.isFork = true ↔ x = forkMarker := by
  simp [BSeq.isFork]

theorem isFork_marker : forkMarker.isFork = true := by decide

theorem isFork_false_iff (x : BSeq) : x.isFork = false ↔ x ≠ forkMarker := by
  simp [BSeq.isFork]

theorem Rep.not_fork {S : Nat → Prop} {x : BSeq} (h : Rep S x) : x.isFork = false := by
  rw [isFork_false_iff]
  rcases h with ⟨_, rfl⟩ | ⟨hs, hm, hb, h1⟩
  · decide
  · intro hx
    have := hb _ hm
    rw [hx] at this h1
    simp [forkMarker] at this

theorem Rep.seq_zero_iff {S : Nat → Prop} {x : BSeq} (h : Rep S x) : x.seq = 0 ↔ ∀ n, ¬ S n := by
  rcases h with ⟨he, rfl⟩ | ⟨hs, hm, hb, h1⟩
  · simp [BSeq.zero, he]
  · constructor
    · intro h0; have := hb _ hm; omega
    · intro he; exact absurd hs (he _)

theorem Rep.of_empty {S : Nat → Prop} {x : BSeq} (h : Rep S x) (he : ∀ n, ¬ S n) : x = BSeq.zero := by
  rcases h with ⟨_, rfl⟩ | ⟨hs, _⟩
  · rfl
  · exact absurd hs (he _)

theorem Rep.congr {S T : Nat → Prop} {x : BSeq} (h : Rep S x) (hST : ∀ n, S n ↔ T n) : Rep T x := by
  have : S = T := funext fun n => propext (hST n)
  rw [← this]; exact h

theorem Rep.bounds {S : Nat → Prop} {x : BSeq} (h : Rep S x) {n : Nat} (hn : S n) :
    1 ≤ x.minSeq ∧ x.minSeq ≤ n ∧ n ≤ x.seq ∧ S x.seq ∧ S x.minSeq := by
  rcases h with ⟨he, _⟩ | ⟨hs, hm, hb, h1⟩
  · exact absurd hn (he n)
  · exact ⟨h1, (hb n hn).1, (hb n hn).2, hs, hm⟩

theorem mergeOne_zero_right (m : BSeq) : mergeOne m BSeq.zero = m := by
  unfold mergeOne
  rw [if_pos (by decide)]

theorem mergeOne_fork_left (h : BSeq) : (mergeOne forkMarker h).isFork = true := by
  unfold mergeOne
  split
  · exact isFork_marker
  · rw [if_pos isFork_marker]; exact isFork_marker

theorem mergeOne_fork_right (m : BSeq) : (mergeOne m forkMarker).isFork = true := by
  unfold mergeOne
  rw [if_neg (by decide)]
  split
  · assumption
  · rw [if_pos isFork_marker]; exact isFork_marker

/-- value of `mergeOne` on two unforked entries, the second non-empty -/
theorem mergeOne_val {m h : BSeq} (hm : m.isFork = false) (hh : h.isFork = false) (hs : h.seq ≠ 0) :
    mergeOne m h =
      ⟨if m.seq < h.seq then h.seq else m.seq,
       if m.seq = 0 ∨ m.minSeq > h.minSeq then h.minSeq else m.minSeq⟩ := by
  unfold mergeOne
  simp only [Gen.Vec.collectSkip, Gen.Vec.collectMinCond, Gen.Vec.collectSeqCond, hm, hh, hs,
    decide_false, Bool.false_and, Bool.false_eq_true, if_false, Bool.or_eq_true, decide_eq_true_eq]
  by_cases h1 : m.seq = 0 ∨ m.minSeq > h.minSeq
  · simp only [if_pos h1]
    by_cases h2 : m.seq < h.seq
    · simp only [if_pos h2]
    · simp only [if_neg h2]
  · simp only [if_neg h1]
    by_cases h2 : m.seq < h.seq
    · simp only [if_pos h2]
    · simp only [if_neg h2]

/-- merging two faithful entries gives a faithful entry for the union -/
theorem mergeOne_rep {S T : Nat → Prop} {m h : BSeq} (hm : Rep S m) (hh : Rep T h) :
    Rep (fun n => S n ∨ T n) (mergeOne m h) := by
  have hmf := hm.not_fork
  have hhf := hh.not_fork
  rcases hh with ⟨hTe, rfl⟩ | ⟨hT1, hT2, hTb, hT3⟩
  · rw [mergeOne_zero_right]
    rcases hm with ⟨hSe, rfl⟩ | ⟨a, b, c, d⟩
    · exact Or.inl ⟨fun n hn => hn.elim (hSe n) (hTe n), rfl⟩
    · exact Or.inr ⟨Or.inl a, Or.inl b, fun n hn => hn.elim (c n) (fun t => absurd t (hTe n)), d⟩
  · have hb := hTb _ hT1
    have hseq : h.seq ≠ 0 := by omega
    rcases hm with ⟨hSe, rfl⟩ | ⟨hS1, hS2, hSb, hS3⟩
    · have hz : mergeOne BSeq.zero h = h := by
        rw [mergeOne_val hmf hhf hseq]
        have h0 : BSeq.zero.seq = 0 := rfl
        rw [h0, if_pos (by omega), if_pos (Or.inl rfl)]
      rw [hz]
      exact Or.inr ⟨Or.inr hT1, Or.inr hT2, fun n hn => hn.elim (fun t => absurd t (hSe n)) (hTb n), hT3⟩
    · rw [mergeOne_val hmf hhf hseq]
      right
      have hbm := hSb _ hS1
      have hm0 : ¬ m.seq = 0 := by omega
      refine ⟨?_, ?_, ?_, ?_⟩
      · show S (if m.seq < h.seq then h.seq else m.seq) ∨ T (if m.seq < h.seq then h.seq else m.seq)
        by_cases h2 : m.seq < h.seq
        · rw [if_pos h2]; exact Or.inr hT1
        · rw [if_neg h2]; exact Or.inl hS1
      · show S (if m.seq = 0 ∨ m.minSeq > h.minSeq then h.minSeq else m.minSeq) ∨
             T (if m.seq = 0 ∨ m.minSeq > h.minSeq then h.minSeq else m.minSeq)
        by_cases h1 : m.seq = 0 ∨ m.minSeq > h.minSeq
        · rw [if_pos h1]; exact Or.inr hT2
        · rw [if_neg h1]; exact Or.inl hS2
      · intro n hn
        show (if m.seq = 0 ∨ m.minSeq > h.minSeq then h.minSeq else m.minSeq) ≤ n ∧
             n ≤ (if m.seq < h.seq then h.seq else m.seq)
        have hn' : (m.minSeq ≤ n ∧ n ≤ m.seq) ∨ (h.minSeq ≤ n ∧ n ≤ h.seq) :=
          hn.elim (fun t => Or.inl (hSb n t)) (fun t => Or.inr (hTb n t))
        by_cases h1 : m.seq = 0 ∨ m.minSeq > h.minSeq <;> by_cases h2 : m.seq < h.seq
        · rw [if_pos h1, if_pos h2]; omega
        · rw [if_pos h1, if_neg h2]; omega
        · rw [if_neg h1, if_pos h2]; omega
        · rw [if_neg h1, if_neg h2]; omega
      · show 1 ≤ (if m.seq = 0 ∨ m.minSeq > h.minSeq then h.minSeq else m.minSeq)
        by_cases h1 : m.seq = 0 ∨ m.minSeq > h.minSeq
        · rw [if_pos h1]; exact hT3
        · rw [if_neg h1]; exact hS3

/-! ### the fold of `collectFrom` over the parents -/

theorem foldCollect_apply (x : Nat → HBV) (num : Nat) (ps : List Nat) (v : HBV) (b : Nat) :
    (ps.foldl (fun v p => collectFrom v (x p) num) v).get b =
      if b < num then ps.foldl (fun m p => mergeOne m ((x p).get b)) (v.get b) else v.get b := by
  induction ps generalizing v with
  | nil => simp
  | cons p ps ih =>
    simp only [List.foldl_cons]
    rw [ih, collectFrom_apply]
    by_cases hb : b < num
    · rw [if_pos hb, if_pos hb, if_pos hb]
    · rw [if_neg hb, if_neg hb, if_neg hb]

/-- the marker is absorbing for the entry-wise fold -/
theorem foldMerge_fork_init (y : Nat → BSeq) (ps : List Nat) (m : BSeq) (hm : m.isFork = true) :
    (ps.foldl (fun m p => mergeOne m (y p)) m).isFork = true := by
  induction ps generalizing m with
  | nil => exact hm
  | cons p ps ih =>
    simp only [List.foldl_cons]
    apply ih
    rw [(isFork_iff m).1 hm]; exact mergeOne_fork_left _

theorem foldMerge_fork (y : Nat → BSeq) (ps : List Nat) (m : BSeq)
    (hex : ∃ p, p ∈ ps ∧ (y p).isFork = true) :
    (ps.foldl (fun m p => mergeOne m (y p)) m).isFork = true := by
  induction ps generalizing m with
  | nil => obtain ⟨p, hp, _⟩ := hex; simp at hp
  | cons q ps ih =>
    simp only [List.foldl_cons]
    obtain ⟨p, hp, hf⟩ := hex
    rcases List.mem_cons.1 hp with rfl | hp'
    · apply foldMerge_fork_init
      rw [(isFork_iff _).1 hf]; exact mergeOne_fork_right _
    · exact ih _ ⟨p, hp', hf⟩

theorem foldMerge_rep (y : Nat → BSeq) (T : Nat → Nat → Prop) (ps : List Nat)
    (hT : ∀ p, p ∈ ps → Rep (T p) (y p)) {S : Nat → Prop} {m : BSeq} (hm : Rep S m) :
    Rep (fun n => S n ∨ ∃ p, p ∈ ps ∧ T p n) (ps.foldl (fun m p => mergeOne m (y p)) m) := by
  induction ps generalizing S m with
  | nil => exact hm.congr (by intro n; simp)
  | cons q ps ih =>
    simp only [List.foldl_cons]
    have h1 := mergeOne_rep hm (hT q (by simp))
    have h2 := ih (fun p hp => hT p (List.mem_cons_of_mem _ hp)) h1
    refine h2.congr ?_
    intro n
    constructor
    · rintro ((hs | ht) | ⟨p, hp, hpn⟩)
      · exact Or.inl hs
      · exact Or.inr ⟨q, by simp, ht⟩
      · exact Or.inr ⟨p, List.mem_cons_of_mem _ hp, hpn⟩
    · rintro (hs | ⟨p, hp, hpn⟩)
      · exact Or.inl (Or.inl hs)
      · rcases List.mem_cons.1 hp with rfl | hp'
        · exact Or.inl (Or.inr hpn)
        · exact Or.inr ⟨p, hp', hpn⟩

/-- an unforked fold result means no input was forked -/
theorem foldMerge_not_fork (y : Nat → BSeq) (ps : List Nat) (m : BSeq)
    (h : (ps.foldl (fun m p => mergeOne m (y p)) m).isFork = false) :
    m.isFork = false ∧ ∀ p, p ∈ ps → (y p).isFork = false := by
  constructor
  · cases hm : m.isFork with
    | false => rfl
    | true => rw [foldMerge_fork_init y ps m hm] at h; exact absurd h (by decide)
  · intro p hp
    cases hf : (y p).isFork with
    | false => rfl
    | true => rw [foldMerge_fork y ps m ⟨p, hp, hf⟩] at h; exact absurd h (by decide)

end VecProofs
