import LachesisVerif.Proofs.KVMerge
/-!
Merge correctness of the flushable iterator, part 2: the transliterated `treeLoop` / `next` /
`drain` produce `mergeView` of what is left under the two cursors, by induction on the cursors with
the invariant on `prevKey` ("every tree key is above it, every parent key is at or above it").
-/
namespace Model.Flushable
open Bytes Spec Spec.KV

/-! ### the regenerated comparison kernels, read back as order facts -/

theorem cmp_gt_zero (a b : Bytes) : decide (cmp a b > 0) = lexLt b a := by
  unfold cmp
  by_cases h1 : lexLt a b = true
  · simp [h1, lexLt_asymm h1]
  · by_cases h2 : lexLt b a = true
    · simp [h1, h2]
    · simp [h1, h2]

theorem cmp_le_zero (a b : Bytes) : decide (cmp a b ≤ 0) = !lexLt b a := by
  unfold cmp
  by_cases h1 : lexLt a b = true
  · simp [h1, lexLt_asymm h1]
  · by_cases h2 : lexLt b a = true
    · simp [h1, h2]
    · simp [h1, h2]

/-- the key passes the iterator's prefix (a nil prefix passes everything) -/
def pfxOk (pfx : Option Bytes) (k : Bytes) : Bool :=
  match pfx with
  | some p => isPrefix p k
  | none => true

/-- strictly above `prevKey` (nil `prevKey`: always) -/
def gtp (prev : Option Bytes) (k : Bytes) : Bool :=
  match prev with
  | some q => lexLt q k
  | none => true

theorem suitable_eq (pfx : Option Bytes) (key : Bytes) (prev : Option Bytes) :
    suitable pfx key prev = if pfxOk pfx key then (gtp prev key, true) else (false, false) := by
  unfold suitable Gen.Kv.notPrefixed Gen.Kv.notPrefixedOk Gen.Kv.notPrefixedCont Gen.Kv.afterPrev Gen.Kv.prefixedCont
    pfxOk gtp
  cases pfx with
  | none =>
    cases prev with
    | none => simp
    | some q => simp [cmp_gt_zero]
  | some p =>
    cases prev with
    | none => by_cases h : isPrefix p key = true <;> simp [h]
    | some q => by_cases h : isPrefix p key = true <;> simp [h, cmp_gt_zero]

theorem treeLoop_cond (ph : Option Bytes) (tk : Bytes) :
    (!Gen.Kv.treeLoop (match ph with | some pk => cmp tk pk | none => 0) true ph.isSome) =
      (match ph with | some pk => lexLt pk tk | none => false) := by
  unfold Gen.Kv.treeLoop
  cases ph with
  | none => simp
  | some pk => simp [cmp_le_zero]

theorem treeLoop_nil (pfx ph : Option Bytes) (prev : Option Bytes) : treeLoop pfx ph [] prev = ([], prev, none) := rfl

theorem treeLoop_cons (pfx ph : Option Bytes) (tk : Bytes) (tv : Option Bytes) (trest : Overlay) (prev : Option Bytes) :
    treeLoop pfx ph ((tk, tv) :: trest) prev =
      if (match ph with | some pk => lexLt pk tk | none => false) then ((tk, tv) :: trest, prev, none)
      else match tv with
        | none => treeLoop pfx ph trest (some tk)
        | some v =>
          if pfxOk pfx tk then
            (if gtp prev tk then (trest, some tk, some (tk, v)) else treeLoop pfx ph trest prev)
          else ([], prev, none) := by
  cases ph with
  | none =>
    cases tv with
    | none => rw [treeLoop]; simp [Gen.Kv.treeLoop]
    | some v =>
      rw [treeLoop]
      simp only [suitable_eq]
      by_cases hp : pfxOk pfx tk = true
      · by_cases hg : gtp prev tk = true
        · simp [Gen.Kv.treeLoop, hp, hg]
        · simp [Gen.Kv.treeLoop, hp, hg]
      · simp [Gen.Kv.treeLoop, hp]
  | some pk =>
    cases tv with
    | none =>
      rw [treeLoop]
      by_cases hc : lexLt pk tk = true
      · simp [Gen.Kv.treeLoop, cmp_le_zero, hc]
      · simp [Gen.Kv.treeLoop, cmp_le_zero, hc]
    | some v =>
      rw [treeLoop]
      simp only [suitable_eq]
      by_cases hc : lexLt pk tk = true
      · simp [Gen.Kv.treeLoop, cmp_le_zero, hc]
      · by_cases hp : pfxOk pfx tk = true
        · by_cases hg : gtp prev tk = true
          · simp [Gen.Kv.treeLoop, cmp_le_zero, hc, hp, hg]
          · simp [Gen.Kv.treeLoop, cmp_le_zero, hc, hp, hg]
        · simp [Gen.Kv.treeLoop, cmp_le_zero, hc, hp]

/-! ### what is left to come out -/

/-- the tree as the iterator will see it: it stops at the first live node outside the prefix -/
def cut (pfx : Option Bytes) : Overlay → Overlay
  | [] => []
  | (k, some v) :: ts => if pfxOk pfx k then (k, some v) :: cut pfx ts else []
  | (k, none) :: ts => (k, none) :: cut pfx ts

/-- the parent item equal to `prevKey` (if it is under the cursor) will be skipped -/
def dropLe (prev : Option Bytes) : KV → KV
  | [] => []
  | (pk, pv) :: ps => if gtp prev pk then (pk, pv) :: ps else ps

/-- the pairs still to be produced from a state of the iterator -/
def out (pfx : Option Bytes) (tree : Overlay) (parent : KV) (prev : Option Bytes) : KV :=
  mergeView (cut pfx tree) (dropLe prev parent)

theorem cut_subset (pfx : Option Bytes) : ∀ (t : Overlay) x, x ∈ cut pfx t → x ∈ t := by
  intro t
  induction t with
  | nil => intro x hx; cases hx
  | cons a ts ih =>
    obtain ⟨k, v⟩ := a
    intro x hx
    cases v with
    | none =>
      simp only [cut, List.mem_cons] at hx
      rcases hx with e | hx
      · subst e; exact List.mem_cons_self
      · exact List.mem_cons_of_mem _ (ih x hx)
    | some v =>
      simp only [cut] at hx
      split at hx
      · rcases List.mem_cons.1 hx with e | hx
        · subst e; exact List.mem_cons_self
        · exact List.mem_cons_of_mem _ (ih x hx)
      · cases hx

theorem allGt_cut {b : Bytes} {pfx : Option Bytes} {t : Overlay} (h : Overlay.AllGt b t) : Overlay.AllGt b (cut pfx t) :=
  fun x hx => h x (cut_subset pfx t x hx)

/-- stepping over the tree node under the cursor when it is `≤` the parent key -/
theorem mergeView_tree_first {tk : Bytes} {tv : Option Bytes} {T : Overlay} {pk pv : Bytes} {ps : KV}
    (h : lexLt pk tk = false) :
    mergeView ((tk, tv) :: T) ((pk, pv) :: ps) = emit tk tv ++ mergeView T (dropLe (some tk) ((pk, pv) :: ps)) := by
  rw [mergeView_cons_cons]
  by_cases hlt : lexLt tk pk = true
  · rw [if_pos hlt]; simp [dropLe, gtp, hlt]
  · have e : tk = pk := by
      rcases lexLt_total tk pk with h' | h' | h'
      · exact absurd h' hlt
      · exact h'
      · rw [h] at h'; cases h'
    subst e
    rw [if_neg hlt, if_pos rfl]; simp [dropLe, gtp, lexLt_irrefl]

/-- the invariant of the merged iterator -/
structure Inv (pfx : Option Bytes) (tree : Overlay) (parent : KV) (prev : Option Bytes) : Prop where
  ts : Overlay.Sorted tree
  ps : KV.Sorted parent
  /-- "it's not possible that treeKey isn't bigger than prevKey" -/
  tgt : ∀ x ∈ tree, gtp prev x.1 = true
  /-- both cursors are past `prevKey`; the parent cursor may still sit on it -/
  pge : ∀ q, prev = some q → ∀ x ∈ parent, lexLe q x.1 = true
  /-- the underlying iterator only yields keys with the prefix -/
  ppf : ∀ x ∈ parent, pfxOk pfx x.1 = true

theorem Inv.step_tree {pfx : Option Bytes} {tk : Bytes} {tv : Option Bytes} {ts : Overlay} {parent : KV}
    {prev : Option Bytes} (inv : Inv pfx ((tk, tv) :: ts) parent prev)
    (hle : ∀ x ∈ parent, lexLe tk x.1 = true) : Inv pfx ts parent (some tk) := by
  obtain ⟨g, s⟩ := Overlay.sorted_cons.1 inv.ts
  exact ⟨s, inv.ps, fun x hx => g x hx, fun q hq x hx => (by cases hq; exact hle x hx), inv.ppf⟩

theorem Inv.tree_nil {pfx : Option Bytes} {tree : Overlay} {parent : KV} {prev : Option Bytes}
    (inv : Inv pfx tree parent prev) : Inv pfx [] parent prev :=
  ⟨Overlay.sorted_nil, inv.ps, fun _ h => (by cases h), inv.pge, inv.ppf⟩

/-- `treeLoop` with an exhausted parent cursor -/
theorem treeLoop_spec_noParent (pfx : Option Bytes) : ∀ (tree : Overlay) (prev : Option Bytes), Inv pfx tree [] prev →
    match (treeLoop pfx none tree prev).2.2 with
    | some kv => Inv pfx (treeLoop pfx none tree prev).1 [] (treeLoop pfx none tree prev).2.1 ∧
        out pfx tree [] prev = kv :: out pfx (treeLoop pfx none tree prev).1 [] (treeLoop pfx none tree prev).2.1 ∧
        (treeLoop pfx none tree prev).1.length < tree.length
    | none => out pfx tree [] prev = [] ∧ (treeLoop pfx none tree prev).1 = [] := by
  intro tree
  induction tree with
  | nil => intro prev _; simp [treeLoop_nil, out, cut, dropLe, mergeView_nil]
  | cons t ts ih =>
    obtain ⟨tk, tv⟩ := t
    intro prev inv
    rw [treeLoop_cons]
    simp only [Bool.false_eq_true, if_false]
    cases tv with
    | none =>
      have inv' : Inv pfx ts [] (some tk) := inv.step_tree (fun _ h => by cases h)
      have := ih (some tk) inv'
      have hout : out pfx ((tk, none) :: ts) [] prev = out pfx ts [] (some tk) := by
        simp [out, cut, dropLe, mergeView_cons_nil, emit]
      simp only [hout]
      split
      · rename_i kv hkv
        rw [hkv] at this
        exact ⟨this.1, this.2.1, Nat.lt_succ_of_lt this.2.2⟩
      · rename_i hkv
        rw [hkv] at this
        exact this
    | some v =>
      by_cases hp : pfxOk pfx tk = true
      · have hg : gtp prev tk = true := inv.tgt _ List.mem_cons_self
        simp only [hp, hg, if_true]
        refine ⟨inv.step_tree (fun _ h => by cases h), ?_, Nat.lt_succ_self _⟩
        simp [out, cut, hp, dropLe, mergeView_cons_nil, emit]
      · simp [hp, out, cut, dropLe, mergeView_nil]

/-- `treeLoop` while the parent cursor sits on `(pk, pv)` -/
theorem treeLoop_spec_parent (pfx : Option Bytes) (pk pv : Bytes) (ps : KV) : ∀ (tree : Overlay) (prev : Option Bytes),
    Inv pfx tree ((pk, pv) :: ps) prev →
    Inv pfx (treeLoop pfx (some pk) tree prev).1 ((pk, pv) :: ps) (treeLoop pfx (some pk) tree prev).2.1 ∧
    (treeLoop pfx (some pk) tree prev).1.length ≤ tree.length ∧
    match (treeLoop pfx (some pk) tree prev).2.2 with
    | some kv =>
        out pfx tree ((pk, pv) :: ps) prev =
          kv :: out pfx (treeLoop pfx (some pk) tree prev).1 ((pk, pv) :: ps) (treeLoop pfx (some pk) tree prev).2.1 ∧
        (treeLoop pfx (some pk) tree prev).1.length < tree.length
    | none =>
        out pfx tree ((pk, pv) :: ps) prev =
          out pfx (treeLoop pfx (some pk) tree prev).1 ((pk, pv) :: ps) (treeLoop pfx (some pk) tree prev).2.1 ∧
        Overlay.AllGt pk (treeLoop pfx (some pk) tree prev).1 := by
  intro tree
  induction tree with
  | nil =>
    intro prev inv
    rw [treeLoop_nil]
    exact ⟨inv, Nat.le_refl _, rfl, fun _ h => by cases h⟩
  | cons t ts ih =>
    obtain ⟨tk, tv⟩ := t
    intro prev inv
    obtain ⟨g, s⟩ := Overlay.sorted_cons.1 inv.ts
    obtain ⟨gp, sp⟩ := KV.sorted_cons.1 inv.ps
    rw [treeLoop_cons]
    by_cases hc : lexLt pk tk = true
    · -- the parent item goes first: the loop ends
      have hcond : (match (some pk : Option Bytes) with | some pk => lexLt pk tk | none => false) = true := hc
      rw [if_pos hcond]
      refine ⟨inv, Nat.le_refl _, rfl, ?_⟩
      intro x hx
      rcases List.mem_cons.1 hx with e | hx
      · subst e; exact hc
      · exact lexLt_trans hc (g x hx)
    · have hc' : lexLt pk tk = false := by simpa using hc
      simp only [hc', Bool.false_eq_true, if_false]
      have hle : ∀ x ∈ (pk, pv) :: ps, lexLe tk x.1 = true := by
        intro x hx
        have h1 : lexLe tk pk = true := by simp [lexLe, hc']
        rcases List.mem_cons.1 hx with e | hx
        · subst e; exact h1
        · exact lexLe_of_lexLt (lexLt_of_lexLe_of_lexLt h1 (gp x hx))
      have hgt : gtp prev tk = true := inv.tgt _ List.mem_cons_self
      have hgpk : gtp prev pk = true := by
        cases prev with
        | none => rfl
        | some q => exact lexLt_of_lexLt_of_lexLe hgt (hle _ List.mem_cons_self)
      have hdrop : dropLe prev ((pk, pv) :: ps) = (pk, pv) :: ps := by simp [dropLe, hgpk]
      have inv' : Inv pfx ts ((pk, pv) :: ps) (some tk) := inv.step_tree hle
      cases tv with
      | none =>
        have hout : out pfx ((tk, none) :: ts) ((pk, pv) :: ps) prev = out pfx ts ((pk, pv) :: ps) (some tk) := by
          simp only [out, cut, hdrop]
          rw [mergeView_tree_first hc']
          rfl
        have := ih (some tk) inv'
        refine ⟨this.1, Nat.le_succ_of_le this.2.1, ?_⟩
        simp only [hout]
        split
        · rename_i kv hkv
          have h3 := this.2.2
          rw [hkv] at h3
          exact ⟨h3.1, Nat.lt_succ_of_lt h3.2⟩
        · rename_i hkv
          have h3 := this.2.2
          rw [hkv] at h3
          exact h3
      | some v =>
        by_cases hp : pfxOk pfx tk = true
        · simp only [hp, hgt, if_true]
          refine ⟨inv', Nat.le_succ _, ?_, Nat.lt_succ_self _⟩
          simp only [out, cut, hp, if_true, hdrop]
          rw [mergeView_tree_first hc']
          rfl
        · simp only [hp, Bool.false_eq_true, if_false]
          refine ⟨inv.tree_nil, Nat.zero_le _, ?_, fun _ h => by cases h⟩
          simp [out, cut, hp]

/-- with the parent cursor exhausted, `Next` returns false only when nothing is left
    (so the outer `for` of the Go code terminates there) -/
theorem nextNoParent_spec (pfx : Option Bytes) (tree : Overlay) (prev : Option Bytes) (inv : Inv pfx tree [] prev) :
    match (nextNoParent pfx tree prev).2.2.2 with
    | some kv => Inv pfx (nextNoParent pfx tree prev).1 (nextNoParent pfx tree prev).2.1 (nextNoParent pfx tree prev).2.2.1 ∧
        out pfx tree [] prev = kv :: out pfx (nextNoParent pfx tree prev).1 (nextNoParent pfx tree prev).2.1
          (nextNoParent pfx tree prev).2.2.1 ∧
        (nextNoParent pfx tree prev).1.length + (nextNoParent pfx tree prev).2.1.length < tree.length + 0
    | none => out pfx tree [] prev = [] := by
  unfold nextNoParent Gen.Kv.outerLoop
  cases tree with
  | nil => simp [out, cut, dropLe, mergeView_nil]
  | cons t ts =>
    simp only [List.isEmpty_cons, Bool.not_false, Bool.or_false, Bool.not_true, Bool.false_eq_true, if_false]
    have := treeLoop_spec_noParent pfx (t :: ts) prev inv
    split
    · rename_i kv hkv
      rw [hkv] at this
      simpa using this
    · rename_i hkv
      rw [hkv] at this
      exact this.1

theorem next_spec (pfx : Option Bytes) : ∀ (parent : KV) (tree : Overlay) (prev : Option Bytes), Inv pfx tree parent prev →
    match (next pfx parent tree prev).2.2.2 with
    | some kv => Inv pfx (next pfx parent tree prev).1 (next pfx parent tree prev).2.1 (next pfx parent tree prev).2.2.1 ∧
        out pfx tree parent prev = kv :: out pfx (next pfx parent tree prev).1 (next pfx parent tree prev).2.1
          (next pfx parent tree prev).2.2.1 ∧
        (next pfx parent tree prev).1.length + (next pfx parent tree prev).2.1.length < tree.length + parent.length
    | none => out pfx tree parent prev = [] := by
  intro parent
  induction parent with
  | nil =>
    intro tree prev inv
    have := nextNoParent_spec pfx tree prev inv
    simpa [next] using this
  | cons p prest ih =>
    obtain ⟨pk, pv⟩ := p
    intro tree prev inv
    have hT := treeLoop_spec_parent pfx pk pv prest tree prev inv
    rw [next]
    simp only [Gen.Kv.outerLoop, Bool.or_true, Bool.not_true, Bool.false_eq_true, if_false]
    generalize hr : treeLoop pfx (some pk) tree prev = r at hT
    obtain ⟨t1, prev1, res⟩ := r
    simp only at hT ⊢
    obtain ⟨inv1, hlen, hres⟩ := hT
    cases res with
    | some kv =>
      simp only at hres ⊢
      exact ⟨inv1, hres.1, by simp only [List.length_cons]; omega⟩
    | none =>
      simp only at hres ⊢
      obtain ⟨hout, hall⟩ := hres
      obtain ⟨gp, sp⟩ := KV.sorted_cons.1 inv1.ps
      have hpf : pfxOk pfx pk = true := inv1.ppf _ List.mem_cons_self
      rw [suitable_eq, if_pos hpf]
      by_cases hg : gtp prev1 pk = true
      · -- the parent item is emitted
        simp only [hg, if_true]
        have inv2 : Inv pfx t1 prest (some pk) :=
          ⟨inv1.ts, sp, fun x hx => hall x hx,
            fun q hq x hx => (by cases hq; exact lexLe_of_lexLt (gp x hx)),
            fun x hx => inv1.ppf x (List.mem_cons_of_mem _ hx)⟩
        refine ⟨inv2, ?_, by simp only [List.length_cons]; omega⟩
        rw [hout]
        have h1 : out pfx t1 ((pk, pv) :: prest) prev1 = (pk, pv) :: mergeView (cut pfx t1) prest := by
          simp only [out, dropLe, hg, if_true]
          exact mergeView_parent_first (allGt_cut hall)
        have h2 : dropLe (some pk) prest = prest := by
          cases prest with
          | nil => rfl
          | cons y ys =>
            have := gp y List.mem_cons_self
            simp [dropLe, gtp, this]
        rw [h1]; simp only [out, h2]
      · -- the parent item equals `prevKey`: skipped, the loop goes on
        have hg' : gtp prev1 pk = false := by simpa using hg
        simp only [hg', Bool.false_eq_true, if_false, if_true]
        have inv2 : Inv pfx t1 prest prev1 :=
          ⟨inv1.ts, sp, inv1.tgt, fun q hq x hx => inv1.pge q hq x (List.mem_cons_of_mem _ hx),
            fun x hx => inv1.ppf x (List.mem_cons_of_mem _ hx)⟩
        have h1 : out pfx t1 ((pk, pv) :: prest) prev1 = out pfx t1 prest prev1 := by
          simp only [out, dropLe, hg', Bool.false_eq_true, if_false]
          congr 1
          cases prest with
          | nil => rfl
          | cons y ys =>
            have hy := gp y List.mem_cons_self
            cases prev1 with
            | none => simp [gtp] at hg'
            | some q =>
              have hq := inv1.pge q rfl (pk, pv) List.mem_cons_self
              have : lexLt q y.1 = true := lexLt_of_lexLe_of_lexLt hq hy
              simp [gtp, this]
        have := ih t1 prev1 inv2
        rw [hout, h1]
        split
        · rename_i kv hkv
          rw [hkv] at this
          refine ⟨this.1, this.2.1, ?_⟩
          have := this.2.2
          simp only [List.length_cons]; omega
        · rename_i hkv
          rw [hkv] at this
          exact this

/-- draining the iterator yields exactly what `out` announces -/
theorem drain_spec (pfx : Option Bytes) : ∀ (fuel : Nat) (tree : Overlay) (parent : KV) (prev : Option Bytes),
    Inv pfx tree parent prev → tree.length + parent.length < fuel →
    drain pfx fuel tree parent prev = out pfx tree parent prev := by
  intro fuel
  induction fuel with
  | zero => intro _ _ _ _ h; omega
  | succ n ih =>
    intro tree parent prev inv hf
    have := next_spec pfx parent tree prev inv
    rw [drain]
    generalize next pfx parent tree prev = r at this
    obtain ⟨t', p', prev', res⟩ := r
    cases res with
    | none => simp only at this ⊢; exact this.symm
    | some kv =>
      simp only at this ⊢
      rw [this.2.1, ih t' p' prev' this.1 (by have := this.2.2; omega)]

/-! ### from the initial state to `iterSpec` of the view -/

theorem initTree_eq (ov : Overlay) (s : Bytes) : initTree ov s = ov.filter (fun x => lexLe s x.1) := by
  unfold initTree Gen.Kv.initFromStart
  cases s with
  | nil => simp only [lexLe_nil]; exact (List.filter_eq_self.2 (fun _ _ => rfl)).symm
  | cons a as => simp

theorem pfxOk_eq (pfx : Option Bytes) (k : Bytes) : pfxOk pfx k = isPrefix (pfx.getD []) k := by
  cases pfx <;> rfl

theorem dropLe_none (m : KV) : dropLe none m = m := by
  cases m with
  | nil => rfl
  | cons a as => obtain ⟨k, v⟩ := a; simp [dropLe, gtp]

/-- among keys `≥ prefix ++ start` the prefixed ones come first -/
theorem pfxOk_downward (pfx : Option Bytes) (start : Bytes) {a b : Bytes}
    (ha : lexLe (pfx.getD [] ++ start) a = true) (hab : lexLt a b = true) (hb : pfxOk pfx b = true) :
    pfxOk pfx a = true := by
  cases pfx with
  | none => rfl
  | some p =>
    simp only [pfxOk] at hb ⊢
    obtain ⟨r, rfl⟩ := isPrefix_exists.1 hb
    exact isPrefix_of_between ha (lexLe_of_lexLt hab)

/-- what the iterator sees of the tree = the prefixed nodes, followed by tombstones outside the prefix -/
theorem cut_decomp (pfx : Option Bytes) (start : Bytes) : ∀ (t : Overlay), Overlay.Sorted t →
    (∀ x ∈ t, lexLe (pfx.getD [] ++ start) x.1 = true) →
    ∃ tb, cut pfx t = t.filter (fun x => pfxOk pfx x.1) ++ tb ∧
      ∀ x ∈ tb, x.2 = none ∧ pfxOk pfx x.1 = false ∧ lexLe (pfx.getD [] ++ start) x.1 = true := by
  intro t
  induction t with
  | nil => intro _ _; exact ⟨[], rfl, fun _ h => by cases h⟩
  | cons a ts ih =>
    obtain ⟨k, v⟩ := a
    intro hs hge
    obtain ⟨g, s⟩ := Overlay.sorted_cons.1 hs
    obtain ⟨tb, htb, hall⟩ := ih s (fun x hx => hge x (List.mem_cons_of_mem _ hx))
    by_cases hp : pfxOk pfx k = true
    · refine ⟨tb, ?_, hall⟩
      rw [List.filter_cons_of_pos (by simpa using hp)]
      cases v with
      | none => simp only [cut, htb, List.cons_append]
      | some v => simp only [cut, hp, if_true, htb, List.cons_append]
    · have hp' : pfxOk pfx k = false := by simpa using hp
      have hnone : ts.filter (fun x => pfxOk pfx x.1) = [] := by
        rw [List.filter_eq_nil_iff]
        intro x hx hpx
        exact hp (pfxOk_downward pfx start (hge _ List.mem_cons_self) (g x hx) hpx)
      rw [List.filter_cons_of_neg (by simpa using hp), hnone]
      cases v with
      | some v => exact ⟨[], by simp [cut, hp'], fun _ h => by cases h⟩
      | none =>
        refine ⟨(k, none) :: tb, by simp [cut, htb, hnone], ?_⟩
        intro x hx
        rcases List.mem_cons.1 hx with e | hx
        · subst e; exact ⟨rfl, hp', hge _ List.mem_cons_self⟩
        · exact hall x hx

/-- **Merge correctness.** A fresh iterator of a flushable store, drained, yields exactly the
    `iterSpec` of the underlying store overlaid with the tree — for all sorted stores and trees,
    prefixes (nil or not) and start keys. -/
theorem iterateOver_iterSpec {under : KV} {ov : Overlay} (hu : KV.Sorted under) (ho : Overlay.Sorted ov)
    (pfx : Option Bytes) (start : Bytes) :
    iterateOver (iterSpec under (pfx.getD []) start) ov pfx start =
      iterSpec (overlayApply under ov) (pfx.getD []) start := by
  unfold iterateOver
  simp only [initTree_eq]
  generalize hs : pfx.getD [] ++ start = s
  have hts : Overlay.Sorted (ov.filter (fun x => lexLe s x.1)) := List.Pairwise.filter _ ho
  have hps : KV.Sorted (iterSpec under (pfx.getD []) start) := sorted_iterSpec hu _ _
  have hppf : ∀ x ∈ iterSpec under (pfx.getD []) start, pfxOk pfx x.1 = true ∧ lexLe s x.1 = true := by
    intro x hx
    have := (List.mem_filter.1 hx).2
    simp only [Bool.and_eq_true] at this
    rw [pfxOk_eq, ← hs]; exact this
  have inv0 : Inv pfx (ov.filter (fun x => lexLe s x.1)) (iterSpec under (pfx.getD []) start) none :=
    ⟨hts, hps, fun _ _ => rfl, fun q hq => (by cases hq), fun x hx => (hppf x hx).1⟩
  rw [drain_spec pfx _ _ _ none inv0 (Nat.lt_succ_self _)]
  simp only [out, dropLe_none]
  obtain ⟨tb, hcut, htb⟩ := cut_decomp pfx start (ov.filter (fun x => lexLe s x.1)) hts
    (fun x hx => by rw [hs]; simpa using (List.mem_filter.1 hx).2)
  rw [hcut, mergeView_append_tombstones (fun x hx => (htb x hx).1)]
  · apply KV.ext (sorted_mergeView _ _ (List.Pairwise.filter _ hts) hps)
      (sorted_iterSpec (sorted_overlayApply hu ov) _ _)
    intro k
    rw [get_mergeView _ _ (List.Pairwise.filter _ hts) hps, get_iterSpec, get_iterSpec, get_overlayApply ho,
      Overlay.lookup_filter_key (ov.filter (fun x => lexLe s x.1)) (fun a => pfxOk pfx a),
      Overlay.lookup_filter_key ov (fun a => lexLe s a), pfxOk_eq, hs]
    cases hl : Overlay.lookup ov k with
    | none =>
      by_cases h1 : isPrefix (pfx.getD []) k = true
      · by_cases h2 : lexLe s k = true
        · simp [h1, h2]
        · simp [h1, h2]
      · simp [h1]
    | some e =>
      by_cases h1 : isPrefix (pfx.getD []) k = true
      · by_cases h2 : lexLe s k = true
        · simp [h1, h2]
        · simp [h1, h2]
      · simp [h1]
  · -- the trailing tombstones lie above every parent item
    intro x hx y hy
    obtain ⟨_, hxp, hxs⟩ := htb x hx
    obtain ⟨hyp, hys⟩ := hppf y hy
    rcases lexLt_total y.1 x.1 with h | h | h
    · exact h
    · rw [h] at hyp; rw [hyp] at hxp; cases hxp
    · have := pfxOk_downward pfx start hxs h hyp
      rw [this] at hxp; cases hxp

end Model.Flushable
