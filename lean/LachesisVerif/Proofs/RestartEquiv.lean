import LachesisVerif.Proofs.ElectionComplete
/-!
C08, election level: two closed feeds of the same roots (the arrival order of the running instance,
the table order of a restarted one) leave one election of the model in equivalent states — the same
subjects decided the same way, the same votes of every fed root on every undecided subject, all of
them the votes / decisions of the graph-level rules — and return the same result.
-/
namespace ElectionRefine
open Model.Pos Model.Election ElectionRules ElectionProofs

theorem runRoots_append (observe : Nat → Nat → Bool) (frameRoots : Nat → List Root) (a b : List Root) (el : Election) :
    runRoots observe frameRoots el (a ++ b) =
      match runRoots observe frameRoots el a with
      | .error x => .error x
      | .ok (el', some r) => .ok (el', some r)
      | .ok (el', none) => runRoots observe frameRoots el' b := by
  induction a generalizing el with
  | nil => rfl
  | cons x xs ih =>
    simp only [List.cons_append, runRoots]
    cases processRoot observe frameRoots el x with
    | error e => rfl
    | ok p =>
      obtain ⟨el', r⟩ := p
      cases r with
      | some q => rfl
      | none => exact ih el'

theorem feedClosed_append (observe : Nat → Nat → Bool) (frameRoots : Nat → List Root) (f : Nat) (a b : List Root) :
    ∀ fed, FeedClosed observe frameRoots f fed (a ++ b) ↔
      (FeedClosed observe frameRoots f fed a ∧ FeedClosed observe frameRoots f (a.reverse ++ fed) b) := by
  induction a with
  | nil => intro fed; simp [FeedClosed]
  | cons x xs ih =>
    intro fed
    simp only [List.cons_append, FeedClosed, ih (x :: fed), List.reverse_cons, List.append_assoc,
      List.cons_append, List.nil_append, and_assoc]

section Run
variable {N : Net} {vals : Vals} {f : Nat} {observe : Nat → Nat → Bool} {frameRoots : Nat → List Root}

/-- everything known about the state after a closed feed that returned nothing -/
structure Full (N : Net) (vals : Vals) (f : Nat) (frameRoots : Nat → List Root) (fed : List Root) (el : Election) : Prop where
  js : JS N vals f frameRoots el
  stored : Stored f fed el
  jc : JC N f fed el
  complete : Complete N f fed el

theorem full_reset (N : Net) (vals : Vals) (f : Nat) (frameRoots : Nat → List Root) :
    Full N vals f frameRoots [] (reset vals f) :=
  ⟨JS_reset N vals f frameRoots, (by intro r hr; cases hr), JC_reset N vals f, (by intro r hr; cases hr)⟩

theorem runRoots_full (S : Setup N vals f observe frameRoots) (rs : List Root) :
    ∀ (fed : List Root) (el : Election), Full N vals f frameRoots fed el → FeedClosed observe frameRoots f fed rs →
      ∀ el', runRoots observe frameRoots el rs = .ok (el', none) → Full N vals f frameRoots (rs.reverse ++ fed) el' := by
  induction rs with
  | nil => intro fed el F _ el' h; simp only [runRoots] at h; cases h; exact F
  | cons r rest ih =>
    intro fed el F hfc el' h
    obtain ⟨⟨h1, h2, h3⟩, hrest⟩ := hfc
    have hrev : (r :: rest).reverse ++ fed = rest.reverse ++ (r :: fed) := by
      rw [List.reverse_cons, List.append_assoc]; rfl
    rw [hrev]
    rcases processRoot_refines S F.js fed F.stored r h1 h2 h3 with ⟨he, _⟩ | ⟨el1, res1, he, js1, hst1, _⟩
    · simp only [runRoots, he] at h; cases h
    · obtain ⟨jc1, _, hcomp1⟩ := processRoot_complete S F.js fed F.stored F.jc F.complete r h1 h2 h3 el1 res1 he
      cases res1 with
      | some x => simp only [runRoots, he] at h; cases h
      | none =>
        simp only [runRoots, he] at h
        exact ih (r :: fed) el1 ⟨js1, hst1 rfl, jc1, hcomp1 rfl⟩ hrest el' h

theorem mem_notDecided (S : Setup N vals f observe frameRoots) {el : Election} (js : JS N vals f frameRoots el) (s : Nat) :
    s ∈ notDecided el ↔ (s < N.nVals ∧ el.decidedRoots.lookup s = none) := by
  unfold notDecided
  rw [List.mem_filter, js.vals, canon_ids S.vals.canon, List.mem_range]
  cases el.decidedRoots.lookup s <;> simp

/-- restart equivalence of two election states w.r.t. the rules of `N`, frame `f` and the fed roots -/
structure ElEquiv (N : Net) (f : Nat) (fed : List Root) (el₁ el₂ : Election) : Prop where
  ftd₁ : el₁.frameToDecide = f
  ftd₂ : el₂.frameToDecide = f
  vals : el₁.vals = el₂.vals
  decided_iff : ∀ s, s < N.nVals → ((el₁.decidedRoots.lookup s).isSome = (el₂.decidedRoots.lookup s).isSome)
  decided_eq : ∀ s v₁ v₂, el₁.decidedRoots.lookup s = some v₁ → el₂.decidedRoots.lookup s = some v₂ →
    v₁.yes = v₂.yes ∧ (v₁.yes = true → v₁.observedRoot = v₂.observedRoot)
  decided_sound : ∀ s v, el₁.decidedRoots.lookup s = some v →
    (v.yes = true → N.DecidedYes f s) ∧ (v.yes = false → N.DecidedNo f s)
  votes_eq : ∀ r s v₁ v₂, el₁.votes.lookup (r, s) = some v₁ → el₂.votes.lookup (r, s) = some v₂ →
    v₁.yes = v₂.yes ∧ (v₁.yes = true → v₁.observedRoot = v₂.observedRoot)
  votes_sound : ∀ r s v, el₁.votes.lookup (r, s) = some v → (v.yes = true ↔ N.voteYes f (r.frame - f) r.id s)
  votes_present : ∀ r ∈ fed, f < r.frame → ∀ s, s < N.nVals → el₁.decidedRoots.lookup s = none →
    (∃ v, el₁.votes.lookup (r, s) = some v) ∧ (∃ v, el₂.votes.lookup (r, s) = some v)

theorem bool_eq_of_iff {a b : Bool} {P : Prop} (ha : a = true ↔ P) (hb : b = true ↔ P) : a = b := by
  cases a <;> cases b <;> simp_all

/-- a stored decision is also stored by any other run whose feed contains the deciding root -/
theorem decided_transfer {fed₁ fed₂ : List Root} {el₁ el₂ : Election}
    (F₁ : Full N vals f frameRoots fed₁ el₁) (F₂ : Full N vals f frameRoots fed₂ el₂)
    (hsub : ∀ r ∈ fed₁, f < r.frame → r ∈ fed₂) (s : Nat) (hs : s < N.nVals) (v : VoteValue)
    (hl : el₁.decidedRoots.lookup s = some v) : ∃ v', el₂.decidedRoots.lookup s = some v' := by
  obtain ⟨hd, r, hm⟩ := F₁.jc.dec_src s v (lookup_mem _ _ _ hl)
  have hfr := (F₁.js.votes r s v hm).1
  obtain ⟨d1, d2⟩ := F₁.jc.votes_dec r s v hm hd
  apply F₂.complete r (hsub r (F₁.jc.votes_fed r s v hm) hfr) hfr s hs
  cases hy : v.yes with
  | true => exact Or.inl (d1 hy)
  | false => exact Or.inr (d2 hy)

theorem equiv_of_full (S : Setup N vals f observe frameRoots) {fed₁ fed₂ : List Root} {el₁ el₂ : Election}
    (F₁ : Full N vals f frameRoots fed₁ el₁) (F₂ : Full N vals f frameRoots fed₂ el₂)
    (h12 : ∀ r ∈ fed₁, f < r.frame → r ∈ fed₂) (h21 : ∀ r ∈ fed₂, f < r.frame → r ∈ fed₁) :
    ElEquiv N f fed₁ el₁ el₂ := by
  have cand_eq : ∀ s a b, Cand N f s a → Cand N f s b → a = b := fun s a b => Cand.unique S.slots
  have hiff : ∀ s, s < N.nVals → ((el₁.decidedRoots.lookup s).isSome = (el₂.decidedRoots.lookup s).isSome) := by
    intro s hs
    cases h1 : el₁.decidedRoots.lookup s with
    | some v =>
      obtain ⟨v', hv'⟩ := decided_transfer F₁ F₂ h12 s hs v h1
      rw [hv']; rfl
    | none =>
      cases h2 : el₂.decidedRoots.lookup s with
      | none => rfl
      | some v =>
        obtain ⟨v', hv'⟩ := decided_transfer F₂ F₁ h21 s hs v h2
        rw [h1] at hv'; cases hv'
  refine ⟨F₁.js.ftd, F₂.js.ftd, F₁.js.vals.trans F₂.js.vals.symm, hiff, ?_, ?_, ?_, ?_, ?_⟩
  · intro s v₁ v₂ h1 h2
    obtain ⟨_, y1, n1⟩ := F₁.js.decided s v₁ (lookup_mem _ _ _ h1)
    obtain ⟨_, y2, n2⟩ := F₂.js.decided s v₂ (lookup_mem _ _ _ h2)
    have excl := (N.L4_of_slotUnique S.accepted S.slots f s).1
    cases hy1 : v₁.yes <;> cases hy2 : v₂.yes
    · exact ⟨rfl, fun h => by cases h⟩
    · exact absurd (n1 hy1) (excl (y2 hy2).1)
    · exact absurd (n2 hy2) (excl (y1 hy1).1)
    · exact ⟨rfl, fun _ => cand_eq s _ _ (y1 hy1).2 (y2 hy2).2⟩
  · intro s v h1
    obtain ⟨_, y1, n1⟩ := F₁.js.decided s v (lookup_mem _ _ _ h1)
    exact ⟨fun h => (y1 h).1, n1⟩
  · intro r s v₁ v₂ h1 h2
    obtain ⟨_, _, _, y1, c1⟩ := F₁.js.votes r s v₁ (lookup_mem _ _ _ h1)
    obtain ⟨_, _, _, y2, c2⟩ := F₂.js.votes r s v₂ (lookup_mem _ _ _ h2)
    have e := bool_eq_of_iff y1 y2
    exact ⟨e, fun h => cand_eq s _ _ (c1 h) (c2 (e ▸ h))⟩
  · intro r s v h1
    exact (F₁.js.votes r s v (lookup_mem _ _ _ h1)).2.2.2.1
  · intro r hr hfr s hs hn
    have hn2 : el₂.decidedRoots.lookup s = none := by
      have := hiff s hs
      rw [hn] at this
      cases h2 : el₂.decidedRoots.lookup s with
      | none => rfl
      | some v => rw [h2] at this; cases this
    exact ⟨F₁.stored r hr hfr s ((mem_notDecided S F₁.js s).2 ⟨hs, hn⟩),
      F₂.stored r (h12 r hr hfr) hfr s ((mem_notDecided S F₂.js s).2 ⟨hs, hn2⟩)⟩

/-- where an error of one `processRoot` call comes from: a sound state with provenance in which
    `chooseAtropos` fails -/
theorem processRoot_error_src (S : Setup N vals f observe frameRoots) {fed : List Root} {el : Election}
    (F : Full N vals f frameRoots fed el) (nr : Root) (hroot : nr ∈ frameRoots nr.frame) (hb : nr.frame < 4294967296)
    (hclosed : ∀ p ∈ frameRoots (nr.frame - 1), f < p.frame → observe nr.id p.id = true → p ∈ fed)
    (e : ElErr) (h : processRoot observe frameRoots el nr = .error e) :
    ∃ el_e, JS N vals f frameRoots el_e ∧ JC N f (nr :: fed) el_e ∧ chooseAtropos el_e = .error e := by
  rw [processRoot_eq] at h
  cases hc : chooseAtropos el with
  | error e' =>
    rw [hc] at h; cases h
    exact ⟨el, F.js, F.jc.mono (fun r hr => List.mem_cons_of_mem _ hr), hc⟩
  | ok r =>
    rw [hc] at h
    cases r with
    | some r => cases h
    | none =>
      simp only at h
      by_cases hs : Gen.Election.skipOldRoot nr.frame el.frameToDecide = true
      · rw [if_pos hs] at h; cases h
      · rw [if_neg hs] at h
        have hs' : Gen.Election.skipOldRoot nr.frame el.frameToDecide = false := by simpa using hs
        obtain ⟨hvl, hlt, hvf⟩ := vote_branch S F.js fed F.stored nr hroot hb hclosed hs'
        obtain ⟨_, hround, _, _, _⟩ := round_facts nr.frame el.frameToDecide hb (by rw [F.js.ftd]; exact S.fbound) hs'
        have hz : Gen.Election.roundZero (Gen.Election.round nr.frame el.frameToDecide) = false := by
          rw [hround, F.js.ftd]; unfold Gen.Election.roundZero; simp only [decide_eq_false_iff_not]; omega
        rw [hz, hvl] at h
        simp only [Bool.false_eq_true, if_false] at h
        obtain ⟨js', _⟩ := pushAll_sound S F.js fed F.stored nr hroot hlt _ hvf
        obtain ⟨jc', _⟩ := pushAll_complete S F.js fed F.jc F.complete nr _ hvf
        cases hc2 : chooseAtropos (pushAll nr (voteOf observe frameRoots el nr) (notDecided el) el) with
        | error e' => rw [hc2] at h; cases h; exact ⟨_, js', jc', hc2⟩
        | ok res => rw [hc2] at h; cases h

theorem runRoots_error_src (S : Setup N vals f observe frameRoots) (rs : List Root) :
    ∀ (fed : List Root) (el : Election), Full N vals f frameRoots fed el → FeedClosed observe frameRoots f fed rs →
      ∀ e, runRoots observe frameRoots el rs = .error e →
        ∃ el_e fed', JS N vals f frameRoots el_e ∧ JC N f fed' el_e ∧ (∀ r ∈ fed', r ∈ rs ∨ r ∈ fed) ∧
          chooseAtropos el_e = .error e := by
  induction rs with
  | nil => intro fed el _ _ e h; simp only [runRoots] at h; cases h
  | cons r rest ih =>
    intro fed el F hfc e h
    obtain ⟨⟨h1, h2, h3⟩, hrest⟩ := hfc
    cases hp : processRoot observe frameRoots el r with
    | error e' =>
      simp only [runRoots, hp] at h; cases h
      obtain ⟨el_e, js, jc, hc⟩ := processRoot_error_src S F r h1 h2 h3 e hp
      refine ⟨el_e, r :: fed, js, jc, ?_, hc⟩
      intro x hx
      rcases List.mem_cons.1 hx with rfl | hx
      · exact Or.inl List.mem_cons_self
      · exact Or.inr hx
    | ok p =>
      obtain ⟨el1, res1⟩ := p
      rcases processRoot_refines S F.js fed F.stored r h1 h2 h3 with ⟨he, _⟩ | ⟨el1', res1', he, js1, hst1, _⟩
      · rw [he] at hp; cases hp
      · rw [he] at hp; cases hp
        obtain ⟨jc1, _, hcomp1⟩ := processRoot_complete S F.js fed F.stored F.jc F.complete r h1 h2 h3 el1 res1 he
        cases res1 with
        | some x => simp only [runRoots, he] at h; cases h
        | none =>
          simp only [runRoots, he] at h
          obtain ⟨el_e, fed', js, jc, hsub, hc⟩ := ih (r :: fed) el1 ⟨js1, hst1 rfl, jc1, hcomp1 rfl⟩ hrest e h
          refine ⟨el_e, fed', js, jc, ?_, hc⟩
          intro x hx
          rcases hsub x hx with hx | hx
          · exact Or.inl (List.mem_cons_of_mem _ hx)
          · rcases List.mem_cons.1 hx with rfl | hx
            · exact Or.inl List.mem_cons_self
            · exact Or.inr hx

/-- after a run that returned nothing, some validator is still undecided (needs one validator) -/
theorem undecided_of_none (S : Setup N vals f observe frameRoots) (hpos : 0 < N.nVals) (rs : List Root)
    (hfc : FeedClosed observe frameRoots f [] rs) (el : Election)
    (h : runRoots observe frameRoots (reset vals f) rs = .ok (el, none)) :
    ∃ v, v < N.nVals ∧ el.decidedRoots.lookup v = none := by
  by_cases hne : rs = []
  · subst hne
    simp only [runRoots] at h; cases h
    exact ⟨0, hpos, rfl⟩
  · have F := runRoots_full S rs [] _ (full_reset N vals f frameRoots) hfc el h
    obtain ⟨_, hch, _⟩ := runRoots_complete S rs [] (reset vals f) (JS_reset N vals f frameRoots)
      (by intro r hr; cases hr) (JC_reset N vals f) (by intro r hr; cases hr) hfc (fun h => absurd h hne) el none h
    have hnone := hch hne
    unfold chooseAtropos at hnone
    rw [sorted_eq S.vals F.js] at hnone
    obtain ⟨v₀, _, hv₀, hl₀, _⟩ := chooseAtroposFrom_range_none el N.w N.nVals 0 hnone
    exact ⟨v₀, by omega, hl₀⟩

/-- **Restart equivalence of one election.** Two closed feeds `rs₁`, `rs₂` with the same roots above
    the frame to decide (e.g. arrival order of the running instance / table order after a restart).
    Whatever the first run returns, the second returns too — the same Atropos, or nothing — never an
    error; and if nothing is returned the two final election states are equivalent (`ElEquiv`). -/
theorem restart_equiv_core (S : Setup N vals f observe frameRoots) (hpos : 0 < N.nVals) (rs₁ rs₂ : List Root)
    (hfc₁ : FeedClosed observe frameRoots f [] rs₁) (hfc₂ : FeedClosed observe frameRoots f [] rs₂)
    (h12 : ∀ r ∈ rs₁, f < r.frame → r ∈ rs₂) (h21 : ∀ r ∈ rs₂, f < r.frame → r ∈ rs₁)
    (el₁ : Election) (res : Option (Nat × Nat))
    (h₁ : runRoots observe frameRoots (reset vals f) rs₁ = .ok (el₁, res)) :
    ∃ el₂, runRoots observe frameRoots (reset vals f) rs₂ = .ok (el₂, res) ∧
      (res = none → ElEquiv N f rs₁.reverse el₁ el₂) := by
  cases res with
  | some b =>
    obtain ⟨el₂, h₂⟩ := same_result S S rs₁ rs₂ hfc₁ hfc₂ h12 el₁ b h₁
    exact ⟨el₂, h₂, fun h => by cases h⟩
  | none =>
    have F₁ := runRoots_full S rs₁ [] _ (full_reset N vals f frameRoots) hfc₁ el₁ h₁
    rw [List.append_nil] at F₁
    cases h₂ : runRoots observe frameRoots (reset vals f) rs₂ with
    | error e =>
      exfalso
      obtain ⟨el_e, fed', js, jc, hsub, hc⟩ := runRoots_error_src S rs₂ [] _ (full_reset N vals f frameRoots) hfc₂ e h₂
      unfold chooseAtropos at hc
      rw [sorted_eq S.vals js] at hc
      obtain ⟨_, hall⟩ := chooseAtroposFrom_range_error el_e N.w N.nVals 0 e hc
      obtain ⟨v₀, hv₀, hl₀⟩ := undecided_of_none S hpos rs₁ hfc₁ el₁ h₁
      obtain ⟨vt, hl, _⟩ := hall v₀ (Nat.zero_le _) (by omega)
      obtain ⟨hd, r, hm⟩ := jc.dec_src v₀ vt (lookup_mem _ _ _ hl)
      have hfr := (js.votes r v₀ vt hm).1
      obtain ⟨d1, d2⟩ := jc.votes_dec r v₀ vt hm hd
      have hr2 : r ∈ rs₂ := by
        rcases hsub r (jc.votes_fed r v₀ vt hm) with h | h
        · exact h
        · cases h
      have hr1 : r ∈ rs₁.reverse := List.mem_reverse.2 (h21 r hr2 hfr)
      obtain ⟨v', hv'⟩ := F₁.complete r hr1 hfr v₀ hv₀ (by
        cases hy : vt.yes with
        | true => exact Or.inl (d1 hy)
        | false => exact Or.inr (d2 hy))
      rw [hl₀] at hv'; cases hv'
    | ok p =>
      obtain ⟨el₂, res₂⟩ := p
      cases res₂ with
      | some b =>
        exfalso
        obtain ⟨el', h'⟩ := same_result S S rs₂ rs₁ hfc₂ hfc₁ h21 el₂ b h₂
        rw [h'] at h₁; cases h₁
      | none =>
        have F₂ := runRoots_full S rs₂ [] _ (full_reset N vals f frameRoots) hfc₂ el₂ h₂
        rw [List.append_nil] at F₂
        refine ⟨el₂, rfl, fun _ => equiv_of_full S F₁ F₂ ?_ ?_⟩
        · intro r hr hfr; exact List.mem_reverse.2 (h12 r (List.mem_reverse.1 hr) hfr)
        · intro r hr hfr; exact List.mem_reverse.2 (h21 r (List.mem_reverse.1 hr) hfr)

theorem runRoots_single (observe : Nat → Nat → Bool) (frameRoots : Nat → List Root) (el : Election) (nr : Root) :
    runRoots observe frameRoots el [nr] = processRoot observe frameRoots el nr := by
  simp only [runRoots]
  cases processRoot observe frameRoots el nr with
  | error e => rfl
  | ok p =>
    obtain ⟨el', r⟩ := p
    cases r <;> rfl

theorem runRoots_snoc (rs : List Root) (el₀ el : Election) (nr : Root)
    (h : runRoots observe frameRoots el₀ rs = .ok (el, none)) :
    runRoots observe frameRoots el₀ (rs ++ [nr]) = processRoot observe frameRoots el nr := by
  rw [runRoots_append, h]
  exact runRoots_single observe frameRoots el nr

/-- **The next root.** After two equivalent feeds that returned nothing, processing one further root
    (closed w.r.t. what was fed) gives the same outcome in both elections — the same error, the same
    Atropos, or nothing; in the last case the successor states are again equivalent. -/
theorem next_processRoot_equiv (S : Setup N vals f observe frameRoots) (hpos : 0 < N.nVals) (rs₁ rs₂ : List Root)
    (hfc₁ : FeedClosed observe frameRoots f [] rs₁) (hfc₂ : FeedClosed observe frameRoots f [] rs₂)
    (h12 : ∀ r ∈ rs₁, f < r.frame → r ∈ rs₂) (h21 : ∀ r ∈ rs₂, f < r.frame → r ∈ rs₁)
    (el₁ el₂ : Election)
    (h₁ : runRoots observe frameRoots (reset vals f) rs₁ = .ok (el₁, none))
    (h₂ : runRoots observe frameRoots (reset vals f) rs₂ = .ok (el₂, none))
    (nr : Root) (hroot : nr ∈ frameRoots nr.frame) (hb : nr.frame < 4294967296)
    (hclosed : ∀ p ∈ frameRoots (nr.frame - 1), f < p.frame → observe nr.id p.id = true → p ∈ rs₁) :
    Except.map Prod.snd (processRoot observe frameRoots el₁ nr) =
      Except.map Prod.snd (processRoot observe frameRoots el₂ nr) ∧
    ∀ el₁', processRoot observe frameRoots el₁ nr = .ok (el₁', none) →
      ∃ el₂', processRoot observe frameRoots el₂ nr = .ok (el₂', none) ∧
        ElEquiv N f (nr :: rs₁.reverse) el₁' el₂' := by
  have hc₁ : FeedClosed observe frameRoots f [] (rs₁ ++ [nr]) := by
    rw [feedClosed_append]
    refine ⟨hfc₁, ⟨hroot, hb, ?_⟩, trivial⟩
    intro p hp hfp ho
    rw [List.append_nil, List.mem_reverse]; exact hclosed p hp hfp ho
  have hc₂ : FeedClosed observe frameRoots f [] (rs₂ ++ [nr]) := by
    rw [feedClosed_append]
    refine ⟨hfc₂, ⟨hroot, hb, ?_⟩, trivial⟩
    intro p hp hfp ho
    rw [List.append_nil, List.mem_reverse]; exact h12 p (hclosed p hp hfp ho) hfp
  have i12 : ∀ r ∈ rs₁ ++ [nr], f < r.frame → r ∈ rs₂ ++ [nr] := by
    intro r hr hfr
    rcases List.mem_append.1 hr with h | h
    · exact List.mem_append_left _ (h12 r h hfr)
    · exact List.mem_append_right _ h
  have i21 : ∀ r ∈ rs₂ ++ [nr], f < r.frame → r ∈ rs₁ ++ [nr] := by
    intro r hr hfr
    rcases List.mem_append.1 hr with h | h
    · exact List.mem_append_left _ (h21 r h hfr)
    · exact List.mem_append_right _ h
  have e₁ := runRoots_snoc (observe := observe) (frameRoots := frameRoots) rs₁ _ el₁ nr h₁
  have e₂ := runRoots_snoc (observe := observe) (frameRoots := frameRoots) rs₂ _ el₂ nr h₂
  have fwd : ∀ el' res, processRoot observe frameRoots el₁ nr = .ok (el', res) →
      ∃ el₂', processRoot observe frameRoots el₂ nr = .ok (el₂', res) ∧
        (res = none → ElEquiv N f (rs₁ ++ [nr]).reverse el' el₂') := by
    intro el' res hp
    have := restart_equiv_core S hpos _ _ hc₁ hc₂ i12 i21 el' res (e₁.trans hp)
    rwa [e₂] at this
  have bwd : ∀ el' res, processRoot observe frameRoots el₂ nr = .ok (el', res) →
      ∃ el₁', processRoot observe frameRoots el₁ nr = .ok (el₁', res) := by
    intro el' res hp
    obtain ⟨x, hx, _⟩ := restart_equiv_core S hpos _ _ hc₂ hc₁ i21 i12 el' res (e₂.trans hp)
    rw [e₁] at hx; exact ⟨x, hx⟩
  constructor
  · cases hp₁ : processRoot observe frameRoots el₁ nr with
    | ok p =>
      obtain ⟨el', res⟩ := p
      obtain ⟨el₂', hp₂, _⟩ := fwd el' res hp₁
      rw [hp₂]; rfl
    | error e =>
      cases hp₂ : processRoot observe frameRoots el₂ nr with
      | ok p =>
        obtain ⟨el', res⟩ := p
        obtain ⟨x, hx⟩ := bwd el' res hp₂
        rw [hp₁] at hx; cases hx
      | error e' =>
        have a₁ : e = .allNo := by
          rcases single_election S _ hc₁ with ⟨he, _⟩ | ⟨x, y, he, _⟩
          · rw [e₁, hp₁] at he; cases he; rfl
          · rw [e₁, hp₁] at he; cases he
        have a₂ : e' = .allNo := by
          rcases single_election S _ hc₂ with ⟨he, _⟩ | ⟨x, y, he, _⟩
          · rw [e₂, hp₂] at he; cases he; rfl
          · rw [e₂, hp₂] at he; cases he
        rw [a₁, a₂]
  · intro el₁' hp₁
    obtain ⟨el₂', hp₂, heq⟩ := fwd el₁' none hp₁
    refine ⟨el₂', hp₂, ?_⟩
    have := heq rfl
    rwa [List.reverse_append] at this

end Run
end ElectionRefine
