import LachesisVerif.Proofs.ElectionL4
/-!
Graph-level lemmas behind C10/C01, part 5: L6 — in a valid history with accepted frames and forkers
below one third, for every frame `f ≥ 1` some validator is never decided "no".

Argument (weighted double counting over the round-1 votes). Call a root of frame `f+1` *effective*
if something forkless-causes it; by slot uniqueness (L2) every validator has at most one effective
root, and by the frame rule that root forkless-causes roots of frame `f` of weight ≥ quorum, so the
subjects it votes "no" on weigh ≤ `W - q`. Let `noMass v` be the weight of the validators whose
effective root votes "no" on `v`. Summing `w v · noMass v` over the subjects and swapping the two
sums gives `Σ_v w v · noMass v ≤ W · (W - q)`; if `q < 2 · noMass v` held for every `v` we would get
`(q+1) · W ≤ 2 · W · (W - q)`, i.e. `3q < 2W`, contradicting `q > 2W/3`. So some subject `v` has
`2 · noMass v ≤ q`. Every root of frame `f+2` is forkless-caused by a quorum of effective roots of
which at most `noMass v ≤ q/2` (by weight) vote "no": it votes "yes" (a tie counts as yes) and
cannot decide "no"; from round 3 on every root sees only yes-votes. Hence `v` is never decided "no".
-/
namespace ElectionRules
open VecProofs
open Classical

/-- plain sum of `f` over a list -/
def dsum (l : List Nat) (f : Nat → Nat) : Nat := (l.map f).sum

theorem dsum_nil (f : Nat → Nat) : dsum [] f = 0 := rfl
theorem dsum_cons (a : Nat) (l : List Nat) (f : Nat → Nat) : dsum (a :: l) f = f a + dsum l f := by
  simp [dsum]

theorem dsum_congr (l : List Nat) (f g : Nat → Nat) (h : ∀ v ∈ l, f v = g v) : dsum l f = dsum l g := by
  induction l with
  | nil => rfl
  | cons a l ih =>
    rw [dsum_cons, dsum_cons, h a List.mem_cons_self, ih (fun v hv => h v (List.mem_cons_of_mem _ hv))]

theorem dsum_le (l : List Nat) (f g : Nat → Nat) (h : ∀ v ∈ l, f v ≤ g v) : dsum l f ≤ dsum l g := by
  induction l with
  | nil => exact Nat.le_refl _
  | cons a l ih =>
    rw [dsum_cons, dsum_cons]
    have h1 := h a List.mem_cons_self
    have h2 := ih (fun v hv => h v (List.mem_cons_of_mem _ hv))
    omega

theorem dsum_zero (l : List Nat) : dsum l (fun _ => 0) = 0 := by
  induction l with
  | nil => rfl
  | cons a l ih => rw [dsum_cons, ih]

theorem dsum_add (l : List Nat) (f g : Nat → Nat) : dsum l (fun v => f v + g v) = dsum l f + dsum l g := by
  induction l with
  | nil => rfl
  | cons a l ih => rw [dsum_cons, dsum_cons, dsum_cons, ih]; omega

theorem mul_dsum (c : Nat) (l : List Nat) (f : Nat → Nat) : c * dsum l f = dsum l (fun v => c * f v) := by
  induction l with
  | nil => rfl
  | cons a l ih => rw [dsum_cons, dsum_cons, Nat.mul_add, ih]

theorem dsum_mul (c : Nat) (l : List Nat) (f : Nat → Nat) : dsum l f * c = dsum l (fun v => f v * c) := by
  induction l with
  | nil => simp [dsum]
  | cons a l ih => rw [dsum_cons, dsum_cons, Nat.add_mul, ih]

theorem dsum_swap (l l' : List Nat) (g : Nat → Nat → Nat) :
    dsum l (fun a => dsum l' (fun b => g a b)) = dsum l' (fun b => dsum l (fun a => g a b)) := by
  induction l with
  | nil =>
    rw [dsum_nil]
    exact (dsum_zero l').symm
  | cons a l ih =>
    rw [dsum_cons, ih]
    have : (fun b => dsum (a :: l) (fun a' => g a' b)) = fun b => g a b + dsum l (fun a' => g a' b) := by
      funext b; rw [dsum_cons]
    rw [this, dsum_add]

theorem wsum_eq_dsum (w : Nat → Nat) (l : List Nat) (P : Nat → Prop) :
    wsum w l P = dsum l (fun v => if P v then w v else 0) := by
  induction l with
  | nil => rfl
  | cons a l ih => rw [wsum_cons, dsum_cons, ih]

/-- weighted double counting: both sides are `Σ_{(u,v) ∈ l' × l, R u v} w u · w v` -/
theorem wsum_double (w : Nat → Nat) (l l' : List Nat) (R : Nat → Nat → Prop) :
    dsum l (fun v => w v * wsum w l' (fun u => R u v)) = dsum l' (fun u => w u * wsum w l (fun v => R u v)) := by
  have e1 : dsum l (fun v => w v * wsum w l' (fun u => R u v)) =
      dsum l (fun v => dsum l' (fun u => w v * (if R u v then w u else 0))) := by
    apply dsum_congr; intro v _; rw [wsum_eq_dsum, mul_dsum]
  have e2 : dsum l' (fun u => w u * wsum w l (fun v => R u v)) =
      dsum l' (fun u => dsum l (fun v => w v * (if R u v then w u else 0))) := by
    apply dsum_congr; intro u _; rw [wsum_eq_dsum, mul_dsum]
    apply dsum_congr; intro v _
    by_cases h : R u v
    · rw [if_pos h, if_pos h, Nat.mul_comm]
    · rw [if_neg h, if_neg h, Nat.mul_zero, Nat.mul_zero]
  rw [e1, e2, dsum_swap]

theorem wsum_true (w : Nat → Nat) (l : List Nat) : wsum w l (fun _ => True) = dsum l w := by
  rw [wsum_eq_dsum]; apply dsum_congr; intro v _; rw [if_pos trivial]

namespace Net
variable (N : Net)

theorem total_eq_dsum : N.total = dsum (List.range N.nVals) N.w := wsum_true _ _

/-- the pigeonhole step: if every row of the relation `R` weighs at most `t` and `2t ≤ c`, some
    column weighs at most `c / 2` -/
theorem exists_light_column (R : Nat → Nat → Prop) (t c : Nat) (hW : 0 < N.total)
    (hrow : ∀ u, u < N.nVals → N.weightOf (fun v => R u v) ≤ t) (hc : 2 * t < c + 1) :
    ∃ v, v < N.nVals ∧ 2 * N.weightOf (fun u => R u v) ≤ c := by
  apply Classical.byContradiction
  intro hn
  have hcol : ∀ v ∈ List.range N.nVals, N.w v * (c + 1) ≤ N.w v * (2 * N.weightOf (fun u => R u v)) := by
    intro v hv
    apply Nat.mul_le_mul_left
    have : ¬ 2 * N.weightOf (fun u => R u v) ≤ c := fun h => hn ⟨v, List.mem_range.1 hv, h⟩
    omega
  have h1 := dsum_le _ _ _ hcol
  rw [← dsum_mul, ← total_eq_dsum] at h1
  have h2 : dsum (List.range N.nVals) (fun v => N.w v * (2 * N.weightOf (fun u => R u v))) =
      2 * dsum (List.range N.nVals) (fun v => N.w v * N.weightOf (fun u => R u v)) := by
    rw [mul_dsum]; apply dsum_congr; intro v _
    rw [← Nat.mul_assoc, ← Nat.mul_assoc, Nat.mul_comm 2]
  rw [h2] at h1
  have h3 : dsum (List.range N.nVals) (fun v => N.w v * N.weightOf (fun u => R u v)) =
      dsum (List.range N.nVals) (fun u => N.w u * N.weightOf (fun v => R u v)) :=
    wsum_double N.w _ _ R
  rw [h3] at h1
  have h4 : dsum (List.range N.nVals) (fun u => N.w u * N.weightOf (fun v => R u v)) ≤
      dsum (List.range N.nVals) (fun u => N.w u * t) :=
    dsum_le _ _ _ (fun u hu => Nat.mul_le_mul_left _ (hrow u (List.mem_range.1 hu)))
  rw [← dsum_mul, ← total_eq_dsum] at h4
  have h5 : N.total * (c + 1) ≤ N.total * (2 * t) := by
    have : 2 * (N.total * t) = N.total * (2 * t) := by
      rw [← Nat.mul_assoc, Nat.mul_comm 2, Nat.mul_assoc]
    omega
  have := Nat.le_of_mul_le_mul_left h5 hW
  omega

/-- validator `u` has an effective root of frame `f+1` (forkless-caused by something) voting "no" on `v` -/
def NoVoter (f u v : Nat) : Prop :=
  ∃ p, N.IsRoot p (f + 1) ∧ N.creator p = u ∧ (∃ r, N.FC r p) ∧ ¬ N.voteYes f 1 p v

/-- weight of the validators whose effective root of frame `f+1` votes "no" on `v` -/
noncomputable def noMass (f v : Nat) : Nat := N.weightOf (fun u => N.NoVoter f u v)

/-- the subjects a root of frame `f+1` votes "yes" on weigh at least the quorum -/
theorem first_round_yes_weight (hfa : N.FramesAccepted) {f p : Nat} (hf : 1 ≤ f) (hp : N.IsRoot p (f + 1)) :
    N.quorum ≤ N.weightOf (fun v => N.voteYes f 1 p v) := by
  have h := N.root_prev_quorum hfa hp hf
  have e : N.causedWeight p f (fun _ => True) = N.weightOf (fun v => N.voteYes f 1 p v) := by
    apply N.weightOf_congr
    intro u _
    constructor
    · rintro ⟨r, a, b, c, _⟩; exact ⟨r, a, b, c⟩
    · rintro ⟨r, a, b, c⟩; exact ⟨r, a, b, c, trivial⟩
  rw [e] at h; exact h

/-- the subjects the effective root of one validator votes "no" on weigh at most `W - q` -/
theorem noVoter_row (hfa : N.FramesAccepted) (hsu : N.SlotUnique) (hW : 0 < N.total) {f : Nat} (hf : 1 ≤ f)
    (u : Nat) :
    N.weightOf (fun v => N.NoVoter f u v) + N.quorum ≤ N.total := by
  by_cases hex : ∃ v, N.NoVoter f u v
  · obtain ⟨v0, p0, hp0, hc0, ⟨r0, hr0⟩, _⟩ := hex
    have h1 : N.weightOf (fun v => N.NoVoter f u v) ≤ N.weightOf (fun v => ¬ N.voteYes f 1 p0 v) := by
      apply N.weightOf_mono
      rintro v _ ⟨p, hp, hc, ⟨r, hr⟩, hno⟩
      have : p = p0 := hsu (f + 1) p p0 r r0 hp hp0 (hc.trans hc0.symm) hr hr0
      subst this; exact hno
    have h2 := N.first_round_yes_weight hfa hf hp0
    have h3 := N.weightOf_add (fun v => ¬ N.voteYes f 1 p0 v) (fun v => N.voteYes f 1 p0 v)
    have h4 := N.weightOf_le_total (fun v => ¬ N.voteYes f 1 p0 v ∨ N.voteYes f 1 p0 v)
    have h5 := N.weightOf_zero (fun v => ¬ N.voteYes f 1 p0 v ∧ N.voteYes f 1 p0 v) (fun v _ h => h.1 h.2)
    omega
  · have h0 : N.weightOf (fun v => N.NoVoter f u v) = 0 :=
      N.weightOf_zero _ (fun v _ h => hex ⟨v, h⟩)
    rw [h0]
    unfold quorum
    omega

/-- some subject receives "no" from effective first-round roots of at most half a quorum -/
theorem exists_light_subject (hfa : N.FramesAccepted) (hsu : N.SlotUnique) (hW : 0 < N.total) {f : Nat}
    (hf : 1 ≤ f) : ∃ v, v < N.nVals ∧ 2 * N.noMass f v ≤ N.quorum := by
  have h3 := N.three_quorum
  apply N.exists_light_column (fun u v => N.NoVoter f u v) (N.total - N.quorum) N.quorum hW
  · intro u _
    have := N.noVoter_row hfa hsu hW hf u
    omega
  · omega

/-- no-votes of the previous round, as seen by `r`, weigh at most `noMass` -/
theorem round1_no_le (f r v : Nat) :
    N.causedWeight r (f + 1) (fun p => ¬ N.voteYes f 1 p v) ≤ N.noMass f v := by
  apply N.weightOf_mono
  rintro u _ ⟨p, hp, hc, hfc, hno⟩
  exact ⟨p, hp, hc, ⟨r, hfc⟩, hno⟩

/-- with a light subject `v`, every root of every round ≥ 2 votes "yes" on `v` -/
theorem light_all_yes (hfa : N.FramesAccepted) {f v : Nat} (hf : 1 ≤ f) (hl : 2 * N.noMass f v ≤ N.quorum) :
    ∀ n r, N.IsRoot r (f + (n + 2)) → N.voteYes f (n + 2) r v := by
  intro n
  induction n with
  | zero =>
    intro r hr
    have hq := N.root_prev_quorum hfa (g := f + 1) hr (by omega)
    have h1 := N.round1_no_le f r v
    have h2 := N.weightOf_add (fun u => ∃ p, N.IsRoot p (f + 1) ∧ N.creator p = u ∧ N.FC r p ∧ ¬ N.voteYes f 1 p v)
      (fun u => ∃ p, N.IsRoot p (f + 1) ∧ N.creator p = u ∧ N.FC r p ∧ N.voteYes f 1 p v)
    have h3 : N.causedWeight r (f + 1) (fun _ => True) ≤
        N.weightOf (fun u => (∃ p, N.IsRoot p (f + 1) ∧ N.creator p = u ∧ N.FC r p ∧ ¬ N.voteYes f 1 p v) ∨
          (∃ p, N.IsRoot p (f + 1) ∧ N.creator p = u ∧ N.FC r p ∧ N.voteYes f 1 p v)) := by
      apply N.weightOf_mono
      rintro u _ ⟨p, a, b, c, _⟩
      by_cases hy : N.voteYes f 1 p v
      · exact Or.inr ⟨p, a, b, c, hy⟩
      · exact Or.inl ⟨p, a, b, c, hy⟩
    have hn : N.causedWeight r (f + 1) (fun p => ¬ N.voteYes f 1 p v) =
        N.weightOf (fun u => ∃ p, N.IsRoot p (f + 1) ∧ N.creator p = u ∧ N.FC r p ∧ ¬ N.voteYes f 1 p v) := rfl
    have hy : N.causedWeight r (f + 1) (fun p => N.voteYes f 1 p v) =
        N.weightOf (fun u => ∃ p, N.IsRoot p (f + 1) ∧ N.creator p = u ∧ N.FC r p ∧ N.voteYes f 1 p v) := rfl
    show N.voteYes f (1 + 1) r v
    rw [N.voteYes_succ f 1 r v (Nat.le_refl _)]
    omega
  | succ n ih =>
    intro r _
    have := (N.step_yes f (n + 2) r v (by omega) (fun p hp => ih p hp)).1
    exact this

/-- L6 from slot uniqueness -/
theorem L6_of_slotUnique (hfa : N.FramesAccepted) (hsu : N.SlotUnique) (hW : 0 < N.total) {f : Nat} (hf : 1 ≤ f) :
    ∃ v, v < N.nVals ∧ ¬ N.DecidedNo f v := by
  obtain ⟨v, hv, hl⟩ := N.exists_light_subject hfa hsu hW hf
  refine ⟨v, hv, ?_⟩
  rintro ⟨k, r, hd⟩
  have h2 : 2 ≤ k := hd.1
  have hq := N.quorum_pos
  obtain ⟨j, rfl⟩ : ∃ j, k = j + 1 := ⟨k - 1, by omega⟩
  rw [N.decidesNo_succ f j r v (by omega)] at hd
  by_cases hj : j = 1
  · subst hj
    have := N.round1_no_le f r v
    omega
  · obtain ⟨n, rfl⟩ : ∃ n, j = n + 2 := ⟨j - 2, by omega⟩
    have h0 := N.causedWeight_zero r (f + (n + 2)) (fun p => ¬ N.voteYes f (n + 2) p v)
      (fun p hp hno => hno (N.light_all_yes hfa hf hl n p hp))
    omega

theorem total_pos_of_BFT (hbft : N.BFT) : 0 < N.total := by
  unfold BFT at hbft; omega

/-- L6 -/
theorem L6_holds : N.L6 := by
  intro hv hfa hbft f hf hall
  obtain ⟨v, hv', hno⟩ := N.L6_of_slotUnique hfa (N.slotUnique_of_BFT hv hfa hbft) (N.total_pos_of_BFT hbft) hf
  exact hno (hall v hv')

end Net
end ElectionRules
