import LachesisVerif.Model.ApplyAtropos
/-!
`Model.ApplyAtropos.dfsCb` (confirmed-on table, optional callback) refines `Model.Confirm.dfs`
(confirmed set, callback always present): the marked events are the same whether or not the
application listens; with a callback the delivered list is the same; without one nothing is
delivered.
-/
namespace ApplyAtroposProofs
open Model.ApplyAtropos

/-- the table marks exactly the events of the set -/
def Rel (t : Tab) (c : List Nat) : Prop := ∀ e, t.get e ≠ 0 ↔ e ∈ c

theorem get_set (t : Tab) (w f e : Nat) : (t.set w f).get e = if e = w then f else t.get e := by
  unfold Tab.get Tab.set
  simp only [List.lookup_cons]
  by_cases h : e = w
  · subst h; simp
  · have : (e == w) = false := by simpa using h
    simp [this, h]

theorem rel_set {t : Tab} {c : List Nat} (h : Rel t c) (w f : Nat) (hf : f ≠ 0) : Rel (t.set w f) (w :: c) := by
  intro e
  rw [get_set]
  by_cases he : e = w
  · subst he; simp [hf]
  · simp only [he, if_false, List.mem_cons, false_or]
    exact h e

/-- lock-step of the two walks -/
theorem dfsCb_sim (parents : Nat → List Nat) (frame : Nat) (hf : frame ≠ 0) (cb : Bool) :
    ∀ (fuel : Nat) (st : List Nat) (t : Tab) (c : List Nat) (o₁ o₂ : List Nat), Rel t c →
      (dfsCb parents frame cb fuel st t o₁ = none ↔ Model.Confirm.dfs parents fuel st c o₂ = none) ∧
      ∀ t' r₁ c' r₂, dfsCb parents frame cb fuel st t o₁ = some (t', r₁) →
        Model.Confirm.dfs parents fuel st c o₂ = some (c', r₂) →
        Rel t' c' ∧ (cb = true → o₁ = o₂ → r₁ = r₂) ∧ (cb = false → r₁ = o₁) := by
  intro fuel
  induction fuel with
  | zero =>
    intro st t c o₁ o₂ h
    cases st with
    | nil =>
      simp only [dfsCb, Model.Confirm.dfs]
      refine ⟨by simp, fun t' r₁ c' r₂ e1 e2 => ?_⟩
      cases e1; cases e2
      exact ⟨h, fun _ e => e, fun _ => rfl⟩
    | cons w st =>
      simp only [dfsCb, Model.Confirm.dfs]
      exact ⟨by simp, fun t' r₁ c' r₂ e1 _ => by cases e1⟩
  | succ k ih =>
    intro st t c o₁ o₂ h
    cases st with
    | nil =>
      simp only [dfsCb, Model.Confirm.dfs]
      refine ⟨by simp, fun t' r₁ c' r₂ e1 e2 => ?_⟩
      cases e1; cases e2
      exact ⟨h, fun _ e => e, fun _ => rfl⟩
    | cons w st =>
      simp only [dfsCb, Model.Confirm.dfs, Gen.Lachesis.alreadyConfirmed, Gen.Lachesis.callbackPresent]
      by_cases hw : w ∈ c
      · have h1 : t.get w ≠ 0 := (h w).2 hw
        have h2 : c.contains w = true := by simpa using hw
        simp only [h1, ne_eq, not_false_eq_true, decide_true, if_true, h2]
        exact ih st t c o₁ o₂ h
      · have h1 : ¬ t.get w ≠ 0 := fun x => hw ((h w).1 x)
        have h2 : c.contains w = false := by simpa using hw
        simp only [h1, decide_false, Bool.false_eq_true, if_false, h2]
        have R := rel_set h w frame hf
        cases cb with
        | true =>
          simp only [if_true]
          obtain ⟨hn, hs⟩ := ih ((parents w).reverse ++ st) (t.set w frame) (w :: c) (o₁ ++ [w]) (o₂ ++ [w]) R
          refine ⟨hn, fun t' r₁ c' r₂ e1 e2 => ?_⟩
          obtain ⟨a, b, _⟩ := hs t' r₁ c' r₂ e1 e2
          exact ⟨a, fun _ e => b rfl (by rw [e]), fun x => by cases x⟩
        | false =>
          simp only [Bool.false_eq_true, if_false]
          obtain ⟨hn, hs⟩ := ih ((parents w).reverse ++ st) (t.set w frame) (w :: c) o₁ (o₂ ++ [w]) R
          refine ⟨hn, fun t' r₁ c' r₂ e1 e2 => ?_⟩
          obtain ⟨a, _, c3⟩ := hs t' r₁ c' r₂ e1 e2
          exact ⟨a, fun x => x.elim, fun _ => c3 rfl⟩

end ApplyAtroposProofs
