import LachesisVerif.Proofs.KVTable
/-! The prefix-range translation of kvdb/leveldb and kvdb/pebble (`bytesPrefixRange`): the half-open
range `[prefix ++ start, limit)` holds exactly the keys with the prefix that are `≥ prefix ++ start`. -/
namespace Model.Table
open Bytes Spec Spec.KV

/-- byte strings: every entry below 256 -/
def IsBytes (k : Bytes) : Prop := ∀ b ∈ k, b < 256

/-- keys with the prefix lie below the limit -/
theorem prefixLimit_upper : ∀ (p k h : Bytes), isPrefix p k = true → prefixLimit p = some h → lexLt k h = true := by
  intro p
  induction p with
  | nil => intro k h _ hl; cases hl
  | cons c cs ih =>
    intro k h hk hl
    cases k with
    | nil => simp [isPrefix] at hk
    | cons d k' =>
      simp only [isPrefix, Bool.and_eq_true, beq_iff_eq] at hk
      obtain ⟨hcd, hk'⟩ := hk
      subst hcd
      simp only [prefixLimit, Gen.Kv.limitByteBelowMax, Gen.Kv.limitByte] at hl
      cases hc : prefixLimit cs with
      | some l =>
        rw [hc] at hl; cases hl
        simp [lexLt, ih k' l hk' hc]
      | none =>
        rw [hc] at hl
        by_cases hb : c < 255
        · simp only [hb, decide_true, if_true, Option.some.injEq] at hl
          subst hl
          simp [lexLt]
        · simp [hb] at hl

/-- conversely a byte string at or above the prefix and below the limit (if any) has the prefix -/
theorem prefixLimit_lower : ∀ (p k : Bytes), IsBytes p → IsBytes k → lexLe p k = true →
    (∀ h, prefixLimit p = some h → lexLt k h = true) → isPrefix p k = true := by
  intro p
  induction p with
  | nil => intro _ _ _ _ _; rfl
  | cons c cs ih =>
    intro k hp hk hle hup
    have hc256 : c < 256 := hp c List.mem_cons_self
    have hcs : IsBytes cs := fun b hb => hp b (List.mem_cons_of_mem _ hb)
    cases k with
    | nil => simp [lexLe, lexLt] at hle
    | cons d k' =>
      have hd256 : d < 256 := hk d List.mem_cons_self
      have hk' : IsBytes k' := fun b hb => hk b (List.mem_cons_of_mem _ hb)
      simp only [lexLe, lexLt, Bool.not_eq_eq_eq_not, Bool.not_true, Bool.or_eq_false_iff, decide_eq_false_iff_not,
        Bool.and_eq_false_imp, beq_iff_eq] at hle
      obtain ⟨hdc, hrest⟩ := hle
      simp only [prefixLimit, Gen.Kv.limitByteBelowMax, Gen.Kv.limitByte] at hup
      have hgoal : d = c → lexLe cs k' = true → (∀ h, prefixLimit cs = some h → lexLt k' h = true) → isPrefix (c :: cs) (d :: k') = true := by
        intro e h1 h2
        subst e
        simp only [isPrefix, beq_self_eq_true, Bool.true_and]
        exact ih k' hcs hk' h1 h2
      cases hc : prefixLimit cs with
      | some l =>
        rw [hc] at hup
        have := hup (c :: l) rfl
        simp only [lexLt, Bool.or_eq_true, decide_eq_true_eq, Bool.and_eq_true, beq_iff_eq] at this
        have hdc' : d = c := by omega
        have hlt : lexLt k' l = true := by
          rcases this with h | h
          · omega
          · exact h.2
        refine hgoal hdc' ?_ (fun h hh => by rw [hc] at hh; cases hh; exact hlt)
        simp only [lexLe, Bool.not_eq_eq_eq_not, Bool.not_true]; exact hrest hdc'
      | none =>
        rw [hc] at hup
        have hdc' : d = c := by
          by_cases hb : c < 255
          · simp only [hb, decide_true, if_true] at hup
            have := hup [c + 1] rfl
            simp only [lexLt, Bool.or_eq_true, decide_eq_true_eq, Bool.and_eq_true, beq_iff_eq] at this
            have hk0 : lexLt k' [] = false := lexLt_nil_right k'
            rw [hk0] at this
            rcases this with h | ⟨_, h⟩
            · omega
            · cases h
          · omega
        refine hgoal hdc' ?_ (fun h hh => by rw [hc] at hh; cases hh)
        simp only [lexLe, Bool.not_eq_eq_eq_not, Bool.not_true]; exact hrest hdc'

/-- `bytesPrefix` / `util.BytesPrefix`: `[prefix, limit)` = the keys with the prefix -/
theorem prefixLimit_spec (p k : Bytes) (hp : IsBytes p) (hk : IsBytes k) :
    isPrefix p k = true ↔ lexLe p k = true ∧ ∀ h, prefixLimit p = some h → lexLt k h = true :=
  ⟨fun h => ⟨lexLe_of_isPrefix h, fun l hl => prefixLimit_upper p k l h hl⟩,
   fun h => prefixLimit_lower p k hp hk h.1 h.2⟩

/-- the range predicate of `rangeItems` equals the predicate of `iterSpec` -/
theorem range_pred_eq (p start k : Bytes) (hp : IsBytes p) (hk : IsBytes k) :
    (lexLe (p ++ start) k && (match prefixLimit p with | some h => lexLt k h | none => true)) =
      (isPrefix p k && lexLe (p ++ start) k) := by
  by_cases hle : lexLe (p ++ start) k = true
  · have hpk : lexLe p k = true := lexLe_trans (lexLe_of_isPrefix (isPrefix_append p start)) hle
    by_cases hpre : isPrefix p k = true
    · have := (prefixLimit_spec p k hp hk).1 hpre
      cases hl : prefixLimit p with
      | none => simp [hle, hpre]
      | some h => simp [hle, hpre, this.2 h hl]
    · have hpre' : isPrefix p k = false := by simpa using hpre
      cases hl : prefixLimit p with
      | none =>
        exact absurd ((prefixLimit_spec p k hp hk).2 ⟨hpk, fun h hh => by rw [hl] at hh; cases hh⟩) hpre
      | some h =>
        have : lexLt k h = false := by
          cases hlt : lexLt k h with
          | false => rfl
          | true =>
            exact absurd ((prefixLimit_spec p k hp hk).2 ⟨hpk, fun h' hh => by rw [hl] at hh; cases hh; exact hlt⟩) hpre
        simp [hle, hpre', this]
  · have hle' : lexLe (p ++ start) k = false := by simpa using hle
    simp [hle']

/-- an ordered engine asked for the range of `bytesPrefixRange` yields `iterSpec` -/
theorem rangeItems_eq_iterSpec (m : KV) (p start : Bytes) (hp : IsBytes p) (hm : ∀ x ∈ m, IsBytes x.1) :
    rangeItems m (p ++ start) (prefixLimit p) = iterSpec m p start := by
  unfold rangeItems iterSpec
  apply List.filter_congr
  intro x hx
  exact range_pred_eq p start x.1 hp (hm x hx)

/-! ### pebble's iterator wrapper -/

theorem PebbleIt.drain_started (items : KV) : ∀ (fuel i : Nat), items.length ≤ i + fuel →
    PebbleIt.drain fuel { items := items, pos := some i, isStarted := true } = items.drop (i + 1) := by
  intro fuel
  induction fuel with
  | zero => intro i h; simp [PebbleIt.drain, List.drop_eq_nil_of_le (show items.length ≤ i + 1 by omega)]
  | succ n ih =>
    intro i h
    simp only [PebbleIt.drain, PebbleIt.next, Gen.Kv.pebbleStarted, if_true]
    cases hg : items[i + 1]? with
    | none =>
      simp only
      have : items.length ≤ i + 1 := by
        rcases Nat.lt_or_ge (i + 1) items.length with h' | h'
        · rw [List.getElem?_eq_getElem h'] at hg; cases hg
        · exact h'
      rw [List.drop_eq_nil_of_le this]
    | some kv =>
      simp only
      rw [ih (i + 1) (by omega)]
      have hlt : i + 1 < items.length := by
        rcases Nat.lt_or_ge (i + 1) items.length with h' | h'
        · exact h'
        · rw [List.getElem?_eq_none h'] at hg; cases hg
      rw [List.getElem?_eq_getElem hlt] at hg
      cases hg
      exact (List.drop_eq_getElem_cons hlt).symm

/-- `First` on the first `Next`, `Next` afterwards: the wrapper yields every item once, in order -/
theorem PebbleIt.drain_fresh (items : KV) : PebbleIt.drain (items.length + 1) { items := items } = items := by
  simp only [PebbleIt.drain, PebbleIt.next, Gen.Kv.pebbleStarted]
  cases items with
  | nil => rfl
  | cons a as =>
    simp only [Bool.false_eq_true, if_false, List.getElem?_cons_zero]
    rw [List.length_cons, PebbleIt.drain_started (a :: as) (as.length + 1) 0 (by simp)]
    rfl

end Model.Table
