import LachesisVerif.Model.LockAtomic
/-! The invariant behind `C28.lock_atomic_linearizable` and its preservation by every event. -/
namespace Model.LockAtomic

variable {State Op Ret : Type}

theorem holdsNone_spec {n : Nat} {th : Nat → TSt State Op Ret} (h : holdsNone n th = true)
    {j id : Nat} {op : Op} {seen : State} (hj : j < n) (hs : th j = .inCS id op seen) : False := by
  have := List.all_eq_true.mp h j (List.mem_range.mpr hj)
  rw [hs] at this
  exact Bool.false_ne_true this

theorem holdsOnlyShared_spec {S : Spec State Op Ret} {n : Nat} {th : Nat → TSt State Op Ret}
    (h : holdsOnlyShared S n th = true)
    {j id : Nat} {op : Op} {seen : State} (hj : j < n) (hs : th j = .inCS id op seen) : S.shared op = true := by
  have := List.all_eq_true.mp h j (List.mem_range.mpr hj)
  rw [hs] at this
  exact this

/-- What holds in every configuration reachable under the lock discipline. -/
structure Inv (S : Spec State Op Ret) (n : Nat) (s0 : State) (c : Cfg State Op Ret) : Prop where
  /-- the logged sections, in `rel` order, are a run of the sequential specification -/
  seq : seqRun S.step s0 (c.log.map (·.op)) = (c.mem, c.log.map (·.r))
  bound : ∀ t, n ≤ t → c.th t = .idle
  /-- nobody changed the guarded state under a thread that is inside its section -/
  seen : ∀ t id op seen, c.th t = .inCS id op seen → seen = c.mem
  /-- mutual exclusion: two threads are inside their sections only if both hold the lock shared -/
  mutex : ∀ t t' id op seen id' op' seen', t ≠ t' → c.th t = .inCS id op seen →
    c.th t' = .inCS id' op' seen' → S.shared op = true
  calledT : ∀ t id op, c.th t = .called id op → id < c.clk
  csT : ∀ t id op seen, c.th t = .inCS id op seen → id < c.clk
  doneT : ∀ t id r, c.th t = .done id r → ∃ e ∈ c.log, e.id = id ∧ e.r = r
  logT : ∀ e ∈ c.log, e.id < e.time ∧ e.time < c.clk
  sorted : c.log.Pairwise (fun a b => a.time < b.time)
  retT : ∀ p ∈ c.rets, p.time < c.clk ∧ ∃ e ∈ c.log, e.id = p.id ∧ e.r = p.r ∧ e.time < p.time

theorem inv_init (S : Spec State Op Ret) (n : Nat) (s0 : State) : Inv S n s0 (init s0) where
  seq := by simp [init, seqRun]
  bound := by intro t _; rfl
  seen := by intro t id op seen h; simp [init] at h
  mutex := by intro t t' id op seen id' op' seen' _ h; simp [init] at h
  calledT := by intro t id op h; simp [init] at h
  csT := by intro t id op seen h; simp [init] at h
  doneT := by intro t id r h; simp [init] at h
  logT := by intro e h; simp [init] at h
  sorted := by simp [init]
  retT := by intro p h; simp [init] at h

theorem inv_inv {S : Spec State Op Ret} {n : Nat} {s0 : State} {c : Cfg State Op Ret}
    (I : Inv S n s0 c) (t : Nat) (op : Op) (ht : c.th t = .idle) (hn : t < n) :
    Inv S n s0 { c with th := upd c.th t (.called c.clk op), clk := c.clk + 1 } where
  seq := I.seq
  bound := by
    intro j hj
    have : j ≠ t := by omega
    simp only [upd_other _ _ _ _ this]; exact I.bound j hj
  seen := by
    intro j id o seen h
    by_cases hj : j = t
    · subst hj; simp [upd_same] at h
    · simp only [upd_other _ _ _ _ hj] at h; exact I.seen j id o seen h
  mutex := by
    intro a b id o seen id' o' seen' hab ha hb
    by_cases h1 : a = t
    · subst h1; simp [upd_same] at ha
    · by_cases h2 : b = t
      · subst h2; simp [upd_same] at hb
      · simp only [upd_other _ _ _ _ h1] at ha; simp only [upd_other _ _ _ _ h2] at hb
        exact I.mutex a b id o seen id' o' seen' hab ha hb
  calledT := by
    intro j id o h
    by_cases hj : j = t
    · subst hj; simp only [upd_same] at h; cases h; exact Nat.lt_succ_self _
    · simp only [upd_other _ _ _ _ hj] at h; exact Nat.lt_succ_of_lt (I.calledT j id o h)
  csT := by
    intro j id o seen h
    by_cases hj : j = t
    · subst hj; simp [upd_same] at h
    · simp only [upd_other _ _ _ _ hj] at h; exact Nat.lt_succ_of_lt (I.csT j id o seen h)
  doneT := by
    intro j id r h
    by_cases hj : j = t
    · subst hj; simp [upd_same] at h
    · simp only [upd_other _ _ _ _ hj] at h; exact I.doneT j id r h
  logT := by intro e he; have := I.logT e he; exact ⟨this.1, Nat.lt_succ_of_lt this.2⟩
  sorted := I.sorted
  retT := by intro p hp; have := I.retT p hp; exact ⟨Nat.lt_succ_of_lt this.1, this.2⟩

theorem inv_acq {S : Spec State Op Ret} {n : Nat} {s0 : State} {c : Cfg State Op Ret}
    (I : Inv S n s0 c) (t id : Nat) (op : Op) (ht : c.th t = .called id op)
    (hg : mayAcquire S n c.th op = true) :
    Inv S n s0 { c with th := upd c.th t (.inCS id op c.mem), clk := c.clk + 1 } where
  seq := I.seq
  bound := by
    intro j hj
    have : j ≠ t := by
      intro e; subst e; have := I.bound j hj; rw [ht] at this; cases this
    simp only [upd_other _ _ _ _ this]; exact I.bound j hj
  seen := by
    intro j id' o seen h
    by_cases hj : j = t
    · subst hj; simp only [upd_same] at h; cases h; rfl
    · simp only [upd_other _ _ _ _ hj] at h; exact I.seen j id' o seen h
  mutex := by
    intro a b ida oa sa idb ob sb hab ha hb
    have lt_n : ∀ j i o s, c.th j = .inCS i o s → j < n := by
      intro j i o s h
      apply Nat.lt_of_not_le; intro hle
      have := I.bound j hle; rw [h] at this; cases this
    by_cases h1 : a = t
    · subst h1
      simp only [upd_same] at ha; cases ha
      have h2 : b ≠ a := fun e => hab e.symm
      simp only [upd_other _ _ _ _ h2] at hb
      unfold mayAcquire at hg
      cases hs : S.shared op with
      | true => rfl
      | false =>
        rw [hs] at hg; simp only [Bool.false_eq_true, if_false] at hg
        exact (holdsNone_spec hg (lt_n b idb ob sb hb) hb).elim
    · simp only [upd_other _ _ _ _ h1] at ha
      by_cases h2 : b = t
      · subst h2
        unfold mayAcquire at hg
        cases hs : S.shared op with
        | true =>
          rw [hs] at hg; simp only [if_true] at hg
          exact holdsOnlyShared_spec hg (lt_n a ida oa sa ha) ha
        | false =>
          rw [hs] at hg; simp only [Bool.false_eq_true, if_false] at hg
          exact (holdsNone_spec hg (lt_n a ida oa sa ha) ha).elim
      · simp only [upd_other _ _ _ _ h2] at hb
        exact I.mutex a b ida oa sa idb ob sb hab ha hb
  calledT := by
    intro j id' o h
    by_cases hj : j = t
    · subst hj; simp [upd_same] at h
    · simp only [upd_other _ _ _ _ hj] at h; exact Nat.lt_succ_of_lt (I.calledT j id' o h)
  csT := by
    intro j id' o seen h
    by_cases hj : j = t
    · subst hj; simp only [upd_same] at h; cases h; exact Nat.lt_succ_of_lt (I.calledT j _ _ ht)
    · simp only [upd_other _ _ _ _ hj] at h; exact Nat.lt_succ_of_lt (I.csT j id' o seen h)
  doneT := by
    intro j id' r h
    by_cases hj : j = t
    · subst hj; simp [upd_same] at h
    · simp only [upd_other _ _ _ _ hj] at h; exact I.doneT j id' r h
  logT := by intro e he; have := I.logT e he; exact ⟨this.1, Nat.lt_succ_of_lt this.2⟩
  sorted := I.sorted
  retT := by intro p hp; have := I.retT p hp; exact ⟨Nat.lt_succ_of_lt this.1, this.2⟩

end Model.LockAtomic
