import LachesisVerif.Model.LockAtomic
/-! The invariant behind `C28.lock_atomic_linearizable` and its preservation by every event. -/
namespace Model.LockAtomic

variable {State Op Ret : Type}

theorem holdsNone_spec {n : Nat} {th : Nat → TSt State Op Ret} (h : holdsNone n th = true)
    {j id : Nat} {op : Op} {seen : State} (hj : j < n) (hs : th j = .inCS id op seen) : False := by
  have := List.all_eq_true.mp h j (List.mem_range.mpr hj)
  rw [hs] at this
  exact Bool.false_ne_true this

theorem holdsOnlyShared_spec {S : Spec State Op Ret} {n : Nat} {th : Nat → TSt State Op Ret}
    (h : holdsOnlyShared S n th = true)
    {j id : Nat} {op : Op} {seen : State} (hj : j < n) (hs : th j = .inCS id op seen) : S.shared op = true := by
  have := List.all_eq_true.mp h j (List.mem_range.mpr hj)
  rw [hs] at this
  exact this

/-- What holds in every configuration reachable under the lock discipline. -/
structure Inv (S : Spec State Op Ret) (n : Nat) (s0 : State) (c : Cfg State Op Ret) : Prop where
  /-- the logged sections, in `rel` order, are a run of the sequential specification -/
  seq : seqRun S.step s0 (c.log.map (·.op)) = (c.mem, c.log.map (·.r))
  bound : ∀ t, n ≤ t → c.th t = .idle
  /-- nobody changed the guarded state under a thread that is inside its section -/
  seen : ∀ t id op seen, c.th t = .inCS id op seen → seen = c.mem
  /-- mutual exclusion: two threads are inside their sections only if both hold the lock shared -/
  mutex : ∀ t t' id op seen id' op' seen', t ≠ t' → c.th t = .inCS id op seen →
    c.th t' = .inCS id' op' seen' → S.shared op = true
  calledT : ∀ t id op, c.th t = .called id op → id < c.clk
  csT : ∀ t id op seen, c.th t = .inCS id op seen → id < c.clk
  doneT : ∀ t id r, c.th t = .done id r → ∃ e ∈ c.log, e.id = id ∧ e.r = r
  logT : ∀ e ∈ c.log, e.id < e.time ∧ e.time < c.clk
  sorted : c.log.Pairwise (fun a b => a.time < b.time)
  retT : ∀ p ∈ c.rets, p.time < c.clk ∧ ∃ e ∈ c.log, e.id = p.id ∧ e.r = p.r ∧ e.time < p.time

theorem inv_init (S : Spec State Op Ret) (n : Nat) (s0 : State) : Inv S n s0 (init s0) where
  seq := by simp [init, seqRun]
  bound := by intro t _; rfl
  seen := by intro t id op seen h; simp [init] at h
  mutex := by intro t t' id op seen id' op' seen' _ h; simp [init] at h
  calledT := by intro t id op h; simp [init] at h
  csT := by intro t id op seen h; simp [init] at h
  doneT := by intro t id r h; simp [init] at h
  logT := by intro e h; simp [init] at h
  sorted := by simp [init]
  retT := by intro p h; simp [init] at h

theorem inv_inv {S : Spec State Op Ret} {n : Nat} {s0 : State} {c : Cfg State Op Ret}
    (I : Inv S n s0 c) (t : Nat) (op : Op) (ht : c.th t = .idle) (hn : t < n) :
    Inv S n s0 { c with th := upd c.th t (.called c.clk op), clk := c.clk + 1 } where
  seq := I.seq
  bound := by
    intro j hj
    have : j ≠ t := by omega
    simp only [upd_other _ _ _ _ this]; exact I.bound j hj
  seen := by
    intro j id o seen h
    by_cases hj : j = t
    · subst hj; simp [upd_same] at h
    · simp only [upd_other _ _ _ _ hj] at h; exact I.seen j id o seen h
  mutex := by
    intro a b id o seen id' o' seen' hab ha hb
    by_cases h1 : a = t
    · subst h1; simp [upd_same] at ha
    · by_cases h2 : b = t
      · subst h2; simp [upd_same] at hb
      · simp only [upd_other _ _ _ _ h1] at ha; simp only [upd_other _ _ _ _ h2] at hb
        exact I.mutex a b id o seen id' o' seen' hab ha hb
  calledT := by
    intro j id o h
    by_cases hj : j = t
    · subst hj; simp only [upd_same] at h; cases h; exact Nat.lt_succ_self _
    · simp only [upd_other _ _ _ _ hj] at h; exact Nat.lt_succ_of_lt (I.calledT j id o h)
  csT := by
    intro j id o seen h
    by_cases hj : j = t
    · subst hj; simp [upd_same] at h
    · simp only [upd_other _ _ _ _ hj] at h; exact Nat.lt_succ_of_lt (I.csT j id o seen h)
  doneT := by
    intro j id r h
    by_cases hj : j = t
    · subst hj; simp [upd_same] at h
    · simp only [upd_other _ _ _ _ hj] at h; exact I.doneT j id r h
  logT := by intro e he; have := I.logT e he; exact ⟨this.1, Nat.lt_succ_of_lt this.2⟩
  sorted := I.sorted
  retT := by intro p hp; have := I.retT p hp; exact ⟨Nat.lt_succ_of_lt this.1, this.2⟩

theorem inv_acq {S : Spec State Op Ret} {n : Nat} {s0 : State} {c : Cfg State Op Ret}
    (I : Inv S n s0 c) (t id : Nat) (op : Op) (ht : c.th t = .called id op)
    (hg : mayAcquire S n c.th op = true) :
    Inv S n s0 { c with th := upd c.th t (.inCS id op c.mem), clk := c.clk + 1 } where
  seq := I.seq
  bound := by
    intro j hj
    have : j ≠ t := by
      intro e; subst e; have := I.bound j hj; rw [ht] at this; cases this
    simp only [upd_other _ _ _ _ this]; exact I.bound j hj
  seen := by
    intro j id' o seen h
    by_cases hj : j = t
    · subst hj; simp only [upd_same] at h; cases h; rfl
    · simp only [upd_other _ _ _ _ hj] at h; exact I.seen j id' o seen h
  mutex := by
    intro a b ida oa sa idb ob sb hab ha hb
    have lt_n : ∀ j i o s, c.th j = .inCS i o s → j < n := by
      intro j i o s h
      apply Nat.lt_of_not_le; intro hle
      have := I.bound j hle; rw [h] at this; cases this
    by_cases h1 : a = t
    · subst h1
      simp only [upd_same] at ha; cases ha
      have h2 : b ≠ a := fun e => hab e.symm
      simp only [upd_other _ _ _ _ h2] at hb
      unfold mayAcquire at hg
      cases hs : S.shared op with
      | true => rfl
      | false =>
        rw [hs] at hg; simp only [Bool.false_eq_true, if_false] at hg
        exact (holdsNone_spec hg (lt_n b idb ob sb hb) hb).elim
    · simp only [upd_other _ _ _ _ h1] at ha
      by_cases h2 : b = t
      · subst h2
        unfold mayAcquire at hg
        cases hs : S.shared op with
        | true =>
          rw [hs] at hg; simp only [if_true] at hg
          exact holdsOnlyShared_spec hg (lt_n a ida oa sa ha) ha
        | false =>
          rw [hs] at hg; simp only [Bool.false_eq_true, if_false] at hg
          exact (holdsNone_spec hg (lt_n a ida oa sa ha) ha).elim
      · simp only [upd_other _ _ _ _ h2] at hb
        exact I.mutex a b ida oa sa idb ob sb hab ha hb
  calledT := by
    intro j id' o h
    by_cases hj : j = t
    · subst hj; simp [upd_same] at h
    · simp only [upd_other _ _ _ _ hj] at h; exact Nat.lt_succ_of_lt (I.calledT j id' o h)
  csT := by
    intro j id' o seen h
    by_cases hj : j = t
    · subst hj; simp only [upd_same] at h; cases h; exact Nat.lt_succ_of_lt (I.calledT j _ _ ht)
    · simp only [upd_other _ _ _ _ hj] at h; exact Nat.lt_succ_of_lt (I.csT j id' o seen h)
  doneT := by
    intro j id' r h
    by_cases hj : j = t
    · subst hj; simp [upd_same] at h
    · simp only [upd_other _ _ _ _ hj] at h; exact I.doneT j id' r h
  logT := by intro e he; have := I.logT e he; exact ⟨this.1, Nat.lt_succ_of_lt this.2⟩
  sorted := I.sorted
  retT := by intro p hp; have := I.retT p hp; exact ⟨Nat.lt_succ_of_lt this.1, this.2⟩

theorem inv_rel {S : Spec State Op Ret} {n : Nat} {s0 : State} {c : Cfg State Op Ret}
    (hro : ∀ s op, S.shared op = true → (S.step s op).1 = s)
    (I : Inv S n s0 c) (t id : Nat) (op : Op) (sn : State) (ht : c.th t = .inCS id op sn) :
    Inv S n s0 { c with mem := (S.step sn op).1, th := upd c.th t (.done id (S.step sn op).2),
                        log := c.log ++ [⟨id, op, (S.step sn op).2, c.clk⟩], clk := c.clk + 1 } where
  seq := by
    have hs : sn = c.mem := I.seen t id op sn ht
    simp only [List.map_append, List.map_cons, List.map_nil]
    rw [seqRun_snoc, I.seq, hs]
  bound := by
    intro j hj
    have : j ≠ t := by
      intro e; subst e; have := I.bound j hj; rw [ht] at this; cases this
    simp only [upd_other _ _ _ _ this]; exact I.bound j hj
  seen := by
    intro j id' o seen h
    by_cases hj : j = t
    · subst hj; simp [upd_same] at h
    · simp only [upd_other _ _ _ _ hj] at h
      have h1 : seen = c.mem := I.seen j id' o seen h
      have h2 : sn = c.mem := I.seen t id op sn ht
      have h3 : S.shared op = true := I.mutex t j id op sn id' o seen (fun e => hj e.symm) ht h
      show seen = (S.step sn op).1
      rw [hro sn op h3, h1, h2]
  mutex := by
    intro a b ida oa sa idb ob sb hab ha hb
    by_cases h1 : a = t
    · subst h1; simp [upd_same] at ha
    · by_cases h2 : b = t
      · subst h2; simp [upd_same] at hb
      · simp only [upd_other _ _ _ _ h1] at ha; simp only [upd_other _ _ _ _ h2] at hb
        exact I.mutex a b ida oa sa idb ob sb hab ha hb
  calledT := by
    intro j id' o h
    by_cases hj : j = t
    · subst hj; simp [upd_same] at h
    · simp only [upd_other _ _ _ _ hj] at h; exact Nat.lt_succ_of_lt (I.calledT j id' o h)
  csT := by
    intro j id' o seen h
    by_cases hj : j = t
    · subst hj; simp [upd_same] at h
    · simp only [upd_other _ _ _ _ hj] at h; exact Nat.lt_succ_of_lt (I.csT j id' o seen h)
  doneT := by
    intro j id' r h
    by_cases hj : j = t
    · subst hj; simp only [upd_same] at h; cases h
      exact ⟨_, List.mem_append_right _ (List.mem_singleton.mpr rfl), rfl, rfl⟩
    · simp only [upd_other _ _ _ _ hj] at h
      obtain ⟨e, he, h1, h2⟩ := I.doneT j id' r h
      exact ⟨e, List.mem_append_left _ he, h1, h2⟩
  logT := by
    intro e he
    rcases List.mem_append.mp he with he | he
    · have := I.logT e he; exact ⟨this.1, Nat.lt_succ_of_lt this.2⟩
    · have := List.mem_singleton.mp he; subst this
      exact ⟨I.csT t id op sn ht, Nat.lt_succ_self _⟩
  sorted := by
    rw [List.pairwise_append]
    refine ⟨I.sorted, List.pairwise_singleton _ _, ?_⟩
    intro a ha b hb
    have := List.mem_singleton.mp hb; subst this
    exact (I.logT a ha).2
  retT := by
    intro p hp
    obtain ⟨h1, e, he, h2⟩ := I.retT p hp
    exact ⟨Nat.lt_succ_of_lt h1, e, List.mem_append_left _ he, h2⟩

theorem inv_ret {S : Spec State Op Ret} {n : Nat} {s0 : State} {c : Cfg State Op Ret}
    (I : Inv S n s0 c) (t id : Nat) (r : Ret) (ht : c.th t = .done id r) :
    Inv S n s0 { c with th := upd c.th t .idle, rets := ⟨id, r, c.clk⟩ :: c.rets, clk := c.clk + 1 } where
  seq := I.seq
  bound := by
    intro j hj
    by_cases h : j = t
    · subst h; simp [upd_same]
    · simp only [upd_other _ _ _ _ h]; exact I.bound j hj
  seen := by
    intro j id' o seen h
    by_cases hj : j = t
    · subst hj; simp [upd_same] at h
    · simp only [upd_other _ _ _ _ hj] at h; exact I.seen j id' o seen h
  mutex := by
    intro a b ida oa sa idb ob sb hab ha hb
    by_cases h1 : a = t
    · subst h1; simp [upd_same] at ha
    · by_cases h2 : b = t
      · subst h2; simp [upd_same] at hb
      · simp only [upd_other _ _ _ _ h1] at ha; simp only [upd_other _ _ _ _ h2] at hb
        exact I.mutex a b ida oa sa idb ob sb hab ha hb
  calledT := by
    intro j id' o h
    by_cases hj : j = t
    · subst hj; simp [upd_same] at h
    · simp only [upd_other _ _ _ _ hj] at h; exact Nat.lt_succ_of_lt (I.calledT j id' o h)
  csT := by
    intro j id' o seen h
    by_cases hj : j = t
    · subst hj; simp [upd_same] at h
    · simp only [upd_other _ _ _ _ hj] at h; exact Nat.lt_succ_of_lt (I.csT j id' o seen h)
  doneT := by
    intro j id' r' h
    by_cases hj : j = t
    · subst hj; simp [upd_same] at h
    · simp only [upd_other _ _ _ _ hj] at h; exact I.doneT j id' r' h
  logT := by intro e he; have := I.logT e he; exact ⟨this.1, Nat.lt_succ_of_lt this.2⟩
  sorted := I.sorted
  retT := by
    intro p hp
    rcases List.mem_cons.mp hp with hp | hp
    · subst hp
      obtain ⟨e, he, h1, h2⟩ := I.doneT t id r ht
      exact ⟨Nat.lt_succ_self _, e, he, h1, h2, (I.logT e he).2⟩
    · obtain ⟨h1, h2⟩ := I.retT p hp
      exact ⟨Nat.lt_succ_of_lt h1, h2⟩

/-- every enabled event of a history that respects the lock discipline preserves the invariant -/
theorem inv_next [DecidableEq Ret] {S : Spec State Op Ret} {n : Nat} {s0 : State}
    (hro : ∀ s op, S.shared op = true → (S.step s op).1 = s)
    {c c' : Cfg State Op Ret} (I : Inv S n s0 c) (e : Ev Op Ret)
    (h : next S true n c e = some c') : Inv S n s0 c' := by
  cases e with
  | inv t op =>
    simp only [next] at h
    split at h
    · rename_i ht
      split at h
      · rename_i hn; cases h; exact inv_inv I t op ht hn
      · cases h
    · cases h
  | acq t =>
    simp only [next] at h
    split at h
    · rename_i id op ht
      split at h
      · rename_i hg
        cases h
        simp only [Bool.not_true, Bool.false_or] at hg
        exact inv_acq I t id op ht hg
      · cases h
    · cases h
  | rel t =>
    simp only [next] at h
    split at h
    · rename_i id op sn ht; cases h; exact inv_rel hro I t id op sn ht
    · cases h
  | ret t r =>
    simp only [next] at h
    split at h
    · rename_i id r' ht
      split at h
      · rename_i hr; cases h; subst hr; exact inv_ret I t id r ht
      · cases h
    · cases h

theorem inv_run [DecidableEq Ret] {S : Spec State Op Ret} {n : Nat} {s0 : State}
    (hro : ∀ s op, S.shared op = true → (S.step s op).1 = s)
    (tr : List (Ev Op Ret)) {c c' : Cfg State Op Ret} (I : Inv S n s0 c)
    (h : run S true n c tr = some c') : Inv S n s0 c' := by
  induction tr generalizing c with
  | nil => simp only [run] at h; cases h; exact I
  | cons e es ih =>
    simp only [run] at h
    split at h
    · rename_i c1 h1; exact ih (inv_next hro I e h1) h
    · cases h

/-- the clock is the number of events replayed: ids and times are positions in the history -/
theorem run_clk [DecidableEq Ret] {S : Spec State Op Ret} {mx : Bool} {n : Nat}
    (tr : List (Ev Op Ret)) {c c' : Cfg State Op Ret}
    (h : run S mx n c tr = some c') : c'.clk = c.clk + tr.length := by
  induction tr generalizing c with
  | nil => simp only [run] at h; cases h; simp
  | cons e es ih =>
    simp only [run] at h
    split at h
    · rename_i c1 h1
      have h2 : c1.clk = c.clk + 1 := by
        cases e <;> simp only [next] at h1 <;> split at h1 <;> first
          | (split at h1 <;> first | (cases h1; rfl) | cases h1)
          | (cases h1; rfl)
          | cases h1
      rw [ih h, h2, List.length_cons]; omega
    · cases h

end Model.LockAtomic
