import LachesisVerif.Proofs.RefEpochs
/-!
# Several epochs of the executable reference, part 2: whole epochs

`refIds seals evs s out` feeds the events `evs` to the reference through `process seals`, every event
must be accepted (the reference analogue of `runIds`); with the empty table it is the function behind
the relation `RefEquiv.Run` (`run_refIds`). `refEpoch seals evs s out` is the same, but stops after the
`process` call that emits a sealed block and returns the events that would follow as `skipped` (the
reference analogue of `OrdererEpochs.runEpoch`: events of an old epoch arriving after the seal are
not submitted). `refEpoch_sim`: one epoch with a seal table, from the run with the empty table.
-/
namespace RefEpochs
open Spec.Lachesis RefEquiv
open Spec.Lachesis.Inst (Block)

/-- feed the events in this order; every event must be accepted -/
def refIds (seals : Seals) : List Ev → Inst → List Block → Option (Inst × List Block)
  | [], s, out => some (s, out)
  | e :: rest, s, out =>
    match process seals s e with
    | (s', .ok bs) => refIds seals rest s' (out ++ bs)
    | _ => none

/-- the events of one epoch: stop at the call that seals, skip what would follow -/
def refEpoch (seals : Seals) : List Ev → Inst → List Block → Option (Inst × List Block × List Ev)
  | [], s, out => some (s, out, [])
  | e :: rest, s, out =>
    match process seals s e with
    | (s', .ok bs) => if bs.any (·.sealed) then some (s', out ++ bs, rest) else refEpoch seals rest s' (out ++ bs)
    | _ => none

theorem refIds_snoc (seals : Seals) (evs : List Ev) (e : Ev) : ∀ (s : Inst) (out : List Block) (s' : Inst)
    (out' : List Block) (s'' : Inst) (bs : List Block), refIds seals evs s out = some (s', out') →
    process seals s' e = (s'', .ok bs) → refIds seals (evs ++ [e]) s out = some (s'', out' ++ bs) := by
  induction evs with
  | nil =>
    intro s out s' out' s'' bs h hp
    simp only [refIds] at h
    cases h
    simp only [List.nil_append, refIds, hp]
  | cons x rest ih =>
    intro s out s' out' s'' bs h hp
    simp only [List.cons_append, refIds] at h ⊢
    split at h
    · rename_i s1 bs1 hp1
      exact ih _ _ _ _ _ _ h hp
    · cases h

/-- a `Run` is a run of `refIds` with the empty seal table from the start instance -/
theorem run_refIds {ep : Nat} {vals : List (Nat × Nat)} {evs : List Ev} {s : Inst} {out : List Block}
    (h : Run ep vals evs s out) : refIds [] evs (start ep vals) [] = some (s, out) := by
  induction h with
  | nil => rfl
  | snoc _ _ hp ih => exact refIds_snoc [] _ _ _ _ _ _ _ _ ih hp

theorem refIds_out (seals : Seals) (evs : List Ev) : ∀ (s : Inst) (out : List Block) (s' : Inst)
    (out' : List Block), refIds seals evs s out = some (s', out') → ∃ more, out' = out ++ more := by
  induction evs with
  | nil => intro s out s' out' h; simp only [refIds] at h; cases h; exact ⟨[], by simp⟩
  | cons e rest ih =>
    intro s out s' out' h
    simp only [refIds] at h
    split at h
    · rename_i s1 bs1 hp
      obtain ⟨more, hm⟩ := ih _ _ _ _ h
      exact ⟨bs1 ++ more, by rw [hm, List.append_assoc]⟩
    · cases h

/-- without seals all blocks are unsealed and of the epoch, which does not change -/
theorem refIds_nil_entries (ep : Nat) (evs : List Ev) : ∀ (s : Inst) (out : List Block) (s' : Inst)
    (out' : List Block), s.epoch = ep → (∀ b ∈ out, b.sealed = false ∧ b.epoch = ep) →
    refIds [] evs s out = some (s', out') →
    (∀ b ∈ out', b.sealed = false ∧ b.epoch = ep) ∧ s'.epoch = ep := by
  induction evs with
  | nil => intro s out s' out' hep ho h; simp only [refIds] at h; cases h; exact ⟨ho, hep⟩
  | cons e rest ih =>
    intro s out s' out' hep ho h
    simp only [refIds] at h
    split at h
    · rename_i s1 bs1 hp
      obtain ⟨hun, he1⟩ := process_nil_shape hp
      apply ih _ _ _ _ (he1.trans hep) _ h
      intro b hb
      rcases List.mem_append.1 hb with hb | hb
      · exact ho b hb
      · exact ⟨(hun b hb).1, (hun b hb).2.trans hep⟩
    · cases h

/-- the plain run on the list without the skipped events -/
theorem refEpoch_prefix (seals : Seals) (evs : List Ev) : ∀ (s : Inst) (out : List Block) (s' : Inst)
    (out' : List Block) (skipped : List Ev), refEpoch seals evs s out = some (s', out', skipped) →
    ∃ used, evs = used ++ skipped ∧ refIds seals used s out = some (s', out') := by
  induction evs with
  | nil => intro s out s' out' sk h; simp only [refEpoch] at h; cases h; exact ⟨[], rfl, rfl⟩
  | cons e rest ih =>
    intro s out s' out' sk h
    simp only [refEpoch] at h
    split at h
    · rename_i s1 bs hp
      split at h
      · cases h
        exact ⟨[e], rfl, by simp only [refIds, hp]⟩
      · obtain ⟨used, hu, hr⟩ := ih _ _ _ _ _ h
        exact ⟨e :: used, by rw [hu]; rfl, by simp only [refIds, hp]; exact hr⟩
    · cases h

/-- **one epoch of the reference with a seal table**, from the run with the empty table: either no
    emitted frame has an entry and the runs coincide, or the run stops at the `process` call that
    emits the first such frame, with the cut block list, in *exactly* `Inst.fresh (ep + 1) pairs` -/
theorem refEpoch_sim (seals : Seals) (ep : Nat) (evs : List Ev) : ∀ (s : Inst) (out : List Block)
    (s' : Inst) (out' : List Block), s.epoch = ep → rcut seals ep out = none →
    refIds [] evs s out = some (s', out') →
    (rcut seals ep out' = none ∧ refEpoch seals evs s out = some (s', out', []) ∧ s'.epoch = ep) ∨
    (∃ l nv skipped, rcut seals ep out' = some (l, nv) ∧
      refEpoch seals evs s out = some (Inst.fresh (ep + 1) nv, l, skipped)) := by
  induction evs with
  | nil =>
    intro s out s' out' hep hcut h
    simp only [refIds] at h
    cases h
    exact Or.inl ⟨hcut, rfl, hep⟩
  | cons e rest ih =>
    intro s out s' out' hep hcut h
    simp only [refIds] at h
    split at h
    · rename_i s1 bs1 hp
      obtain ⟨hun, he1⟩ := process_nil_shape hp
      have hps := process_sim seals hp
      rw [hep] at hps
      cases hc1 : rcut seals ep bs1 with
      | none =>
        rw [hc1] at hps
        have hany : bs1.any (·.sealed) = false := by
          rw [List.any_eq_false]; intro d hd; rw [(hun d hd).1]; decide
        have hcut1 : rcut seals ep (out ++ bs1) = none := by
          rw [rcut_append_none _ _ _ _ hcut, hc1]; rfl
        have := ih s1 (out ++ bs1) s' out' (he1.trans hep) hcut1 h
        simp only [refEpoch, hps, hany, Bool.false_eq_true, if_false]
        exact this
      | some q =>
        obtain ⟨l, nv⟩ := q
        rw [hc1] at hps
        obtain ⟨hany, _⟩ := rcut_some _ _ _ _ _ hc1
        obtain ⟨more, hm⟩ := refIds_out [] rest _ _ _ _ h
        refine Or.inr ⟨out ++ l, nv, rest, ?_, ?_⟩
        · rw [hm]
          apply rcut_append_some
          rw [rcut_append_none _ _ _ _ hcut, hc1]; rfl
        · simp only [refEpoch, hps, hany, if_true]
    · cases h

end RefEpochs
