import LachesisVerif.Proofs.OrdererElect
/-!
L5 (C10/C01), part 3: the invariant of `Model.Orderer` over whole `process` runs (one epoch).

`OInv N vals done blocks s`: after processing the events `done` the instance has emitted `blocks`
(frames 1, 2, … each with the Atropos of the rules), its roots table is exact, `LastDecidedFrame` is
the number of blocks. `OpenEl N vals s pend`: the open election decides frame `ldf + 1`, satisfies
`EInv` for some list `fed` of table roots that contains every table root of a later frame (except
those allowed by `pend`, used inside `handleElection`).
Proved: `bootstrapElection` (`bootstrap_spec`), `handleElection` (`handle_spec`) and `process`
(`process_spec`) maintain both; whole runs in `run_spec`.
-/
namespace OrdererProofs
open Model.Pos Model.Election Model.Orderer ElectionRules ElectionRefine ElectionProofs VecProofs

def blk (d : Decided) : Nat × Nat := (d.frame, d.atropos)

structure OInv (N : Net) (vals : Vals) (done : List Nat) (blocks : List (Nat × Nat)) (s : OState) : Prop where
  vals_eq : s.vals = vals
  table : Table N done s.roots
  closed : Closed N done
  ldf : s.ldf = blocks.length
  frames : ∀ i (h : i < blocks.length), (blocks[i]).1 = i + 1
  atropoi : ∀ b ∈ blocks, N.IsAtropos b.1 b.2

def OpenEl (N : Net) (vals : Vals) (s : OState) (pend : Root → Prop) : Prop :=
  ∃ fed, EInv N vals (s.ldf + 1) (frameRoots s) fed s.el ∧ (∀ r ∈ fed, r ∈ s.roots) ∧
    (∀ r ∈ s.roots, s.ldf + 1 < r.frame → r ∈ fed ∨ pend r)

/-- number of table roots above the last decided frame (fuel measure of `bootstrapElection`) -/
def above (s : OState) : Nat := (s.roots.filter (fun r => decide (s.ldf < r.frame))).length

theorem OInv.ldf_lt {N : Net} {vals : Vals} {done : List Nat} {blocks : List (Nat × Nat)} {s : OState}
    (I : OInv N vals done blocks s) (hb : FrameBound N) : s.ldf < 2147483648 := by
  by_cases h0 : blocks.length = 0
  · rw [I.ldf, h0]; decide
  · have hi : blocks.length - 1 < blocks.length := by omega
    have h1 := I.frames _ hi
    obtain ⟨_, _, _, _, hr, _⟩ := I.atropoi _ (List.getElem_mem hi)
    have := hb _ hr.1
    have := hr.2.2
    rw [I.ldf]
    omega

theorem onFrameDecided_noseal (env : Env) (s : OState) (frame atropos : Nat) (h : env.sealAt s.epoch frame = none)
    (hf : frame + 1 < 4294967296) :
    onFrameDecided env s frame atropos =
      ({ s with ldf := frame, el := reset s.vals (frame + 1) }, ⟨s.epoch, frame, atropos, false⟩) := by
  unfold onFrameDecided
  rw [h]
  simp only [Gen.Orderer.nextLastDecided, Gen.Orderer.nextFrameToDecide, Nat.mod_eq_of_lt hf]

/-- deciding frame `ldf + 1` with the Atropos of the rules keeps `OInv`, leaves a fresh election and
    lowers the fuel measure -/
theorem decide_step {N : Net} {vals : Vals} {env : Env} (C : Ctx N vals env) {done : List Nat}
    {blocks : List (Nat × Nat)} {s : OState} (I : OInv N vals done blocks s) (a : Nat)
    (hat : N.IsAtropos (s.ldf + 1) a) (hr : ∃ r, r ∈ s.roots ∧ s.ldf + 1 < r.frame) :
    OInv N vals done (blocks ++ [(s.ldf + 1, a)])
      { s with ldf := s.ldf + 1, el := reset s.vals (s.ldf + 1 + 1) } ∧
    above { s with ldf := s.ldf + 1, el := reset s.vals (s.ldf + 1 + 1) } < above s := by
  constructor
  · refine ⟨I.vals_eq, I.table, I.closed, ?_, ?_, ?_⟩
    · show s.ldf + 1 = (blocks ++ [(s.ldf + 1, a)]).length
      rw [List.length_append, I.ldf]; rfl
    · intro i h
      by_cases hi : i < blocks.length
      · rw [List.getElem_append_left hi]; exact I.frames i hi
      · have hlen : (blocks ++ [(s.ldf + 1, a)]).length = blocks.length + 1 := by
          rw [List.length_append]; rfl
        have : i = blocks.length := by omega
        subst this
        rw [List.getElem_append_right (Nat.le_refl _)]
        simp only [Nat.sub_self, List.getElem_cons_zero]
        exact I.ldf ▸ rfl
    · intro b hb
      rcases List.mem_append.1 hb with h | h
      · exact I.atropoi b h
      · rw [List.mem_singleton.1 h]; exact hat
  · obtain ⟨r, hr1, hr2⟩ := hr
    obtain ⟨p, hp, hpf⟩ := frames_contig C.hfa I.table I.closed (r.frame - (s.ldf + 1)) r hr1 (s.ldf + 1)
      (by omega) (by omega)
    exact filter_length_lt (fun r : Root => decide (s.ldf < r.frame)) (fun r : Root => decide (s.ldf + 1 < r.frame))
      s.roots (by intro y _ hy; simp only [decide_eq_true_eq] at hy ⊢; omega) p hp
      (by simp only [decide_eq_true_eq]; omega) (by simp only [decide_eq_false_iff_not]; omega)

theorem boot_none (env : Env) (fuel : Nat) (s : OState) (out : List Decided) (el' : Election)
    (h : processKnownRoots env s (s.roots.length + 2) (Gen.Orderer.knownRootsFirstFrame s.ldf) s.el = .ok (el', none)) :
    bootstrapElection env (fuel + 1) s out = .ok ({ s with el := el' }, out, false) := by
  simp only [bootstrapElection, h]

theorem boot_some (env : Env) (fuel : Nat) (s : OState) (out : List Decided) (el' : Election) (f a : Nat)
    (h : processKnownRoots env s (s.roots.length + 2) (Gen.Orderer.knownRootsFirstFrame s.ldf) s.el =
      .ok (el', some (f, a)))
    (hs : env.sealAt s.epoch f = none) (hf : f + 1 < 4294967296) :
    bootstrapElection env (fuel + 1) s out =
      bootstrapElection env fuel { s with ldf := f, el := reset s.vals (f + 1) }
        (out ++ [⟨s.epoch, f, a, false⟩]) := by
  have e := onFrameDecided_noseal env { s with el := el' } f a hs hf
  simp only [bootstrapElection, h, e, Bool.false_eq_true, if_false]

/-- `bootstrapElection` from a fresh election for `ldf + 1`: it re-feeds the known roots, emits the
    blocks of the rules for as long as frames are decidable, and ends with an open election that
    has been fed every known root of a later frame -/
theorem bootstrap_spec {N : Net} {vals : Vals} {env : Env} (C : Ctx N vals env) {done : List Nat} :
    ∀ (fuel : Nat) (s : OState) (blocks : List (Nat × Nat)) (out : List Decided),
      OInv N vals done blocks s → s.el = reset vals (s.ldf + 1) → above s < fuel →
      ∃ s' ds, bootstrapElection env fuel s out = .ok (s', out ++ ds, false) ∧
        OInv N vals done (blocks ++ ds.map blk) s' ∧ OpenEl N vals s' (fun _ => False) := by
  intro fuel
  induction fuel with
  | zero => intro s blocks out _ _ h; omega
  | succ fuel ih =>
    intro s blocks out I hel hm
    have hldf := I.ldf_lt C.hb
    have hff : Gen.Orderer.knownRootsFirstFrame s.ldf = s.ldf + 1 := by
      unfold Gen.Orderer.knownRootsFirstFrame; exact Nat.mod_eq_of_lt (by omega)
    have I0 : EInv N vals (s.ldf + 1) (frameRoots s) [] s.el := by
      rw [hel]; exact EInv_reset N vals _ _ C.ok C.nVals_pos
    have hlen : (s.roots.filter (fun r => decide (s.ldf + 1 ≤ r.frame))).length < s.roots.length + 2 := by
      have := List.length_filter_le (fun r : Root => decide (s.ldf + 1 ≤ r.frame)) s.roots; omega
    rcases pkr_spec C I.table I.closed (s.ldf + 1) (by omega) (by omega) (s.roots.length + 2) (s.ldf + 1) [] s.el I0
        (Nat.le_refl _) (by intro r _ h1 h2; omega) (by intro r hr; cases hr) hlen with
      ⟨el', fed', he, I', hall, hsub⟩ | ⟨el', a, he, hat, hr⟩
    · refine ⟨{ s with el := el' }, [], ?_, ?_, ?_⟩
      · rw [boot_none env fuel s out el' (by rw [hff]; exact he), List.append_nil]
      · rw [List.map_nil, List.append_nil]
        exact ⟨I.vals_eq, I.table, I.closed, I.ldf, I.frames, I.atropoi⟩
      · exact ⟨fed', I', hsub, fun r hr hfr => Or.inl (hall r hr hfr)⟩
    · obtain ⟨I1, hm1⟩ := decide_step C I a hat hr
      rw [boot_some env fuel s out el' (s.ldf + 1) a (by rw [hff]; exact he) (C.noseal _ _) (by omega)]
      obtain ⟨s', ds, h1, h2, h3⟩ := ih _ (blocks ++ [(s.ldf + 1, a)]) (out ++ [⟨s.epoch, s.ldf + 1, a, false⟩]) I1
        (by show reset s.vals _ = reset vals _; rw [I.vals_eq]) (by omega)
      refine ⟨s', ⟨s.epoch, s.ldf + 1, a, false⟩ :: ds, ?_, ?_, h3⟩
      · rw [h1, List.append_assoc]; rfl
      · rw [List.map_cons, List.append_cons]
        exact h2

/-! ### `handleElection` -/

theorem he_stop (env : Env) (id c frame fuel cur : Nat) (s : OState) (out : List Decided) (h : frame < cur) :
    handleElection env id c frame fuel cur s out = .ok (s, out) := by
  cases fuel with
  | zero => rfl
  | succ fuel =>
    have : Gen.Orderer.electionLoopCond cur frame = false := by
      unfold Gen.Orderer.electionLoopCond; simp only [decide_eq_false_iff_not]; omega
    simp only [handleElection, this, Bool.not_false, if_true]

theorem he_none (env : Env) (id c frame fuel cur : Nat) (s : OState) (out : List Decided) (el' : Election)
    (h : cur ≤ frame) (hp : processRoot env.observe (frameRoots s) s.el ⟨id, cur, c⟩ = .ok (el', none)) :
    handleElection env id c frame (fuel + 1) cur s out =
      handleElection env id c frame fuel (cur + 1) { s with el := el' } out := by
  have : Gen.Orderer.electionLoopCond cur frame = true := by
    unfold Gen.Orderer.electionLoopCond; simp only [decide_eq_true_eq]; exact h
  simp only [handleElection, this, Bool.not_true, Bool.false_eq_true, if_false, hp]

theorem he_some (env : Env) (id c frame fuel cur : Nat) (s : OState) (out : List Decided) (el' : Election)
    (df a : Nat) (s2 : OState) (out2 : List Decided)
    (h : cur ≤ frame) (hp : processRoot env.observe (frameRoots s) s.el ⟨id, cur, c⟩ = .ok (el', some (df, a)))
    (hs : env.sealAt s.epoch df = none) (hf : df + 1 < 4294967296)
    (hb : bootstrapElection env (s.roots.length + 2) { s with ldf := df, el := reset s.vals (df + 1) }
      (out ++ [⟨s.epoch, df, a, false⟩]) = .ok (s2, out2, false)) :
    handleElection env id c frame (fuel + 1) cur s out = handleElection env id c frame fuel (cur + 1) s2 out2 := by
  have : Gen.Orderer.electionLoopCond cur frame = true := by
    unfold Gen.Orderer.electionLoopCond; simp only [decide_eq_true_eq]; exact h
  have e := onFrameDecided_noseal env { s with el := el' } df a hs hf
  simp only [handleElection, this, Bool.not_true, Bool.false_eq_true, if_false, hp, e, hb]

/-- roots of event `id` not yet fed by the loop of `handleElection` -/
def pend (id cur : Nat) (r : Root) : Prop := r.id = id ∧ cur ≤ r.frame

theorem open_of_stop {N : Net} {vals : Vals} {done : List Nat} {s : OState} {id cur : Nat}
    (T : Table N done s.roots) (O : OpenEl N vals s (pend id cur)) (h : N.fr id < cur) :
    OpenEl N vals s (fun _ => False) := by
  obtain ⟨fed, I, hsub, hall⟩ := O
  refine ⟨fed, I, hsub, fun r hr hfr => ?_⟩
  rcases hall r hr hfr with h1 | ⟨h1, h2⟩
  · exact Or.inl h1
  · exfalso
    obtain ⟨_, b, _⟩ := (T.mem r).1 hr
    have := b.2.2
    rw [h1] at this
    omega

/-- `handleElection` for the stored event `id`, from loop position `cur`: it feeds the event's roots,
    emits the blocks of the rules, and ends with an open election fed with every known root -/
theorem handle_spec {N : Net} {vals : Vals} {env : Env} (C : Ctx N vals env) {done : List Nat} (id : Nat)
    (hid : id < N.h.length) (hdone : id ∈ done) :
    ∀ (fuel cur : Nat) (s : OState) (blocks : List (Nat × Nat)) (out : List Decided),
      OInv N vals done blocks s → OpenEl N vals s (pend id cur) → N.spf id < cur → N.fr id + 1 - cur ≤ fuel →
      ∃ s' ds, handleElection env id (N.creator id) (N.fr id) fuel cur s out = .ok (s', out ++ ds) ∧
        OInv N vals done (blocks ++ ds.map blk) s' ∧ OpenEl N vals s' (fun _ => False) := by
  intro fuel
  induction fuel with
  | zero =>
    intro cur s blocks out I O _ hfuel
    refine ⟨s, [], ?_, ?_, open_of_stop I.table O (by omega)⟩
    · rw [he_stop _ _ _ _ _ _ _ _ (by omega), List.append_nil]
    · rw [List.map_nil, List.append_nil]; exact I
  | succ fuel ih =>
    intro cur s blocks out I O hspf hfuel
    by_cases hstop : N.fr id < cur
    · refine ⟨s, [], ?_, ?_, open_of_stop I.table O hstop⟩
      · rw [he_stop _ _ _ _ _ _ _ _ hstop, List.append_nil]
      · rw [List.map_nil, List.append_nil]; exact I
    · have hcur : cur ≤ N.fr id := by omega
      have hldf := I.ldf_lt C.hb
      have hfr := C.hb id hid
      obtain ⟨fed, E, hsub, hall⟩ := O
      have S : Setup N vals (s.ldf + 1) env.observe (frameRoots s) :=
        setup_of_table C.hv C.hfa C.hbft C.ok C.obs I.table I.closed _ (by omega)
      have hnr : (⟨id, cur, N.creator id⟩ : Root) ∈ s.roots :=
        (I.table.mem _).2 ⟨hdone, ⟨hid, hspf, hcur⟩, rfl⟩
      rcases einv_step S (C.l6 _ (by omega)) E ⟨id, cur, N.creator id⟩
          ((mem_frameRoots s _ _).2 ⟨hnr, rfl⟩) (by show cur < 4294967296; omega)
          (by
            intro p hp hfp _
            obtain ⟨h1, h2⟩ := (mem_frameRoots s _ p).1 hp
            rcases hall p h1 hfp with h | ⟨_, h⟩
            · exact h
            · exfalso
              have h3 : p.frame = cur - 1 := h2
              omega) with ⟨el', he, E'⟩ | ⟨el', a, he, hat, r, hr, hfr'⟩
      · rw [he_none env id _ _ fuel cur s out el' hcur he]
        apply ih (cur + 1) { s with el := el' } blocks out
          ⟨I.vals_eq, I.table, I.closed, I.ldf, I.frames, I.atropoi⟩ _ (by omega) (by omega)
        refine ⟨_, E', ?_, ?_⟩
        · intro x hx
          rcases List.mem_cons.1 hx with rfl | hx
          · exact hnr
          · exact hsub x hx
        · intro x hx hfx
          rcases hall x hx hfx with h | ⟨h1, h2⟩
          · exact Or.inl (List.mem_cons_of_mem _ h)
          · by_cases hxc : x.frame = cur
            · refine Or.inl ?_
              obtain ⟨_, _, c⟩ := (I.table.mem x).1 hx
              have : x = ⟨id, cur, N.creator id⟩ := by
                cases x
                simp only at h1 hxc c
                simp only [Root.mk.injEq]
                exact ⟨h1, hxc, by rw [c, h1]⟩
              rw [this]; exact List.mem_cons_self
            · exact Or.inr ⟨h1, by omega⟩
      · obtain ⟨I1, hm1⟩ := decide_step C I a hat ⟨r, ((mem_frameRoots s _ r).1 hr).1, hfr'⟩
        have hab : above { s with ldf := s.ldf + 1, el := reset s.vals (s.ldf + 1 + 1) } < s.roots.length + 2 :=
          Nat.lt_of_le_of_lt (List.length_filter_le _ _) (by show s.roots.length < s.roots.length + 2; omega)
        obtain ⟨s2, ds, hb, I2, O2⟩ := bootstrap_spec C (s.roots.length + 2)
          { s with ldf := s.ldf + 1, el := reset s.vals (s.ldf + 1 + 1) } (blocks ++ [(s.ldf + 1, a)])
          (out ++ [⟨s.epoch, s.ldf + 1, a, false⟩]) I1
          (by show reset s.vals _ = reset vals _; rw [I.vals_eq]) hab
        rw [he_some env id _ _ fuel cur s out el' (s.ldf + 1) a s2 _ hcur he (C.noseal _ _) (by omega) hb]
        obtain ⟨fed2, E2, hsub2, hall2⟩ := O2
        obtain ⟨s', ds', h1, h2, h3⟩ := ih (cur + 1) s2 _ _ I2
          ⟨fed2, E2, hsub2, fun x hx hfx => (hall2 x hx hfx).elim Or.inl False.elim⟩ (by omega) (by omega)
        refine ⟨s', (⟨s.epoch, s.ldf + 1, a, false⟩ :: ds) ++ ds', ?_, ?_, h3⟩
        · rw [h1]
          simp only [List.append_assoc, List.cons_append, List.nil_append]
        · rw [List.map_append, List.map_cons, ← List.append_assoc, List.append_cons]
          exact h2

/-! ### `process` -/

/-- L5 for one `process` call: a new event whose ancestors have been processed is accepted (no
    wrong-frame, no election error), the blocks emitted are those of the rules, and the invariant
    holds again with the event added -/
theorem process_spec {N : Net} {vals : Vals} {env : Env} (C : Ctx N vals env) {done : List Nat}
    {blocks : List (Nat × Nat)} {s : OState} (I : OInv N vals done blocks s) (O : OpenEl N vals s (fun _ => False))
    (id : Nat) (hid : id < N.h.length) (hnew : id ∉ done) (hpar : ∀ x, Anc N.h id x → x ≠ id → x ∈ done) :
    ∃ s' ds, process env s id (N.creator id) (N.spf id) (N.fr id) = (s', .ok ds) ∧
      OInv N vals (id :: done) (blocks ++ ds.map blk) s' ∧ OpenEl N vals s' (fun _ => False) := by
  have hacc : frameAccepted (quorumOn env s id) (N.spf id) (N.fr id) = true :=
    frameAccepted_of_allowed env C.hv C.hfa (by rw [I.vals_eq]; exact C.ok) C.obs I.table id hid hnew hpar
  have hspf := spf_lt C.hv C.hfa C.hb hid
  have hff : Gen.Orderer.electionFirstFrame (N.spf id) = N.spf id + 1 := by
    unfold Gen.Orderer.electionFirstFrame; exact Nat.mod_eq_of_lt (by omega)
  have T1 := table_insert I.table env id hnew hid hspf
  have I1 : OInv N vals (id :: done) blocks
      { s with roots := insertAll env id (N.creator id) (rootFrames (N.spf id) (N.fr id)) s.roots } :=
    ⟨I.vals_eq, T1, closed_cons I.closed id hpar, I.ldf, I.frames, I.atropoi⟩
  have hmono : ∀ r, r ∈ s.roots → r ∈ insertAll env id (N.creator id) (rootFrames (N.spf id) (N.fr id)) s.roots :=
    fun r hr => (mem_insertAll _ _ _ _ _ _).2 (Or.inl hr)
  have O1 : OpenEl N vals
      { s with roots := insertAll env id (N.creator id) (rootFrames (N.spf id) (N.fr id)) s.roots }
      (pend id (N.spf id + 1)) := by
    obtain ⟨fed, E, hsub, hall⟩ := O
    refine ⟨fed, E.mono_table ?_, fun r hr => hmono r (hsub r hr), ?_⟩
    · intro g r hr
      obtain ⟨h1, h2⟩ := (mem_frameRoots s g r).1 hr
      exact (mem_frameRoots _ g r).2 ⟨hmono r h1, h2⟩
    · intro r hr hfr
      rcases (mem_insertAll _ _ _ _ _ _).1 hr with h | ⟨f, hf, rfl⟩
      · exact (hall r h hfr).elim Or.inl False.elim
      · rw [C04.rootFrames_spec _ _ _ hspf] at hf
        exact Or.inr ⟨rfl, hf.1⟩
  obtain ⟨s', ds, h1, h2, h3⟩ := handle_spec C id hid List.mem_cons_self (N.fr id + 1) (N.spf id + 1) _ blocks [] I1 O1
    (by omega) (by omega)
  refine ⟨s', ds, ?_, h2, h3⟩
  unfold process
  rw [hacc, insert_state, hff]
  simp only [Bool.not_true, Bool.false_eq_true, if_false, h1, List.nil_append]

end OrdererProofs
