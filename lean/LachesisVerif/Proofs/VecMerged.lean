import LachesisVerif.Proofs.VecHB
/-!
`GetMergedHighestBefore` (`merged`): the `GatherFrom` loop and the no-fork fast path against the
invariants I1/I2 (used by C06 and C03).
-/
namespace VecProofs
open Model.Vec Model.Vec.VState

/-- `GatherFrom`: the marker if some branch carries it, otherwise the greatest seq (≥ the start) -/
theorem gather_spec (v : HBV) (brs : List Nat) (hi : BSeq) (hhi : hi.isFork = false) :
    ((gather v brs hi).isFork = true ↔ ∃ b, b ∈ brs ∧ (v.get b).isFork = true) ∧
    ((gather v brs hi).isFork = false →
      hi.seq ≤ (gather v brs hi).seq ∧ (∀ b, b ∈ brs → (v.get b).seq ≤ (gather v brs hi).seq) ∧
      ((gather v brs hi).seq = hi.seq ∨ ∃ b, b ∈ brs ∧ (gather v brs hi).seq = (v.get b).seq)) := by
  induction brs generalizing hi with
  | nil =>
    unfold gather
    refine ⟨⟨fun h => by rw [hhi] at h; exact absurd h (by decide), fun ⟨b, hb, _⟩ => by simp at hb⟩, ?_⟩
    intro _
    exact ⟨Nat.le_refl _, fun b hb => by simp at hb, Or.inl rfl⟩
  | cons b0 rest ih =>
    simp only [gather]
    cases hf : (v.get b0).isFork with
    | true =>
      simp only [if_true]
      refine ⟨⟨fun _ => ⟨b0, by simp, hf⟩, fun _ => hf⟩, ?_⟩
      intro h; rw [hf] at h; exact absurd h (by decide)
    | false =>
      simp only [Bool.false_eq_true, if_false]
      have exiff : ∀ r : BSeq, (r.isFork = true ↔ ∃ b, b ∈ rest ∧ (v.get b).isFork = true) →
          (r.isFork = true ↔ ∃ b, b ∈ b0 :: rest ∧ (v.get b).isFork = true) := by
        intro r hr
        rw [hr]
        constructor
        · rintro ⟨b, hb, hbf⟩; exact ⟨b, List.mem_cons_of_mem _ hb, hbf⟩
        · rintro ⟨b, hb, hbf⟩
          rcases List.mem_cons.1 hb with rfl | hb'
          · rw [hf] at hbf; exact absurd hbf (by decide)
          · exact ⟨b, hb', hbf⟩
      by_cases hg : Gen.Vec.gatherCond (v.get b0).seq hi.seq = true
      · rw [if_pos hg]
        have hgt : (v.get b0).seq > hi.seq := by simpa [Gen.Vec.gatherCond] using hg
        obtain ⟨i1, i2⟩ := ih (v.get b0) hf
        refine ⟨exiff _ i1, ?_⟩
        intro hnf
        obtain ⟨j1, j2, j3⟩ := i2 hnf
        refine ⟨by omega, ?_, ?_⟩
        · intro b hb
          rcases List.mem_cons.1 hb with rfl | hb'
          · exact j1
          · exact j2 b hb'
        · right
          rcases j3 with j3 | ⟨b, hb, hbs⟩
          · exact ⟨b0, by simp, j3⟩
          · exact ⟨b, List.mem_cons_of_mem _ hb, hbs⟩
      · rw [if_neg hg]
        have hle : (v.get b0).seq ≤ hi.seq := by
          have : ¬ (v.get b0).seq > hi.seq := by simpa [Gen.Vec.gatherCond] using hg
          omega
        obtain ⟨i1, i2⟩ := ih hi hhi
        refine ⟨exiff _ i1, ?_⟩
        intro hnf
        obtain ⟨j1, j2, j3⟩ := i2 hnf
        refine ⟨j1, ?_, ?_⟩
        · intro b hb
          rcases List.mem_cons.1 hb with rfl | hb'
          · omega
          · exact j2 b hb'
        · rcases j3 with j3 | ⟨b, hb, hbs⟩
          · exact Or.inl j3
          · exact Or.inr ⟨b, List.mem_cons_of_mem _ hb, hbs⟩

theorem MaxSeq.unique {h : Hist} {a c m m' : Nat} (h1 : MaxSeq h a c m) (h2 : MaxSeq h a c m') : m = m' := by
  obtain ⟨u1, w1⟩ := h1
  obtain ⟨u2, w2⟩ := h2
  rcases w1 with ⟨z1, n1⟩ | ⟨x1, a1, c1, s1⟩ <;> rcases w2 with ⟨z2, n2⟩ | ⟨x2, a2, c2, s2⟩
  · omega
  · exact absurd c2 (n1 x2 a2)
  · exact absurd c1 (n2 x1 a1)
  · have := u1 x2 a2 c2
    have := u2 x1 a1 c1
    omega

/-- the greatest entry over the branches of `c` is the highest observed seq of `c` -/
theorem maxSeq_of_entries {nVals : Nat} {h : Hist} {s : VState} {nBrAt : Nat → Nat} (hv : Valid nVals h)
    (bi : BranchInv h s) (vi : VecInv h s nBrAt) (vi2 : VecInv2 h s nBrAt) {a c : Nat}
    (ha : a < h.length) (m : Nat)
    (hnf : ∀ b, b < s.nBr → s.creatorOf b = c → ((s.hb.get a).get b).isFork = false)
    (hub : ∀ b, b < s.nBr → s.creatorOf b = c → ((s.hb.get a).get b).seq ≤ m)
    (hat : m = 0 ∨ ∃ b, b < s.nBr ∧ s.creatorOf b = c ∧ m = ((s.hb.get a).get b).seq) :
    MaxSeq h a c m := by
  have key : ∀ x, Anc h a x → (h.ev x).creator = c → 1 ≤ (h.ev x).seq ∧ (h.ev x).seq ≤ m := by
    intro x hax hcx
    have lx := hax.lt_right hv
    have hb := bi.branch_lt x lx
    have hcb : s.creatorOf (s.branchOf x) = c := by rw [bi.creator_eq x lx]; exact hcx
    have hr := entry_rep vi vi2 ha (hnf _ hb hcb)
    have bd := hr.bounds (n := (h.ev x).seq) ⟨x, hax, rfl, rfl⟩
    have := hub _ hb hcb
    omega
  refine ⟨fun x hax hcx => (key x hax hcx).2, ?_⟩
  by_cases hm : m = 0
  · left
    refine ⟨hm, fun x hax hcx => ?_⟩
    have := key x hax hcx
    omega
  · right
    rcases hat with h0 | ⟨b, hb, hcb, hmb⟩
    · exact absurd h0 hm
    · have hr := entry_rep vi vi2 ha (hnf b hb hcb)
      rcases hr with ⟨_, hz⟩ | ⟨⟨i, hai, hib, his⟩, _⟩
      · rw [hz] at hmb; exact absurd hmb hm
      · have li := hai.lt_right hv
        refine ⟨i, hai, ?_, by rw [his, hmb]⟩
        rw [← bi.creator_eq i li, hib, hcb]

/-- the entry `merged` inspects (before the final fork test) -/
def mergedEntry (s : VState) (a c : Nat) : BSeq :=
  if s.atLeastOneFork then gather (s.hb.get a) (s.branchesOf c) BSeq.zero else (s.hb.get a).get c

theorem merged_eq (s : VState) (a c : Nat) :
    s.merged a c = if (mergedEntry s a c).isFork then none else some (mergedEntry s a c).seq := rfl

/-- the inspected entry: marker iff fork seen, otherwise its seq is the highest observed seq;
    both for the `GatherFrom` path and the no-fork fast path -/
theorem mergedEntry_spec {nVals : Nat} {h : Hist} {s : VState} {nBrAt : Nat → Nat} (hv : Valid nVals h)
    (bi : BranchInv h s) (vi : VecInv h s nBrAt) (vi2 : VecInv2 h s nBrAt) (hlt : s.nBr < 4294967296)
    {a c : Nat} (ha : a < h.length) (hc : c < s.nVals) :
    ((mergedEntry s a c).isFork = true ↔ ForkSeen h a c) ∧
    ((mergedEntry s a c).isFork = false → MaxSeq h a c (mergedEntry s a c).seq) := by
  have hcb : c < s.nBr := by have := bi.nVals_le; omega
  have hcc : s.creatorOf c = c := bi.primary c hc
  have hcat : c < nBrAt a := by have := vi.base a ha; omega
  -- some branch of `c` carries the marker iff a fork of `c` is seen
  have fork_iff : (∃ b, b ∈ s.branchesOf c ∧ ((s.hb.get a).get b).isFork = true) ↔ ForkSeen h a c := by
    constructor
    · rintro ⟨b, hb, hf⟩
      have := (vi.sound a b ha hf).2
      rw [((mem_branchesOf s c b).1 hb).2] at this
      exact this
    · intro hF
      exact ⟨c, (mem_branchesOf s c c).2 ⟨hcb, hcc⟩, vi.complete a c ha hcat (by rw [hcc]; exact hF)⟩
  unfold mergedEntry
  by_cases hal : s.atLeastOneFork = true
  · rw [if_pos hal]
    obtain ⟨g1, g2⟩ := gather_spec (s.hb.get a) (s.branchesOf c) BSeq.zero (by decide)
    refine ⟨g1.trans fork_iff, ?_⟩
    intro hnf
    obtain ⟨_, j2, j3⟩ := g2 hnf
    have allnf : ∀ b, b < s.nBr → s.creatorOf b = c → ((s.hb.get a).get b).isFork = false := by
      intro b hb hcb'
      cases hf : ((s.hb.get a).get b).isFork with
      | false => rfl
      | true =>
        rw [g1.2 ⟨b, (mem_branchesOf s c b).2 ⟨hb, hcb'⟩, hf⟩] at hnf
        exact absurd hnf (by decide)
    apply maxSeq_of_entries hv bi vi vi2 ha _ allnf
    · intro b hb hcb'
      exact j2 b ((mem_branchesOf s c b).2 ⟨hb, hcb'⟩)
    · rcases j3 with j3 | ⟨b, hb, hbs⟩
      · exact Or.inl j3
      · have := (mem_branchesOf s c b).1 hb
        exact Or.inr ⟨b, this.1, this.2, hbs⟩
  · rw [if_neg hal]
    -- no second branch anywhere: the only branch of `c` is `c`
    have hnb : ¬ s.nVals < s.nBr := mt (atLeastOneFork_iff hlt).2 hal
    have only : ∀ b, b < s.nBr → s.creatorOf b = c → b = c := by
      intro b hb hcb'
      have := bi.primary b (by omega)
      omega
    constructor
    · rw [← fork_iff]
      constructor
      · intro hf; exact ⟨c, (mem_branchesOf s c c).2 ⟨hcb, hcc⟩, hf⟩
      · rintro ⟨b, hb, hf⟩
        have := (mem_branchesOf s c b).1 hb
        rw [only b this.1 this.2] at hf
        exact hf
    · intro hnf
      apply maxSeq_of_entries hv bi vi vi2 ha
      · intro b hb hcb'; rw [only b hb hcb']; exact hnf
      · intro b hb hcb'; rw [only b hb hcb']; exact Nat.le_refl _
      · exact Or.inr ⟨c, hcb, hcc, rfl⟩

/-- C06 from the invariants: `merged` reports a fork exactly when one is seen, otherwise the
    highest observed sequence number -/
theorem merged_spec {nVals : Nat} {h : Hist} {s : VState} {nBrAt : Nat → Nat} (hv : Valid nVals h)
    (bi : BranchInv h s) (vi : VecInv h s nBrAt) (vi2 : VecInv2 h s nBrAt) (hlt : s.nBr < 4294967296)
    {a c : Nat} (ha : a < h.length) (hc : c < s.nVals) :
    (s.merged a c = none ↔ ForkSeen h a c) ∧
    (∀ m, s.merged a c = some m ↔ (¬ ForkSeen h a c ∧ MaxSeq h a c m)) := by
  obtain ⟨e1, e2⟩ := mergedEntry_spec hv bi vi vi2 hlt ha hc
  rw [merged_eq]
  cases hf : (mergedEntry s a c).isFork with
  | true =>
    have hF := e1.1 hf
    simp only [if_true]
    refine ⟨⟨fun _ => hF, fun _ => trivial⟩, fun m => ⟨fun h => by simp at h, fun h => absurd hF h.1⟩⟩
  | false =>
    have hnF : ¬ ForkSeen h a c := by
      intro hF; rw [e1.2 hF] at hf; exact absurd hf (by decide)
    have hM := e2 hf
    simp only [Bool.false_eq_true, if_false]
    refine ⟨⟨fun h => by simp at h, fun h => absurd h hnF⟩, fun m => ⟨?_, ?_⟩⟩
    · intro h
      have : (mergedEntry s a c).seq = m := by simpa using h
      rw [← this]; exact ⟨hnF, hM⟩
    · rintro ⟨_, hm⟩
      rw [hM.unique hm]

end VecProofs
