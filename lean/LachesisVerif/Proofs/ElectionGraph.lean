import LachesisVerif.Spec.ElectionRules
/-!
Graph-level lemmas behind C10/C01, part 1: weights of validator sets and L1 (two quorums share a
never-forking validator) for the definitions of `Spec/ElectionRules.lean`.
-/
namespace ElectionRules
open VecProofs
open Classical

/-- weight of the members of `l` satisfying `P` -/
noncomputable def wsum (w : Nat → Nat) (l : List Nat) (P : Nat → Prop) : Nat :=
  ((l.filter (fun v => decide (P v))).map w).sum

theorem wsum_nil (w : Nat → Nat) (P : Nat → Prop) : wsum w [] P = 0 := rfl

theorem wsum_cons (w : Nat → Nat) (a : Nat) (l : List Nat) (P : Nat → Prop) :
    wsum w (a :: l) P = (if P a then w a else 0) + wsum w l P := by
  unfold wsum
  by_cases h : P a
  · simp [h]
  · simp [h]

theorem wsum_mono (w : Nat → Nat) (l : List Nat) (P Q : Nat → Prop) (h : ∀ v ∈ l, P v → Q v) :
    wsum w l P ≤ wsum w l Q := by
  induction l with
  | nil => exact Nat.le_refl _
  | cons a l ih =>
    rw [wsum_cons, wsum_cons]
    have := ih (fun v hv => h v (List.mem_cons_of_mem _ hv))
    by_cases hp : P a
    · have hq := h a List.mem_cons_self hp
      rw [if_pos hp, if_pos hq]; omega
    · rw [if_neg hp]; omega

theorem wsum_congr (w : Nat → Nat) (l : List Nat) (P Q : Nat → Prop) (h : ∀ v ∈ l, (P v ↔ Q v)) :
    wsum w l P = wsum w l Q :=
  Nat.le_antisymm (wsum_mono w l P Q fun v hv => (h v hv).1) (wsum_mono w l Q P fun v hv => (h v hv).2)

theorem wsum_add (w : Nat → Nat) (l : List Nat) (P Q : Nat → Prop) :
    wsum w l P + wsum w l Q = wsum w l (fun v => P v ∨ Q v) + wsum w l (fun v => P v ∧ Q v) := by
  induction l with
  | nil => rfl
  | cons a l ih =>
    simp only [wsum_cons]
    by_cases hp : P a <;> by_cases hq : Q a <;> simp [hp, hq] <;> omega

theorem wsum_zero (w : Nat → Nat) (l : List Nat) (P : Nat → Prop) (h : ∀ v ∈ l, ¬ P v) : wsum w l P = 0 := by
  induction l with
  | nil => rfl
  | cons a l ih =>
    rw [wsum_cons, if_neg (h a List.mem_cons_self), ih (fun v hv => h v (List.mem_cons_of_mem _ hv))]

theorem wsum_pos (w : Nat → Nat) (l : List Nat) (P : Nat → Prop) (h : 0 < wsum w l P) : ∃ v ∈ l, P v := by
  apply Classical.byContradiction
  intro hn
  have := wsum_zero w l P (fun v hv hp => hn ⟨v, hv, hp⟩)
  omega

namespace Net
variable (N : Net)

theorem weightOf_eq (P : Nat → Prop) : N.weightOf P = wsum N.w (List.range N.nVals) P := rfl

theorem weightOf_mono (P Q : Nat → Prop) (h : ∀ v, v < N.nVals → P v → Q v) : N.weightOf P ≤ N.weightOf Q :=
  wsum_mono _ _ _ _ (fun v hv => h v (List.mem_range.1 hv))

theorem weightOf_congr (P Q : Nat → Prop) (h : ∀ v, v < N.nVals → (P v ↔ Q v)) : N.weightOf P = N.weightOf Q :=
  wsum_congr _ _ _ _ (fun v hv => h v (List.mem_range.1 hv))

theorem weightOf_add (P Q : Nat → Prop) :
    N.weightOf P + N.weightOf Q = N.weightOf (fun v => P v ∨ Q v) + N.weightOf (fun v => P v ∧ Q v) :=
  wsum_add _ _ _ _

theorem weightOf_le_total (P : Nat → Prop) : N.weightOf P ≤ N.total :=
  N.weightOf_mono _ _ (fun _ _ _ => trivial)

theorem weightOf_zero (P : Nat → Prop) (h : ∀ v, v < N.nVals → ¬ P v) : N.weightOf P = 0 :=
  wsum_zero _ _ _ (fun v hv => h v (List.mem_range.1 hv))

theorem weightOf_pos (P : Nat → Prop) (h : 0 < N.weightOf P) : ∃ v, v < N.nVals ∧ P v := by
  obtain ⟨v, hv, hp⟩ := wsum_pos _ _ _ h
  exact ⟨v, List.mem_range.1 hv, hp⟩

/-- two sets reaching the quorum overlap in more than a third of the total weight -/
theorem quorum_overlap (P Q : Nat → Prop) (hP : N.quorum ≤ N.weightOf P) (hQ : N.quorum ≤ N.weightOf Q) :
    2 * N.quorum ≤ N.weightOf (fun v => P v ∧ Q v) + N.total := by
  have h1 := N.weightOf_add P Q
  have h2 := N.weightOf_le_total (fun v => P v ∨ Q v)
  omega

theorem three_quorum : 2 * N.total < 3 * N.quorum := by
  unfold quorum; omega

/-- L1 -/
theorem L1_holds : N.L1 := by
  intro hbft P Q hP hQ
  have h1 := N.quorum_overlap P Q hP hQ
  have h2 := N.three_quorum
  unfold BFT at hbft
  have h3 := N.weightOf_add (fun v => P v ∧ Q v ∧ ¬ N.Forker v) N.Forker
  have h4 : N.weightOf (fun v => P v ∧ Q v) ≤
      N.weightOf (fun v => (P v ∧ Q v ∧ ¬ N.Forker v) ∨ N.Forker v) := by
    apply N.weightOf_mono
    intro v _ ⟨hp, hq⟩
    by_cases hf : N.Forker v
    · exact Or.inr hf
    · exact Or.inl ⟨hp, hq, hf⟩
  have h5 : 0 < N.weightOf (fun v => P v ∧ Q v ∧ ¬ N.Forker v) := by omega
  obtain ⟨v, hv, hp, hq, hf⟩ := N.weightOf_pos _ h5
  exact ⟨v, hv, hp, hq, hf⟩

end Net
end ElectionRules
