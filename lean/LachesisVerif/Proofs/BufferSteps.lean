import LachesisVerif.Proofs.BufferInv
/-! C14: `processCompleteEvent` followed by `releaseEvent`, and the updates of `incompletes`. -/
namespace C14
open Model.EventsBuffer

theorem check_inv {init : List Nat} {x : Nat} {st : St} (h : Inv init x st) (c : Nat) (ok : Bool) :
    Inv init x { st with trace := .check c ok :: st.trace } where
  relsync := by simpa using h.relsync
  noproc := by simpa using h.noproc
  procOk := by simpa using h.procOk
  relOk := by simpa using h.relOk
  incId := h.incId
  incNodup := h.incNodup
  incLen := h.incLen
  buffered := h.buffered
  fresh := h.fresh
  parents := by simpa using h.parents
  oof := h.oof

/-- the three outcomes of `processCompleteEvent` -/
theorem processComplete_cases (O : Oracle) (st : St) (c : Nat) :
    (processComplete O st c = (drop { st with trace := .check c false :: st.trace } c errCheck, false)) ∨
    (processComplete O st c =
      ({ st with trace := .process c false :: .check c true :: st.trace,
                 recs := setRec st.recs c { st.recs c with err := errProcess } }, false)) ∨
    (processComplete O st c =
      ({ st with trace := .process c true :: .check c true :: st.trace, conn := (st.recs c).ev.id :: st.conn }, true)) := by
  unfold processComplete
  cases hC : O.check (st.recs c).tag (nCheck c st.trace)
  · left; simp [hC]
  · cases hP : O.process (st.recs c).tag (nProc c st.trace)
    · right; left; simp [hC, hP]
    · right; right; simp [hC, hP]

/-- state after a `Process` call on `c` (result `ok`), before the release -/
def afterProcess (st : St) (c : Nat) (ok : Bool) (recs' : Nat → Rec) : St :=
  { st with trace := .process c ok :: .check c true :: st.trace, recs := recs',
            conn := if ok then (st.recs c).ev.id :: st.conn else st.conn }

theorem procRel_core {init : List Nat} {x : Nat} {st : St} (h : Inv init x st) (c : Nat) (hc : c < st.n)
    (hun : (st.recs c).released = false) (hcomp : st.complete (st.recs c).ev = true)
    (ok : Bool) (recs' : Nat → Rec)
    (hev : ∀ c', (recs' c').ev = (st.recs c').ev) (hrel : ∀ c', (recs' c').released = (st.recs c').released) :
    Inv init x (release (afterProcess st c ok recs') c) := by
  have hun' : ((afterProcess st c ok recs').recs c).released = false := by
    show (recs' c).released = false
    rw [hrel]; exact hun
  have ht : (release (afterProcess st c ok recs') c).trace =
      .released c (recs' c).err :: .process c ok :: .check c true :: st.trace := by
    rw [release_trace, hun']; rfl
  have hR : ∀ c', c' ≠ c → ((release (afterProcess st c ok recs') c).recs c').released = (st.recs c').released := by
    intro c' e
    rw [release_released_other _ c c' e]
    exact hrel c'
  have hE : ∀ c', ((release (afterProcess st c ok recs') c).recs c').ev = (st.recs c').ev := by
    intro c'; rw [release_ev]; exact hev c'
  have h0 : nRel c st.trace = 0 := by rw [h.relsync c, hun]; rfl
  have hp0 : nProc c st.trace = 0 := h.noproc c hun
  exact {
    relsync := by
      intro c'
      rw [ht]
      by_cases e : c' = c
      · subst e; rw [release_released_self]; simp [h0]
      · rw [hR c' e]; simp [Ne.symm e]; exact h.relsync c'
    noproc := by
      intro c' hc'
      by_cases e : c' = c
      · subst e; rw [release_released_self] at hc'; cases hc'
      · rw [hR c' e] at hc'
        rw [ht]; simp [Ne.symm e]; exact h.noproc c' hc'
    procOk := by rw [ht]; simp [hp0, h0, h.procOk]
    relOk := by rw [ht]; simp [h0, h.relOk]
    incId := by
      intro p hp
      have := h.incId p hp
      exact ⟨by rw [hE]; exact this.1, this.2⟩
    incNodup := h.incNodup
    incLen := h.incLen
    buffered := by
      intro c' h1 h2 h3
      by_cases e : c' = c
      · subst e; rw [release_released_self] at h3; cases h3
      · rw [hR c' e] at h3; rw [hE]; exact h.buffered c' h1 h2 h3
    fresh := by
      intro c' h1
      have e : c' ≠ c := by intro e; subst e; exact absurd hc (Nat.not_lt.2 h1)
      rw [hR c' e]; exact h.fresh c' h1
    parents := by
      intro evOf hev'
      have hev'' : ∀ c', c' < st.n → evOf c' = (st.recs c').ev := by
        intro c' h1; rw [hev' c' h1, hE]
      obtain ⟨hp, hcn⟩ := h.parents evOf hev''
      rw [ht]
      have hce : evOf c = (st.recs c).ev := hev'' c hc
      have hall : (evOf c).parents.all (fun p => (connOf evOf init st.trace).contains p) = true := by
        rw [hce, ← hcn]; exact hcomp
      constructor
      · simp only [parentsOk_released, parentsOk_process, parentsOk_check, connOf_check]
        rw [hall, hp]; rfl
      · show (if ok then (st.recs c).ev.id :: st.conn else st.conn) = _
        cases ok
        · simp [hcn]
        · simp [hcn, hce]
    oof := h.oof }

theorem procRel_frame (O : Oracle) (st : St) (c : Nat) : Frame st (release (processComplete O st c).1 c) := by
  have hrf := release_frame (processComplete O st c).1 c
  refine Frame.trans ?_ hrf
  rcases processComplete_cases O st c with e | e | e <;> rw [e]
  · show Frame st (drop { st with trace := .check c false :: st.trace } c errCheck)
    exact Frame.trans (b := { st with trace := .check c false :: st.trace })
      ⟨rfl, fun _ => rfl, fun _ => rfl, fun _ h => h, fun _ h => h⟩ (drop_frame _ c errCheck)
  · refine ⟨rfl, ?_, ?_, ?_, fun _ h => h⟩ <;> intro c' <;> by_cases e' : c' = c
    · subst e'; simp
    · simp [setRec_other _ _ _ _ e']
    · subst e'; simp
    · simp [setRec_other _ _ _ _ e']
    · subst e'; simp
    · simp [setRec_other _ _ _ _ e']
  · exact ⟨rfl, fun _ => rfl, fun _ => rfl, fun _ h => h, fun _ h => List.mem_cons_of_mem _ h⟩

/-- `processCompleteEvent` + `releaseEvent` on an unreleased copy whose parents are connected -/
theorem procRel_inv {init : List Nat} {x : Nat} {st : St} (O : Oracle) (h : Inv init x st) (c : Nat) (hc : c < st.n)
    (hun : (st.recs c).released = false) (hcomp : st.complete (st.recs c).ev = true) :
    Inv init x (release (processComplete O st c).1 c) := by
  rcases processComplete_cases O st c with e | e | e <;> rw [e]
  · exact release_inv (drop_inv (check_inv h c false) c errCheck) c (by simpa using hc)
  · have := procRel_core h c hc hun hcomp false (setRec st.recs c { st.recs c with err := errProcess })
      (by intro c'; by_cases e' : c' = c
          · subst e'; simp
          · simp [setRec_other _ _ _ _ e'])
      (by intro c'; by_cases e' : c' = c
          · subst e'; simp
          · simp [setRec_other _ _ _ _ e'])
    simpa [afterProcess] using this
  · have := procRel_core h c hc hun hcomp true st.recs (fun _ => rfl) (fun _ => rfl)
    simpa [afterProcess] using this

/-- a successful `Process` connects the event -/
theorem processComplete_ok_conn (O : Oracle) (st : St) (c : Nat) (h : (processComplete O st c).2 = true) :
    (processComplete O st c).1.conn = (st.recs c).ev.id :: st.conn := by
  rcases processComplete_cases O st c with e | e | e <;> rw [e] at h ⊢
  · cases h
  · cases h

theorem processComplete_inc (O : Oracle) (st : St) (c : Nat) : (processComplete O st c).1.inc = st.inc := by
  rcases processComplete_cases O st c with e | e | e <;> rw [e] <;> try simp

/-! ### `incompletes` -/

theorem mem_incRemove {inc : List (Nat × Nat)} {id : Nat} {p : Nat × Nat} :
    p ∈ incRemove inc id ↔ p ∈ inc ∧ p.1 ≠ id := by
  simp [incRemove]

theorem incRemove_sublist (inc : List (Nat × Nat)) (id : Nat) : List.Sublist (incRemove inc id) inc :=
  List.filter_sublist

theorem remove_inv {init : List Nat} {x : Nat} {st : St} (h : Inv init x st) (id : Nat)
    (hrm : ∀ p ∈ st.inc, p.1 = id → (st.recs p.2).released = true ∨ p.2 = x) :
    Inv init x { st with inc := incRemove st.inc id } where
  relsync := h.relsync
  noproc := h.noproc
  procOk := h.procOk
  relOk := h.relOk
  incId := fun p hp => h.incId p (mem_incRemove.1 hp).1
  incNodup := List.Nodup.sublist (List.Sublist.map _ (incRemove_sublist st.inc id)) h.incNodup
  incLen := Nat.le_trans (List.Sublist.length_le (incRemove_sublist st.inc id)) h.incLen
  buffered := by
    intro c h1 h2 h3
    have hm := h.buffered c h1 h2 h3
    refine mem_incRemove.2 ⟨hm, ?_⟩
    intro e
    rcases hrm _ hm e with r | r
    · rw [h3] at r; cases r
    · exact h2 r
  fresh := h.fresh
  parents := h.parents
  oof := h.oof

/-- buffering the copy in flight -/
theorem add_inv {init : List Nat} {st : St} {c : Nat} (h : Inv init c st) (hc : c < st.n)
    (hnew : ∀ p ∈ st.inc, p.1 ≠ (st.recs c).ev.id) (hlen : st.inc.length < st.n) (x : Nat) :
    Inv init x { st with inc := incAdd st.inc (st.recs c).ev.id c } := by
  have hrm : incRemove st.inc (st.recs c).ev.id = st.inc := by
    unfold incRemove
    rw [List.filter_eq_self]
    intro p hp
    simpa using hnew p hp
  have hinc : incAdd st.inc (st.recs c).ev.id c = st.inc ++ [((st.recs c).ev.id, c)] := by
    unfold incAdd; rw [hrm]
  exact {
    relsync := h.relsync
    noproc := h.noproc
    procOk := h.procOk
    relOk := h.relOk
    incId := by
      intro p hp
      rw [hinc] at hp
      rcases List.mem_append.1 hp with hp | hp
      · exact h.incId p hp
      · simp at hp; subst hp; exact ⟨rfl, hc⟩
    incNodup := by
      show ((incAdd st.inc (st.recs c).ev.id c).map (·.1)).Nodup
      rw [hinc, List.map_append, List.nodup_append]
      refine ⟨h.incNodup, by simp, ?_⟩
      intro a ha b hb
      simp at hb
      subst hb
      obtain ⟨p, hp, rfl⟩ := List.mem_map.1 ha
      exact hnew p hp
    incLen := by
      show (incAdd st.inc (st.recs c).ev.id c).length ≤ st.n
      rw [hinc]; simp; omega
    buffered := by
      intro c' h1 _ h3
      show _ ∈ incAdd st.inc (st.recs c).ev.id c
      rw [hinc]
      by_cases e : c' = c
      · subst e; simp
      · exact List.mem_append_left _ (h.buffered c' h1 e h3)
    fresh := h.fresh
    parents := h.parents
    oof := h.oof }

/-- once the copy in flight is released or buffered, nobody is in flight -/
theorem inv_close {init : List Nat} {st : St} {c : Nat} (h : Inv init c st)
    (hdone : (st.recs c).released = true ∨ ((st.recs c).ev.id, c) ∈ st.inc) (x : Nat) : Inv init x st := by
  refine { h with buffered := ?_ }
  intro c' h1 _ h3
  by_cases e : c' = c
  · subst e
    rcases hdone with r | r
    · rw [h3] at r; cases r
    · exact r
  · exact h.buffered c' h1 e h3

end C14
