import LachesisVerif.Model.Vec
/-!
Shared definitions for the proofs about the vector index (C05, C06, C03): histories, ancestry,
validity (what eventcheck guarantees), forks, and the invariants I1–I3 of DESIGN §5.
Statements only — the proofs live in Proofs/VecHB.lean (HighestBefore, C06) and
Proofs/VecLA.lean (LowestAfter / forkless cause, C05).
-/
namespace VecProofs
open Model.Vec

/-- a history: events in indexing (parents-first) order; an event is its position -/
abbrev Hist := List Event

def Hist.ev (h : Hist) (i : Nat) : Event := h.getD i default

/-- ancestors-or-self inside a parents-first history -/
inductive Anc (h : Hist) : Nat → Nat → Prop
  | refl {a} : a < h.length → Anc h a a
  | step {a p b} : a < h.length → p ∈ (h.ev a).parents → Anc h p b → Anc h a b

/-- what the event checkers (C13) guarantee about an event appended to `h` -/
structure ValidNext (nVals : Nat) (h : Hist) (e : Event) : Prop where
  parents_lt : ∀ p ∈ e.parents, p < h.length
  creator_lt : e.creator < nVals
  seq_pos : 1 ≤ e.seq
  seq_lt : e.seq < 2147483646
  first : e.seq = 1 → ∀ p ∈ e.parents, (h.ev p).creator ≠ e.creator
  self : 1 < e.seq → ∃ sp ps, e.parents = sp :: ps ∧ (h.ev sp).creator = e.creator ∧
           (h.ev sp).seq + 1 = e.seq ∧ ∀ p ∈ ps, (h.ev p).creator ≠ e.creator

inductive Valid (nVals : Nat) : Hist → Prop
  | nil : Valid nVals []
  | snoc {h e} : Valid nVals h → ValidNext nVals h e → Valid nVals (h ++ [e])

/-- the index after indexing the whole history -/
def run (nVals : Nat) (h : Hist) : VState := h.foldl (fun s e => s.add e) (VState.init nVals)

/-- fork of validator `c` visible in the ancestry of `a` (the wording of C06 / C03 / C05) -/
def ForkSeen (h : Hist) (a c : Nat) : Prop :=
  ∃ x y, x ≠ y ∧ Anc h a x ∧ Anc h a y ∧ (h.ev x).creator = c ∧ (h.ev y).creator = c ∧ (h.ev x).seq = (h.ev y).seq

/-- highest sequence number of validator `c` among the ancestors-or-self of `a` is `m` (0 if none) -/
def MaxSeq (h : Hist) (a c m : Nat) : Prop :=
  (∀ x, Anc h a x → (h.ev x).creator = c → (h.ev x).seq ≤ m) ∧
  ((m = 0 ∧ ∀ x, Anc h a x → (h.ev x).creator ≠ c) ∨ (∃ x, Anc h a x ∧ (h.ev x).creator = c ∧ (h.ev x).seq = m))

/-- sequence numbers of the events of branch `b` inside the ancestry of `a` -/
def ObsSeq (h : Hist) (s : VState) (a b : Nat) (n : Nat) : Prop :=
  ∃ i, Anc h a i ∧ s.branchOf i = b ∧ (h.ev i).seq = n

/-- `Rep S x`: the entry `x` faithfully represents the set `S` of observed sequence numbers of one
    branch: empty set ↦ zero entry, otherwise (max, min). Never the fork marker. -/
def Rep (S : Nat → Prop) (x : BSeq) : Prop :=
  ((∀ n, ¬ S n) ∧ x = BSeq.zero) ∨
  (S x.seq ∧ S x.minSeq ∧ (∀ n, S n → x.minSeq ≤ n ∧ n ≤ x.seq) ∧ 1 ≤ x.minSeq)

/-- I1: branch-table invariant -/
structure BranchInv (h : Hist) (s : VState) : Prop where
  size_eq : s.size = h.length
  nVals_le : s.nVals ≤ s.nBr
  primary : ∀ c, c < s.nVals → s.creatorOf c = c
  creator_lt : ∀ b, b < s.nBr → s.creatorOf b < s.nVals
  branch_lt : ∀ i, i < h.length → s.branchOf i < s.nBr
  creator_eq : ∀ i, i < h.length → s.creatorOf (s.branchOf i) = (h.ev i).creator
  seq_inj : ∀ i j, i < h.length → j < h.length → s.branchOf i = s.branchOf j → (h.ev i).seq = (h.ev j).seq → i = j
  chain : ∀ i j, i < h.length → j < h.length → s.branchOf i = s.branchOf j → (h.ev j).seq ≤ (h.ev i).seq → Anc h i j
  last_ub : ∀ i, i < h.length → (h.ev i).seq ≤ s.lastSeq (s.branchOf i)
  last_attained : ∀ b, b < s.nBr → s.lastSeq b ≠ 0 → ∃ i, i < h.length ∧ s.branchOf i = b ∧ (h.ev i).seq = s.lastSeq b
  last_zero : ∀ b, s.nBr ≤ b → s.lastSeq b = 0
  parents_eq : ∀ i, i < h.length → s.parents i = (h.ev i).parents

/-- I2: HighestBefore invariant; `nBrAt a` = number of branches right after `a` was indexed -/
structure VecInv (h : Hist) (s : VState) (nBrAt : Nat → Nat) : Prop where
  sound : ∀ a b, a < h.length → ((s.hb.get a).get b).isFork = true → b < nBrAt a ∧ ForkSeen h a (s.creatorOf b)
  complete : ∀ a b, a < h.length → b < nBrAt a → ForkSeen h a (s.creatorOf b) → ((s.hb.get a).get b).isFork = true
  rep : ∀ a b, a < h.length → ¬ ForkSeen h a (s.creatorOf b) → Rep (ObsSeq h s a b) ((s.hb.get a).get b)
  mono : ∀ a, a < h.length → nBrAt a ≤ s.nBr
  base : ∀ a, a < h.length → s.nVals ≤ nBrAt a

/-- I2′ (used by C05 only): a row is zero beyond the branches that existed when its event was
    indexed, and every event in the ancestry of `a` lies on a branch that existed then.
    (Separate from `VecInv` so that adding it does not disturb the C06 proofs.) -/
structure VecInv2 (h : Hist) (s : VState) (nBrAt : Nat → Nat) : Prop where
  beyond : ∀ a b, a < h.length → nBrAt a ≤ b → (s.hb.get a).get b = BSeq.zero
  seen_lt : ∀ a i, a < h.length → Anc h a i → s.branchOf i < nBrAt a

/-- I3: LowestAfter invariant: `LA(b)[br]` is the least seq of an event of branch `br` that has `b`
    as an ancestor-or-self, among the events indexed so far (0 if there is none) -/
structure LowInv (h : Hist) (s : VState) : Prop where
  zero : ∀ b br, b < h.length → (s.la.get b).get br = 0 → ∀ i, i < h.length → s.branchOf i = br → ¬ Anc h i b
  least : ∀ b br, b < h.length → (s.la.get b).get br ≠ 0 →
    (∃ i, i < h.length ∧ s.branchOf i = br ∧ Anc h i b ∧ (h.ev i).seq = (s.la.get b).get br) ∧
    (∀ i, i < h.length → s.branchOf i = br → Anc h i b → (s.la.get b).get br ≤ (h.ev i).seq)

open Classical in
/-- C05's graph definition of forkless cause (weights and quorum as parameters) -/
noncomputable def FCSpec (h : Hist) (nVals : Nat) (weight : Nat → Nat) (quorum : Nat) (a b : Nat) : Prop :=
  ¬ ForkSeen h a (h.ev b).creator ∧
  quorum ≤ (((List.range nVals).filter (fun v => decide
      (¬ ForkSeen h a v ∧ ∃ e, (h.ev e).creator = v ∧ Anc h e b ∧ Anc h a e))).map weight).sum

end VecProofs
