import LachesisVerif.Proofs.ElectionComplete
import LachesisVerif.Proofs.ElectionL3
import LachesisVerif.Proofs.ElectionL6
import LachesisVerif.Props.C04
/-!
L5 (C10/C01), part 1: the roots table of `Model.Orderer` along a parents-first processing history.

`N` is the net of the whole (final) history — event numbers are positions in `N.h`, fixed once and
independent of the processing order. An instance has processed the events `done` (a list of numbers
closed under ancestry). `Table N done roots` says that the table lists exactly the graph roots
`⟨e, g, creator e⟩` with `e ∈ done` and `N.IsRoot e g`, once each. From it: the hypotheses `Setup` of
the single-election refinement for the table of a *prefix* (`setup_of_table`), contiguity of the
frames that have roots (`frame_below`), the frame check of `process` (`quorumOn_iff`,
`frameAccepted_of_allowed`), and the effect of `Store.AddRoot` (`table_insert`).
-/
namespace OrdererProofs
open Model.Pos Model.Election Model.Orderer ElectionRules ElectionRefine ElectionProofs VecProofs

/-- `insertRoot` adds `r` (unless present) and keeps everything else -/
theorem mem_insertRoot (env : Env) (r x : Root) (l : List Root) : x ∈ insertRoot env r l ↔ x = r ∨ x ∈ l := by
  induction l with
  | nil => simp [insertRoot]
  | cons y ys ih =>
    simp only [insertRoot]
    split
    · simp
    · split
      · rename_i h
        have hry : r = y := by simpa using h
        subst hry
        constructor
        · exact Or.inr
        · rintro (h | h)
          · rw [h]; exact List.mem_cons_self
          · exact h
      · rw [List.mem_cons, ih, List.mem_cons]
        constructor
        · rintro (h | h | h)
          · exact Or.inr (Or.inl h)
          · exact Or.inl h
          · exact Or.inr (Or.inr h)
        · rintro (h | h | h)
          · exact Or.inr (Or.inl h)
          · exact Or.inl h
          · exact Or.inr (Or.inr h)

theorem nodup_insertRoot (env : Env) (r : Root) (l : List Root) (hr : r ∉ l) (hn : l.Nodup) :
    (insertRoot env r l).Nodup := by
  induction l with
  | nil => simp [insertRoot]
  | cons y ys ih =>
    simp only [insertRoot]
    split
    · exact List.nodup_cons.2 ⟨hr, hn⟩
    · split
      · exact hn
      · obtain ⟨h1, h2⟩ := List.nodup_cons.1 hn
        refine List.nodup_cons.2 ⟨?_, ih (fun h => hr (List.mem_cons_of_mem _ h)) h2⟩
        rw [mem_insertRoot]
        rintro (h | h)
        · exact hr (by rw [h]; exact List.mem_cons_self)
        · exact h1 h

/-- `Store.AddRoot`: the roots of event `id` for the frames `fs` -/
def insertAll (env : Env) (id c : Nat) (fs : List Nat) (roots : List Root) : List Root :=
  fs.foldl (fun rs f => insertRoot env ⟨id, f, c⟩ rs) roots

theorem insert_state (env : Env) (id c : Nat) (fs : List Nat) (s : OState) :
    fs.foldl (fun s f => { s with roots := insertRoot env ⟨id, f, c⟩ s.roots }) s =
      { s with roots := insertAll env id c fs s.roots } := by
  induction fs generalizing s with
  | nil => rfl
  | cons f fs ih => simp only [List.foldl_cons, insertAll, ih]

theorem mem_insertAll (env : Env) (id c : Nat) (fs : List Nat) (roots : List Root) (x : Root) :
    x ∈ insertAll env id c fs roots ↔ x ∈ roots ∨ ∃ f ∈ fs, x = ⟨id, f, c⟩ := by
  induction fs generalizing roots with
  | nil => simp [insertAll]
  | cons f fs ih =>
    have e : insertAll env id c (f :: fs) roots = insertAll env id c fs (insertRoot env ⟨id, f, c⟩ roots) := rfl
    rw [e, ih, mem_insertRoot]
    constructor
    · rintro ((h | h) | ⟨g, hg, h⟩)
      · exact Or.inr ⟨f, List.mem_cons_self, h⟩
      · exact Or.inl h
      · exact Or.inr ⟨g, List.mem_cons_of_mem _ hg, h⟩
    · rintro (h | ⟨g, hg, h⟩)
      · exact Or.inl (Or.inr h)
      · rcases List.mem_cons.1 hg with rfl | hg
        · exact Or.inl (Or.inl h)
        · exact Or.inr ⟨g, hg, h⟩

theorem nodup_insertAll (env : Env) (id c : Nat) (fs : List Nat) (roots : List Root)
    (hfs : fs.Nodup) (hfresh : ∀ f ∈ fs, (⟨id, f, c⟩ : Root) ∉ roots) (hn : roots.Nodup) :
    (insertAll env id c fs roots).Nodup := by
  induction fs generalizing roots with
  | nil => exact hn
  | cons f fs ih =>
    have e : insertAll env id c (f :: fs) roots = insertAll env id c fs (insertRoot env ⟨id, f, c⟩ roots) := rfl
    obtain ⟨h1, h2⟩ := List.nodup_cons.1 hfs
    rw [e]
    apply ih _ h2
    · intro g hg
      rw [mem_insertRoot]
      rintro (h | h)
      · have : g = f := by simpa using congrArg Root.frame h
        subst this; exact h1 hg
      · exact hfresh g (List.mem_cons_of_mem _ hg) h
    · exact nodup_insertRoot env _ _ (hfresh f List.mem_cons_self) hn

theorem mem_frameRoots (s : OState) (g : Nat) (r : Root) : r ∈ frameRoots s g ↔ r ∈ s.roots ∧ r.frame = g := by
  unfold frameRoots
  rw [List.mem_filter]
  simp

/-- the table lists exactly the graph roots of the processed events, once each -/
structure Table (N : Net) (done : List Nat) (roots : List Root) : Prop where
  mem : ∀ r, r ∈ roots ↔ (r.id ∈ done ∧ N.IsRoot r.id r.frame ∧ r.validator = N.creator r.id)
  nodup : roots.Nodup

/-- the processed events are closed under ancestry (parents-first processing) -/
def Closed (N : Net) (done : List Nat) : Prop := ∀ e ∈ done, ∀ x, Anc N.h e x → x ∈ done

theorem rootFrames_nodup (spf frame : Nat) : (rootFrames spf frame).Nodup := by
  unfold rootFrames
  split
  · exact List.Pairwise.filter _ List.nodup_range
  · exact List.Pairwise.nil

/-- `Store.AddRoot` for a new event keeps the table exact -/
theorem table_insert {N : Net} {done : List Nat} {roots : List Root} (T : Table N done roots) (env : Env)
    (id : Nat) (hnew : id ∉ done) (hid : id < N.h.length) (hspf : N.spf id < 2147483648) :
    Table N (id :: done) (insertAll env id (N.creator id) (rootFrames (N.spf id) (N.fr id)) roots) := by
  constructor
  · intro x
    rw [mem_insertAll, T.mem]
    constructor
    · rintro (⟨a, b, c⟩ | ⟨f, hf, rfl⟩)
      · exact ⟨List.mem_cons_of_mem _ a, b, c⟩
      · rw [C04.rootFrames_spec _ _ _ hspf] at hf
        exact ⟨List.mem_cons_self, ⟨hid, hf.1, hf.2⟩, rfl⟩
    · rintro ⟨a, b, c⟩
      rcases List.mem_cons.1 a with h | h
      · refine Or.inr ⟨x.frame, ?_, ?_⟩
        · rw [C04.rootFrames_spec _ _ _ hspf]
          rw [h] at b
          exact ⟨b.2.1, b.2.2⟩
        · cases x
          simp only at h c
          simp only [Root.mk.injEq, true_and]
          exact ⟨h, by rw [c, h]⟩
      · exact Or.inl ⟨h, b, c⟩
  · apply nodup_insertAll _ _ _ _ _ (rootFrames_nodup _ _) _ T.nodup
    intro f _ hm
    exact hnew ((T.mem _).1 hm).1

theorem closed_cons {N : Net} {done : List Nat} (hc : Closed N done) (id : Nat)
    (hpar : ∀ x, Anc N.h id x → x ≠ id → x ∈ done) : Closed N (id :: done) := by
  intro e he x hx
  rcases List.mem_cons.1 he with rfl | he
  · by_cases hxe : x = e
    · rw [hxe]; exact List.mem_cons_self
    · exact List.mem_cons_of_mem _ (hpar x hx hxe)
  · exact List.mem_cons_of_mem _ (hc e he x hx)

/-- the hypotheses of the single-election refinement hold for the table of a processed prefix -/
theorem setup_of_table {N : Net} {vals : Vals} {observe : Nat → Nat → Bool} {done : List Nat} {s : OState}
    (hv : Valid N.nVals N.h) (hfa : N.FramesAccepted) (hbft : N.BFT) (ok : ValsOK vals N.nVals N.w)
    (hobs : ∀ a b, observe a b = true ↔ N.FC a b) (T : Table N done s.roots) (hc : Closed N done)
    (f : Nat) (hf : f < 4294967296) : Setup N vals f observe (frameRoots s) :=
  { vals := ok
    obs := hobs
    roots_sound := by
      intro g r hr
      obtain ⟨h1, h2⟩ := (mem_frameRoots s g r).1 hr
      obtain ⟨_, b, c⟩ := (T.mem r).1 h1
      exact ⟨h2, by rw [← h2]; exact b, c⟩
    roots_seen := by
      intro nr hnr p g hp hfc
      have hd := ((T.mem nr).1 ((mem_frameRoots s _ nr).1 hnr).1).1
      have hpd := hc nr.id hd p (N.FC_anc hfc)
      exact (mem_frameRoots s g _).2 ⟨(T.mem _).2 ⟨hpd, hp, rfl⟩, rfl⟩
    nodup := fun g => List.Pairwise.filter _ T.nodup
    creators := fun e he => (valid_ev hv e he).creator_lt
    slots := N.slotUnique_of_BFT hv hfa hbft
    accepted := hfa
    fbound := hf }

/-- a root of frame `g + 1 ≥ 2` in the table has a root of frame `g` below it in the table -/
theorem frame_below {N : Net} {done : List Nat} {roots : List Root} (hfa : N.FramesAccepted)
    (T : Table N done roots) (hc : Closed N done) (r : Root) (hr : r ∈ roots) (g : Nat) (hg : 1 ≤ g)
    (hrf : r.frame = g + 1) : ∃ p ∈ roots, p.frame = g := by
  obtain ⟨a, b, _⟩ := (T.mem r).1 hr
  rw [hrf] at b
  have hq := N.root_prev_quorum hfa b hg
  have hpos : 0 < N.causedWeight r.id g (fun _ => True) := Nat.lt_of_lt_of_le N.quorum_pos hq
  obtain ⟨u, _, p, hp, hcu, hfc, _⟩ := N.weightOf_pos _ hpos
  exact ⟨⟨p, g, N.creator p⟩, (T.mem _).2 ⟨hc r.id a p (N.FC_anc hfc), hp, rfl⟩, rfl⟩

/-- the frames that have roots in the table are contiguous from 1 -/
theorem frames_contig {N : Net} {done : List Nat} {roots : List Root} (hfa : N.FramesAccepted)
    (T : Table N done roots) (hc : Closed N done) (n : Nat) :
    ∀ (r : Root), r ∈ roots → ∀ j, 1 ≤ j → j + n = r.frame → ∃ p ∈ roots, p.frame = j := by
  induction n with
  | zero => intro r hr j _ hj; exact ⟨r, hr, by omega⟩
  | succ n ih =>
    intro r hr j hj1 hj
    obtain ⟨p, hp, hpf⟩ := frame_below hfa T hc r hr (j + n) (by omega) (by omega)
    exact ih p hp j hj1 (by omega)

/-! ### frames are positive and bounded -/

/-- accepted frames fit the wire format (`idx.Frame` is 32 bits; the model needs `frame + 1` not to wrap) -/
def FrameBound (N : Net) : Prop := ∀ e, e < N.h.length → N.fr e < 2147483648

theorem fr_pos {N : Net} (hv : Valid N.nVals N.h) (hfa : N.FramesAccepted) :
    ∀ e, e < N.h.length → 1 ≤ N.fr e := by
  intro e
  induction e using Nat.strongRecOn with
  | ind e ih =>
    intro he
    have ha := hfa e he
    unfold Net.Allowed at ha
    by_cases hs : (N.h.ev e).seq ≤ 1
    · rw [if_pos hs] at ha; omega
    · rw [if_neg hs] at ha
      obtain ⟨sp, ps, hp, _, _⟩ := (valid_ev hv e he).self (by omega)
      have h1 := N.spf_eq (by omega) hp
      have hsp : sp < e := (valid_ev hv e he).parents_lt sp (by rw [hp]; exact List.mem_cons_self)
      have := ih sp hsp (by omega)
      omega

/-- the self-parent's frame is 0 exactly for events without self-parent, and it is some event's frame otherwise -/
theorem spf_cases {N : Net} (hv : Valid N.nVals N.h) (hfa : N.FramesAccepted) {e : Nat} (he : e < N.h.length) :
    ((N.h.ev e).seq ≤ 1 ∧ N.spf e = 0) ∨
    (1 < (N.h.ev e).seq ∧ ∃ sp, sp < e ∧ N.spf e = N.fr sp ∧ 1 ≤ N.spf e) := by
  by_cases hs : (N.h.ev e).seq ≤ 1
  · exact Or.inl ⟨hs, by unfold Net.spf; rw [if_pos hs]⟩
  · obtain ⟨sp, ps, hp, _, _⟩ := (valid_ev hv e he).self (by omega)
    have h1 := N.spf_eq (by omega) hp
    have hsp : sp < e := (valid_ev hv e he).parents_lt sp (by rw [hp]; exact List.mem_cons_self)
    have := fr_pos hv hfa sp (by omega)
    exact Or.inr ⟨by omega, sp, hsp, h1, by omega⟩

theorem spf_lt {N : Net} (hv : Valid N.nVals N.h) (hfa : N.FramesAccepted) (hb : FrameBound N) {e : Nat}
    (he : e < N.h.length) : N.spf e < 2147483648 := by
  rcases spf_cases hv hfa he with ⟨_, h⟩ | ⟨_, sp, hsp, h, _⟩
  · omega
  · rw [h]; exact hb sp (by omega)

/-! ### the frame check of `process` -/

theorem fold_count {N : Net} {vals : Vals} (ok : ValsOK vals N.nVals N.w) (obs : Root → Bool) (L : List Root)
    (hL : ∀ r ∈ L, r.validator < N.nVals) :
    ∀ (c : Counter) (S : Nat → Prop), CSet vals N.nVals c S →
      CSet vals N.nVals (L.foldl (fun c r => if obs r then (count vals c r.validator).1 else c) c)
        (fun i => S i ∨ ∃ r ∈ L, obs r = true ∧ r.validator = i) := by
  induction L with
  | nil =>
    intro c S h
    exact h.congr (fun i _ => ⟨Or.inl, fun h => h.elim id (fun ⟨r, hr, _⟩ => by cases hr)⟩)
  | cons r rest ih =>
    intro c S h
    rw [List.foldl_cons]
    by_cases ho : obs r = true
    · rw [if_pos ho]
      have h1 := (count_spec ok h (hL r List.mem_cons_self)).1
      refine (ih (fun x hx => hL x (List.mem_cons_of_mem _ hx)) _ _ h1).congr (fun i _ => ?_)
      constructor
      · rintro ((h | h) | ⟨x, hx, h⟩)
        · exact Or.inl h
        · exact Or.inr ⟨r, List.mem_cons_self, ho, h.symm⟩
        · exact Or.inr ⟨x, List.mem_cons_of_mem _ hx, h⟩
      · rintro (h | ⟨x, hx, h1, h2⟩)
        · exact Or.inl (Or.inl h)
        · rcases List.mem_cons.1 hx with rfl | hx
          · exact Or.inl (Or.inr h2.symm)
          · exact Or.inr ⟨x, hx, h1, h2⟩
    · rw [if_neg ho]
      refine (ih (fun x hx => hL x (List.mem_cons_of_mem _ hx)) _ _ h).congr (fun i _ => ?_)
      constructor
      · rintro (h | ⟨x, hx, h⟩)
        · exact Or.inl h
        · exact Or.inr ⟨x, List.mem_cons_of_mem _ hx, h⟩
      · rintro (h | ⟨x, hx, h1, h2⟩)
        · exact Or.inl h
        · rcases List.mem_cons.1 hx with rfl | hx
          · exact absurd h1 ho
          · exact Or.inr ⟨x, hx, h1, h2⟩

/-- before event `e` is stored, `forklessCausedByQuorumOn(e, g)` is the quorum test of the frame rule -/
theorem quorumOn_iff {N : Net} {done : List Nat} {s : OState} (env : Env) (hv : Valid N.nVals N.h)
    (ok : ValsOK s.vals N.nVals N.w) (hobs : ∀ a b, env.observe a b = true ↔ N.FC a b)
    (T : Table N done s.roots) (e : Nat) (hnew : e ∉ done) (hpar : ∀ x, Anc N.h e x → x ≠ e → x ∈ done)
    (g : Nat) : quorumOn env s e g = true ↔ N.quorum ≤ N.causedWeight e g (fun r => r ≠ e) := by
  have hL : ∀ r ∈ frameRoots s g, r.validator < N.nVals := by
    intro r hr
    obtain ⟨_, b, c⟩ := (T.mem r).1 ((mem_frameRoots s g r).1 hr).1
    rw [c]; exact (valid_ev hv _ b.1).creator_lt
  have hc : CSet s.vals N.nVals
      ((frameRoots s g).foldl (fun c r => if env.observe e r.id then (count s.vals c r.validator).1 else c)
        s.vals.newCounter)
      (fun i => False ∨ ∃ r ∈ frameRoots s g, env.observe e r.id = true ∧ r.validator = i) :=
    fold_count ok (fun r => env.observe e r.id) (frameRoots s g) hL _ _ (CSet.new s.vals N.nVals)
  have e0 : quorumOn env s e g = hasQuorum s.vals ((frameRoots s g).foldl
      (fun c r => if env.observe e r.id then (count s.vals c r.validator).1 else c) s.vals.newCounter) := rfl
  rw [e0, hasQuorum_iff ok, hc.sum ok]
  have e1 : wsum N.w (List.range N.nVals)
      (fun i => False ∨ ∃ r ∈ frameRoots s g, env.observe e r.id = true ∧ r.validator = i) =
      N.causedWeight e g (fun r => r ≠ e) := by
    apply N.weightOf_congr
    intro i _
    constructor
    · rintro (h | ⟨r, hr, ho, hi⟩)
      · exact absurd h not_false
      · obtain ⟨h1, h2⟩ := (mem_frameRoots s g r).1 hr
        obtain ⟨a, b, c⟩ := (T.mem r).1 h1
        refine ⟨r.id, by rw [← h2]; exact b, by rw [← c]; exact hi, (hobs _ _).1 ho, ?_⟩
        intro h; rw [h] at a; exact hnew a
    · rintro ⟨p, hp, hcp, hfc, hne⟩
      refine Or.inr ⟨⟨p, g, N.creator p⟩, ?_, (hobs _ _).2 hfc, hcp⟩
      exact (mem_frameRoots s g _).2 ⟨(T.mem _).2 ⟨hpar p (N.FC_anc hfc) hne, hp, rfl⟩, rfl⟩
  rw [e1]

/-- the frame check of `process` passes for an event whose frame obeys the frame rule -/
theorem frameAccepted_of_allowed {N : Net} {done : List Nat} {s : OState} (env : Env) (hv : Valid N.nVals N.h)
    (hfa : N.FramesAccepted) (ok : ValsOK s.vals N.nVals N.w) (hobs : ∀ a b, env.observe a b = true ↔ N.FC a b)
    (T : Table N done s.roots) (e : Nat) (he : e < N.h.length) (hnew : e ∉ done)
    (hpar : ∀ x, Anc N.h e x → x ≠ e → x ∈ done) :
    frameAccepted (quorumOn env s e) (N.spf e) (N.fr e) = true := by
  have hQ : ∀ g, quorumOn env s e g = true ↔ N.quorum ≤ N.causedWeight e g (fun r => r ≠ e) :=
    quorumOn_iff env hv ok hobs T e hnew hpar
  have hQ0 : quorumOn env s e 0 = false := by
    cases h : quorumOn env s e 0 with
    | false => rfl
    | true =>
      exfalso
      have h1 := (hQ 0).1 h
      have h0 := N.causedWeight_zero e 0 (fun r => r ≠ e) (fun r hr _ => by have := hr.2.1; omega)
      have := N.quorum_pos
      omega
  rw [C04.C04_process_accepts_iff _ _ _ hQ0]
  have ha := hfa e he
  unfold Net.Allowed at ha
  unfold C04.Allowed
  rcases spf_cases hv hfa he with ⟨h1, h2⟩ | ⟨h1, sp, _, _, h3⟩
  · rw [if_pos h1] at ha
    rw [if_pos h2]; exact ha
  · rw [if_neg (by omega)] at ha
    rw [if_neg (by omega)]
    exact ⟨ha.1, fun g hg1 hg2 => (hQ g).2 (ha.2 g hg1 hg2)⟩

end OrdererProofs
