import LachesisVerif.Proofs.RefEquivE
/-!
# Reference equivalence, part F: forkless cause (C05) and the election net
-/
namespace RefEquiv
open Spec.Lachesis VecProofs Model.Vec

section fc
variable {s : Inst}

/-- the "between" test of `fcSpec`: validator `v` has an event between `b` and `a` -/
theorem between_iff (hg : Good s) {a b v : Nat} (ha : a < s.size) (hbb : b < s.size)
    (hv : v < s.nv) :
    ((s.ancOf a &&& s.descOf b &&& s.byCreator.getD v 0) != 0) = true ↔
      ∃ e, ((histOf s).ev e).creator = v ∧ Anc (histOf s) e b ∧ Anc (histOf s) a e := by
  rw [ne_zero_iff_bit]
  constructor
  · rintro ⟨x, hx⟩
    rw [bit_and, bit_and, Bool.and_eq_true, Bool.and_eq_true, hg.inv.anc a x ha, hg.inv.desc b x hbb,
      hg.inv.byC v x hv] at hx
    obtain ⟨⟨h1, h2⟩, hlt, hc⟩ := hx
    exact ⟨x, by rw [creator_histOf s hlt]; exact hc, h2, h1⟩
  · rintro ⟨x, hc, h2, h1⟩
    have hlt := anc_size_lt hg.inv h1
    rw [creator_histOf s hlt] at hc
    refine ⟨x, ?_⟩
    rw [bit_and, bit_and, Bool.and_eq_true, Bool.and_eq_true, hg.inv.anc a x ha, hg.inv.desc b x hbb,
      hg.inv.byC v x hv]
    exact ⟨⟨h1, h2⟩, hlt, hc⟩

/-- C05: the reference's forkless cause is the graph definition `FCSpec` -/
theorem Good.fcSpec_iff_FCSpec (hg : Good s) {a b : Nat} (ha : a < s.size) (hbb : b < s.size) :
    s.fcSpec a b = true ↔ FCSpec (histOf s) s.nv s.weightIdx s.quorum a b := by
  unfold Inst.fcSpec FCSpec
  simp only []
  rw [creator_histOf s hbb, ← hg.finv a (s.creatorIdx b) ha]
  have hfilt : ∀ (inst : ∀ v, Decidable (¬ ForkSeen (histOf s) a v ∧
        ∃ e, ((histOf s).ev e).creator = v ∧ Anc (histOf s) e b ∧ Anc (histOf s) a e)),
      (List.range s.nv).filter (fun v => @decide _ (inst v)) =
      (List.range s.nv).filter (fun v =>
        !bit (s.forksOf a) v && (s.ancOf a &&& s.descOf b &&& s.byCreator.getD v 0) != 0) := by
    intro inst
    apply List.filter_congr
    intro v hv
    rw [Bool.eq_iff_iff, Bool.and_eq_true, Bool.not_eq_true', @decide_eq_true_iff _ (inst v),
      between_iff hg ha hbb (List.mem_range.1 hv), ← hg.finv a v ha]
    constructor
    · rintro ⟨h1, h2⟩; exact ⟨by simpa using h1, h2⟩
    · rintro ⟨h1, h2⟩; exact ⟨by rw [h1]; exact Bool.false_ne_true, h2⟩
  rw [hfilt, foldl_add_eq_sum, Nat.zero_add]
  by_cases hf : bit (s.forksOf a) (s.creatorIdx b) = true
  · rw [if_pos hf]
    exact ⟨fun h => (by cases h), fun h => absurd hf h.1⟩
  · rw [if_neg hf, decide_eq_true_iff]
    exact ⟨fun h => ⟨hf, h⟩, fun h => h.2⟩

/-- C05 for built instances -/
theorem fcSpec_iff_FCSpec {ep : Nat} {vals : List (Nat × Nat)} {evs : List Ev}
    (hb : Built ep vals evs s) {a b : Nat} (ha : a < s.size) (hbb : b < s.size) :
    s.fcSpec a b = true ↔ FCSpec (histOf s) s.nv s.weightIdx s.quorum a b :=
  hb.good.fcSpec_iff_FCSpec ha hbb

end fc

/-! ### the election net of an instance -/

/-- the Prop-level net (`ElectionRules.Net`) of a reference instance: its history, validators,
    weights by canonical index, and the stored (accepted) frames -/
def netOf (s : Inst) : ElectionRules.Net :=
  { h := histOf s, nVals := s.nv, w := s.weightIdx, fr := fun i => (s.ev i).frame }

theorem map_weightIdx (s : Inst) : (List.range s.nv).map s.weightIdx = s.vals.map (·.2) := by
  apply List.ext_getElem
  · rw [List.length_map, List.length_map, List.length_range]; rfl
  · intro i h1 h2
    rw [List.getElem_map, List.getElem_map, List.getElem_range]
    have hi : i < s.vals.length := by rw [List.length_map] at h2; exact h2
    unfold Inst.weightIdx
    rw [List.getD_eq_getElem?_getD, List.getElem?_eq_getElem hi]
    rfl

theorem total_netOf (s : Inst) : (netOf s).total = s.total := by
  unfold ElectionRules.Net.total ElectionRules.Net.weightOf Inst.total
  rw [foldl_add_eq_sum', Nat.zero_add, ← map_weightIdx]
  congr 2
  apply List.filter_eq_self.2
  intro v _
  exact @decide_eq_true _ (Classical.propDecidable _) trivial

theorem quorum_netOf (s : Inst) : (netOf s).quorum = s.quorum := by
  unfold ElectionRules.Net.quorum Inst.quorum
  rw [total_netOf]

/-- C05 in the form used by the election rules: the reference's forkless cause is `Net.FC` -/
theorem Good.fcSpec_iff_FC {s : Inst} (hg : Good s) {a b : Nat} (ha : a < s.size) (hbb : b < s.size) :
    s.fcSpec a b = true ↔ (netOf s).FC a b := by
  rw [ElectionRules.Net.FC_eq_FCSpec, quorum_netOf, hg.fcSpec_iff_FCSpec ha hbb]
  exact Iff.rfl

theorem fcSpec_iff_FC {ep : Nat} {vals : List (Nat × Nat)} {evs : List Ev} {s : Inst}
    (hb : Built ep vals evs s) {a b : Nat} (ha : a < s.size) (hbb : b < s.size) :
    s.fcSpec a b = true ↔ (netOf s).FC a b := hb.good.fcSpec_iff_FC ha hbb

/-! ### non-vacuity: a concrete built instance

`Array.findIdx?` (inside `posOf`) does not reduce in the kernel, so the example is evaluated through
`insertL`, a copy of `insert` that looks parents up with `List.findIdx?`, and `insert_eq_insertL`. -/

def posOfL (s : Inst) (n : Nat) : Option Nat := s.evs.toList.findIdx? (fun e => e.n == n)

theorem posOf_eq_posOfL (s : Inst) : s.posOf = posOfL s := by
  funext n
  unfold Inst.posOf posOfL
  rcases s.evs with ⟨l⟩
  exact List.findIdx?_toArray _ l

/-- `Inst.insert` with `posOfL` for `posOf` -/
def insertL (s : Inst) (e : Ev) : Option Inst :=
  let i := s.size
  let ps := e.parents.map (posOfL s)
  if ps.any (·.isNone) then none else
  match s.idxOf e.creator with
  | none => none
  | some cv =>
    let pidx := ps.filterMap id
    let am := pidx.foldl (fun m p => m ||| s.ancOf p) (1 <<< i)
    let byC := if cv < s.byCreator.size then s.byCreator.modify cv (· ||| (1 <<< i))
               else s.byCreator
    let s1 : Inst := { s with evs := s.evs.push e, anc := s.anc.push am, byCreator := byC,
                              desc := (s.desc.mapIdx (fun j d => if bit am j then d ||| (1 <<< i) else d)).push (1 <<< i),
                              forks := s.forks.push 0 }
    let fk := (List.range s1.nv).foldl (fun m v => if s1.forkIn am v then m ||| (1 <<< v) else m) 0
    some { s1 with forks := s1.forks.set! i fk }

theorem insert_eq_insertL : Inst.insert = insertL := by
  funext s e
  unfold Inst.insert insertL
  rw [posOf_eq_posOfL]
  rfl

/-- two validators (ids 7 and 9, weights 1 and 2) -/
def exVals : List (Nat × Nat) := [(7, 1), (9, 2)]
/-- three events: one per validator, then a second event of validator 7 observing both -/
def exEvs : List Ev :=
  [ { n := 10, epoch := 1, creator := 7, seq := 1, lamport := 1, frame := 1, parents := [] },
    { n := 11, epoch := 1, creator := 9, seq := 1, lamport := 1, frame := 1, parents := [] },
    { n := 12, epoch := 1, creator := 7, seq := 2, lamport := 2, frame := 1, parents := [10, 11] } ]
def exInst : Inst := (exEvs.foldlM insertL (start 1 exVals)).getD default

theorem exBuilt : Built 1 exVals exEvs exInst := by
  unfold Built
  show exEvs.foldlM Inst.insert (start 1 exVals) = some exInst
  rw [insert_eq_insertL]
  have h : (exEvs.foldlM insertL (start 1 exVals)).isSome = true := by decide
  obtain ⟨s, hs⟩ := Option.isSome_iff_exists.1 h
  unfold exInst
  rw [hs]
  rfl

/-- the built instance is non-trivial: 3 events, 2 validators, quorum 3, event 2 sees events 0 and 1,
    forklessly causes event 1 (weight 1 + 2 ≥ 3 between them) -/
example : exInst.size = 3 ∧ exInst.nv = 2 ∧ exInst.quorum = 3 ∧ exInst.ancOf 2 = 7 ∧
    exInst.fcSpec 2 1 = true ∧ exInst.fcSpec 1 0 = false ∧ exInst.hbSpec 2 0 = some 2 := by decide

/-- hence, by `fcSpec_iff_FC`, the Prop-level forkless cause holds on its net -/
example : (netOf exInst).FC 2 1 :=
  (fcSpec_iff_FC exBuilt (by decide) (by decide)).1 (by decide)

end RefEquiv
