import LachesisVerif.Proofs.RefEquivB
/-!
# Reference equivalence, part C: the masks after an insert, the invariant `Inv`

Read-after-write lemmas for `ancOf`, `descOf`, `byCreator`, `forksOf` after `insert`, and the
invariant `Inv s` (array sizes, resolvable parents and creators, parents-first history, and the
meaning of the `anc`, `desc`, `byCreator` masks), with its preservation by `insert`.
-/
namespace RefEquiv
open Spec.Lachesis VecProofs Model.Vec

section raw
variable {s s' : Inst} {e : Ev}

theorem ancOf_insert_old (h : s.insert e = some s') {a : Nat} (ha : a < s.anc.size) :
    s'.ancOf a = s.ancOf a := by
  obtain ⟨cv, _, _, _, _, hanc, _⟩ := insert_some h
  unfold Inst.ancOf
  rw [hanc, Array.getD_eq_getD_getElem?, Array.getD_eq_getD_getElem?, Array.getElem?_push_lt ha,
    Array.getElem?_eq_getElem ha]

theorem ancOf_insert_new (h : s.insert e = some s') : s'.ancOf s.anc.size = insAm s e := by
  obtain ⟨cv, _, _, _, _, hanc, _⟩ := insert_some h
  unfold Inst.ancOf
  rw [hanc, Array.getD_eq_getD_getElem?, Array.getElem?_push_size]
  rfl

theorem descOf_insert_old (h : s.insert e = some s') {b : Nat} (hb : b < s.desc.size) :
    s'.descOf b = if bit (insAm s e) b then s.descOf b ||| (1 <<< s.size) else s.descOf b := by
  obtain ⟨cv, _, _, _, _, _, hdesc, _⟩ := insert_some h
  unfold Inst.descOf
  rw [hdesc, Array.getD_eq_getD_getElem?, Array.getD_eq_getD_getElem?, Array.getElem?_push,
    if_neg (by rw [Array.size_mapIdx]; omega), Array.getElem?_mapIdx, Array.getElem?_eq_getElem hb]
  rfl

theorem descOf_insert_new (h : s.insert e = some s') : s'.descOf s.desc.size = 1 <<< s.size := by
  obtain ⟨cv, _, _, _, _, _, hdesc, _⟩ := insert_some h
  unfold Inst.descOf
  rw [hdesc, Array.getD_eq_getD_getElem?, Array.getElem?_push, if_pos (by rw [Array.size_mapIdx])]
  rfl

theorem byCreator_insert (h : s.insert e = some s') {cv : Nat} (hcv : s.idxOf e.creator = some cv)
    (hsz : s.byCreator.size = s.nv) (v : Nat) :
    s'.byCreator.getD v 0 =
      if cv = v then s.byCreator.getD v 0 ||| (1 <<< s.size) else s.byCreator.getD v 0 := by
  obtain ⟨cv', hcv', _, _, _, _, _, hby, _⟩ := insert_some h
  rw [hcv] at hcv'
  injection hcv' with hcv'
  subst hcv'
  have hlt : cv < s.byCreator.size := by rw [hsz]; exact idxOf_lt hcv
  rw [hby, if_pos hlt, Array.getD_eq_getD_getElem?, Array.getD_eq_getD_getElem?, Array.getElem?_modify]
  by_cases hv : cv = v
  · subst hv
    rw [if_pos rfl, if_pos rfl, Array.getElem?_eq_getElem hlt]
    rfl
  · rw [if_neg hv, if_neg hv]

theorem byCreator_size_insert (h : s.insert e = some s') : s'.byCreator.size = s.byCreator.size := by
  obtain ⟨cv', _, _, _, _, _, _, hby, _⟩ := insert_some h
  rw [hby]
  split
  · exact Array.size_modify
  · rfl

theorem forksOf_insert_old (h : s.insert e = some s') {a : Nat} (ha : a < s.forks.size)
    (hsz : s.forks.size = s.size) : s'.forksOf a = s.forksOf a := by
  obtain ⟨cv, _, _, _, _, _, _, _, s1, _, _, hf⟩ := insert_some h
  unfold Inst.forksOf
  rw [hf, Array.set!_eq_setIfInBounds, Array.getD_eq_getD_getElem?, Array.getD_eq_getD_getElem?,
    Array.getElem?_setIfInBounds, if_neg (by omega), Array.getElem?_push_lt ha,
    Array.getElem?_eq_getElem ha]

/-- the stored fork mask of the new event is a fold of `forkIn` of the new instance -/
theorem forksOf_insert_new (h : s.insert e = some s') (hsz : s.forks.size = s.size) :
    s'.forksOf s.size =
      (List.range s.nv).foldl (fun m v => if s'.forkIn (insAm s e) v then m ||| (1 <<< v) else m) 0 := by
  obtain ⟨cv, _, _, _, _, _, _, _, s1, h1, h2, hf⟩ := insert_some h
  have hfk : ∀ v, s1.forkIn (insAm s e) v = s'.forkIn (insAm s e) v := by
    intro v
    unfold Inst.forkIn Inst.size Inst.ev
    rw [h1, h2]
  unfold Inst.forksOf
  rw [hf, Array.set!_eq_setIfInBounds, Array.getD_eq_getD_getElem?, Array.getElem?_setIfInBounds,
    if_pos rfl, if_pos (by rw [Array.size_push]; omega)]
  simp only [hfk]
  rfl

theorem sizes_insert (h : s.insert e = some s') :
    s'.anc.size = s.anc.size + 1 ∧ s'.desc.size = s.desc.size + 1 ∧ s'.forks.size = s.forks.size + 1 := by
  obtain ⟨cv, _, _, _, _, hanc, hdesc, _, s1, _, _, hf⟩ := insert_some h
  rw [hanc, hdesc, hf]
  simp

end raw

/-! ### the invariant -/

/-- what every instance built by `insert` satisfies (fork masks: `FInv`, part D) -/
structure Inv (s : Inst) : Prop where
  anc_size : s.anc.size = s.size
  desc_size : s.desc.size = s.size
  forks_size : s.forks.size = s.size
  byC_size : s.byCreator.size = s.nv
  pok : ParentsOK s
  cre : ∀ i, i < s.size → ∃ cv, s.idxOf (s.ev i).creator = some cv
  pf : PF (histOf s)
  anc : ∀ a x, a < s.size → (bit (s.ancOf a) x = true ↔ Anc (histOf s) a x)
  desc : ∀ b x, b < s.size → (bit (s.descOf b) x = true ↔ Anc (histOf s) x b)
  byC : ∀ v i, v < s.nv → (bit (s.byCreator.getD v 0) i = true ↔ i < s.size ∧ s.creatorIdx i = v)

/-- bits of the ancestry mask computed for the inserted event -/
theorem bit_insAm {s : Inst} (hi : Inv s) (e : Ev) (x : Nat) :
    bit (insAm s e) x = true ↔ x = s.size ∨ ∃ p, p ∈ parentPos s e ∧ Anc (histOf s) p x := by
  unfold insAm
  rw [bit_foldl_or, Bool.or_eq_true, bit_one_shl, decide_eq_true_eq, List.any_eq_true]
  constructor
  · rintro (h | ⟨p, hp, hb⟩)
    · exact Or.inl h.symm
    · have hlt : p < s.size := by
        obtain ⟨n, _, hn⟩ := mem_parentPos.1 hp
        exact posOf_lt hn
      exact Or.inr ⟨p, hp, (hi.anc p x hlt).1 hb⟩
  · rintro (h | ⟨p, hp, hb⟩)
    · exact Or.inl h.symm
    · have hlt : p < s.size := by
        obtain ⟨n, _, hn⟩ := mem_parentPos.1 hp
        exact posOf_lt hn
      exact Or.inr ⟨p, hp, (hi.anc p x hlt).2 hb⟩

/-- ancestry of the inserted event, in the extended history -/
theorem bit_insAm_anc {s : Inst} (hi : Inv s) (e : Ev) (x : Nat) :
    bit (insAm s e) x = true ↔ Anc (histOf s ++ [newEv s e]) s.size x := by
  have h := anc_snoc_new' hi.pf (newEv_parents_lt s e) (b := x)
  rw [length_histOf] at h
  rw [bit_insAm hi, h]
  rfl

end RefEquiv
