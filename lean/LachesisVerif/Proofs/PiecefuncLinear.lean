/-!
Arithmetic core of C31's near-linearity clause (pure number facts, no model involved).

With `U = 10^6`, `r = ⌊a·U/D⌋` and `g = ⌊y0·(U-r)/U⌋ + ⌊y1·r/U⌋`, the value `g` is within
`|y1-y0|/U + 2` of the exact interpolation `L = (y0·(D-a) + y1·a)/D`; stated division-free after
multiplying by `D·U`.
-/
namespace Proofs.PiecefuncLinear

/-- witnesses version: everything is given by equations, no division, no truncated subtraction -/
theorem core (y0 y1 dl a b D r e t q0 q1 m0 m1 U : Nat)
    (hdl : y0 ≤ y1 ∧ y0 + dl = y1 ∨ y1 ≤ y0 ∧ y1 + dl = y0)
    (hb : b + a = D) (he : e + r = U) (ht : a * U = r * D + t) (htD : t < D)
    (h0 : y0 * e = q0 * U + m0) (hm0 : m0 < U) (h1 : y1 * r = q1 * U + m1) (hm1 : m1 < U) :
    (q0 + q1) * D * U ≤ (y0 * b + y1 * a) * U + (dl + 2 * U) * D ∧
    (y0 * b + y1 * a) * U ≤ (q0 + q1) * D * U + (dl + 2 * U) * D := by
  -- S·D with S = y0·e + y1·r
  have hS : (q0 + q1) * D * U + (m0 + m1) * D = (y0 * e + y1 * r) * D := by
    rw [h0, h1]; grind
  have hmD : (m0 + m1) * D ≤ 2 * U * D := Nat.mul_le_mul_right _ (by omega)
  -- b·U + t = D·e
  have hbU : b * U + t = D * e := by
    have h2 : (b + a) * U = D * (e + r) := by rw [hb, he]
    have h3 : (b + a) * U = b * U + a * U := by grind
    have h4 : D * (e + r) = D * e + r * D := by grind
    omega
  have hdt : dl * t ≤ dl * D := Nat.mul_le_mul_left _ (Nat.le_of_lt htD)
  -- L·U·D expressed through S·D and (y1 - y0)·t
  have hL : (y0 * b + y1 * a) * U + y0 * t = (y0 * e + y1 * r) * D + y1 * t := by
    have e1 : (y0 * b + y1 * a) * U + y0 * t = y0 * (b * U + t) + y1 * (a * U) := by grind
    rw [e1, hbU, ht]; grind
  rcases hdl with ⟨_, hd⟩ | ⟨_, hd⟩
  · have e2 : y1 * t = y0 * t + dl * t := by rw [← hd]; grind
    have e3 : (dl + 2 * U) * D = dl * D + 2 * U * D := by grind
    omega
  · have e2 : y0 * t = y1 * t + dl * t := by rw [← hd]; grind
    have e3 : (dl + 2 * U) * D = dl * D + 2 * U * D := by grind
    omega

/-- the form used by `C31.near_linear`: floor divisions and `max - min` for `|y1 - y0|` -/
theorem near_linear_nat (y0 y1 a D r g U : Nat) (hU : 0 < U) (hD : 0 < D) (haD : a ≤ D)
    (hr : r = a * U / D) (hrU : r ≤ U) (hg : g = y0 * (U - r) / U + y1 * r / U) :
    g * D * U ≤ (y0 * (D - a) + y1 * a) * U + ((max y0 y1 - min y0 y1) + 2 * U) * D ∧
    (y0 * (D - a) + y1 * a) * U ≤ g * D * U + ((max y0 y1 - min y0 y1) + 2 * U) * D := by
  subst hg
  have ht : a * U = r * D + a * U % D := by
    rw [hr, Nat.mul_comm (a * U / D) D]; exact (Nat.div_add_mod _ _).symm
  have h0 : y0 * (U - r) = y0 * (U - r) / U * U + y0 * (U - r) % U := by
    rw [Nat.mul_comm (y0 * (U - r) / U) U]; exact (Nat.div_add_mod _ _).symm
  have h1 : y1 * r = y1 * r / U * U + y1 * r % U := by
    rw [Nat.mul_comm (y1 * r / U) U]; exact (Nat.div_add_mod _ _).symm
  exact core y0 y1 (max y0 y1 - min y0 y1) a (D - a) D r (U - r) (a * U % D)
    (y0 * (U - r) / U) (y1 * r / U) (y0 * (U - r) % U) (y1 * r % U) U
    (by omega) (by omega) (by omega) ht (Nat.mod_lt _ hD) h0 (Nat.mod_lt _ hU) h1 (Nat.mod_lt _ hU)

end Proofs.PiecefuncLinear
