import LachesisVerif.Proofs.ComposeEpochs
/-!
Composition, part 6: order independence of the combined model `Model.Indexed` per epoch with a sealing
application (`indexed_epoch_agree`) and for a sequence of epochs (`indexed_epochs_agree`). Per epoch:
L5 for the Orderer model with the graph oracle and the never-sealing application (`L5_run`,
`blocks_unique`), transferred to each combined instance — Orderer over ITS OWN index, application that
seals — by `Compose.epoch_sim`. After a seal both instances are exactly `Model.Indexed.initial (ep+1) nv`
(index reset for the new validators), so the run decomposes into per-epoch runs from `initial`.
-/
namespace Compose
open Model.Pos Model.Election Model.Orderer Model.Vec Model.Indexed VecProofs ElectionRules ElectionRefine
open OrdererProofs OrdererEpochs

theorem ctx_unsealed {N : Net} {vals : Vals} (G : GOK N vals) (app : App) : Ctx N vals (envFC N (unsealed app)) :=
  ctx_envFC G (unsealed app) (fun _ _ => rfl)

theorem specBlock_cheaters (N : Net) (l : List Decided) :
    ∀ b ∈ l.map (specBlock N), b.cheaters = specCheaters N b.d.atropos := by
  intro b hb
  obtain ⟨d, _, rfl⟩ := List.mem_map.1 hb
  rfl

/-- **One epoch of the combined model, application may seal.** Two instances start the epoch in
    `Model.Indexed.initial ep vals` (empty index), receive all events of the epoch's history `N`, each
    in its own parents-first order, each answering forkless-cause queries from its own index; the
    applications seal at the same frames of this epoch with the same sets. Both accept every event
    they are given and emit the same blocks `bs` (epoch, frame, Atropos, sealed flag, cheater list =
    C03's sentence); either both seal at the same frame, skip the rest of their lists and are then
    *exactly* `initial (ep+1) nv`, or neither does and they end in the same epoch, validators and
    last decided frame. -/
theorem indexed_epoch_agree {N : Net} {vals : Vals} {app₁ app₂ : App} (G : GOK N vals) (ep : Nat)
    (hsa : ∀ f, app₁.sealAt ep f = app₂.sealAt ep f) (ids₁ ids₂ : List Nat)
    (pf₁ : PFFrom N [] ids₁) (pf₂ : PFFrom N [] ids₂)
    (hall₁ : ∀ e, e < N.h.length → e ∈ ids₁) (hall₂ : ∀ e, e < N.h.length → e ∈ ids₂) :
    ∃ t₁ t₂ bs sk₁ sk₂, runEpochIx N app₁ ids₁ (Model.Indexed.initial ep vals) [] = some (t₁, bs, sk₁) ∧
      runEpochIx N app₂ ids₂ (Model.Indexed.initial ep vals) [] = some (t₂, bs, sk₂) ∧
      (∀ b ∈ bs, b.cheaters = specCheaters N b.d.atropos) ∧
      ((bs.any (·.d.sealed) = true ∧ ∃ nv, (∃ F, app₁.sealAt ep F = some nv) ∧
          t₁ = Model.Indexed.initial (Gen.Orderer.sealedEpoch ep) nv ∧
          t₂ = Model.Indexed.initial (Gen.Orderer.sealedEpoch ep) nv) ∨
       (bs.any (·.d.sealed) = false ∧ sk₁ = [] ∧ sk₂ = [] ∧ t₁.o.epoch = ep ∧ t₂.o.epoch = ep ∧
          t₁.o.vals = vals ∧ t₂.o.vals = vals ∧ t₁.o.ldf = t₂.o.ldf)) := by
  have C₁ := ctx_unsealed G app₁
  have C₂ := ctx_unsealed G app₂
  obtain ⟨s₁', ds₁, h₁, I₁, O₁⟩ := L5_run C₁ ep ids₁ pf₁
  obtain ⟨s₂', ds₂, h₂, I₂, O₂⟩ := L5_run C₂ ep ids₂ pf₂
  have hb := blocks_unique C₁ C₂ I₁ O₁ I₂ O₂ (fun e he => List.mem_reverse.2 (hall₁ e he))
    (fun e he => List.mem_reverse.2 (hall₂ e he))
  obtain ⟨en₁, he₁⟩ := runIds_noSeal_entries N (envFC N app₁) ep ids₁ _ _ _ _ rfl (by intro d hd; cases hd) h₁
  obtain ⟨en₂, he₂⟩ := runIds_noSeal_entries N (envFC N app₂) ep ids₂ _ _ _ _ rfl (by intro d hd; cases hd) h₂
  have hds : ds₁ = ds₂ := decided_ext ep ds₁ ds₂ en₁ en₂ hb
  subst hds
  have hcc : cut app₂.sealAt ep ds₁ = cut app₁.sealAt ep ds₁ := cut_congr _ _ ep (fun f => (hsa f).symm) ds₁
  obtain ⟨m₁, hm₁, case₁⟩ := epoch_sim app₁ G ep ids₁ (Model.Indexed.initial ep vals) [] [] [] s₁' ds₁
    (cInv_initial G.ok ep) rfl (fun _ => Iff.rfl) pf₁ h₁
  obtain ⟨m₂, hm₂, case₂⟩ := epoch_sim app₂ G ep ids₂ (Model.Indexed.initial ep vals) [] [] [] s₂' ds₁
    (cInv_initial G.ok ep) rfl (fun _ => Iff.rfl) pf₂ h₂
  rw [List.nil_append] at hm₁ hm₂
  subst hm₁
  subst hm₂
  simp only [List.nil_append] at case₁ case₂
  rcases case₁ with ⟨c1, t₁, r1, e1⟩ | ⟨l1, nv1, sk1, c1, r1⟩
  · rcases case₂ with ⟨c2, t₂, r2, e2⟩ | ⟨l2, nv2, sk2, c2, r2⟩
    · refine ⟨t₁, t₂, _, [], [], r1, r2, specBlock_cheaters N _, Or.inr ⟨?_, rfl, rfl, ?_, ?_, ?_, ?_, ?_⟩⟩
      · rw [any_sealed_specBlock, List.any_eq_false]; intro d hd; rw [(en₁ d hd).1]; decide
      · rw [e1]; exact he₁
      · rw [e2]; exact he₂
      · rw [e1]; exact I₁.vals_eq
      · rw [e2]; exact I₂.vals_eq
      · rw [e1, e2, I₁.ldf, I₂.ldf]
    · rw [hcc, c1] at c2; cases c2
  · rcases case₂ with ⟨c2, t₂, r2, e2⟩ | ⟨l2, nv2, sk2, c2, r2⟩
    · rw [hcc, c1] at c2; cases c2
    · rw [hcc, c1] at c2
      cases c2
      obtain ⟨hany, hF⟩ := cut_some _ _ _ _ _ c1
      exact ⟨_, _, _, sk1, sk2, r1, r2, specBlock_cheaters N _,
        Or.inl ⟨by rw [any_sealed_specBlock]; exact hany, nv1, hF, rfl, rfl⟩⟩

/-! ### a sequence of epochs -/

/-- what one instance of the combined model is given in one epoch: the epoch's history and its own
    processing order (the forkless-cause oracle is NOT an input: it is the instance's index) -/
structure IEpochIn where
  N : Net
  ids : List Nat

/-- the inputs of two instances for the same epoch -/
structure IEpochPair where
  N : Net
  ids₁ : List Nat
  ids₂ : List Nat

def IEpochPair.in₁ (p : IEpochPair) : IEpochIn := ⟨p.N, p.ids₁⟩
def IEpochPair.in₂ (p : IEpochPair) : IEpochIn := ⟨p.N, p.ids₂⟩

/-- epoch after epoch, one application for the whole run; the next epoch's events are submitted only
    after the current epoch sealed -/
def runEpochsIx (app : App) : List IEpochIn → IState → List Block → Option (IState × List Block)
  | [], s, out => some (s, out)
  | e :: rest, s, out =>
    match runEpochIx e.N app e.ids s [] with
    | none => none
    | some (s', bs, _) => if bs.any (·.d.sealed) then runEpochsIx app rest s' (out ++ bs) else some (s', out ++ bs)

/-- the graph-side hypotheses, epoch by epoch: the instances are in epoch `ep` with validators `vals` -/
def GEpochsOK (sealAt : Nat → Nat → Option Vals) : Nat → Vals → List IEpochPair → Prop
  | _, _, [] => True
  | ep, vals, p :: rest =>
    GOK p.N vals ∧ PFFrom p.N [] p.ids₁ ∧ PFFrom p.N [] p.ids₂ ∧
    (∀ e, e < p.N.h.length → e ∈ p.ids₁) ∧ (∀ e, e < p.N.h.length → e ∈ p.ids₂) ∧
    ∀ nv, (∃ F, sealAt ep F = some nv) → GEpochsOK sealAt (Gen.Orderer.sealedEpoch ep) nv rest

/-- **Several epochs of the combined model.** -/
theorem indexed_epochs_agree (app₁ app₂ : App) (sealAt : Nat → Nat → Option Vals) (hs₁ : app₁.sealAt = sealAt)
    (hs₂ : app₂.sealAt = sealAt) : ∀ (ps : List IEpochPair) (ep : Nat) (vals : Vals) (out : List Block),
    GEpochsOK sealAt ep vals ps →
    ∃ t₁ t₂ bs, runEpochsIx app₁ (ps.map IEpochPair.in₁) (Model.Indexed.initial ep vals) out = some (t₁, bs) ∧
      runEpochsIx app₂ (ps.map IEpochPair.in₂) (Model.Indexed.initial ep vals) out = some (t₂, bs) ∧
      t₁.o.epoch = t₂.o.epoch ∧ t₁.o.vals = t₂.o.vals ∧ t₁.o.ldf = t₂.o.ldf := by
  intro ps
  induction ps with
  | nil => intro ep vals out _; exact ⟨_, _, out, rfl, rfl, rfl, rfl, rfl⟩
  | cons p rest ih =>
    intro ep vals out hok
    obtain ⟨G, pf₁, pf₂, hall₁, hall₂, hnext⟩ := hok
    obtain ⟨t₁, t₂, bs, sk₁, sk₂, r₁, r₂, _, hcase⟩ := indexed_epoch_agree (app₁ := app₁) (app₂ := app₂) G ep
      (by intro f; rw [hs₁, hs₂]) p.ids₁ p.ids₂ pf₁ pf₂ hall₁ hall₂
    rcases hcase with ⟨hany, nv, hF, rfl, rfl⟩ | ⟨hany, _, _, e1, e2, v1, v2, hl⟩
    · obtain ⟨u₁, u₂, bs', a, b, c⟩ := ih (Gen.Orderer.sealedEpoch ep) nv (out ++ bs)
        (hnext nv (by rw [← hs₁]; exact hF))
      refine ⟨u₁, u₂, bs', ?_, ?_, c⟩
      · simp only [List.map_cons, runEpochsIx, IEpochPair.in₁, r₁, hany, if_true]; exact a
      · simp only [List.map_cons, runEpochsIx, IEpochPair.in₂, r₂, hany, if_true]; exact b
    · refine ⟨t₁, t₂, out ++ bs, ?_, ?_, e1.trans e2.symm, v1.trans v2.symm, hl⟩
      · simp only [List.map_cons, runEpochsIx, IEpochPair.in₁, r₁, hany, Bool.false_eq_true, if_false]
      · simp only [List.map_cons, runEpochsIx, IEpochPair.in₂, r₂, hany, Bool.false_eq_true, if_false]

end Compose
