import LachesisVerif.Proofs.VecLA1
/-!
C05, part 2: the explicit-stack DFS `visitLA` over an abstract parent function.
`DInv` is the loop invariant (frame + "closedness": a visited node has all its parents visited or
on the stack); the fuel bound uses the measure `#zero entries · (n+1) + stack length`.
-/
namespace VecProofs
open Model.Vec

/-- nodes reachable from the roots (= parents of the new event) along parent links -/
inductive Reach (par : Nat → List Nat) (roots : List Nat) : Nat → Prop
  | root {w} : w ∈ roots → Reach par roots w
  | step {w p} : Reach par roots w → p ∈ par w → Reach par roots p

/-- loop invariant of the DFS relative to the initial table `la0` -/
structure DInv (par : Nat → List Nat) (roots : List Nat) (me seq : Nat) (la0 : LAT)
    (stack : List Nat) (la : LAT) : Prop where
  other : ∀ w c, c ≠ me → (la.get w).get c = (la0.get w).get c
  changed : ∀ w, (la.get w).get me = (la0.get w).get me ∨
    ((la0.get w).get me = 0 ∧ (la.get w).get me = seq ∧ Reach par roots w)
  stack_reach : ∀ w, w ∈ stack → Reach par roots w
  roots_done : ∀ p, p ∈ roots → (la.get p).get me ≠ 0 ∨ p ∈ stack
  closed : ∀ w, Reach par roots w → (la.get w).get me ≠ 0 →
    ∀ p, p ∈ par w → (la.get p).get me ≠ 0 ∨ p ∈ stack

theorem la_dinv_init {par : Nat → List Nat} {roots : List Nat} {me seq : Nat} {la0 : LAT}
    (hdc : ∀ w, Reach par roots w → (la0.get w).get me ≠ 0 → ∀ p, p ∈ par w → (la0.get p).get me ≠ 0) :
    DInv par roots me seq la0 roots.reverse la0 where
  other := fun _ _ _ => rfl
  changed := fun _ => Or.inl rfl
  stack_reach := fun _ hw => Reach.root (List.mem_reverse.mp hw)
  roots_done := fun _ hp => Or.inr (List.mem_reverse.mpr hp)
  closed := fun w hr hw p hp => Or.inl (hdc w hr hw p hp)

theorem la_dinv_skip {par : Nat → List Nat} {roots : List Nat} {me seq : Nat} {la0 la : LAT}
    {w : Nat} {stack : List Nat} (hI : DInv par roots me seq la0 (w :: stack) la)
    (hw : (la.get w).get me ≠ 0) : DInv par roots me seq la0 stack la where
  other := hI.other
  changed := hI.changed
  stack_reach := fun x hx => hI.stack_reach x (List.mem_cons_of_mem _ hx)
  roots_done := fun p hp => by
    rcases hI.roots_done p hp with h | h
    · exact Or.inl h
    · rcases List.mem_cons.mp h with rfl | h
      · exact Or.inl hw
      · exact Or.inr h
  closed := fun x hr hx p hp => by
    rcases hI.closed x hr hx p hp with h | h
    · exact Or.inl h
    · rcases List.mem_cons.mp h with rfl | h
      · exact Or.inl hw
      · exact Or.inr h

theorem la_set_get_me (la : LAT) (w me seq x : Nat) :
    ((la.setRow w ((la.get w).set me seq)).get x).get me = if x = w then seq else (la.get x).get me := by
  show (if x = w then (la.get w).set me seq else la.get x).get me = _
  by_cases hx : x = w
  · rw [if_pos hx, if_pos hx]; show (if me = me then seq else _) = seq; rw [if_pos rfl]
  · rw [if_neg hx, if_neg hx]

theorem la_set_get_other (la : LAT) (w me seq x c : Nat) (hc : c ≠ me) :
    ((la.setRow w ((la.get w).set me seq)).get x).get c = (la.get x).get c := by
  show (if x = w then (la.get w).set me seq else la.get x).get c = _
  by_cases hx : x = w
  · rw [if_pos hx, hx]; show (if c = me then seq else _) = _; rw [if_neg hc]
  · rw [if_neg hx]

theorem la_dinv_set {par : Nat → List Nat} {roots : List Nat} {me seq : Nat} {la0 la : LAT}
    {w : Nat} {stack : List Nat} (hseq : seq ≠ 0) (hI : DInv par roots me seq la0 (w :: stack) la)
    (hw : (la.get w).get me = 0) :
    DInv par roots me seq la0 ((par w).reverse ++ stack) (la.setRow w ((la.get w).set me seq)) := by
  have hmono : ∀ x, (la.get x).get me ≠ 0 →
      ((la.setRow w ((la.get w).set me seq)).get x).get me ≠ 0 := by
    intro x hx; rw [la_set_get_me]
    by_cases hxw : x = w
    · rw [if_pos hxw]; exact hseq
    · rw [if_neg hxw]; exact hx
  have hwnew : ((la.setRow w ((la.get w).set me seq)).get w).get me ≠ 0 := by
    rw [la_set_get_me, if_pos rfl]; exact hseq
  have hrw : Reach par roots w := hI.stack_reach w (List.mem_cons_self ..)
  refine ⟨?_, ?_, ?_, ?_, ?_⟩
  · intro x c hc; rw [la_set_get_other _ _ _ _ _ _ hc]; exact hI.other x c hc
  · intro x
    rw [la_set_get_me]
    by_cases hxw : x = w
    · rw [if_pos hxw, hxw]
      refine Or.inr ⟨?_, rfl, hrw⟩
      rcases hI.changed w with h | ⟨h, _, _⟩
      · rw [← h]; exact hw
      · exact h
    · rw [if_neg hxw]; exact hI.changed x
  · intro x hx
    rcases List.mem_append.mp hx with h | h
    · exact Reach.step hrw (List.mem_reverse.mp h)
    · exact hI.stack_reach x (List.mem_cons_of_mem _ h)
  · intro p hp
    rcases hI.roots_done p hp with h | h
    · exact Or.inl (hmono p h)
    · rcases List.mem_cons.mp h with rfl | h
      · exact Or.inl hwnew
      · exact Or.inr (List.mem_append_right _ h)
  · intro x hr hx p hp
    by_cases hxw : x = w
    · subst hxw; exact Or.inr (List.mem_append_left _ (List.mem_reverse.mpr hp))
    · rw [la_set_get_me, if_neg hxw] at hx
      rcases hI.closed x hr hx p hp with h | h
      · exact Or.inl (hmono p h)
      · rcases List.mem_cons.mp h with rfl | h
        · exact Or.inl hwnew
        · exact Or.inr (List.mem_append_right _ h)

/-! ### the fuel measure -/

theorem la_countP_lt {l : List Nat} (p q : Nat → Bool) (hqp : ∀ x, q x = true → p x = true)
    {w : Nat} (hw : w ∈ l) (hpw : p w = true) (hqw : q w = false) :
    l.countP q + 1 ≤ l.countP p := by
  induction l with
  | nil => simp at hw
  | cons x xs ih =>
    rw [List.countP_cons, List.countP_cons]
    rcases List.mem_cons.mp hw with rfl | hmem
    · have hle : xs.countP q ≤ xs.countP p := List.countP_mono_left (fun y _ hy => hqp y hy)
      rw [if_pos hpw, if_neg (by rw [hqw]; simp)]; omega
    · have := ih hmem
      by_cases hq : q x = true
      · rw [if_pos hq, if_pos (hqp x hq)]; omega
      · rw [if_neg hq]; split <;> omega

/-- number of events `< n` whose entry `me` is still zero -/
def laZ (n me : Nat) (la : LAT) : Nat := (List.range n).countP (fun x => decide ((la.get x).get me = 0))

theorem la_Z_le (n me : Nat) (la : LAT) : laZ n me la ≤ n := by
  unfold laZ
  have := List.countP_le_length (p := fun x => decide ((la.get x).get me = 0)) (l := List.range n)
  rwa [List.length_range] at this

theorem la_Z_set (n me seq : Nat) (la : LAT) {w : Nat} (hwn : w < n) (hw : (la.get w).get me = 0)
    (hseq : seq ≠ 0) : laZ n me (la.setRow w ((la.get w).set me seq)) + 1 ≤ laZ n me la := by
  unfold laZ
  apply la_countP_lt _ _ _ (List.mem_range.mpr hwn)
  · simpa using hw
  · rw [la_set_get_me, if_pos rfl]; simpa using hseq
  · intro x hx
    rw [la_set_get_me] at hx
    by_cases hxw : x = w
    · rw [hxw]; simpa using hw
    · rwa [if_neg hxw] at hx

/-- the DFS keeps the invariant and, given enough fuel, ends with an empty stack -/
theorem la_visit_inv {par : Nat → List Nat} {roots : List Nat} {n me seq : Nat} {la0 : LAT}
    (hseq : seq ≠ 0) (hlt : ∀ w, Reach par roots w → w < n) (hpl : ∀ w, w < n → (par w).length ≤ n) :
    ∀ (fuel : Nat) (stack : List Nat) (la : LAT), DInv par roots me seq la0 stack la →
      laZ n me la * (n + 1) + stack.length ≤ fuel →
      DInv par roots me seq la0 [] (VState.visitLA par me seq fuel stack la) := by
  intro fuel
  induction fuel with
  | zero =>
    intro stack la hI hf
    cases stack with
    | nil => exact hI
    | cons w st => simp at hf
  | succ fuel ih =>
    intro stack la hI hf
    cases stack with
    | nil => exact hI
    | cons w st =>
      have hwn : w < n := hlt w (hI.stack_reach w (List.mem_cons_self ..))
      rw [VState.visitLA]
      by_cases hsk : Gen.Vec.visitSkip ((la.get w).get me) = true
      · rw [if_pos hsk]
        have hw : (la.get w).get me ≠ 0 := by simpa [Gen.Vec.visitSkip] using hsk
        apply ih st la (la_dinv_skip hI hw)
        rw [List.length_cons] at hf; omega
      · rw [if_neg hsk]
        have hw : (la.get w).get me = 0 := by simpa [Gen.Vec.visitSkip] using hsk
        apply ih _ _ (la_dinv_set hseq hI hw)
        have hz := la_Z_set n me seq la hwn hw hseq
        have hp := hpl w hwn
        have hmul := Nat.mul_le_mul_right (n + 1) hz
        rw [Nat.add_mul, Nat.one_mul] at hmul
        rw [List.length_cons] at hf
        rw [List.length_append, List.length_reverse]
        generalize laZ n me (la.setRow w ((la.get w).set me seq)) * (n + 1) = x at hmul ⊢
        generalize laZ n me la * (n + 1) = y at hmul hf
        omega

/-- enough fuel: `(n+1)*(n+2)` covers `n` zero entries and `n` roots -/
theorem la_visit_fuel {par : Nat → List Nat} {roots : List Nat} {n me seq : Nat} {la0 : LAT}
    (hseq : seq ≠ 0) (hlt : ∀ w, Reach par roots w → w < n) (hpl : ∀ w, w < n → (par w).length ≤ n)
    (hrl : roots.length ≤ n)
    (hdc : ∀ w, Reach par roots w → (la0.get w).get me ≠ 0 → ∀ p, p ∈ par w → (la0.get p).get me ≠ 0) :
    DInv par roots me seq la0 [] (VState.visitLA par me seq ((n + 1) * (n + 2)) roots.reverse la0) := by
  apply la_visit_inv hseq hlt hpl _ _ _ (la_dinv_init hdc)
  have hz := la_Z_le n me la0
  have hmul := Nat.mul_le_mul_right (n + 1) hz
  rw [List.length_reverse]
  have : (n + 1) * (n + 2) = n * (n + 1) + 2 * (n + 1) := by
    rw [Nat.mul_comm (n + 1) (n + 2), Nat.add_mul]
  rw [this]
  generalize laZ n me la0 * (n + 1) = x at hmul
  generalize n * (n + 1) = y at hmul
  omega

/-- what the finished DFS computed: entry `me` of `w` is the old non-zero value, or `seq` if `w` is
    reachable and was zero, or still zero if `w` is not reachable; other entries are untouched -/
theorem la_visit_result {par : Nat → List Nat} {roots : List Nat} {me seq : Nat} {la0 la : LAT}
    (hI : DInv par roots me seq la0 [] la) :
    (∀ w c, c ≠ me → (la.get w).get c = (la0.get w).get c) ∧
    (∀ w, (la0.get w).get me ≠ 0 → (la.get w).get me = (la0.get w).get me) ∧
    (∀ w, (la0.get w).get me = 0 → Reach par roots w → (la.get w).get me = seq) ∧
    (∀ w, (la0.get w).get me = 0 → ¬ Reach par roots w → (la.get w).get me = 0) := by
  have hall : ∀ w, Reach par roots w → (la.get w).get me ≠ 0 := by
    intro w hr
    induction hr with
    | root hw =>
      rcases hI.roots_done _ hw with h | h
      · exact h
      · simp at h
    | step hr hp ih =>
      rcases hI.closed _ hr ih _ hp with h | h
      · exact h
      · simp at h
  refine ⟨hI.other, ?_, ?_, ?_⟩
  · intro w hw
    rcases hI.changed w with h | ⟨h, _, _⟩
    · exact h
    · exact absurd h hw
  · intro w hw hr
    rcases hI.changed w with h | ⟨_, h, _⟩
    · exact absurd (h.trans hw) (hall w hr)
    · exact h
  · intro w hw hr
    rcases hI.changed w with h | ⟨_, _, h⟩
    · exact h.trans hw
    · exact absurd h hr

end VecProofs
