import LachesisVerif.Proofs.OrdererRun
import LachesisVerif.Proofs.ElectionExample
/-!
L5 (C10/C01), part 4: whole runs of `Model.Orderer.process` over a parents-first processing order, and
order independence of the emitted blocks.
-/
namespace OrdererProofs
open Model.Pos Model.Election Model.Orderer ElectionRules ElectionRefine ElectionProofs VecProofs

/-- process the events `ids` (numbers = positions in `N.h`) in this order; each call gets the event's
    own creator, self-parent frame and claimed frame; every event must be accepted without error;
    the decided frames are collected -/
def runIds (N : Net) (env : Env) : List Nat → OState → List Decided → Option (OState × List Decided)
  | [], s, out => some (s, out)
  | id :: rest, s, out =>
    match process env s id (N.creator id) (N.spf id) (N.fr id) with
    | (s', .ok ds) => runIds N env rest s' (out ++ ds)
    | _ => none

/-- `ids` is a parents-first order of new events, `done` having been processed before -/
def PFFrom (N : Net) : List Nat → List Nat → Prop
  | _, [] => True
  | done, id :: rest => id < N.h.length ∧ id ∉ done ∧ (∀ x, Anc N.h id x → x ≠ id → x ∈ done) ∧
      PFFrom N (id :: done) rest

theorem run_spec {N : Net} {vals : Vals} {env : Env} (C : Ctx N vals env) (ids : List Nat) :
    ∀ (done : List Nat) (blocks : List (Nat × Nat)) (s : OState) (out : List Decided),
      OInv N vals done blocks s → OpenEl N vals s (fun _ => False) → PFFrom N done ids →
      ∃ s' ds, runIds N env ids s out = some (s', out ++ ds) ∧
        OInv N vals (ids.reverse ++ done) (blocks ++ ds.map blk) s' ∧ OpenEl N vals s' (fun _ => False) := by
  induction ids with
  | nil =>
    intro done blocks s out I O _
    exact ⟨s, [], by simp [runIds], by simpa using I, O⟩
  | cons id rest ih =>
    intro done blocks s out I O hpf
    obtain ⟨hid, hnew, hpar, hrest⟩ := hpf
    obtain ⟨s1, ds1, h1, I1, O1⟩ := process_spec C I O id hid hnew hpar
    obtain ⟨s', ds, h2, I2, O2⟩ := ih (id :: done) _ s1 (out ++ ds1) I1 O1 hrest
    refine ⟨s', ds1 ++ ds, ?_, ?_, O2⟩
    · simp only [runIds, h1, h2, List.append_assoc]
    · have e : (id :: rest).reverse ++ done = rest.reverse ++ (id :: done) := by
        rw [List.reverse_cons, List.append_assoc]; rfl
      rw [e, List.map_append, ← List.append_assoc]
      exact I2

theorem initial_inv {N : Net} {vals : Vals} {env : Env} (C : Ctx N vals env) (ep : Nat) :
    OInv N vals [] [] (initial ep vals) ∧ OpenEl N vals (initial ep vals) (fun _ => False) := by
  constructor
  · refine ⟨rfl, ⟨fun r => ?_, List.Pairwise.nil⟩, ?_, rfl, ?_, ?_⟩
    · constructor
      · intro h; cases h
      · rintro ⟨h, _⟩; cases h
    · intro e he; cases he
    · intro i h; cases h
    · intro b hb; cases hb
  · exact ⟨[], EInv_reset N vals _ _ C.ok C.nVals_pos, (by intro r hr; cases hr), (by intro r hr; cases hr)⟩

/-- L5 for whole runs from the start of an epoch -/
theorem L5_run {N : Net} {vals : Vals} {env : Env} (C : Ctx N vals env) (ep : Nat) (ids : List Nat)
    (hpf : PFFrom N [] ids) :
    ∃ s ds, runIds N env ids (initial ep vals) [] = some (s, ds) ∧
      OInv N vals ids.reverse (ds.map blk) s ∧ OpenEl N vals s (fun _ => False) := by
  obtain ⟨I0, O0⟩ := initial_inv C ep
  obtain ⟨s, ds, h, I, O⟩ := run_spec C ids [] [] (initial ep vals) [] I0 O0 hpf
  exact ⟨s, ds, by simpa using h, by simpa using I, O⟩

/-- an open election that has been fed every root of the later frames contradicts the existence of
    an Atropos of its frame -/
theorem open_not_atropos {N : Net} {vals : Vals} {f : Nat} {FR : Nat → List Root} {fed : List Root}
    {el : Election} (ok : ValsOK vals N.nVals N.w) (hfa : N.FramesAccepted) (hsu : N.SlotUnique)
    (E : EInv N vals f FR fed el)
    (hfed : ∀ r k, 2 ≤ k → N.IsRoot r (f + k) → (⟨r, f + k, N.creator r⟩ : Root) ∈ fed) (a : Nat) :
    ¬ N.IsAtropos f a := by
  rintro ⟨v, hv, dy, dn, _⟩
  have hch := E.undecided
  unfold chooseAtropos at hch
  rw [sorted_eq ok E.js] at hch
  obtain ⟨v₀, _, hv₀, hl₀, hno₀⟩ := chooseAtroposFrom_range_none el N.w N.nVals 0 hch
  have storedY : ∀ s, s < N.nVals → N.DecidedYes f s → ∃ vote, el.decidedRoots.lookup s = some vote := by
    rintro s hs ⟨k, r, hd⟩
    have := E.complete ⟨r, f + k, N.creator r⟩ (hfed r k hd.1 hd.2.1) (by show f < f + k; have := hd.1; omega) s hs
      (Or.inl (by show N.DecidesYes f (f + k - f) r s; rw [Nat.add_sub_cancel_left]; exact hd))
    exact this
  have storedN : ∀ s, s < N.nVals → N.DecidedNo f s → ∃ vote, el.decidedRoots.lookup s = some vote := by
    rintro s hs ⟨k, r, hd⟩
    have := E.complete ⟨r, f + k, N.creator r⟩ (hfed r k hd.1 hd.2.1) (by show f < f + k; have := hd.1; omega) s hs
      (Or.inr (by show N.DecidesNo f (f + k - f) r s; rw [Nat.add_sub_cancel_left]; exact hd))
    exact this
  rcases Nat.lt_trichotomy v₀ v with hlt | heq | hgt
  · obtain ⟨vote, hl⟩ := storedN v₀ (by omega) (dn v₀ hlt)
    rw [hl₀] at hl; cases hl
  · subst heq
    obtain ⟨vote, hl⟩ := storedY v₀ hv dy
    rw [hl₀] at hl; cases hl
  · obtain ⟨vt, hlu, hyu⟩ := hno₀ v (Nat.zero_le _) hgt
    have dno := (E.js.decided v vt (lookup_mem _ _ _ hlu)).2.2 hyu
    exact (N.L4_of_slotUnique hfa hsu f v).1 dy dno

/-- when every event has been processed, the first frame without a block has no Atropos -/
theorem no_next_atropos {N : Net} {vals : Vals} {env : Env} (C : Ctx N vals env) {done : List Nat}
    {blocks : List (Nat × Nat)} {s : OState} (I : OInv N vals done blocks s) (O : OpenEl N vals s (fun _ => False))
    (hall : ∀ e, e < N.h.length → e ∈ done) (a : Nat) : ¬ N.IsAtropos (blocks.length + 1) a := by
  obtain ⟨fed, E, _, hfed⟩ := O
  rw [← I.ldf]
  apply open_not_atropos C.ok C.hfa (N.slotUnique_of_BFT C.hv C.hfa C.hbft) E
  intro r k hk hr
  have hm : (⟨r, s.ldf + 1 + k, N.creator r⟩ : Root) ∈ s.roots := (I.table.mem _).2 ⟨hall r hr.1, hr, rfl⟩
  exact (hfed _ hm (by show s.ldf + 1 < s.ldf + 1 + k; omega)).elim id False.elim

/-- two instances that have processed all events of the same history have emitted the same blocks -/
theorem blocks_unique {N : Net} {vals₁ vals₂ : Vals} {env₁ env₂ : Env} (C₁ : Ctx N vals₁ env₁) (C₂ : Ctx N vals₂ env₂)
    {done₁ done₂ : List Nat} {blocks₁ blocks₂ : List (Nat × Nat)} {s₁ s₂ : OState}
    (I₁ : OInv N vals₁ done₁ blocks₁ s₁) (O₁ : OpenEl N vals₁ s₁ (fun _ => False))
    (I₂ : OInv N vals₂ done₂ blocks₂ s₂) (O₂ : OpenEl N vals₂ s₂ (fun _ => False))
    (hall₁ : ∀ e, e < N.h.length → e ∈ done₁) (hall₂ : ∀ e, e < N.h.length → e ∈ done₂) : blocks₁ = blocks₂ := by
  have key : ∀ {vals vals' : Vals} {env : Env} {done done' : List Nat} {b b' : List (Nat × Nat)} {s s' : OState},
      Ctx N vals env → OInv N vals done b s → OpenEl N vals s (fun _ => False) → (∀ e, e < N.h.length → e ∈ done) →
      OInv N vals' done' b' s' → ¬ b.length < b'.length := by
    intro vals vals' env done done' b b' s s' C I O hall I' hlt
    have h1 := I'.frames _ hlt
    have h2 := I'.atropoi _ (List.getElem_mem hlt)
    rw [h1] at h2
    exact no_next_atropos C I O hall _ h2
  have hlen : blocks₁.length = blocks₂.length := by
    have a := key C₁ I₁ O₁ hall₁ I₂
    have b := key C₂ I₂ O₂ hall₂ I₁
    omega
  apply List.ext_getElem hlen
  intro i h1 h2
  have a1 := I₁.atropoi _ (List.getElem_mem h1)
  have a2 := I₂.atropoi _ (List.getElem_mem h2)
  have f1 := I₁.frames i h1
  have f2 := I₂.frames i h2
  rw [f1] at a1
  rw [f2] at a2
  exact Prod.ext (f1.trans f2.symm) (N.atroposUnique_holds C₁.hv C₁.hfa C₁.hbft _ _ _ a1 a2)

/-- C01 for the `(frame, Atropos)` sequences: two instances (own validator records, own forkless-cause
    oracles) that process all events of one history, each in its own parents-first order, accept
    every event without error and emit the same blocks -/
theorem order_independent {N : Net} {vals₁ vals₂ : Vals} {env₁ env₂ : Env} (C₁ : Ctx N vals₁ env₁)
    (C₂ : Ctx N vals₂ env₂) (ep₁ ep₂ : Nat) (ids₁ ids₂ : List Nat) (pf₁ : PFFrom N [] ids₁) (pf₂ : PFFrom N [] ids₂)
    (hall₁ : ∀ e, e < N.h.length → e ∈ ids₁) (hall₂ : ∀ e, e < N.h.length → e ∈ ids₂) :
    ∃ s₁ s₂ ds₁ ds₂, runIds N env₁ ids₁ (initial ep₁ vals₁) [] = some (s₁, ds₁) ∧
      runIds N env₂ ids₂ (initial ep₂ vals₂) [] = some (s₂, ds₂) ∧ ds₁.map blk = ds₂.map blk ∧ s₁.ldf = s₂.ldf := by
  obtain ⟨s₁, ds₁, h₁, I₁, O₁⟩ := L5_run C₁ ep₁ ids₁ pf₁
  obtain ⟨s₂, ds₂, h₂, I₂, O₂⟩ := L5_run C₂ ep₂ ids₂ pf₂
  have hb := blocks_unique C₁ C₂ I₁ O₁ I₂ O₂ (fun e he => List.mem_reverse.2 (hall₁ e he))
    (fun e he => List.mem_reverse.2 (hall₂ e he))
  exact ⟨s₁, s₂, ds₁, ds₂, h₁, h₂, hb, by rw [I₁.ldf, I₂.ldf, hb]⟩

/-! ### non-vacuity: the three-event chain of `Proofs/ElectionExample.lean` -/
namespace Example
open ElectionExample

def env : Env := { observe := ElectionExample.observe, idKey := fun x => x, sealAt := fun _ _ => none }

theorem ctx : Ctx net ElectionExample.vals env :=
  { hv := valid, hfa := framesAccepted, hbft := bft
    hb := by
      intro e he
      have he3 : e < 3 := he
      show e + 1 < 2147483648
      omega
    ok := (setup 1 (by decide)).vals
    obs := (setup 1 (by decide)).obs
    noseal := fun _ _ => rfl }

theorem pf : PFFrom net [] [0, 1, 2] := by
  refine ⟨by decide, by simp, ?_, by decide, by simp, ?_, by decide, by simp, ?_, trivial⟩
  · intro x hx hne; rw [anc_iff] at hx; omega
  · intro x hx hne; rw [anc_iff] at hx
    have : x = 0 := by omega
    subst this; simp
  · intro x hx hne; rw [anc_iff] at hx
    have : x = 0 ∨ x = 1 := by omega
    rcases this with rfl | rfl <;> simp

/-- the model processes the chain and emits exactly the block `(frame 1, Atropos 0)` -/
theorem run : ∃ s, runIds net env [0, 1, 2] (initial 1 ElectionExample.vals) [] = some (s, [⟨1, 1, 0, false⟩]) :=
  ⟨_, rfl⟩

end Example
end OrdererProofs
