import LachesisVerif.Proofs.VecRowCache
/-!
Row caches of the vector index, part 2: which cache calls are NECESSARY.
* negative witnesses (`decide`): without the purge in `onDropNotFlushed` a rolled-back row is served;
  without the purge in `Index.Reset` a row of the old DB is served; without the `Add` in the setters
  an overwritten row is served;
* the guard `NotFlushedPairs() != 0` around the purge is safe: when it is false, `DropNotFlushed`
  is the identity on store, overlay AND cache, all reads come from the parent DB, and every cached
  row is a persisted row;
* `transparent_iff`: exact characterisation of the sets of calls for which the cache is transparent.
-/
namespace VecRowCacheProofs
open Model.VecPersist (Tab)
open Model.VecRowCache

variable {α : Type}

/-! ### the guard -/

/-- guard false: `DropNotFlushed` changes nothing at all (store, overlay, counter, cache) -/
theorem drop_clean_noop (k : Calls) (s : RC α) (hg : Gen.VecPersist.dropClears s.base.notFlushedPairs = false) :
    s.dropNotFlushed k = s := by
  unfold RC.dropNotFlushed
  rw [drop_of_clean s.base hg, hg]
  simp only [Bool.false_and, Bool.false_eq_true, if_false]

/-- guard false: every read is a read of the parent DB -/
theorem clean_read_store (b : Base α) (hg : Gen.VecPersist.dropClears b.notFlushedPairs = false) (id : Nat) :
    b.read id = b.store.get id := by
  have h := ((dropClears_false_iff b).1 hg).1
  unfold Base.read
  rw [h, look_nil]

/-- guard false: under the invariant every cached row is a PERSISTED row, so there is nothing a
    roll-back could invalidate — this is why "purge iff something was unflushed" is enough -/
theorem clean_cache_persisted (s : RC α) (h : Inv s)
    (hg : Gen.VecPersist.dropClears s.base.notFlushedPairs = false) :
    ∀ id r, (id, r) ∈ s.cache → s.base.store.get id = some r := by
  intro id r hm
  rw [← clean_read_store s.base hg id]
  exact h id r hm

/-- guard true: the roll-back leaves an empty cache and an empty overlay -/
theorem drop_dirty (s : RC α) (hg : Gen.VecPersist.dropClears s.base.notFlushedPairs = true) :
    (s.dropNotFlushed goCalls).cache = [] ∧ (s.dropNotFlushed goCalls).base.ov = [] := by
  unfold RC.dropNotFlushed
  rw [drop_of_dirty s.base hg, hg]
  exact ⟨rfl, rfl⟩

/-- a setter makes the guard true (the row's pair is unflushed) -/
theorem set_makes_dirty (k : Calls) (ev : Evict α) (s : RC α) (id : Nat) (r : α) :
    Gen.VecPersist.dropClears (s.set k ev id r).base.notFlushedPairs = true := by
  cases h : Gen.VecPersist.dropClears (s.set k ev id r).base.notFlushedPairs with
  | true => rfl
  | false =>
    have h1 := ((dropClears_false_iff _).1 h).1
    simp only [RC.set, Base.set, put] at h1
    cases h1

/-! ### negative witnesses (rows are numbers; no eviction) -/

def noEvict : Evict Nat := fun c => c
theorem shrinks_noEvict : Shrinks noEvict := fun _ _ h => h

/-- an empty DB, and a DB holding row 1 for event 0 -/
def dbEmpty : Tab Nat := ⟨fun _ => none⟩
def dbOne : Tab Nat := ⟨fun a => if a = 0 then some 1 else none⟩

/-- (a) `SetX(0, 7)`; `DropNotFlushed`; `GetX(0)` -/
def histRollback : List (Op Nat) := [.set 0 7, .drop, .get 0]
/-- (b) `SetX(0, 7)`; `Flush`; `Reset(new empty DB)`; `GetX(0)` -/
def histNewEpoch : List (Op Nat) := [.set 0 7, .flush, .reset dbEmpty, .get 0]
/-- (c) over a DB holding row 1 for event 0: `GetX(0)`; `SetX(0, 2)`; `GetX(0)` -/
def histOverwrite : List (Op Nat) := [.get 0, .set 0 2, .get 0]

/-- (a) without the purges of `onDropNotFlushed`, the rolled-back row 7 of event 0 is served from the
    cache although the store holds nothing for event 0 -/
theorem stale_without_drop_purge :
    (RC.fresh dbEmpty).answers { goCalls with purgeOnDrop := false } noEvict histRollback = [some 7]
    ∧ (RC.fresh dbEmpty).base.answers histRollback = [none]
    ∧ (RC.fresh dbEmpty).answers goCalls noEvict histRollback = [none] := by decide

/-- (b) without the `onDropNotFlushed()` call of `Index.Reset`, row 7 of the OLD DB is served for
    event 0 over a new empty DB -/
theorem stale_without_reset_purge :
    (RC.fresh dbEmpty).answers { goCalls with purgeOnReset := false } noEvict histNewEpoch = [some 7]
    ∧ (RC.fresh dbEmpty).base.answers histNewEpoch = [none]
    ∧ (RC.fresh dbEmpty).answers goCalls noEvict histNewEpoch = [none] := by decide

/-- (c) without the `Add` in the setters, the overwritten row 1 is served instead of row 2 -/
theorem stale_without_set_add :
    (RC.fresh dbOne).answers { goCalls with addOnSet := false } noEvict histOverwrite = [some 1, some 1]
    ∧ (RC.fresh dbOne).base.answers histOverwrite = [some 1, some 2]
    ∧ (RC.fresh dbOne).answers goCalls noEvict histOverwrite = [some 1, some 2] := by decide

/-- the guard matters in the other direction too: in (a) the guard is TRUE at the roll-back -/
theorem histRollback_guard :
    Gen.VecPersist.dropClears ((RC.fresh dbEmpty).step goCalls noEvict (.set 0 7)).base.notFlushedPairs = true := by
  decide

/-! ### exact characterisation -/

/-- the cache is invisible: for every eviction function, start DB and history, the answers are those
    of the store without cache -/
def Transparent (k : Calls) : Prop :=
  ∀ (ev : Evict Nat), Shrinks ev → ∀ (db : Tab Nat) (ops : List (Op Nat)),
    (RC.fresh db).answers k ev ops = (RC.fresh db).base.answers ops

/-- a cache that is never filled -/
def NeverFilled (k : Calls) : Prop := k.addOnSet = false ∧ k.addOnMiss = false

theorem answers_eq_of (k : Calls) (ev : Evict α) (P : RC α → Prop) (hP : ∀ s, P s → Inv s)
    (hstep : ∀ s op, P s → P (s.step k ev op)) (ops : List (Op α)) (s : RC α) (h : P s) :
    s.answers k ev ops = s.base.answers ops := by
  induction ops generalizing s with
  | nil => rfl
  | cons op ops ih =>
    simp only [RC.answers, Base.answers]
    rw [out_eq k ev s op (hP s h), ih (s.step k ev op) (hstep s op h), step_base]

theorem neverFilled_step (k : Calls) (hk : NeverFilled k) (ev : Evict α) (s : RC α) (op : Op α)
    (h : s.cache = []) : (s.step k ev op).cache = [] := by
  cases op with
  | get id =>
    show (s.get k ev id).1.cache = []
    unfold RC.get
    rw [h]
    cases hr : s.base.read id with
    | none => exact h
    | some r => simp only [List.lookup, hk.2, Bool.false_eq_true, if_false]; exact h
  | set id r => simp only [RC.step, RC.set, hk.1, Bool.false_eq_true, if_false]; exact h
  | otherPut n => exact h
  | flush => exact h
  | drop =>
    simp only [RC.step, RC.dropNotFlushed, h]
    cases (Gen.VecPersist.dropClears s.base.notFlushedPairs && k.purgeOnDrop) <;> rfl
  | reset db =>
    simp only [RC.step, RC.reset, h]
    cases k.purgeOnReset <;> rfl
  | evict keep => simp only [RC.step, RC.evict, h, List.filter_nil]

theorem inv_of_empty (s : RC α) (h : s.cache = []) : Inv s := by
  intro id r hm
  rw [h] at hm
  cases hm

/-- the cache is transparent EXACTLY when both purges and the setters' `Add` are present, or when
    nothing is ever cached. In particular, given the `Add` calls of the Go code, each of the two
    purges is necessary; the `Add` after a `Get` miss is never necessary -/
theorem transparent_iff (k : Calls) : Transparent k ↔ (Sound k ∨ NeverFilled k) := by
  constructor
  · intro h
    have ha := h noEvict shrinks_noEvict dbEmpty histRollback
    have hb := h noEvict shrinks_noEvict dbEmpty histNewEpoch
    have hc := h noEvict shrinks_noEvict dbOne histOverwrite
    obtain ⟨a, b, c, d⟩ := k
    cases c with
    | false =>
      cases d with
      | false => exact Or.inr ⟨rfl, rfl⟩
      | true => cases a <;> cases b <;> exact absurd hc (by decide)
    | true =>
      cases a with
      | false => cases b <;> cases d <;> exact absurd ha (by decide)
      | true =>
        cases b with
        | false => cases d <;> exact absurd hb (by decide)
        | true => exact Or.inl ⟨rfl, rfl, rfl⟩
  · intro h ev hev db ops
    rcases h with h | h
    · exact answers_eq k h ev hev ops (RC.fresh db) (inv_fresh db)
    · exact answers_eq_of k ev (fun s => s.cache = []) inv_of_empty
        (fun s op hs => neverFilled_step k h ev s op hs) ops (RC.fresh db) rfl

theorem goCalls_transparent : Transparent goCalls := (transparent_iff goCalls).2 (Or.inl sound_goCalls)

end VecRowCacheProofs
