import LachesisVerif.Proofs.ProcessorBalRun
/-! C15: well-formed operation sequences (no (batch, position) check result is delivered twice) keep the
    "held" invariant; hence the semaphore's warning callback never fires. -/
namespace C15
open Model.EventsBuffer Model.Processor C14

/-- the (batch id, position) pairs whose `CheckParentless` result the operations deliver -/
def delivered : List POp → List (Nat × Nat)
  | [] => []
  | .deliver id pos _ :: t => (id, pos) :: delivered t
  | _ :: t => delivered t

/-- **well-formed operation sequence**: no (batch, position) check result is delivered twice — in the real
    processor every batch has its own `checkedC` channel (so batches are distinct) and every check
    callback fires once. -/
def wfOps (ops : List POp) : Prop := (delivered ops).Nodup

instance (ops : List POp) : Decidable (wfOps ops) := by unfold wfOps; infer_instance

/-- the positions delivered to batch `id` -/
def delivs (id : Nat) : List POp → List Nat
  | [] => []
  | .deliver i pos _ :: t => if i = id then pos :: delivs id t else delivs id t
  | _ :: t => delivs id t

theorem mem_delivs {id pos : Nat} : ∀ ops, pos ∈ delivs id ops → (id, pos) ∈ delivered ops := by
  intro ops
  induction ops with
  | nil => intro h; cases h
  | cons op ops ih =>
    intro h
    cases op with
    | enq a b c => exact ih h
    | stop => exact ih h
    | deliver i p e =>
      simp only [delivs] at h
      simp only [delivered]
      by_cases hi : i = id
      · rw [if_pos hi] at h
        rcases List.mem_cons.1 h with h | h
        · subst h; subst hi; exact List.mem_cons_self
        · exact List.mem_cons_of_mem _ (ih h)
      · rw [if_neg hi] at h
        exact List.mem_cons_of_mem _ (ih h)

theorem wfOps_tail {op : POp} {ops : List POp} (h : wfOps (op :: ops)) : wfOps ops := by
  cases op with
  | enq a b c => exact h
  | stop => exact h
  | deliver i p e => exact (List.nodup_cons.1 h).2

theorem delivs_nodup : ∀ ops, wfOps ops → ∀ id, (delivs id ops).Nodup := by
  intro ops
  induction ops with
  | nil => intro _ _; exact List.nodup_nil
  | cons op ops ih =>
    intro h id
    have ht := ih (wfOps_tail h) id
    cases op with
    | enq a b c => exact ht
    | stop => exact ht
    | deliver i p e =>
      simp only [delivs]
      by_cases hi : i = id
      · rw [if_pos hi]
        refine List.nodup_cons.2 ⟨?_, ht⟩
        intro hm
        have := mem_delivs ops hm
        exact (List.nodup_cons.1 h).1 (hi ▸ this)
      · rw [if_neg hi]; exact ht

/-- the invariant of the processor, given the operations still to come -/
def Bal (init : List Nat) (ops : List POp) (p : Proc) : Prop :=
  Held init p.cfg (fun w => pneed w (fun id => delivs id ops) p.pending) p.st

theorem pneed_append (w : Bool) (F : Nat → List Nat) : ∀ a b : List Batch,
    pneed w F (a ++ b) = pneed w F a + pneed w F b := by
  intro a b
  induction a with
  | nil => simp [pneed]
  | cons x a ih => rw [List.cons_append, pneed_cons, pneed_cons, ih]; omega

theorem need_new_le (w : Bool) (id : Nat) (o : Bool) (items : List Item) (L : List Nat) (h : L.Nodup) :
    need w (Batch.new id o items) L ≤ totalW w items := by
  cases o
  · rw [need_unordered (b := Batch.new id false items) L (by simp [Batch.new])]
    exact sum_wAt_le' w items L h
  · rw [need_ordered (b := Batch.new id true items) L rfl]
    exact Nat.le_refl _

theorem pneed_deliver (w : Bool) (ops : List POp) (id pos err : Nat) : ∀ bs : List Batch,
    pneed w (fun i => delivs i ops)
      (bs.map (fun b => if b.id = id then { b with queue := b.queue ++ [(pos, err)] } else b)) =
    pneed w (fun i => delivs i (POp.deliver id pos err :: ops)) bs := by
  intro bs
  induction bs with
  | nil => rfl
  | cons b bs ih =>
    rw [List.map_cons, pneed_cons, pneed_cons, ih]
    congr 1
    by_cases hi : b.id = id
    · rw [if_pos hi]
      show need w b ((b.queue ++ [(pos, err)]).map (·.1) ++ delivs b.id ops) =
        need w b (b.queue.map (·.1) ++ (if id = b.id then pos :: delivs b.id ops else delivs b.id ops))
      rw [if_pos hi.symm, List.map_append, List.append_assoc]
      rfl
    · rw [if_neg hi]
      show need w b (b.queue.map (·.1) ++ delivs b.id ops) =
        need w b (b.queue.map (·.1) ++ (if id = b.id then pos :: delivs b.id ops else delivs b.id ops))
      rw [if_neg (fun h => hi h.symm)]

/-- `Clear`: released + still waiting = was waiting -/
theorem clear_acc (init : List Nat) (B : St) (hg : Good init B) (d : List Cb) (hd : (clear B).trace = d ++ B.trace)
    (w : Bool) : relOf w (clear B).recs d + unrelOf w (clear B) = unrelOf w B := by
  obtain ⟨cg, cn, cev, _, _⟩ := clear_post init 0 0 B hg
  have acc := weighted_accounting hg cg d hd (by rw [cn]; exact Nat.le_refl _)
    (fun c => rw' w ((clear B).recs c).ev.size)
  rw [cn, sumTo_new (fun c => rw' w ((clear B).recs c).ev.size) B.n (fun c => B.n ≤ c) (fun c hc h => by omega)] at acc
  have hold : unrelW (fun c => rw' w ((clear B).recs c).ev.size) B = unrelOf w B := by
    unfold unrelOf unrelW
    apply sumTo_congr
    intro c _
    show (if (B.recs c).released = false then rw' w ((clear B).recs c).ev.size else 0) = _
    rw [cev c]
  rw [hold] at acc
  exact acc

theorem semOf_terminate (w : Bool) (s : Sem) : semOf w s.terminate = semOf w s := by
  cases w <;> rfl

theorem bal_init (cfg : Cfg) (capNum capSize highest : Nat) (conn : List Nat) (ops : List POp) :
    Bal conn ops (Proc.init cfg capNum capSize highest conn) := by
  refine ⟨⟨C14.good_init conn, C14.lim_init _ _ conn⟩, rfl, ?_⟩
  intro w
  cases w <;> exact Nat.le_refl 0

theorem pstep_bal (init : List Nat) (N S : Nat) (hN : N < 4294967296) (hS : S < 18446744073709551616) (O : Oracle)
    (p : Proc) (op : POp) (ops : List POp) (hv : validOp op) (hwf : wfOps (op :: ops)) (hsem : SemInv N S p.st)
    (h : Bal init (op :: ops) p) : Bal init ops (pstep O p op) := by
  cases op with
  | enq id o items =>
    have h' : Held init p.cfg (fun w => pneed w (fun i => delivs i ops) p.pending) p.st := h
    unfold pstep enqueue
    by_cases hok : (p.st.sem.tryAcquire (items.length % 4294967296) (totalSize items)).2 = true
    · simp only [hok, Bool.not_true, Bool.false_eq_true, if_false]
      have hacq := acquire_semInv N S hN hS p.st items hv.1 hv.2 hsem hok
      obtain ⟨b1, b2⟩ := hsem.2.2.2.2 h'.2.1
      obtain ⟨c1, c2⟩ := hacq.2.2.2.2 h'.2.1
      have c1' : (p.st.sem.tryAcquire (items.length % 4294967296) (totalSize items)).1.num + p.st.relNum =
          p.st.acqNum + items.length := c1
      have c2' : (p.st.sem.tryAcquire (items.length % 4294967296) (totalSize items)).1.size + p.st.relSize =
          p.st.acqSize + totalSize items := c2
      have hnd := delivs_nodup ops (wfOps_tail hwf) id
      have key := pump_held init p.cfg O (fun i => delivs i ops) (p.pending ++ [Batch.new id o items])
        { p.st with sem := (p.st.sem.tryAcquire (items.length % 4294967296) (totalSize items)).1,
                    acqNum := p.st.acqNum + items.length, acqSize := p.st.acqSize + totalSize items }
        (fun _ => 0) ⟨h'.1, h'.2.1, fun w => by
          have hold := h'.2.2 w
          have hnew := need_new_le w id o items (delivs id ops) hnd
          show unrelOf w p.st.buf + (0 + pneed w (fun i => delivs i ops) (p.pending ++ [Batch.new id o items])) ≤
            semOf w (p.st.sem.tryAcquire (items.length % 4294967296) (totalSize items)).1
          rw [pneed_append]
          show unrelOf w p.st.buf + (0 + (pneed w (fun i => delivs i ops) p.pending +
            (need w (Batch.new id o items) (delivs id ops) + 0))) ≤
            semOf w (p.st.sem.tryAcquire (items.length % 4294967296) (totalSize items)).1
          cases w
          · rw [totalW_false] at hnew
            show _ ≤ (p.st.sem.tryAcquire (items.length % 4294967296) (totalSize items)).1.num
            have hold' : unrelOf false p.st.buf + pneed false (fun i => delivs i ops) p.pending ≤ p.st.sem.num := hold
            omega
          · rw [totalW_true] at hnew
            show _ ≤ (p.st.sem.tryAcquire (items.length % 4294967296) (totalSize items)).1.size
            have hold' : unrelOf true p.st.buf + pneed true (fun i => delivs i ops) p.pending ≤ p.st.sem.size := hold
            omega⟩
      exact key.mono (fun w => Nat.le_of_eq (Nat.zero_add _).symm)
    · have : (p.st.sem.tryAcquire (items.length % 4294967296) (totalSize items)).2 = false := by simpa using hok
      simp only [this, Bool.not_false, if_true]
      exact h'
  | deliver id pos err =>
    unfold pstep deliver
    have key := pump_held init p.cfg O (fun i => delivs i ops)
      (p.pending.map (fun b => if b.id = id then { b with queue := b.queue ++ [(pos, err)] } else b)) p.st
      (fun _ => 0) (Held.mono h (fun w => by rw [pneed_deliver]; omega))
    exact key.mono (fun w => Nat.le_of_eq (Nat.zero_add _).symm)
  | stop =>
    have hb' := pstep_bufInv init O p POp.stop h.1
    rw [pstep_cfg] at hb'
    refine ⟨hb', ?_⟩
    show SemHeld (fun w => unrelOf w (absorb _ _ _).buf + 0) (absorb _ _ _)
    rw [absorb_buf]
    apply semHeld_absorb
    obtain ⟨d, hd⟩ := clear_ext p.st.buf
    refine ⟨h.2.1, fun w => ?_⟩
    show unrelOf w (clear p.st.buf) + 0 + relOf w (clear p.st.buf).recs (added p.st.buf (clear p.st.buf)) ≤
      semOf w p.st.sem.terminate
    rw [semOf_terminate, added_of_ext hd]
    unfold relOf
    rw [relW_reverse]
    have acc := clear_acc init p.st.buf h.1.1 d hd w
    unfold relOf at acc
    have hold := h.2.2 w
    have hold' : unrelOf w p.st.buf + pneed w (fun i => delivs i (POp.stop :: ops)) p.pending ≤ semOf w p.st.sem := hold
    omega

theorem prun_bal (init : List Nat) (N S : Nat) (hN : N < 4294967296) (hS : S < 18446744073709551616) (O : Oracle) :
    ∀ ops p, (∀ op ∈ ops, validOp op) → wfOps ops → SemInv N S p.st → Bal init ops p →
      Bal init [] (prun O p ops) := by
  intro ops
  induction ops with
  | nil => intro p _ _ _ h; exact h
  | cons op ops ih =>
    intro p hv hwf hsem h
    unfold prun
    rw [List.foldl_cons]
    exact ih _ (fun o ho => hv o (List.mem_cons_of_mem _ ho)) (wfOps_tail hwf)
      (pstep_semInv N S hN hS O p op (hv op List.mem_cons_self) hsem)
      (pstep_bal init N S hN hS O p op ops (hv op List.mem_cons_self) hwf hsem h)

/-! ### the ghost flag `warned` is faithful: a `PCb.warn` entry in the trace raises it -/

def WarnFlag (st : PSt) : Prop := PCb.warn ∈ st.trace → st.warned = true

theorem warnFlag_log {st st' : PSt} (x : PCb) (hx : x ≠ PCb.warn) (ht : st'.trace = x :: st.trace)
    (hw : st'.warned = st.warned) (h : WarnFlag st) : WarnFlag st' := by
  intro hm
  rw [ht] at hm
  rw [hw]
  rcases List.mem_cons.1 hm with e | hm'
  · exact absurd e.symm hx
  · exact h hm'

theorem warnFlag_same {st st' : PSt} (ht : st'.trace = st.trace) (hw : st'.warned = st.warned)
    (h : WarnFlag st) : WarnFlag st' := by
  intro hm
  rw [ht] at hm
  rw [hw]; exact h hm

theorem warnFlag_relTag (st : PSt) (tag sz e : Nat) (h : WarnFlag st) : WarnFlag (relTag st tag sz e) := by
  intro hm
  show (st.warned || (st.sem.release sz).2) = true
  have hm' : PCb.warn ∈ PCb.released tag e :: ((if (st.sem.release sz).2 then [PCb.warn] else []) ++ st.trace) := hm
  cases hr : (st.sem.release sz).2
  · rw [hr] at hm'
    rcases List.mem_cons.1 hm' with e1 | e1
    · cases e1
    · rw [h e1]; rfl
  · simp

theorem warnFlag_absorb (recs : Nat → Rec) : ∀ l st, WarnFlag st → WarnFlag (absorb recs l st) := by
  intro l
  induction l with
  | nil => intro st h; exact h
  | cons x l ih =>
    intro st h
    cases x with
    | check c ok => exact ih _ (warnFlag_log (.check (recs c).tag ok) (by intro e; cases e) rfl rfl h)
    | process c ok => exact ih _ (warnFlag_log (.process (recs c).tag ok) (by intro e; cases e) rfl rfl h)
    | released c e => exact ih _ (warnFlag_relTag st _ _ e h)
    | connect id => exact ih _ h

theorem warnFlag_stable (cfg : Cfg) (O : Oracle) : Stable cfg O WarnFlag where
  handle := by
    intro st it e h
    have h1 : WarnFlag (st1Of (mark st it)) := warnFlag_log .highest (by intro e; cases e) rfl rfl h
    have h2 : WarnFlag (st2Of (mark st it) it) := by
      unfold st2Of
      split
      · exact h1
      · exact warnFlag_log (.push it.tag) (by intro e; cases e) rfl rfl h1
    rw [handle_eq]
    split
    · exact warnFlag_relTag _ _ _ _ (warnFlag_same (st := st) rfl rfl h)
    · split
      · exact warnFlag_relTag _ _ _ _ h1
      · exact warnFlag_absorb _ _ _ (warnFlag_same (st := st2Of (mark st it) it) rfl rfl h2)
  finish := by
    intro b st h
    unfold finish
    split
    · exact warnFlag_log (.done b.id (st.sem.num, st.sem.size) st.buf.total) (by intro e; cases e) rfl rfl h
    · exact warnFlag_log (.done b.id (st.sem.num, st.sem.size) st.buf.total) (by intro e; cases e) rfl rfl
        (warnFlag_log (st' := { st with trace := .announce b.id b.toRequest :: st.trace })
          (.announce b.id b.toRequest) (by intro e; cases e) rfl rfl h)

theorem pstep_warnFlag (O : Oracle) (p : Proc) (op : POp) (h : WarnFlag p.st) : WarnFlag (pstep O p op).st := by
  have hst := warnFlag_stable p.cfg O
  cases op with
  | enq id o items =>
    unfold pstep enqueue
    by_cases hok : (p.st.sem.tryAcquire (items.length % 4294967296) (totalSize items)).2 = true
    · simp only [hok, Bool.not_true, Bool.false_eq_true, if_false]
      exact pump_pres hst _ _ (warnFlag_same (st := p.st) rfl rfl h)
    · have : (p.st.sem.tryAcquire (items.length % 4294967296) (totalSize items)).2 = false := by simpa using hok
      simp only [this, Bool.not_false, if_true]
      exact h
  | deliver id pos err =>
    unfold pstep deliver
    exact pump_pres hst _ _ h
  | stop =>
    unfold pstep stop
    exact warnFlag_absorb _ _ _ (warnFlag_same (st := p.st) rfl rfl h)

theorem prun_warnFlag (O : Oracle) : ∀ ops p, WarnFlag p.st → WarnFlag (prun O p ops).st := by
  intro ops
  induction ops with
  | nil => intro p h; exact h
  | cons op ops ih =>
    intro p h
    unfold prun
    rw [List.foldl_cons]
    exact ih _ (pstep_warnFlag O p op h)

end C15
