import LachesisVerif.Proofs.VecHB8
/-!
The vector of the new event before fork detection (`mergedParents`): fork marker if some parent
carries it, otherwise the faithful entry of the union; sound w.r.t. forks seen by the new event.
-/
namespace VecProofs
open Model.Vec Model.Vec.VState

theorem v0_get (me : Nat) (x : BSeq) (b : Nat) :
    ((HBV.zero.set me x).get b) = if b = me then x else BSeq.zero := rfl

theorem v0_rep (e : Event) (hpos : 1 ≤ e.seq) (me b : Nat) :
    Rep (fun k => b = me ∧ k = e.seq) ((HBV.zero.set me ⟨e.seq, e.seq⟩).get b) := by
  rw [v0_get]
  by_cases hb : b = me
  · rw [if_pos hb]
    exact Or.inr ⟨⟨hb, rfl⟩, ⟨hb, rfl⟩, fun n hn => by rw [hn.2]; exact ⟨Nat.le_refl _, Nat.le_refl _⟩, hpos⟩
  · rw [if_neg hb]
    exact Or.inl ⟨fun n hn => hb hn.1, rfl⟩

section
variable {nVals : Nat} {h : Hist} {s s' : VState} {e : Event} {me : Nat} {nBrAt : Nat → Nat}

theorem mergedParents_get (hbt : HBT) (nBr : Nat) (b : Nat) :
    (mergedParents hbt nBr me e).get b =
      if b < nBr then e.parents.foldl (fun m p => mergeOne m ((hbt.get p).get b))
        ((HBV.zero.set me ⟨e.seq, e.seq⟩).get b)
      else (HBV.zero.set me ⟨e.seq, e.seq⟩).get b := by
  unfold mergedParents
  exact foldCollect_apply (fun p => hbt.get p) nBr e.parents _ b

/-- unforked entries of the merged vector are faithful for the new event -/
theorem mergedParents_rep (hv : Valid nVals h) (hn : ValidNext nVals h e) (V : AddView h s e s' me)
    (bi' : BranchInv (h ++ [e]) s') (vi : VecInv h s nBrAt) (vi2 : VecInv2 h s nBrAt) :
    RepV (ObsSeq (h ++ [e]) s' h.length) (mergedParents s.hb s'.nBr me e) := by
  intro b hf
  rw [mergedParents_get] at hf ⊢
  by_cases hb : b < s'.nBr
  · rw [if_pos hb] at hf ⊢
    have hnf := (foldMerge_not_fork _ _ _ hf).2
    have hT : ∀ p, p ∈ e.parents → Rep (ObsSeq h s p b) ((s.hb.get p).get b) :=
      fun p hp => entry_rep vi vi2 (hn.parents_lt p hp) (hnf p hp)
    have := foldMerge_rep (fun p => (s.hb.get p).get b) (fun p => ObsSeq h s p b) e.parents hT
      (v0_rep e hn.seq_pos me b)
    exact this.congr (fun k => (obsSeq_snoc_new hv hn V b k).symm)
  · rw [if_neg hb]
    have hme := V.me_lt
    rw [v0_get, if_neg (by omega)]
    refine Or.inl ⟨?_, rfl⟩
    rintro k ⟨i, hai, hib, _⟩
    have li := hai.lt_right (Valid.snoc hv hn)
    have := bi'.branch_lt i li
    omega

/-- the marker in the merged vector comes from a parent, hence from a fork seen by the new event -/
theorem mergedParents_sound (hv : Valid nVals h) (hn : ValidNext nVals h e) (V : AddView h s e s' me)
    (vi : VecInv h s nBrAt) (vi2 : VecInv2 h s nBrAt) :
    SoundV s' (ForkSeen (h ++ [e]) h.length) (mergedParents s.hb s'.nBr me e) := by
  intro b hf
  rw [mergedParents_get] at hf
  have hme := V.me_lt
  by_cases hb : b < s'.nBr
  · rw [if_pos hb] at hf
    refine ⟨hb, ?_⟩
    by_cases hex : ∃ p, p ∈ e.parents ∧ ((s.hb.get p).get b).isFork = true
    · obtain ⟨p, hp, hpf⟩ := hex
      have lp := hn.parents_lt p hp
      obtain ⟨hbp, hF⟩ := vi.sound p b lp hpf
      have hbs : b < s.nBr := by have := vi.mono p lp; omega
      rw [V.creatorOf_old b hbs]
      exact forkSeen_new_of_parent hv hn hp hF
    · have hnf : ∀ p, p ∈ e.parents → ((s.hb.get p).get b).isFork = false := by
        intro p hp
        cases hpf : ((s.hb.get p).get b).isFork with
        | false => rfl
        | true => exact absurd ⟨p, hp, hpf⟩ hex
      have hT : ∀ p, p ∈ e.parents → Rep (ObsSeq h s p b) ((s.hb.get p).get b) :=
        fun p hp => entry_rep vi vi2 (hn.parents_lt p hp) (hnf p hp)
      have := (foldMerge_rep (fun p => (s.hb.get p).get b) (fun p => ObsSeq h s p b) e.parents hT
        (v0_rep e hn.seq_pos me b)).not_fork
      rw [this] at hf
      exact absurd hf (by decide)
  · rw [if_neg hb, v0_get, if_neg (by omega)] at hf
    exact absurd hf (by decide)

end
end VecProofs
