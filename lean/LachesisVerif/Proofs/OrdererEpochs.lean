import LachesisVerif.Proofs.OrdererFinal
import LachesisVerif.Proofs.OrdererRestart2
/-!
Several epochs (C01/C09), part 1: an instance whose application seals, against the same instance
with an application that never seals (`noSeal`, the setting of L5).

`cut sealAt ep ds`: of the decided frames `ds` an unsealing instance emits in epoch `ep`, the prefix up
to and including the first frame at which the application seals (that entry marked sealed), with the
validator set returned. `boot_sim`, `handle_sim`, `process_sim`: whenever the unsealing instance
returns `(s', ds)`, the sealing one returns the same if `cut ds = none`, and otherwise the cut list
and *exactly* `initial (epoch+1) nv` (C09_seal_state).
-/
namespace OrdererEpochs
open Model.Pos Model.Election Model.Orderer ElectionProofs ElectionRefine OrdererSeal OrdererRestart

/-- the same oracles, with an application that never seals -/
def noSeal (env : Env) : Env := { env with sealAt := fun _ _ => none }

def cut (sealAt : Nat → Nat → Option Vals) (ep : Nat) : List Decided → Option (List Decided × Vals)
  | [] => none
  | d :: ds =>
    match sealAt ep d.frame with
    | some nv => some ([{ d with sealed := true }], nv)
    | none =>
      match cut sealAt ep ds with
      | some (l, nv) => some (d :: l, nv)
      | none => none

theorem cut_append_some (sealAt : Nat → Nat → Option Vals) (ep : Nat) (a b : List Decided) (r : List Decided × Vals)
    (h : cut sealAt ep a = some r) : cut sealAt ep (a ++ b) = some r := by
  induction a generalizing r with
  | nil => simp [cut] at h
  | cons d ds ih =>
    simp only [List.cons_append, cut] at h ⊢
    cases hs : sealAt ep d.frame with
    | some nv => rw [hs] at h; exact h
    | none =>
      rw [hs] at h
      simp only at h ⊢
      cases hc : cut sealAt ep ds with
      | none => rw [hc] at h; cases h
      | some q => rw [ih q hc]; rw [hc] at h; exact h

theorem cut_append_none (sealAt : Nat → Nat → Option Vals) (ep : Nat) (a b : List Decided)
    (h : cut sealAt ep a = none) :
    cut sealAt ep (a ++ b) = (cut sealAt ep b).map (fun q => (a ++ q.1, q.2)) := by
  induction a with
  | nil =>
    rw [List.nil_append]
    cases cut sealAt ep b with
    | none => rfl
    | some q => simp
  | cons d ds ih =>
    simp only [List.cons_append, cut] at h ⊢
    cases hs : sealAt ep d.frame with
    | some nv => rw [hs] at h; cases h
    | none =>
      rw [hs] at h
      simp only at h ⊢
      cases hc : cut sealAt ep ds with
      | some q => rw [hc] at h; cases h
      | none =>
        rw [ih hc]
        cases cut sealAt ep b <;> rfl

theorem cut_none_snoc (sealAt : Nat → Nat → Option Vals) (ep : Nat) (a : List Decided) (d : Decided)
    (h : cut sealAt ep a = none) (hd : sealAt ep d.frame = none) : cut sealAt ep (a ++ [d]) = none := by
  rw [cut_append_none _ _ _ _ h]
  simp [cut, hd]

theorem cut_seal_snoc (sealAt : Nat → Nat → Option Vals) (ep : Nat) (a more : List Decided) (d : Decided) (nv : Vals)
    (h : cut sealAt ep a = none) (hd : sealAt ep d.frame = some nv) :
    cut sealAt ep (a ++ [d] ++ more) = some (a ++ [{ d with sealed := true }], nv) := by
  rw [List.append_assoc, cut_append_none _ _ _ _ h]
  simp [cut, hd]

/-- a cut list ends with a sealed entry, at a frame where the application seals -/
theorem cut_some (sealAt : Nat → Nat → Option Vals) (ep : Nat) (ds l : List Decided) (nv : Vals)
    (h : cut sealAt ep ds = some (l, nv)) : l.any (·.sealed) = true ∧ ∃ F, sealAt ep F = some nv := by
  induction ds generalizing l with
  | nil => simp [cut] at h
  | cons d rest ih =>
    simp only [cut] at h
    cases hs : sealAt ep d.frame with
    | some nv' =>
      rw [hs] at h
      simp only [Option.some.injEq, Prod.mk.injEq] at h
      obtain ⟨rfl, rfl⟩ := h
      exact ⟨by simp, _, hs⟩
    | none =>
      rw [hs] at h
      simp only at h
      cases hc : cut sealAt ep rest with
      | none => rw [hc] at h; cases h
      | some q =>
        obtain ⟨l', nv'⟩ := q
        rw [hc] at h
        simp only [Option.some.injEq, Prod.mk.injEq] at h
        obtain ⟨rfl, rfl⟩ := h
        obtain ⟨a, b⟩ := ih l' hc
        exact ⟨by simp [a], b⟩

theorem cut_congr (sa₁ sa₂ : Nat → Nat → Option Vals) (ep : Nat) (h : ∀ f, sa₁ ep f = sa₂ ep f) (ds : List Decided) :
    cut sa₁ ep ds = cut sa₂ ep ds := by
  induction ds with
  | nil => rfl
  | cons d rest ih => simp only [cut, h, ih]

/-! ### the parts that do not consult the application -/

theorem pkr_noSeal (env : Env) (s : OState) (fuel f : Nat) (el : Election) :
    processKnownRoots (noSeal env) s fuel f el = processKnownRoots env s fuel f el :=
  (processKnownRoots_eq (noSeal env) s fuel f el).trans (processKnownRoots_eq env s fuel f el).symm

theorem insertRoot_noSeal (env : Env) (r : Root) (l : List Root) : insertRoot (noSeal env) r l = insertRoot env r l := by
  induction l with
  | nil => rfl
  | cons x xs ih => simp only [insertRoot, ih]; rfl

theorem insRoots_noSeal (env : Env) (id c : Nat) (fs : List Nat) (l : List Root) :
    insRoots (noSeal env) id c fs l = insRoots env id c fs l := by
  unfold insRoots
  induction fs generalizing l with
  | nil => rfl
  | cons f rest ih => simp only [List.foldl_cons, insertRoot_noSeal]

theorem onFrameDecided_noSeal (env : Env) (s : OState) (f a : Nat) :
    onFrameDecided (noSeal env) s f a =
      ({ s with ldf := Gen.Orderer.nextLastDecided f, el := reset s.vals (Gen.Orderer.nextFrameToDecide f) },
       ⟨s.epoch, f, a, false⟩) := rfl

theorem onFrameDecided_none (env : Env) (s : OState) (f a : Nat) (h : env.sealAt s.epoch f = none) :
    onFrameDecided env s f a =
      ({ s with ldf := Gen.Orderer.nextLastDecided f, el := reset s.vals (Gen.Orderer.nextFrameToDecide f) },
       ⟨s.epoch, f, a, false⟩) := by
  unfold onFrameDecided; rw [h]

theorem onFrameDecided_some (env : Env) (s : OState) (f a : Nat) (nv : Vals) (h : env.sealAt s.epoch f = some nv) :
    onFrameDecided env s f a = (initial (Gen.Orderer.sealedEpoch s.epoch) nv, ⟨s.epoch, f, a, true⟩) := by
  unfold onFrameDecided; rw [h]; rfl

end OrdererEpochs
