import LachesisVerif.Proofs.OrdererFinal
import LachesisVerif.Proofs.OrdererRestart2
/-!
C08, part 3: a restart is invisible for whole continuations.

Two instances with the same persisted state (epoch, validators, `LastDecidedFrame`, roots table) whose
open elections both satisfy the L5 invariant `OpenEl` (e.g. the running instance and the one rebuilt
by `bootstrap`) go through `process` in lock-step: the next root gives the same outcome in both
(`step_agree`, from `Complete` + `chooseAtropos = none` of the one and the provenance `JC` of the
other), so both emit the same decided frames and stay in the relation. `bootstrap` on a state of a
running instance decides nothing and re-establishes `OpenEl` (`restart_open`). Everything is derived
from `OInv` / `OpenEl` (L5); the hypotheses `RunningFeed`, `Contiguous`, `Setup`, `hunseen` of
`C08_restart_next_process_partial` are no longer needed.
-/
namespace OrdererRestart3
open Model.Pos Model.Election Model.Orderer ElectionRules ElectionRefine ElectionProofs VecProofs
open OrdererProofs OrdererRestart OrdererSeal

section Step
variable {N : Net} {vals : Vals} {f : Nat} {observe : Nat → Nat → Bool} {FR : Nat → List Root}

/-- An open election `elW` (nothing decidable, every decision derivable from its fed roots stored)
    excludes that another election over the same table, fed with a subset of those roots, returns
    an Atropos. -/
theorem no_decision (S : Setup N vals f observe FR) {fedW : List Root} {elW : Election}
    (W : EInv N vals f FR fedW elW) {fed : List Root} {el : Election} (I : EInv N vals f FR fed el)
    (nr : Root) (hroot : nr ∈ FR nr.frame) (hb : nr.frame < 4294967296)
    (hclosed : ∀ p ∈ FR (nr.frame - 1), f < p.frame → observe nr.id p.id = true → p ∈ fed)
    (hsub : ∀ r ∈ nr :: fed, f < r.frame → r ∈ fedW)
    (el' : Election) (b : Nat × Nat) (he : processRoot observe FR el nr = .ok (el', some b)) : False := by
  rcases processRoot_refines S I.js fed I.stored nr hroot hb hclosed with ⟨h, _⟩ | ⟨el1, res1, he1, js', _, _⟩
  · rw [h] at he; cases he
  · rw [he] at he1
    cases he1
    obtain ⟨jc', hch, _⟩ := processRoot_complete S I.js fed I.stored I.jc I.complete nr hroot hb hclosed
      el' (some b) he
    obtain ⟨b1, b2⟩ := b
    unfold chooseAtropos at hch
    rw [sorted_eq S.vals js'] at hch
    obtain ⟨_, v₁, _, hv₁, hno₁, vote₁, hl₁, hy₁, _⟩ := chooseAtroposFrom_range el' N.w N.nVals 0 b1 b2 hch
    have storedW : ∀ s vote, el'.decidedRoots.lookup s = some vote →
        ∃ vote', elW.decidedRoots.lookup s = some vote' := by
      intro s vote hl
      obtain ⟨hd, r, hm⟩ := jc'.dec_src s vote (lookup_mem _ _ _ hl)
      obtain ⟨hfr, _, hs, _, _⟩ := js'.votes r s vote hm
      obtain ⟨d1, d2⟩ := jc'.votes_dec r s vote hm hd
      apply W.complete r (hsub r (jc'.votes_fed r s vote hm) hfr) hfr s hs
      cases hy : vote.yes with
      | true => exact Or.inl (d1 hy)
      | false => exact Or.inr (d2 hy)
    have hnone := W.undecided
    unfold chooseAtropos at hnone
    rw [sorted_eq S.vals W.js] at hnone
    obtain ⟨v₀, _, hv₀, hl₀, hno₀⟩ := chooseAtroposFrom_range_none elW N.w N.nVals 0 hnone
    have dy₁ : N.DecidedYes f v₁ := ((js'.decided v₁ vote₁ (lookup_mem _ _ _ hl₁)).2.1 hy₁).1
    rcases Nat.lt_trichotomy v₀ v₁ with hlt | heq | hgt
    · obtain ⟨vt, hlu, _⟩ := hno₁ v₀ (Nat.zero_le _) hlt
      obtain ⟨vote', hl'⟩ := storedW v₀ vt hlu
      rw [hl₀] at hl'; cases hl'
    · subst heq
      obtain ⟨vote', hl'⟩ := storedW v₀ vote₁ hl₁
      rw [hl₀] at hl'; cases hl'
    · obtain ⟨vt, hlu, hyu⟩ := hno₀ v₁ (Nat.zero_le _) hgt
      have dn := (W.js.decided v₁ vt (lookup_mem _ _ _ hlu)).2.2 hyu
      exact (N.L4_of_slotUnique S.accepted S.slots f v₁).1 dy₁ dn

/-- **The next root, semantically.** Two open elections over the same table whose fed roots agree
    above the frame to decide process the next root with the same outcome: nothing in both (and both
    stay open), or the same Atropos in both. -/
theorem step_agree (S : Setup N vals f observe FR) (hl6 : ¬ ∀ v, v < N.nVals → N.DecidedNo f v)
    {fed₁ fed₂ : List Root} {e₁ e₂ : Election} (I₁ : EInv N vals f FR fed₁ e₁) (I₂ : EInv N vals f FR fed₂ e₂)
    (h12 : ∀ r ∈ fed₁, f < r.frame → r ∈ fed₂) (h21 : ∀ r ∈ fed₂, f < r.frame → r ∈ fed₁)
    (nr : Root) (hroot : nr ∈ FR nr.frame) (hb : nr.frame < 4294967296)
    (hc₁ : ∀ p ∈ FR (nr.frame - 1), f < p.frame → observe nr.id p.id = true → p ∈ fed₁)
    (hc₂ : ∀ p ∈ FR (nr.frame - 1), f < p.frame → observe nr.id p.id = true → p ∈ fed₂) :
    (∃ e₁' e₂', processRoot observe FR e₁ nr = .ok (e₁', none) ∧ processRoot observe FR e₂ nr = .ok (e₂', none) ∧
      EInv N vals f FR (nr :: fed₁) e₁' ∧ EInv N vals f FR (nr :: fed₂) e₂') ∨
    (∃ e₁' e₂' a, processRoot observe FR e₁ nr = .ok (e₁', some (f, a)) ∧
      processRoot observe FR e₂ nr = .ok (e₂', some (f, a)) ∧ N.IsAtropos f a ∧
      ∃ r, r ∈ FR r.frame ∧ f < r.frame) := by
  have s12 : ∀ r ∈ nr :: fed₁, f < r.frame → r ∈ nr :: fed₂ := by
    intro r hr hfr
    rcases List.mem_cons.1 hr with rfl | hr
    · exact List.mem_cons_self
    · exact List.mem_cons_of_mem _ (h12 r hr hfr)
  have s21 : ∀ r ∈ nr :: fed₂, f < r.frame → r ∈ nr :: fed₁ := by
    intro r hr hfr
    rcases List.mem_cons.1 hr with rfl | hr
    · exact List.mem_cons_self
    · exact List.mem_cons_of_mem _ (h21 r hr hfr)
  rcases einv_step S hl6 I₁ nr hroot hb hc₁ with ⟨e₁', he₁, E₁⟩ | ⟨e₁', a₁, he₁, hat₁, hr₁⟩
  · rcases einv_step S hl6 I₂ nr hroot hb hc₂ with ⟨e₂', he₂, E₂⟩ | ⟨e₂', a₂, he₂, _, _⟩
    · exact Or.inl ⟨e₁', e₂', he₁, he₂, E₁, E₂⟩
    · exact (no_decision S E₁ I₂ nr hroot hb hc₂ s21 e₂' _ he₂).elim
  · rcases einv_step S hl6 I₂ nr hroot hb hc₂ with ⟨e₂', he₂, E₂⟩ | ⟨e₂', a₂, he₂, hat₂, _⟩
    · exact (no_decision S E₂ I₁ nr hroot hb hc₁ s12 e₁' _ he₁).elim
    · have : a₁ = a₂ := N.atroposUnique_of_slotUnique S.accepted S.slots f _ _ hat₁ hat₂
      subst this
      exact Or.inr ⟨e₁', e₂', a₁, he₁, he₂, hat₁, hr₁⟩

/-- feeding a closed list of roots to an election that is dominated by an open witness election:
    nothing is returned and the election stays open -/
theorem runRoots_open (S : Setup N vals f observe FR) (hl6 : ¬ ∀ v, v < N.nVals → N.DecidedNo f v)
    {fedW : List Root} {elW : Election} (W : EInv N vals f FR fedW elW) (L : List Root)
    (hL : ∀ r ∈ L, f < r.frame → r ∈ fedW) :
    ∀ (fed : List Root) (el : Election), EInv N vals f FR fed el → (∀ r ∈ fed, f < r.frame → r ∈ fedW) →
      FeedClosed observe FR f fed L →
      ∃ el', runRoots observe FR el L = .ok (el', none) ∧ EInv N vals f FR (L.reverse ++ fed) el' := by
  induction L with
  | nil => intro fed el I _ _; exact ⟨el, rfl, I⟩
  | cons r rest ih =>
    intro fed el I hsub hfc
    obtain ⟨⟨h1, h2, h3⟩, hrest⟩ := hfc
    have hsub' : ∀ x ∈ r :: fed, f < x.frame → x ∈ fedW := by
      intro x hx hfx
      rcases List.mem_cons.1 hx with rfl | hx
      · exact hL x List.mem_cons_self hfx
      · exact hsub x hx hfx
    rcases einv_step S hl6 I r h1 h2 h3 with ⟨el', he, I'⟩ | ⟨el', a, he, _, _⟩
    · obtain ⟨el'', h, I''⟩ := ih (fun x hx => hL x (List.mem_cons_of_mem _ hx)) (r :: fed) el' I' hsub' hrest
      refine ⟨el'', ?_, ?_⟩
      · simp only [runRoots, he]; exact h
      · have hrev : (r :: rest).reverse ++ fed = rest.reverse ++ (r :: fed) := by
          rw [List.reverse_cons, List.append_assoc]; rfl
        rw [hrev]; exact I''
    · exact (no_decision S W I r h1 h2 h3 hsub' el' _ he).elim

end Step

/-! ### a restart of a running instance decides nothing and is open again -/

theorem samePersisted_eq {s s' : OState} (h : SamePersisted s s') : s' = { s with el := s'.el } := by
  cases s; cases s'
  obtain ⟨h1, h2, h3, h4⟩ := h
  simp only at h1 h2 h3 h4
  subst h1 h2 h3 h4
  rfl

theorem contiguous_of_table {N : Net} {done : List Nat} {roots : List Root} (hfa : N.FramesAccepted)
    (T : Table N done roots) (hc : Closed N done) (f0 : Nat) (hf0 : 1 ≤ f0) : Contiguous roots f0 := by
  intro r hr _ g hg1 hg2 hnil
  obtain ⟨p, hp, hpf⟩ := frames_contig hfa T hc (r.frame - g) r hr g (by omega) (by omega)
  have : p ∈ framesOf roots g := (mem_framesOf roots g p).2 ⟨hp, hpf⟩
  rw [hnil] at this; cases this

/-- **`RunningFeed`, `Contiguous`, `Setup` discharged.** In a state reached by a running instance (L5:
    `OInv`, `OpenEl`), `bootstrap` decides nothing, reports no seal, keeps the persisted part, and the
    election it rebuilds from the roots table satisfies the L5 invariant again. -/
theorem restart_open {N : Net} {vals : Vals} {env : Env} (C : Ctx N vals env) {done : List Nat}
    {blocks : List (Nat × Nat)} {s : OState} (I : OInv N vals done blocks s)
    (O : OpenEl N vals s (fun _ => False)) :
    ∃ el₂, bootstrap env s = .ok ({ s with el := el₂ }, [], false) ∧
      OpenEl N vals { s with el := el₂ } (fun _ => False) := by
  have hldf := I.ldf_lt C.hb
  have hbf : Gen.Orderer.bootstrapFrameToDecide s.ldf = s.ldf + 1 := by
    unfold Gen.Orderer.bootstrapFrameToDecide; exact Nat.mod_eq_of_lt (by omega)
  have hff : Gen.Orderer.knownRootsFirstFrame s.ldf = s.ldf + 1 := by
    unfold Gen.Orderer.knownRootsFirstFrame; exact Nat.mod_eq_of_lt (by omega)
  have S : Setup N vals (s.ldf + 1) env.observe (frameRoots s) :=
    setup_of_table C.hv C.hfa C.hbft C.ok C.obs I.table I.closed _ (by omega)
  obtain ⟨fedW, W, _, hWall⟩ := O
  have hb : ∀ r ∈ s.roots, r.frame < 4294967296 := fun r hr => by
    have := table_frame_lt C.hb I.table r hr; omega
  have hfc : FeedClosed env.observe (frameRoots s) (s.ldf + 1) []
      (knownList s.roots (s.roots.length + 2) (s.ldf + 1)) :=
    knownList_closed env.observe s.roots _ _ hb
  have hL : ∀ r ∈ knownList s.roots (s.roots.length + 2) (s.ldf + 1), s.ldf + 1 < r.frame → r ∈ fedW := by
    intro r hr hfr
    exact (hWall r ((mem_knownList _ _ _ r).1 hr).1 hfr).elim id False.elim
  obtain ⟨el', hrun, I'⟩ := runRoots_open S (C.l6 _ (by omega)) W _ hL [] (reset vals (s.ldf + 1))
    (EInv_reset N vals _ _ C.ok C.nVals_pos) (by intro r hr; cases hr) hfc
  refine ⟨el', ?_, ?_⟩
  · apply bootstrap_of_run_none
    rw [hbf, hff, I.vals_eq]; exact hrun
  · refine ⟨_, I', ?_, ?_⟩
    · intro r hr
      rw [List.append_nil, List.mem_reverse] at hr
      exact ((mem_knownList _ _ _ r).1 hr).1
    · intro r hr hfr
      left
      rw [List.append_nil, List.mem_reverse]
      have hfr' : s.ldf + 1 < r.frame := hfr
      exact knownList_covers s.roots (s.ldf + 1)
        (contiguous_of_table C.hfa I.table I.closed _ (by omega)) r hr (by omega)

end OrdererRestart3
