import LachesisVerif.Proofs.VecLA
/-!
Determinism of the forkless-cause answer of the vector model (used by C07): if a valid history `h`
is embedded in a valid history `U` (injectively, preserving creator, seq and parents — i.e. the
events of `h` are events of `U` with the same ancestry), the model's `fc` answers coincide. Prefixes
(`C05_fc_stable`) and re-orderings (`HistIso`) are special cases.
-/
namespace VecProofs
open Model.Vec

/-- `f` embeds the history `h` into `U`: same events (creator, seq), same parents, no two positions
    identified. The image is automatically closed under ancestry. -/
structure HistEmb (h U : Hist) (f : Nat → Nat) : Prop where
  f_lt : ∀ i, i < h.length → f i < U.length
  inj : ∀ i j, i < h.length → j < h.length → f i = f j → i = j
  creator : ∀ i, i < h.length → (Hist.ev U (f i)).creator = (Hist.ev h i).creator
  seq : ∀ i, i < h.length → (Hist.ev U (f i)).seq = (Hist.ev h i).seq
  parents : ∀ i, i < h.length → (Hist.ev U (f i)).parents = (Hist.ev h i).parents.map f

section Emb
variable {h U : Hist} {f : Nat → Nat}

theorem emb_anc_fwd (I : HistEmb h U f) {a x : Nat} (hax : Anc h a x) : Anc U (f a) (f x) := by
  induction hax with
  | refl hlt => exact Anc.refl (I.f_lt _ hlt)
  | step hlt hp _ ih =>
    refine Anc.step (I.f_lt _ hlt) ?_ ih
    rw [I.parents _ hlt]; exact List.mem_map_of_mem hp

theorem emb_anc_back (I : HistEmb h U f) (hpf : PF h) {A y : Nat} (hAy : Anc U A y) :
    ∀ a, a < h.length → A = f a → ∃ x, x < h.length ∧ y = f x ∧ Anc h a x := by
  induction hAy with
  | refl _ => intro a ha hA; exact ⟨a, ha, hA, Anc.refl ha⟩
  | @step A p y _ hp _ ih =>
    intro a ha hA
    subst hA
    rw [I.parents a ha] at hp
    obtain ⟨p', hp', rfl⟩ := List.mem_map.1 hp
    have hp'lt : p' < h.length := by have := hpf a ha p' hp'; omega
    obtain ⟨x, hx, hy, hanc⟩ := ih p' hp'lt rfl
    exact ⟨x, hx, hy, Anc.step ha hp' hanc⟩

theorem emb_anc_iff (I : HistEmb h U f) (hpf : PF h) {a x : Nat} (ha : a < h.length) (hx : x < h.length) :
    Anc h a x ↔ Anc U (f a) (f x) := by
  refine ⟨emb_anc_fwd I, fun hax => ?_⟩
  obtain ⟨x', hx', he, hanc⟩ := emb_anc_back I hpf hax a ha rfl
  rw [I.inj x x' hx hx' he]; exact hanc

theorem emb_fork_iff (I : HistEmb h U f) (hpf : PF h) {a : Nat} (ha : a < h.length) (c : Nat) :
    ForkSeen h a c ↔ ForkSeen U (f a) c := by
  constructor
  · rintro ⟨x, y, hne, hx, hy, hcx, hcy, hs⟩
    have hxl := la_anc_lt_right' hx
    have hyl := la_anc_lt_right' hy
    refine ⟨f x, f y, fun heq => hne (I.inj x y hxl hyl heq), emb_anc_fwd I hx, emb_anc_fwd I hy, ?_, ?_, ?_⟩
    · rw [I.creator x hxl]; exact hcx
    · rw [I.creator y hyl]; exact hcy
    · rw [I.seq x hxl, I.seq y hyl]; exact hs
  · rintro ⟨X, Y, hne, hX, hY, hcx, hcy, hs⟩
    obtain ⟨x, hxl, rfl, hx⟩ := emb_anc_back I hpf hX a ha rfl
    obtain ⟨y, hyl, rfl, hy⟩ := emb_anc_back I hpf hY a ha rfl
    refine ⟨x, y, fun heq => hne (by rw [heq]), hx, hy, ?_, ?_, ?_⟩
    · rw [← I.creator x hxl]; exact hcx
    · rw [← I.creator y hyl]; exact hcy
    · rw [← I.seq x hxl, ← I.seq y hyl]; exact hs

theorem emb_between_iff (I : HistEmb h U f) (hpf : PF h) {a b : Nat} (ha : a < h.length) (hb : b < h.length)
    (v : Nat) :
    (∃ e, (Hist.ev h e).creator = v ∧ Anc h e b ∧ Anc h a e) ↔
    (∃ e, (Hist.ev U e).creator = v ∧ Anc U e (f b) ∧ Anc U (f a) e) := by
  constructor
  · rintro ⟨e, hc, heb, hae⟩
    have he := la_anc_lt_left heb
    exact ⟨f e, by rw [I.creator e he]; exact hc, emb_anc_fwd I heb, emb_anc_fwd I hae⟩
  · rintro ⟨E, hc, hEb, haE⟩
    obtain ⟨e, hel, rfl, hae⟩ := emb_anc_back I hpf haE a ha rfl
    refine ⟨e, by rw [← I.creator e hel]; exact hc, (emb_anc_iff I hpf hel hb).2 hEb, hae⟩

open Classical in
/-- the graph definition of forkless cause only looks at the ancestry of `a` -/
theorem emb_fcspec (I : HistEmb h U f) (hpf : PF h) (nVals : Nat) (weight : Nat → Nat)
    (quorum : Nat) {a b : Nat} (ha : a < h.length) (hb : b < h.length) :
    FCSpec h nVals weight quorum a b ↔ FCSpec U nVals weight quorum (f a) (f b) := by
  unfold FCSpec
  rw [I.creator b hb, emb_fork_iff I hpf ha]
  have hfil : (List.range nVals).filter (fun v => decide
        (¬ ForkSeen h a v ∧ ∃ e, (Hist.ev h e).creator = v ∧ Anc h e b ∧ Anc h a e)) =
      (List.range nVals).filter (fun v => decide
        (¬ ForkSeen U (f a) v ∧ ∃ e, (Hist.ev U e).creator = v ∧ Anc U e (f b) ∧ Anc U (f a) e)) := by
    apply List.filter_congr
    intro v _
    rw [decide_eq_decide, emb_fork_iff I hpf ha, emb_between_iff I hpf ha hb]
  rw [hfil]

end Emb

/-- the model's answer for an embedded history equals the answer in the larger one -/
theorem emb_fc {nVals : Nat} {h U : Hist} {f : Nat → Nat} (weight : Nat → Nat) (quorum : Nat)
    (I : HistEmb h U f)
    (hI : HBInv nVals h) (hv : Valid nVals h) (hpl : PLen h) (hsmall : nVals + h.length < 4294967296)
    (hI' : HBInv nVals U) (hv' : Valid nVals U) (hpl' : PLen U)
    (hsmall' : nVals + U.length < 4294967296) (hq : 0 < quorum)
    {a b : Nat} (ha : a < h.length) (hb : b < h.length) :
    (run nVals h).fc weight quorum a b = (run nVals U).fc weight quorum (f a) (f b) := by
  rw [Bool.eq_iff_iff,
    la_fc_eq_spec' weight quorum hI hv hpl hsmall hq ha hb,
    la_fc_eq_spec' weight quorum hI' hv' hpl' hsmall' hq (I.f_lt a ha) (I.f_lt b hb)]
  exact emb_fcspec I (la_valid_pf hv) nVals weight quorum ha hb

/-- a prefix is embedded by the identity -/
theorem emb_prefix (h ext : Hist) : HistEmb h (h ++ ext) id where
  f_lt := fun i hi => by simp only [id, List.length_append]; omega
  inj := fun _ _ _ _ h => h
  creator := fun i hi => by simp only [id]; rw [la_ev_append_left _ hi]
  seq := fun i hi => by simp only [id]; rw [la_ev_append_left _ hi]
  parents := fun i hi => by simp only [id]; rw [la_ev_append_left _ hi, List.map_id]

end VecProofs
