import LachesisVerif.Proofs.ElectionSingle
/-!
Single-election refinement (C10/C01), part E: the converse direction. Every decision that the rules
derive from a fed root is stored, so two closed feeds of the same roots return the same Atropos.
-/
namespace ElectionRefine
open Model.Pos Model.Election ElectionRules ElectionProofs VecProofs

/-- provenance of stored votes and decisions: votes belong to fed roots, decided votes are decisions
    of the rules, decided entries are stored decided votes -/
structure JC (N : Net) (f : Nat) (fed : List Root) (el : Election) : Prop where
  votes_fed : ∀ r s vote, ((r, s), vote) ∈ el.votes → r ∈ fed
  votes_dec : ∀ r s vote, ((r, s), vote) ∈ el.votes → vote.decided = true →
    (vote.yes = true → N.DecidesYes f (r.frame - f) r.id s) ∧ (vote.yes = false → N.DecidesNo f (r.frame - f) r.id s)
  dec_src : ∀ s vote, (s, vote) ∈ el.decidedRoots → vote.decided = true ∧ ∃ r, ((r, s), vote) ∈ el.votes

/-- every decision the rules derive from a fed root is stored -/
def Complete (N : Net) (f : Nat) (fed : List Root) (el : Election) : Prop :=
  ∀ r ∈ fed, f < r.frame → ∀ s, s < N.nVals →
    (N.DecidesYes f (r.frame - f) r.id s ∨ N.DecidesNo f (r.frame - f) r.id s) →
    ∃ vote, el.decidedRoots.lookup s = some vote

theorem JC.mono {N : Net} {f : Nat} {fed fed' : List Root} {el : Election} (h : JC N f fed el)
    (hsub : ∀ r ∈ fed, r ∈ fed') : JC N f fed' el :=
  ⟨fun r s v hm => hsub r (h.votes_fed r s v hm), h.votes_dec, h.dec_src⟩

theorem JC_reset (N : Net) (vals : Vals) (f : Nat) : JC N f [] (reset vals f) :=
  ⟨by intro r s v h; simp [reset] at h, by intro r s v h; simp [reset] at h, by intro s v h; simp [reset] at h⟩

section Step
variable {N : Net} {vals : Vals} {f : Nat} {observe : Nat → Nat → Bool} {frameRoots : Nat → List Root}

theorem pushAll_complete (S : Setup N vals f observe frameRoots) {el : Election} (js : JS N vals f frameRoots el)
    (fed : List Root) (jc : JC N f fed el) (hcomp : Complete N f fed el) (nr : Root) (vf : Nat → VoteValue)
    (hvf : ∀ s ∈ notDecided el, VF N f (nr.frame - f) nr.id s (vf s)) :
    JC N f (nr :: fed) (pushAll nr vf (notDecided el) el) ∧
    Complete N f (nr :: fed) (pushAll nr vf (notDecided el) el) := by
  have keys : ∀ s vote, el.decidedRoots.lookup s = some vote →
      ∃ vote', (pushAll nr vf (notDecided el) el).decidedRoots.lookup s = some vote' := by
    intro s vote hl
    apply lookup_isSome_of_key
    exact List.mem_map.2 ⟨(s, vote), (pushAll_decided_mem nr vf (notDecided el) el _).2 (Or.inl (lookup_mem _ _ _ hl)), rfl⟩
  constructor
  · refine ⟨?_, ?_, ?_⟩
    · intro r s vote hm
      rcases (pushAll_votes_mem nr vf (notDecided el) el _).1 hm with h | ⟨s', _, h⟩
      · exact List.mem_cons_of_mem _ (jc.votes_fed r s vote h)
      · cases h; exact List.mem_cons_self
    · intro r s vote hm hd
      rcases (pushAll_votes_mem nr vf (notDecided el) el _).1 hm with h | ⟨s', hs', h⟩
      · exact jc.votes_dec r s vote h hd
      · cases h
        exact ⟨(hvf s hs').decYes hd, (hvf s hs').decNo hd⟩
    · intro s vote hm
      rcases (pushAll_decided_mem nr vf (notDecided el) el _).1 hm with h | ⟨s', hs', hd, h⟩
      · obtain ⟨h1, r, h2⟩ := jc.dec_src s vote h
        exact ⟨h1, r, (pushAll_votes_mem nr vf (notDecided el) el _).2 (Or.inl h2)⟩
      · cases h
        exact ⟨hd, nr, (pushAll_votes_mem nr vf (notDecided el) el _).2 (Or.inr ⟨s, hs', rfl⟩)⟩
  · intro r hr hfr s hs hdec
    rcases List.mem_cons.1 hr with rfl | hr
    · by_cases hnd : s ∈ notDecided el
      · have hd := (hvf s hnd).decIff.2 hdec
        apply lookup_isSome_of_key
        exact List.mem_map.2 ⟨(s, vf s), (pushAll_decided_mem r vf (notDecided el) el _).2
          (Or.inr ⟨s, hnd, hd, rfl⟩), rfl⟩
      · have hids : s ∈ el.vals.sorted.map (·.1) := by
          rw [js.vals, canon_ids S.vals.canon]; exact List.mem_range.2 hs
        cases hl : el.decidedRoots.lookup s with
        | some vote => exact keys s vote hl
        | none => exact absurd (List.mem_filter.2 ⟨hids, by rw [hl]; rfl⟩) hnd
    · obtain ⟨vote, hl⟩ := hcomp r hr hfr s hs hdec
      exact keys s vote hl

/-- the converse side of one `processRoot` call -/
theorem processRoot_complete (S : Setup N vals f observe frameRoots) {el : Election} (js : JS N vals f frameRoots el)
    (fed : List Root) (hst : Stored f fed el) (jc : JC N f fed el) (hcomp : Complete N f fed el) (nr : Root)
    (hroot : nr ∈ frameRoots nr.frame) (hb : nr.frame < 4294967296)
    (hclosed : ∀ p ∈ frameRoots (nr.frame - 1), f < p.frame → observe nr.id p.id = true → p ∈ fed)
    (el' : Election) (res : Option (Nat × Nat)) (h : processRoot observe frameRoots el nr = .ok (el', res)) :
    JC N f (nr :: fed) el' ∧ chooseAtropos el' = .ok res ∧ (res = none → Complete N f (nr :: fed) el') := by
  rcases processRoot_cases _ _ _ _ _ _ h with ⟨rfl, r, hc, rfl⟩ | ⟨rfl, hc, rfl, hz⟩ | ⟨_, hs, _, hvl, hc⟩
  · exact ⟨jc.mono (fun r hr => List.mem_cons_of_mem _ hr), hc, by intro h; cases h⟩
  · refine ⟨jc.mono (fun r hr => List.mem_cons_of_mem _ hr), hc, fun _ => ?_⟩
    intro r hr hfr s hs hdec
    rcases List.mem_cons.1 hr with rfl | hr
    · exfalso
      by_cases hsk : Gen.Election.skipOldRoot r.frame el'.frameToDecide = true
      · unfold Gen.Election.skipOldRoot at hsk
        rw [js.ftd] at hsk
        simp only [decide_eq_true_eq] at hsk
        omega
      · have hsk' : Gen.Election.skipOldRoot r.frame el'.frameToDecide = false := by simpa using hsk
        obtain ⟨h1, h2, _, _, _⟩ := round_facts r.frame el'.frameToDecide hb (by rw [js.ftd]; exact S.fbound) hsk'
        rcases hz with hz | hz
        · rw [hz] at hsk'; cases hsk'
        · rw [h2] at hz
          unfold Gen.Election.roundZero at hz
          simp only [decide_eq_true_eq] at hz
          omega
    · exact hcomp r hr hfr s hs hdec
  · obtain ⟨hvl', _, hvf⟩ := vote_branch S js fed hst nr hroot hb hclosed hs
    rw [hvl'] at hvl
    cases hvl
    obtain ⟨a, b⟩ := pushAll_complete S js fed jc hcomp nr _ hvf
    exact ⟨a, hc, fun _ => b⟩

end Step
/-- `chooseAtropos` returns nothing exactly at the first validator that is undecided while all earlier
    ones are decided no -/
theorem chooseAtroposFrom_range_none (el : Election) (w : Nat → Nat) (m : Nat) : ∀ (a : Nat),
    chooseAtroposFrom el ((List.range' a m).map (fun i => (i, w i))) = .ok none →
    ∃ v, a ≤ v ∧ v < a + m ∧ el.decidedRoots.lookup v = none ∧
      ∀ u, a ≤ u → u < v → ∃ vote, el.decidedRoots.lookup u = some vote ∧ vote.yes = false := by
  induction m with
  | zero => intro a h; simp [chooseAtroposFrom] at h
  | succ m ih =>
    intro a h
    rw [List.range'_succ, List.map_cons] at h
    simp only [chooseAtroposFrom] at h
    cases hl : el.decidedRoots.lookup a with
    | none => exact ⟨a, Nat.le_refl _, by omega, hl, fun u h1 h2 => by omega⟩
    | some vote =>
      rw [hl] at h
      simp only at h
      by_cases hy : vote.yes = true
      · rw [if_pos hy] at h; cases h
      · rw [if_neg hy] at h
        obtain ⟨v, hv1, hv2, hn, hno⟩ := ih (a + 1) h
        refine ⟨v, by omega, by omega, hn, ?_⟩
        intro u hu1 hu2
        by_cases hua : u = a
        · subst hua; exact ⟨vote, hl, by simpa using hy⟩
        · exact hno u (by omega) hu2

section Run
variable {N : Net} {vals : Vals} {f : Nat} {observe : Nat → Nat → Bool} {frameRoots : Nat → List Root}

/-- whole runs: provenance always, completeness and "nothing decidable yet" when nothing is returned -/
theorem runRoots_complete (S : Setup N vals f observe frameRoots) (rs : List Root) :
    ∀ (fed : List Root) (el : Election), JS N vals f frameRoots el → Stored f fed el → JC N f fed el →
      Complete N f fed el → FeedClosed observe frameRoots f fed rs → (rs = [] → chooseAtropos el = .ok none) →
      ∀ el' res, runRoots observe frameRoots el rs = .ok (el', res) →
        JC N f (rs.reverse ++ fed) el' ∧ (rs ≠ [] → chooseAtropos el' = .ok res) ∧
        (res = none → Complete N f (rs.reverse ++ fed) el' ∧ chooseAtropos el' = .ok none) := by
  induction rs with
  | nil =>
    intro fed el _ _ jc hcomp _ hch el' res h
    simp only [runRoots] at h
    cases h
    exact ⟨jc, fun h => absurd rfl h, fun _ => ⟨hcomp, hch rfl⟩⟩
  | cons r rest ih =>
    intro fed el js hst jc hcomp hfc _ el' res h
    obtain ⟨⟨h1, h2, h3⟩, hrest⟩ := hfc
    have hrev : (r :: rest).reverse ++ fed = rest.reverse ++ (r :: fed) := by
      rw [List.reverse_cons, List.append_assoc]; rfl
    rw [hrev]
    rcases processRoot_refines S js fed hst r h1 h2 h3 with ⟨he, _⟩ | ⟨el1, res1, he, js1, hst1, _⟩
    · simp only [runRoots, he] at h; cases h
    · obtain ⟨jc1, hc1, hcomp1⟩ := processRoot_complete S js fed hst jc hcomp r h1 h2 h3 el1 res1 he
      cases res1 with
      | some x =>
        simp only [runRoots, he] at h
        cases h
        exact ⟨jc1.mono (fun p hp => List.mem_append_right _ hp), fun _ => hc1, by intro h; cases h⟩
      | none =>
        have e : runRoots observe frameRoots el (r :: rest) = runRoots observe frameRoots el1 rest := by
          simp only [runRoots, he]
        rw [e] at h
        obtain ⟨a, b, c⟩ := ih (r :: fed) el1 js1 (hst1 rfl) jc1 (hcomp1 rfl) hrest (fun _ => hc1) el' res h
        refine ⟨a, fun _ => ?_, c⟩
        by_cases hr : rest = []
        · subst hr
          simp only [runRoots] at h
          cases h
          exact hc1
        · exact b hr

/-- Order independence of one election: if a closed feed `rs₁` makes the model return an Atropos,
    every closed feed `rs₂` containing the roots of `rs₁` of frames above `f` (other oracles, other order) returns the
    same frame and Atropos. -/
theorem same_result {vals₂ : Vals} {observe₂ : Nat → Nat → Bool} {frameRoots₂ : Nat → List Root}
    (S₁ : Setup N vals f observe frameRoots) (S₂ : Setup N vals₂ f observe₂ frameRoots₂) (rs₁ rs₂ : List Root)
    (hfc₁ : FeedClosed observe frameRoots f [] rs₁) (hfc₂ : FeedClosed observe₂ frameRoots₂ f [] rs₂)
    (hsub : ∀ r ∈ rs₁, f < r.frame → r ∈ rs₂) (el₁ : Election) (b : Nat × Nat)
    (h₁ : runRoots observe frameRoots (reset vals f) rs₁ = .ok (el₁, some b)) :
    ∃ el₂, runRoots observe₂ frameRoots₂ (reset vals₂ f) rs₂ = .ok (el₂, some b) := by
  have hne₁ : rs₁ ≠ [] := by
    intro h; subst h; simp only [runRoots] at h₁; cases h₁
  -- run 1: the deciding roots were fed
  have js₁ : JS N vals f frameRoots el₁ := by
    rcases single_election S₁ rs₁ hfc₁ with ⟨he, _⟩ | ⟨el', res, he, js, _⟩
    · rw [he] at h₁; cases h₁
    · rw [he] at h₁; cases h₁; exact js
  obtain ⟨jc₁, hch₁, _⟩ := runRoots_complete S₁ rs₁ [] (reset vals f) (JS_reset N vals f frameRoots)
    (by intro r hr; cases hr) (JC_reset N vals f) (by intro r hr; cases hr) hfc₁ (fun h => absurd h hne₁) el₁ (some b) h₁
  have hch := hch₁ hne₁
  obtain ⟨b1, b2⟩ := b
  have hat := choose_some S₁.vals js₁ b1 b2 hch
  unfold chooseAtropos at hch
  rw [sorted_eq S₁.vals js₁] at hch
  obtain ⟨_, v₁, _, hv₁, hno₁, vote₁, hl₁, hy₁, _⟩ := chooseAtroposFrom_range el₁ N.w N.nVals 0 b1 b2 hch
  have src : ∀ s vote, el₁.decidedRoots.lookup s = some vote → ∃ r, r ∈ rs₂ ∧ f < r.frame ∧
      (vote.yes = true → N.DecidesYes f (r.frame - f) r.id s) ∧ (vote.yes = false → N.DecidesNo f (r.frame - f) r.id s) := by
    intro s vote hl
    obtain ⟨hd, r, hm⟩ := jc₁.dec_src s vote (lookup_mem _ _ _ hl)
    have hfed := jc₁.votes_fed r s vote hm
    rw [List.append_nil, List.mem_reverse] at hfed
    obtain ⟨d1, d2⟩ := jc₁.votes_dec r s vote hm hd
    exact ⟨r, hsub r hfed (js₁.votes r s vote hm).1, (js₁.votes r s vote hm).1, d1, d2⟩
  have dy₁ : N.DecidedYes f v₁ := ((js₁.decided v₁ vote₁ (lookup_mem _ _ _ hl₁)).2.1 hy₁).1
  -- run 2
  rcases single_election S₂ rs₂ hfc₂ with ⟨_, hall⟩ | ⟨el₂, res₂, he₂, js₂, hat₂⟩
  · exact absurd (hall v₁ (by omega)) ((N.L4_of_slotUnique S₁.accepted S₁.slots f v₁).1 dy₁)
  · cases res₂ with
    | some b' =>
      obtain ⟨e1, e2⟩ := hat₂ _ _ rfl
      have := N.atroposUnique_of_slotUnique S₁.accepted S₁.slots f _ _ hat.2 e2
      refine ⟨el₂, ?_⟩
      rw [he₂]
      obtain ⟨c1, c2⟩ := b'
      simp only at e1 this
      rw [e1, ← this, hat.1]
    | none =>
      exfalso
      have hne₂ : rs₂ ≠ [] := by
        intro h
        obtain ⟨r, hr, _⟩ := src v₁ vote₁ hl₁
        rw [h] at hr; cases hr
      obtain ⟨_, _, hc₂⟩ := runRoots_complete S₂ rs₂ [] (reset vals₂ f) (JS_reset N vals₂ f frameRoots₂)
        (by intro r hr; cases hr) (JC_reset N vals₂ f) (by intro r hr; cases hr) hfc₂ (fun h => absurd h hne₂) el₂ none he₂
      obtain ⟨hcomp₂, hnone₂⟩ := hc₂ rfl
      unfold chooseAtropos at hnone₂
      rw [sorted_eq S₂.vals js₂] at hnone₂
      obtain ⟨v₀, _, hv₀, hl₀, hno₀⟩ := chooseAtroposFrom_range_none el₂ N.w N.nVals 0 hnone₂
      have stored₂ : ∀ s vote, s < N.nVals → el₁.decidedRoots.lookup s = some vote →
          ∃ vote', el₂.decidedRoots.lookup s = some vote' := by
        intro s vote hs hl
        obtain ⟨r, hr, hfr, d1, d2⟩ := src s vote hl
        apply hcomp₂ r (by rw [List.append_nil, List.mem_reverse]; exact hr) hfr s hs
        cases hy : vote.yes with
        | true => exact Or.inl (d1 hy)
        | false => exact Or.inr (d2 hy)
      rcases Nat.lt_trichotomy v₀ v₁ with hlt | heq | hgt
      · obtain ⟨vt, hlu, _⟩ := hno₁ v₀ (Nat.zero_le _) hlt
        obtain ⟨vote', hl'⟩ := stored₂ v₀ vt (by omega) hlu
        rw [hl₀] at hl'; cases hl'
      · subst heq
        obtain ⟨vote', hl'⟩ := stored₂ v₀ vote₁ (by omega) hl₁
        rw [hl₀] at hl'; cases hl'
      · obtain ⟨vt, hlu, hyu⟩ := hno₀ v₁ (Nat.zero_le _) hgt
        have dn := (js₂.decided v₁ vt (lookup_mem _ _ _ hlu)).2.2 hyu
        exact (N.L4_of_slotUnique S₁.accepted S₁.slots f v₁).1 dy₁ dn

theorem FeedClosed.mem {observe : Nat → Nat → Bool} {frameRoots : Nat → List Root} {f : Nat} :
    ∀ {rs fed : List Root}, FeedClosed observe frameRoots f fed rs → ∀ r ∈ rs, r ∈ frameRoots r.frame
  | [], _, _, r, hr => by cases hr
  | x :: rest, _, h, r, hr => by
    rcases List.mem_cons.1 hr with rfl | hr
    · exact h.1.1
    · exact FeedClosed.mem h.2 r hr

end Run
end ElectionRefine
