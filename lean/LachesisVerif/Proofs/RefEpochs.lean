import LachesisVerif.Proofs.RefEquivL
import LachesisVerif.Proofs.OrdererEpochs4
/-!
# Several epochs of the executable reference, part 1: `decideLoop` / `process` when the seal table fires

The reference `Spec.Lachesis` consults the application's seal table `Seals` inside `decideLoop`: when the
block of frame `f` of epoch `ep` is emitted and `seals.lookup (ep, f) = some pairs`, the block is marked
`sealed`, nothing more is decided and the instance becomes `Inst.fresh (ep + 1) pairs`.

Here a sealing instance is computed from the same instance with the empty seal table (the setting of
`Proofs/RefEquiv*.lean`), exactly as `Proofs/OrdererEpochs*.lean` does for the model:

* `rcut seals ep bs` — of the blocks `bs` an unsealing instance emits in epoch `ep`, the prefix up to and
  including the first block at whose frame the table has an entry (that block marked sealed), with the
  entry (the reference analogue of `OrdererEpochs.cut`);
* `decideLoop_sim`, `process_sim`: whenever the unsealing call returns `(s', bs)`, the sealing one returns
  the same if `rcut bs = none`, and otherwise the cut list and *exactly* `Inst.fresh (epoch + 1) pairs`;
* `process_nil_shape`: without seals every block is unsealed and of the current epoch.

Nothing in `Spec/Lachesis.lean` is changed; the lemmas are about `decideLoop` / `process` as they are.
-/
namespace RefEpochs
open Spec.Lachesis RefEquiv
open Spec.Lachesis.Inst (Block)

/-- the blocks up to and including the first one whose frame has an entry in the seal table -/
def rcut (seals : Seals) (ep : Nat) : List Block → Option (List Block × List (Nat × Nat))
  | [] => none
  | b :: bs =>
    match seals.lookup (ep, b.frame) with
    | some nv => some ([{ b with sealed := true }], nv)
    | none =>
      match rcut seals ep bs with
      | some (l, nv) => some (b :: l, nv)
      | none => none

theorem rcut_append_some (seals : Seals) (ep : Nat) (a b : List Block) (r : List Block × List (Nat × Nat))
    (h : rcut seals ep a = some r) : rcut seals ep (a ++ b) = some r := by
  induction a generalizing r with
  | nil => simp [rcut] at h
  | cons d ds ih =>
    simp only [List.cons_append, rcut] at h ⊢
    cases hs : seals.lookup (ep, d.frame) with
    | some nv => rw [hs] at h; exact h
    | none =>
      rw [hs] at h
      simp only at h ⊢
      cases hc : rcut seals ep ds with
      | none => rw [hc] at h; cases h
      | some q => rw [ih q hc]; rw [hc] at h; exact h

theorem rcut_append_none (seals : Seals) (ep : Nat) (a b : List Block) (h : rcut seals ep a = none) :
    rcut seals ep (a ++ b) = (rcut seals ep b).map (fun q => (a ++ q.1, q.2)) := by
  induction a with
  | nil =>
    rw [List.nil_append]
    cases rcut seals ep b with
    | none => rfl
    | some q => simp
  | cons d ds ih =>
    simp only [List.cons_append, rcut] at h ⊢
    cases hs : seals.lookup (ep, d.frame) with
    | some nv => rw [hs] at h; cases h
    | none =>
      rw [hs] at h
      simp only at h ⊢
      cases hc : rcut seals ep ds with
      | some q => rw [hc] at h; cases h
      | none =>
        rw [ih hc]
        cases rcut seals ep b <;> rfl

/-- a cut list contains a sealed block, at a frame where the table has the returned entry -/
theorem rcut_some (seals : Seals) (ep : Nat) (bs l : List Block) (nv : List (Nat × Nat))
    (h : rcut seals ep bs = some (l, nv)) :
    l.any (·.sealed) = true ∧ ∃ F, seals.lookup (ep, F) = some nv := by
  induction bs generalizing l with
  | nil => simp [rcut] at h
  | cons d rest ih =>
    simp only [rcut] at h
    cases hs : seals.lookup (ep, d.frame) with
    | some nv' =>
      rw [hs] at h
      simp only [Option.some.injEq, Prod.mk.injEq] at h
      obtain ⟨rfl, rfl⟩ := h
      exact ⟨by simp, _, hs⟩
    | none =>
      rw [hs] at h
      simp only at h
      cases hc : rcut seals ep rest with
      | none => rw [hc] at h; cases h
      | some q =>
        obtain ⟨l', nv'⟩ := q
        rw [hc] at h
        simp only [Option.some.injEq, Prod.mk.injEq] at h
        obtain ⟨rfl, rfl⟩ := h
        obtain ⟨a, b⟩ := ih l' hc
        exact ⟨by simp [a], b⟩

/-! ### `decideLoop` with a seal table -/

/-- the sealed version of the block emitted for Atropos `a` -/
def mkSealed (s : Inst) (a : Nat) : Block := { mkBlock s a with sealed := true }

theorem decideLoop_succ' (seals : Seals) (fuel : Nat) (s : Inst) (out : List Block) :
    decideLoop seals (fuel + 1) s out =
      match s.atroposSpec (s.ldf + 1) with
      | .undecided => (s, out)
      | .allNo => (s, out)
      | .atropos a =>
        match seals.lookup (s.epoch, s.ldf + 1) with
        | some nv => (Inst.fresh (s.epoch + 1) nv, out ++ [mkSealed s a])
        | none => decideLoop seals fuel (advance s a) (out ++ [mkBlock s a]) := rfl

/-- the accumulator of `decideLoop` is only appended to -/
theorem decideLoop_acc (seals : Seals) : ∀ (fuel : Nat) (s : Inst) (out : List Block),
    decideLoop seals fuel s out =
      ((decideLoop seals fuel s []).1, out ++ (decideLoop seals fuel s []).2) := by
  intro fuel
  induction fuel with
  | zero => intro s out; show (s, out) = (s, out ++ []); rw [List.append_nil]
  | succ fuel ih =>
    intro s out
    rw [decideLoop_succ', decideLoop_succ']
    cases s.atroposSpec (s.ldf + 1) with
    | undecided => show (s, out) = (s, out ++ []); rw [List.append_nil]
    | allNo => show (s, out) = (s, out ++ []); rw [List.append_nil]
    | atropos a =>
      cases seals.lookup (s.epoch, s.ldf + 1) with
      | some nv => rfl
      | none =>
        show decideLoop seals fuel (advance s a) (out ++ [mkBlock s a]) =
          ((decideLoop seals fuel (advance s a) ([] ++ [mkBlock s a])).1,
            out ++ (decideLoop seals fuel (advance s a) ([] ++ [mkBlock s a])).2)
        rw [ih (advance s a) (out ++ [mkBlock s a]), ih (advance s a) ([] ++ [mkBlock s a])]
        simp only [List.nil_append, List.append_assoc]

/-- **`decideLoop` when the seal table fires**, from the loop with the empty table: the blocks are cut
    at the first frame with an entry, and the instance is then the fresh instance of the next epoch -/
theorem decideLoop_sim (seals : Seals) : ∀ (fuel : Nat) (s : Inst),
    decideLoop seals fuel s [] =
      match rcut seals s.epoch (decideLoop [] fuel s []).2 with
      | none => decideLoop [] fuel s []
      | some (l, nv) => (Inst.fresh (s.epoch + 1) nv, l) := by
  intro fuel
  induction fuel with
  | zero => intro s; rfl
  | succ fuel ih =>
    intro s
    rw [decideLoop_succ', decideLoop_succ' []]
    cases s.atroposSpec (s.ldf + 1) with
    | undecided => rfl
    | allNo => rfl
    | atropos a =>
      have hnil : ([] : Seals).lookup (s.epoch, s.ldf + 1) = none := rfl
      simp only [hnil]
      rw [decideLoop_acc [] fuel (advance s a) ([] ++ [mkBlock s a])]
      simp only [List.nil_append, List.singleton_append]
      cases hl : seals.lookup (s.epoch, s.ldf + 1) with
      | some nv =>
        have : rcut seals s.epoch (mkBlock s a :: (decideLoop [] fuel (advance s a) []).2) =
            some ([mkSealed s a], nv) := by
          show (match seals.lookup (s.epoch, s.ldf + 1) with
            | some nv => some ([mkSealed s a], nv)
            | none => _) = _
          rw [hl]
        rw [this]
      | none =>
        have hr : rcut seals s.epoch (mkBlock s a :: (decideLoop [] fuel (advance s a) []).2) =
            match rcut seals s.epoch (decideLoop [] fuel (advance s a) []).2 with
            | some (l, nv) => some (mkBlock s a :: l, nv)
            | none => none := by
          show (match seals.lookup (s.epoch, s.ldf + 1) with
            | some nv => some ([mkSealed s a], nv)
            | none => _) = _
          rw [hl]
        rw [hr, decideLoop_acc seals fuel (advance s a) [mkBlock s a], ih (advance s a)]
        have he : (advance s a).epoch = s.epoch := rfl
        rw [he]
        cases rcut seals s.epoch (decideLoop [] fuel (advance s a) []).2 with
        | none => rfl
        | some q => obtain ⟨l, nv⟩ := q; rfl

/-- without seals `decideLoop` stays in the epoch with the same validators, and every block it appends is
    unsealed and of that epoch -/
theorem decideLoop_nil_shape : ∀ (fuel : Nat) (s : Inst) (out : List Block),
    (decideLoop [] fuel s out).1.epoch = s.epoch ∧
    ∃ bs, (decideLoop [] fuel s out).2 = out ++ bs ∧ ∀ b ∈ bs, b.sealed = false ∧ b.epoch = s.epoch := by
  intro fuel
  induction fuel with
  | zero => intro s out; exact ⟨rfl, [], (List.append_nil _).symm, fun b hb => by cases hb⟩
  | succ fuel ih =>
    intro s out
    rw [RefEquiv.decideLoop_succ]
    cases s.atroposSpec (s.ldf + 1) with
    | undecided => exact ⟨rfl, [], (List.append_nil _).symm, fun b hb => by cases hb⟩
    | allNo => exact ⟨rfl, [], (List.append_nil _).symm, fun b hb => by cases hb⟩
    | atropos a =>
      obtain ⟨h1, bs, h2, h3⟩ := ih (advance s a) (out ++ [mkBlock s a])
      refine ⟨h1, mkBlock s a :: bs, ?_, ?_⟩
      · show (decideLoop [] fuel (advance s a) (out ++ [mkBlock s a])).2 = _
        rw [h2, List.append_assoc]; rfl
      · intro b hb
        rcases List.mem_cons.1 hb with rfl | hb
        · exact ⟨rfl, rfl⟩
        · exact h3 b hb

/-! ### `process` with a seal table -/

/-- **a sealing `process` call**, from the call with the empty table: it emits the blocks up to and
    including the sealing frame (marked sealed) and returns *exactly* the fresh instance of the next
    epoch over the validators of the table entry; without an entry at the emitted frames it is the
    unsealing call -/
theorem process_sim (seals : Seals) {s s' : Inst} {e : Ev} {bs : List Block}
    (h : process [] s e = (s', .ok bs)) :
    process seals s e =
      match rcut seals s.epoch bs with
      | none => (s', .ok bs)
      | some (l, nv) => (Inst.fresh (s.epoch + 1) nv, .ok l) := by
  obtain ⟨s1, hep, hins, hal, hdl⟩ := process_ok h
  have he1 : s1.epoch = s.epoch := (meta_insert hins).2.2
  rw [process_eq, if_neg (by simpa using hep), hins]
  simp only []
  rw [if_neg (by simpa using hal), decideLoop_sim, hdl, he1]
  cases rcut seals s.epoch bs with
  | none => rfl
  | some q => obtain ⟨l, nv⟩ := q; rfl

/-- without seals every emitted block is unsealed and of the current epoch; the epoch stays -/
theorem process_nil_shape {s s' : Inst} {e : Ev} {bs : List Block} (h : process [] s e = (s', .ok bs)) :
    (∀ b ∈ bs, b.sealed = false ∧ b.epoch = s.epoch) ∧ s'.epoch = s.epoch := by
  obtain ⟨s1, _, hins, _, hdl⟩ := process_ok h
  have he1 : s1.epoch = s.epoch := (meta_insert hins).2.2
  obtain ⟨h1, bs', h2, h3⟩ := decideLoop_nil_shape (s1.size + 2) s1 []
  rw [hdl] at h1 h2
  rw [List.nil_append] at h2
  have h2' : bs = bs' := h2
  subst h2'
  exact ⟨fun b hb => by rw [← he1]; exact h3 b hb, h1.trans he1⟩

/-- the sealing call spelled out: if the table has an entry at a frame emitted by the unsealing call,
    the sealing call returns the fresh instance of epoch + 1 and the blocks up to the first such frame -/
theorem process_seals {seals : Seals} {s s' : Inst} {e : Ev} {bs l : List Block} {nv : List (Nat × Nat)}
    (h : process [] s e = (s', .ok bs)) (hc : rcut seals s.epoch bs = some (l, nv)) :
    process seals s e = (Inst.fresh (s.epoch + 1) nv, .ok l) ∧ l.any (·.sealed) = true ∧
      ∃ F, seals.lookup (s.epoch, F) = some nv := by
  refine ⟨?_, rcut_some seals s.epoch bs l nv hc⟩
  rw [process_sim seals h, hc]

end RefEpochs
