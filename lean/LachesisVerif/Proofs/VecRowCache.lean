import LachesisVerif.Model.VecRowCache
/-!
Row caches of the vector index, part 1: the coherence invariant and cache transparency.
`Inv s`: every cached pair `(id, row)` is exactly what the uncached read (unflushed pairs, then the
parent DB) returns for `id`. It holds in a fresh index and is preserved by every call, for every
eviction function that invents no entries (`Shrinks`). Consequences: `get` returns the uncached
read; the store under the cache evolves as without cache; the answers of a whole history are those
of the uncached store.
-/
namespace VecRowCacheProofs
open Model.VecPersist (Tab)
open Model.VecRowCache

variable {α : Type}

/-! ### finite maps -/

theorem lookup_mem (l : List (Nat × α)) (k : Nat) (v : α) (h : l.lookup k = some v) : (k, v) ∈ l := by
  induction l with
  | nil => simp only [List.lookup] at h; cases h
  | cons p t ih =>
    obtain ⟨a, b⟩ := p
    by_cases hk : k = a
    · subst hk
      simp only [List.lookup, beq_self_eq_true] at h
      cases h
      exact List.mem_cons_self
    · have hb : (k == a) = false := by simp only [beq_eq_false_iff_ne, ne_eq, hk, not_false_eq_true]
      simp only [List.lookup, hb] at h
      exact List.mem_cons_of_mem _ (ih h)

theorem lookup_filter_ne (l : List (Nat × α)) (k a : Nat) :
    (l.filter (fun p => p.1 != k)).lookup a = if a = k then none else l.lookup a := by
  induction l with
  | nil => by_cases h : a = k <;> simp only [List.filter, List.lookup, h, if_true, if_false]
  | cons p t ih =>
    obtain ⟨b, x⟩ := p
    by_cases hb : b = k
    · subst hb
      have h1 : ((b, x).1 != b) = false := by simp only [bne_self_eq_false]
      have h2 : List.filter (fun p => p.1 != b) ((b, x) :: t) = List.filter (fun p => p.1 != b) t := by
        simp only [List.filter_cons, h1, Bool.false_eq_true, if_false]
      rw [h2, ih]
      by_cases ha : a = b
      · simp only [ha, if_true]
      · have hab : (a == b) = false := by simp only [beq_eq_false_iff_ne, ne_eq, ha, not_false_eq_true]
        simp only [ha, if_false, List.lookup, hab]
    · have h1 : ((b, x).1 != k) = true := by simp only [bne_iff_ne, ne_eq, hb, not_false_eq_true]
      have h2 : List.filter (fun p => p.1 != k) ((b, x) :: t) = (b, x) :: List.filter (fun p => p.1 != k) t := by
        simp only [List.filter_cons, h1, if_true]
      rw [h2]
      by_cases hab : a = b
      · subst hab
        simp only [List.lookup, beq_self_eq_true, hb, if_false]
      · have hab' : (a == b) = false := by simp only [beq_eq_false_iff_ne, ne_eq, hab, not_false_eq_true]
        simp only [List.lookup, hab', ih]

theorem mem_put (l : List (Nat × α)) (k : Nat) (x : α) (p : Nat × α) (h : p ∈ put l k x) :
    p = (k, x) ∨ (p ∈ l ∧ p.1 ≠ k) := by
  simp only [put, List.mem_cons, List.mem_filter, bne_iff_ne, ne_eq] at h
  exact h

/-- read-after-write of the layered table -/
theorem look_put (ov : List (Nat × α)) (st : Tab α) (k : Nat) (x : α) (a : Nat) :
    look (put ov k x) st a = if a = k then some x else look ov st a := by
  by_cases h : a = k
  · subst h
    simp only [look, put, List.lookup, beq_self_eq_true, if_true]
  · have hb : (a == k) = false := by simp only [beq_eq_false_iff_ne, ne_eq, h, not_false_eq_true]
    simp only [look, put, List.lookup, hb, lookup_filter_ne, h, if_false]

theorem look_nil (st : Tab α) (a : Nat) : look ([] : List (Nat × α)) st a = st.get a := by
  simp only [look, List.lookup]

/-- `Flush` does not change what is read -/
theorem read_flush (b : Base α) (a : Nat) : b.flush.read a = b.read a := by
  simp only [Base.read, Base.flush, look_nil]

theorem read_set (b : Base α) (k : Nat) (x : α) (a : Nat) :
    (b.set k x).read a = if a = k then some x else b.read a := by
  simp only [Base.read, Base.set, look_put]

theorem read_otherPut (b : Base α) (n a : Nat) : (b.otherPut n).read a = b.read a := rfl

/-! ### the guard of `DropNotFlushed` (kernel `Gen.VecPersist.dropClears` unfolded) -/

theorem dropClears_eq_false (n : Nat) : Gen.VecPersist.dropClears n = false ↔ n = 0 := by
  unfold Gen.VecPersist.dropClears
  rw [decide_eq_false_iff_not]
  exact Decidable.not_not

theorem dropClears_false_iff (b : Base α) :
    Gen.VecPersist.dropClears b.notFlushedPairs = false ↔ (b.ov = [] ∧ b.other = 0) := by
  rw [dropClears_eq_false]
  unfold Base.notFlushedPairs
  constructor
  · intro h
    have h1 : b.ov.length = 0 := by omega
    exact ⟨List.eq_nil_of_length_eq_zero h1, by omega⟩
  · intro ⟨h1, h2⟩
    rw [h1, h2]; rfl

/-- when the guard is false, `DropNotFlushed` rolls NOTHING back: the store under the cache is
    literally unchanged -/
theorem drop_of_clean (b : Base α) (h : Gen.VecPersist.dropClears b.notFlushedPairs = false) :
    b.drop = b := by
  simp only [Base.drop, h, Bool.false_eq_true, if_false]

theorem drop_of_dirty (b : Base α) (h : Gen.VecPersist.dropClears b.notFlushedPairs = true) :
    b.drop = { b with ov := [], other := 0 } := by
  simp only [Base.drop, h, if_true]

/-! ### the invariant -/

/-- the eviction function invents no entries -/
def Shrinks (ev : Evict α) : Prop := ∀ c x, x ∈ ev c → x ∈ c

/-- every cached pair is what the uncached read returns -/
def Inv (s : RC α) : Prop := ∀ id r, (id, r) ∈ s.cache → s.base.read id = some r

theorem inv_fresh (db : Tab α) : Inv (RC.fresh db) := by
  intro id r h
  simp only [RC.fresh, List.not_mem_nil] at h

/-- inserting the pair just read / just written keeps the invariant, whatever is evicted -/
theorem inv_insert (ev : Evict α) (hev : Shrinks ev) (b : Base α) (c : List (Nat × α)) (id : Nat) (r : α)
    (hc : ∀ a x, (a, x) ∈ c → a ≠ id → b.read a = some x) (hr : b.read id = some r) :
    Inv (⟨b, ev (put c id r)⟩ : RC α) := by
  intro a x h
  rcases mem_put c id r (a, x) (hev _ _ h) with h1 | ⟨h1, h2⟩
  · cases h1; exact hr
  · exact hc a x h1 h2

/-! ### every call keeps the invariant (for ANY choice of the `Add` calls, given both purges) -/

/-- the calls the invariant depends on: the two purges and the `Add` inside the setters. The `Add`
    after a `Get` miss is not needed (it only fills the cache) -/
def Sound (k : Calls) : Prop := k.purgeOnDrop = true ∧ k.purgeOnReset = true ∧ k.addOnSet = true

theorem sound_goCalls : Sound goCalls := ⟨rfl, rfl, rfl⟩

theorem get_inv (k : Calls) (ev : Evict α) (hev : Shrinks ev) (s : RC α) (id : Nat) (h : Inv s) :
    Inv (s.get k ev id).1 := by
  unfold RC.get
  cases hc : s.cache.lookup id with
  | some r => exact h
  | none =>
    cases hr : s.base.read id with
    | none => exact h
    | some r =>
      cases hk : k.addOnMiss with
      | false => simpa only [hk, Bool.false_eq_true, if_false] using h
      | true =>
        simp only [if_true]
        exact inv_insert ev hev s.base s.cache id r (fun a x hx _ => h a x hx) hr

theorem set_inv (k : Calls) (hk : k.addOnSet = true) (ev : Evict α) (hev : Shrinks ev) (s : RC α)
    (id : Nat) (r : α) (h : Inv s) : Inv (s.set k ev id r) := by
  unfold RC.set
  simp only [hk, if_true]
  refine inv_insert ev hev (s.base.set id r) s.cache id r ?_ ?_
  · intro a x hx hne
    rw [read_set, if_neg hne]
    exact h a x hx
  · rw [read_set, if_pos rfl]

theorem otherPut_inv (s : RC α) (n : Nat) (h : Inv s) : Inv (s.otherPut n) := h

theorem flush_inv (s : RC α) (h : Inv s) : Inv s.flush := by
  intro id r hm
  show s.base.flush.read id = some r
  rw [read_flush]
  exact h id r hm

/-- `DropNotFlushed`: guard true — overlay discarded AND cache purged; guard false — nothing was
    unflushed, the store is unchanged (`drop_of_clean`), so the unpurged cache stays exact -/
theorem drop_inv (k : Calls) (hk : k.purgeOnDrop = true) (s : RC α) (h : Inv s) : Inv (s.dropNotFlushed k) := by
  unfold RC.dropNotFlushed
  cases hg : Gen.VecPersist.dropClears s.base.notFlushedPairs with
  | true =>
    intro id r hm
    simp only [hk, Bool.and_self, if_true, List.not_mem_nil] at hm
  | false =>
    intro id r hm
    simp only [Bool.false_and, Bool.false_eq_true, if_false] at hm
    show s.base.drop.read id = some r
    rw [drop_of_clean s.base hg]
    exact h id r hm

theorem reset_inv (k : Calls) (hk : k.purgeOnReset = true) (s : RC α) (db : Tab α) : Inv (s.reset k db) := by
  intro id r hm
  simp only [RC.reset, hk, if_true, List.not_mem_nil] at hm

theorem evict_inv (s : RC α) (keep : Nat → Bool) (h : Inv s) : Inv (s.evict keep) := by
  intro id r hm
  simp only [RC.evict, List.mem_filter] at hm
  exact h id r hm.1

theorem step_inv (k : Calls) (hk : Sound k) (ev : Evict α) (hev : Shrinks ev) (s : RC α) (op : Op α)
    (h : Inv s) : Inv (s.step k ev op) := by
  cases op with
  | get id => exact get_inv k ev hev s id h
  | set id r => exact set_inv k hk.2.2 ev hev s id r h
  | otherPut n => exact otherPut_inv s n h
  | flush => exact flush_inv s h
  | drop => exact drop_inv k hk.1 s h
  | reset db => exact reset_inv k hk.2.1 s db
  | evict keep => exact evict_inv s keep h

theorem exec_inv (k : Calls) (hk : Sound k) (ev : Evict α) (hev : Shrinks ev) (ops : List (Op α)) (s : RC α)
    (h : Inv s) : Inv (s.exec k ev ops) := by
  induction ops generalizing s with
  | nil => exact h
  | cons op ops ih => exact ih (s.step k ev op) (step_inv k hk ev hev s op h)

/-! ### transparency -/

/-- under the invariant, `get` through the cache returns exactly the uncached read -/
theorem get_eq_read (k : Calls) (ev : Evict α) (s : RC α) (id : Nat) (h : Inv s) :
    (s.get k ev id).2 = s.base.read id := by
  unfold RC.get
  cases hc : s.cache.lookup id with
  | some r => exact (h id r (lookup_mem _ _ _ hc)).symm
  | none =>
    cases hr : s.base.read id with
    | none => rfl
    | some r => rfl

/-- `get` never changes the store under the cache (for any `Calls`, no invariant needed) -/
theorem get_base (k : Calls) (ev : Evict α) (s : RC α) (id : Nat) : (s.get k ev id).1.base = s.base := by
  unfold RC.get
  cases hc : s.cache.lookup id with
  | some r => rfl
  | none =>
    cases hr : s.base.read id with
    | none => rfl
    | some r => cases k.addOnMiss <;> rfl

/-- the store under the cache evolves exactly as the store without cache -/
theorem step_base (k : Calls) (ev : Evict α) (s : RC α) (op : Op α) :
    (s.step k ev op).base = s.base.step op := by
  cases op with
  | get id => exact get_base k ev s id
  | set id r => rfl
  | otherPut n => rfl
  | flush => rfl
  | drop => rfl
  | reset db => rfl
  | evict keep => rfl

theorem exec_base (k : Calls) (ev : Evict α) (ops : List (Op α)) (s : RC α) :
    (s.exec k ev ops).base = s.base.exec ops := by
  induction ops generalizing s with
  | nil => rfl
  | cons op ops ih =>
    show ((s.step k ev op).exec k ev ops).base = (s.base.step op).exec ops
    rw [ih, step_base]

theorem out_eq (k : Calls) (ev : Evict α) (s : RC α) (op : Op α) (h : Inv s) :
    s.out k ev op = s.base.out op := by
  cases op with
  | get id => simp only [RC.out, Base.out, get_eq_read k ev s id h]
  | _ => rfl

/-- all answers of a history are those of the store without cache -/
theorem answers_eq (k : Calls) (hk : Sound k) (ev : Evict α) (hev : Shrinks ev) (ops : List (Op α))
    (s : RC α) (h : Inv s) : s.answers k ev ops = s.base.answers ops := by
  induction ops generalizing s with
  | nil => rfl
  | cons op ops ih =>
    simp only [RC.answers, Base.answers]
    rw [out_eq k ev s op h, ih (s.step k ev op) (step_inv k hk ev hev s op h), step_base]

end VecRowCacheProofs
