import LachesisVerif.Proofs.OrdererRestart3
/-!
C08, part 4: `handleElection`, `process` and whole runs of two instances with the same persisted state
and open elections, in lock-step.
-/
namespace OrdererRestart3
open Model.Pos Model.Election Model.Orderer ElectionRules ElectionRefine ElectionProofs VecProofs
open OrdererProofs OrdererRestart OrdererSeal

/-- both elections are open for frame `t.ldf + 1` over the table of `t`, have been fed the same table
    roots above that frame, namely all of them except those allowed by `pnd` -/
def Open2 (N : Net) (vals : Vals) (t : OState) (e₁ e₂ : Election) (pnd : Root → Prop) : Prop :=
  ∃ fed₁ fed₂, EInv N vals (t.ldf + 1) (frameRoots t) fed₁ e₁ ∧ EInv N vals (t.ldf + 1) (frameRoots t) fed₂ e₂ ∧
    (∀ r ∈ fed₁, r ∈ t.roots) ∧ (∀ r ∈ fed₂, r ∈ t.roots) ∧
    (∀ r ∈ t.roots, t.ldf + 1 < r.frame → r ∈ fed₁ ∨ pnd r) ∧
    (∀ r ∈ t.roots, t.ldf + 1 < r.frame → r ∈ fed₂ ∨ pnd r) ∧
    (∀ r ∈ fed₁, t.ldf + 1 < r.frame → r ∈ fed₂) ∧ (∀ r ∈ fed₂, t.ldf + 1 < r.frame → r ∈ fed₁)

theorem open2_of_open {N : Net} {vals : Vals} {s : OState} {e₂ : Election}
    (O₁ : OpenEl N vals s (fun _ => False)) (O₂ : OpenEl N vals { s with el := e₂ } (fun _ => False)) :
    Open2 N vals s s.el e₂ (fun _ => False) := by
  obtain ⟨fed₁, E₁, hs₁, ha₁⟩ := O₁
  obtain ⟨fed₂, E₂, hs₂, ha₂⟩ := O₂
  refine ⟨fed₁, fed₂, E₁, E₂, hs₁, hs₂, ha₁, ha₂, ?_, ?_⟩
  · intro r hr hfr; exact (ha₂ r (hs₁ r hr) hfr).elim id False.elim
  · intro r hr hfr; exact (ha₁ r (hs₂ r hr) hfr).elim id False.elim

theorem he_decide (env : Env) (id c frame fuel cur : Nat) (s : OState) (out : List Decided) (el' : Election)
    (df a : Nat) (h : cur ≤ frame)
    (hp : processRoot env.observe (frameRoots s) s.el ⟨id, cur, c⟩ = .ok (el', some (df, a))) :
    handleElection env id c frame (fuel + 1) cur s out =
      afterDecision env id c frame fuel cur (onFrameDecided env { s with el := el' } df a) out := by
  have hc : Gen.Orderer.electionLoopCond cur frame = true := by
    unfold Gen.Orderer.electionLoopCond; simp only [decide_eq_true_eq]; exact h
  rw [frameRoots_eq] at hp
  rw [handleElection_succ]
  simp only [hc, Bool.not_true, Bool.false_eq_true, if_false, hp]

/-- pending roots after the root of frame `cur` has been fed -/
theorem cover_next {N : Net} {done : List Nat} {roots : List Root} (T : Table N done roots) (id cur f : Nat)
    (fed : List Root) (hall : ∀ x ∈ roots, f < x.frame → x ∈ fed ∨ pend id cur x) :
    ∀ x ∈ roots, f < x.frame → x ∈ (⟨id, cur, N.creator id⟩ : Root) :: fed ∨ pend id (cur + 1) x := by
  intro x hx hfx
  rcases hall x hx hfx with h | ⟨h1, h2⟩
  · exact Or.inl (List.mem_cons_of_mem _ h)
  · by_cases hxc : x.frame = cur
    · refine Or.inl ?_
      obtain ⟨_, _, c⟩ := (T.mem x).1 hx
      have : x = ⟨id, cur, N.creator id⟩ := by
        cases x
        simp only at h1 hxc c
        simp only [Root.mk.injEq]
        exact ⟨h1, hxc, by rw [c, h1]⟩
      rw [this]; exact List.mem_cons_self
    · exact Or.inr ⟨h1, by omega⟩

/-- **`handleElection` in lock-step.** Same persisted state `t`, two open elections fed with the same
    roots: whatever the first instance returns, the second returns the same decided frames and a
    state with the same persisted part. -/
theorem handle_lockstep {N : Net} {vals : Vals} {env : Env} (C : Ctx N vals env) {done : List Nat} (id : Nat)
    (hid : id < N.h.length) (hdone : id ∈ done) :
    ∀ (fuel cur : Nat) (t : OState) (e₁ e₂ : Election) (blocks : List (Nat × Nat)) (out : List Decided),
      OInv N vals done blocks t → Open2 N vals t e₁ e₂ (pend id cur) → N.spf id < cur →
      ∀ a o, handleElection env id (N.creator id) (N.fr id) fuel cur { t with el := e₁ } out = .ok (a, o) →
        ∃ b, handleElection env id (N.creator id) (N.fr id) fuel cur { t with el := e₂ } out = .ok (b, o) ∧
          SamePersisted a b := by
  intro fuel
  induction fuel with
  | zero =>
    intro cur t e₁ e₂ blocks out _ _ _ a o h
    simp only [handleElection] at h
    cases h
    exact ⟨_, rfl, ⟨rfl, rfl, rfl, rfl⟩⟩
  | succ fuel ih =>
    intro cur t e₁ e₂ blocks out I O hspf a o h
    by_cases hstop : N.fr id < cur
    · rw [he_stop _ _ _ _ _ _ _ _ hstop] at h
      rw [he_stop _ _ _ _ _ _ _ _ hstop]
      cases h
      exact ⟨_, rfl, ⟨rfl, rfl, rfl, rfl⟩⟩
    · have hcur : cur ≤ N.fr id := by omega
      have hldf := I.ldf_lt C.hb
      have hfr := C.hb id hid
      obtain ⟨fed₁, fed₂, E₁, E₂, hs₁, hs₂, ha₁, ha₂, h12, h21⟩ := O
      have S : Setup N vals (t.ldf + 1) env.observe (frameRoots t) :=
        setup_of_table C.hv C.hfa C.hbft C.ok C.obs I.table I.closed _ (by omega)
      have hnr : (⟨id, cur, N.creator id⟩ : Root) ∈ t.roots :=
        (I.table.mem _).2 ⟨hdone, ⟨hid, hspf, hcur⟩, rfl⟩
      have hcl : ∀ (fed : List Root), (∀ r ∈ t.roots, t.ldf + 1 < r.frame → r ∈ fed ∨ pend id cur r) →
          ∀ p ∈ frameRoots t (cur - 1), t.ldf + 1 < p.frame → env.observe id p.id = true → p ∈ fed := by
        intro fed hall p hp hfp _
        obtain ⟨h1, h2⟩ := (mem_frameRoots t _ p).1 hp
        rcases hall p h1 hfp with h | ⟨_, h⟩
        · exact h
        · exfalso
          have h3 : p.frame = cur - 1 := h2
          omega
      rcases step_agree S (C.l6 _ (by omega)) E₁ E₂ h12 h21 ⟨id, cur, N.creator id⟩
          ((mem_frameRoots t _ _).2 ⟨hnr, rfl⟩) (by show cur < 4294967296; omega) (hcl fed₁ ha₁) (hcl fed₂ ha₂) with
        ⟨e₁', e₂', he₁, he₂, E₁', E₂'⟩ | ⟨e₁', e₂', at', he₁, he₂, _, _⟩
      · rw [he_none env id _ _ fuel cur { t with el := e₁ } out e₁' hcur he₁] at h
        rw [he_none env id _ _ fuel cur { t with el := e₂ } out e₂' hcur he₂]
        refine ih (cur + 1) t e₁' e₂' blocks out I ?_ (by omega) a o h
        refine ⟨_, _, E₁', E₂', ?_, ?_, cover_next I.table id cur _ fed₁ ha₁, cover_next I.table id cur _ fed₂ ha₂, ?_, ?_⟩
        · intro x hx
          rcases List.mem_cons.1 hx with rfl | hx
          · exact hnr
          · exact hs₁ x hx
        · intro x hx
          rcases List.mem_cons.1 hx with rfl | hx
          · exact hnr
          · exact hs₂ x hx
        · intro x hx hfx
          rcases List.mem_cons.1 hx with rfl | hx
          · exact List.mem_cons_self
          · exact List.mem_cons_of_mem _ (h12 x hx hfx)
        · intro x hx hfx
          rcases List.mem_cons.1 hx with rfl | hx
          · exact List.mem_cons_self
          · exact List.mem_cons_of_mem _ (h21 x hx hfx)
      · have e : handleElection env id (N.creator id) (N.fr id) (fuel + 1) cur { t with el := e₂ } out =
            handleElection env id (N.creator id) (N.fr id) (fuel + 1) cur { t with el := e₁ } out := by
          rw [he_decide env id _ _ fuel cur { t with el := e₂ } out e₂' _ _ hcur he₂,
            he_decide env id _ _ fuel cur { t with el := e₁ } out e₁' _ _ hcur he₁]
          exact congrArg (fun p => afterDecision env id (N.creator id) (N.fr id) fuel cur p out)
            (onFrameDecided_el env t e₂' e₁' _ _)
        exact ⟨a, e.trans h, SamePersisted.refl a⟩

/-! ### `process` -/

theorem process_ok (env : Env) (s : OState) (id c spf fr : Nat)
    (hacc : frameAccepted (quorumOn env s id) spf fr = true)
    (hff : Gen.Orderer.electionFirstFrame spf = spf + 1) (s' : OState) (ds : List Decided) :
    process env s id c spf fr = (s', .ok ds) ↔
      handleElection env id c fr (fr + 1) (spf + 1)
        { s with roots := insertAll env id c (rootFrames spf fr) s.roots } [] = .ok (s', ds) := by
  unfold process
  rw [hacc, insert_state, hff]
  simp only [Bool.not_true, Bool.false_eq_true, if_false]
  cases handleElection env id c fr (fr + 1) (spf + 1)
      { s with roots := insertAll env id c (rootFrames spf fr) s.roots } [] with
  | error x =>
    constructor
    · intro h; cases h
    · intro h; cases h
  | ok q =>
    obtain ⟨a, o⟩ := q
    constructor
    · intro h; cases h; rfl
    · intro h; cases h; rfl

/-- **`Process` in lock-step**: two instances with the same persisted state and open elections accept
    the next event (parents processed) with the same decided frames, end with the same persisted
    state, and both satisfy the L5 invariant again. -/
theorem process_lockstep {N : Net} {vals : Vals} {env : Env} (C : Ctx N vals env) {done : List Nat}
    {blocks : List (Nat × Nat)} {s : OState} (e₂ : Election) (I : OInv N vals done blocks s)
    (O₁ : OpenEl N vals s (fun _ => False)) (O₂ : OpenEl N vals { s with el := e₂ } (fun _ => False))
    (id : Nat) (hid : id < N.h.length) (hnew : id ∉ done) (hpar : ∀ x, Anc N.h id x → x ≠ id → x ∈ done) :
    ∃ s₁' s₂' ds, process env s id (N.creator id) (N.spf id) (N.fr id) = (s₁', .ok ds) ∧
      process env { s with el := e₂ } id (N.creator id) (N.spf id) (N.fr id) = (s₂', .ok ds) ∧
      SamePersisted s₁' s₂' ∧ OInv N vals (id :: done) (blocks ++ ds.map blk) s₁' ∧
      OpenEl N vals s₁' (fun _ => False) ∧ OpenEl N vals s₂' (fun _ => False) := by
  have I₂ : OInv N vals done blocks { s with el := e₂ } :=
    ⟨I.vals_eq, I.table, I.closed, I.ldf, I.frames, I.atropoi⟩
  obtain ⟨s₁', ds₁, h₁, I₁', O₁'⟩ := process_spec C I O₁ id hid hnew hpar
  obtain ⟨s₂', ds₂, h₂, _, O₂'⟩ := process_spec C I₂ O₂ id hid hnew hpar
  have hacc : frameAccepted (quorumOn env s id) (N.spf id) (N.fr id) = true :=
    frameAccepted_of_allowed env C.hv C.hfa (by rw [I.vals_eq]; exact C.ok) C.obs I.table id hid hnew hpar
  have hspf := spf_lt C.hv C.hfa C.hb hid
  have hff : Gen.Orderer.electionFirstFrame (N.spf id) = N.spf id + 1 := by
    unfold Gen.Orderer.electionFirstFrame; exact Nat.mod_eq_of_lt (by omega)
  let t : OState := { s with roots := insertAll env id (N.creator id) (rootFrames (N.spf id) (N.fr id)) s.roots }
  have g₁ : handleElection env id (N.creator id) (N.fr id) (N.fr id + 1) (N.spf id + 1) { t with el := s.el } [] =
      .ok (s₁', ds₁) := (process_ok env s id _ _ _ hacc hff s₁' ds₁).1 h₁
  have g₂ : handleElection env id (N.creator id) (N.fr id) (N.fr id + 1) (N.spf id + 1) { t with el := e₂ } [] =
      .ok (s₂', ds₂) := (process_ok env { s with el := e₂ } id _ _ _ hacc hff s₂' ds₂).1 h₂
  have It : OInv N vals (id :: done) blocks t :=
    ⟨I.vals_eq, table_insert I.table env id hnew hid hspf, closed_cons I.closed id hpar, I.ldf, I.frames, I.atropoi⟩
  have hmono : ∀ r, r ∈ s.roots → r ∈ t.roots := fun r hr => (mem_insertAll _ _ _ _ _ _).2 (Or.inl hr)
  have hmt : ∀ g r, r ∈ frameRoots s g → r ∈ frameRoots t g := by
    intro g r hr
    obtain ⟨a, b⟩ := (mem_frameRoots s g r).1 hr
    exact (mem_frameRoots t g r).2 ⟨hmono r a, b⟩
  have cov : ∀ (fed : List Root), (∀ r ∈ s.roots, s.ldf + 1 < r.frame → r ∈ fed ∨ False) →
      ∀ r ∈ t.roots, t.ldf + 1 < r.frame → r ∈ fed ∨ pend id (N.spf id + 1) r := by
    intro fed ha r hr hfr
    rcases (mem_insertAll _ _ _ _ _ _).1 hr with h | ⟨f, hf, rfl⟩
    · exact (ha r h hfr).elim Or.inl False.elim
    · rw [C04.rootFrames_spec _ _ _ hspf] at hf
      exact Or.inr ⟨rfl, hf.1⟩
  have O2 : Open2 N vals t s.el e₂ (pend id (N.spf id + 1)) := by
    obtain ⟨fed₁, fed₂, E₁, E₂, hs₁, hs₂, ha₁, ha₂, h12, h21⟩ := open2_of_open O₁ O₂
    exact ⟨fed₁, fed₂, E₁.mono_table hmt, E₂.mono_table hmt, fun r hr => hmono r (hs₁ r hr),
      fun r hr => hmono r (hs₂ r hr), cov fed₁ ha₁, cov fed₂ ha₂, h12, h21⟩
  obtain ⟨b, hb, hab⟩ := handle_lockstep C id hid List.mem_cons_self (N.fr id + 1) (N.spf id + 1) t s.el e₂
    blocks [] It O2 (by omega) s₁' ds₁ g₁
  rw [g₂] at hb
  cases hb
  exact ⟨s₁', s₂', ds₁, h₁, h₂, hab, I₁', O₁', O₂'⟩

end OrdererRestart3
