import LachesisVerif.Proofs.OrdererRestart3b
/-!
C08, part 5: whole continuations. `runAll` submits a list of events and collects the answers of
`Process`; `runSegs` does the same but restarts the instance (`bootstrap`) before every segment.
-/
namespace OrdererRestart3
open Model.Pos Model.Election Model.Orderer ElectionRules ElectionRefine ElectionProofs VecProofs
open OrdererProofs OrdererRestart OrdererSeal

/-- submit the events `ids` one after the other, whatever the answers; collect the answers -/
def runAll (N : Net) (env : Env) : List Nat → OState → OState × List Res
  | [], s => (s, [])
  | id :: rest, s =>
    ((runAll N env rest (process env s id (N.creator id) (N.spf id) (N.fr id)).1).1,
     (process env s id (N.creator id) (N.spf id) (N.fr id)).2 ::
       (runAll N env rest (process env s id (N.creator id) (N.spf id) (N.fr id)).1).2)

theorem runAll_append (N : Net) (env : Env) (a b : List Nat) (s : OState) :
    runAll N env (a ++ b) s =
      ((runAll N env b (runAll N env a s).1).1, (runAll N env a s).2 ++ (runAll N env b (runAll N env a s).1).2) := by
  induction a generalizing s with
  | nil => rfl
  | cons id rest ih => simp only [List.cons_append, runAll, ih]

theorem pf_append (N : Net) (a b : List Nat) : ∀ done,
    PFFrom N done (a ++ b) ↔ (PFFrom N done a ∧ PFFrom N (a.reverse ++ done) b) := by
  induction a with
  | nil => intro done; simp [PFFrom]
  | cons id rest ih =>
    intro done
    have e : (id :: rest).reverse ++ done = rest.reverse ++ (id :: done) := by
      rw [List.reverse_cons, List.append_assoc]; rfl
    rw [e]
    simp only [List.cons_append, PFFrom, ih (id :: done), and_assoc]

/-- the accepted runs of `runAll` are the runs of `runIds` -/
theorem runIds_of_runAll (N : Net) (env : Env) (ids : List Nat) :
    ∀ (s : OState) (out : List Decided) (dss : List (List Decided)),
      (runAll N env ids s).2 = dss.map Res.ok →
      runIds N env ids s out = some ((runAll N env ids s).1, out ++ dss.flatten) := by
  induction ids with
  | nil =>
    intro s out dss h
    cases dss with
    | nil => simp [runIds, runAll]
    | cons d ds => simp [runAll] at h
  | cons id rest ih =>
    intro s out dss h
    cases dss with
    | nil => simp [runAll] at h
    | cons d ds =>
      simp only [runAll, List.map_cons, List.cons.injEq] at h
      have hp : process env s id (N.creator id) (N.spf id) (N.fr id) =
          ((process env s id (N.creator id) (N.spf id) (N.fr id)).1, Res.ok d) := Prod.ext rfl h.1
      have := ih (process env s id (N.creator id) (N.spf id) (N.fr id)).1 (out ++ d) ds h.2
      simp only [runIds, runAll]
      rw [hp]
      simp only [this, List.flatten_cons, List.append_assoc]

/-- **Whole continuations in lock-step.** -/
theorem run_lockstep {N : Net} {vals : Vals} {env : Env} (C : Ctx N vals env) (ids : List Nat) :
    ∀ (done : List Nat) (blocks : List (Nat × Nat)) (s : OState) (e₂ : Election),
      OInv N vals done blocks s → OpenEl N vals s (fun _ => False) →
      OpenEl N vals { s with el := e₂ } (fun _ => False) → PFFrom N done ids →
      ∃ dss : List (List Decided),
        (runAll N env ids s).2 = dss.map Res.ok ∧ (runAll N env ids { s with el := e₂ }).2 = dss.map Res.ok ∧
        SamePersisted (runAll N env ids s).1 (runAll N env ids { s with el := e₂ }).1 ∧
        OInv N vals (ids.reverse ++ done) (blocks ++ dss.flatten.map blk) (runAll N env ids s).1 ∧
        OpenEl N vals (runAll N env ids s).1 (fun _ => False) ∧
        OpenEl N vals (runAll N env ids { s with el := e₂ }).1 (fun _ => False) := by
  induction ids with
  | nil =>
    intro done blocks s e₂ I O₁ O₂ _
    refine ⟨[], rfl, rfl, ⟨rfl, rfl, rfl, rfl⟩, ?_, O₁, O₂⟩
    simp only [List.reverse_nil, List.nil_append, List.flatten_nil, List.map_nil, List.append_nil]
    exact I
  | cons id rest ih =>
    intro done blocks s e₂ I O₁ O₂ hpf
    obtain ⟨hid, hnew, hpar, hrest⟩ := hpf
    obtain ⟨s₁', s₂', ds, h₁, h₂, hsp, I', O₁', O₂'⟩ := process_lockstep C e₂ I O₁ O₂ id hid hnew hpar
    obtain ⟨el₂', rfl⟩ : ∃ el₂', s₂' = { s₁' with el := el₂' } := ⟨s₂'.el, samePersisted_eq hsp⟩
    obtain ⟨dss, a, b, c, d, e1, e2⟩ := ih (id :: done) _ s₁' el₂' I' O₁' O₂' hrest
    have hr : (id :: rest).reverse ++ done = rest.reverse ++ (id :: done) := by
      rw [List.reverse_cons, List.append_assoc]; rfl
    refine ⟨ds :: dss, ?_, ?_, ?_, ?_, ?_, ?_⟩
    · simp only [runAll, h₁, List.map_cons, a]
    · simp only [runAll, h₂, List.map_cons, b]
    · simp only [runAll, h₁, h₂]; exact c
    · rw [hr, List.flatten_cons, List.map_append, ← List.append_assoc]
      simp only [runAll, h₁]; exact d
    · simp only [runAll, h₁]; exact e1
    · simp only [runAll, h₂]; exact e2

/-- restart before every segment; `none` if a restart fails, decides a frame or reports a seal -/
def runSegs (N : Net) (env : Env) : List (List Nat) → OState → Option (OState × List Res)
  | [], s => some (s, [])
  | seg :: rest, s =>
    match bootstrap env s with
    | .ok (s', [], false) =>
      match runSegs N env rest (runAll N env seg s').1 with
      | some (s'', rs) => some (s'', (runAll N env seg s').2 ++ rs)
      | none => none
    | _ => none

/-- restarts at any number of points -/
theorem segs_lockstep {N : Net} {vals : Vals} {env : Env} (C : Ctx N vals env) (segs : List (List Nat)) :
    ∀ (done : List Nat) (blocks : List (Nat × Nat)) (s : OState) (e₂ : Election),
      OInv N vals done blocks s → OpenEl N vals s (fun _ => False) →
      OpenEl N vals { s with el := e₂ } (fun _ => False) → PFFrom N done segs.flatten →
      ∃ (dss : List (List Decided)) (s' : OState),
        runSegs N env segs { s with el := e₂ } = some (s', dss.map Res.ok) ∧
        (runAll N env segs.flatten s).2 = dss.map Res.ok ∧
        SamePersisted (runAll N env segs.flatten s).1 s' := by
  induction segs with
  | nil =>
    intro done blocks s e₂ _ _ _ _
    exact ⟨[], _, rfl, rfl, ⟨rfl, rfl, rfl, rfl⟩⟩
  | cons seg rest ih =>
    intro done blocks s e₂ I O₁ _ hpf
    rw [List.flatten_cons, pf_append] at hpf
    obtain ⟨el₂, hb, O₂⟩ := restart_open C I O₁
    have hb' : bootstrap env { s with el := e₂ } = .ok ({ s with el := el₂ }, [], false) := hb
    obtain ⟨dss₁, a, b, c, d, e1, e2⟩ := run_lockstep C seg done blocks s el₂ I O₁ O₂ hpf.1
    obtain ⟨el₃, he₃⟩ : ∃ el₃, (runAll N env seg { s with el := el₂ }).1 = { (runAll N env seg s).1 with el := el₃ } :=
      ⟨_, samePersisted_eq c⟩
    rw [he₃] at e2
    obtain ⟨dss₂, s', a', b', c'⟩ := ih _ _ (runAll N env seg s).1 el₃ d e1 e2 hpf.2
    refine ⟨dss₁ ++ dss₂, s', ?_, ?_, ?_⟩
    · simp only [runSegs, hb', he₃, a', b, List.map_append]
    · rw [List.flatten_cons, runAll_append, a, b', List.map_append]
    · rw [List.flatten_cons, runAll_append]; exact c'

/-! ### the history order itself is a parents-first order -/

theorem pf_range' (N : Net) (hv : Valid N.nVals N.h) : ∀ (m k : Nat) (done : List Nat),
    (∀ x, x < k → x ∈ done) → (∀ x ∈ done, x < k) → k + m ≤ N.h.length → PFFrom N done (List.range' k m) := by
  intro m
  induction m with
  | zero => intro k done _ _ _; trivial
  | succ m ih =>
    intro k done h1 h2 hlen
    rw [List.range'_succ]
    refine ⟨by omega, fun hk => Nat.lt_irrefl _ (h2 k hk), ?_, ih (k + 1) (k :: done) ?_ ?_ (by omega)⟩
    · intro x hx hne
      have := ElectionRules.anc_le hv hx
      exact h1 x (by omega)
    · intro x hx
      by_cases hxk : x = k
      · rw [hxk]; exact List.mem_cons_self
      · exact List.mem_cons_of_mem _ (h1 x (by omega))
    · intro x hx
      rcases List.mem_cons.1 hx with rfl | hx
      · omega
      · have := h2 x hx; omega

/-- the first `k` events of a valid history followed by the remaining ones: a parents-first order -/
theorem pf_split (N : Net) (hv : Valid N.nVals N.h) (k : Nat) (hk : k ≤ N.h.length) :
    PFFrom N [] (List.range' 0 k ++ List.range' k (N.h.length - k)) := by
  rw [pf_append]
  refine ⟨pf_range' N hv k 0 [] (by intro x hx; omega) (by intro x hx; cases hx) (by omega), ?_⟩
  apply pf_range' N hv
  · intro x hx
    rw [List.append_nil, List.mem_reverse, List.mem_range'_1]; omega
  · intro x hx
    rw [List.append_nil, List.mem_reverse, List.mem_range'_1] at hx; omega
  · omega

end OrdererRestart3
