import LachesisVerif.Proofs.OrdererRestart
/-!
C08, part 2: a running and a restarted instance (same persisted state, equivalent elections) go
through the loop of `handleElection` in lock-step: same errors, same decided frames, and identical
states as soon as one frame has been decided.
-/
namespace OrdererRestart
open Model.Pos Model.Election Model.Orderer ElectionProofs ElectionRefine OrdererSeal

/-- what `handleElection` does after a decision -/
def afterDecision (env : Env) (id creator frame fuel g : Nat) (p : OState × Decided) (out : List Decided) :
    Except ElErr (OState × List Decided) :=
  if p.2.sealed then .ok (p.1, out ++ [p.2]) else
  match bootstrapElection env (p.1.roots.length + 2) p.1 (out ++ [p.2]) with
  | .error x => .error x
  | .ok (s2, out2, sealed) =>
    if sealed then .ok (s2, out2) else handleElection env id creator frame fuel (g + 1) s2 out2

theorem handleElection_succ (env : Env) (id creator frame fuel g : Nat) (s : OState) (out : List Decided) :
    handleElection env id creator frame (fuel + 1) g s out =
      if !Gen.Orderer.electionLoopCond g frame then .ok (s, out) else
      match processRoot env.observe (framesOf s.roots) s.el ⟨id, g, creator⟩ with
      | .error x => .error x
      | .ok (el', none) => handleElection env id creator frame fuel (g + 1) { s with el := el' } out
      | .ok (el', some (df, atropos)) =>
        afterDecision env id creator frame fuel g (onFrameDecided env { s with el := el' } df atropos) out := rfl

/-- `onFrameDecided` does not read the election -/
theorem onFrameDecided_el (env : Env) (t : OState) (a b : Election) (df atropos : Nat) :
    onFrameDecided env { t with el := a } df atropos = onFrameDecided env { t with el := b } df atropos := by
  unfold onFrameDecided
  cases env.sealAt t.epoch df <;> rfl

/-- outcome of the running instance determines the outcome of the restarted one -/
def Coupled (N : ElectionRules.Net) (F : Nat) (t : OState) (out : List Decided)
    (r₁ r₂ : Except ElErr (OState × List Decided)) : Prop :=
  (∀ x, r₁ = .error x → r₂ = .error x) ∧
  (∀ a o, r₁ = .ok (a, o) → ∃ b, r₂ = .ok (b, o) ∧
    (a = b ∨ (o = out ∧ ∃ e₁ e₂ fed, a = { t with el := e₁ } ∧ b = { t with el := e₂ } ∧ ElEquiv N F fed e₁ e₂)))

theorem coupled_same (N : ElectionRules.Net) (F : Nat) (t : OState) (out : List Decided)
    (r : Except ElErr (OState × List Decided)) : Coupled N F t out r r :=
  ⟨fun _ h => h, fun a _ h => ⟨a, h, Or.inl rfl⟩⟩

theorem handleElection_coupled (N : ElectionRules.Net) (env : Env) (t : OState) (F : Nat)
    (S : Setup N t.vals F env.observe (framesOf t.roots)) (hpos : 0 < N.nVals)
    (id creator frame : Nat) (hfr : frame < 4294967296) (out : List Decided) (fuel : Nat) :
    ∀ (g : Nat) (e₁ e₂ : Election) (rs₁ rs₂ : List Root),
      FeedClosed env.observe (framesOf t.roots) F [] rs₁ → FeedClosed env.observe (framesOf t.roots) F [] rs₂ →
      (∀ r ∈ rs₁, F < r.frame → r ∈ rs₂) → (∀ r ∈ rs₂, F < r.frame → r ∈ rs₁) →
      runRoots env.observe (framesOf t.roots) (reset t.vals F) rs₁ = .ok (e₁, none) →
      runRoots env.observe (framesOf t.roots) (reset t.vals F) rs₂ = .ok (e₂, none) →
      (∀ k, g ≤ k → k ≤ frame → (⟨id, k, creator⟩ : Root) ∈ t.roots) →
      (∀ p ∈ t.roots, F < p.frame → env.observe id p.id = true →
        p ∈ rs₁ ∨ (p = ⟨id, p.frame, creator⟩ ∧ g ≤ p.frame)) →
      Coupled N F t out (handleElection env id creator frame fuel g { t with el := e₁ } out)
        (handleElection env id creator frame fuel g { t with el := e₂ } out) := by
  induction fuel with
  | zero =>
    intro g e₁ e₂ rs₁ rs₂ c₁ c₂ h12 h21 h₁ h₂ _ _
    obtain ⟨x, hx, heq⟩ := restart_equiv_core S hpos rs₁ rs₂ c₁ c₂ h12 h21 e₁ none h₁
    rw [h₂] at hx; cases hx
    refine ⟨fun x h => (by simp only [handleElection] at h; cases h), fun a o h => ?_⟩
    simp only [handleElection] at h; cases h
    exact ⟨_, rfl, Or.inr ⟨rfl, e₁, e₂, _, rfl, rfl, heq rfl⟩⟩
  | succ k ih =>
    intro g e₁ e₂ rs₁ rs₂ c₁ c₂ h12 h21 h₁ h₂ hroots hcl
    rw [handleElection_succ, handleElection_succ]
    by_cases hc : (!Gen.Orderer.electionLoopCond g frame) = true
    · rw [if_pos hc, if_pos hc]
      obtain ⟨x, hx, heq⟩ := restart_equiv_core S hpos rs₁ rs₂ c₁ c₂ h12 h21 e₁ none h₁
      rw [h₂] at hx; cases hx
      refine ⟨fun x h => (by cases h), fun a o h => ?_⟩
      cases h
      exact ⟨_, rfl, Or.inr ⟨rfl, e₁, e₂, _, rfl, rfl, heq rfl⟩⟩
    · rw [if_neg hc, if_neg hc]
      have hg : g ≤ frame := by
        unfold Gen.Orderer.electionLoopCond at hc; simpa using hc
      let nr : Root := ⟨id, g, creator⟩
      have hroot : nr ∈ framesOf t.roots nr.frame := (mem_framesOf _ _ _).2 ⟨hroots g (Nat.le_refl _) hg, rfl⟩
      have hclosed : ∀ p ∈ framesOf t.roots (nr.frame - 1), F < p.frame → env.observe nr.id p.id = true → p ∈ rs₁ := by
        intro p hp hfp ho
        obtain ⟨hp1, hp2⟩ := (mem_framesOf _ _ _).1 hp
        rcases hcl p hp1 hfp ho with h | ⟨_, h⟩
        · exact h
        · exfalso
          have : nr.frame = g := rfl
          omega
      obtain ⟨hmap, hnone⟩ := next_processRoot_equiv S hpos rs₁ rs₂ c₁ c₂ h12 h21 e₁ e₂ h₁ h₂ nr hroot
        (by show g < 4294967296; omega) hclosed
      show Coupled N F t out
        (match processRoot env.observe (framesOf t.roots) e₁ nr with
          | .error x => .error x
          | .ok (el', none) => handleElection env id creator frame k (g + 1) { t with el := el' } out
          | .ok (el', some (df, atropos)) =>
            afterDecision env id creator frame k g (onFrameDecided env { t with el := el' } df atropos) out)
        (match processRoot env.observe (framesOf t.roots) e₂ nr with
          | .error x => .error x
          | .ok (el', none) => handleElection env id creator frame k (g + 1) { t with el := el' } out
          | .ok (el', some (df, atropos)) =>
            afterDecision env id creator frame k g (onFrameDecided env { t with el := el' } df atropos) out)
      cases hp₁ : processRoot env.observe (framesOf t.roots) e₁ nr with
      | error x =>
        rw [hp₁] at hmap
        cases hp₂ : processRoot env.observe (framesOf t.roots) e₂ nr with
        | error y =>
          rw [hp₂] at hmap
          simp only [Except.map] at hmap
          cases hmap
          exact coupled_same N F t out _
        | ok q => rw [hp₂] at hmap; simp only [Except.map] at hmap; cases hmap
      | ok q =>
        obtain ⟨e₁', res⟩ := q
        cases res with
        | none =>
          obtain ⟨e₂', hp₂, _⟩ := hnone e₁' hp₁
          rw [hp₂]
          simp only
          have r₁ := runRoots_snoc (observe := env.observe) (frameRoots := framesOf t.roots) rs₁ _ e₁ nr h₁
          have r₂ := runRoots_snoc (observe := env.observe) (frameRoots := framesOf t.roots) rs₂ _ e₂ nr h₂
          apply ih (g + 1) e₁' e₂' (rs₁ ++ [nr]) (rs₂ ++ [nr])
          · rw [feedClosed_append]
            refine ⟨c₁, ⟨hroot, (by show g < 4294967296; omega), ?_⟩, trivial⟩
            intro p hp hfp ho
            rw [List.append_nil, List.mem_reverse]; exact hclosed p hp hfp ho
          · rw [feedClosed_append]
            refine ⟨c₂, ⟨hroot, (by show g < 4294967296; omega), ?_⟩, trivial⟩
            intro p hp hfp ho
            rw [List.append_nil, List.mem_reverse]; exact h12 p (hclosed p hp hfp ho) hfp
          · intro r hr hfr'
            rcases List.mem_append.1 hr with h | h
            · exact List.mem_append_left _ (h12 r h hfr')
            · exact List.mem_append_right _ h
          · intro r hr hfr'
            rcases List.mem_append.1 hr with h | h
            · exact List.mem_append_left _ (h21 r h hfr')
            · exact List.mem_append_right _ h
          · rw [r₁]; exact hp₁
          · rw [r₂]; exact hp₂
          · intro k' hk1 hk2; exact hroots k' (by omega) hk2
          · intro p hp hfp ho
            rcases hcl p hp hfp ho with h | ⟨h1, h2⟩
            · exact Or.inl (List.mem_append_left _ h)
            · by_cases hpg : p.frame = g
              · left
                apply List.mem_append_right
                rw [h1, hpg]; exact List.mem_singleton.2 rfl
              · exact Or.inr ⟨h1, by omega⟩
        | some b =>
          obtain ⟨df, atropos⟩ := b
          rw [hp₁] at hmap
          cases hp₂ : processRoot env.observe (framesOf t.roots) e₂ nr with
          | error y => rw [hp₂] at hmap; simp only [Except.map] at hmap; cases hmap
          | ok q₂ =>
            obtain ⟨e₂', res₂⟩ := q₂
            rw [hp₂] at hmap
            simp only [Except.map, Except.ok.injEq] at hmap
            subst hmap
            simp only
            rw [onFrameDecided_el env t e₂' e₁' df atropos]
            exact coupled_same N F t out _

/-! ### the roots table grows: old runs are unaffected -/

/-- `Store.AddRoot` for the frames `fs` of one event -/
def insRoots (env : Env) (id creator : Nat) (fs : List Nat) (l : List Root) : List Root :=
  fs.foldl (fun l f => insertRoot env ⟨id, f, creator⟩ l) l

theorem insertRoots_state (env : Env) (id creator : Nat) (fs : List Nat) (s : OState) :
    fs.foldl (fun s f => { s with roots := insertRoot env ⟨id, f, creator⟩ s.roots }) s =
      { s with roots := insRoots env id creator fs s.roots } := by
  induction fs generalizing s with
  | nil => rfl
  | cons f rest ih => exact ih _

theorem mem_insertRoot (env : Env) (r x : Root) (l : List Root) : x ∈ insertRoot env r l ↔ (x = r ∨ x ∈ l) := by
  induction l with
  | nil => simp [insertRoot]
  | cons y ys ih =>
    simp only [insertRoot]
    split
    · simp
    · split
      · rename_i hry
        have : r = y := by simpa using hry
        subst this
        simp
      · rw [List.mem_cons, ih, List.mem_cons]
        constructor
        · rintro (h | h | h)
          · exact Or.inr (Or.inl h)
          · exact Or.inl h
          · exact Or.inr (Or.inr h)
        · rintro (h | h | h)
          · exact Or.inr (Or.inl h)
          · exact Or.inl h
          · exact Or.inr (Or.inr h)

theorem mem_insRoots (env : Env) (id creator : Nat) (fs : List Nat) (l : List Root) (x : Root) :
    x ∈ insRoots env id creator fs l ↔ ((∃ f ∈ fs, x = ⟨id, f, creator⟩) ∨ x ∈ l) := by
  unfold insRoots
  induction fs generalizing l with
  | nil => simp
  | cons f rest ih =>
    rw [List.foldl_cons, ih, mem_insertRoot]
    constructor
    · rintro (⟨g, hg, h⟩ | h | h)
      · exact Or.inl ⟨g, List.mem_cons_of_mem _ hg, h⟩
      · exact Or.inl ⟨f, List.mem_cons_self, h⟩
      · exact Or.inr h
    · rintro (⟨g, hg, h⟩ | h)
      · rcases List.mem_cons.1 hg with rfl | hg
        · exact Or.inr (Or.inl h)
        · exact Or.inl ⟨g, hg, h⟩
      · exact Or.inr (Or.inr h)

theorem filter_insertRoot (env : Env) (r : Root) (P : Root → Bool) (hP : P r = false) (l : List Root) :
    (insertRoot env r l).filter P = l.filter P := by
  induction l with
  | nil => simp [insertRoot, hP]
  | cons y ys ih =>
    simp only [insertRoot]
    split
    · rw [List.filter_cons, hP]; rfl
    · split
      · rfl
      · rw [List.filter_cons, List.filter_cons, ih]

theorem filter_insRoots (env : Env) (id creator : Nat) (P : Root → Bool)
    (hP : ∀ f, P ⟨id, f, creator⟩ = false) (fs : List Nat) (l : List Root) :
    (insRoots env id creator fs l).filter P = l.filter P := by
  unfold insRoots
  induction fs generalizing l with
  | nil => rfl
  | cons f rest ih => rw [List.foldl_cons, ih, filter_insertRoot env _ P (hP f)]

/-- a root that does not observe the new event sees the same previous-frame roots in the larger table -/
theorem seenRoots_grow (env : Env) (id creator : Nat) (fs : List Nat) (l : List Root) (nr : Root)
    (h : env.observe nr.id id = false) :
    seenRoots env.observe (framesOf (insRoots env id creator fs l)) nr = seenRoots env.observe (framesOf l) nr := by
  unfold seenRoots framesOf
  rw [List.filter_filter, List.filter_filter]
  apply filter_insRoots
  intro f
  simp [h]

theorem processRoot_congr_seen (observe : Nat → Nat → Bool) (fr₁ fr₂ : Nat → List Root) (el : Election) (nr : Root)
    (h : seenRoots observe fr₁ nr = seenRoots observe fr₂ nr) :
    processRoot observe fr₁ el nr = processRoot observe fr₂ el nr := by
  rw [processRoot_eq, processRoot_eq, h]

theorem runRoots_grow (env : Env) (id creator : Nat) (fs : List Nat) (l : List Root) (rs : List Root)
    (h : ∀ r ∈ rs, env.observe r.id id = false) (el : Election) :
    runRoots env.observe (framesOf (insRoots env id creator fs l)) el rs = runRoots env.observe (framesOf l) el rs := by
  induction rs generalizing el with
  | nil => rfl
  | cons r rest ih =>
    simp only [runRoots]
    rw [processRoot_congr_seen _ _ _ _ _ (seenRoots_grow env id creator fs l r (h r List.mem_cons_self))]
    cases processRoot env.observe (framesOf l) el r with
    | error x => rfl
    | ok p =>
      obtain ⟨el', res⟩ := p
      cases res with
      | some q => rfl
      | none => exact ih (fun r hr => h r (List.mem_cons_of_mem _ hr)) el'

theorem feedClosed_grow (env : Env) (id creator : Nat) (fs : List Nat) (l : List Root) (F : Nat) (rs : List Root)
    (h : ∀ r ∈ rs, env.observe r.id id = false) :
    ∀ fed, FeedClosed env.observe (framesOf l) F fed rs →
      FeedClosed env.observe (framesOf (insRoots env id creator fs l)) F fed rs := by
  induction rs with
  | nil => intro _ _; trivial
  | cons r rest ih =>
    intro fed hfc
    obtain ⟨⟨h1, h2, h3⟩, hrest⟩ := hfc
    refine ⟨⟨?_, h2, ?_⟩, ih (fun r hr => h r (List.mem_cons_of_mem _ hr)) _ hrest⟩
    · obtain ⟨a, b⟩ := (mem_framesOf _ _ _).1 h1
      exact (mem_framesOf _ _ _).2 ⟨(mem_insRoots _ _ _ _ _ _).2 (Or.inr a), b⟩
    · intro p hp hfp ho
      obtain ⟨a, b⟩ := (mem_framesOf _ _ _).1 hp
      rcases (mem_insRoots _ _ _ _ _ _).1 a with ⟨g, _, hg⟩ | a
      · exfalso
        have := h r List.mem_cons_self
        rw [hg] at ho
        rw [this] at ho; cases ho
      · exact h3 p ((mem_framesOf _ _ _).2 ⟨a, b⟩) hfp ho

/-! ### one further `Process` step -/

theorem process_eq (env : Env) (s : OState) (id creator spf claimed : Nat) :
    process env s id creator spf claimed =
      if !frameAccepted (quorumOn env s id) spf claimed then (s, .wrongFrame) else
      match handleElection env id creator claimed (claimed + 1) (Gen.Orderer.electionFirstFrame spf)
          { s with roots := insRoots env id creator (rootFrames spf claimed) s.roots } [] with
      | .error x => (s, .failed x)
      | .ok (s2, out) => (s2, .ok out) := by
  unfold process
  rw [insertRoots_state]
  rfl

theorem mem_rootFrames (spf claimed k : Nat) :
    k ∈ rootFrames spf claimed ↔ (spf ≠ claimed ∧ k ≤ claimed ∧ (spf + 1) % 4294967296 ≤ k) := by
  unfold rootFrames Gen.Orderer.isRoot Gen.Orderer.addRootFirstFrame Gen.Orderer.addRootLoopCond
  by_cases h : spf = claimed
  · simp [h]
  · simp only [h, ne_eq, not_false_eq_true, decide_true, if_true, List.mem_filter, List.mem_range,
      Bool.and_eq_true, decide_eq_true_eq, true_and]
    omega

/-- a running instance `s` and a restarted one `{ s with el := e₂ }` whose elections come from two
    closed feeds of the same known roots process the next event identically -/
theorem process_coupled (N : ElectionRules.Net) (env : Env) (s : OState) (e₂ : Election) (rs₁ rs₂ : List Root)
    (id creator spf claimed : Nat) (hclaimed : claimed < 4294967296) (hspf : spf + 1 < 4294967296)
    (S1 : Setup N s.vals s.el.frameToDecide env.observe
      (framesOf (insRoots env id creator (rootFrames spf claimed) s.roots)))
    (hpos : 0 < N.nVals)
    (c₁ : FeedClosed env.observe (framesOf s.roots) s.el.frameToDecide [] rs₁)
    (c₂ : FeedClosed env.observe (framesOf s.roots) s.el.frameToDecide [] rs₂)
    (h12 : ∀ r ∈ rs₁, s.el.frameToDecide < r.frame → r ∈ rs₂)
    (h21 : ∀ r ∈ rs₂, s.el.frameToDecide < r.frame → r ∈ rs₁)
    (h₁ : runRoots env.observe (framesOf s.roots) (reset s.vals s.el.frameToDecide) rs₁ = .ok (s.el, none))
    (h₂ : runRoots env.observe (framesOf s.roots) (reset s.vals s.el.frameToDecide) rs₂ = .ok (e₂, none))
    (hk₁ : ∀ r ∈ rs₁, r ∈ s.roots) (hk₂ : ∀ r ∈ rs₂, r ∈ s.roots)
    (hcov : ∀ r ∈ s.roots, s.el.frameToDecide < r.frame → r ∈ rs₁)
    (hunseen : ∀ p ∈ s.roots, env.observe p.id id = false) :
    (process env s id creator spf claimed).2 = (process env { s with el := e₂ } id creator spf claimed).2 ∧
    SamePersisted (process env s id creator spf claimed).1
      (process env { s with el := e₂ } id creator spf claimed).1 := by
  rw [process_eq, process_eq]
  have hq : quorumOn env { s with el := e₂ } id = quorumOn env s id := rfl
  rw [hq]
  by_cases hacc : (!frameAccepted (quorumOn env s id) spf claimed) = true
  · rw [if_pos hacc, if_pos hacc]; exact ⟨rfl, ⟨rfl, rfl, rfl, rfl⟩⟩
  · rw [if_neg hacc, if_neg hacc]
    let R := insRoots env id creator (rootFrames spf claimed) s.roots
    let t : OState := { s with roots := R }
    have hfirst : Gen.Orderer.electionFirstFrame spf = spf + 1 := Nat.mod_eq_of_lt hspf
    have u₁ : ∀ r ∈ rs₁, env.observe r.id id = false := fun r hr => hunseen r (hk₁ r hr)
    have u₂ : ∀ r ∈ rs₂, env.observe r.id id = false := fun r hr => hunseen r (hk₂ r hr)
    have C := handleElection_coupled N env t s.el.frameToDecide S1 hpos id creator claimed hclaimed []
      (claimed + 1) (Gen.Orderer.electionFirstFrame spf) s.el e₂ rs₁ rs₂
      (feedClosed_grow env id creator _ s.roots _ rs₁ u₁ [] c₁)
      (feedClosed_grow env id creator _ s.roots _ rs₂ u₂ [] c₂) h12 h21
      (by show runRoots env.observe (framesOf R) (reset s.vals s.el.frameToDecide) rs₁ = _
          rw [runRoots_grow env id creator _ s.roots rs₁ u₁]; exact h₁)
      (by show runRoots env.observe (framesOf R) (reset s.vals s.el.frameToDecide) rs₂ = _
          rw [runRoots_grow env id creator _ s.roots rs₂ u₂]; exact h₂)
      (by
        intro k hk1 hk2
        rw [hfirst] at hk1
        apply (mem_insRoots _ _ _ _ _ _).2
        left
        refine ⟨k, (mem_rootFrames spf claimed k).2 ⟨by omega, hk2, ?_⟩, rfl⟩
        rw [Nat.mod_eq_of_lt hspf]; exact hk1)
      (by
        intro p hp hfp _
        rcases (mem_insRoots _ _ _ _ _ _).1 hp with ⟨g, hg, rfl⟩ | hp
        · right
          refine ⟨rfl, ?_⟩
          have := ((mem_rootFrames spf claimed g).1 hg).2.2
          rw [Nat.mod_eq_of_lt hspf] at this
          rw [hfirst]; exact this
        · exact Or.inl (hcov p hp hfp))
    show (match handleElection env id creator claimed (claimed + 1) (Gen.Orderer.electionFirstFrame spf)
            { t with el := s.el } [] with
          | .error x => (s, Res.failed x)
          | .ok (s2, out) => (s2, Res.ok out)).2 =
        (match handleElection env id creator claimed (claimed + 1) (Gen.Orderer.electionFirstFrame spf)
            { t with el := e₂ } [] with
          | .error x => (({ s with el := e₂ } : OState), Res.failed x)
          | .ok (s2, out) => (s2, Res.ok out)).2 ∧
      SamePersisted
        (match handleElection env id creator claimed (claimed + 1) (Gen.Orderer.electionFirstFrame spf)
            { t with el := s.el } [] with
          | .error x => (s, Res.failed x)
          | .ok (s2, out) => (s2, Res.ok out)).1
        (match handleElection env id creator claimed (claimed + 1) (Gen.Orderer.electionFirstFrame spf)
            { t with el := e₂ } [] with
          | .error x => (({ s with el := e₂ } : OState), Res.failed x)
          | .ok (s2, out) => (s2, Res.ok out)).1
    cases hr₁ : handleElection env id creator claimed (claimed + 1) (Gen.Orderer.electionFirstFrame spf)
        { t with el := s.el } [] with
    | error x =>
      rw [C.1 x hr₁]
      exact ⟨rfl, ⟨rfl, rfl, rfl, rfl⟩⟩
    | ok q =>
      obtain ⟨a, o⟩ := q
      obtain ⟨b, hb, hab⟩ := C.2 a o hr₁
      rw [hb]
      refine ⟨rfl, ?_⟩
      rcases hab with rfl | ⟨_, x₁, x₂, _, rfl, rfl, _⟩
      · exact .refl _
      · exact ⟨rfl, rfl, rfl, rfl⟩

end OrdererRestart
