import LachesisVerif.Proofs.RefEquivL
/-!
# Reference equivalence, part M: the delivered events of the blocks (C02) and the `confirmed` mask

`reference_delivered`: in a run of the reference (one epoch, no seals) there are positions
`as[0], as[1], …` — the Atropoi of the blocks — such that block `i` carries the protocol number of
`as[i]`, `as[i]` is the Atropos of the block's frame by the rules, and the block's `events` are
exactly the protocol numbers of the ancestors-or-self of `as[i]` that are not ancestors-or-self of an
earlier Atropos, in ascending order; the `confirmed` mask is the union of the ancestries of all
Atropoi so far.

Auxiliary: `mem_sortNat`, `sortNat_sorted` (the insertion sort of the reference).
-/
namespace RefEquiv
open Spec.Lachesis VecProofs Model.Vec ElectionRules
open Spec.Lachesis.Inst (Block)

/-! ### `sortNat` -/

theorem ins_nil (x : Nat) : sortNat.ins x [] = [x] := rfl
theorem ins_cons (x y : Nat) (ys : List Nat) :
    sortNat.ins x (y :: ys) = if x ≤ y then x :: y :: ys else y :: sortNat.ins x ys := rfl
theorem sortNat_nil : sortNat [] = [] := rfl
theorem sortNat_cons (x : Nat) (l : List Nat) : sortNat (x :: l) = sortNat.ins x (sortNat l) := rfl

theorem mem_ins (x : Nat) : ∀ (l : List Nat) (y : Nat), y ∈ sortNat.ins x l ↔ y = x ∨ y ∈ l := by
  intro l
  induction l with
  | nil => intro y; rw [ins_nil]; simp
  | cons z zs ih =>
    intro y
    rw [ins_cons]
    by_cases h : x ≤ z
    · rw [if_pos h]; simp
    · rw [if_neg h, List.mem_cons, ih y, List.mem_cons]
      constructor
      · rintro (h1 | h1 | h1)
        · exact Or.inr (Or.inl h1)
        · exact Or.inl h1
        · exact Or.inr (Or.inr h1)
      · rintro (h1 | h1 | h1)
        · exact Or.inr (Or.inl h1)
        · exact Or.inl h1
        · exact Or.inr (Or.inr h1)

theorem mem_sortNat (l : List Nat) (y : Nat) : y ∈ sortNat l ↔ y ∈ l := by
  induction l with
  | nil => rw [sortNat_nil]
  | cons x xs ih => rw [sortNat_cons, mem_ins, ih, List.mem_cons]

theorem ins_sorted (x : Nat) : ∀ (l : List Nat), l.Pairwise (· ≤ ·) → (sortNat.ins x l).Pairwise (· ≤ ·) := by
  intro l
  induction l with
  | nil => intro _; rw [ins_nil]; exact List.pairwise_singleton _ _
  | cons z zs ih =>
    intro hl
    rw [ins_cons]
    rw [List.pairwise_cons] at hl
    by_cases h : x ≤ z
    · rw [if_pos h, List.pairwise_cons]
      refine ⟨fun y hy => ?_, List.pairwise_cons.2 hl⟩
      rcases List.mem_cons.1 hy with rfl | hy
      · exact h
      · exact Nat.le_trans h (hl.1 y hy)
    · rw [if_neg h, List.pairwise_cons]
      refine ⟨fun y hy => ?_, ih hl.2⟩
      rcases (mem_ins x zs y).1 hy with rfl | hy
      · omega
      · exact hl.1 y hy

theorem sortNat_sorted (l : List Nat) : (sortNat l).Pairwise (· ≤ ·) := by
  induction l with
  | nil => rw [sortNat_nil]; exact List.Pairwise.nil
  | cons x xs ih => rw [sortNat_cons]; exact ins_sorted x _ ih

/-! ### delivered blocks -/

/-- block `b` was emitted for the Atropos at position `a` after the Atropoi `as` had been delivered:
    it names `a`, `a` is the Atropos of its frame by the rules, and its events are the protocol numbers
    of the ancestors-or-self of `a` that no earlier Atropos has among its ancestors, ascending -/
def DBlock (s : Inst) (as : List Nat) (a : Nat) (b : Block) : Prop :=
  a < s.size ∧ (∀ a' ∈ as, a' < s.size) ∧ b.atropos = (s.ev a).n ∧ (netOf s).IsAtropos b.frame a ∧
  (∀ n, n ∈ b.events ↔ ∃ x, (s.ev x).n = n ∧ Anc (histOf s) a x ∧ ∀ a' ∈ as, ¬ Anc (histOf s) a' x) ∧
  b.events.Pairwise (· ≤ ·)

/-- the blocks `bs` were emitted, in this order, for the Atropoi `as'`, after the Atropoi `as` -/
def DelFrom (s : Inst) : List Nat → List Nat → List Block → Prop
  | _, [], [] => True
  | as, a :: rest, b :: bs => DBlock s as a b ∧ DelFrom s (as ++ [a]) rest bs
  | _, [], _ :: _ => False
  | _, _ :: _, [] => False

/-- the `confirmed` mask is the union of the ancestries of the Atropoi `as` -/
def ConfOK (s : Inst) (as : List Nat) : Prop :=
  (∀ a ∈ as, a < s.size) ∧ ∀ x, bit s.confirmed x = true ↔ ∃ a ∈ as, Anc (histOf s) a x

theorem delFrom_congr {s s' : Inst} (h : ∀ as a b, DBlock s as a b → DBlock s' as a b) :
    ∀ (as' as : List Nat) (bs : List Block), DelFrom s as as' bs → DelFrom s' as as' bs := by
  intro as'
  induction as' with
  | nil => intro as bs hd; cases bs with
    | nil => trivial
    | cons _ _ => exact hd
  | cons a rest ih =>
    intro as bs hd
    cases bs with
    | nil => exact hd
    | cons b bs => exact ⟨h _ _ _ hd.1, ih _ _ hd.2⟩

theorem delFrom_append (s : Inst) : ∀ (as1 pre as2 : List Nat) (bs1 bs2 : List Block),
    DelFrom s pre as1 bs1 → DelFrom s (pre ++ as1) as2 bs2 → DelFrom s pre (as1 ++ as2) (bs1 ++ bs2) := by
  intro as1
  induction as1 with
  | nil =>
    intro pre as2 bs1 bs2 h1 h2
    cases bs1 with
    | nil => rw [List.append_nil] at h2; exact h2
    | cons _ _ => exact absurd h1 id
  | cons a rest ih =>
    intro pre as2 bs1 bs2 h1 h2
    cases bs1 with
    | nil => exact absurd h1 id
    | cons b bs =>
      refine ⟨h1.1, ih (pre ++ [a]) as2 bs bs2 h1.2 ?_⟩
      rw [List.append_assoc]
      exact h2

theorem delFrom_get (s : Inst) : ∀ (as' pre : List Nat) (bs : List Block), DelFrom s pre as' bs →
    as'.length = bs.length ∧
    ∀ i (h1 : i < as'.length) (h2 : i < bs.length), DBlock s (pre ++ as'.take i) as'[i] bs[i] := by
  intro as'
  induction as' with
  | nil =>
    intro pre bs hd
    cases bs with
    | nil => exact ⟨rfl, fun i h1 => absurd h1 (Nat.not_lt_zero _)⟩
    | cons _ _ => exact absurd hd id
  | cons a rest ih =>
    intro pre bs hd
    cases bs with
    | nil => exact absurd hd id
    | cons b bs =>
      obtain ⟨hl, hget⟩ := ih (pre ++ [a]) bs hd.2
      refine ⟨by rw [List.length_cons, List.length_cons, hl], fun i h1 h2 => ?_⟩
      cases i with
      | zero =>
        show DBlock s (pre ++ []) a b
        rw [List.append_nil]; exact hd.1
      | succ i =>
        have := hget i (by simpa using h1) (by simpa using h2)
        rw [List.append_assoc] at this
        exact this

/-! ### `decideLoop` -/

/-- the block that `decideLoop` emits for the Atropos `a` -/
theorem dblock_mkBlock {s : Inst} (hg : Good s) {as : List Nat} (hc : ConfOK s as) {a : Nat}
    (hat : (netOf s).IsAtropos (s.ldf + 1) a) : DBlock s as a (mkBlock s a) := by
  have ha : a < s.size := by
    obtain ⟨_, _, _, _, hroot, _⟩ := hat
    have := hroot.1
    rwa [length_netOf] at this
  refine ⟨ha, hc.1, rfl, hat, fun n => ?_, sortNat_sorted _⟩
  show n ∈ sortNat (((members (s.ancOf a) s.size).filter (fun i => !bit s.confirmed i)).map
    (fun i => (s.ev i).n)) ↔ _
  rw [mem_sortNat, List.mem_map]
  constructor
  · rintro ⟨x, hx, hn⟩
    rw [List.mem_filter, mem_members, Bool.not_eq_true', ← Bool.not_eq_true, hc.2 x, hg.inv.anc a x ha] at hx
    exact ⟨x, hn, hx.1.2, fun a' ha' hanc => hx.2 ⟨a', ha', hanc⟩⟩
  · rintro ⟨x, hn, hanc, hno⟩
    refine ⟨x, ?_, hn⟩
    rw [List.mem_filter, mem_members, Bool.not_eq_true', ← Bool.not_eq_true, hc.2 x, hg.inv.anc a x ha]
    exact ⟨⟨anc_size_lt hg.inv hanc, hanc⟩, fun ⟨a', ha', h'⟩ => hno a' ha' h'⟩

theorem confOK_advance {s : Inst} (hg : Good s) {as : List Nat} (hc : ConfOK s as) {a : Nat} (ha : a < s.size) :
    ConfOK (advance s a) (as ++ [a]) := by
  refine ⟨fun a' ha' => ?_, fun x => ?_⟩
  · rcases List.mem_append.1 ha' with h | h
    · exact hc.1 a' h
    · rw [List.mem_singleton.1 h]; exact ha
  · show bit (s.confirmed ||| s.ancOf a) x = true ↔ ∃ a' ∈ as ++ [a], Anc (histOf s) a' x
    rw [bit_or, Bool.or_eq_true, hc.2 x, hg.inv.anc a x ha]
    constructor
    · rintro (⟨a', h1, h2⟩ | h)
      · exact ⟨a', List.mem_append_left _ h1, h2⟩
      · exact ⟨a, List.mem_append_right _ List.mem_cons_self, h⟩
    · rintro ⟨a', h1, h2⟩
      rcases List.mem_append.1 h1 with h | h
      · exact Or.inl ⟨a', h, h2⟩
      · rw [List.mem_singleton.1 h] at h2; exact Or.inr h2

/-- `decideLoop` without seals: the emitted blocks deliver the new ancestries of their Atropoi, and
    the `confirmed` mask follows -/
theorem decideLoop_del : ∀ (fuel : Nat) (s : Inst) (out : List Block) (as : List Nat), Good s →
    Valid s.nv (histOf s) → (netOf s).FramesAccepted → ConfOK s as →
    ∃ as' bs, (decideLoop [] fuel s out).2 = out ++ bs ∧ DelFrom s as as' bs ∧
      ConfOK (decideLoop [] fuel s out).1 (as ++ as') := by
  intro fuel
  induction fuel with
  | zero =>
    intro s out as _ _ _ hc
    exact ⟨[], [], by rw [decideLoop_zero, List.append_nil], trivial, by rw [List.append_nil]; exact hc⟩
  | succ fuel ih =>
    intro s out as hg hv hfa hc
    rw [decideLoop_succ]
    cases hsp : s.atroposSpec (s.ldf + 1) with
    | undecided => exact ⟨[], [], by rw [List.append_nil], trivial, by rw [List.append_nil]; exact hc⟩
    | allNo => exact ⟨[], [], by rw [List.append_nil], trivial, by rw [List.append_nil]; exact hc⟩
    | atropos a =>
      have hat := atroposSpec_sound hg hv hfa hsp
      have hd := dblock_mkBlock hg hc hat
      obtain ⟨as', bs, h1, h2, h3⟩ := ih (advance s a) (out ++ [mkBlock s a]) (as ++ [a]) (good_with hg _ _) hv hfa
        (confOK_advance hg hc hd.1)
      refine ⟨a :: as', mkBlock s a :: bs, ?_, ⟨hd, ?_⟩, ?_⟩
      · show (decideLoop [] fuel (advance s a) (out ++ [mkBlock s a])).2 = _
        rw [h1, List.append_assoc]; rfl
      · exact delFrom_congr (s := advance s a) (s' := s) (fun _ _ _ h => h) _ _ _ h2
      · show ConfOK (decideLoop [] fuel (advance s a) (out ++ [mkBlock s a])).1 (as ++ a :: as')
        rw [show as ++ a :: as' = as ++ [a] ++ as' by rw [List.append_assoc]; rfl]
        exact h3

/-! ### `insert`, runs -/

theorem dblock_insert {s s1 : Inst} {e : Ev} (hg : Good s) (hv1 : Valid s1.nv (histOf s1))
    (h : s.insert e = some s1) (as : List Nat) (a : Nat) (b : Block) (hb : DBlock s as a b) :
    DBlock s1 as a b := by
  obtain ⟨ha, has, h1, h2, h3, h4⟩ := hb
  have hsz := size_insert h
  have hanc : ∀ {c x : Nat}, c < s.size → (Anc (histOf s1) c x ↔ Anc (histOf s) c x) := by
    intro c x hc
    rw [histOf_insert h hg.inv.pok]
    exact anc_snoc_old' hg.inv.pf _ (by rw [length_histOf]; exact hc)
  refine ⟨by omega, fun a' ha' => by have := has a' ha'; omega, by rw [h1, ev_insert_old h ha],
    (extends_insert hg.inv h).isAtropos_mono hv1 h2, fun n => ?_, h4⟩
  rw [h3 n]
  constructor
  · rintro ⟨x, hn, hx, hno⟩
    have hxl := anc_size_lt hg.inv hx
    exact ⟨x, by rw [ev_insert_old h hxl]; exact hn, (hanc ha).2 hx,
      fun a' ha' hc => hno a' ha' ((hanc (has a' ha')).1 hc)⟩
  · rintro ⟨x, hn, hx, hno⟩
    have hx' := (hanc ha).1 hx
    have hxl := anc_size_lt hg.inv hx'
    exact ⟨x, by rw [← ev_insert_old h hxl]; exact hn, hx',
      fun a' ha' hc => hno a' ha' ((hanc (has a' ha')).2 hc)⟩

theorem confOK_insert {s s1 : Inst} {e : Ev} (hg : Good s) (h : s.insert e = some s1) (as : List Nat)
    (hc : ConfOK s as) : ConfOK s1 as := by
  refine ⟨fun a ha => by have := hc.1 a ha; rw [size_insert h]; omega, fun x => ?_⟩
  rw [(meta_insert h).2.1, hc.2 x, histOf_insert h hg.inv.pok]
  constructor
  · rintro ⟨a, ha, hx⟩
    exact ⟨a, ha, (anc_snoc_old' hg.inv.pf _ (by rw [length_histOf]; exact hc.1 a ha)).2 hx⟩
  · rintro ⟨a, ha, hx⟩
    exact ⟨a, ha, (anc_snoc_old' hg.inv.pf _ (by rw [length_histOf]; exact hc.1 a ha)).1 hx⟩

/-- the delivered-events invariant of whole runs -/
def DelInv (s : Inst) (out : List Block) : Prop := ∃ as, DelFrom s [] as out ∧ ConfOK s as

theorem run_del {ep : Nat} {vals : List (Nat × Nat)} {evs : List Ev} {s : Inst} {out : List Block}
    (h : Run ep vals evs s out) : DelInv s out := by
  induction h with
  | nil =>
    have hc : ConfOK (start ep vals) [] := by
      refine ⟨fun a ha => (by cases ha), fun x => ?_⟩
      show bit 0 x = true ↔ _
      rw [bit_zero]
      exact ⟨fun h => Bool.noConfusion h, fun ⟨a, ha, _⟩ => (by cases ha)⟩
    exact ⟨[], trivial, hc⟩
  | @snoc evs s out e s' bs hrun hge hp ih =>
    obtain ⟨as, hd, hc⟩ := ih
    have I := run_inv hrun
    obtain ⟨s1, _, hins, hal, hdl⟩ := process_ok hp
    have hg1 := good_insert I.good hins
    have hv1 := valid_insert I.good.inv I.valid hge hins
    have hfa1 := (framesAccepted_insert I.good I.valid I.fa hge hins).2 hal
    have hd1 : DelFrom s1 [] as out := delFrom_congr (dblock_insert I.good hv1 hins) _ _ _ hd
    have hc1 := confOK_insert I.good hins as hc
    obtain ⟨as', bs', h1, h2, h3⟩ := decideLoop_del (s1.size + 2) s1 [] as hg1 hv1 hfa1 hc1
    obtain ⟨n, c, _, h4, _⟩ := decideLoop_spec (s1.size + 2) s1 [] hg1 hv1 hfa1
    rw [hdl] at h1 h3 h4
    rw [List.nil_append] at h1
    have hs' : s' = { s1 with ldf := s1.ldf + n, confirmed := c } := (Prod.mk.inj h4).1
    have h1' : bs = bs' := h1
    subst h1'
    have hall : DelFrom s1 [] (as ++ as') (out ++ bs) :=
      delFrom_append s1 as [] as' out bs hd1 (by rw [List.nil_append]; exact h2)
    refine ⟨as ++ as', ?_, h3⟩
    rw [hs']
    exact delFrom_congr (s := s1) (s' := { s1 with ldf := s1.ldf + n, confirmed := c })
      (fun _ _ _ h => h) _ _ _ hall

/-- C02 for the reference: the blocks of a run deliver exactly the new ancestry of their Atropoi -/
theorem reference_delivered {ep : Nat} {vals : List (Nat × Nat)} {evs : List Ev} {s : Inst}
    {out : List Block} (h : Run ep vals evs s out) :
    ∃ as : List Nat, as.length = out.length ∧
      (∀ i (h1 : i < as.length) (h2 : i < out.length),
        as[i] < s.size ∧ (out[i]).atropos = (s.ev as[i]).n ∧ (netOf s).IsAtropos (out[i]).frame as[i] ∧
        (∀ n, n ∈ (out[i]).events ↔ ∃ x, (s.ev x).n = n ∧ Anc (histOf s) as[i] x ∧
          ∀ a' ∈ as.take i, ¬ Anc (histOf s) a' x) ∧
        (out[i]).events.Pairwise (· ≤ ·)) ∧
      (∀ x, bit s.confirmed x = true ↔ ∃ a ∈ as, Anc (histOf s) a x) := by
  obtain ⟨as, hd, hc⟩ := run_del h
  obtain ⟨hl, hget⟩ := delFrom_get s as [] out hd
  refine ⟨as, hl, fun i h1 h2 => ?_, hc.2⟩
  obtain ⟨a1, _, a3, a4, a5, a6⟩ := hget i h1 h2
  rw [List.nil_append] at a5
  exact ⟨a1, a3, a4, a5, a6⟩

end RefEquiv
