import LachesisVerif.Spec.Bytes
/-! Order and prefix lemmas on byte strings (`lexLt` = `bytes.Compare < 0`). -/
namespace Bytes

theorem lexLt_irrefl (a : Bytes) : lexLt a a = false := by
  induction a with
  | nil => rfl
  | cons x xs ih => simp [lexLt, ih]

theorem lexLt_nil_right (a : Bytes) : lexLt a [] = false := by cases a <;> rfl

theorem lexLt_trans {a b c : Bytes} (h1 : lexLt a b = true) (h2 : lexLt b c = true) : lexLt a c = true := by
  induction a generalizing b c with
  | nil =>
    cases c with
    | nil => rw [lexLt_nil_right] at h2; cases h2
    | cons => rfl
  | cons x xs ih =>
    cases b with
    | nil => simp [lexLt] at h1
    | cons y ys =>
      cases c with
      | nil => simp [lexLt] at h2
      | cons z zs =>
        simp only [lexLt, Bool.or_eq_true, decide_eq_true_eq, Bool.and_eq_true, beq_iff_eq] at h1 h2 ⊢
        rcases h1 with h1 | ⟨e1, h1⟩
        · rcases h2 with h2 | ⟨e2, _⟩
          · left; omega
          · left; omega
        · rcases h2 with h2 | ⟨e2, h2⟩
          · left; omega
          · right; exact ⟨by omega, ih h1 h2⟩

theorem lexLt_asymm {a b : Bytes} (h : lexLt a b = true) : lexLt b a = false := by
  cases hb : lexLt b a with
  | false => rfl
  | true => have := lexLt_trans h hb; rw [lexLt_irrefl] at this; cases this

theorem lexLt_ne {a b : Bytes} (h : lexLt a b = true) : a ≠ b := by
  intro e; subst e; rw [lexLt_irrefl] at h; cases h

/-- trichotomy -/
theorem lexLt_total (a b : Bytes) : lexLt a b = true ∨ a = b ∨ lexLt b a = true := by
  induction a generalizing b with
  | nil => cases b with
    | nil => right; left; rfl
    | cons => left; rfl
  | cons x xs ih =>
    cases b with
    | nil => right; right; rfl
    | cons y ys =>
      simp only [lexLt, Bool.or_eq_true, decide_eq_true_eq, Bool.and_eq_true, beq_iff_eq, List.cons.injEq]
      rcases Nat.lt_trichotomy x y with h | h | h
      · left; left; exact h
      · rcases ih ys with h' | h' | h'
        · left; right; exact ⟨h, h'⟩
        · right; left; exact ⟨h, h'⟩
        · right; right; right; exact ⟨h.symm, h'⟩
      · right; right; left; exact h

theorem lexLe_refl (a : Bytes) : lexLe a a = true := by simp [lexLe, lexLt_irrefl]

theorem lexLe_of_lexLt {a b : Bytes} (h : lexLt a b = true) : lexLe a b = true := by
  simp [lexLe, lexLt_asymm h]

theorem lexLe_iff {a b : Bytes} : lexLe a b = true ↔ lexLt a b = true ∨ a = b := by
  unfold lexLe
  constructor
  · intro h
    rcases lexLt_total a b with h' | h' | h'
    · exact Or.inl h'
    · exact Or.inr h'
    · simp [h'] at h
  · rintro (h | h)
    · simp [lexLt_asymm h]
    · subst h; simp [lexLt_irrefl]

theorem lexLt_of_lexLt_of_lexLe {a b c : Bytes} (h1 : lexLt a b = true) (h2 : lexLe b c = true) : lexLt a c = true := by
  rcases lexLe_iff.1 h2 with h | h
  · exact lexLt_trans h1 h
  · subst h; exact h1

theorem lexLt_of_lexLe_of_lexLt {a b c : Bytes} (h1 : lexLe a b = true) (h2 : lexLt b c = true) : lexLt a c = true := by
  rcases lexLe_iff.1 h1 with h | h
  · exact lexLt_trans h h2
  · subst h; exact h2

theorem lexLe_trans {a b c : Bytes} (h1 : lexLe a b = true) (h2 : lexLe b c = true) : lexLe a c = true := by
  rcases lexLe_iff.1 h1 with h | h
  · exact lexLe_of_lexLt (lexLt_of_lexLt_of_lexLe h h2)
  · subst h; exact h2

theorem lexLe_false_iff {a b : Bytes} : lexLe a b = false ↔ lexLt b a = true := by
  unfold lexLe; cases lexLt b a <;> simp

theorem lexLe_antisymm {a b : Bytes} (h1 : lexLe a b = true) (h2 : lexLe b a = true) : a = b := by
  rcases lexLe_iff.1 h1 with h | h
  · unfold lexLe at h2; simp [h] at h2
  · exact h

theorem lexLe_nil (a : Bytes) : lexLe [] a = true := by simp [lexLe, lexLt_nil_right]

/-! ### prefixes -/

theorem isPrefix_append (p r : Bytes) : isPrefix p (p ++ r) = true := by
  induction p with
  | nil => rfl
  | cons x xs ih => simp [isPrefix, ih]

theorem isPrefix_iff {p k : Bytes} : isPrefix p k = true ↔ k = p ++ k.drop p.length := by
  induction p generalizing k with
  | nil => simp [isPrefix]
  | cons x xs ih =>
    cases k with
    | nil => simp [isPrefix]
    | cons y ys =>
      simp only [isPrefix, Bool.and_eq_true, beq_iff_eq, List.length_cons, List.drop_succ_cons, List.cons_append,
        List.cons.injEq]
      constructor
      · rintro ⟨e, h⟩; exact ⟨e.symm, ih.1 h⟩
      · rintro ⟨e, h⟩; exact ⟨e.symm, ih.2 h⟩

theorem isPrefix_exists {p k : Bytes} : isPrefix p k = true ↔ ∃ r, k = p ++ r := by
  constructor
  · intro h; exact ⟨_, isPrefix_iff.1 h⟩
  · rintro ⟨r, rfl⟩; exact isPrefix_append p r

theorem isPrefix_nil (k : Bytes) : isPrefix [] k = true := rfl

theorem drop_append_self (p r : Bytes) : (p ++ r).drop p.length = r := by simp

/-- `isPrefix (p ++ q) k` splits -/
theorem isPrefix_append_left (p q k : Bytes) :
    isPrefix (p ++ q) k = (isPrefix p k && isPrefix q (k.drop p.length)) := by
  induction p generalizing k with
  | nil => simp [isPrefix]
  | cons x xs ih =>
    cases k with
    | nil => simp [isPrefix]
    | cons y ys => simp [isPrefix, ih, Bool.and_assoc]

theorem lexLt_append_left (p a b : Bytes) : lexLt (p ++ a) (p ++ b) = lexLt a b := by
  induction p with
  | nil => rfl
  | cons x xs ih => simp [lexLt, ih]

theorem lexLe_append_left (p a b : Bytes) : lexLe (p ++ a) (p ++ b) = lexLe a b := by
  simp [lexLe, lexLt_append_left]

/-- a key with prefix `p` is `≥ p` -/
theorem lexLe_of_isPrefix {p k : Bytes} (h : isPrefix p k = true) : lexLe p k = true := by
  obtain ⟨r, rfl⟩ := isPrefix_exists.1 h
  have := lexLe_append_left p [] r
  rw [List.append_nil] at this
  rw [this]; exact lexLe_nil r

/-- keys with prefix `p` form an interval: anything between two of them has the prefix -/
theorem isPrefix_of_between {p a b k : Bytes} (h1 : lexLe (p ++ a) k = true) (h2 : lexLe k (p ++ b) = true) :
    isPrefix p k = true := by
  induction p generalizing k with
  | nil => rfl
  | cons x xs ih =>
    cases k with
    | nil => simp [lexLe, lexLt] at h1
    | cons y ys =>
      simp only [lexLe, List.cons_append, lexLt, Bool.not_eq_eq_eq_not, Bool.not_true, Bool.or_eq_false_iff,
        decide_eq_false_iff_not, Bool.and_eq_false_imp, beq_iff_eq] at h1 h2
      have e : x = y := by omega
      subst e
      simp only [isPrefix, beq_self_eq_true, Bool.true_and]
      apply ih
      · simp only [lexLe, Bool.not_eq_eq_eq_not, Bool.not_true]; exact h1.2 rfl
      · simp only [lexLe, Bool.not_eq_eq_eq_not, Bool.not_true]; exact h2.2 rfl

/-- `isPrefix p k` → comparisons against `p ++ x` only look at the rest of `k` -/
theorem lexLe_append_of_isPrefix {p x k : Bytes} (h : isPrefix p k = true) :
    lexLe (p ++ x) k = lexLe x (k.drop p.length) := by
  obtain ⟨r, rfl⟩ := isPrefix_exists.1 h
  rw [lexLe_append_left, drop_append_self]

theorem lexLt_append_of_isPrefix {p x k : Bytes} (h : isPrefix p k = true) :
    lexLt k (p ++ x) = lexLt (k.drop p.length) x := by
  obtain ⟨r, rfl⟩ := isPrefix_exists.1 h
  rw [lexLt_append_left, drop_append_self]

/-- if `p₂` is a prefix of `p₁ ++ k` then one of `p₁`, `p₂` is a prefix of the other -/
theorem isPrefix_append_cases {p1 p2 k : Bytes} (h : isPrefix p2 (p1 ++ k) = true) :
    isPrefix p1 p2 = true ∨ isPrefix p2 p1 = true := by
  induction p1 generalizing p2 with
  | nil => left; rfl
  | cons x xs ih =>
    cases p2 with
    | nil => right; rfl
    | cons y ys =>
      simp only [List.cons_append, isPrefix, Bool.and_eq_true, beq_iff_eq] at h ⊢
      rcases ih h.2 with h' | h'
      · left; exact ⟨h.1.symm, h'⟩
      · right; exact ⟨h.1, h'⟩

end Bytes
