import LachesisVerif.Proofs.VecLA6
/-!
C05 proofs, entry point. Parts:
* VecLA1 — histories, ancestry, frame of `add`, auxiliary invariant `LAux`;
* VecLA2 — the DFS `visitLA` (loop invariant `DInv`, fuel bound);
* VecLA3 — `la_add_la_spec`, preservation of I3: `la_lowinv_run`;
* VecLA4 — I4 `la_fcYes_iff`, first test `la_fc_first`, weight counter `la_sum_eraseDups`;
* VecLA5 — `la_fc_eq_spec`, `la_fcspec_append`;
* VecLA6 — `HistIso`, `la_iso_fcspec`.
Here: the two independence corollaries about `fc` itself.
-/
namespace VecProofs
open Model.Vec

/-- I1 + I2 (+ I2′) hold for the state reached by indexing `h` (the statement proved for every
    valid history in Proofs/VecHB.lean) -/
def HBInv (nVals : Nat) (h : Hist) : Prop :=
  ∃ nBrAt, BranchInv h (run nVals h) ∧ VecInv h (run nVals h) nBrAt ∧ VecInv2 h (run nVals h) nBrAt

theorem la_fc_eq_spec' {nVals : Nat} {h : Hist} (weight : Nat → Nat) (quorum : Nat)
    (hI : HBInv nVals h) (hv : Valid nVals h) (hpl : PLen h)
    (hsmall : nVals + h.length < 4294967296) (hq : 0 < quorum)
    {a b : Nat} (ha : a < h.length) (hb : b < h.length) :
    (run nVals h).fc weight quorum a b = true ↔ FCSpec h nVals weight quorum a b := by
  obtain ⟨nBrAt, hB, hV, hV2⟩ := hI
  exact la_fc_eq_spec weight quorum hB hV hV2 hv hpl hsmall hq ha hb

/-- (i) stability: indexing further events does not change the answer for old events -/
theorem la_fc_stable {nVals : Nat} {h ext : Hist} (weight : Nat → Nat) (quorum : Nat)
    (hI : HBInv nVals h) (hI' : HBInv nVals (h ++ ext)) (hv : Valid nVals (h ++ ext))
    (hpl : PLen (h ++ ext)) (hsmall : nVals + (h ++ ext).length < 4294967296) (hq : 0 < quorum)
    {a b : Nat} (ha : a < h.length) (hb : b < h.length) :
    (run nVals (h ++ ext)).fc weight quorum a b = (run nVals h).fc weight quorum a b := by
  have hv0 := la_valid_prefix hv
  have hlen : (h ++ ext).length = h.length + ext.length := List.length_append
  rw [Bool.eq_iff_iff,
    la_fc_eq_spec' weight quorum hI' hv hpl hsmall hq (by omega) (by omega),
    la_fc_eq_spec' weight quorum hI hv0 (la_plen_prefix hpl) (by omega) hq ha hb]
  exact la_fcspec_append (la_valid_pf hv0) ext nVals weight quorum ha hb

/-- (ii) order independence: two valid indexing orders of the same graph give the same answers -/
theorem la_fc_order {nVals : Nat} {h h' : Hist} {f g : Nat → Nat} (weight : Nat → Nat) (quorum : Nat)
    (I : HistIso h h' f g)
    (hI : HBInv nVals h) (hv : Valid nVals h) (hpl : PLen h) (hsmall : nVals + h.length < 4294967296)
    (hI' : HBInv nVals h') (hv' : Valid nVals h') (hpl' : PLen h')
    (hsmall' : nVals + h'.length < 4294967296) (hq : 0 < quorum)
    {a b : Nat} (ha : a < h.length) (hb : b < h.length) :
    (run nVals h).fc weight quorum a b = (run nVals h').fc weight quorum (f a) (f b) := by
  rw [Bool.eq_iff_iff,
    la_fc_eq_spec' weight quorum hI hv hpl hsmall hq ha hb,
    la_fc_eq_spec' weight quorum hI' hv' hpl' hsmall' hq (I.f_lt a ha) (I.f_lt b hb)]
  exact la_iso_fcspec I (la_valid_pf hv) nVals weight quorum ha hb

end VecProofs
