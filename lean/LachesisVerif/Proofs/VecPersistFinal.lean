import LachesisVerif.Proofs.VecPersistRun
/-!
Persistence of the vector index, part 3: the theorems about whole call sequences.
(a) working view = `run` of the surviving events; (b) a restart gives the `run` of the flushed
events, the BranchesInfo record is in the parent DB as soon as one event is flushed, and a restart
is indistinguishable from `DropNotFlushed`; (c) `Add` followed by `DropNotFlushed` leaves no trace.
-/
namespace VecPersistProofs
open Model.Vec Model.VecPersist VecProofs

/-! ### (a) -/

/-- the working view after any sequence of calls is the functional index of exactly the events
    added and not dropped -/
theorem exec_view (n : Nat) (ops : List Op) :
    ((PState.fresh n).exec ops).view = run n (survivors ops) :=
  (inv_reachable n ops).vw

/-- the parent DB alone is the functional index of the flushed events -/
theorem exec_storeView (n : Nat) (ops : List Op) :
    ((PState.fresh n).exec ops).storeView = run n (flushedOf ops) :=
  (inv_reachable n ops).sv

/-! ### (b) -/

theorem reload_view_of_inv {n : Nat} {s : PState} {f p : List Event} (h : Inv n s f p) :
    s.reload.view = run n f := by
  have := (inv_initBI (inv_reset h)).vw
  rw [List.append_nil] at this
  exact this

/-- restart after any sequence: the index of the FLUSHED events -/
theorem reload_view (n : Nat) (ops : List Op) :
    ((PState.fresh n).exec ops).reload.view = run n (flushedOf ops) :=
  reload_view_of_inv (inv_reachable n ops)

/-- after `Reset` + `InitBranchesInfo` the in-memory BranchesInfo is the branch table of the run
    over the flushed events (number of branches, last seq per branch, creator per branch) -/
theorem reload_bi (n : Nat) (ops : List Op) :
    ∃ b, ((PState.fresh n).exec ops).reload.bi = some b ∧
      b.nBr = (run n (flushedOf ops)).nBr ∧ b.lastSeq = (run n (flushedOf ops)).lastSeq ∧
      b.creatorOf = (run n (flushedOf ops)).creatorOf := by
  have hv := reload_view n ops
  generalize (PState.fresh n).exec ops = s at hv
  refine ⟨s.loadBI, rfl, ?_, ?_, ?_⟩
  · exact congrArg VState.nBr hv
  · exact congrArg VState.lastSeq hv
  · exact congrArg VState.creatorOf hv

/-- the record of table "B" exists in the parent DB as soon as one event has been flushed — forks or
    no forks — and it is the branch table of the run over the flushed events -/
theorem record_persisted (n : Nat) (ops : List Op) (hne : flushedOf ops ≠ []) :
    ∃ b, ((PState.fresh n).exec ops).storeBI = some b ∧
      b.nBr = (run n (flushedOf ops)).nBr ∧ b.lastSeq = (run n (flushedOf ops)).lastSeq ∧
      b.creatorOf = (run n (flushedOf ops)).creatorOf := by
  have hi := inv_reachable n ops
  generalize (PState.fresh n).exec ops = s at hi
  cases hb : s.storeBI with
  | none => exact absurd (hi.norec hb) hne
  | some b =>
    have hl : s.loadBI = b := by simp only [loadBI_def, hb]
    refine ⟨b, rfl, ?_, ?_, ?_⟩
    · rw [← hl]; exact congrArg VState.nBr hi.sv
    · rw [← hl]; exact congrArg VState.lastSeq hi.sv
    · rw [← hl]; exact congrArg VState.creatorOf hi.sv

theorem trackAll_append (fp : List Event × List Event) (a b : List Op) :
    trackAll fp (a ++ b) = trackAll (trackAll fp a) b := by
  simp only [trackAll, List.foldl_append]

theorem track_restart_eq_drop (fp : List Event × List Event) : track fp .restart = track fp .drop := by
  cases fp; rfl

/-- a restart is indistinguishable from `DropNotFlushed`: whatever is called afterwards, the
    restarted index and the index that kept running (and dropped its unflushed rows) have the same
    working view and the same persisted content -/
theorem restart_invisible (n : Nat) (ops more : List Op) :
    ((PState.fresh n).exec (ops ++ .restart :: more)).view =
      ((PState.fresh n).exec (ops ++ .drop :: more)).view ∧
    ((PState.fresh n).exec (ops ++ .restart :: more)).storeView =
      ((PState.fresh n).exec (ops ++ .drop :: more)).storeView := by
  have key : trackAll ([], []) (ops ++ .restart :: more) = trackAll ([], []) (ops ++ .drop :: more) := by
    rw [trackAll_append, trackAll_append]
    simp only [trackAll, List.foldl_cons, track_restart_eq_drop]
  constructor
  · rw [exec_view, exec_view]; simp only [survivors, flushedOf, pendingOf, key]
  · rw [exec_storeView, exec_storeView]; simp only [flushedOf, key]

/-- the next event after a restart is indexed as by the functional model on the flushed events: in
    particular a fork (an event that neither opens its creator's first branch nor extends its
    self-parent's branch) gets a new branch id exactly as without the restart -/
theorem add_after_reload (n : Nat) (ops : List Op) (e : Event) :
    (((PState.fresh n).exec ops).reload.add e).view = (run n (flushedOf ops)).add e := by
  rw [view_add, reload_view]

/-! ### (c) -/

/-- the state between two calls of abft's `Process` / `Build` (both end with `DropNotFlushed`) -/
def Idle (s : PState) : Prop := s.bi = none ∧ s.dirty = false ∧ Clean s

/-- `Add` writes nothing to the parent DB -/
theorem add_store (s : PState) (e : Event) :
    (s.add e).store = s.store ∧ (s.add e).storeBI = s.storeBI ∧ (s.add e).fsize = s.fsize :=
  ⟨rfl, rfl, rfl⟩

theorem add_drop_of_inv {n : Nat} {s : PState} {f p : List Event} (h : Inv n s f p) (e : Event) :
    (s.add e).dropNotFlushed = s.dropNotFlushed := by
  cases hd : s.dirty
  · have hov := (h.nodirty hd).2.1
    simp only [drop_def, PState.add, hd, hov, if_true]
    rfl
  · simp only [drop_def, PState.add, hd, if_true]

/-- `Add` then `DropNotFlushed` = `DropNotFlushed`, as whole states (parent DB, overlay, `vi.bi`,
    positions): a merely built or rejected event leaves no trace in the index -/
theorem add_drop (n : Nat) (ops : List Op) (e : Event) :
    (((PState.fresh n).exec ops).add e).dropNotFlushed = ((PState.fresh n).exec ops).dropNotFlushed :=
  add_drop_of_inv (inv_reachable n ops) e

/-- between two `Process`/`Build` calls the index is idle, and on an idle index `Add` then
    `DropNotFlushed` is the identity -/
theorem add_drop_idle (s : PState) (hi : Idle s) (e : Event) : (s.add e).dropNotFlushed = s := by
  obtain ⟨hb, hd, hov, hsz⟩ := hi
  cases s
  simp only at hb hd hov hsz
  subst hb hd hov hsz
  rfl

theorem idle_drop_of_inv {n : Nat} {s : PState} {f p : List Event} (h : Inv n s f p) :
    Idle s.dropNotFlushed :=
  ⟨rfl, rfl, ((inv_drop h).nobi rfl).2⟩

theorem idle_after_drop (n : Nat) (ops : List Op) : Idle ((PState.fresh n).exec (ops ++ [.drop])) := by
  have : (PState.fresh n).exec (ops ++ [.drop]) = ((PState.fresh n).exec ops).dropNotFlushed := by
    simp only [PState.exec, List.foldl_append, List.foldl_cons, List.foldl_nil, PState.step]
  rw [this]
  exact idle_drop_of_inv (inv_reachable n ops)

/-- inside any call sequence, an `Add` immediately followed by `DropNotFlushed` can be replaced by
    the `DropNotFlushed` alone without changing the resulting state -/
theorem add_drop_erased (n : Nat) (ops more : List Op) (e : Event) :
    (PState.fresh n).exec (ops ++ .add e :: .drop :: more) = (PState.fresh n).exec (ops ++ .drop :: more) := by
  simp only [PState.exec, List.foldl_append, List.foldl_cons, PState.step]
  have := add_drop n ops e
  simp only [PState.exec] at this
  rw [this]
