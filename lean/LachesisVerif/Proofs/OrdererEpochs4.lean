import LachesisVerif.Proofs.OrdererEpochs3
/-!
Several epochs, part 4: order independence per epoch with a sealing application (`epoch_agree`) and
for a sequence of epochs (`epochs_agree`): the run decomposes into per-epoch runs, each starting from
`initial (epoch) (validators returned by the previous seal)`.
-/
namespace OrdererEpochs
open Model.Pos Model.Election Model.Orderer ElectionProofs ElectionRefine OrdererSeal OrdererRestart OrdererProofs
open ElectionRules VecProofs

theorem runIds_noSeal_entries (N : Net) (env : Env) (ep : Nat) (ids : List Nat) : ∀ (s : OState) (out : List Decided)
    (s' : OState) (out' : List Decided), s.epoch = ep → (∀ d ∈ out, d.sealed = false ∧ d.epoch = ep) →
    runIds N (noSeal env) ids s out = some (s', out') →
    (∀ d ∈ out', d.sealed = false ∧ d.epoch = ep) ∧ s'.epoch = ep := by
  induction ids with
  | nil => intro s out s' out' hep ho h; simp only [runIds] at h; cases h; exact ⟨ho, hep⟩
  | cons id rest ih =>
    intro s out s' out' hep ho h
    simp only [runIds] at h
    split at h
    · rename_i s1 ds1 hp
      obtain ⟨hun, he1⟩ := process_noSeal_unsealed env s id _ _ _ s1 ds1 hp
      apply ih _ _ _ _ (he1.trans hep) _ h
      intro d hd
      rcases List.mem_append.1 hd with hd | hd
      · exact ho d hd
      · exact ⟨(hun d hd).1, (hun d hd).2.trans hep⟩
    · cases h

theorem decided_ext (ep : Nat) : ∀ (l₁ l₂ : List Decided), (∀ d ∈ l₁, d.sealed = false ∧ d.epoch = ep) →
    (∀ d ∈ l₂, d.sealed = false ∧ d.epoch = ep) → l₁.map blk = l₂.map blk → l₁ = l₂ := by
  intro l₁
  induction l₁ with
  | nil => intro l₂ _ _ h; cases l₂ with
    | nil => rfl
    | cons d ds => simp at h
  | cons d₁ r₁ ih =>
    intro l₂ h1 h2 h
    cases l₂ with
    | nil => simp at h
    | cons d₂ r₂ =>
      simp only [List.map_cons, List.cons.injEq] at h
      have hr := ih r₂ (fun d hd => h1 d (List.mem_cons_of_mem _ hd)) (fun d hd => h2 d (List.mem_cons_of_mem _ hd)) h.2
      have a1 := h1 d₁ List.mem_cons_self
      have a2 := h2 d₂ List.mem_cons_self
      have hb := h.1
      cases d₁; cases d₂
      simp only [blk, Prod.mk.injEq] at hb
      simp only at a1 a2
      rw [hr]
      simp only [List.cons.injEq, Decided.mk.injEq, and_true]
      exact ⟨a1.2.trans a2.2.symm, hb.1, hb.2, a1.1.trans a2.1.symm⟩

/-- **One epoch with a sealing application.** Two instances start the epoch in `initial ep vals`,
    receive all events of the epoch's history `N`, each in its own parents-first order; the
    applications seal at the same frames of this epoch with the same sets. Both accept every event
    they are given, emit the same decided frames `ds` (epoch, frame, Atropos, sealed flag), and
    either both seal — at the same frame, skipping the rest of their lists, and are then *exactly* in
    `initial (ep+1) nv` — or neither does and they end in the same epoch, validators and last
    decided frame. -/
theorem epoch_agree {N : Net} {vals : Vals} {env₁ env₂ : Env} (C₁ : Ctx N vals (noSeal env₁))
    (C₂ : Ctx N vals (noSeal env₂)) (ep : Nat) (hsa : ∀ f, env₁.sealAt ep f = env₂.sealAt ep f)
    (ids₁ ids₂ : List Nat) (pf₁ : PFFrom N [] ids₁) (pf₂ : PFFrom N [] ids₂)
    (hall₁ : ∀ e, e < N.h.length → e ∈ ids₁) (hall₂ : ∀ e, e < N.h.length → e ∈ ids₂) :
    ∃ s₁ s₂ ds sk₁ sk₂, runEpoch N env₁ ids₁ (initial ep vals) [] = some (s₁, ds, sk₁) ∧
      runEpoch N env₂ ids₂ (initial ep vals) [] = some (s₂, ds, sk₂) ∧
      ((ds.any (·.sealed) = true ∧ ∃ nv, (∃ F, env₁.sealAt ep F = some nv) ∧
          s₁ = initial (Gen.Orderer.sealedEpoch ep) nv ∧ s₂ = initial (Gen.Orderer.sealedEpoch ep) nv) ∨
       (ds.any (·.sealed) = false ∧ sk₁ = [] ∧ sk₂ = [] ∧ s₁.epoch = ep ∧ s₂.epoch = ep ∧
          s₁.vals = vals ∧ s₂.vals = vals ∧ s₁.ldf = s₂.ldf)) := by
  obtain ⟨s₁', ds₁, h₁, I₁, O₁⟩ := L5_run C₁ ep ids₁ pf₁
  obtain ⟨s₂', ds₂, h₂, I₂, O₂⟩ := L5_run C₂ ep ids₂ pf₂
  have hb := blocks_unique C₁ C₂ I₁ O₁ I₂ O₂ (fun e he => List.mem_reverse.2 (hall₁ e he))
    (fun e he => List.mem_reverse.2 (hall₂ e he))
  obtain ⟨en₁, _⟩ := runIds_noSeal_entries N env₁ ep ids₁ _ _ _ _ rfl (by intro d hd; cases hd) h₁
  obtain ⟨en₂, _⟩ := runIds_noSeal_entries N env₂ ep ids₂ _ _ _ _ rfl (by intro d hd; cases hd) h₂
  have hds : ds₁ = ds₂ := decided_ext ep ds₁ ds₂ en₁ en₂ hb
  subst hds
  have hcc : cut env₂.sealAt ep ds₁ = cut env₁.sealAt ep ds₁ := cut_congr _ _ ep (fun f => (hsa f).symm) ds₁
  rcases runEpoch_sim N env₁ ep ids₁ _ _ _ _ rfl rfl h₁ with ⟨c1, r1, e1⟩ | ⟨l1, nv1, sk1, c1, r1⟩
  · rcases runEpoch_sim N env₂ ep ids₂ _ _ _ _ rfl rfl h₂ with ⟨c2, r2, e2⟩ | ⟨l2, nv2, sk2, c2, r2⟩
    · refine ⟨s₁', s₂', ds₁, [], [], r1, r2, Or.inr ⟨?_, rfl, rfl, e1, e2, I₁.vals_eq, I₂.vals_eq, ?_⟩⟩
      · rw [List.any_eq_false]; intro d hd; rw [(en₁ d hd).1]; decide
      · rw [I₁.ldf, I₂.ldf]
    · rw [hcc, c1] at c2; cases c2
  · rcases runEpoch_sim N env₂ ep ids₂ _ _ _ _ rfl rfl h₂ with ⟨c2, r2, e2⟩ | ⟨l2, nv2, sk2, c2, r2⟩
    · rw [hcc, c1] at c2; cases c2
    · rw [hcc, c1] at c2
      cases c2
      obtain ⟨hany, hF⟩ := cut_some _ _ _ _ _ c1
      exact ⟨_, _, l1, sk1, sk2, r1, r2, Or.inl ⟨hany, nv1, hF, rfl, rfl⟩⟩

/-! ### a sequence of epochs -/

/-- what one instance is given in one epoch: the epoch's history, its oracles (the forkless-cause
    oracle of that epoch's index, the application's seal decision, the id order), its processing order -/
structure EpochIn where
  N : Net
  env : Env
  ids : List Nat

/-- the inputs of two instances for the same epoch -/
structure EpochPair where
  N : Net
  env₁ : Env
  env₂ : Env
  ids₁ : List Nat
  ids₂ : List Nat

def EpochPair.in₁ (p : EpochPair) : EpochIn := ⟨p.N, p.env₁, p.ids₁⟩
def EpochPair.in₂ (p : EpochPair) : EpochIn := ⟨p.N, p.env₂, p.ids₂⟩

/-- epoch after epoch; the next epoch's events are submitted only after the current epoch sealed -/
def runEpochs : List EpochIn → OState → List Decided → Option (OState × List Decided)
  | [], s, out => some (s, out)
  | e :: rest, s, out =>
    match runEpoch e.N e.env e.ids s [] with
    | none => none
    | some (s', ds, _) => if ds.any (·.sealed) then runEpochs rest s' (out ++ ds) else some (s', out ++ ds)

/-- the hypotheses, epoch by epoch: the instance is in epoch `ep` with validators `vals` -/
def EpochsOK (sealAt : Nat → Nat → Option Vals) : Nat → Vals → List EpochPair → Prop
  | _, _, [] => True
  | ep, vals, p :: rest =>
    Ctx p.N vals (noSeal p.env₁) ∧ Ctx p.N vals (noSeal p.env₂) ∧ p.env₁.sealAt = sealAt ∧ p.env₂.sealAt = sealAt ∧
    PFFrom p.N [] p.ids₁ ∧ PFFrom p.N [] p.ids₂ ∧
    (∀ e, e < p.N.h.length → e ∈ p.ids₁) ∧ (∀ e, e < p.N.h.length → e ∈ p.ids₂) ∧
    ∀ nv, (∃ F, sealAt ep F = some nv) → EpochsOK sealAt (Gen.Orderer.sealedEpoch ep) nv rest

/-- **Several epochs.** -/
theorem epochs_agree (sealAt : Nat → Nat → Option Vals) : ∀ (ps : List EpochPair) (ep : Nat) (vals : Vals)
    (out : List Decided), EpochsOK sealAt ep vals ps →
    ∃ s₁ s₂ ds, runEpochs (ps.map EpochPair.in₁) (initial ep vals) out = some (s₁, ds) ∧
      runEpochs (ps.map EpochPair.in₂) (initial ep vals) out = some (s₂, ds) ∧
      s₁.epoch = s₂.epoch ∧ s₁.vals = s₂.vals ∧ s₁.ldf = s₂.ldf := by
  intro ps
  induction ps with
  | nil => intro ep vals out _; exact ⟨_, _, out, rfl, rfl, rfl, rfl, rfl⟩
  | cons p rest ih =>
    intro ep vals out hok
    obtain ⟨C₁, C₂, hs₁, hs₂, pf₁, pf₂, hall₁, hall₂, hnext⟩ := hok
    obtain ⟨s₁, s₂, ds, sk₁, sk₂, r₁, r₂, hcase⟩ := epoch_agree C₁ C₂ ep (by intro f; rw [hs₁, hs₂])
      p.ids₁ p.ids₂ pf₁ pf₂ hall₁ hall₂
    rcases hcase with ⟨hany, nv, hF, rfl, rfl⟩ | ⟨hany, _, _, e1, e2, v1, v2, hl⟩
    · obtain ⟨t₁, t₂, ds', a, b, c⟩ := ih (Gen.Orderer.sealedEpoch ep) nv (out ++ ds)
        (hnext nv (by rw [← hs₁]; exact hF))
      refine ⟨t₁, t₂, ds', ?_, ?_, c⟩
      · simp only [List.map_cons, runEpochs, EpochPair.in₁, r₁, hany, if_true]; exact a
      · simp only [List.map_cons, runEpochs, EpochPair.in₂, r₂, hany, if_true]; exact b
    · refine ⟨s₁, s₂, out ++ ds, ?_, ?_, e1.trans e2.symm, v1.trans v2.symm, hl⟩
      · simp only [List.map_cons, runEpochs, EpochPair.in₁, r₁, hany, Bool.false_eq_true, if_false]
      · simp only [List.map_cons, runEpochs, EpochPair.in₂, r₂, hany, Bool.false_eq_true, if_false]

end OrdererEpochs
