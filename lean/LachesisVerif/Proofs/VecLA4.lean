import LachesisVerif.Proofs.VecLA3
/-!
C05, part 4: from the invariants I1 (`BranchInv`), I2 (`VecInv`, `VecInv2`), I3 (`LowInv`) to the
meaning of a forkless-cause query: (b) membership in `fcYes` (I4), (c) the first test of `fc`,
(d) the weight counter.
-/
namespace VecProofs
open Model.Vec

theorem la_anc_lt_right' {h : Hist} {a b : Nat} (hab : Anc h a b) : b < h.length := by
  induction hab with
  | refl hlt => exact hlt
  | step _ _ _ ih => exact ih

theorem la_fcYes_mem (s : VState) (a b v : Nat) :
    v ∈ s.fcYes a b ↔ ∃ br, br < s.nBr ∧ s.creatorOf br = v ∧
      (s.la.get b).get br ≤ ((s.hb.get a).get br).seq ∧ (s.la.get b).get br ≠ 0 ∧
      ((s.hb.get a).get br).isFork = false := by
  unfold VState.fcYes
  simp only [List.mem_map, List.mem_filter, List.mem_range, Gen.Vec.fcBranchCond,
    Bool.and_eq_true, decide_eq_true_eq, Bool.not_eq_true']
  constructor
  · rintro ⟨br, ⟨hlt, ⟨h1, h2⟩, h3⟩, hc⟩; exact ⟨br, hlt, hc, h1, h2, h3⟩
  · rintro ⟨br, hlt, hc, h1, h2, h3⟩; exact ⟨br, ⟨hlt, ⟨h1, h2⟩, h3⟩, hc⟩

section Inv
variable {h : Hist} {s : VState} {nBrAt : Nat → Nat}

/-- (b) I4: a creator is counted "yes" iff `a` sees no fork of it and one of its events lies
    between `b` and `a` -/
theorem la_fcYes_iff (hB : BranchInv h s) (hV : VecInv h s nBrAt) (hV2 : VecInv2 h s nBrAt)
    (hL : LowInv h s) {a b : Nat} (ha : a < h.length) (hb : b < h.length) (v : Nat) :
    v ∈ s.fcYes a b ↔
      (¬ ForkSeen h a v ∧ ∃ e, (Hist.ev h e).creator = v ∧ Anc h e b ∧ Anc h a e) := by
  rw [la_fcYes_mem]
  constructor
  · rintro ⟨br, hbr, hc, hle, hnz, hnf⟩
    have hbrat : br < nBrAt a := by
      apply Classical.byContradiction; intro hge
      have hz := hV2.beyond a br ha (by omega)
      rw [hz] at hle
      have : BSeq.zero.seq = 0 := rfl
      omega
    have hns : ¬ ForkSeen h a (s.creatorOf br) := by
      intro hf
      have := hV.complete a br ha hbrat hf
      rw [this] at hnf; exact Bool.noConfusion hnf
    refine ⟨hc ▸ hns, ?_⟩
    rcases hV.rep a br ha hns with ⟨_, hz⟩ | ⟨⟨i, hai, hbi, hsi⟩, _, _, _⟩
    · rw [hz] at hle
      have : BSeq.zero.seq = 0 := rfl
      omega
    · obtain ⟨⟨i0, hi0, hb0, ha0, hs0⟩, _⟩ := hL.least b br hb hnz
      have hi := la_anc_lt_right' hai
      have hch : Anc h i i0 := hB.chain i i0 hi hi0 (by rw [hbi, hb0]) (by rw [hs0, hsi]; exact hle)
      refine ⟨i0, ?_, ha0, la_anc_trans hai hch⟩
      rw [← hB.creator_eq i0 hi0, hb0]; exact hc
  · rintro ⟨hns, e, hce, heb, hae⟩
    have he := la_anc_lt_left heb
    have hcr : s.creatorOf (s.branchOf e) = v := by rw [hB.creator_eq e he]; exact hce
    have hnz : (s.la.get b).get (s.branchOf e) ≠ 0 := fun hz => hL.zero b _ hb hz e he rfl heb
    refine ⟨s.branchOf e, hB.branch_lt e he, hcr, ?_, hnz, ?_⟩
    · have h1 := (hL.least b _ hb hnz).2 e he rfl heb
      have hobs : ObsSeq h s a (s.branchOf e) (Hist.ev h e).seq := ⟨e, hae, rfl, rfl⟩
      rcases hV.rep a (s.branchOf e) ha (by rw [hcr]; exact hns) with ⟨hnone, _⟩ | ⟨_, _, hbd, _⟩
      · exact absurd hobs (hnone _)
      · have := (hbd _ hobs).2; omega
    · cases hf : ((s.hb.get a).get (s.branchOf e)).isFork with
      | false => rfl
      | true => exact absurd (hcr ▸ (hV.sound a _ ha hf).2) hns

/-- a visible fork means that some creator owns two branches -/
theorem la_fork_nbr (hB : BranchInv h s) {a c : Nat} (hf : ForkSeen h a c) : s.nVals < s.nBr := by
  obtain ⟨x, y, hne, hx, hy, hcx, hcy, hseq⟩ := hf
  have hxl := la_anc_lt_right' hx
  have hyl := la_anc_lt_right' hy
  apply Classical.byContradiction; intro hge
  have hbx := hB.branch_lt x hxl
  have hby := hB.branch_lt y hyl
  have h1 := hB.primary _ (show s.branchOf x < s.nVals by have := hB.nVals_le; omega)
  have h2 := hB.primary _ (show s.branchOf y < s.nVals by have := hB.nVals_le; omega)
  rw [hB.creator_eq x hxl, hcx] at h1
  rw [hB.creator_eq y hyl, hcy] at h2
  exact hne (hB.seq_inj x y hxl hyl (by rw [← h1, ← h2]) hseq)

/-- (c) the first test of `fc`, for `b` in the ancestry of `a` -/
theorem la_fc_first (hB : BranchInv h s) (hV : VecInv h s nBrAt) (hV2 : VecInv2 h s nBrAt)
    (hsmall : s.nBr < 4294967296) {a b : Nat} (hab : Anc h a b) :
    (s.atLeastOneFork && ((s.hb.get a).get (s.branchOf b)).isFork) = true ↔
      ForkSeen h a (Hist.ev h b).creator := by
  have ha := la_anc_lt_left hab
  have hb := la_anc_lt_right' hab
  rw [Bool.and_eq_true]
  constructor
  · rintro ⟨_, hf⟩
    have := (hV.sound a _ ha hf).2
    rwa [hB.creator_eq b hb] at this
  · intro hf
    constructor
    · have := la_fork_nbr hB hf
      unfold VState.atLeastOneFork Gen.Vec.atLeastOneFork
      rw [decide_eq_true_eq]; omega
    · apply hV.complete a _ ha (hV2.seen_lt a b ha hab)
      rw [hB.creator_eq b hb]; exact hf

end Inv

/-! ### (d) the weight counter -/

theorem la_nodup_eraseDups : ∀ (n : Nat) (l : List Nat), l.length ≤ n → l.eraseDups.Nodup := by
  intro n
  induction n with
  | zero =>
    intro l hl
    have : l = [] := List.eq_nil_of_length_eq_zero (by omega)
    subst this; simp
  | succ n ih =>
    intro l hl
    cases l with
    | nil => simp
    | cons a as =>
      rw [List.eraseDups_cons, List.nodup_cons]
      constructor
      · intro hm
        rw [List.mem_eraseDups, List.mem_filter] at hm
        simp at hm
      · apply ih
        have := List.length_filter_le (fun b => !b == a) as
        rw [List.length_cons] at hl; omega

/-- summing the weights of the distinct members of `L` = summing over the indices `< n` that
    satisfy the membership predicate -/
theorem la_sum_eraseDups (L : List Nat) (n : Nat) (p : Nat → Bool) (weight : Nat → Nat)
    (hmem : ∀ v, v ∈ L ↔ (v < n ∧ p v = true)) :
    (L.eraseDups.map weight).foldl (· + ·) 0 = (((List.range n).filter p).map weight).sum := by
  rw [← List.sum_eq_foldl_nat]
  apply List.Perm.sum_nat
  apply List.Perm.map
  rw [List.perm_ext_iff_of_nodup (la_nodup_eraseDups _ L (Nat.le_refl _))
    (List.Nodup.sublist List.filter_sublist List.nodup_range)]
  intro v
  rw [List.mem_eraseDups, List.mem_filter, List.mem_range]
  exact hmem v

end VecProofs
