import LachesisVerif.Proofs.RestartEpochs
/-!
Composition, part 8: one epoch of the combined model with a sealing application, run twice from the
same persisted state — once plainly (`runEpochIx`), once with restarts at arbitrary points
(`runEpochIxR`) — in lock-step (`epoch_restart_lockstep`). Per event: `restarts_sim` (the restarts
change only the volatile election, which stays open), `OrdererRestart3.process_lockstep` (two Orderer
instances with the same persisted state and open elections accept the event with the same decided
frames), `Compose.step_sim_seal` for each of the two combined states (cut at the first frame at which
the application seals; after a seal both are exactly `initial (ep+1) nv`).
-/
namespace Compose
open Model.Pos Model.Election Model.Orderer Model.Vec Model.Indexed VecProofs ElectionRules ElectionRefine
open OrdererProofs OrdererEpochs OrdererRestart OrdererRestart3

theorem any_append_false {α} (p : α → Bool) (a b : List α) (h : a.any p = false) : (a ++ b).any p = b.any p := by
  rw [List.any_append, h, Bool.false_or]

/-- **One epoch, with and without restarts, in lock-step.** `⟨o, v, evs⟩`: a state of the running
    instance in epoch `ep` (L5 invariant for `o`, `CInv` for the index); `⟨{o with el := e₂}, v, evs⟩`: the
    same persisted state with another open election (a restarted instance). Submitting `ids` to the
    first plainly and to the second with `rs` restarts in between gives the same blocks `more`, the same
    skipped events `sk`, and either both sealed into exactly `initial (ep+1) nv`, or neither did and the
    final states have the same persisted Orderer part, the same index and the same indexing order. -/
theorem epoch_restart_lockstep {N : Net} {vals : Vals} (app : App) (G : GOK N vals) (ep : Nat) :
    ∀ (ids rs : List Nat) (o : OState) (e₂ : Election) (v : VState) (evs done : List Nat)
      (blocks : List (Nat × Nat)) (out : List Block),
      CInv N vals ⟨o, v, evs⟩ → CInv N vals ⟨{ o with el := e₂ }, v, evs⟩ →
      OInv N vals done blocks o → OpenEl N vals o (fun _ => False) →
      OpenEl N vals { o with el := e₂ } (fun _ => False) →
      o.epoch = ep → (∀ x, x ∈ done ↔ x ∈ evs) → PFFrom N done ids →
      ∃ t₁ t₂ more sk, runEpochIx N app ids ⟨o, v, evs⟩ out = some (t₁, out ++ more, sk) ∧
        runEpochIxR N app ids rs ⟨{ o with el := e₂ }, v, evs⟩ out = some (t₂, out ++ more, sk) ∧
        (∀ b ∈ more, b.cheaters = specCheaters N b.d.atropos) ∧
        ((more.any (·.d.sealed) = true ∧ ∃ nv, (∃ F, app.sealAt ep F = some nv) ∧
            t₁ = Model.Indexed.initial (Gen.Orderer.sealedEpoch ep) nv ∧
            t₂ = Model.Indexed.initial (Gen.Orderer.sealedEpoch ep) nv) ∨
         (more.any (·.d.sealed) = false ∧ sk = [] ∧ SamePersisted t₁.o t₂.o ∧ t₁.v = t₂.v ∧ t₁.evs = t₂.evs ∧
            t₁.o.epoch = ep ∧ t₁.o.vals = vals)) := by
  intro ids
  induction ids with
  | nil =>
    intro rs o e₂ v evs done blocks out _ C₂ I _ O₂ hep _ _
    have I₂ : OInv N vals done blocks { o with el := e₂ } := ⟨I.vals_eq, I.table, I.closed, I.ldf, I.frames, I.atropoi⟩
    obtain ⟨el', hr, _, _⟩ := restarts_sim (app := app) G (rs.headD 0) { o with el := e₂ } v evs out C₂ I₂ O₂
    refine ⟨⟨o, v, evs⟩, ⟨{ o with el := el' }, v, evs⟩, [], [], by simp [runEpochIx], ?_, ?_, ?_⟩
    · simp only [runEpochIxR, hr, List.append_nil]
    · intro b hb; cases hb
    · exact Or.inr ⟨rfl, rfl, ⟨rfl, rfl, rfl, rfl⟩, rfl, rfl, hep, I.vals_eq⟩
  | cons id rest ih =>
    intro rs o e₂ v evs done blocks out C₁ C₂ I O₁ O₂ hep hdone hpf
    obtain ⟨hid, hnew, hpar, hrest⟩ := hpf
    have I₂ : OInv N vals done blocks { o with el := e₂ } := ⟨I.vals_eq, I.table, I.closed, I.ldf, I.frames, I.atropoi⟩
    obtain ⟨el', hr, C₂', O₂'⟩ := restarts_sim (app := app) G (rs.headD 0) { o with el := e₂ } v evs out C₂ I₂ O₂
    have hr' : restartsIx app (rs.headD 0) ⟨{ o with el := e₂ }, v, evs⟩ out =
        some (⟨{ o with el := el' }, v, evs⟩, out, false) := hr
    have C₂'' : CInv N vals ⟨{ o with el := el' }, v, evs⟩ := C₂'
    have O₂'' : OpenEl N vals { o with el := el' } (fun _ => False) := O₂'
    obtain ⟨s₁', s₂', ds, h₁, h₂, hsp, I', O₁', O₃⟩ := process_lockstep (ctx_unsealed G app) el' I O₁ O₂'' id hid hnew hpar
    obtain ⟨el₂', rfl⟩ : ∃ el₂', s₂' = { s₁' with el := el₂' } := ⟨s₂'.el, samePersisted_eq hsp⟩
    have hnew' : id ∉ evs := fun hm => hnew ((hdone id).2 hm)
    have hpar' : ∀ p ∈ (N.h.ev id).parents, p ∈ evs := fun p hp => (hdone p).1 (parents_done G.hv hid hpar p hp)
    obtain ⟨e1, C1', hun, hep1⟩ := step_sim_seal (app := app) (s := ⟨o, v, evs⟩) G C₁ hep hid hnew' hpar' h₁
    obtain ⟨e2, C2', _, _⟩ := step_sim_seal (app := app) (s := ⟨{ o with el := el' }, v, evs⟩) G C₂'' hep hid hnew' hpar' h₂
    cases hc : cut app.sealAt ep ds with
    | none =>
      rw [hc] at e1 e2
      have e1' : processIndexed app ⟨o, v, evs⟩ (evOf N id) =
          (⟨s₁', v.add (vev N evs id), evs ++ [id]⟩, .ok (ds.map (specBlock N))) := e1
      have e2' : processIndexed app ⟨{ o with el := el' }, v, evs⟩ (evOf N id) =
          (⟨{ s₁' with el := el₂' }, v.add (vev N evs id), evs ++ [id]⟩, .ok (ds.map (specBlock N))) := e2
      have hdone1 : ∀ x, x ∈ id :: done ↔ x ∈ evs ++ [id] := by
        intro x
        simp only [List.mem_cons, List.mem_append, List.not_mem_nil, or_false, hdone x]
        exact Or.comm
      have hany : (ds.map (specBlock N)).any (·.d.sealed) = false := by
        rw [any_sealed_specBlock, List.any_eq_false]; intro d hd; rw [hun d hd]; decide
      obtain ⟨t₁, t₂, more, sk, r1, r2, hch, hcase⟩ := ih rs.tail s₁' el₂' (v.add (vev N evs id)) (evs ++ [id])
        (id :: done) (blocks ++ ds.map blk) (out ++ ds.map (specBlock N)) C1' C2' I' O₁' O₃ hep1 hdone1 hrest
      refine ⟨t₁, t₂, ds.map (specBlock N) ++ more, sk, ?_, ?_, ?_, ?_⟩
      · simp only [runEpochIx, e1', hany, Bool.false_eq_true, if_false, r1, List.append_assoc]
      · simp only [runEpochIxR, hr', e2', hany, Bool.false_eq_true, if_false, r2, List.append_assoc]
      · intro b hb
        rcases List.mem_append.1 hb with hb | hb
        · exact specBlock_cheaters N ds b hb
        · exact hch b hb
      · rw [any_append_false _ _ _ hany]; exact hcase
    | some q =>
      obtain ⟨l, nv⟩ := q
      rw [hc] at e1 e2
      have e1' : processIndexed app ⟨o, v, evs⟩ (evOf N id) =
          (Model.Indexed.initial (Gen.Orderer.sealedEpoch ep) nv, .ok (l.map (specBlock N))) := e1
      have e2' : processIndexed app ⟨{ o with el := el' }, v, evs⟩ (evOf N id) =
          (Model.Indexed.initial (Gen.Orderer.sealedEpoch ep) nv, .ok (l.map (specBlock N))) := e2
      obtain ⟨hany, hF⟩ := cut_some _ _ _ _ _ hc
      have hany' : (l.map (specBlock N)).any (·.d.sealed) = true := by rw [any_sealed_specBlock]; exact hany
      refine ⟨_, _, l.map (specBlock N), rest, ?_, ?_, specBlock_cheaters N l, Or.inl ⟨hany', nv, hF, rfl, rfl⟩⟩
      · simp only [runEpochIx, e1', hany', if_true]
      · simp only [runEpochIxR, hr', e2', hany', if_true]

end Compose
