import LachesisVerif.Proofs.BufferOps
/-! Accounting of `Released` callbacks per tag across one buffer operation. -/
namespace C14
open Model.EventsBuffer

def sumTo (f : Nat → Nat) : Nat → Nat
  | 0 => 0
  | n + 1 => sumTo f n + f n

theorem sumTo_add (f g : Nat → Nat) : ∀ n, sumTo (fun c => f c + g c) n = sumTo f n + sumTo g n := by
  intro n
  induction n with
  | zero => rfl
  | succ n ih => simp only [sumTo, ih]; omega

theorem sumTo_congr {f g : Nat → Nat} : ∀ n, (∀ c, c < n → f c = g c) → sumTo f n = sumTo g n := by
  intro n
  induction n with
  | zero => intro _; rfl
  | succ n ih =>
    intro h
    simp only [sumTo]
    rw [ih (fun c hc => h c (Nat.lt_succ_of_lt hc)), h n (Nat.lt_succ_self n)]

theorem sumTo_indicator (c0 : Nat) (v : Nat) : ∀ n, sumTo (fun c => if c0 = c then v else 0) n = if c0 < n then v else 0 := by
  intro n
  induction n with
  | zero => rfl
  | succ n ih =>
    simp only [sumTo, ih]
    by_cases h : c0 < n
    · have : c0 ≠ n := Nat.ne_of_lt h
      simp [h, this, Nat.lt_succ_of_lt h]
    · by_cases e : c0 = n
      · subst e; simp
      · have : ¬ c0 < n + 1 := by omega
        simp [h, e, this]

/-- `Released` entries of the trace piece `d` whose copy carries tag `tg` -/
def tagRel (recs : Nat → Rec) (tg : Nat) : List Cb → Nat
  | [] => 0
  | .released c _ :: t => (if (recs c).tag = tg then 1 else 0) + tagRel recs tg t
  | _ :: t => tagRel recs tg t

/-- copies with tag `tg` that are not released yet -/
def unrelTag (st : St) (tg : Nat) : Nat :=
  sumTo (fun c => if (st.recs c).tag = tg ∧ (st.recs c).released = false then 1 else 0) st.n

theorem nRel_append (c : Nat) : ∀ d t : List Cb, nRel c (d ++ t) = nRel c d + nRel c t := by
  intro d t
  induction d with
  | nil => simp [nRel]
  | cons x d ih =>
    cases x <;> simp only [List.cons_append, nRel, ih] <;> omega

/-- double counting -/
theorem tagRel_eq_sum (recs : Nat → Rec) (tg : Nat) (N : Nat) :
    ∀ d : List Cb, (∀ c, N ≤ c → nRel c d = 0) →
      tagRel recs tg d = sumTo (fun c => if (recs c).tag = tg then nRel c d else 0) N := by
  intro d
  induction d with
  | nil =>
    intro _
    have : sumTo (fun c => if (recs c).tag = tg then nRel c [] else 0) N = sumTo (fun _ => 0) N :=
      sumTo_congr N (fun c _ => by simp [nRel])
    rw [this]
    have z : ∀ n, sumTo (fun _ => 0) n = 0 := by
      intro n; induction n with
      | zero => rfl
      | succ n ih => simp [sumTo, ih]
    rw [z]; rfl
  | cons x d ih =>
    intro h
    cases x with
    | released c0 e =>
      have hc0 : c0 < N := by
        apply Nat.lt_of_not_le
        intro hle
        have := h c0 hle
        simp [nRel] at this
      have hd : ∀ c, N ≤ c → nRel c d = 0 := by
        intro c hc
        have := h c hc
        simp only [nRel] at this
        omega
      simp only [tagRel]
      rw [ih hd]
      have : sumTo (fun c => if (recs c).tag = tg then nRel c (Cb.released c0 e :: d) else 0) N =
          sumTo (fun c => (if c0 = c then (if (recs c0).tag = tg then 1 else 0) else 0) +
            (if (recs c).tag = tg then nRel c d else 0)) N := by
        apply sumTo_congr
        intro c _
        simp only [nRel]
        by_cases e1 : c0 = c
        · subst e1; by_cases e2 : (recs c0).tag = tg <;> simp [e2]
        · by_cases e2 : (recs c).tag = tg <;> simp [e1, e2]
      rw [this, sumTo_add, sumTo_indicator, if_pos hc0]
    | check c0 ok =>
      have hd : ∀ c, N ≤ c → nRel c d = 0 := fun c hc => by have := h c hc; simpa [nRel] using this
      simp only [tagRel]
      rw [ih hd]
      exact sumTo_congr N (fun c _ => by simp [nRel])
    | process c0 ok =>
      have hd : ∀ c, N ≤ c → nRel c d = 0 := fun c hc => by have := h c hc; simpa [nRel] using this
      simp only [tagRel]
      rw [ih hd]
      exact sumTo_congr N (fun c _ => by simp [nRel])
    | connect id =>
      have hd : ∀ c, N ≤ c → nRel c d = 0 := fun c hc => by have := h c hc; simpa [nRel] using this
      simp only [tagRel]
      rw [ih hd]
      exact sumTo_congr N (fun c _ => by simp [nRel])

/-- Across an operation of the buffer (`s` to `s'`, trace extended by `d`): every copy with tag `tg` that
    was waiting before (or was pushed by the operation) is either still waiting or has exactly one new
    `Released` in `d`. -/
theorem released_accounting {init : List Nat} {s s' : St} (hs : Good init s) (hs' : Good init s') (d : List Cb)
    (hd : s'.trace = d ++ s.trace) (hn : s.n ≤ s'.n)
    (htag : ∀ c, c < s.n → (s'.recs c).tag = (s.recs c).tag) (tg : Nat) :
    tagRel s'.recs tg d + unrelTag s' tg =
      unrelTag s tg + (sumTo (fun c => if s.n ≤ c ∧ (s'.recs c).tag = tg then 1 else 0) s'.n) := by
  have hs0 : Inv init s.n s := hs
  have hs1 : Inv init s'.n s' := hs'
  -- per copy
  have hper : ∀ c, nRel c d + (if (s.recs c).released then 1 else 0) = (if (s'.recs c).released then 1 else 0) := by
    intro c
    have a := hs1.relsync c
    rw [hd, nRel_append, hs0.relsync c] at a
    exact a
  have hzero : ∀ c, s'.n ≤ c → nRel c d = 0 := by
    intro c hc
    have := hper c
    rw [hs1.fresh c hc] at this
    simp at this
    exact this.1
  rw [tagRel_eq_sum s'.recs tg s'.n d hzero]
  unfold unrelTag
  -- the old sum, extended to s'.n with the tags of s'
  have hold : sumTo (fun c => if (s.recs c).tag = tg ∧ (s.recs c).released = false then 1 else 0) s.n +
      sumTo (fun c => if s.n ≤ c ∧ (s'.recs c).tag = tg then 1 else 0) s'.n =
      sumTo (fun c => if (s'.recs c).tag = tg ∧ (s.recs c).released = false then 1 else 0) s'.n := by
    have key : ∀ m, s.n ≤ m →
        sumTo (fun c => if (s.recs c).tag = tg ∧ (s.recs c).released = false then 1 else 0) s.n +
          sumTo (fun c => if s.n ≤ c ∧ (s'.recs c).tag = tg then 1 else 0) m =
        sumTo (fun c => if (s'.recs c).tag = tg ∧ (s.recs c).released = false then 1 else 0) m := by
      intro m
      induction m with
      | zero =>
        intro h0
        have : s.n = 0 := by omega
        rw [this]; rfl
      | succ m ih =>
        intro hm
        by_cases e : s.n = m + 1
        · -- the extension part is empty below s.n
          rw [← e]
          have z : sumTo (fun c => if s.n ≤ c ∧ (s'.recs c).tag = tg then 1 else 0) s.n = 0 := by
            have : sumTo (fun c => if s.n ≤ c ∧ (s'.recs c).tag = tg then 1 else 0) s.n = sumTo (fun _ => 0) s.n :=
              sumTo_congr s.n (fun c hc => by
                have : ¬ s.n ≤ c := by omega
                simp [this])
            rw [this]
            generalize s.n = k
            induction k with
            | zero => rfl
            | succ k ih => simp [sumTo, ih]
          rw [z, Nat.add_zero]
          exact sumTo_congr s.n (fun c hc => by rw [htag c hc])
        · have hm' : s.n ≤ m := by omega
          have := ih hm'
          simp only [sumTo]
          rw [← Nat.add_assoc, this]
          have hfr : (s.recs m).released = false := hs0.fresh m hm'
          simp [hm', hfr]
    exact key s'.n hn
  rw [hold, ← sumTo_add]
  apply sumTo_congr
  intro c _
  have := hper c
  by_cases e : (s'.recs c).tag = tg
  · cases h1 : (s.recs c).released <;> cases h2 : (s'.recs c).released <;> simp [e, h1, h2] at this ⊢ <;> omega
  · simp [e]

end C14
