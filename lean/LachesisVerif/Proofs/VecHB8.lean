import LachesisVerif.Proofs.VecHB7
/-!
Link between the abstract loop context and histories: exactness of the overlap test from I1
(`seq_inj`, `chain`, `BranchConsec`), and the observed-seq sets / forks of a newly appended event.
-/
namespace VecProofs
open Model.Vec Model.Vec.VState

/-- the overlap test is exact: the observed part of a branch is an interval and a branch has one
    event per sequence number -/
theorem loopCtx_of_inv {nVals : Nat} {h : Hist} {s : VState} (hv : Valid nVals h) (bi : BranchInv h s)
    (bc : BranchConsec h s) (hlt : s.nBr < 4294967296) (a0 : Nat) :
    LoopCtx s (ForkSeen h a0) (ObsSeq h s a0) where
  nBr_lt := hlt
  nVals_le := bi.nVals_le
  primary := bi.primary
  creator_lt := bi.creator_lt
  ov_sound := by
    intro a b hab _ _ hcc x y hx hy hx0 hy0 h1 h2
    rcases hx with ⟨_, rfl⟩ | ⟨⟨i1, hi1a, hi1b, hi1s⟩, ⟨i2, hi2a, hi2b, hi2s⟩, hxb, _⟩
    · exact absurd rfl hx0
    rcases hy with ⟨_, rfl⟩ | ⟨⟨j1, hj1a, hj1b, hj1s⟩, ⟨j2, hj2a, hj2b, hj2s⟩, hyb, _⟩
    · exact absurd rfl hy0
    have hxm := hxb _ ⟨i1, hi1a, hi1b, hi1s⟩
    have hym := hyb _ ⟨j1, hj1a, hj1b, hj1s⟩
    have li1 := hi1a.lt_right hv
    have li2 := hi2a.lt_right hv
    have lj1 := hj1a.lt_right hv
    have lj2 := hj2a.lt_right hv
    -- a common sequence number of the two observed intervals
    obtain ⟨k, hk1, hk2, hk3, hk4⟩ : ∃ k, x.minSeq ≤ k ∧ k ≤ x.seq ∧ y.minSeq ≤ k ∧ k ≤ y.seq := by
      by_cases hc : x.minSeq ≤ y.minSeq
      · exact ⟨y.minSeq, hc, h2, Nat.le_refl _, by omega⟩
      · exact ⟨x.minSeq, Nat.le_refl _, by omega, by omega, h1⟩
    obtain ⟨m, hm, hmb, hms⟩ := bc i1 i2 li1 li2 (by rw [hi1b, hi2b]) k (by omega) (by omega)
    obtain ⟨m', hm', hmb', hms'⟩ := bc j1 j2 lj1 lj2 (by rw [hj1b, hj2b]) k (by omega) (by omega)
    have am : Anc h a0 m := hi1a.trans (bi.chain i1 m li1 hm hmb.symm (by omega))
    have am' : Anc h a0 m' := hj1a.trans (bi.chain j1 m' lj1 hm' hmb'.symm (by omega))
    have hne : m ≠ m' := by
      intro heq
      rw [heq, hmb', hi1b, hj1b] at hmb
      exact hab hmb.symm
    refine ⟨m, m', hne, am, am', ?_, ?_, by rw [hms, hms']⟩
    · rw [← bi.creator_eq m hm, hmb, hi1b]
    · rw [← bi.creator_eq m' hm', hmb', hj1b, hcc]
  ov_complete := by
    rintro c ⟨x, y, hxy, hax, hay, hcx, hcy, hs⟩
    have lx := hax.lt_right hv
    have ly := hay.lt_right hv
    refine ⟨s.branchOf x, s.branchOf y, (h.ev x).seq, ?_, bi.branch_lt x lx, bi.branch_lt y ly, ?_, ?_,
      ⟨x, hax, rfl, rfl⟩, ⟨y, hay, rfl, hs.symm⟩⟩
    · intro hb; exact hxy (bi.seq_inj x y lx ly hb hs)
    · rw [bi.creator_eq x lx]; exact hcx
    · rw [bi.creator_eq y ly]; exact hcy

/-- the loop context only depends on the branch tables -/
theorem LoopCtx.transfer {s s1 : VState} {F : Nat → Prop} {Obs : Nat → Nat → Prop}
    (C : LoopCtx s F Obs) (h1 : s1.nBr = s.nBr) (h2 : s1.nVals = s.nVals)
    (h3 : s1.creatorOf = s.creatorOf) : LoopCtx s1 F Obs := by
  constructor
  · rw [h1]; exact C.nBr_lt
  · rw [h1, h2]; exact C.nVals_le
  · rw [h2, h3]; exact C.primary
  · rw [h1, h2, h3]; exact C.creator_lt
  · rw [h1, h3]; exact C.ov_sound
  · rw [h1, h3]; exact C.ov_complete

/-- an unforked entry is faithful (also beyond the branches known when its event was indexed) -/
theorem entry_rep {h : Hist} {s : VState} {nBrAt : Nat → Nat} (vi : VecInv h s nBrAt)
    (vi2 : VecInv2 h s nBrAt) {a b : Nat} (ha : a < h.length)
    (hf : ((s.hb.get a).get b).isFork = false) : Rep (ObsSeq h s a b) ((s.hb.get a).get b) := by
  by_cases hb : b < nBrAt a
  · apply vi.rep a b ha
    intro hF
    rw [vi.complete a b ha hb hF] at hf
    exact absurd hf (by decide)
  · rw [vi2.beyond a b ha (by omega)]
    refine Or.inl ⟨?_, rfl⟩
    rintro n ⟨i, hai, hib, _⟩
    have := vi2.seen_lt a i ha hai
    omega

theorem obsSeq_snoc_old {nVals : Nat} {h : Hist} {s s' : VState} {e : Event} {me : Nat}
    (hv : Valid nVals h) (V : AddView h s e s' me) {a : Nat} (ha : a < h.length) (b k : Nat) :
    ObsSeq (h ++ [e]) s' a b k ↔ ObsSeq h s a b k := by
  constructor
  · rintro ⟨i, hai, hib, his⟩
    have hai' := (anc_snoc_old hv e ha).1 hai
    have li := hai'.lt_right hv
    rw [V.branchOf_old li] at hib
    rw [ev_snoc_lt h e li] at his
    exact ⟨i, hai', hib, his⟩
  · rintro ⟨i, hai, hib, his⟩
    have li := hai.lt_right hv
    exact ⟨i, hai.snoc e, by rw [V.branchOf_old li]; exact hib, by rw [ev_snoc_lt h e li]; exact his⟩

/-- observed seqs of the new event = its own ∪ those of its parents -/
theorem obsSeq_snoc_new {nVals : Nat} {h : Hist} {s s' : VState} {e : Event} {me : Nat}
    (hv : Valid nVals h) (hn : ValidNext nVals h e) (V : AddView h s e s' me) (b k : Nat) :
    ObsSeq (h ++ [e]) s' h.length b k ↔
      ((b = me ∧ k = e.seq) ∨ ∃ p, p ∈ e.parents ∧ ObsSeq h s p b k) := by
  constructor
  · rintro ⟨i, hai, hib, his⟩
    rcases (anc_snoc_new hv hn).1 hai with rfl | ⟨p, hp, hpi⟩
    · rw [V.branchOf_new] at hib
      rw [ev_snoc_eq] at his
      exact Or.inl ⟨hib.symm, his.symm⟩
    · have li := hpi.lt_right hv
      rw [V.branchOf_old li] at hib
      rw [ev_snoc_lt h e li] at his
      exact Or.inr ⟨p, hp, i, hpi, hib, his⟩
  · rintro (⟨rfl, rfl⟩ | ⟨p, hp, i, hpi, hib, his⟩)
    · exact ⟨h.length, (anc_snoc_new hv hn).2 (Or.inl rfl), V.branchOf_new, by rw [ev_snoc_eq]⟩
    · have li := hpi.lt_right hv
      exact ⟨i, (anc_snoc_new hv hn).2 (Or.inr ⟨p, hp, hpi⟩), by rw [V.branchOf_old li]; exact hib,
        by rw [ev_snoc_lt h e li]; exact his⟩

/-- a fork seen by a parent is seen by the new event -/
theorem forkSeen_new_of_parent {nVals : Nat} {h : Hist} {e : Event} (hv : Valid nVals h)
    (hn : ValidNext nVals h e) {p c : Nat} (hp : p ∈ e.parents) (hF : ForkSeen h p c) :
    ForkSeen (h ++ [e]) h.length c := by
  obtain ⟨x, y, hxy, hax, hay, hcx, hcy, hs⟩ := hF
  have lx := hax.lt_right hv
  have ly := hay.lt_right hv
  refine ⟨x, y, hxy, (anc_snoc_new hv hn).2 (Or.inr ⟨p, hp, hax⟩),
    (anc_snoc_new hv hn).2 (Or.inr ⟨p, hp, hay⟩), ?_, ?_, ?_⟩
  · rw [ev_snoc_lt h e lx]; exact hcx
  · rw [ev_snoc_lt h e ly]; exact hcy
  · rw [ev_snoc_lt h e lx, ev_snoc_lt h e ly]; exact hs

end VecProofs
