import LachesisVerif.Proofs.VecPersistFinal
/-!
Persistence of the vector index, part 4: which keys exist. The Go code fails with "parent not found
(inconsistent DB)" / "failed to read event's branch ID (inconsistent DB)" when a row is absent
(`Model.Vec` reads absent rows as zero). Here: after any call sequence the branch-id, HighestBefore
and parents rows exist in the parent DB exactly for the flushed events and through the overlay
exactly for the surviving events. (LowestAfter rows are not covered: without `parents_lt` the DFS can
create a row under a parent position that does not exist yet.)
-/
namespace VecPersistProofs
open Model.Vec Model.VecPersist VecProofs

def PresT {α : Type} (ov st : Tab α) (fsize size : Nat) : Prop :=
  (∀ a, (st.get a).isSome = true ↔ a < fsize) ∧ (∀ a, (Tab.look ov st a).isSome = true ↔ a < size)

theorem presT_set {α : Type} {ov st : Tab α} {f n : Nat} (h : PresT ov st f n) (x : α) :
    PresT (ov.set n x) st f (n + 1) := by
  refine ⟨h.1, fun a => ?_⟩
  rw [look_set]
  by_cases ha : a = n
  · simp only [ha, if_true, Option.isSome_some, true_iff]; omega
  · simp only [ha, if_false]
    rw [h.2 a]; omega

theorem presT_flush {α : Type} {ov st : Tab α} {f n : Nat} (h : PresT ov st f n) :
    PresT Tab.empty (Tab.merge ov st) n n :=
  ⟨h.2, h.2⟩

theorem presT_clear {α : Type} {ov st : Tab α} {f n : Nat} (h : PresT ov st f n) :
    PresT Tab.empty st f f :=
  ⟨h.1, h.1⟩

structure Pres (s : PState) : Prop where
  br : PresT s.ov.br s.store.br s.fsize s.size
  hb : PresT s.ov.hb s.store.hb s.fsize s.size
  par : PresT s.ov.par s.store.par s.fsize s.size

theorem pres_fresh (n : Nat) : Pres (PState.fresh n) := by
  have h : ∀ {α : Type}, PresT (Tab.empty : Tab α) Tab.empty 0 0 := by
    intro α
    refine ⟨fun a => ?_, fun a => ?_⟩
    · simp only [Tab.empty, Option.isSome_none, Bool.false_eq_true, false_iff]; omega
    · simp only [Tab.look, Tab.empty, Option.isSome_none, Bool.false_eq_true, false_iff]; omega
  exact ⟨h, h, h⟩

theorem pres_add {s : PState} (h : Pres s) (e : Event) : Pres (s.add e) :=
  ⟨presT_set h.br _, presT_set h.hb _, presT_set h.par _⟩

theorem pres_flush {s : PState} (h : Pres s) : Pres s.flush :=
  ⟨presT_flush h.br, presT_flush h.hb, presT_flush h.par⟩

theorem pres_reset {s : PState} (h : Pres s) : Pres s.reset :=
  ⟨presT_clear h.br, presT_clear h.hb, presT_clear h.par⟩

theorem pres_initBI {s : PState} (h : Pres s) : Pres s.initBI := by
  cases hb : s.bi with
  | some b => simp only [initBI_def, hb]; exact h
  | none => simp only [initBI_def, hb]; exact ⟨h.br, h.hb, h.par⟩

theorem pres_drop {s : PState} (h : Pres s) (hd : s.dirty = false → Clean s) : Pres s.dropNotFlushed := by
  cases hdd : s.dirty
  · obtain ⟨hov, hsz⟩ := hd hdd
    have h' := h
    obtain ⟨h1, h2, h3⟩ := h'
    rw [hov, hsz] at h1 h2 h3
    refine ⟨?_, ?_, ?_⟩ <;> simp only [drop_def, hdd, hov] <;> assumption
  · refine ⟨?_, ?_, ?_⟩ <;> simp only [drop_def, hdd, if_true]
    · exact presT_clear h.br
    · exact presT_clear h.hb
    · exact presT_clear h.par

theorem pres_exec {n : Nat} (ops : List Op) : ∀ {s : PState} {f p : List Event}, Inv n s f p → Pres s →
    Pres (s.exec ops) := by
  induction ops with
  | nil => intro s f p _ h; exact h
  | cons op ops ih =>
    intro s f p hi h
    have hi1 := inv_step hi op
    have h1 : Pres (s.step op) := by
      cases op with
      | add e => exact pres_add h e
      | flush => exact pres_flush h
      | drop => exact pres_drop h (fun hd => (hi.nodirty hd).2)
      | query => exact pres_initBI h
      | restart => exact pres_initBI (pres_reset h)
    exact ih hi1 h1

theorem foldl_size (h : List Event) : ∀ s : VState, (h.foldl (fun s e => s.add e) s).size = s.size + h.length := by
  induction h with
  | nil => intro s; rfl
  | cons e h ih =>
    intro s
    rw [List.foldl_cons, ih, List.length_cons]
    have : (s.add e).size = s.size + 1 := rfl
    omega

theorem run_size (n : Nat) (h : List Event) : (run n h).size = h.length := by
  have := foldl_size h (VState.init n)
  have h0 : (VState.init n).size = 0 := rfl
  rw [h0] at this
  simp only [run]; omega

theorem sizes (n : Nat) (ops : List Op) :
    ((PState.fresh n).exec ops).fsize = (flushedOf ops).length ∧
    ((PState.fresh n).exec ops).size = (survivors ops).length := by
  have hi := inv_reachable n ops
  constructor
  · have := congrArg VState.size hi.sv
    rw [run_size] at this; exact this
  · have := congrArg VState.size hi.vw
    rw [run_size] at this; exact this

/-- after any call sequence: the branch-id / HighestBefore / parents rows are in the parent DB exactly
    for the flushed events, and readable through the flushable exactly for the surviving events -/
theorem rows_present (n : Nat) (ops : List Op) (a : Nat) :
    let s := (PState.fresh n).exec ops
    (((s.store.br.get a).isSome = true ↔ a < (flushedOf ops).length) ∧
     ((s.store.hb.get a).isSome = true ↔ a < (flushedOf ops).length) ∧
     ((s.store.par.get a).isSome = true ↔ a < (flushedOf ops).length)) ∧
    (((Tab.look s.ov.br s.store.br a).isSome = true ↔ a < (survivors ops).length) ∧
     ((Tab.look s.ov.hb s.store.hb a).isSome = true ↔ a < (survivors ops).length) ∧
     ((Tab.look s.ov.par s.store.par a).isSome = true ↔ a < (survivors ops).length)) := by
  intro s
  have hp : Pres s := pres_exec ops (inv_fresh n) (pres_fresh n)
  obtain ⟨hf, hs⟩ := sizes n ops
  rw [← hf, ← hs]
  exact ⟨⟨hp.br.1 a, hp.hb.1 a, hp.par.1 a⟩, ⟨hp.br.2 a, hp.hb.2 a, hp.par.2 a⟩⟩
