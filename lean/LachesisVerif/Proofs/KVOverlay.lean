import LachesisVerif.Model.Flushable
import LachesisVerif.Proofs.KVSpec
/-! Lemmas on the overlay of `Model.Flushable`: tree lookups, `overlayApply` characterised by lookups. -/
namespace Model.Flushable
open Bytes Spec Spec.KV

namespace Overlay

theorem lookup_nil (k : Bytes) : lookup [] k = none := rfl

theorem lookup_cons (a : Bytes) (b : Option Bytes) (ov : Overlay) (k : Bytes) :
    lookup ((a, b) :: ov) k = if a = k then some b else lookup ov k := by
  unfold lookup
  by_cases h : a = k
  · simp [h]
  · simp [h]

def AllGt (b : Bytes) (ov : Overlay) : Prop := ∀ x ∈ ov, lexLt b x.1 = true

theorem sorted_cons {a : Bytes × Option Bytes} {ov : Overlay} : Sorted (a :: ov) ↔ AllGt a.1 ov ∧ Sorted ov := by
  unfold Sorted AllGt; exact List.pairwise_cons

theorem sorted_nil : Sorted [] := List.Pairwise.nil

theorem AllGt.trans {a b : Bytes} {ov : Overlay} (h : AllGt b ov) (hab : lexLt a b = true) : AllGt a ov :=
  fun x hx => lexLt_trans hab (h x hx)

theorem AllGt.tail {b : Bytes} {x : Bytes × Option Bytes} {ov : Overlay} (h : AllGt b (x :: ov)) : AllGt b ov :=
  fun y hy => h y (List.mem_cons_of_mem _ hy)

theorem lookup_none_of_allGt {k : Bytes} {ov : Overlay} (h : AllGt k ov) : lookup ov k = none := by
  induction ov with
  | nil => rfl
  | cons x xs ih =>
    obtain ⟨a, b⟩ := x
    rw [lookup_cons]
    have hx := h (a, b) List.mem_cons_self
    have : a ≠ k := fun e => by subst e; simp [lexLt_irrefl] at hx
    rw [if_neg this]
    exact ih h.tail

theorem lookup_put (ov : Overlay) (k : Bytes) (v : Option Bytes) (k' : Bytes) :
    lookup (put ov k v) k' = if k = k' then some v else lookup ov k' := by
  induction ov with
  | nil => simp [put, lookup_cons, lookup_nil]
  | cons x xs ih =>
    obtain ⟨a, b⟩ := x
    unfold put
    by_cases e : k = a
    · subst e; simp only [beq_self_eq_true, if_true, lookup_cons]
      by_cases e' : k = k' <;> simp [e']
    · have : (k == a) = false := by simpa using e
      simp only [this, Bool.false_eq_true, if_false]
      by_cases hl : lexLt k a = true
      · simp only [hl, if_true, lookup_cons]
      · simp only [hl, Bool.false_eq_true, if_false, lookup_cons, ih]
        by_cases e1 : a = k'
        · subst e1; simp [e]
        · simp [e1]

theorem allGt_put {b : Bytes} {ov : Overlay} {k : Bytes} {v : Option Bytes} (h : AllGt b ov) (hk : lexLt b k = true) :
    AllGt b (put ov k v) := by
  induction ov with
  | nil => intro x hx; simp [put] at hx; subst hx; exact hk
  | cons y ys ih =>
    obtain ⟨a, c⟩ := y
    have ha := h (a, c) List.mem_cons_self
    have hys : AllGt b ys := h.tail
    unfold put
    split
    · intro x hx
      rcases List.mem_cons.1 hx with e | hx'
      · subst e; exact hk
      · exact hys x hx'
    · split
      · intro x hx
        rcases List.mem_cons.1 hx with e | hx'
        · subst e; exact hk
        · exact h x hx'
      · intro x hx
        rcases List.mem_cons.1 hx with e | hx'
        · subst e; exact ha
        · exact ih hys x hx'

theorem sorted_put {ov : Overlay} (hs : Sorted ov) (k : Bytes) (v : Option Bytes) : Sorted (put ov k v) := by
  induction ov with
  | nil => unfold put Sorted; simp
  | cons y ys ih =>
    obtain ⟨a, c⟩ := y
    obtain ⟨g, s⟩ := sorted_cons.1 hs
    unfold put
    by_cases e : k = a
    · subst e
      simp only [beq_self_eq_true, if_true]
      exact sorted_cons.2 ⟨g, s⟩
    · have : (k == a) = false := by simpa using e
      simp only [this, Bool.false_eq_true, if_false]
      by_cases hl : lexLt k a = true
      · simp only [hl, if_true]
        refine sorted_cons.2 ⟨?_, hs⟩
        intro x hx
        rcases List.mem_cons.1 hx with e' | hx'
        · subst e'; exact hl
        · exact lexLt_trans hl (g x hx')
      · simp only [hl, Bool.false_eq_true, if_false]
        have hak : lexLt a k = true := by
          rcases lexLt_total a k with h | h | h
          · exact h
          · exact absurd h.symm e
          · exact absurd h hl
        exact sorted_cons.2 ⟨allGt_put g hak, ih s⟩

/-- the number of tree nodes grows exactly when the key is new -/
theorem length_put {ov : Overlay} (hs : Sorted ov) (k : Bytes) (v : Option Bytes) :
    (put ov k v).length = if (lookup ov k).isSome then ov.length else ov.length + 1 := by
  induction ov with
  | nil => simp [put, lookup_nil]
  | cons x xs ih =>
    obtain ⟨a, b⟩ := x
    obtain ⟨g, s⟩ := sorted_cons.1 hs
    unfold put
    by_cases e : k = a
    · subst e; simp [lookup_cons]
    · have : (k == a) = false := by simpa using e
      have e' : a ≠ k := fun h => e h.symm
      simp only [this, Bool.false_eq_true, if_false, lookup_cons, if_neg e']
      by_cases hl : lexLt k a = true
      · simp only [hl, if_true, List.length_cons]
        rw [lookup_none_of_allGt (AllGt.trans g hl)]
        simp
      · simp only [hl, Bool.false_eq_true, if_false, List.length_cons, ih s]
        split <;> rfl

theorem lookup_filter_key (ov : Overlay) (q : Bytes → Bool) (k : Bytes) :
    lookup (ov.filter (fun x => q x.1)) k = if q k then lookup ov k else none := by
  induction ov with
  | nil => simp [lookup_nil]
  | cons x xs ih =>
    obtain ⟨a, b⟩ := x
    by_cases hq : q a = true
    · rw [List.filter_cons_of_pos (by simpa using hq), lookup_cons, lookup_cons, ih]
      by_cases e : a = k
      · subst e; simp [hq]
      · simp [e]
    · rw [List.filter_cons_of_neg (by simpa using hq), lookup_cons, ih]
      by_cases e : a = k
      · subst e; simp [hq]
      · simp [e]

end Overlay

theorem get_applyNode (m : KV) (p : Bytes × Option Bytes) (k : Bytes) :
    KV.get (applyNode m p) k = if p.1 = k then p.2 else KV.get m k := by
  obtain ⟨a, b⟩ := p
  unfold applyNode
  cases b with
  | some v => simp only [get_insert]
  | none => simp only [get_erase]

theorem sorted_applyNode {m : KV} (hs : KV.Sorted m) (p : Bytes × Option Bytes) : KV.Sorted (applyNode m p) := by
  unfold applyNode
  split
  · exact sorted_insert hs _ _
  · exact sorted_erase hs _

theorem overlayApply_cons (under : KV) (p : Bytes × Option Bytes) (ov : Overlay) :
    overlayApply under (p :: ov) = overlayApply (applyNode under p) ov := rfl

theorem sorted_overlayApply {under : KV} (hs : KV.Sorted under) (ov : Overlay) : KV.Sorted (overlayApply under ov) := by
  induction ov generalizing under with
  | nil => exact hs
  | cons p ps ih => rw [overlayApply_cons]; exact ih (sorted_applyNode hs p)

/-- lookups in the view: the tree decides where it has a node, the underlying store elsewhere -/
theorem get_overlayApply {ov : Overlay} (hs : Overlay.Sorted ov) (under : KV) (k : Bytes) :
    KV.get (overlayApply under ov) k = match Overlay.lookup ov k with
      | some e => e
      | none => KV.get under k := by
  induction ov generalizing under with
  | nil => rfl
  | cons p ps ih =>
    obtain ⟨a, b⟩ := p
    obtain ⟨g, s⟩ := Overlay.sorted_cons.1 hs
    rw [overlayApply_cons, ih s, Overlay.lookup_cons]
    by_cases e : a = k
    · subst e
      rw [Overlay.lookup_none_of_allGt g, if_pos rfl]
      simp only [get_applyNode, if_true]
    · rw [if_neg e]
      cases Overlay.lookup ps k with
      | some x => rfl
      | none => simp only [get_applyNode, if_neg e]

end Model.Flushable
