import LachesisVerif.Proofs.RefEquivI
import LachesisVerif.Proofs.ElectionL6
/-!
# Reference equivalence, part J: `electionFrom`, `atroposSpec`

* `root_exists_below`: the frames that have roots are the frames `1 … maxF` (`maxF` = highest frame);
* `electionFrom_spec`: the decision table returned by `electionFrom` is sound (`DecSound`: a stored
  yes is a `DecidedYes` and carries the candidate root, a stored no is a `DecidedNo`) and complete
  (`DecFinal`: a subject without entry is decided by no root at all);
* `go_cases`: what the final scan over the validators returns;
* `atroposSpec_sound`, `atroposSpec_complete`, `atroposSpec_iff`, `atroposSpec_allNo`,
  `atroposSpec_undecided`: the outcome of `atroposSpec f` versus `IsAtropos f`.
-/
namespace RefEquiv
open Spec.Lachesis VecProofs Model.Vec ElectionRules
open Spec.Lachesis.Inst (Vote FrameVotes lookupVote Outcome)

/-! ### the highest frame, frames with roots -/

/-- the highest accepted frame of an instance -/
def maxF (s : Inst) : Nat := s.evs.foldl (fun m e => max m e.frame) 0

theorem foldl_max_frame (l : List Ev) (init : Nat) :
    init ≤ l.foldl (fun m e => max m e.frame) init ∧
    ∀ e ∈ l, e.frame ≤ l.foldl (fun m e => max m e.frame) init := by
  induction l generalizing init with
  | nil => exact ⟨Nat.le_refl _, fun e he => by cases he⟩
  | cons x xs ih =>
    obtain ⟨h1, h2⟩ := ih (max init x.frame)
    rw [List.foldl_cons]
    refine ⟨Nat.le_trans (Nat.le_max_left _ _) h1, fun e he => ?_⟩
    rcases List.mem_cons.1 he with rfl | he
    · exact Nat.le_trans (Nat.le_max_right _ _) h1
    · exact h2 e he

theorem frame_le_maxF (s : Inst) {i : Nat} (h : i < s.size) : (s.ev i).frame ≤ maxF s := by
  unfold maxF
  rw [← Array.foldl_toList]
  have hi : i < s.evs.size := h
  rw [ev_eq_getElem s hi]
  exact (foldl_max_frame s.evs.toList 0).2 _ (by rw [← Array.getElem_toList]; exact List.getElem_mem _)

theorem root_le_maxF (s : Inst) {r g : Nat} (h : (netOf s).IsRoot r g) : g ≤ maxF s := by
  obtain ⟨hlt, _, hle⟩ := h
  rw [length_netOf] at hlt
  exact Nat.le_trans hle (frame_le_maxF s hlt)

/-- below the frame of any event every frame ≥ 1 has a root -/
theorem root_exists_below (N : Net) (hv : Valid N.nVals N.h) (g : Nat) (hg : 1 ≤ g) :
    ∀ e, e < N.h.length → g ≤ N.fr e → ∃ r, N.IsRoot r g := by
  intro e
  induction e using Nat.strongRecOn with
  | ind e ih =>
    intro he hle
    by_cases hlt : N.spf e < g
    · exact ⟨e, he, hlt, hle⟩
    · have hsp : g ≤ N.spf e := by omega
      unfold Net.spf at hsp
      by_cases hs : (N.h.ev e).seq ≤ 1
      · rw [if_pos hs] at hsp; omega
      · rw [if_neg hs] at hsp
        cases hp : (N.h.ev e).parents with
        | nil => rw [hp] at hsp; simp only [] at hsp; omega
        | cons p ps =>
          rw [hp] at hsp
          have hpl := (valid_ev hv e he).parents_lt p (by rw [hp]; exact List.mem_cons_self)
          exact ih p hpl (by omega) hsp

/-! ### the decision table -/

theorem getD_mapIdx {α : Type} (g : Nat → Option α → Option α) (dec : Array (Option α)) {v : Nat}
    (hv : v < dec.size) : (dec.mapIdx g).getD v none = g v (dec.getD v none) := by
  rw [Array.getD_eq_getD_getElem?, Array.getD_eq_getD_getElem?, Array.getElem?_mapIdx,
    Array.getElem?_eq_getElem hv]
  rfl

theorem getD_replicate {α : Type} (n v : Nat) :
    (Array.replicate n (none : Option α)).getD v none = none := by
  rw [Array.getD_eq_getD_getElem?, Array.getElem?_replicate]
  split <;> rfl

/-- one step of `electionFrom` on the decision table -/
def decStep (f fr : Nat) (cur : FrameVotes) (dec : Array (Option Vote)) : Array (Option Vote) :=
  dec.mapIdx (fun v d =>
    match d with
    | some x => some x
    | none => if fr ≥ f + 2 then
                (cur.find? (fun x => (x.2.getD v default).decided)).map (fun x => x.2.getD v default)
              else none)

theorem electionFrom_zero (s : Inst) (f fr : Nat) (prev : FrameVotes) (dec : Array (Option Vote)) :
    s.electionFrom f 0 fr prev dec = dec := rfl

theorem electionFrom_succ (s : Inst) (f fuel fr : Nat) (prev : FrameVotes) (dec : Array (Option Vote)) :
    s.electionFrom f (fuel + 1) fr prev dec =
      if (s.rootsAt fr).isEmpty then dec
      else s.electionFrom f fuel (fr + 1) (s.votesOfFrame f fr prev) (decStep f fr (s.votesOfFrame f fr prev) dec) := rfl

/-- every stored decision is a decision of the rules (and a yes carries the candidate) -/
def DecSound (s : Inst) (f : Nat) (dec : Array (Option Vote)) : Prop :=
  dec.size = s.nv ∧ ∀ v vt, v < s.nv → dec.getD v none = some vt →
    (vt.yes = true → (netOf s).DecidedYes f v ∧ ObsOK (netOf s) f v vt.obs) ∧
    (vt.yes = false → (netOf s).DecidedNo f v)

/-- a subject without entry is not decided by any root of a round below `k` -/
def DecComplete (s : Inst) (f k : Nat) (dec : Array (Option Vote)) : Prop :=
  ∀ v, v < s.nv → dec.getD v none = none →
    ∀ j r, j < k → ¬ (netOf s).DecidesYes f j r v ∧ ¬ (netOf s).DecidesNo f j r v

/-- a subject without entry is not decided at all -/
def DecFinal (s : Inst) (f : Nat) (dec : Array (Option Vote)) : Prop :=
  ∀ v, v < s.nv → dec.getD v none = none → ¬ (netOf s).DecidedYes f v ∧ ¬ (netOf s).DecidedNo f v

section election
variable {s : Inst}

/-- what `find?` over the table of one frame returns -/
theorem find_decided (s : Inst) (f fr : Nat) (prev : FrameVotes) {v : Nat} (hv : v < s.nv) :
    (∀ x, (s.votesOfFrame f fr prev).find? (fun x => (x.2.getD v default).decided) = some x →
      ∃ r ∈ s.rootsAt fr, x.2.getD v default = lookupVote (s.votesOfFrame f fr prev) r v ∧
        (lookupVote (s.votesOfFrame f fr prev) r v).decided = true) ∧
    ((s.votesOfFrame f fr prev).find? (fun x => (x.2.getD v default).decided) = none →
      ∀ r ∈ s.rootsAt fr, (lookupVote (s.votesOfFrame f fr prev) r v).decided = false) := by
  constructor
  · intro x hx
    have hmem := List.mem_of_find?_eq_some hx
    have hdec := List.find?_some hx
    rw [votesOfFrame_eq] at hmem
    obtain ⟨r, hr, rfl⟩ := List.mem_map.1 hmem
    refine ⟨r, hr, ?_, ?_⟩
    · rw [lookupVote_votesOfFrame s f fr prev hr hv]
      exact getD_ofFn (fun v => voteOf s f fr prev r v) hv
    · rw [lookupVote_votesOfFrame s f fr prev hr hv]
      have := getD_ofFn (fun v => voteOf s f fr prev r v) hv
      simp only [] at hdec
      rw [this] at hdec
      exact hdec
  · intro hx r hr
    have := List.find?_eq_none.1 hx (r, Array.ofFn (n := s.nv) (fun v => voteOf s f fr prev r v.val))
      (by rw [votesOfFrame_eq]; exact List.mem_map.2 ⟨r, hr, rfl⟩)
    simp only [] at this
    rw [getD_ofFn (fun v => voteOf s f fr prev r v) hv] at this
    rw [lookupVote_votesOfFrame s f fr prev hr hv]
    simpa using this

/-- one frame more: the table stays sound and becomes complete for the scanned round -/
theorem dec_step (hg : Good s) (f k : Nat) (prev : FrameVotes) (dec : Array (Option Vote))
    (hcur : VotesOK s f k (s.votesOfFrame f (f + k) prev))
    (hs : DecSound s f dec) (hc : DecComplete s f k dec) :
    DecSound s f (decStep f (f + k) (s.votesOfFrame f (f + k) prev) dec) ∧
    DecComplete s f (k + 1) (decStep f (f + k) (s.votesOfFrame f (f + k) prev) dec) := by
  obtain ⟨hsz, hsound⟩ := hs
  have hget : ∀ v, v < s.nv → (decStep f (f + k) (s.votesOfFrame f (f + k) prev) dec).getD v none =
      match dec.getD v none with
      | some x => some x
      | none => if f + k ≥ f + 2 then
          ((s.votesOfFrame f (f + k) prev).find? (fun x => (x.2.getD v default).decided)).map
            (fun x => x.2.getD v default)
        else none := fun v hv => getD_mapIdx _ dec (by rw [hsz]; exact hv)
  constructor
  · refine ⟨by unfold decStep; rw [Array.size_mapIdx]; exact hsz, ?_⟩
    intro v vt hv hvt
    rw [hget v hv] at hvt
    cases hd : dec.getD v none with
    | some x =>
      rw [hd] at hvt
      injection hvt with hvt
      subst hvt
      exact hsound v x hv hd
    | none =>
      rw [hd] at hvt
      simp only [] at hvt
      by_cases hk2 : f + k ≥ f + 2
      · rw [if_pos hk2] at hvt
        cases hfind : (s.votesOfFrame f (f + k) prev).find? (fun x => (x.2.getD v default).decided) with
        | none => rw [hfind] at hvt; cases hvt
        | some x =>
          rw [hfind, Option.map_some] at hvt
          injection hvt with hvt
          obtain ⟨r, hr, hx, hdec⟩ := (find_decided s f (f + k) prev hv).1 x hfind
          rw [hx] at hvt
          subst hvt
          obtain ⟨_, h2, h3, _, h5⟩ := hcur r v hr hv
          exact ⟨fun hy => ⟨⟨k, r, h2 hdec hy⟩, h5 hy⟩, fun hn => ⟨k, r, h3 hdec hn⟩⟩
      · rw [if_neg hk2] at hvt; cases hvt
  · intro v hv hnone j r hj
    rw [hget v hv] at hnone
    cases hd : dec.getD v none with
    | some x => rw [hd] at hnone; cases hnone
    | none =>
      by_cases hjk : j < k
      · exact hc v hv hd j r hjk
      · have hjeq : j = k := by omega
        subst hjeq
        rw [hd] at hnone
        simp only [] at hnone
        by_cases hk2 : f + j ≥ f + 2
        · rw [if_pos hk2] at hnone
          have hfn : (s.votesOfFrame f (f + j) prev).find? (fun x => (x.2.getD v default).decided) = none := by
            cases hfind : (s.votesOfFrame f (f + j) prev).find? (fun x => (x.2.getD v default).decided) with
            | none => rfl
            | some x => rw [hfind] at hnone; cases hnone
          have hall := (find_decided s f (f + j) prev hv).2 hfn
          have key : ¬ ((netOf s).DecidesYes f j r v ∨ (netOf s).DecidesNo f j r v) := by
            intro h
            have hroot : (netOf s).IsRoot r (f + j) := h.elim (fun h => h.2.1) (fun h => h.2.1)
            have hr := (mem_rootsAt hg.inv).2 hroot
            have := (hcur r v hr hv).2.2.2.1 h
            rw [hall r hr] at this
            cases this
          exact ⟨fun h => key (Or.inl h), fun h => key (Or.inr h)⟩
        · constructor <;> intro h <;> exact absurd h.1 (by omega)

/-- `electionFrom`, started at round `k` with a sound table complete below `k` and the votes of
    round `k - 1`, returns a sound and complete table (enough fuel to pass the highest frame) -/
theorem electionFrom_spec (hg : Good s) (hv : Valid s.nv (histOf s)) (hfa : (netOf s).FramesAccepted)
    (f : Nat) : ∀ (fuel k : Nat) (prev : FrameVotes) (dec : Array (Option Vote)), 1 ≤ k →
      (k = 1 ∨ VotesOK s f (k - 1) prev) → DecSound s f dec → DecComplete s f k dec →
      maxF s < f + k + fuel →
      DecSound s f (s.electionFrom f fuel (f + k) prev dec) ∧
      DecFinal s f (s.electionFrom f fuel (f + k) prev dec) := by
  -- no root at frame `f + k` or beyond: nothing more can be decided
  have stop : ∀ (k : Nat) (dec : Array (Option Vote)), DecComplete s f k dec →
      (∀ j r, k ≤ j → ¬ (netOf s).IsRoot r (f + j)) → DecFinal s f dec := by
    intro k dec hc hno v hv' hnone
    constructor
    · rintro ⟨j, r, hd⟩
      by_cases hjk : j < k
      · exact (hc v hv' hnone j r hjk).1 hd
      · exact hno j r (by omega) hd.2.1
    · rintro ⟨j, r, hd⟩
      by_cases hjk : j < k
      · exact (hc v hv' hnone j r hjk).2 hd
      · exact hno j r (by omega) hd.2.1
  intro fuel
  induction fuel with
  | zero =>
    intro k prev dec hk _ hs hc hmax
    rw [electionFrom_zero]
    refine ⟨hs, stop k dec hc ?_⟩
    intro j r hkj hroot
    have := root_le_maxF s hroot
    omega
  | succ fuel ih =>
    intro k prev dec hk hprev hs hc hmax
    rw [electionFrom_succ]
    by_cases hemp : (s.rootsAt (f + k)).isEmpty = true
    · rw [if_pos hemp]
      refine ⟨hs, stop k dec hc ?_⟩
      intro j r hkj hroot
      obtain ⟨r', hr'⟩ := root_exists_below (netOf s) hv (f + k) (by omega) r hroot.1
        (Nat.le_trans (by omega) hroot.2.2)
      have hm := (mem_rootsAt hg.inv).2 hr'
      rw [List.isEmpty_iff] at hemp
      rw [hemp] at hm
      cases hm
    · rw [if_neg hemp]
      have hcur : VotesOK s f k (s.votesOfFrame f (f + k) prev) := by
        rcases hprev with rfl | hprev
        · exact votesOK_first hg f prev
        · obtain ⟨k', rfl⟩ : ∃ k', k = k' + 1 := ⟨k - 1, by omega⟩
          by_cases hk' : k' = 0
          · subst hk'; exact votesOK_first hg f prev
          · exact votesOK_step hg hfa f k' (by omega) prev hprev
      obtain ⟨hs', hc'⟩ := dec_step hg f k prev dec hcur hs hc
      exact ih (k + 1) _ _ (by omega) (Or.inr hcur) hs' hc' (by omega)

/-- the vote tables that `electionFrom` passes from frame to frame: round 1 from nothing, round
    `k + 1` from round `k` -/
def votesAt (s : Inst) (f : Nat) : Nat → FrameVotes
  | 0 => []
  | k + 1 => s.votesOfFrame f (f + (k + 1)) (votesAt s f k)

/-- every one of them holds the votes of the rules -/
theorem votesAt_ok (hg : Good s) (hfa : (netOf s).FramesAccepted) (f : Nat) :
    ∀ k, 1 ≤ k → VotesOK s f k (votesAt s f k) := by
  intro k
  induction k with
  | zero => intro h; omega
  | succ k ih =>
    intro _
    by_cases hk : k = 0
    · subst hk; exact votesOK_first hg f _
    · exact votesOK_step hg hfa f k (by omega) _ (ih (by omega))

/-! ### the scan over the validators -/

/-- `u` is stored as decided "no" -/
def StoredNo (dec : Array (Option Vote)) (u : Nat) : Prop :=
  ∃ vt, dec.getD u none = some vt ∧ vt.yes = false

/-- the final scan: the first validator `v` not stored as "no" is either undecided (outcome
    "undecided") or stored as "yes" (outcome: its candidate); if there is none, "all no" -/
theorem go_cases (dec : Array (Option Vote)) : ∀ (n a : Nat),
    (∃ v, a ≤ v ∧ v < a + n ∧ (∀ u, a ≤ u → u < v → StoredNo dec u) ∧
      ((dec.getD v none = none ∧ Inst.atroposSpec.go dec (List.range' a n) = .undecided) ∨
       (∃ vt, dec.getD v none = some vt ∧ vt.yes = true ∧
          Inst.atroposSpec.go dec (List.range' a n) = .atropos vt.obs))) ∨
    ((∀ u, a ≤ u → u < a + n → StoredNo dec u) ∧ Inst.atroposSpec.go dec (List.range' a n) = .allNo) := by
  intro n
  induction n with
  | zero =>
    intro a
    exact Or.inr ⟨fun u h1 h2 => by omega, rfl⟩
  | succ n ih =>
    intro a
    rw [List.range'_succ]
    have hgo : Inst.atroposSpec.go dec (a :: List.range' (a + 1) n) =
        match dec.getD a none with
        | none => .undecided
        | some vt => if vt.yes then .atropos vt.obs else Inst.atroposSpec.go dec (List.range' (a + 1) n) := rfl
    rw [hgo]
    cases hd : dec.getD a none with
    | none =>
      exact Or.inl ⟨a, Nat.le_refl _, by omega, fun u h1 h2 => by omega, Or.inl ⟨hd, rfl⟩⟩
    | some vt =>
      by_cases hy : vt.yes = true
      · refine Or.inl ⟨a, Nat.le_refl _, by omega, fun u h1 h2 => by omega, Or.inr ⟨vt, hd, hy, ?_⟩⟩
        simp only [hy, if_true]
      · have hy' : vt.yes = false := by simpa using hy
        simp only [hy', Bool.false_eq_true, if_false]
        have hno : StoredNo dec a := ⟨vt, hd, hy'⟩
        rcases ih (a + 1) with ⟨v, h1, h2, h3, h4⟩ | ⟨h1, h2⟩
        · refine Or.inl ⟨v, by omega, by omega, fun u hu1 hu2 => ?_, h4⟩
          by_cases hua : u = a
          · subst hua; exact hno
          · exact h3 u (by omega) hu2
        · refine Or.inr ⟨fun u hu1 hu2 => ?_, h2⟩
          by_cases hua : u = a
          · subst hua; exact hno
          · exact h1 u (by omega) (by omega)

theorem atroposSpec_eq (s : Inst) (f : Nat) :
    s.atroposSpec f =
      if s.nv == 0 then .undecided
      else Inst.atroposSpec.go (s.electionFrom f (maxF s + 1 - f) (f + 1) [] (Array.replicate s.nv none))
        (List.range s.nv) := rfl

/-- the table computed by `atroposSpec` is sound and complete -/
theorem election_table (hg : Good s) (hv : Valid s.nv (histOf s)) (hfa : (netOf s).FramesAccepted) (f : Nat) :
    DecSound s f (s.electionFrom f (maxF s + 1 - f) (f + 1) [] (Array.replicate s.nv none)) ∧
    DecFinal s f (s.electionFrom f (maxF s + 1 - f) (f + 1) [] (Array.replicate s.nv none)) := by
  apply electionFrom_spec hg hv hfa f (maxF s + 1 - f) 1 [] _ (Nat.le_refl _) (Or.inl rfl)
  · exact ⟨Array.size_replicate, fun v vt _ h => by rw [getD_replicate] at h; cases h⟩
  · intro v _ _ j r hj
    have hj0 : j = 0 := by omega
    subst hj0
    exact ⟨fun h => absurd h.1 (by omega), fun h => absurd h.1 (by omega)⟩
  · omega

/-- the outcome of `atroposSpec f` in terms of the rules: with `v` the first validator (canonical
    order) that is not decided "no": "undecided" if `v` is not decided at all, the candidate of `v` if
    it is decided "yes"; "all no" if there is no such `v` -/
theorem atroposSpec_cases (hg : Good s) (hv : Valid s.nv (histOf s)) (hfa : (netOf s).FramesAccepted)
    (f : Nat) (hnv : 0 < s.nv) :
    (∃ v, v < s.nv ∧ (∀ u, u < v → (netOf s).DecidedNo f u) ∧
      ((¬ (netOf s).DecidedYes f v ∧ ¬ (netOf s).DecidedNo f v ∧ s.atroposSpec f = .undecided) ∨
       (∃ a, (netOf s).DecidedYes f v ∧ ObsOK (netOf s) f v a ∧ s.atroposSpec f = .atropos a))) ∨
    ((∀ u, u < s.nv → (netOf s).DecidedNo f u) ∧ s.atroposSpec f = .allNo) := by
  obtain ⟨⟨_, hsound⟩, hfinal⟩ := election_table hg hv hfa f
  rw [atroposSpec_eq, if_neg (by simpa using (by omega : s.nv ≠ 0)), List.range_eq_range']
  generalize s.electionFrom f (maxF s + 1 - f) (f + 1) [] (Array.replicate s.nv none) = dec at *
  have hno : ∀ u, u < s.nv → StoredNo dec u → (netOf s).DecidedNo f u := by
    rintro u hu ⟨vt, h1, h2⟩
    exact (hsound u vt hu h1).2 h2
  rcases go_cases dec s.nv 0 with ⟨v, _, h2, h3, h4⟩ | ⟨h1, h2⟩
  · have hvlt : v < s.nv := by omega
    refine Or.inl ⟨v, hvlt, fun u hu => hno u (by omega) (h3 u (Nat.zero_le _) hu), ?_⟩
    rcases h4 with ⟨hn, hgo⟩ | ⟨vt, hs, hy, hgo⟩
    · exact Or.inl ⟨(hfinal v hvlt hn).1, (hfinal v hvlt hn).2, hgo⟩
    · obtain ⟨hdy, hobs⟩ := (hsound v vt hvlt hs).1 hy
      exact Or.inr ⟨vt.obs, hdy, hobs, hgo⟩
  · exact Or.inr ⟨fun u hu => hno u hu (h1 u (Nat.zero_le _) (by omega)), h2⟩

theorem atroposSpec_nv_zero (s : Inst) (f : Nat) (h : s.nv = 0) : s.atroposSpec f = .undecided := by
  rw [atroposSpec_eq, if_pos (by simpa using h)]

/-- soundness: a root returned by `atroposSpec f` is the Atropos of frame `f` by the rules -/
theorem atroposSpec_sound (hg : Good s) (hv : Valid s.nv (histOf s)) (hfa : (netOf s).FramesAccepted)
    {f a : Nat} (h : s.atroposSpec f = .atropos a) : (netOf s).IsAtropos f a := by
  by_cases hnv : s.nv = 0
  · rw [atroposSpec_nv_zero s f hnv] at h; cases h
  · rcases atroposSpec_cases hg hv hfa f (by omega) with ⟨v, hvlt, hpre, h1 | ⟨a', hdy, hobs, h1⟩⟩ | ⟨_, h1⟩
    · rw [h1.2.2] at h; cases h
    · rw [h1] at h
      injection h with h
      subst h
      exact ⟨v, hvlt, hdy, hpre, hobs.1, hobs.2.1, hobs.2.2⟩
    · rw [h1] at h; cases h

/-- completeness: with forkers below one third, the Atropos of the rules is what `atroposSpec` returns -/
theorem atroposSpec_complete (hg : Good s) (hv : Valid s.nv (histOf s)) (hfa : (netOf s).FramesAccepted)
    (hbft : (netOf s).BFT) {f a : Nat} (h : (netOf s).IsAtropos f a) : s.atroposSpec f = .atropos a := by
  have hat := h
  obtain ⟨v, hvlt, hdy, hpre, _⟩ := h
  have hvlt' : v < s.nv := hvlt
  have l4 := fun u => ((netOf s).L4_holds hv hfa hbft f u).1
  rcases atroposSpec_cases hg hv hfa f (by omega) with ⟨v₀, hv₀, hpre₀, h1 | ⟨a', hdy₀, hobs, h1⟩⟩ | ⟨hall, _⟩
  · exfalso
    rcases Nat.lt_trichotomy v₀ v with hlt | heq | hgt
    · exact h1.2.1 (hpre v₀ hlt)
    · subst heq; exact h1.1 hdy
    · exact l4 v hdy (hpre₀ v hgt)
  · rcases Nat.lt_trichotomy v₀ v with hlt | heq | hgt
    · exact absurd (hpre v₀ hlt) (l4 v₀ hdy₀)
    · subst heq
      have hat' : (netOf s).IsAtropos f a' := ⟨v₀, hv₀, hdy₀, hpre₀, hobs.1, hobs.2.1, hobs.2.2⟩
      rw [h1, (netOf s).atroposUnique_holds hv hfa hbft f a a' hat hat']
    · exact absurd (hpre₀ v hgt) (l4 v hdy)
  · exact absurd (hall v hvlt') (l4 v hdy)

/-- `atroposSpec f = .atropos a ↔ IsAtropos f a` -/
theorem atroposSpec_iff (hg : Good s) (hv : Valid s.nv (histOf s)) (hfa : (netOf s).FramesAccepted)
    (hbft : (netOf s).BFT) (f a : Nat) : s.atroposSpec f = .atropos a ↔ (netOf s).IsAtropos f a :=
  ⟨atroposSpec_sound hg hv hfa, atroposSpec_complete hg hv hfa hbft⟩

/-- "all no" means that the rules decide every validator "no" … -/
theorem atroposSpec_allNo (hg : Good s) (hv : Valid s.nv (histOf s)) (hfa : (netOf s).FramesAccepted)
    {f : Nat} (h : s.atroposSpec f = .allNo) : ∀ u, u < s.nv → (netOf s).DecidedNo f u := by
  by_cases hnv : s.nv = 0
  · intro u hu; omega
  · rcases atroposSpec_cases hg hv hfa f (by omega) with ⟨v, _, _, h1 | ⟨a', _, _, h1⟩⟩ | ⟨hall, _⟩
    · rw [h1.2.2] at h; cases h
    · rw [h1] at h; cases h
    · exact hall

/-- … which L6 excludes for every frame ≥ 1 -/
theorem atroposSpec_ne_allNo (hg : Good s) (hv : Valid s.nv (histOf s)) (hfa : (netOf s).FramesAccepted)
    (hbft : (netOf s).BFT) {f : Nat} (hf : 1 ≤ f) : s.atroposSpec f ≠ .allNo :=
  fun h => (netOf s).L6_holds hv hfa hbft f hf (atroposSpec_allNo hg hv hfa h)

/-- "undecided": some validator is undecided and all validators before it are decided "no"
    (or there are no validators) -/
theorem atroposSpec_undecided (hg : Good s) (hv : Valid s.nv (histOf s)) (hfa : (netOf s).FramesAccepted)
    {f : Nat} (h : s.atroposSpec f = .undecided) :
    s.nv = 0 ∨ ∃ v, v < s.nv ∧ (∀ u, u < v → (netOf s).DecidedNo f u) ∧
      ¬ (netOf s).DecidedYes f v ∧ ¬ (netOf s).DecidedNo f v := by
  by_cases hnv : s.nv = 0
  · exact Or.inl hnv
  · rcases atroposSpec_cases hg hv hfa f (by omega) with ⟨v, hvlt, hpre, h1 | ⟨a', _, _, h1⟩⟩ | ⟨_, h1⟩
    · exact Or.inr ⟨v, hvlt, hpre, h1.1, h1.2.1⟩
    · rw [h1] at h; cases h
    · rw [h1] at h; cases h

/-- hence, for `f ≥ 1` under BFT: `atroposSpec f` is "undecided" exactly when frame `f` has no Atropos -/
theorem atroposSpec_undecided_iff (hg : Good s) (hv : Valid s.nv (histOf s)) (hfa : (netOf s).FramesAccepted)
    (hbft : (netOf s).BFT) {f : Nat} (hf : 1 ≤ f) :
    s.atroposSpec f = .undecided ↔ ∀ a, ¬ (netOf s).IsAtropos f a := by
  constructor
  · intro h a ha
    rw [atroposSpec_complete hg hv hfa hbft ha] at h
    cases h
  · intro h
    cases hc : s.atroposSpec f with
    | undecided => rfl
    | atropos a => exact absurd (atroposSpec_sound hg hv hfa hc) (h a)
    | allNo => exact absurd hc (atroposSpec_ne_allNo hg hv hfa hbft hf)

end election
end RefEquiv
