import LachesisVerif.Proofs.OrdererEpochs2
/-!
Several epochs, part 3: `process` and whole epochs. `runEpoch` processes the events of one epoch and
stops at the first `Process` call that emits a sealed frame; the events that would follow (events of
the old epoch arriving after the seal) are returned as `skipped` and not submitted.
-/
namespace OrdererEpochs
open Model.Pos Model.Election Model.Orderer ElectionProofs ElectionRefine OrdererSeal OrdererRestart OrdererProofs
open ElectionRules VecProofs

/-- `Process` with a sealing application, from the run without -/
theorem process_sim (env : Env) (ep : Nat) (s : OState) (id c spf fr : Nat) (s' : OState) (ds : List Decided)
    (hep : s.epoch = ep) (h : process (noSeal env) s id c spf fr = (s', .ok ds)) :
    process env s id c spf fr =
      match cut env.sealAt ep ds with
      | none => (s', .ok ds)
      | some (l, nv) => (initial (Gen.Orderer.sealedEpoch ep) nv, .ok l) := by
  rw [process_eq] at h ⊢
  rw [insRoots_noSeal] at h
  have hq : quorumOn (noSeal env) s id = quorumOn env s id := rfl
  rw [hq] at h
  by_cases hacc : (!frameAccepted (quorumOn env s id) spf fr) = true
  · rw [if_pos hacc] at h; cases h
  · rw [if_neg hacc] at h ⊢
    cases hh : handleElection (noSeal env) id c fr (fr + 1) (Gen.Orderer.electionFirstFrame spf)
        { s with roots := insRoots env id c (rootFrames spf fr) s.roots } [] with
    | error x => rw [hh] at h; cases h
    | ok q =>
      obtain ⟨a, o⟩ := q
      rw [hh] at h
      cases h
      rw [handle_sim env ep id c fr _ _ _ _ _ _ (by exact hep) rfl hh]
      cases cut env.sealAt ep ds with
      | none => rfl
      | some q => rfl

/-- without a sealing application every decided frame is unsealed and of the current epoch -/
theorem process_noSeal_unsealed (env : Env) (s : OState) (id c spf fr : Nat) (s' : OState) (ds : List Decided)
    (h : process (noSeal env) s id c spf fr = (s', .ok ds)) :
    (∀ d ∈ ds, d.sealed = false ∧ d.epoch = s.epoch) ∧ s'.epoch = s.epoch := by
  have sp := OrdererSeal.process_spec (noSeal env) s id c spf fr s' ds h
  have hun : ∀ d ∈ ds, d.sealed = false := by
    rcases List.eq_nil_or_concat ds with rfl | ⟨l, d, hds⟩
    · intro d hd; cases hd
    · rw [List.concat_eq_append] at hds
      subst hds
      intro x hx
      rcases List.mem_append.1 hx with hx | hx
      · exact sp.only_last_sealed x (by rw [List.dropLast_concat]; exact hx)
      · simp only [List.mem_singleton] at hx
        subst hx
        cases hsd : x.sealed with
        | false => rfl
        | true =>
          obtain ⟨nv, hnv, _⟩ := sp.sealed_state x (List.getLast?_concat ..) hsd
          simp [noSeal] at hnv
  exact ⟨fun d hd => ⟨hun d hd, sp.old_epoch d hd⟩, (sp.unsealed_state hun).1⟩

/-- the events of one epoch: stop at the call that seals, skip what would follow -/
def runEpoch (N : Net) (env : Env) : List Nat → OState → List Decided → Option (OState × List Decided × List Nat)
  | [], s, out => some (s, out, [])
  | id :: rest, s, out =>
    match process env s id (N.creator id) (N.spf id) (N.fr id) with
    | (s', .ok ds) => if ds.any (·.sealed) then some (s', out ++ ds, rest) else runEpoch N env rest s' (out ++ ds)
    | _ => none

theorem runIds_out (N : Net) (env : Env) (ids : List Nat) : ∀ (s : OState) (out : List Decided) (s' : OState)
    (out' : List Decided), runIds N env ids s out = some (s', out') → ∃ more, out' = out ++ more := by
  induction ids with
  | nil => intro s out s' out' h; simp only [runIds] at h; cases h; exact ⟨[], by simp⟩
  | cons id rest ih =>
    intro s out s' out' h
    simp only [runIds] at h
    split at h
    · rename_i s1 ds1 hp
      obtain ⟨more, hm⟩ := ih _ _ _ _ h
      exact ⟨ds1 ++ more, by rw [hm, List.append_assoc]⟩
    · cases h

/-- the plain model run on the list without the skipped events: "no event of an old epoch is
    submitted after the seal" as a property of the input list -/
theorem runEpoch_prefix (N : Net) (env : Env) (ids : List Nat) : ∀ (s : OState) (out : List Decided) (s' : OState)
    (out' : List Decided) (skipped : List Nat), runEpoch N env ids s out = some (s', out', skipped) →
    ∃ used, ids = used ++ skipped ∧ runIds N env used s out = some (s', out') := by
  induction ids with
  | nil => intro s out s' out' sk h; simp only [runEpoch] at h; cases h; exact ⟨[], rfl, rfl⟩
  | cons id rest ih =>
    intro s out s' out' sk h
    simp only [runEpoch] at h
    split at h
    · rename_i s1 ds hp
      split at h
      · cases h
        exact ⟨[id], rfl, by simp only [runIds, hp]⟩
      · obtain ⟨used, hu, hr⟩ := ih _ _ _ _ _ h
        exact ⟨id :: used, by rw [hu]; rfl, by simp only [runIds, hp]; exact hr⟩
    · cases h

/-- one epoch with a sealing application, from the run without -/
theorem runEpoch_sim (N : Net) (env : Env) (ep : Nat) (ids : List Nat) : ∀ (s : OState) (out : List Decided)
    (s' : OState) (out' : List Decided), s.epoch = ep → cut env.sealAt ep out = none →
    runIds N (noSeal env) ids s out = some (s', out') →
    (cut env.sealAt ep out' = none ∧ runEpoch N env ids s out = some (s', out', []) ∧ s'.epoch = ep) ∨
    (∃ l nv skipped, cut env.sealAt ep out' = some (l, nv) ∧
      runEpoch N env ids s out = some (initial (Gen.Orderer.sealedEpoch ep) nv, l, skipped)) := by
  induction ids with
  | nil =>
    intro s out s' out' hep hcut h
    simp only [runIds] at h
    cases h
    exact Or.inl ⟨hcut, rfl, hep⟩
  | cons id rest ih =>
    intro s out s' out' hep hcut h
    simp only [runIds] at h
    split at h
    · rename_i s1 ds1 hp
      obtain ⟨hun, he1⟩ := process_noSeal_unsealed env s id _ _ _ s1 ds1 hp
      have hps := process_sim env ep s id _ _ _ s1 ds1 hep hp
      cases hc1 : cut env.sealAt ep ds1 with
      | none =>
        rw [hc1] at hps
        have hany : ds1.any (·.sealed) = false := by
          rw [List.any_eq_false]; intro d hd; rw [(hun d hd).1]; decide
        have hcut1 : cut env.sealAt ep (out ++ ds1) = none := by
          rw [cut_append_none _ _ _ _ hcut, hc1]; rfl
        have := ih s1 (out ++ ds1) s' out' (he1.trans hep) hcut1 h
        simp only [runEpoch, hps, hany, Bool.false_eq_true, if_false]
        exact this
      | some q =>
        obtain ⟨l, nv⟩ := q
        rw [hc1] at hps
        obtain ⟨hany, _⟩ := cut_some _ _ _ _ _ hc1
        obtain ⟨more, hm⟩ := runIds_out N (noSeal env) rest _ _ _ _ h
        refine Or.inr ⟨out ++ l, nv, rest, ?_, ?_⟩
        · rw [hm]
          apply cut_append_some
          rw [cut_append_none _ _ _ _ hcut, hc1]; rfl
        · simp only [runEpoch, hps, hany, if_true]
    · cases h

end OrdererEpochs
