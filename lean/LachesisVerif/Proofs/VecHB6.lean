import LachesisVerif.Proofs.VecHB5
/-!
`detectForks`, part 2: soundness, uniformity (all branches of a creator carry the marker or none
does) and completeness of the two loops, against abstract `F` (fork seen) and `Obs`.
-/
namespace VecProofs
open Model.Vec Model.Vec.VState

/-- the abstract facts about branches the loops rely on -/
structure LoopCtx (s : VState) (F : Nat → Prop) (Obs : Nat → Nat → Prop) : Prop where
  nBr_lt : s.nBr < 4294967296
  nVals_le : s.nVals ≤ s.nBr
  primary : ∀ c, c < s.nVals → s.creatorOf c = c
  creator_lt : ∀ b, b < s.nBr → s.creatorOf b < s.nVals
  /-- overlapping observed intervals of two branches of one creator are a fork -/
  ov_sound : ∀ a b, a ≠ b → a < s.nBr → b < s.nBr → s.creatorOf a = s.creatorOf b →
    ∀ x y, Rep (Obs a) x → Rep (Obs b) y → x.seq ≠ 0 → y.seq ≠ 0 →
      x.minSeq ≤ y.seq → y.minSeq ≤ x.seq → F (s.creatorOf a)
  /-- a fork shows as a common observed seq on two branches -/
  ov_complete : ∀ c, F c → ∃ a b k, a ≠ b ∧ a < s.nBr ∧ b < s.nBr ∧ s.creatorOf a = c ∧
    s.creatorOf b = c ∧ Obs a k ∧ Obs b k

def SoundV (s : VState) (F : Nat → Prop) (v : HBV) : Prop :=
  ∀ b, (v.get b).isFork = true → b < s.nBr ∧ F (s.creatorOf b)
def RepV (Obs : Nat → Nat → Prop) (v : HBV) : Prop :=
  ∀ b, (v.get b).isFork = false → Rep (Obs b) (v.get b)
def Uniform (s : VState) (v : HBV) : Prop :=
  ∀ b b', b < s.nBr → b' < s.nBr → s.creatorOf b = s.creatorOf b' →
    (v.get b).isFork = true → (v.get b').isFork = true

theorem RepV.le {Obs : Nat → Nat → Prop} {v v' : HBV} (h : RepV Obs v) (hle : Le v v') : RepV Obs v' := by
  intro b hb
  have := hle.eq_of_not_fork hb
  rw [this] at hb ⊢
  exact h b hb

theorem set_sound {s : VState} {F : Nat → Prop} {v : HBV} {c : Nat} (hs : SoundV s F v) (hc : F c) :
    SoundV s F (s.setForkDetected v c) := by
  intro b hb
  rw [setForkDetected_get] at hb
  split at hb
  · rename_i h; exact ⟨h.1, by rw [h.2]; exact hc⟩
  · exact hs b hb

theorem body1_sound {s : VState} {F : Nat → Prop} {v : HBV} (c : Nat) (hs : SoundV s F v) :
    SoundV s F (loop1Body s v c) := by
  unfold loop1Body
  simp only
  split
  · exact hs
  · split
    · rename_i hany
      obtain ⟨b, hb, hf⟩ := List.any_eq_true.1 hany
      have := (mem_branchesOf s c b).1 hb
      have hF := (hs b hf).2
      rw [this.2] at hF
      exact set_sound hs hF
    · exact hs

theorem body2_sound {s : VState} {F : Nat → Prop} {Obs : Nat → Nat → Prop} (C : LoopCtx s F Obs)
    {v : HBV} (c : Nat) (hs : SoundV s F v) (hr : RepV Obs v) : SoundV s F (loop2Body s v c) := by
  unfold loop2Body
  simp only
  split
  · exact hs
  · split
    · rename_i hany
      obtain ⟨a, ha, hany2⟩ := List.any_eq_true.1 hany
      obtain ⟨b, hb, hov⟩ := List.any_eq_true.1 hany2
      have ha' := (mem_branchesOf s c a).1 ha
      have hb' := (mem_branchesOf s c b).1 hb
      obtain ⟨hab, hea, heb, h1, h2⟩ := (overlap_iff v a b).1 hov
      apply set_sound hs
      cases hfa : (v.get a).isFork with
      | true => have := (hs a hfa).2; rw [ha'.2] at this; exact this
      | false =>
        cases hfb : (v.get b).isFork with
        | true => have := (hs b hfb).2; rw [hb'.2] at this; exact this
        | false =>
          rw [hfa] at hea; rw [hfb] at heb
          have := C.ov_sound a b hab ha'.1 hb'.1 (by rw [ha'.2, hb'.2]) _ _ (hr a hfa) (hr b hfb)
            (by simpa using hea) (by simpa using heb) h1 h2
          rw [ha'.2] at this; exact this
    · exact hs

theorem foldl_sound {s : VState} {F : Nat → Prop} {Obs : Nat → Nat → Prop} (f : HBV → Nat → HBV)
    (hle : ∀ v c, Le v (f v c))
    (hf : ∀ v c, SoundV s F v → RepV Obs v → SoundV s F (f v c)) (cs : List Nat) (v : HBV)
    (hs : SoundV s F v) (hr : RepV Obs v) : SoundV s F (cs.foldl f v) := by
  induction cs generalizing v with
  | nil => exact hs
  | cons c cs ih => exact ih _ (hf v c hs hr) (hr.le (hle v c))

/-! ### uniformity -/

theorem set_uniform {s : VState} {v : HBV} (c : Nat) (hu : Uniform s v) :
    Uniform s (s.setForkDetected v c) := by
  intro b b' hb hb' hcc hf
  rw [setForkDetected_get] at hf ⊢
  by_cases h : s.creatorOf b = c
  · rw [if_pos ⟨hb', by rw [← hcc]; exact h⟩]; exact isFork_marker
  · rw [if_neg (fun x => h x.2)] at hf
    rw [if_neg (fun x => h (by rw [hcc]; exact x.2))]
    exact hu b b' hb hb' hcc hf

theorem body2_uniform {s : VState} {v : HBV} (c : Nat) (hu : Uniform s v) :
    Uniform s (loop2Body s v c) := by
  unfold loop2Body
  simp only
  split
  · exact hu
  · split
    · exact set_uniform c hu
    · exact hu

/-- right after its own iteration of loop 1 the branches of `c` are uniform -/
theorem body1_uniform_at (s : VState) (v : HBV) (c b b' : Nat)
    (hb : b < s.nBr ∧ s.creatorOf b = c) (hb' : b' < s.nBr ∧ s.creatorOf b' = c)
    (hf : ((loop1Body s v c).get b).isFork = true) : ((loop1Body s v c).get b').isFork = true := by
  unfold loop1Body at hf ⊢
  simp only at hf ⊢
  split
  · rename_i hsingle
    rw [if_pos hsingle] at hf
    have hl : (s.branchesOf c).length ≤ 1 := by simpa [Gen.Vec.singleBranch] using hsingle
    have := eq_of_mem_short hl ((mem_branchesOf s c b).2 hb) ((mem_branchesOf s c b').2 hb')
    rw [← this]; exact hf
  · rename_i hsingle
    rw [if_neg hsingle] at hf
    split
    · rw [setForkDetected_get, if_pos hb']; exact isFork_marker
    · rename_i hany
      rw [if_neg hany] at hf
      exact absurd (List.any_eq_true.2 ⟨b, (mem_branchesOf s c b).2 hb, hf⟩) hany

theorem loop1_uniform_on (s : VState) (cs : List Nat) (hnd : cs.Nodup) (v : HBV) (c : Nat) (hc : c ∈ cs)
    (b b' : Nat) (hb : b < s.nBr ∧ s.creatorOf b = c) (hb' : b' < s.nBr ∧ s.creatorOf b' = c)
    (hf : ((cs.foldl (loop1Body s) v).get b).isFork = true) :
    ((cs.foldl (loop1Body s) v).get b').isFork = true := by
  induction cs generalizing v with
  | nil => simp at hc
  | cons c0 cs ih =>
    simp only [List.foldl_cons] at hf ⊢
    have hnd' := List.nodup_cons.1 hnd
    by_cases hcc : c ∈ cs
    · exact ih hnd'.2 _ hcc hf
    · have hc0 : c = c0 := by
        rcases List.mem_cons.1 hc with h | h
        · exact h
        · exact absurd h hcc
      subst hc0
      rw [foldl_other s _ (body1_other s) cs _ b (by rw [hb.2]; exact hcc)] at hf
      rw [foldl_other s _ (body1_other s) cs _ b' (by rw [hb'.2]; exact hcc)]
      exact body1_uniform_at s v c b b' hb hb' hf

theorem loop1_uniform {s : VState} (hcl : ∀ b, b < s.nBr → s.creatorOf b < s.nVals) (v : HBV) :
    Uniform s ((List.range s.nVals).foldl (loop1Body s) v) := by
  intro b b' hb hb' hcc hf
  exact loop1_uniform_on s _ List.nodup_range v (s.creatorOf b) (List.mem_range.2 (hcl b hb)) b b'
    ⟨hb, rfl⟩ ⟨hb', hcc.symm⟩ hf

end VecProofs
