import LachesisVerif.Model.Orderer
import LachesisVerif.Proofs.ElectionInv
/-!
Helper lemmas for C09 (implementation level) and C08: what the driving loops of `Model.Orderer`
(`knownRootsFrame`, `processKnownRoots`, `bootstrapElection`, `handleElection`) do to the frame to
decide, the epoch, the validators and the list of decided frames. Unconditional (no assumption on
the oracles `observe` / `sealAt` / `idKey`).
-/
namespace OrdererSeal
open Model.Pos Model.Election Model.Orderer ElectionProofs

/-! ### the election keeps its frame and validators until `reset` -/

theorem voteLoop_ftd (el : Election) (nr : Root) (round : Nat) (om : List (Nat × Root)) (obs : List Root)
    (subs : List Nat) (e e' : Election) (h : voteLoop el nr round om obs subs e = .ok e') :
    e'.frameToDecide = e.frameToDecide ∧ e'.vals = e.vals := by
  induction subs generalizing e with
  | nil => simp only [voteLoop] at h; cases h; exact ⟨rfl, rfl⟩
  | cons s rest ih =>
    by_cases hf : Gen.Election.firstRound round = true
    · rw [voteLoop_cons_first _ _ _ _ _ _ _ _ hf] at h
      have := ih _ h
      rw [pushVote_ftd, pushVote_vals] at this; exact this
    · have hf' : Gen.Election.firstRound round = false := by simpa using hf
      rw [voteLoop_cons_later _ _ _ _ _ _ _ _ hf'] at h
      split at h
      · cases h
      · split at h
        · cases h
        · have := ih _ h
          rw [pushVote_ftd, pushVote_vals] at this; exact this

theorem chooseAtropos_frame (el : Election) (f a : Nat) (h : chooseAtropos el = .ok (some (f, a))) :
    f = el.frameToDecide := by
  unfold chooseAtropos at h
  generalize el.vals.sorted = l at h
  induction l with
  | nil => simp [chooseAtroposFrom] at h
  | cons x xs ih =>
    obtain ⟨vid, w⟩ := x
    simp only [chooseAtroposFrom] at h
    split at h
    · cases h
    · split at h
      · simp at h; exact h.1.symm
      · exact ih h

/-- a successful `processRoot` keeps frame to decide and validators; a returned frame is the frame
    to decide -/
theorem processRoot_ftd (observe : Nat → Nat → Bool) (fr : Nat → List Root) (el : Election) (nr : Root)
    (el' : Election) (res : Option (Nat × Nat)) (h : processRoot observe fr el nr = .ok (el', res)) :
    el'.frameToDecide = el.frameToDecide ∧ el'.vals = el.vals ∧
    ∀ f a, res = some (f, a) → f = el.frameToDecide := by
  rcases processRoot_cases _ _ _ _ _ _ h with ⟨rfl, r, hc, rfl⟩ | ⟨rfl, _, rfl, _⟩ | ⟨_, _, _, hvl, hc⟩
  · refine ⟨rfl, rfl, fun f a hr => ?_⟩
    cases hr; exact chooseAtropos_frame _ _ _ hc
  · exact ⟨rfl, rfl, fun f a hr => by cases hr⟩
  · have := voteLoop_ftd _ _ _ _ _ _ _ _ hvl
    refine ⟨this.1, this.2, fun f a hr => ?_⟩
    subst hr
    rw [← this.1]; exact chooseAtropos_frame _ _ _ hc

theorem knownRootsFrame_ftd (env : Env) (s : OState) (rs : List Root) (el el' : Election)
    (res : Option (Nat × Nat)) (h : knownRootsFrame env s rs el = .ok (el', res)) :
    el'.frameToDecide = el.frameToDecide ∧ el'.vals = el.vals ∧
    ∀ f a, res = some (f, a) → f = el.frameToDecide := by
  induction rs generalizing el with
  | nil => simp only [knownRootsFrame] at h; cases h; exact ⟨rfl, rfl, fun f a hr => by cases hr⟩
  | cons r rest ih =>
    simp only [knownRootsFrame] at h
    cases hp : processRoot env.observe (frameRoots s) el r with
    | error x => rw [hp] at h; cases h
    | ok p =>
      obtain ⟨e1, r1⟩ := p
      rw [hp] at h
      have h1 := processRoot_ftd _ _ _ _ _ _ hp
      cases r1 with
      | some q => simp only at h; cases h; exact h1
      | none =>
        simp only at h
        have h2 := ih _ h
        exact ⟨h2.1.trans h1.1, h2.2.1.trans h1.2.1, fun f a hr => (h2.2.2 f a hr).trans h1.1⟩

theorem processKnownRoots_ftd (env : Env) (s : OState) (fuel f : Nat) (el el' : Election)
    (res : Option (Nat × Nat)) (h : processKnownRoots env s fuel f el = .ok (el', res)) :
    el'.frameToDecide = el.frameToDecide ∧ el'.vals = el.vals ∧
    ∀ f a, res = some (f, a) → f = el.frameToDecide := by
  induction fuel generalizing f el with
  | zero => simp only [processKnownRoots] at h; cases h; exact ⟨rfl, rfl, fun f a hr => by cases hr⟩
  | succ k ih =>
    simp only [processKnownRoots] at h
    cases hp : knownRootsFrame env s (frameRoots s f) el with
    | error x => rw [hp] at h; cases h
    | ok p =>
      obtain ⟨e1, r1⟩ := p
      rw [hp] at h
      have h1 := knownRootsFrame_ftd _ _ _ _ _ _ hp
      cases r1 with
      | some q => simp only at h; cases h; exact h1
      | none =>
        simp only at h
        split at h
        · cases h; exact h1
        · have h2 := ih _ _ h
          exact ⟨h2.1.trans h1.1, h2.2.1.trans h1.2.1, fun f a hr => (h2.2.2 f a hr).trans h1.1⟩

/-! ### `onFrameDecided` -/

/-- the two outcomes of `onFrameDecided`: a seal produces literally `initial (epoch+1) nv` -/
theorem onFrameDecided_cases (env : Env) (s : OState) (frame atropos : Nat) :
    (∃ nv, env.sealAt s.epoch frame = some nv ∧
      onFrameDecided env s frame atropos =
        (initial (Gen.Orderer.sealedEpoch s.epoch) nv, ⟨s.epoch, frame, atropos, true⟩)) ∨
    (env.sealAt s.epoch frame = none ∧
      onFrameDecided env s frame atropos =
        ({ s with ldf := Gen.Orderer.nextLastDecided frame,
                  el := reset s.vals (Gen.Orderer.nextFrameToDecide frame) },
         ⟨s.epoch, frame, atropos, false⟩)) := by
  unfold onFrameDecided
  cases h : env.sealAt s.epoch frame with
  | some nv => exact Or.inl ⟨nv, rfl, rfl⟩
  | none => exact Or.inr ⟨rfl, rfl⟩

/-! ### the decided frames of one call -/

/-- the `n`-th frame after `f` in the arithmetic of `onFrameDecided` (`frame + 1` on `idx.Frame`) -/
def frameAfter (f : Nat) : Nat → Nat
  | 0 => f
  | n + 1 => Gen.Orderer.nextFrameToDecide (frameAfter f n)

theorem frameAfter_eq (f n : Nat) (h : f + n < 4294967296) : frameAfter f n = f + n := by
  induction n with
  | zero => rfl
  | succ k ih =>
    simp only [frameAfter, Gen.Orderer.nextFrameToDecide]
    rw [ih (by omega)]
    exact Nat.mod_eq_of_lt (by omega)

/-- nothing sealed so far: `out` holds unsealed decisions of epoch `E` (validators `V`) for the frames
    `F, F+1, …`, and the state is still in that epoch, waiting for the next frame -/
structure Open (E : Nat) (V : Vals) (F : Nat) (out : List Decided) (s : OState) : Prop where
  unsealed : ∀ d ∈ out, d.sealed = false ∧ d.epoch = E
  frames : out.map (·.frame) = (List.range out.length).map (frameAfter F)
  epoch : s.epoch = E
  vals : s.vals = V
  ftd : s.el.frameToDecide = frameAfter F out.length

/-- the last entry of `out` sealed epoch `E`: everything before it is as in `Open`, and the state is
    exactly the fresh state of the next epoch with the validators returned by the application -/
structure Sealed (env : Env) (E : Nat) (F : Nat) (out : List Decided) (s : OState) : Prop where
  ex : ∃ out1 d nv, out = out1 ++ [d] ∧ (∀ x ∈ out1, x.sealed = false ∧ x.epoch = E) ∧
        d.sealed = true ∧ d.epoch = E ∧ env.sealAt E d.frame = some nv ∧
        s = initial (Gen.Orderer.sealedEpoch E) nv
  frames : out.map (·.frame) = (List.range out.length).map (frameAfter F)

theorem Open.with_el {E V F out s} (h : Open E V F out s) (el' : Election)
    (hf : el'.frameToDecide = s.el.frameToDecide) : Open E V F out { s with el := el' } :=
  ⟨h.unsealed, h.frames, h.epoch, h.vals, hf.trans h.ftd⟩

theorem frames_snoc (F : Nat) (out : List Decided) (d : Decided)
    (h : out.map (·.frame) = (List.range out.length).map (frameAfter F)) (hd : d.frame = frameAfter F out.length) :
    (out ++ [d]).map (·.frame) = (List.range (out ++ [d]).length).map (frameAfter F) := by
  rw [List.map_append, List.length_append, List.length_singleton, List.range_succ, List.map_append, h]
  simp only [List.map_cons, List.map_nil, hd]

/-- one `onFrameDecided` in an `Open` situation, for the frame the election was deciding -/
theorem onFrameDecided_step (env : Env) {E V F out s} (h : Open E V F out s) (frame atropos : Nat)
    (hfr : frame = s.el.frameToDecide) :
    ((onFrameDecided env s frame atropos).2.sealed = true ∧
      Sealed env E F (out ++ [(onFrameDecided env s frame atropos).2]) (onFrameDecided env s frame atropos).1) ∨
    ((onFrameDecided env s frame atropos).2.sealed = false ∧
      (onFrameDecided env s frame atropos).1.roots = s.roots ∧
      Open E V F (out ++ [(onFrameDecided env s frame atropos).2]) (onFrameDecided env s frame atropos).1) := by
  have hfr' : frame = frameAfter F out.length := hfr.trans h.ftd
  rcases onFrameDecided_cases env s frame atropos with ⟨nv, hs, he⟩ | ⟨hs, he⟩
  · left
    rw [he]
    refine ⟨rfl, ⟨⟨out, _, nv, rfl, h.unsealed, rfl, h.epoch, ?_, ?_⟩, frames_snoc F out _ h.frames hfr'⟩⟩
    · rw [← h.epoch]; exact hs
    · rw [← h.epoch]
  · right
    rw [he]
    refine ⟨rfl, rfl, ⟨?_, frames_snoc F out _ h.frames hfr', h.epoch, h.vals, ?_⟩⟩
    · intro d hd
      rcases List.mem_append.1 hd with hd | hd
      · exact h.unsealed d hd
      · simp only [List.mem_singleton] at hd; subst hd; exact ⟨rfl, h.epoch⟩
    · simp only [reset, List.length_append, List.length_singleton, frameAfter, hfr']


theorem bootstrapElection_spec (env : Env) (fuel : Nat) (s : OState) (out : List Decided)
    (s' : OState) (out' : List Decided) (flag : Bool) {E V F} (h : Open E V F out s)
    (hr : bootstrapElection env fuel s out = .ok (s', out', flag)) :
    (flag = false ∧ Open E V F out' s') ∨ (flag = true ∧ Sealed env E F out' s') := by
  induction fuel generalizing s out with
  | zero => simp only [bootstrapElection] at hr; cases hr; exact Or.inl ⟨rfl, h⟩
  | succ k ih =>
    simp only [bootstrapElection] at hr
    cases hp : processKnownRoots env s (s.roots.length + 2) (Gen.Orderer.knownRootsFirstFrame s.ldf) s.el with
    | error x => rw [hp] at hr; cases hr
    | ok p =>
      obtain ⟨el', r⟩ := p
      rw [hp] at hr
      have h1 := processKnownRoots_ftd _ _ _ _ _ _ _ hp
      cases r with
      | none => simp only at hr; cases hr; exact Or.inl ⟨rfl, h.with_el el' h1.1⟩
      | some q =>
        obtain ⟨frame, atropos⟩ := q
        simp only at hr
        have hfr : frame = ({ s with el := el' } : OState).el.frameToDecide := (h1.2.2 _ _ rfl).trans h1.1.symm
        rcases onFrameDecided_step env (h.with_el el' h1.1) frame atropos hfr with ⟨hs, hS⟩ | ⟨hs, _, hO⟩
        · rw [if_pos hs] at hr; cases hr; exact Or.inr ⟨rfl, hS⟩
        · rw [if_neg (by simp [hs])] at hr
          exact ih _ _ hO hr

theorem handleElection_spec (env : Env) (id creator frame : Nat) (fuel f : Nat) (s : OState) (out : List Decided)
    (s' : OState) (out' : List Decided) {E V F} (h : Open E V F out s)
    (hr : handleElection env id creator frame fuel f s out = .ok (s', out')) :
    Open E V F out' s' ∨ Sealed env E F out' s' := by
  induction fuel generalizing f s out with
  | zero => simp only [handleElection] at hr; cases hr; exact Or.inl h
  | succ k ih =>
    simp only [handleElection] at hr
    split at hr
    · cases hr; exact Or.inl h
    · cases hp : processRoot env.observe (frameRoots s) s.el ⟨id, f, creator⟩ with
      | error x => rw [hp] at hr; cases hr
      | ok p =>
        obtain ⟨el', r⟩ := p
        rw [hp] at hr
        have h1 := processRoot_ftd _ _ _ _ _ _ hp
        cases r with
        | none => simp only at hr; exact ih _ _ _ (h.with_el el' h1.1) hr
        | some q =>
          obtain ⟨df, atropos⟩ := q
          simp only at hr
          have hfr : df = ({ s with el := el' } : OState).el.frameToDecide := (h1.2.2 _ _ rfl).trans h1.1.symm
          rcases onFrameDecided_step env (h.with_el el' h1.1) df atropos hfr with ⟨hs, hS⟩ | ⟨hs, _, hO⟩
          · rw [if_pos hs] at hr; cases hr; exact Or.inr hS
          · rw [if_neg (by simp [hs])] at hr
            split at hr
            · cases hr
            · rename_i s2 out2 sealed hb
              rcases bootstrapElection_spec env _ _ _ _ _ _ hO hb with ⟨hfl, hO2⟩ | ⟨hfl, hS2⟩
              · subst hfl
                simp only [Bool.false_eq_true, if_false] at hr
                exact ih _ _ _ hO2 hr
              · subst hfl
                simp only [if_true] at hr
                cases hr; exact Or.inr hS2

/-! ### what a caller sees -/

/-- summary of one call that started in state `s` (frame to decide `F`), returned the decided frames
    `out` and ended in `s'` -/
structure CallSpec (env : Env) (s : OState) (F : Nat) (out : List Decided) (s' : OState) : Prop where
  old_epoch : ∀ d ∈ out, d.epoch = s.epoch
  only_last_sealed : ∀ d ∈ out.dropLast, d.sealed = false
  sealed_state : ∀ d, out.getLast? = some d → d.sealed = true →
    ∃ nv, env.sealAt s.epoch d.frame = some nv ∧ s' = initial (Gen.Orderer.sealedEpoch s.epoch) nv
  unsealed_state : (∀ d ∈ out, d.sealed = false) →
    s'.epoch = s.epoch ∧ s'.vals = s.vals ∧ s'.el.frameToDecide = frameAfter F out.length
  frames : out.map (·.frame) = (List.range out.length).map (frameAfter F)

theorem callSpec_of (env : Env) (s : OState) (F : Nat) (out : List Decided) (s' : OState)
    (h : Open s.epoch s.vals F out s' ∨ Sealed env s.epoch F out s') : CallSpec env s F out s' := by
  rcases h with h | h
  · refine ⟨fun d hd => (h.unsealed d hd).2, fun d hd => (h.unsealed d (List.dropLast_subset _ hd)).1, ?_,
      fun _ => ⟨h.epoch, h.vals, h.ftd⟩, h.frames⟩
    intro d hl hs
    rw [(h.unsealed d (List.mem_of_getLast? hl)).1] at hs; cases hs
  · obtain ⟨out1, d, nv, rfl, h1, hds, hde, hseal, hs'⟩ := h.ex
    refine ⟨?_, ?_, ?_, ?_, h.frames⟩
    · intro x hx
      rcases List.mem_append.1 hx with hx | hx
      · exact (h1 x hx).2
      · simp only [List.mem_singleton] at hx; subst hx; exact hde
    · intro x hx
      rw [List.dropLast_concat] at hx
      exact (h1 x hx).1
    · intro x hx _
      rw [List.getLast?_concat] at hx
      cases hx
      exact ⟨nv, hseal, hs'⟩
    · intro hall
      have := hall d (List.mem_append_right _ List.mem_cons_self)
      rw [hds] at this; cases this

/-- the `i`-th decided frame of a call -/
theorem CallSpec.frame_at {env s F out s'} (h : CallSpec env s F out s') (i : Nat) (hi : i < out.length) :
    out[i].frame = frameAfter F i := by
  have := congrArg (fun l => l[i]?) h.frames
  simpa [hi] using this

theorem insertRoots_fields (env : Env) (id creator : Nat) (fs : List Nat) (s : OState) :
    let s1 := fs.foldl (fun s f => { s with roots := insertRoot env ⟨id, f, creator⟩ s.roots }) s
    s1.epoch = s.epoch ∧ s1.vals = s.vals ∧ s1.ldf = s.ldf ∧ s1.el = s.el := by
  induction fs generalizing s with
  | nil => exact ⟨rfl, rfl, rfl, rfl⟩
  | cons f rest ih => exact ih _

theorem process_spec (env : Env) (s : OState) (id creator spf claimed : Nat) (s' : OState) (out : List Decided)
    (h : process env s id creator spf claimed = (s', .ok out)) :
    CallSpec env s s.el.frameToDecide out s' := by
  unfold process at h
  split at h
  · cases h
  · simp only at h
    split at h
    · cases h
    · rename_i s2 out2 hh
      cases h
      have hf := insertRoots_fields env id creator (rootFrames spf claimed) s
      obtain ⟨h1, h2, _, h4⟩ := hf
      apply callSpec_of
      refine handleElection_spec env _ _ _ _ _ _ _ _ _ ?_ hh
      exact ⟨fun d hd => (by cases hd), rfl, h1, h2, (by rw [h4]; rfl)⟩

theorem bootstrap_spec (env : Env) (s : OState) (s' : OState) (out : List Decided) (flag : Bool)
    (h : bootstrap env s = .ok (s', out, flag)) :
    CallSpec env s (Gen.Orderer.bootstrapFrameToDecide s.ldf) out s' ∧
    (flag = true ↔ ∃ d, out.getLast? = some d ∧ d.sealed = true) := by
  unfold bootstrap at h
  have hO : Open s.epoch s.vals (Gen.Orderer.bootstrapFrameToDecide s.ldf) []
      { s with el := reset s.vals (Gen.Orderer.bootstrapFrameToDecide s.ldf) } :=
    ⟨fun d hd => (by cases hd), rfl, rfl, rfl, rfl⟩
  have hb := bootstrapElection_spec env _ _ _ _ _ _ hO h
  refine ⟨callSpec_of env s _ out s' (by rcases hb with ⟨_, hb⟩ | ⟨_, hb⟩; exact Or.inl hb; exact Or.inr hb), ?_⟩
  rcases hb with ⟨hf, hb⟩ | ⟨hf, hb⟩
  · subst hf
    constructor
    · intro hc; cases hc
    · rintro ⟨d, hl, hs⟩
      rw [(hb.unsealed d (List.mem_of_getLast? hl)).1] at hs; cases hs
  · subst hf
    obtain ⟨out1, d, nv, rfl, _, hds, _⟩ := hb.ex
    exact ⟨fun _ => ⟨d, List.getLast?_concat .., hds⟩, fun _ => rfl⟩

end OrdererSeal
