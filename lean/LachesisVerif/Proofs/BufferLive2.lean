import LachesisVerif.Proofs.BufferLive
/-! C14 liveness, operation level: pushes of events of a parents-closed set with sufficient limits. -/
namespace C14
open Model.EventsBuffer

/-! ### counting: distinct members of `E` are at most `E` -/

theorem sum_erase (E : List Ev) (a : Ev) (h : a ∈ E) :
    (E.map (·.size)).sum = a.size + ((E.erase a).map (·.size)).sum := by
  induction E with
  | nil => cases h
  | cons b E ih =>
    by_cases e : b = a
    · subst e; simp
    · have ha : a ∈ E := by
        rcases List.mem_cons.1 h with r | r
        · exact absurd r.symm e
        · exact r
      rw [List.erase_cons_tail (by simpa using e)]
      simp only [List.map_cons, List.sum_cons]
      rw [ih ha]; omega

theorem nodup_subset_bounds : ∀ (l E : List Ev), l.Nodup → (∀ e ∈ l, e ∈ E) →
    l.length ≤ E.length ∧ (l.map (·.size)).sum ≤ (E.map (·.size)).sum := by
  intro l
  induction l with
  | nil => intro E _ _; simp
  | cons a l ih =>
    intro E hnd hsub
    rw [List.nodup_cons] at hnd
    have ha : a ∈ E := hsub a List.mem_cons_self
    have hsub' : ∀ e ∈ l, e ∈ E.erase a := by
      intro e he
      have hne : e ≠ a := by intro h; subst h; exact hnd.1 he
      exact (List.mem_erase_of_ne hne).2 (hsub e (List.mem_cons_of_mem _ he))
    obtain ⟨h1, h2⟩ := ih (E.erase a) hnd.2 hsub'
    have hl : (E.erase a).length = E.length - 1 := List.length_erase_of_mem ha
    have hpos : 0 < E.length := List.length_pos_of_mem ha
    have hs := sum_erase E a ha
    simp only [List.length_cons, List.map_cons, List.sum_cons]
    omega

theorem nodup_of_map {α β : Type} (f : α → β) : ∀ l : List α, (l.map f).Nodup → l.Nodup := by
  intro l
  induction l with
  | nil => intro _; exact List.nodup_nil
  | cons a l ih =>
    intro h
    rw [List.map_cons, List.nodup_cons] at h
    rw [List.nodup_cons]
    exact ⟨fun ha => h.1 (List.mem_map.2 ⟨a, ha, rfl⟩), ih h.2⟩

theorem inc_bounds {init : List Nat} {x : Nat} {st : St} (h : Inv init x st) (E : List Ev)
    (hev : ∀ p ∈ st.inc, (st.recs p.2).ev ∈ E) :
    st.inc.length ≤ E.length ∧ st.weight ≤ (E.map (·.size)).sum := by
  have hnd : (st.inc.map (fun p => (st.recs p.2).ev)).Nodup := by
    apply nodup_of_map (fun e : Ev => e.id)
    rw [List.map_map]
    have : (st.inc.map ((fun e : Ev => e.id) ∘ fun p => (st.recs p.2).ev)) = st.inc.map (·.1) := by
      apply List.map_congr_left
      intro p hp
      exact (h.incId p hp).1
    rw [this]; exact h.incNodup
  obtain ⟨a, b⟩ := nodup_subset_bounds _ E hnd (by
    intro e he
    obtain ⟨p, hp, rfl⟩ := List.mem_map.1 he
    exact hev p hp)
  rw [List.length_map] at a
  refine ⟨a, ?_⟩
  unfold St.weight weightOf
  rw [List.map_map] at b
  exact b

theorem spill_noop (limNum limSize : Nat) (st : St)
    (h : Gen.Buffer.spillCond st.inc.length limNum st.weight limSize = false) :
    spill limNum limSize st.inc st = st := by
  cases hst : st.inc with
  | nil => unfold spill; cases st; simp at hst; subst hst; rfl
  | cons p rest =>
    obtain ⟨id, c⟩ := p
    unfold spill
    have : Gen.Buffer.spillCond ((id, c) :: rest).length limNum (weightOf st.recs ((id, c) :: rest)) limSize = false := by
      rw [← hst]; exact h
    simp only [this, Bool.false_eq_true, if_false]
    cases st; simp at hst; subst hst; rfl

/-! ### the invariant of push-only runs in which nothing fails and nothing is spilled -/

structure Live (init : List Nat) (E : List Ev) (st : St) : Prop where
  good : Good init st
  evs : ∀ c, c < st.n → (st.recs c).ev ∈ E
  incUnrel : ∀ p ∈ st.inc, (st.recs p.2).released = false
  j : ∀ p ∈ st.inc, st.complete (st.recs p.2).ev = false
  pushed : ∀ c, c < st.n → (st.recs c).ev.id ∈ st.conn ∨ (st.recs c).ev.id ∈ st.inc.map (·.1)
  connd : ∀ i ∈ st.conn, i ∈ init ∨ ∃ c, c < st.n ∧ Cb.process c true ∈ st.trace ∧ (st.recs c).ev.id = i
  initc : ∀ i ∈ init, i ∈ st.conn

theorem live_init (init : List Nat) (E : List Ev) : Live init E (St.init init) where
  good := good_init init
  evs := fun c h => by cases h
  incUnrel := fun p h => by cases h
  j := fun p h => by cases h
  pushed := fun c h => by cases h
  connd := fun i h => Or.inl h
  initc := fun i h => h

theorem pushEvent_live (init : List Nat) (E : List Ev) (limNum limSize : Nat) (st : St) (e : Ev) (tag : Nat)
    (h : Live init E st) (he : e ∈ E) (hnum : E.length ≤ limNum) (hsize : (E.map (·.size)).sum ≤ limSize) :
    Live init E (pushEvent true Oracle.allOk limNum limSize st e tag).1 ∧
    (pushEvent true Oracle.allOk limNum limSize st e tag).1.n = st.n + 1 ∧
    (∀ c, c < st.n → ((pushEvent true Oracle.allOk limNum limSize st e tag).1.recs c).ev = (st.recs c).ev) ∧
    ((pushEvent true Oracle.allOk limNum limSize st e tag).1.recs st.n).ev = e := by
  have hg : Inv init st.n st := h.good
  have hinv0 := fresh_inv h.good e tag
  have hrec : ((withFresh st e tag).recs st.n) = ⟨e, tag, 0, false⟩ := by
    show setRec st.recs st.n _ st.n = _
    simp
  have hrecs0 : ∀ c, c < st.n → (withFresh st e tag).recs c = st.recs c := by
    intro c hc
    show setRec st.recs st.n _ c = _
    rw [setRec_other _ _ _ _ (Nat.ne_of_lt hc)]
  have hpe : pushEvent true Oracle.allOk limNum limSize st e tag =
      if st.inc.any (fun p => p.1 == e.id) then (release (drop (withFresh st e tag) st.n errDup) st.n, false)
      else (spill limNum limSize (pushEv true Oracle.allOk (st.inc.length + 1) (withFresh st e tag) st.n none false).1.inc
              (pushEv true Oracle.allOk (st.inc.length + 1) (withFresh st e tag) st.n none false).1,
            (pushEv true Oracle.allOk (st.inc.length + 1) (withFresh st e tag) st.n none false).2) := rfl
  obtain ⟨pg, pn, pev, pnew, _⟩ := pushEvent_post init Oracle.allOk limNum limSize st e tag h.good (Or.inl (by
    obtain ⟨a, b⟩ := inc_bounds hg E (fun p hp => h.evs p.2 (hg.incId p hp).2)
    unfold Gen.Buffer.spillCond
    simp only [Bool.or_eq_false_iff, decide_eq_false_iff_not]
    have := Nat.mod_le st.inc.length 4294967296
    have := Nat.mod_le st.weight 18446744073709551616
    omega))
  refine ⟨?_, pn, pev, pnew⟩
  have pevs : ∀ c, c < (pushEvent true Oracle.allOk limNum limSize st e tag).1.n →
      ((pushEvent true Oracle.allOk limNum limSize st e tag).1.recs c).ev ∈ E := by
    intro c hc
    rw [pn] at hc
    by_cases ec : c = st.n
    · rw [ec, pnew]; exact he
    · rw [pev c (by omega)]; exact h.evs c (by omega)
  rw [hpe] at pg pevs ⊢
  by_cases hdup : st.inc.any (fun p => p.1 == e.id) = true
  · simp only [hdup, if_true] at pg pevs ⊢
    have hfr := Frame.trans (drop_frame (withFresh st e tag) st.n errDup) (release_frame _ st.n)
    have hi : (release (drop (withFresh st e tag) st.n errDup) st.n).inc = st.inc := by simp [withFresh]
    have hcn : (release (drop (withFresh st e tag) st.n errDup) st.n).conn = st.conn := by simp [withFresh]
    have htr : (release (drop (withFresh st e tag) st.n errDup) st.n).trace ⊇ st.trace := by
      intro t ht
      apply release_trace_sub
      simpa [withFresh] using ht
    have hrl : ∀ c, c < st.n → ((release (drop (withFresh st e tag) st.n errDup) st.n).recs c).released =
        (st.recs c).released := by
      intro c hc
      rw [release_released_other _ _ _ (Nat.ne_of_lt hc), drop_released, hrecs0 c hc]
    have hevc : ∀ c, c < st.n → ((release (drop (withFresh st e tag) st.n errDup) st.n).recs c).ev = (st.recs c).ev := by
      intro c hc; rw [hfr.ev_eq, hrecs0 c hc]
    exact {
      good := pg
      evs := pevs
      incUnrel := by
        intro p hp
        rw [hi] at hp
        rw [hrl p.2 (hg.incId p hp).2]; exact h.incUnrel p hp
      j := by
        intro p hp
        rw [hi] at hp
        rw [hevc p.2 (hg.incId p hp).2, complete_congr hcn]; exact h.j p hp
      pushed := by
        intro c hc
        have hc' : c < st.n + 1 := by rw [hfr.n_eq] at hc; exact hc
        rw [hcn, hi]
        by_cases ec : c = st.n
        · right
          rw [ec, hfr.ev_eq, hrec]
          obtain ⟨p, hp, hpe⟩ := List.any_eq_true.1 hdup
          exact List.mem_map.2 ⟨p, hp, by simpa using hpe⟩
        · rw [hevc c (by omega)]; exact h.pushed c (by omega)
      connd := by
        intro i hi'
        rw [hcn] at hi'
        rcases h.connd i hi' with r | ⟨c, hc, ht, hid⟩
        · exact Or.inl r
        · refine Or.inr ⟨c, by rw [hfr.n_eq]; exact Nat.lt_succ_of_lt hc, htr ht, ?_⟩
          rw [hevc c hc]; exact hid
      initc := by intro i hi'; rw [hcn]; exact h.initc i hi' }
  · have hdup' : st.inc.any (fun p => p.1 == e.id) = false := Bool.eq_false_iff.2 hdup
    have hnew : ∀ p ∈ st.inc, p.1 ≠ e.id := by
      intro p hp hpe
      exact hdup (List.any_eq_true.2 ⟨p, hp, by simp [hpe]⟩)
    simp only [hdup', Bool.false_eq_true, if_false] at pg pevs ⊢
    have pre : Pre init st.n (withFresh st e tag) st.n none false (st.inc.length + 1) := {
      inv := hinv0
      hc := Nat.lt_succ_self _
      unreleased := by rw [hrec]
      mode := Or.inr ⟨rfl, rfl, by
        intro p hp
        rw [hrec]
        exact hnew p hp, rfl, Nat.le_refl _, Nat.lt_succ_of_le hg.incLen⟩ }
    have post := pushEv_post init st.n Oracle.allOk _ _ _ _ _ pre
    have lpost := pushEv_live init st.n _ _ _ _ _ pre (by intro l hl; cases hl)
    have hinv1 := inv_close post.inv post.done (st.n + 1)
    have hn1 : (pushEv true Oracle.allOk (st.inc.length + 1) (withFresh st e tag) st.n none false).1.n = st.n + 1 :=
      post.frame.n_eq
    -- nothing is spilled
    have hevr : ∀ c, c < st.n + 1 →
        ((pushEv true Oracle.allOk (st.inc.length + 1) (withFresh st e tag) st.n none false).1.recs c).ev ∈ E := by
      intro c hc
      rw [post.frame.ev_eq]
      by_cases ec : c = st.n
      · rw [ec, hrec]; exact he
      · rw [hrecs0 c (by omega)]; exact h.evs c (by omega)
    have hnoop : spill limNum limSize (pushEv true Oracle.allOk (st.inc.length + 1) (withFresh st e tag) st.n none false).1.inc
        (pushEv true Oracle.allOk (st.inc.length + 1) (withFresh st e tag) st.n none false).1 =
        (pushEv true Oracle.allOk (st.inc.length + 1) (withFresh st e tag) st.n none false).1 := by
      apply spill_noop
      obtain ⟨a, b⟩ := inc_bounds hinv1 E (fun p hp => hevr p.2 (by have := (hinv1.incId p hp).2; rw [hn1] at this; exact this))
      unfold Gen.Buffer.spillCond
      simp only [Bool.or_eq_false_iff, decide_eq_false_iff_not]
      have := Nat.mod_le (pushEv true Oracle.allOk (st.inc.length + 1) (withFresh st e tag) st.n none false).1.inc.length 4294967296
      have := Nat.mod_le (pushEv true Oracle.allOk (st.inc.length + 1) (withFresh st e tag) st.n none false).1.weight 18446744073709551616
      omega
    rw [hnoop] at pg pevs ⊢
    have hinc0 : (withFresh st e tag).inc = st.inc := rfl
    have hconn0 : (withFresh st e tag).conn = st.conn := rfl
    exact {
      good := pg
      evs := pevs
      incUnrel := by
        intro p hp
        cases hr : ((pushEv true Oracle.allOk (st.inc.length + 1) (withFresh st e tag) st.n none false).1.recs p.2).released
        · rfl
        · obtain ⟨a, b⟩ := lpost.q1 p hp hr
          have a' : p ∈ st.inc := a
          rw [hrecs0 p.2 (hg.incId p a').2, h.incUnrel p a'] at b
          cases b
      j := by
        intro p hp
        cases hc : (pushEv true Oracle.allOk (st.inc.length + 1) (withFresh st e tag) st.n none false).1.complete
            ((pushEv true Oracle.allOk (st.inc.length + 1) (withFresh st e tag) st.n none false).1.recs p.2).ev
        · rfl
        · have hr : ((pushEv true Oracle.allOk (st.inc.length + 1) (withFresh st e tag) st.n none false).1.recs p.2).released = false := by
            cases hr : ((pushEv true Oracle.allOk (st.inc.length + 1) (withFresh st e tag) st.n none false).1.recs p.2).released
            · rfl
            · obtain ⟨a, b⟩ := lpost.q1 p hp hr
              have a' : p ∈ st.inc := a
              rw [hrecs0 p.2 (hg.incId p a').2, h.incUnrel p a'] at b
              cases b
          obtain ⟨a, _, d⟩ := lpost.q2 p hp hr hc
          have a' : p ∈ st.inc := a
          rw [hrecs0 p.2 (hg.incId p a').2, complete_congr hconn0, h.j p a'] at d
          cases d
      pushed := by
        intro c hc
        rw [hn1] at hc
        rw [post.frame.ev_eq]
        by_cases ec : c = st.n
        · rw [ec]; exact lpost.q3c
        · rw [hrecs0 c (by omega)]
          exact lpost.q3 _ (h.pushed c (by omega))
      connd := by
        intro i hi
        rcases lpost.q4 i hi with r | ⟨c, hc, ht, hid⟩
        · rcases h.connd i r with r | ⟨c, hc, ht, hid⟩
          · exact Or.inl r
          · refine Or.inr ⟨c, by rw [hn1]; exact Nat.lt_succ_of_lt hc, lpost.q5 _ ht, ?_⟩
            rw [post.frame.ev_eq, hrecs0 c hc]; exact hid
        · refine Or.inr ⟨c, by rw [hn1]; exact hc, ht, ?_⟩
          rw [post.frame.ev_eq]; exact hid
      initc := by intro i hi; exact post.frame.conn_mono i (h.initc i hi) }

theorem run_live (init : List Nat) (E : List Ev) (limNum limSize : Nat)
    (hnum : E.length ≤ limNum) (hsize : (E.map (·.size)).sum ≤ limSize) :
    ∀ (arr : List Ev) (st : St), Live init E st → (∀ e ∈ arr, e ∈ E) →
      Live init E (run true Oracle.allOk limNum limSize st (arr.map Op.push)) ∧
      st.n ≤ (run true Oracle.allOk limNum limSize st (arr.map Op.push)).n ∧
      (∀ c, c < st.n → ((run true Oracle.allOk limNum limSize st (arr.map Op.push)).recs c).ev = (st.recs c).ev) ∧
      (∀ e ∈ arr, ∃ c, c < (run true Oracle.allOk limNum limSize st (arr.map Op.push)).n ∧
        ((run true Oracle.allOk limNum limSize st (arr.map Op.push)).recs c).ev = e) := by
  intro arr
  induction arr with
  | nil => intro st h _; exact ⟨h, Nat.le_refl _, fun _ _ => rfl, fun e he => by cases he⟩
  | cons a arr ih =>
    intro st h hsub
    obtain ⟨l1, l2, l3, l4⟩ := pushEvent_live init E limNum limSize st a st.n h (hsub a List.mem_cons_self) hnum hsize
    obtain ⟨i1, i2, i3, i4⟩ := ih _ l1 (fun e he => hsub e (List.mem_cons_of_mem _ he))
    have hrun : run true Oracle.allOk limNum limSize st ((a :: arr).map Op.push) =
        run true Oracle.allOk limNum limSize (pushEvent true Oracle.allOk limNum limSize st a st.n).1 (arr.map Op.push) := rfl
    rw [hrun]
    refine ⟨i1, by omega, ?_, ?_⟩
    · intro c hc
      rw [i3 c (by omega), l3 c hc]
    · intro e he
      rcases List.mem_cons.1 he with r | r
      · subst r
        exact ⟨st.n, by omega, by rw [i3 st.n (by omega), l4]⟩
      · exact i4 e r

theorem id_unique {E : List Ev} (hid : (E.map (·.id)).Nodup) {a b : Ev} (ha : a ∈ E) (hb : b ∈ E)
    (e : a.id = b.id) : a = b := by
  induction E with
  | nil => cases ha
  | cons x l ih =>
    simp only [List.map_cons, List.nodup_cons] at hid
    rcases List.mem_cons.1 ha with ra | ra <;> rcases List.mem_cons.1 hb with rb | rb
    · rw [ra, rb]
    · subst ra; exact absurd (List.mem_map.2 ⟨b, rb, e.symm⟩) hid.1
    · subst rb; exact absurd (List.mem_map.2 ⟨a, ra, e⟩) hid.1
    · exact ih hid.2 ra rb

end C14
