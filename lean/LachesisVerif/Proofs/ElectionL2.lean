import LachesisVerif.Proofs.ElectionGraph
/-!
Graph-level lemmas behind C10/C01, part 2: what `Valid` says about single events, ancestry,
self-parent chains, frames along chains, and L2 (two different roots of one slot are never both
forkless-caused).
-/
namespace ElectionRules
open VecProofs Model.Vec

theorem ev_append_lt (h : Hist) (e : Event) (i : Nat) (hi : i < h.length) : Hist.ev (h ++ [e]) i = Hist.ev h i := by
  unfold Hist.ev
  rw [List.getD_eq_getElem?_getD, List.getD_eq_getElem?_getD, List.getElem?_append_left hi]

theorem ev_append_len (h : Hist) (e : Event) : Hist.ev (h ++ [e]) h.length = e := by
  unfold Hist.ev
  rw [List.getD_eq_getElem?_getD, List.getElem?_append_right (Nat.le_refl _)]
  simp

/-- what validity says about the event at position `i` -/
structure EvOK (nVals : Nat) (h : Hist) (i : Nat) : Prop where
  parents_lt : ∀ p ∈ (h.ev i).parents, p < i
  creator_lt : (h.ev i).creator < nVals
  seq_pos : 1 ≤ (h.ev i).seq
  self : 1 < (h.ev i).seq → ∃ sp ps, (h.ev i).parents = sp :: ps ∧ (h.ev sp).creator = (h.ev i).creator ∧
    (h.ev sp).seq + 1 = (h.ev i).seq

theorem valid_ev {nVals : Nat} {h : Hist} (hv : Valid nVals h) : ∀ i, i < h.length → EvOK nVals h i := by
  induction hv with
  | nil => intro i hi; cases hi
  | @snoc h e hv hn ih =>
    intro i hi
    rw [List.length_append, List.length_singleton] at hi
    by_cases hlt : i < h.length
    · have := ih i hlt
      have e1 := ev_append_lt h e i hlt
      refine { parents_lt := by rw [e1]; exact this.parents_lt, creator_lt := by rw [e1]; exact this.creator_lt,
               seq_pos := by rw [e1]; exact this.seq_pos, self := ?_ }
      rw [e1]
      intro h1
      obtain ⟨sp, ps, hp, hc, hs⟩ := this.self h1
      have hsp : sp < h.length := by
        have := this.parents_lt sp (by rw [hp]; exact List.mem_cons_self); omega
      exact ⟨sp, ps, hp, by rw [ev_append_lt h e sp hsp]; exact hc, by rw [ev_append_lt h e sp hsp]; exact hs⟩
    · have hi' : i = h.length := by omega
      subst hi'
      have e1 := ev_append_len h e
      refine { parents_lt := by rw [e1]; exact hn.parents_lt, creator_lt := by rw [e1]; exact hn.creator_lt,
               seq_pos := by rw [e1]; exact hn.seq_pos, self := ?_ }
      rw [e1]
      intro h1
      obtain ⟨sp, ps, hp, hc, hs, _⟩ := hn.self h1
      have hsp : sp < h.length := hn.parents_lt sp (by rw [hp]; exact List.mem_cons_self)
      exact ⟨sp, ps, hp, by rw [ev_append_lt h e sp hsp]; exact hc, by rw [ev_append_lt h e sp hsp]; exact hs⟩

theorem anc_lt_left {h : Hist} {a b : Nat} (hab : Anc h a b) : a < h.length := by
  cases hab with
  | refl h1 => exact h1
  | step h1 _ _ => exact h1

theorem anc_trans {h : Hist} {a b c : Nat} (hab : Anc h a b) (hbc : Anc h b c) : Anc h a c := by
  induction hab with
  | refl _ => exact hbc
  | step h1 h2 _ ih => exact Anc.step h1 h2 (ih hbc)

theorem anc_le {nVals : Nat} {h : Hist} (hv : Valid nVals h) {a b : Nat} (hab : Anc h a b) : b ≤ a := by
  induction hab with
  | refl _ => exact Nat.le_refl _
  | step h1 h2 _ ih => have := (valid_ev hv _ h1).parents_lt _ h2; omega

theorem anc_lt_right {nVals : Nat} {h : Hist} (hv : Valid nVals h) {a b : Nat} (hab : Anc h a b) : b < h.length :=
  Nat.lt_of_le_of_lt (anc_le hv hab) (anc_lt_left hab)

theorem forkSeen_mono {h : Hist} {a a' c : Nat} (ha : Anc h a' a) (hf : ForkSeen h a c) : ForkSeen h a' c := by
  obtain ⟨x, y, hne, hx, hy, rest⟩ := hf
  exact ⟨x, y, hne, anc_trans ha hx, anc_trans ha hy, rest⟩

/-- ancestry along self-parents only -/
inductive SelfAnc (h : Hist) : Nat → Nat → Prop
  | refl {a} : a < h.length → SelfAnc h a a
  | step {a sp ps b} : a < h.length → 1 < (h.ev a).seq → (h.ev a).parents = sp :: ps → SelfAnc h sp b → SelfAnc h a b

theorem SelfAnc.anc {h : Hist} {a b : Nat} (hab : SelfAnc h a b) : Anc h a b := by
  induction hab with
  | refl h1 => exact Anc.refl h1
  | step h1 _ hp _ ih => exact Anc.step h1 (by rw [hp]; exact List.mem_cons_self) ih

/-- inside a parent-closed set `S` without an equal-seq pair of creator `c`, the events of `c` form
    one self-parent chain -/
theorem chain_in {nVals : Nat} {h : Hist} (hv : Valid nVals h) (S : Nat → Prop)
    (hS : ∀ y, S y → y < h.length ∧ ∀ p ∈ (h.ev y).parents, S p) (c : Nat)
    (hnf : ∀ x y, S x → S y → (h.ev x).creator = c → (h.ev y).creator = c → (h.ev x).seq = (h.ev y).seq → x = y)
    (n : Nat) : ∀ y z, S y → S z → (h.ev y).creator = c → (h.ev z).creator = c →
      (h.ev y).seq = (h.ev z).seq + n → SelfAnc h y z := by
  induction n with
  | zero =>
    intro y z hy hz cy cz hs
    have := hnf y z hy hz cy cz (by omega)
    subst this
    exact SelfAnc.refl (hS y hy).1
  | succ n ih =>
    intro y z hy hz cy cz hs
    have hylt := (hS y hy).1
    have oky := valid_ev hv y hylt
    have okz := valid_ev hv z (hS z hz).1
    have h1 : 1 < (h.ev y).seq := by have := okz.seq_pos; omega
    obtain ⟨sp, ps, hp, hc, hsq⟩ := oky.self h1
    have hSsp : S sp := (hS y hy).2 sp (by rw [hp]; exact List.mem_cons_self)
    exact SelfAnc.step hylt h1 hp (ih sp z hSsp hz (hc.trans cy) cz (by omega))

namespace Net
variable (N : Net)

theorem spf_eq {e sp : Nat} {ps : List Nat} (h1 : 1 < (N.h.ev e).seq) (hp : (N.h.ev e).parents = sp :: ps) :
    N.spf e = N.fr sp := by
  unfold spf
  rw [if_neg (by omega), hp]

/-- accepted frames do not decrease from the self-parent to the event -/
theorem spf_le_fr (hfa : N.FramesAccepted) {e : Nat} (he : e < N.h.length) (h1 : 1 < (N.h.ev e).seq) :
    N.spf e ≤ N.fr e := by
  have := hfa e he
  unfold Allowed at this
  rw [if_neg (by omega)] at this
  exact this.1

theorem selfAnc_fr (hfa : N.FramesAccepted) {y z : Nat} (hyz : SelfAnc N.h y z) : N.fr z ≤ N.fr y := by
  induction hyz with
  | refl _ => exact Nat.le_refl _
  | step h1 h2 hp _ ih =>
    have := N.spf_le_fr hfa h1 h2
    rw [N.spf_eq h2 hp] at this
    omega

theorem selfAnc_spf (hfa : N.FramesAccepted) {y z : Nat} (hyz : SelfAnc N.h y z) (hne : y ≠ z) : N.fr z ≤ N.spf y := by
  cases hyz with
  | refl _ => exact absurd rfl hne
  | step h1 h2 hp hr =>
    rw [N.spf_eq h2 hp]
    exact N.selfAnc_fr hfa hr

/-- whoever has two different roots of one slot among its ancestors sees a fork of their creator -/
theorem two_roots_fork (hv : Valid N.nVals N.h) (hfa : N.FramesAccepted) {f b₁ b₂ x : Nat}
    (h₁ : N.IsRoot b₁ f) (h₂ : N.IsRoot b₂ f) (hc : N.creator b₁ = N.creator b₂) (hne : b₁ ≠ b₂)
    (hx₁ : Anc N.h x b₁) (hx₂ : Anc N.h x b₂) : ForkSeen N.h x (N.creator b₁) := by
  apply Classical.byContradiction
  intro hnf
  have hS : ∀ y, Anc N.h x y → y < N.h.length ∧ ∀ p ∈ (N.h.ev y).parents, Anc N.h x p := by
    intro y hy
    have hylt := anc_lt_right hv hy
    exact ⟨hylt, fun p hp => anc_trans hy (Anc.step hylt hp (Anc.refl (by
      have := (valid_ev hv y hylt).parents_lt p hp; omega)))⟩
  have huniq : ∀ a b, Anc N.h x a → Anc N.h x b → (N.h.ev a).creator = N.creator b₁ →
      (N.h.ev b).creator = N.creator b₁ → (N.h.ev a).seq = (N.h.ev b).seq → a = b := by
    intro a b ha hb ca cb hs
    apply Classical.byContradiction
    intro hab
    exact hnf ⟨a, b, hab, ha, hb, ca, cb, hs⟩
  have key : ∀ y z, N.IsRoot y f → N.IsRoot z f → y ≠ z → Anc N.h x y → Anc N.h x z →
      (N.h.ev y).creator = N.creator b₁ → (N.h.ev z).creator = N.creator b₁ →
      (N.h.ev z).seq ≤ (N.h.ev y).seq → False := by
    intro y z ry rz hyz hy hz cy cz hs
    have := chain_in hv (Anc N.h x) hS (N.creator b₁) huniq ((N.h.ev y).seq - (N.h.ev z).seq) y z hy hz cy cz (by omega)
    have h3 := N.selfAnc_spf hfa this hyz
    have := ry.2.1
    have := rz.2.2
    omega
  rcases Nat.le_total (N.h.ev b₂).seq (N.h.ev b₁).seq with hle | hle
  · exact key b₁ b₂ h₁ h₂ hne hx₁ hx₂ rfl hc.symm hle
  · exact key b₂ b₁ h₂ h₁ (Ne.symm hne) hx₂ hx₁ hc.symm rfl hle

/-- the events of a never-forking validator are totally ordered by ancestry -/
theorem honest_chain (hv : Valid N.nVals N.h) {v x y : Nat} (hnf : ¬ N.Forker v) (hx : x < N.h.length)
    (hy : y < N.h.length) (cx : N.creator x = v) (cy : N.creator y = v) (hs : (N.h.ev x).seq ≤ (N.h.ev y).seq) :
    Anc N.h y x := by
  have := chain_in hv (fun i => i < N.h.length)
    (fun i hi => ⟨hi, fun p hp => by have := (valid_ev hv i hi).parents_lt p hp; omega⟩) v
    (by
      intro a b ha hb ca cb hsq
      apply Classical.byContradiction
      intro hab
      exact hnf ⟨a, b, hab, ha, hb, ca, cb, hsq⟩)
    ((N.h.ev y).seq - (N.h.ev x).seq) y x hy hx cy cx (by omega)
  exact this.anc

/-- L2 -/
theorem L2_holds : N.L2 := by
  intro hv hfa hbft f b₁ b₂ a a' h₁ h₂ hc hne ⟨⟨nf₁, q₁⟩, ⟨nf₂, q₂⟩⟩
  obtain ⟨v, _, ⟨_, e, ce, eb, ae⟩, ⟨_, e', ce', eb', ae'⟩, hnf⟩ := N.L1_holds hbft _ _ q₁ q₂
  have he : e < N.h.length := anc_lt_left eb
  have he' : e' < N.h.length := anc_lt_left eb'
  rcases Nat.le_total (N.h.ev e).seq (N.h.ev e').seq with hle | hle
  · -- e' is above e, so it sees both roots; a' is above e'
    have hee := N.honest_chain hv hnf he he' ce ce' hle
    have := N.two_roots_fork hv hfa h₁ h₂ hc hne (anc_trans hee eb) eb'
    exact nf₂ (by rw [← hc]; exact forkSeen_mono ae' this)
  · have hee := N.honest_chain hv hnf he' he ce' ce hle
    have := N.two_roots_fork hv hfa h₁ h₂ hc hne eb (anc_trans hee eb')
    exact nf₁ (forkSeen_mono ae this)

/-- L2 in the form used later: roots of one slot that are forkless-caused by anything coincide -/
theorem slot_unique (hv : Valid N.nVals N.h) (hfa : N.FramesAccepted) (hbft : N.BFT) {f b₁ b₂ a a' : Nat}
    (h₁ : N.IsRoot b₁ f) (h₂ : N.IsRoot b₂ f) (hc : N.creator b₁ = N.creator b₂)
    (c₁ : N.FC a b₁) (c₂ : N.FC a' b₂) : b₁ = b₂ := by
  apply Classical.byContradiction
  intro hne
  exact N.L2_holds hv hfa hbft f b₁ b₂ a a' h₁ h₂ hc hne ⟨c₁, c₂⟩

end Net
end ElectionRules
