import LachesisVerif.Proofs.ProcessorRel
import LachesisVerif.Proofs.BufferWeight
/-! C15: the semaphore's warning callback never fires. Invariant: the semaphore holds at least the
    events (and bytes) that are still to be released — the copies waiting in the ordering buffer plus,
    for every pending batch, the events its inserter task will still hand to `process()`. For an
    ordered batch these are the items from `processed` on; for an unordered batch the items at the
    positions whose check result is queued or will still be delivered (hence the well-formedness
    hypothesis: no (batch, position) result is delivered twice). Everything is stated for a weight
    selector `w : Bool` (`false` = events, `true` = bytes). -/
namespace C15
open Model.EventsBuffer Model.Processor C14

/-! ### sums over lists -/

theorem sum_map_add (f g : Nat → Nat) : ∀ L : List Nat,
    (L.map (fun x => f x + g x)).sum = (L.map f).sum + (L.map g).sum := by
  intro L
  induction L with
  | nil => rfl
  | cons a L ih => simp only [List.map_cons, List.sum_cons, ih]; omega

theorem sum_map_zero : ∀ L : List Nat, (L.map (fun _ => 0)).sum = 0 := by
  intro L
  induction L with
  | nil => rfl
  | cons a L ih => simp only [List.map_cons, List.sum_cons, ih]

theorem sum_indicator_nodup (k c : Nat) : ∀ L : List Nat, L.Nodup →
    (L.map (fun x => if x = k then c else 0)).sum ≤ c := by
  intro L
  induction L with
  | nil => intro _; exact Nat.zero_le _
  | cons a L ih =>
    intro hnd
    rw [List.nodup_cons] at hnd
    simp only [List.map_cons, List.sum_cons]
    by_cases e : a = k
    · subst e
      have : (L.map (fun x => if x = a then c else 0)).sum = (L.map (fun _ => 0)).sum := by
        congr 1
        apply List.map_congr_left
        intro x hx
        have : x ≠ a := fun h => hnd.1 (h ▸ hx)
        simp [this]
      rw [this, sum_map_zero]; simp
    · have := ih hnd.2
      simp only [e, if_false]; omega

/-! ### weights -/

/-- weight of one release: one event / `sz` bytes -/
def rw' : Bool → Nat → Nat
  | false, _ => 1
  | true, sz => sz

def wtOf (w : Bool) (it : Item) : Nat := rw' w it.ev.size

def semOf : Bool → Sem → Nat
  | false, s => s.num
  | true, s => s.size

/-- weight of the item at a position (0 outside the batch) -/
def wAt (w : Bool) (items : List Item) (pos : Nat) : Nat :=
  match items[pos]? with
  | some it => wtOf w it
  | none => 0

def totalW (w : Bool) (items : List Item) : Nat := (items.map (wtOf w)).sum

theorem totalW_false : ∀ items : List Item, totalW false items = items.length := by
  intro items
  induction items with
  | nil => rfl
  | cons a t ih =>
    unfold totalW at ih ⊢
    simp only [List.map_cons, List.sum_cons, ih, List.length_cons]
    show 1 + t.length = t.length + 1
    omega

theorem totalW_true (items : List Item) : totalW true items = totalSize items := rfl

/-- distinct positions select at most the whole batch -/
theorem sum_wAt_le (w : Bool) : ∀ (items : List Item) (k : Nat) (L : List Nat), L.Nodup →
    (L.map (fun pos => if k ≤ pos then wAt w items (pos - k) else 0)).sum ≤ totalW w items := by
  intro items
  induction items with
  | nil =>
    intro k L _
    have : (L.map (fun pos => if k ≤ pos then wAt w [] (pos - k) else 0)).sum = (L.map (fun _ => 0)).sum := by
      congr 1
      apply List.map_congr_left
      intro x _
      simp [wAt]
    rw [this, sum_map_zero]; exact Nat.zero_le _
  | cons a t ih =>
    intro k L hnd
    have : (L.map (fun pos => if k ≤ pos then wAt w (a :: t) (pos - k) else 0)).sum =
        (L.map (fun pos => (if pos = k then wtOf w a else 0) +
          (if k + 1 ≤ pos then wAt w t (pos - (k + 1)) else 0))).sum := by
      congr 1
      apply List.map_congr_left
      intro x _
      by_cases e : x = k
      · subst e
        have : ¬ x + 1 ≤ x := by omega
        simp [wAt, this]
      · by_cases h : k ≤ x
        · have h' : k + 1 ≤ x := by omega
          have hx : x - k = (x - (k + 1)) + 1 := by omega
          simp only [h, h', e, if_true, if_false, Nat.zero_add]
          unfold wAt
          rw [hx, List.getElem?_cons_succ]
        · have h' : ¬ k + 1 ≤ x := by omega
          simp [h, h', e]
    rw [this, sum_map_add]
    have h1 := sum_indicator_nodup k (wtOf w a) L hnd
    have h2 := ih (k + 1) L hnd
    show _ ≤ (List.map (wtOf w) (a :: t)).sum
    simp only [List.map_cons, List.sum_cons]
    unfold totalW at h2
    omega

theorem sum_wAt_le' (w : Bool) (items : List Item) (L : List Nat) (h : L.Nodup) :
    (L.map (wAt w items)).sum ≤ totalW w items := by
  have := sum_wAt_le w items 0 L h
  simpa using this

/-! ### the semaphore part of the invariant -/

/-- no warning so far, and the semaphore holds at least `K` (events, bytes) -/
def SemHeld (K : Bool → Nat) (st : PSt) : Prop := st.warned = false ∧ ∀ w, K w ≤ semOf w st.sem

theorem SemHeld.mono {K K' : Bool → Nat} {st : PSt} (h : SemHeld K st) (hk : ∀ w, K' w ≤ K w) : SemHeld K' st :=
  ⟨h.1, fun w => Nat.le_trans (hk w) (h.2 w)⟩

theorem semHeld_relTag (K : Bool → Nat) (st : PSt) (tag sz e : Nat)
    (h : SemHeld (fun w => K w + rw' w sz) st) : SemHeld K (relTag st tag sz e) := by
  obtain ⟨hw, hk⟩ := h
  have h0 : K false + 1 ≤ st.sem.num := hk false
  have h1 : K true + sz ≤ st.sem.size := hk true
  have hu : Gen.Buffer.semUnderflow st.sem.num 1 st.sem.size sz = false := by
    unfold Gen.Buffer.semUnderflow
    simp only [Bool.or_eq_false_iff, decide_eq_false_iff_not]
    omega
  unfold relTag Sem.release
  simp only [hu, Bool.false_eq_true, if_false]
  refine ⟨by simp [hw], ?_⟩
  intro w
  cases w
  · show K false ≤ Gen.Buffer.semSubNum st.sem.num 1
    unfold Gen.Buffer.semSubNum; omega
  · show K true ≤ Gen.Buffer.semSubSize st.sem.size sz
    unfold Gen.Buffer.semSubSize; omega

/-- weight released by a piece of the buffer's trace -/
def relOf (w : Bool) (recs : Nat → Rec) (l : List Cb) : Nat := relW (fun c => rw' w (recs c).ev.size) l

theorem semHeld_absorb (recs : Nat → Rec) : ∀ (l : List Cb) (st : PSt) (K : Bool → Nat),
    SemHeld (fun w => K w + relOf w recs l) st → SemHeld K (absorb recs l st) := by
  intro l
  induction l with
  | nil => intro st K h; exact h.mono (fun w => Nat.le_add_right _ _)
  | cons x l ih =>
    intro st K h
    cases x with
    | check c ok => exact ih _ K h
    | process c ok => exact ih _ K h
    | released c e =>
      apply ih _ K
      apply semHeld_relTag
      exact h.mono (fun w => by
        show K w + relOf w recs l + rw' w (recs c).ev.size ≤ K w + (rw' w (recs c).ev.size + relOf w recs l)
        omega)
    | connect id => exact ih _ K h

/-! ### the invariant on processor states, and `process()` -/

/-- weight of the copies waiting in the ordering buffer -/
def unrelOf (w : Bool) (buf : St) : Nat := unrelW (fun c => rw' w (buf.recs c).ev.size) buf

/-- the buffer is in order, no warning so far, and beyond the copies waiting in the buffer the
    semaphore holds at least `K` -/
def Held (init : List Nat) (cfg : Cfg) (K : Bool → Nat) (st : PSt) : Prop :=
  BufInv init cfg st ∧ SemHeld (fun w => unrelOf w st.buf + K w) st

theorem Held.mono {init : List Nat} {cfg : Cfg} {K K' : Bool → Nat} {st : PSt} (h : Held init cfg K st)
    (hk : ∀ w, K' w ≤ K w) : Held init cfg K' st :=
  ⟨h.1, h.2.mono (fun w => Nat.add_le_add_left (hk w) _)⟩

theorem semHeld_congr {K : Bool → Nat} {st st' : PSt} (hw : st'.warned = st.warned) (hs : st'.sem = st.sem)
    (h : SemHeld K st) : SemHeld K st' := by
  unfold SemHeld at h ⊢
  rw [hw, hs]; exact h

theorem st2Of_warned (st : PSt) (it : Item) : (st2Of st it).warned = st.warned := by
  unfold st2Of; split <;> rfl

theorem st2Of_sem (st : PSt) (it : Item) : (st2Of st it).sem = st.sem := by
  unfold st2Of; split <;> rfl

/-- one `PushEvent`: released + still waiting = was waiting + the pushed copy -/
theorem push_acc (init : List Nat) (O : Oracle) (ln ls : Nat) (B : St) (e : Ev) (tag : Nat)
    (hg : Good init B) (hl : Lim ln ls B) (d : List Cb)
    (hd : (pushEvent true O ln ls B e tag).1.trace = d ++ B.trace) (w : Bool) :
    relOf w (pushEvent true O ln ls B e tag).1.recs d + unrelOf w (pushEvent true O ln ls B e tag).1 =
      unrelOf w B + rw' w e.size := by
  obtain ⟨pg, pn, pev, pnew, _⟩ := pushEvent_post init O ln ls B e tag hg hl
  have acc := weighted_accounting hg pg d hd (by rw [pn]; omega)
    (fun c => rw' w ((pushEvent true O ln ls B e tag).1.recs c).ev.size)
  rw [pn] at acc
  simp only [sumTo] at acc
  rw [sumTo_new (fun c => rw' w ((pushEvent true O ln ls B e tag).1.recs c).ev.size) B.n (fun c => B.n ≤ c)
    (fun c hc h => by omega)] at acc
  rw [pnew] at acc
  have hold : unrelW (fun c => rw' w ((pushEvent true O ln ls B e tag).1.recs c).ev.size) B = unrelOf w B := by
    unfold unrelOf unrelW
    apply sumTo_congr
    intro c hc
    show (if (B.recs c).released = false then rw' w ((pushEvent true O ln ls B e tag).1.recs c).ev.size else 0) = _
    rw [pev c hc]
  rw [hold] at acc
  unfold relOf
  show _ + unrelW _ _ = _
  simp only [Nat.le_refl, if_true, Nat.zero_add] at acc
  exact acc

theorem held_handle (init : List Nat) (cfg : Cfg) (O : Oracle) (K : Bool → Nat) (st : PSt) (it : Item) (e : Nat)
    (h : Held init cfg (fun w => K w + wtOf w it) st) : Held init cfg K (handle cfg O st it e).1 := by
  obtain ⟨hb, hs⟩ := h
  refine ⟨(bufInv_stable init cfg O).handle st it e hb, ?_⟩
  rw [handle_eq]
  split
  · show SemHeld (fun w => unrelOf w st.buf + K w) (relTag (mark st it) it.tag it.ev.size e)
    apply semHeld_relTag
    apply semHeld_congr (st := st) rfl rfl
    exact hs.mono (fun w => by
      show unrelOf w st.buf + K w + rw' w it.ev.size ≤ unrelOf w st.buf + (K w + wtOf w it)
      unfold wtOf; omega)
  · split
    · show SemHeld (fun w => unrelOf w st.buf + K w) (relTag (st1Of (mark st it)) it.tag it.ev.size errSpilled)
      apply semHeld_relTag
      apply semHeld_congr (st := st) rfl rfl
      exact hs.mono (fun w => by
        show unrelOf w st.buf + K w + rw' w it.ev.size ≤ unrelOf w st.buf + (K w + wtOf w it)
        unfold wtOf; omega)
    · show SemHeld (fun w => unrelOf w (absorb _ _ _).buf + K w) (absorb _ _ _)
      rw [absorb_buf]
      apply semHeld_absorb
      have hbuf2 : (st2Of (mark st it) it).buf = st.buf := st2Of_buf (mark st it) it
      apply semHeld_congr (st := st) (st2Of_warned (mark st it) it) (st2Of_sem (mark st it) it)
      obtain ⟨d, hd⟩ := pushEvent_ext O cfg.bufNum cfg.bufSize st.buf it.ev it.tag
      refine hs.mono (fun w => ?_)
      show unrelOf w (pushEvent true O cfg.bufNum cfg.bufSize (st2Of (mark st it) it).buf it.ev it.tag).1 + K w +
          relOf w (pushEvent true O cfg.bufNum cfg.bufSize (st2Of (mark st it) it).buf it.ev it.tag).1.recs
            (added (st2Of (mark st it) it).buf (pushEvent true O cfg.bufNum cfg.bufSize (st2Of (mark st it) it).buf it.ev it.tag).1) ≤
        unrelOf w st.buf + (K w + wtOf w it)
      rw [hbuf2, added_of_ext hd]
      unfold relOf
      rw [relW_reverse]
      have acc := push_acc init O cfg.bufNum cfg.bufSize st.buf it.ev it.tag hb.1 hb.2 d hd w
      unfold relOf at acc
      unfold wtOf
      omega

theorem held_finish (init : List Nat) (cfg : Cfg) (K : Bool → Nat) (b : Batch) (st : PSt)
    (h : Held init cfg K st) : Held init cfg K (finish b st) := by
  obtain ⟨hb, hs⟩ := h
  refine ⟨(bufInv_stable init cfg Oracle.allOk).finish b st hb, ?_⟩
  rw [finish_buf]
  apply semHeld_congr (st := st) _ _ hs
  · unfold finish; split <;> rfl
  · unfold finish; split <;> rfl

end C15
