import LachesisVerif.Model.EventsBuffer
/-! Helper lemmas for C14: field-level facts about the atomic steps of the buffer model. -/
namespace C14
open Model.EventsBuffer

/-! ### counting in traces -/

@[simp] theorem nRel_check (c c' : Nat) (ok : Bool) (t : List Cb) : nRel c (.check c' ok :: t) = nRel c t := rfl
@[simp] theorem nRel_process (c c' : Nat) (ok : Bool) (t : List Cb) : nRel c (.process c' ok :: t) = nRel c t := rfl
@[simp] theorem nRel_connect (c id : Nat) (t : List Cb) : nRel c (.connect id :: t) = nRel c t := rfl
@[simp] theorem nRel_released (c c' e : Nat) (t : List Cb) :
    nRel c (.released c' e :: t) = (if c' = c then 1 else 0) + nRel c t := rfl
@[simp] theorem nProc_check (c c' : Nat) (ok : Bool) (t : List Cb) : nProc c (.check c' ok :: t) = nProc c t := rfl
@[simp] theorem nProc_released (c c' e : Nat) (t : List Cb) : nProc c (.released c' e :: t) = nProc c t := rfl
@[simp] theorem nProc_connect (c id : Nat) (t : List Cb) : nProc c (.connect id :: t) = nProc c t := rfl
@[simp] theorem nProc_process (c c' : Nat) (ok : Bool) (t : List Cb) :
    nProc c (.process c' ok :: t) = (if c' = c then 1 else 0) + nProc c t := rfl

/-! ### setRec -/

@[simp] theorem setRec_same (recs : Nat → Rec) (c : Nat) (r : Rec) : setRec recs c r c = r := by simp [setRec]
theorem setRec_other (recs : Nat → Rec) (c c' : Nat) (r : Rec) (h : c' ≠ c) : setRec recs c r c' = recs c' := by
  simp [setRec, h]

/-! ### drop -/

@[simp] theorem drop_n (st : St) (c e : Nat) : (drop st c e).n = st.n := by unfold drop; split <;> rfl
@[simp] theorem drop_inc (st : St) (c e : Nat) : (drop st c e).inc = st.inc := by unfold drop; split <;> rfl
@[simp] theorem drop_conn (st : St) (c e : Nat) : (drop st c e).conn = st.conn := by unfold drop; split <;> rfl
@[simp] theorem drop_trace (st : St) (c e : Nat) : (drop st c e).trace = st.trace := by unfold drop; split <;> rfl
@[simp] theorem drop_oof (st : St) (c e : Nat) : (drop st c e).oof = st.oof := by unfold drop; split <;> rfl
@[simp] theorem drop_ev (st : St) (c e c' : Nat) : ((drop st c e).recs c').ev = (st.recs c').ev := by
  unfold drop; split
  · by_cases h : c' = c
    · subst h; simp
    · simp [setRec_other _ _ _ _ h]
  · rfl
@[simp] theorem drop_tag (st : St) (c e c' : Nat) : ((drop st c e).recs c').tag = (st.recs c').tag := by
  unfold drop; split
  · by_cases h : c' = c
    · subst h; simp
    · simp [setRec_other _ _ _ _ h]
  · rfl
@[simp] theorem drop_released (st : St) (c e c' : Nat) : ((drop st c e).recs c').released = (st.recs c').released := by
  unfold drop; split
  · by_cases h : c' = c
    · subst h; simp
    · simp [setRec_other _ _ _ _ h]
  · rfl

/-! ### release -/

@[simp] theorem release_n (st : St) (c : Nat) : (release st c).n = st.n := rfl
@[simp] theorem release_inc (st : St) (c : Nat) : (release st c).inc = st.inc := rfl
@[simp] theorem release_conn (st : St) (c : Nat) : (release st c).conn = st.conn := rfl
@[simp] theorem release_oof (st : St) (c : Nat) : (release st c).oof = st.oof := rfl
@[simp] theorem release_ev (st : St) (c c' : Nat) : ((release st c).recs c').ev = (st.recs c').ev := by
  unfold release
  by_cases h : c' = c
  · subst h; simp
  · simp [setRec_other _ _ _ _ h]
@[simp] theorem release_tag (st : St) (c c' : Nat) : ((release st c).recs c').tag = (st.recs c').tag := by
  unfold release
  by_cases h : c' = c
  · subst h; simp
  · simp [setRec_other _ _ _ _ h]
theorem release_released_self (st : St) (c : Nat) : ((release st c).recs c).released = true := by
  simp [release]
theorem release_released_other (st : St) (c c' : Nat) (h : c' ≠ c) :
    ((release st c).recs c').released = (st.recs c').released := by
  simp [release, setRec_other _ _ _ _ h]
theorem release_trace (st : St) (c : Nat) :
    (release st c).trace = if (st.recs c).released then st.trace else .released c (st.recs c).err :: st.trace := rfl

end C14
