import LachesisVerif.Proofs.BufferOps
/-! C14 liveness: with all callbacks succeeding, a push never leaves a buffered event whose parents are
    all connected, and an event leaves the buffer only connected. -/
namespace C14
open Model.EventsBuffer

theorem complete_congr {s s' : St} (hc : s'.conn = s.conn) (e : Ev) : s'.complete e = s.complete e := by
  unfold St.complete; rw [hc]

theorem complete_mono {s s' : St} (hc : ∀ i, i ∈ s.conn → i ∈ s'.conn) (e : Ev) (h : s.complete e = true) :
    s'.complete e = true := by
  unfold St.complete at h ⊢
  rw [List.all_eq_true] at h ⊢
  intro p hp
  have := h p hp
  simp only [List.contains_iff_mem] at this ⊢
  exact hc p this

theorem complete_of_cons {s s0 : St} {i : Nat} (hc : s0.conn = i :: s.conn) (e : Ev) (hi : e.parents.contains i = false)
    (h : s0.complete e = true) : s.complete e = true := by
  unfold St.complete at h ⊢
  rw [hc] at h
  rw [List.all_eq_true] at h ⊢
  intro p hp
  have := h p hp
  simp only [List.contains_iff_mem, List.mem_cons] at this ⊢
  rcases this with r | r
  · subst r
    have : e.parents.contains p = true := by simpa using hp
    rw [hi] at this; cases this
  · exact r

theorem processComplete_allOk (st : St) (c : Nat) :
    processComplete Oracle.allOk st c =
      ({ st with trace := .process c true :: .check c true :: st.trace, conn := (st.recs c).ev.id :: st.conn }, true) := rfl

theorem pre_fuel_pos {init : List Nat} {x : Nat} {st : St} {c : Nat} {snap : Option (List Nat)} {recheck : Bool}
    {fuel : Nat} (pre : Pre init x st c snap recheck fuel) : 0 < fuel := by
  rcases pre.mode with ⟨_, _, _, list, _, hcl, _, hf⟩ | ⟨_, _, _, _, hf, _⟩
  · have : unrel st list ≥ 1 := by
      unfold unrel
      apply List.length_pos_iff.2
      intro e
      have : c ∈ list.filter (fun ch => !(st.recs ch).released) :=
        List.mem_filter.2 ⟨hcl, by simp [pre.unreleased]⟩
      rw [e] at this; cases this
    omega
  · omega

/-- what a (recursive) `pushEvent` call guarantees beyond the safety invariant when nothing fails -/
structure LPost (st st' : St) (c : Nat) : Prop where
  q1 : ∀ p ∈ st'.inc, (st'.recs p.2).released = true → p ∈ st.inc ∧ (st.recs p.2).released = true
  q2 : ∀ p ∈ st'.inc, (st'.recs p.2).released = false → st'.complete (st'.recs p.2).ev = true →
         p ∈ st.inc ∧ p.2 ≠ c ∧ st.complete (st.recs p.2).ev = true
  q3 : ∀ i, (i ∈ st.conn ∨ i ∈ st.inc.map (·.1)) → (i ∈ st'.conn ∨ i ∈ st'.inc.map (·.1))
  q3c : (st.recs c).ev.id ∈ st'.conn ∨ (st.recs c).ev.id ∈ st'.inc.map (·.1)
  q4 : ∀ i ∈ st'.conn, i ∈ st.conn ∨ ∃ c', c' < st.n ∧ Cb.process c' true ∈ st'.trace ∧ (st.recs c').ev.id = i
  q5 : ∀ t ∈ st.trace, t ∈ st'.trace

theorem release_trace_sub (st : St) (c : Nat) : ∀ t ∈ st.trace, t ∈ (release st c).trace := by
  intro t ht
  rw [release_trace]
  split
  · exact ht
  · exact List.mem_cons_of_mem _ ht

theorem mem_ids_remove {inc : List (Nat × Nat)} {id i : Nat} (h : i ∈ inc.map (·.1)) (hne : i ≠ id) :
    i ∈ (incRemove inc id).map (·.1) := by
  obtain ⟨p, hp, rfl⟩ := List.mem_map.1 h
  exact List.mem_map.2 ⟨p, mem_incRemove.2 ⟨hp, hne⟩, rfl⟩

/-- the loop over the snapshot, liveness part -/
theorem loop_live (init : List Nat) (x : Nat) (fuel : Nat) (list : List Nat) (st s0 : St) (eid : Nat)
    (hs0conn : s0.conn = eid :: st.conn)
    (hev0 : ∀ c, (s0.recs c).ev = (st.recs c).ev)
    (IHs : ∀ s c, Pre init x s c (some list) true fuel →
      Post init x s (pushEv true Oracle.allOk fuel s c (some list) true).1 c true)
    (IH : ∀ s c, Pre init x s c (some list) true fuel → (∀ p ∈ s.inc, p.2 ∈ list) →
      LPost s (pushEv true Oracle.allOk fuel s c (some list) true).1 c) :
    ∀ rest, (∀ ch ∈ rest, ch ∈ list) → ∀ s, Inv init x s → (s.recs x).released = true →
      (∀ ch ∈ list, ch < s.n) → unrel s list ≤ fuel → Frame s0 s → (∀ p ∈ s.inc, p.2 ∈ list) →
      -- loop invariant at s
      (∀ p ∈ s.inc, (s.recs p.2).released = true → p ∈ s0.inc ∧ (s0.recs p.2).released = true) →
      (∀ p ∈ s.inc, (s.recs p.2).released = false → s.complete (s.recs p.2).ev = true →
          s0.complete (s0.recs p.2).ev = true ∧ (st.complete (st.recs p.2).ev = true ∨ p.2 ∈ rest)) →
      (∀ i, (i ∈ s0.conn ∨ i ∈ s0.inc.map (·.1)) → (i ∈ s.conn ∨ i ∈ s.inc.map (·.1))) →
      (∀ i ∈ s.conn, i ∈ s0.conn ∨ ∃ c', c' < s0.n ∧ Cb.process c' true ∈ s.trace ∧ (s0.recs c').ev.id = i) →
      (∀ t ∈ s0.trace, t ∈ s.trace) →
      let s' := loopChildren true (fun s ch => (pushEv true Oracle.allOk fuel s ch (some list) true).1) eid rest s
      (∀ p ∈ s'.inc, (s'.recs p.2).released = true → p ∈ s0.inc ∧ (s0.recs p.2).released = true) ∧
      (∀ p ∈ s'.inc, (s'.recs p.2).released = false → s'.complete (s'.recs p.2).ev = true →
          st.complete (st.recs p.2).ev = true) ∧
      (∀ i, (i ∈ s0.conn ∨ i ∈ s0.inc.map (·.1)) → (i ∈ s'.conn ∨ i ∈ s'.inc.map (·.1))) ∧
      (∀ i ∈ s'.conn, i ∈ s0.conn ∨ ∃ c', c' < s0.n ∧ Cb.process c' true ∈ s'.trace ∧ (s0.recs c').ev.id = i) ∧
      (∀ t ∈ s0.trace, t ∈ s'.trace) := by
  intro rest
  induction rest with
  | nil =>
    intro _ s _ _ _ _ _ _ h1 h2 h3 h4 h5
    refine ⟨h1, ?_, h3, h4, h5⟩
    intro p hp hr hc
    rcases (h2 p hp hr hc).2 with r | r
    · exact r
    · cases r
  | cons ch rest ih =>
    intro hmem s hs hx hbound hfuel hfr hsub h1 h2 h3 h4 h5
    have hrest : ∀ ch' ∈ rest, ch' ∈ list := fun ch' h => hmem ch' (List.mem_cons_of_mem _ h)
    unfold loopChildren
    by_cases hrel : (s.recs ch).released = true
    · simp only [hrel, Bool.and_self, if_true]
      refine ih hrest s hs hx hbound hfuel hfr hsub h1 ?_ h3 h4 h5
      intro p hp hr hc
      obtain ⟨a, b⟩ := h2 p hp hr hc
      refine ⟨a, ?_⟩
      rcases b with b | b
      · exact Or.inl b
      · rcases List.mem_cons.1 b with e | e
        · rw [e, hrel] at hr; cases hr
        · exact Or.inr e
    · have hun : (s.recs ch).released = false := by simpa using hrel
      by_cases hpar : (s.recs ch).ev.parents.contains eid = true
      · simp only [hun, Bool.and_false, Bool.false_eq_true, if_false, hpar, if_true]
        have hchl : ch ∈ list := hmem ch List.mem_cons_self
        have hchn : ch < s.n := hbound ch hchl
        have hne : ch ≠ x := by intro e; subst e; rw [hx] at hun; cases hun
        have pre : Pre init x s ch (some list) true fuel :=
          ⟨hs, hchn, hun, Or.inl ⟨rfl, hx, hs.buffered ch hchn hne hun, list, rfl, hchl, hbound, hfuel⟩⟩
        have post := IHs s ch pre
        have lpost := IH s ch pre hsub
        have hx' := post.frame.rel_mono x hx
        have hbound' : ∀ c' ∈ list, c' < (pushEv true Oracle.allOk fuel s ch (some list) true).1.n := by
          intro c' hc'; rw [post.frame.n_eq]; exact hbound c' hc'
        have hfuel' := Nat.le_trans (unrel_mono post.frame.rel_mono list) hfuel
        have hsub' : ∀ p ∈ (pushEv true Oracle.allOk fuel s ch (some list) true).1.inc, p.2 ∈ list :=
          fun p hp => hsub p ((post.sub rfl).subset hp)
        refine ih hrest _ post.inv hx' hbound' hfuel' (Frame.trans hfr post.frame) hsub' ?_ ?_ ?_ ?_ ?_
        · intro p hp hr
          obtain ⟨a, b⟩ := lpost.q1 p hp hr
          exact h1 p a b
        · intro p hp hr hc
          obtain ⟨a, b, d⟩ := lpost.q2 p hp hr hc
          have hr' : (s.recs p.2).released = false := by
            cases hh : (s.recs p.2).released
            · rfl
            · rw [post.frame.rel_mono p.2 hh] at hr; cases hr
          obtain ⟨e, f⟩ := h2 p a hr' d
          refine ⟨e, ?_⟩
          rcases f with f | f
          · exact Or.inl f
          · rcases List.mem_cons.1 f with g | g
            · exact absurd g b
            · exact Or.inr g
        · intro i hi; exact lpost.q3 i (h3 i hi)
        · intro i hi
          rcases lpost.q4 i hi with r | ⟨c', hc', ht, he⟩
          · rcases h4 i r with r | ⟨c', hc', ht, he⟩
            · exact Or.inl r
            · exact Or.inr ⟨c', hc', lpost.q5 _ ht, he⟩
          · refine Or.inr ⟨c', by rw [← hfr.n_eq]; exact hc', ht, ?_⟩
            rw [← hfr.ev_eq]; exact he
        · intro t ht; exact lpost.q5 t (h5 t ht)
      · have hpar' : (s.recs ch).ev.parents.contains eid = false := by simpa using hpar
        simp only [hun, Bool.and_false, Bool.false_eq_true, if_false, hpar']
        refine ih hrest s hs hx hbound hfuel hfr hsub h1 ?_ h3 h4 h5
        intro p hp hr hc
        obtain ⟨a, b⟩ := h2 p hp hr hc
        refine ⟨a, ?_⟩
        rcases b with b | b
        · exact Or.inl b
        · rcases List.mem_cons.1 b with e | e
          · left
            have hev : (s0.recs p.2).ev = (s.recs ch).ev := by rw [e, hfr.ev_eq]
            have hevst : (st.recs p.2).ev = (s.recs ch).ev := by rw [← hev0, hev]
            rw [hevst]
            rw [hev] at a
            exact complete_of_cons hs0conn _ hpar' a
          · exact Or.inr e

/-- the state after `Check`, `Process` (both succeeding) and `Released` of copy `c` -/
def okState (st : St) (c : Nat) : St :=
  release { st with trace := .process c true :: .check c true :: st.trace, conn := (st.recs c).ev.id :: st.conn } c

theorem incId_ne {init : List Nat} {x : Nat} {st : St} (h : Inv init x st) {p : Nat × Nat} (hp : p ∈ st.inc) {c : Nat}
    (hne : p.1 ≠ (st.recs c).ev.id) : p.2 ≠ c := by
  intro e
  have := (h.incId p hp).1
  rw [e] at this
  exact hne this.symm

theorem pushEv_live (init : List Nat) (x : Nat) :
    ∀ fuel st c snap recheck, Pre init x st c snap recheck fuel →
      (∀ list, snap = some list → ∀ p ∈ st.inc, p.2 ∈ list) →
      LPost st (pushEv true Oracle.allOk fuel st c snap recheck).1 c := by
  intro fuel
  induction fuel with
  | zero => intro st c snap recheck pre _; exact absurd (pre_fuel_pos pre) (Nat.lt_irrefl 0)
  | succ fuel IH =>
    intro st c snap recheck pre hsnap
    have hinv := pre.inv
    unfold pushEv
    by_cases hconn : st.isConn (st.recs c).ev.id = true
    · simp only [hconn, if_true]
      have hidc : (st.recs c).ev.id ∈ st.conn := by
        unfold St.isConn at hconn; simpa using hconn
      -- facts about the resulting state
      have hinc : (release (if recheck = true then { st with inc := incRemove st.inc (st.recs c).ev.id }
            else drop { st with inc := incRemove st.inc (st.recs c).ev.id } c errConnected) c).inc =
          incRemove st.inc (st.recs c).ev.id := by cases recheck <;> simp
      have hcn : (release (if recheck = true then { st with inc := incRemove st.inc (st.recs c).ev.id }
            else drop { st with inc := incRemove st.inc (st.recs c).ev.id } c errConnected) c).conn = st.conn := by
        cases recheck <;> simp
      have hrl : ∀ c', c' ≠ c → ((release (if recheck = true then { st with inc := incRemove st.inc (st.recs c).ev.id }
            else drop { st with inc := incRemove st.inc (st.recs c).ev.id } c errConnected) c).recs c').released =
          (st.recs c').released := by
        intro c' hne
        rw [release_released_other _ c c' hne]
        cases recheck <;> simp
      have hevs : ∀ c', ((release (if recheck = true then { st with inc := incRemove st.inc (st.recs c).ev.id }
            else drop { st with inc := incRemove st.inc (st.recs c).ev.id } c errConnected) c).recs c').ev =
          (st.recs c').ev := by
        intro c'
        rw [release_ev]
        cases recheck <;> simp
      have htr : ∀ t ∈ st.trace, t ∈ (release (if recheck = true then { st with inc := incRemove st.inc (st.recs c).ev.id }
            else drop { st with inc := incRemove st.inc (st.recs c).ev.id } c errConnected) c).trace := by
        intro t ht
        apply release_trace_sub
        cases recheck <;> simpa using ht
      exact {
        q1 := by
          intro p hp hr
          rw [hinc] at hp
          obtain ⟨hp1, hp2⟩ := mem_incRemove.1 hp
          rw [hrl p.2 (incId_ne hinv hp1 hp2)] at hr
          exact ⟨hp1, hr⟩
        q2 := by
          intro p hp hr hc
          rw [hinc] at hp
          obtain ⟨hp1, hp2⟩ := mem_incRemove.1 hp
          have hne := incId_ne hinv hp1 hp2
          refine ⟨hp1, hne, ?_⟩
          rw [hevs, complete_congr hcn] at hc
          exact hc
        q3 := by
          intro i hi
          rw [hcn, hinc]
          rcases hi with hi | hi
          · exact Or.inl hi
          · by_cases e : i = (st.recs c).ev.id
            · subst e; exact Or.inl hidc
            · exact Or.inr (mem_ids_remove hi e)
        q3c := by rw [hcn]; exact Or.inl hidc
        q4 := by intro i hi; rw [hcn] at hi; exact Or.inl hi
        q5 := htr }
    · simp only [hconn, Bool.false_eq_true, if_false]
      by_cases hcomp : st.complete (st.recs c).ev = true
      · simp only [hcomp, Bool.not_true, Bool.false_eq_true, if_false]
        rw [processComplete_allOk]
        simp only [if_true]
        -- s0: after Check, Process (both succeed) and Released
        have hpc : (processComplete Oracle.allOk st c).1 =
            { st with trace := .process c true :: .check c true :: st.trace, conn := (st.recs c).ev.id :: st.conn } := by
          rw [processComplete_allOk]
        have hinv0 : Inv init x (okState st c) := by
          have := procRel_inv Oracle.allOk hinv c pre.hc pre.unreleased hcomp
          rw [hpc] at this; exact this
        have hfr0 : Frame st (okState st c) := by
          have := procRel_frame Oracle.allOk st c
          rw [hpc] at this; exact this
        have hrelc : ((okState st c).recs c).released = true := release_released_self _ c
        have hrl0 : ∀ c', c' ≠ c → ((okState st c).recs c').released = (st.recs c').released := by
          intro c' hne; unfold okState; rw [release_released_other _ c c' hne]
        have htr0 : ∀ t ∈ (Cb.process c true :: Cb.check c true :: st.trace),
            t ∈ (okState st c).trace := by
          intro t ht; exact release_trace_sub _ c t ht
        -- generic conclusion from the loop's result
        have key : ∀ (list : List Nat) (s3 : St),
            (∀ p ∈ st.inc, p.2 ∈ list) →
            Inv init x s3 → Frame (okState st c) s3 → List.Sublist s3.inc st.inc →
            (∀ p ∈ s3.inc, (s3.recs p.2).released = true → p ∈ st.inc ∧
              ((okState st c).recs p.2).released = true) →
            (∀ p ∈ s3.inc, (s3.recs p.2).released = false → s3.complete (s3.recs p.2).ev = true →
              st.complete (st.recs p.2).ev = true) →
            (∀ i, (i ∈ (st.recs c).ev.id :: st.conn ∨ i ∈ st.inc.map (·.1)) → (i ∈ s3.conn ∨ i ∈ s3.inc.map (·.1))) →
            (∀ i ∈ s3.conn, i ∈ (st.recs c).ev.id :: st.conn ∨
              ∃ c', c' < st.n ∧ Cb.process c' true ∈ s3.trace ∧ (st.recs c').ev.id = i) →
            (∀ t ∈ (okState st c).trace, t ∈ s3.trace) →
            LPost st { s3 with inc := incRemove s3.inc (st.recs c).ev.id } c := by
          intro list s3 _ hinv3 hfr3 hsub3 g1 g2 g3 g4 g5
          have hcin : (st.recs c).ev.id ∈ s3.conn := hfr3.conn_mono _ (by show _ ∈ (st.recs c).ev.id :: st.conn; exact List.mem_cons_self)
          have hne3 : ∀ p ∈ s3.inc, p.1 ≠ (st.recs c).ev.id → p.2 ≠ c := by
            intro p hp hne
            exact incId_ne hinv (hsub3.subset hp) hne
          exact {
            q1 := by
              intro p hp hr
              obtain ⟨hp1, hp2⟩ := mem_incRemove.1 hp
              obtain ⟨a, b⟩ := g1 p hp1 hr
              rw [hrl0 p.2 (hne3 p hp1 hp2)] at b
              exact ⟨a, b⟩
            q2 := by
              intro p hp hr hc
              obtain ⟨hp1, hp2⟩ := mem_incRemove.1 hp
              exact ⟨hsub3.subset hp1, hne3 p hp1 hp2, g2 p hp1 hr hc⟩
            q3 := by
              intro i hi
              have : i ∈ (st.recs c).ev.id :: st.conn ∨ i ∈ st.inc.map (·.1) := by
                rcases hi with hi | hi
                · exact Or.inl (List.mem_cons_of_mem _ hi)
                · exact Or.inr hi
              rcases g3 i this with r | r
              · exact Or.inl r
              · by_cases e : i = (st.recs c).ev.id
                · subst e; exact Or.inl hcin
                · exact Or.inr (mem_ids_remove r e)
            q3c := Or.inl hcin
            q4 := by
              intro i hi
              rcases g4 i hi with r | r
              · rcases List.mem_cons.1 r with e | e
                · refine Or.inr ⟨c, pre.hc, g5 _ (htr0 _ List.mem_cons_self), e.symm⟩
                · exact Or.inl e
              · exact Or.inr r
            q5 := by
              intro t ht
              exact g5 _ (htr0 _ (List.mem_cons_of_mem _ (List.mem_cons_of_mem _ ht))) }
        -- run the loop
        have run : ∀ (list : List Nat), (∀ p ∈ st.inc, p.2 ∈ list) → (∀ ch ∈ list, ch < st.n) →
            (st.recs x).released = true ∨ x = c →
            unrel (okState st c) list ≤ fuel →
            LPost st { (loopChildren true (fun s ch => (pushEv true Oracle.allOk fuel s ch (some list) true).1)
                (st.recs c).ev.id list (okState st c)) with
              inc := incRemove (loopChildren true (fun s ch => (pushEv true Oracle.allOk fuel s ch (some list) true).1)
                (st.recs c).ev.id list (okState st c)).inc (st.recs c).ev.id } c := by
          intro list hsub hbound hx hfuel
          have IHs : ∀ s c', Pre init x s c' (some list) true fuel →
              Post init x s (pushEv true Oracle.allOk fuel s c' (some list) true).1 c' true :=
            fun s c' p => pushEv_post init x Oracle.allOk fuel s c' (some list) true p
          have IHl : ∀ s c', Pre init x s c' (some list) true fuel → (∀ p ∈ s.inc, p.2 ∈ list) →
              LPost s (pushEv true Oracle.allOk fuel s c' (some list) true).1 c' :=
            fun s c' p hs => IH s c' (some list) true p (by intro l hl; cases hl; exact hs)
          have hx0 : ((okState st c).recs x).released = true := by
            rcases hx with hx | hx
            · exact hfr0.rel_mono x hx
            · rw [hx]; exact hrelc
          have hb0 : ∀ ch ∈ list, ch < (okState st c).n := hbound
          obtain ⟨a, b, d⟩ := loop_post init x Oracle.allOk fuel list (st.recs c).ev.id IHs list (fun _ h => h) _ hinv0
            hx0 hb0 hfuel
          obtain ⟨l1, l2, l3, l4, l5⟩ := loop_live init x fuel list st _ (st.recs c).ev.id rfl hfr0.ev_eq IHs IHl
            list (fun _ h => h) _ hinv0 hx0 hb0 hfuel (Frame.refl _) hsub
            (fun p hp hr => ⟨hp, hr⟩)
            (fun p hp _ hc => ⟨hc, Or.inr (hsub p hp)⟩)
            (fun i hi => hi) (fun i hi => Or.inl hi) (fun t ht => ht)
          have l4' : ∀ i ∈ (loopChildren true (fun s ch => (pushEv true Oracle.allOk fuel s ch (some list) true).1)
              (st.recs c).ev.id list (okState st c)).conn, i ∈ (st.recs c).ev.id :: st.conn ∨
              ∃ c', c' < st.n ∧ Cb.process c' true ∈ (loopChildren true
                (fun s ch => (pushEv true Oracle.allOk fuel s ch (some list) true).1)
                (st.recs c).ev.id list (okState st c)).trace ∧ (st.recs c').ev.id = i := by
            intro i hi
            rcases l4 i hi with r | ⟨c', h1, h2, h3⟩
            · exact Or.inl r
            · exact Or.inr ⟨c', h1, h2, by rw [← hfr0.ev_eq]; exact h3⟩
          exact key list _ hsub a b d l1 l2 l3 l4' l5
        rcases pre.mode with ⟨hre, hx, hmem, list, hsn, hcl, hbound, hfuel⟩ | ⟨hre, hxc, hnew, hsn, hfuel, hlt⟩
        · subst hsn
          simp only [Option.getD_some]
          have hlt := unrel_lt hfr0.rel_mono list c hcl pre.unreleased hrelc
          exact run list (hsnap list rfl) hbound (Or.inl hx) (by omega)
        · subst hsn
          simp only [Option.getD_none]
          have hb : ∀ ch ∈ st.inc.map (·.2), ch < st.n := by
            intro ch hch
            obtain ⟨p, hp, rfl⟩ := List.mem_map.1 hch
            exact (hinv.incId p hp).2
          have hf : unrel (okState st c) (st.inc.map (·.2)) ≤ fuel := by
            have := unrel_le_length (okState st c) (st.inc.map (·.2))
            rw [List.length_map] at this
            omega
          exact run (st.inc.map (·.2)) (fun p hp => List.mem_map.2 ⟨p, hp, rfl⟩) hb (Or.inr hxc) hf
      · have hcomp' : st.complete (st.recs c).ev = false := by simpa using hcomp
        simp only [hcomp', Bool.not_false, if_true]
        rcases pre.mode with ⟨hre, _, hmem, _⟩ | ⟨hre, hxc, hnew, _, _, hlt⟩
        · subst hre
          simp only [if_true]
          exact {
            q1 := fun p hp hr => ⟨hp, hr⟩
            q2 := by
              intro p hp _ hc
              refine ⟨hp, ?_, hc⟩
              intro e; rw [e, hcomp'] at hc; cases hc
            q3 := fun i hi => hi
            q3c := Or.inr (List.mem_map.2 ⟨_, hmem, rfl⟩)
            q4 := fun i hi => Or.inl hi
            q5 := fun t ht => ht }
        · subst hre
          simp only [Bool.false_eq_true, if_false]
          have hrm : incRemove st.inc (st.recs c).ev.id = st.inc := by
            unfold incRemove
            rw [List.filter_eq_self]
            intro p hp
            simpa using hnew p hp
          have hinc : incAdd st.inc (st.recs c).ev.id c = st.inc ++ [((st.recs c).ev.id, c)] := by
            unfold incAdd; rw [hrm]
          exact {
            q1 := by
              intro p hp hr
              have hp' : p ∈ st.inc ++ [((st.recs c).ev.id, c)] := by rw [← hinc]; exact hp
              rcases List.mem_append.1 hp' with h | h
              · exact ⟨h, hr⟩
              · simp at h; subst h
                have : (st.recs c).released = true := hr
                rw [pre.unreleased] at this; cases this
            q2 := by
              intro p hp _ hc
              have hp' : p ∈ st.inc ++ [((st.recs c).ev.id, c)] := by rw [← hinc]; exact hp
              have hc' : st.complete (st.recs p.2).ev = true := hc
              have hne : p.2 ≠ c := by intro e; rw [e, hcomp'] at hc'; cases hc'
              rcases List.mem_append.1 hp' with h | h
              · exact ⟨h, hne, hc'⟩
              · simp at h; subst h; exact absurd rfl hne
            q3 := by
              intro i hi
              rcases hi with hi | hi
              · exact Or.inl hi
              · right
                show i ∈ (incAdd st.inc (st.recs c).ev.id c).map (·.1)
                rw [hinc, List.map_append]
                exact List.mem_append_left _ hi
            q3c := by
              right
              show _ ∈ (incAdd st.inc (st.recs c).ev.id c).map (·.1)
              rw [hinc]; simp
            q4 := fun i hi => Or.inl hi
            q5 := fun t ht => ht }

end C14
