import LachesisVerif.Proofs.BufferSteps
/-! C14: the recursive `pushEvent` with its stale snapshot preserves the invariant, and the fuel
    `|incompletes| + 1` is never exhausted. -/
namespace C14
open Model.EventsBuffer

/-- number of not yet released members of the snapshot: bounds the remaining recursion depth -/
def unrel (st : St) (l : List Nat) : Nat := (l.filter (fun ch => !(st.recs ch).released)).length

theorem unrel_le_length (st : St) (l : List Nat) : unrel st l ≤ l.length := List.length_filter_le _ _

theorem unrel_mono {s s' : St} (h : ∀ c, (s.recs c).released = true → (s'.recs c).released = true) (l : List Nat) :
    unrel s' l ≤ unrel s l := by
  unfold unrel
  induction l with
  | nil => simp
  | cons a l ih =>
    simp only [List.filter_cons]
    cases hs : (s.recs a).released
    · cases hs' : (s'.recs a).released <;> simp <;> omega
    · rw [h a hs]; simpa using ih

theorem unrel_lt {s s' : St} (h : ∀ c, (s.recs c).released = true → (s'.recs c).released = true) (l : List Nat) (c : Nat)
    (hc : c ∈ l) (h1 : (s.recs c).released = false) (h2 : (s'.recs c).released = true) : unrel s' l < unrel s l := by
  induction l with
  | nil => cases hc
  | cons a l ih =>
    have hm := unrel_mono h l
    unfold unrel at hm ih ⊢
    simp only [List.filter_cons]
    by_cases e : a = c
    · subst e; rw [h1, h2]; simp; omega
    · have hc' : c ∈ l := by
        rcases List.mem_cons.1 hc with r | r
        · exact absurd r.symm e
        · exact r
      have := ih hc'
      cases hs : (s.recs a).released
      · cases hs' : (s'.recs a).released <;> simp <;> omega
      · rw [h a hs]; simpa using this

theorem fst_unique {inc : List (Nat × Nat)} (hnd : (inc.map (·.1)).Nodup) {p q : Nat × Nat}
    (hp : p ∈ inc) (hq : q ∈ inc) (e : p.1 = q.1) : p = q := by
  induction inc with
  | nil => cases hp
  | cons a l ih =>
    simp only [List.map_cons, List.nodup_cons] at hnd
    rcases List.mem_cons.1 hp with rp | rp <;> rcases List.mem_cons.1 hq with rq | rq
    · rw [rp, rq]
    · subst rp; exact absurd (List.mem_map.2 ⟨q, rq, e.symm⟩) hnd.1
    · subst rq; exact absurd (List.mem_map.2 ⟨p, rp, e⟩) hnd.1
    · exact ih hnd.2 rp rq

structure Pre (init : List Nat) (x : Nat) (st : St) (c : Nat) (snap : Option (List Nat)) (recheck : Bool)
    (fuel : Nat) : Prop where
  inv : Inv init x st
  hc : c < st.n
  unreleased : (st.recs c).released = false
  mode : (recheck = true ∧ (st.recs x).released = true ∧ ((st.recs c).ev.id, c) ∈ st.inc ∧
            ∃ list, snap = some list ∧ c ∈ list ∧ (∀ ch ∈ list, ch < st.n) ∧ unrel st list ≤ fuel) ∨
         (recheck = false ∧ x = c ∧ (∀ p ∈ st.inc, p.1 ≠ (st.recs c).ev.id) ∧ snap = none ∧
            st.inc.length + 1 ≤ fuel ∧ st.inc.length < st.n)

structure Post (init : List Nat) (x : Nat) (st st' : St) (c : Nat) (recheck : Bool) : Prop where
  inv : Inv init x st'
  frame : Frame st st'
  sub : recheck = true → List.Sublist st'.inc st.inc
  done : (st'.recs c).released = true ∨ ((st'.recs c).ev.id, c) ∈ st'.inc

theorem loop_post (init : List Nat) (x : Nat) (O : Oracle) (fuel : Nat) (list : List Nat) (eid : Nat)
    (IH : ∀ st c, Pre init x st c (some list) true fuel →
      Post init x st (pushEv true O fuel st c (some list) true).1 c true) :
    ∀ rest, (∀ ch ∈ rest, ch ∈ list) → ∀ s, Inv init x s → (s.recs x).released = true →
      (∀ ch ∈ list, ch < s.n) → unrel s list ≤ fuel →
      Inv init x (loopChildren true (fun s ch => (pushEv true O fuel s ch (some list) true).1) eid rest s) ∧
      Frame s (loopChildren true (fun s ch => (pushEv true O fuel s ch (some list) true).1) eid rest s) ∧
      List.Sublist (loopChildren true (fun s ch => (pushEv true O fuel s ch (some list) true).1) eid rest s).inc s.inc := by
  intro rest
  induction rest with
  | nil => intro _ s hs _ _ _; exact ⟨hs, Frame.refl s, List.Sublist.refl _⟩
  | cons ch rest ih =>
    intro hmem s hs hx hbound hfuel
    have hrest : ∀ ch' ∈ rest, ch' ∈ list := fun ch' h => hmem ch' (List.mem_cons_of_mem _ h)
    unfold loopChildren
    by_cases hrel : (s.recs ch).released = true
    · simp only [hrel, Bool.and_self, if_true]
      exact ih hrest s hs hx hbound hfuel
    · have hun : (s.recs ch).released = false := by simpa using hrel
      by_cases hpar : (s.recs ch).ev.parents.contains eid = true
      · simp only [hun, Bool.and_false, Bool.false_eq_true, if_false, hpar, if_true]
        have hchl : ch ∈ list := hmem ch List.mem_cons_self
        have hchn : ch < s.n := hbound ch hchl
        have hne : ch ≠ x := by intro e; subst e; rw [hx] at hun; cases hun
        have pre : Pre init x s ch (some list) true fuel :=
          ⟨hs, hchn, hun, Or.inl ⟨rfl, hx, hs.buffered ch hchn hne hun, list, rfl, hchl, hbound, hfuel⟩⟩
        have post := IH s ch pre
        have hx' := post.frame.rel_mono x hx
        have hbound' : ∀ c' ∈ list, c' < (pushEv true O fuel s ch (some list) true).1.n := by
          intro c' hc'; rw [post.frame.n_eq]; exact hbound c' hc'
        have hfuel' := Nat.le_trans (unrel_mono post.frame.rel_mono list) hfuel
        obtain ⟨a, b, c⟩ := ih hrest _ post.inv hx' hbound' hfuel'
        exact ⟨a, Frame.trans post.frame b, List.Sublist.trans c (post.sub rfl)⟩
      · simp only [hun, Bool.and_false, Bool.false_eq_true, if_false, hpar]
        exact ih hrest s hs hx hbound hfuel

theorem release_inc_comm (st : St) (c : Nat) (I : List (Nat × Nat)) :
    release { st with inc := I } c = { release st c with inc := I } := rfl

theorem pushEv_post (init : List Nat) (x : Nat) (O : Oracle) :
    ∀ fuel st c snap recheck, Pre init x st c snap recheck fuel →
      Post init x st (pushEv true O fuel st c snap recheck).1 c recheck := by
  intro fuel
  induction fuel with
  | zero =>
    intro st c snap recheck pre
    exfalso
    rcases pre.mode with ⟨_, _, _, list, _, hcl, _, hf⟩ | ⟨_, _, _, _, hf, _⟩
    · have : unrel st list ≥ 1 := by
        unfold unrel
        apply List.length_pos_iff.2
        intro e
        have : c ∈ list.filter (fun ch => !(st.recs ch).released) :=
          List.mem_filter.2 ⟨hcl, by simp [pre.unreleased]⟩
        rw [e] at this; cases this
      omega
    · omega
  | succ fuel IH =>
    intro st c snap recheck pre
    have hinv := pre.inv
    unfold pushEv
    by_cases hconn : st.isConn (st.recs c).ev.id = true
    · -- Exists: remove from incompletes, release
      simp only [hconn, if_true]
      have hstate : (release (if recheck = true then { st with inc := incRemove st.inc (st.recs c).ev.id }
            else drop { st with inc := incRemove st.inc (st.recs c).ev.id } c errConnected) c) =
          { release (if recheck = true then st else drop st c errConnected) c with
            inc := incRemove st.inc (st.recs c).ev.id } := by
        cases recheck
        · simp only [Bool.false_eq_true, if_false]
          unfold drop
          split <;> rfl
        · rfl
      rw [hstate]
      have hinv1 : Inv init x (if recheck = true then st else drop st c errConnected) := by
        cases recheck
        · exact drop_inv hinv c errConnected
        · exact hinv
      have hfr1 : Frame st (if recheck = true then st else drop st c errConnected) := by
        cases recheck
        · exact drop_frame st c errConnected
        · exact Frame.refl st
      have hn1 : (if recheck = true then st else drop st c errConnected).n = st.n := hfr1.n_eq
      have hinv2 := release_inv hinv1 c (by rw [hn1]; exact pre.hc)
      have hfr2 := Frame.trans hfr1 (release_frame _ c)
      have hinc2 : (release (if recheck = true then st else drop st c errConnected) c).inc = st.inc := by
        cases recheck <;> simp
      have hrelc : ((release (if recheck = true then st else drop st c errConnected) c).recs c).released = true :=
        release_released_self _ c
      have hev2 : ∀ c', ((release (if recheck = true then st else drop st c errConnected) c).recs c').ev = (st.recs c').ev :=
        hfr2.ev_eq
      have hinv3 := remove_inv hinv2 (st.recs c).ev.id (by
        intro p hp he
        rw [hinc2] at hp
        rcases pre.mode with ⟨_, _, hmem, _⟩ | ⟨_, _, hnew, _⟩
        · have := fst_unique hinv.incNodup hp hmem he
          subst this
          exact Or.inl hrelc
        · exact absurd he (hnew p hp))
      rw [hinc2] at hinv3
      exact {
        inv := hinv3
        frame := ⟨hfr2.n_eq, hfr2.ev_eq, hfr2.tag_eq, hfr2.rel_mono, hfr2.conn_mono⟩
        sub := fun _ => incRemove_sublist _ _
        done := Or.inl hrelc }
    · simp only [hconn, Bool.false_eq_true, if_false]
      by_cases hcomp : st.complete (st.recs c).ev = true
      · -- parents connected: check, process, release, re-push the waiting children, remove
        simp only [hcomp, Bool.not_true, Bool.false_eq_true, if_false]
        have hinv2 := procRel_inv O hinv c pre.hc pre.unreleased hcomp
        have hfr2 := procRel_frame O st c
        have hinc2 : (release (processComplete O st c).1 c).inc = st.inc := by
          rw [release_inc, processComplete_inc]
        have hrelc : ((release (processComplete O st c).1 c).recs c).released = true := release_released_self _ c
        -- the state after the loop (or without it)
        have key : ∀ s3 : St, Inv init x s3 → Frame (release (processComplete O st c).1 c) s3 →
            List.Sublist s3.inc (release (processComplete O st c).1 c).inc →
            Post init x st { s3 with inc := incRemove s3.inc (st.recs c).ev.id } c recheck := by
          intro s3 hinv3 hfr3 hsub3
          have hfr : Frame st s3 := Frame.trans hfr2 hfr3
          have hrel3 : (s3.recs c).released = true := hfr3.rel_mono c hrelc
          have hinv4 := remove_inv hinv3 (st.recs c).ev.id (by
            intro p hp he
            have hp' : p ∈ st.inc := by rw [← hinc2]; exact hsub3.subset hp
            rcases pre.mode with ⟨_, _, hmem, _⟩ | ⟨_, _, hnew, _⟩
            · have := fst_unique hinv.incNodup hp' hmem he
              subst this
              exact Or.inl hrel3
            · exact absurd he (hnew p hp'))
          exact {
            inv := hinv4
            frame := ⟨hfr.n_eq, hfr.ev_eq, hfr.tag_eq, hfr.rel_mono, hfr.conn_mono⟩
            sub := fun _ => List.Sublist.trans (incRemove_sublist _ _) (by rw [← hinc2]; exact hsub3)
            done := Or.inl hrel3 }
        cases hok : (processComplete O st c).2
        · simp only [Bool.false_eq_true, if_false]
          exact key _ hinv2 (Frame.refl _) (List.Sublist.refl _)
        · simp only [if_true]
          -- the snapshot
          rcases pre.mode with ⟨hre, hx, hmem, list, hsnap, hcl, hbound, hfuel⟩ | ⟨hre, hxc, hnew, hsnap, hfuel, hlt⟩
          · subst hsnap
            simp only [Option.getD_some]
            have IH' : ∀ st' c', Pre init x st' c' (some list) true fuel →
                Post init x st' (pushEv true O fuel st' c' (some list) true).1 c' true :=
              fun st' c' p => IH st' c' (some list) true p
            have hlt := unrel_lt hfr2.rel_mono list c hcl pre.unreleased hrelc
            obtain ⟨a, b, d⟩ := loop_post init x O fuel list (st.recs c).ev.id IH' list (fun _ h => h) _ hinv2
              (hfr2.rel_mono x hx) (by intro ch hch; rw [hfr2.n_eq]; exact hbound ch hch) (by omega)
            exact key _ a b d
          · subst hsnap
            simp only [Option.getD_none]
            have IH' : ∀ st' c', Pre init x st' c' (some ((release (processComplete O st c).1 c).inc.map (·.2))) true fuel →
                Post init x st' (pushEv true O fuel st' c' (some ((release (processComplete O st c).1 c).inc.map (·.2))) true).1 c' true :=
              fun st' c' p => IH st' c' _ true p
            have hb : ∀ ch ∈ (release (processComplete O st c).1 c).inc.map (·.2), ch < (release (processComplete O st c).1 c).n := by
              intro ch hch
              obtain ⟨p, hp, rfl⟩ := List.mem_map.1 hch
              exact (hinv2.incId p hp).2
            have hf : unrel (release (processComplete O st c).1 c) ((release (processComplete O st c).1 c).inc.map (·.2)) ≤ fuel := by
              have := unrel_le_length (release (processComplete O st c).1 c) ((release (processComplete O st c).1 c).inc.map (·.2))
              have hl : ((release (processComplete O st c).1 c).inc.map (·.2)).length = st.inc.length := by
                rw [List.length_map, hinc2]
              omega
            obtain ⟨a, b, d⟩ := loop_post init x O fuel _ (st.recs c).ev.id IH' _ (fun _ h => h) _ hinv2
              (by rw [hxc]; exact hrelc) hb hf
            exact key _ a b d
      · -- a parent is missing
        have hcomp' : st.complete (st.recs c).ev = false := by simpa using hcomp
        simp only [hcomp', Bool.not_false, if_true]
        rcases pre.mode with ⟨hre, _, hmem, _⟩ | ⟨hre, hxc, hnew, _, _, hlt⟩
        · subst hre
          simp only [if_true]
          exact ⟨hinv, Frame.refl st, fun _ => List.Sublist.refl _, Or.inr hmem⟩
        · subst hre
          simp only [Bool.false_eq_true, if_false]
          subst hxc
          have hinv' := add_inv hinv pre.hc hnew hlt x
          have hmem : ((st.recs x).ev.id, x) ∈ incAdd st.inc (st.recs x).ev.id x := by
            unfold incAdd; simp
          exact {
            inv := hinv'
            frame := ⟨rfl, fun _ => rfl, fun _ => rfl, fun _ h => h, fun _ h => h⟩
            sub := fun h => Bool.noConfusion h
            done := Or.inr hmem }

end C14
