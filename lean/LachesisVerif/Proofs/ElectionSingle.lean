import LachesisVerif.Proofs.ElectionRefine
import LachesisVerif.Model.Orderer
/-!
Single-election refinement (C10), part D: one `processRoot` call and whole runs (`runRoots`, the
shape of `Orderer.processKnownRoots` / `knownRootsFrame`) refine the graph-level rules.
-/
namespace ElectionRefine
open Model.Pos Model.Election ElectionRules ElectionProofs VecProofs

section Step
variable {N : Net} {vals : Vals} {f : Nat} {observe : Nat → Nat → Bool} {frameRoots : Nat → List Root}

/-- state after the voting branch is sound, and the new root's votes are stored -/
theorem pushAll_sound (S : Setup N vals f observe frameRoots) {el : Election} (js : JS N vals f frameRoots el)
    (fed : List Root) (hst : Stored f fed el) (nr : Root) (hroot : nr ∈ frameRoots nr.frame)
    (hlt : f < nr.frame) (vf : Nat → VoteValue)
    (hvf : ∀ s ∈ notDecided el, VF N f (nr.frame - f) nr.id s (vf s)) :
    JS N vals f frameRoots (pushAll nr vf (notDecided el) el) ∧
    Stored f (nr :: fed) (pushAll nr vf (notDecided el) el) := by
  have hsub : ∀ s ∈ notDecided el, s < N.nVals := by
    intro s hs
    have := (List.mem_filter.1 hs).1
    rw [js.vals, canon_ids S.vals.canon] at this
    exact List.mem_range.1 this
  have hvals : (pushAll nr vf (notDecided el) el).vals = el.vals := pushAll_vals _ _ _ _
  constructor
  · refine { ftd := (pushAll_ftd _ _ _ _).trans js.ftd, vals := hvals.trans js.vals, votes := ?_, decided := ?_ }
    · intro r s vote hm
      rcases (pushAll_votes_mem nr vf (notDecided el) el _).1 hm with h | ⟨s', hs', h⟩
      · exact js.votes r s vote h
      · cases h
        have v := hvf s hs'
        exact ⟨hlt, hroot, hsub s hs', v.yes, v.cand⟩
    · intro s vote hm
      rcases (pushAll_decided_mem nr vf (notDecided el) el _).1 hm with h | ⟨s', hs', hd, h⟩
      · exact js.decided s vote h
      · cases h
        have v := hvf s hs'
        exact ⟨hsub s hs', fun hy => ⟨⟨_, _, v.decYes hd hy⟩, v.cand hy⟩, fun hy => ⟨_, _, v.decNo hd hy⟩⟩
  · intro r hr hfr s hs
    have hs' : s ∈ notDecided el := notDecided_sub hvals
      (fun x hx => (pushAll_decided_mem nr vf (notDecided el) el x).2 (Or.inl hx)) s hs
    apply lookup_isSome_of_key
    rcases List.mem_cons.1 hr with rfl | hr
    · exact List.mem_map.2 ⟨((r, s), vf s), (pushAll_votes_mem r vf (notDecided el) el _).2 (Or.inr ⟨s, hs', rfl⟩), rfl⟩
    · obtain ⟨vote, hl⟩ := hst r hr hfr s hs'
      exact List.mem_map.2 ⟨((r, s), vote), (pushAll_votes_mem nr vf (notDecided el) el _).2
        (Or.inl (lookup_mem _ _ _ hl)), rfl⟩

/-- one `processRoot` call on a sound state: either it reports "all decided no" (and all validators
    are decided no by the rules), or it succeeds, the new state is sound, a returned Atropos is the
    Atropos of the rules, and if nothing is returned the root's votes have been stored -/
theorem processRoot_refines (S : Setup N vals f observe frameRoots) {el : Election} (js : JS N vals f frameRoots el)
    (fed : List Root) (hst : Stored f fed el) (nr : Root) (hroot : nr ∈ frameRoots nr.frame)
    (hb : nr.frame < 4294967296)
    (hclosed : ∀ p ∈ frameRoots (nr.frame - 1), f < p.frame → observe nr.id p.id = true → p ∈ fed) :
    (processRoot observe frameRoots el nr = .error .allNo ∧ ∀ v, v < N.nVals → N.DecidedNo f v) ∨
    (∃ el' res, processRoot observe frameRoots el nr = .ok (el', res) ∧ JS N vals f frameRoots el' ∧
      (res = none → Stored f (nr :: fed) el') ∧ (∀ f' a, res = some (f', a) → f' = f ∧ N.IsAtropos f a)) := by
  rw [processRoot_eq]
  cases hc : chooseAtropos el with
  | error e =>
    obtain ⟨rfl, hall⟩ := choose_error S.vals js e hc
    exact Or.inl ⟨rfl, hall⟩
  | ok r =>
    cases r with
    | some r =>
      refine Or.inr ⟨el, some r, rfl, js, (by intro h; cases h), ?_⟩
      intro f' a h; cases h
      exact choose_some S.vals js f' a hc
    | none =>
      simp only
      by_cases hs : Gen.Election.skipOldRoot nr.frame el.frameToDecide = true
      · rw [if_pos hs]
        refine Or.inr ⟨el, none, rfl, js, fun _ => ?_, (by intro f' a h; cases h)⟩
        intro r hr hfr s hs'
        rcases List.mem_cons.1 hr with rfl | hr
        · exfalso
          unfold Gen.Election.skipOldRoot at hs
          rw [js.ftd] at hs
          simp only [decide_eq_true_eq] at hs
          omega
        · exact hst r hr hfr s hs'
      · rw [if_neg hs]
        have hs' : Gen.Election.skipOldRoot nr.frame el.frameToDecide = false := by simpa using hs
        obtain ⟨hvl, hlt, hvf⟩ := vote_branch S js fed hst nr hroot hb hclosed hs'
        obtain ⟨_, hround, _, _, _⟩ := round_facts nr.frame el.frameToDecide hb (by rw [js.ftd]; exact S.fbound) hs'
        have hz : Gen.Election.roundZero (Gen.Election.round nr.frame el.frameToDecide) = false := by
          rw [hround, js.ftd]; unfold Gen.Election.roundZero; simp only [decide_eq_false_iff_not]; omega
        rw [hz, hvl]
        simp only [Bool.false_eq_true, if_false]
        obtain ⟨js', hst'⟩ := pushAll_sound S js fed hst nr hroot hlt _ hvf
        cases hc2 : chooseAtropos (pushAll nr (voteOf observe frameRoots el nr) (notDecided el) el) with
        | error e =>
          obtain ⟨rfl, hall⟩ := choose_error S.vals js' e hc2
          exact Or.inl ⟨rfl, hall⟩
        | ok res =>
          refine Or.inr ⟨_, res, rfl, js', fun _ => hst', ?_⟩
          intro f' a h; subst h
          exact choose_some S.vals js' f' a hc2

end Step
/-- feed roots to one election until it returns something (the loop of `processKnownRoots`) -/
def runRoots (observe : Nat → Nat → Bool) (frameRoots : Nat → List Root) :
    Election → List Root → Except ElErr (Election × Option (Nat × Nat))
  | el, [] => .ok (el, none)
  | el, r :: rs =>
    match processRoot observe frameRoots el r with
    | .error x => .error x
    | .ok (el', some res) => .ok (el', some res)
    | .ok (el', none) => runRoots observe frameRoots el' rs

/-- the Orderer's inner loop over known roots is `runRoots` -/
theorem knownRootsFrame_eq (env : Model.Orderer.Env) (s : Model.Orderer.OState) (rs : List Root) (el : Election) :
    Model.Orderer.knownRootsFrame env s rs el = runRoots env.observe (Model.Orderer.frameRoots s) el rs := by
  induction rs generalizing el with
  | nil => rfl
  | cons r rest ih =>
    simp only [Model.Orderer.knownRootsFrame, runRoots]
    cases processRoot env.observe (Model.Orderer.frameRoots s) el r with
    | error x => rfl
    | ok p =>
      obtain ⟨el', res⟩ := p
      cases res with
      | some x => rfl
      | none => exact ih el'

/-- every fed root is a root (frame below 2^32), and the roots of the previous frame it observes
    (frames above the one to decide) were fed before it; `fed` = what was fed earlier -/
def FeedClosed (observe : Nat → Nat → Bool) (frameRoots : Nat → List Root) (f : Nat) : List Root → List Root → Prop
  | _, [] => True
  | fed, r :: rs =>
    (r ∈ frameRoots r.frame ∧ r.frame < 4294967296 ∧
      ∀ p ∈ frameRoots (r.frame - 1), f < p.frame → observe r.id p.id = true → p ∈ fed) ∧
    FeedClosed observe frameRoots f (r :: fed) rs

/-- frame-ascending, complete lists of roots are closed feeds -/
theorem feedClosed_of_ascending (observe : Nat → Nat → Bool) (frameRoots : Nat → List Root) (f : Nat)
    (hfr : ∀ g p, p ∈ frameRoots g → p.frame = g) (rs : List Root) :
    ∀ fed, rs.Pairwise (fun a b => a.frame ≤ b.frame) →
      (∀ r ∈ rs, r ∈ frameRoots r.frame ∧ r.frame < 4294967296 ∧
        ∀ p ∈ frameRoots (r.frame - 1), f < p.frame → p ∈ fed ∨ p ∈ rs) →
      FeedClosed observe frameRoots f fed rs := by
  induction rs with
  | nil => intro _ _ _; trivial
  | cons r rest ih =>
    intro fed hpw hall
    obtain ⟨hp1, hp2⟩ := List.pairwise_cons.1 hpw
    obtain ⟨a, b, c⟩ := hall r List.mem_cons_self
    refine ⟨⟨a, b, ?_⟩, ih (r :: fed) hp2 ?_⟩
    · intro p hp hfp _
      have hpf := hfr _ p hp
      rcases c p hp hfp with h | h
      · exact h
      · rcases List.mem_cons.1 h with rfl | h
        · omega
        · have := hp1 p h; omega
    · intro r' hr'
      obtain ⟨a', b', c'⟩ := hall r' (List.mem_cons_of_mem _ hr')
      refine ⟨a', b', fun p hp hfp => ?_⟩
      rcases c' p hp hfp with h | h
      · exact Or.inl (List.mem_cons_of_mem _ h)
      · rcases List.mem_cons.1 h with rfl | h
        · exact Or.inl List.mem_cons_self
        · exact Or.inr h

section Run
variable {N : Net} {vals : Vals} {f : Nat} {observe : Nat → Nat → Bool} {frameRoots : Nat → List Root}

theorem runRoots_refines (S : Setup N vals f observe frameRoots) (rs : List Root) :
    ∀ (fed : List Root) (el : Election), JS N vals f frameRoots el → Stored f fed el →
      FeedClosed observe frameRoots f fed rs →
      (runRoots observe frameRoots el rs = .error .allNo ∧ ∀ v, v < N.nVals → N.DecidedNo f v) ∨
      (∃ el' res, runRoots observe frameRoots el rs = .ok (el', res) ∧ JS N vals f frameRoots el' ∧
        ∀ f' a, res = some (f', a) → f' = f ∧ N.IsAtropos f a) := by
  induction rs with
  | nil => intro fed el js _ _; exact Or.inr ⟨el, none, rfl, js, by intro f' a h; cases h⟩
  | cons r rest ih =>
    intro fed el js hst hfc
    obtain ⟨⟨h1, h2, h3⟩, hrest⟩ := hfc
    rcases processRoot_refines S js fed hst r h1 h2 h3 with ⟨he, hall⟩ | ⟨el', res, he, js', hst', hat⟩
    · exact Or.inl ⟨by simp only [runRoots, he], hall⟩
    · cases res with
      | some x => exact Or.inr ⟨el', some x, by simp only [runRoots, he], js', hat⟩
      | none =>
        have e : runRoots observe frameRoots el (r :: rest) = runRoots observe frameRoots el' rest := by
          simp only [runRoots, he]
        rw [e]
        exact ih (r :: fed) el' js' (hst' rfl) hrest

/-- `C10_single_election_partial` (proof): from `reset`, any closed feed of roots -/
theorem single_election (S : Setup N vals f observe frameRoots) (rs : List Root)
    (hfc : FeedClosed observe frameRoots f [] rs) :
    (runRoots observe frameRoots (reset vals f) rs = .error .allNo ∧ ∀ v, v < N.nVals → N.DecidedNo f v) ∨
    (∃ el' res, runRoots observe frameRoots (reset vals f) rs = .ok (el', res) ∧ JS N vals f frameRoots el' ∧
      ∀ f' a, res = some (f', a) → f' = f ∧ N.IsAtropos f a) :=
  runRoots_refines S rs [] (reset vals f) (JS_reset N vals f frameRoots) (by intro r hr; cases hr) hfc

end Run
/-! ### the hypotheses `Setup` are satisfiable for every valid BFT history -/
section Exists
open Classical

/-- canonical validator set of a net -/
noncomputable def canonVals (N : Net) : Vals := { sorted := (List.range N.nVals).map (fun i => (i, N.w i)), total := N.total }

/-- the roots of frame `g`, in position order -/
noncomputable def rootsOf (N : Net) (g : Nat) : List Root :=
  ((List.range N.h.length).filter (fun e => decide (N.IsRoot e g))).map (fun e => ⟨e, g, N.creator e⟩)

theorem rootsOf_mem (N : Net) (g : Nat) (r : Root) :
    r ∈ rootsOf N g ↔ (r.frame = g ∧ N.IsRoot r.id g ∧ r.validator = N.creator r.id) := by
  unfold rootsOf
  rw [List.mem_map]
  constructor
  · rintro ⟨e, he, rfl⟩
    have := (List.mem_filter.1 he).2
    exact ⟨rfl, by simpa using this, rfl⟩
  · rintro ⟨h1, h2, h3⟩
    refine ⟨r.id, List.mem_filter.2 ⟨List.mem_range.2 h2.1, by simpa using h2⟩, ?_⟩
    cases r; simp only at h1 h3; simp only [Root.mk.injEq, true_and]; exact ⟨h1.symm, h3.symm⟩

theorem rootsOf_nodup (N : Net) (g : Nat) : (rootsOf N g).Nodup := by
  unfold rootsOf List.Nodup
  rw [List.pairwise_map]
  have : ((List.range N.h.length).filter (fun e => decide (N.IsRoot e g))).Nodup :=
    List.Pairwise.filter _ List.nodup_range
  exact List.Pairwise.imp (fun hne heq => hne (by simpa using congrArg Root.id heq)) this

theorem canonVals_canon (N : Net) : Canon (canonVals N) N.nVals N.w := rfl

theorem setup_exists (N : Net) (f : Nat) (hv : Valid N.nVals N.h) (hfa : N.FramesAccepted) (hbft : N.BFT)
    (htot : N.total ≤ 2147483647) (hf : f < 4294967296) :
    Setup N (canonVals N) f (fun a b => decide (N.FC a b)) (rootsOf N) :=
  { vals := { canon := canonVals_canon N
              total := by
                show (C11.weights (canonVals N)).sum = N.total
                rw [canon_weights (canonVals_canon N)]
                unfold Net.total Net.weightOf
                simp only [decide_true]
                rw [List.filter_eq_self.2 (fun _ _ => rfl)]
              limit := (C11.limit_is_maxint32 _).2 htot }
    obs := fun a b => by simp
    roots_sound := fun g r h => (rootsOf_mem N g r).1 h
    roots_seen := roots_seen_of_iff (rootsOf_mem N)
    nodup := rootsOf_nodup N
    creators := fun e he => (valid_ev hv e he).creator_lt
    slots := N.slotUnique_of_BFT hv hfa hbft
    accepted := hfa
    fbound := hf }

end Exists
end ElectionRefine
