import LachesisVerif.Proofs.ElectionRefine
/-!
Single-election refinement (C10), part D: one `processRoot` call and whole runs (`runRoots`, the
shape of `Orderer.processKnownRoots` / `knownRootsFrame`) refine the graph-level rules.
-/
namespace ElectionRefine
open Model.Pos Model.Election ElectionRules ElectionProofs VecProofs

section Step
variable {N : Net} {vals : Vals} {f : Nat} {observe : Nat → Nat → Bool} {frameRoots : Nat → List Root}

/-- state after the voting branch is sound, and the new root's votes are stored -/
theorem pushAll_sound (S : Setup N vals f observe frameRoots) {el : Election} (js : JS N vals f frameRoots el)
    (fed : List Root) (hst : Stored f fed el) (nr : Root) (hroot : nr ∈ frameRoots nr.frame)
    (hlt : f < nr.frame) (vf : Nat → VoteValue)
    (hvf : ∀ s ∈ notDecided el, VF N f (nr.frame - f) nr.id s (vf s)) :
    JS N vals f frameRoots (pushAll nr vf (notDecided el) el) ∧
    Stored f (nr :: fed) (pushAll nr vf (notDecided el) el) := by
  have hsub : ∀ s ∈ notDecided el, s < N.nVals := by
    intro s hs
    have := (List.mem_filter.1 hs).1
    rw [js.vals, canon_ids S.vals.canon] at this
    exact List.mem_range.1 this
  have hvals : (pushAll nr vf (notDecided el) el).vals = el.vals := pushAll_vals _ _ _ _
  constructor
  · refine { ftd := (pushAll_ftd _ _ _ _).trans js.ftd, vals := hvals.trans js.vals, votes := ?_, decided := ?_ }
    · intro r s vote hm
      rcases (pushAll_votes_mem nr vf (notDecided el) el _).1 hm with h | ⟨s', hs', h⟩
      · exact js.votes r s vote h
      · cases h
        have v := hvf s hs'
        exact ⟨hlt, hroot, hsub s hs', v.yes, v.cand⟩
    · intro s vote hm
      rcases (pushAll_decided_mem nr vf (notDecided el) el _).1 hm with h | ⟨s', hs', hd, h⟩
      · exact js.decided s vote h
      · cases h
        have v := hvf s hs'
        exact ⟨hsub s hs', fun hy => ⟨⟨_, _, v.decYes hd hy⟩, v.cand hy⟩, fun hy => ⟨_, _, v.decNo hd hy⟩⟩
  · intro r hr hfr s hs
    have hs' : s ∈ notDecided el := notDecided_sub hvals
      (fun x hx => (pushAll_decided_mem nr vf (notDecided el) el x).2 (Or.inl hx)) s hs
    apply lookup_isSome_of_key
    rcases List.mem_cons.1 hr with rfl | hr
    · exact List.mem_map.2 ⟨((r, s), vf s), (pushAll_votes_mem r vf (notDecided el) el _).2 (Or.inr ⟨s, hs', rfl⟩), rfl⟩
    · obtain ⟨vote, hl⟩ := hst r hr hfr s hs'
      exact List.mem_map.2 ⟨((r, s), vote), (pushAll_votes_mem nr vf (notDecided el) el _).2
        (Or.inl (lookup_mem _ _ _ hl)), rfl⟩

/-- one `processRoot` call on a sound state: either it reports "all decided no" (and all validators
    are decided no by the rules), or it succeeds, the new state is sound, a returned Atropos is the
    Atropos of the rules, and if nothing is returned the root's votes have been stored -/
theorem processRoot_refines (S : Setup N vals f observe frameRoots) {el : Election} (js : JS N vals f frameRoots el)
    (fed : List Root) (hst : Stored f fed el) (nr : Root) (hroot : nr ∈ frameRoots nr.frame)
    (hb : nr.frame < 4294967296)
    (hclosed : ∀ p ∈ frameRoots (nr.frame - 1), f < p.frame → observe nr.id p.id = true → p ∈ fed) :
    (processRoot observe frameRoots el nr = .error .allNo ∧ ∀ v, v < N.nVals → N.DecidedNo f v) ∨
    (∃ el' res, processRoot observe frameRoots el nr = .ok (el', res) ∧ JS N vals f frameRoots el' ∧
      (res = none → Stored f (nr :: fed) el') ∧ (∀ f' a, res = some (f', a) → f' = f ∧ N.IsAtropos f a)) := by
  rw [processRoot_eq]
  cases hc : chooseAtropos el with
  | error e =>
    obtain ⟨rfl, hall⟩ := choose_error S.vals js e hc
    exact Or.inl ⟨rfl, hall⟩
  | ok r =>
    cases r with
    | some r =>
      refine Or.inr ⟨el, some r, rfl, js, by intro h; cases h, ?_⟩
      intro f' a h; cases h
      exact choose_some S.vals js f' a hc
    | none =>
      simp only
      by_cases hs : Gen.Election.skipOldRoot nr.frame el.frameToDecide = true
      · rw [if_pos hs]
        refine Or.inr ⟨el, none, rfl, js, fun _ => ?_, by intro f' a h; cases h⟩
        intro r hr hfr s hs'
        rcases List.mem_cons.1 hr with rfl | hr
        · exfalso
          unfold Gen.Election.skipOldRoot at hs
          rw [js.ftd] at hs
          simp only [decide_eq_true_eq] at hs
          omega
        · exact hst r hr hfr s hs'
      · rw [if_neg hs]
        have hs' : Gen.Election.skipOldRoot nr.frame el.frameToDecide = false := by simpa using hs
        obtain ⟨hvl, hlt, hvf⟩ := vote_branch S js fed hst nr hroot hb hclosed hs'
        obtain ⟨_, hround, _, _, _⟩ := round_facts nr.frame el.frameToDecide hb (by rw [js.ftd]; exact S.fbound) hs'
        have hz : Gen.Election.roundZero (Gen.Election.round nr.frame el.frameToDecide) = false := by
          rw [hround, js.ftd]; unfold Gen.Election.roundZero; simp only [decide_eq_false_iff_not]; omega
        rw [hz, hvl]
        simp only [Bool.false_eq_true, if_false]
        obtain ⟨js', hst'⟩ := pushAll_sound S js fed hst nr hroot hlt _ hvf
        cases hc2 : chooseAtropos (pushAll nr (voteOf observe frameRoots el nr) (notDecided el) el) with
        | error e =>
          obtain ⟨rfl, hall⟩ := choose_error S.vals js' e hc2
          exact Or.inl ⟨rfl, hall⟩
        | ok res =>
          refine Or.inr ⟨_, res, rfl, js', fun _ => hst', ?_⟩
          intro f' a h; subst h
          exact choose_some S.vals js' f' a hc2

end Step
end ElectionRefine
