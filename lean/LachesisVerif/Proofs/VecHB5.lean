import LachesisVerif.Proofs.VecHB4
/-!
The two fork-detection loops of `fillEventVectors` (`detectForks`), analysed against an abstract
"fork seen" predicate `F` on creators and abstract observed-seq sets `Obs` of branches.
Part 1: `setForkDetected`, the loop bodies, monotonicity (entries only ever change to the marker).
-/
namespace VecProofs
open Model.Vec Model.Vec.VState

theorem mem_branchesOf (s : VState) (c b : Nat) : b ∈ s.branchesOf c ↔ b < s.nBr ∧ s.creatorOf b = c := by
  simp [branchesOf]

theorem foldl_set_get (l : List Nat) (x : BSeq) (v : HBV) (j : Nat) :
    (l.foldl (fun v b => v.set b x) v).get j = if j ∈ l then x else v.get j := by
  induction l generalizing v with
  | nil => simp
  | cons a l ih =>
    simp only [List.foldl_cons]
    rw [ih]
    by_cases hj : j ∈ l
    · rw [if_pos hj, if_pos (List.mem_cons_of_mem _ hj)]
    · rw [if_neg hj]
      by_cases hja : j = a
      · subst hja; rw [HBV.set_same, if_pos (by simp)]
      · rw [HBV.set_other _ _ _ _ hja, if_neg (by simp [hja, hj])]

theorem setForkDetected_get (s : VState) (v : HBV) (c b : Nat) :
    (s.setForkDetected v c).get b = if b < s.nBr ∧ s.creatorOf b = c then forkMarker else v.get b := by
  unfold setForkDetected
  rw [foldl_set_get]
  by_cases hb : b ∈ s.branchesOf c
  · rw [if_pos hb, if_pos ((mem_branchesOf s c b).1 hb)]
  · rw [if_neg hb, if_neg (fun h => hb ((mem_branchesOf s c b).2 h))]

def loop1Body (s : VState) (v : HBV) (c : Nat) : HBV :=
  let brs := s.branchesOf c
  if Gen.Vec.singleBranch brs.length then v else
  if brs.any (fun b => (v.get b).isFork) then s.setForkDetected v c else v

def loop2Body (s : VState) (v : HBV) (c : Nat) : HBV :=
  if (v.get c).isFork then v else
  let brs := s.branchesOf c
  if brs.any (fun a => brs.any (fun b => overlap v a b)) then s.setForkDetected v c else v

theorem detectForks_eq (s : VState) (v : HBV) :
    s.detectForks v = if !s.atLeastOneFork then v else
      (List.range s.nVals).foldl (loop2Body s) ((List.range s.nVals).foldl (loop1Body s) v) := rfl

/-- entries only ever change to the marker -/
def Le (v v' : HBV) : Prop := ∀ b, v'.get b = v.get b ∨ v'.get b = forkMarker

theorem Le.refl (v : HBV) : Le v v := fun _ => Or.inl rfl

theorem Le.trans {u v w : HBV} (h1 : Le u v) (h2 : Le v w) : Le u w := by
  intro b
  rcases h2 b with h | h
  · rw [h]; exact h1 b
  · exact Or.inr h

theorem Le.fork {v v' : HBV} (h : Le v v') {b : Nat} (hf : (v.get b).isFork = true) :
    (v'.get b).isFork = true := by
  rcases h b with h | h
  · rw [h]; exact hf
  · rw [h]; exact isFork_marker

theorem Le.eq_of_not_fork {v v' : HBV} (h : Le v v') {b : Nat} (hf : (v'.get b).isFork = false) :
    v'.get b = v.get b := by
  rcases h b with h | h
  · exact h
  · rw [h, isFork_marker] at hf; exact absurd hf (by decide)

theorem set_le (s : VState) (v : HBV) (c : Nat) : Le v (s.setForkDetected v c) := by
  intro b
  rw [setForkDetected_get]
  split
  · exact Or.inr rfl
  · exact Or.inl rfl

theorem body1_le (s : VState) (v : HBV) (c : Nat) : Le v (loop1Body s v c) := by
  unfold loop1Body
  simp only
  split
  · exact Le.refl v
  · split
    · exact set_le s v c
    · exact Le.refl v

theorem body2_le (s : VState) (v : HBV) (c : Nat) : Le v (loop2Body s v c) := by
  unfold loop2Body
  simp only
  split
  · exact Le.refl v
  · split
    · exact set_le s v c
    · exact Le.refl v

theorem foldl_le (f : HBV → Nat → HBV) (hf : ∀ v c, Le v (f v c)) (cs : List Nat) (v : HBV) :
    Le v (cs.foldl f v) := by
  induction cs generalizing v with
  | nil => exact Le.refl v
  | cons c cs ih => exact (hf v c).trans (ih _)

/-- a loop body for creator `c` leaves the branches of other creators alone -/
theorem body1_other (s : VState) (v : HBV) (c b : Nat) (hb : ¬ (b < s.nBr ∧ s.creatorOf b = c)) :
    (loop1Body s v c).get b = v.get b := by
  unfold loop1Body
  simp only
  split
  · rfl
  · split
    · rw [setForkDetected_get, if_neg hb]
    · rfl

theorem body2_other (s : VState) (v : HBV) (c b : Nat) (hb : ¬ (b < s.nBr ∧ s.creatorOf b = c)) :
    (loop2Body s v c).get b = v.get b := by
  unfold loop2Body
  simp only
  split
  · rfl
  · split
    · rw [setForkDetected_get, if_neg hb]
    · rfl

theorem foldl_other (s : VState) (f : HBV → Nat → HBV)
    (hf : ∀ v c b, ¬ (b < s.nBr ∧ s.creatorOf b = c) → (f v c).get b = v.get b)
    (cs : List Nat) (v : HBV) (b : Nat) (hb : s.creatorOf b ∉ cs) :
    (cs.foldl f v).get b = v.get b := by
  induction cs generalizing v with
  | nil => rfl
  | cons c cs ih =>
    simp only [List.foldl_cons]
    rw [ih _ (fun h => hb (List.mem_cons_of_mem _ h))]
    exact hf v c b (fun h => hb (by rw [h.2]; simp))

theorem overlap_iff (v : HBV) (a b : Nat) :
    overlap v a b = true ↔ a ≠ b ∧ ((v.get a).isFork = true ∨ (v.get a).seq ≠ 0) ∧
      ((v.get b).isFork = true ∨ (v.get b).seq ≠ 0) ∧
      (v.get a).minSeq ≤ (v.get b).seq ∧ (v.get b).minSeq ≤ (v.get a).seq := by
  unfold overlap
  cases h1 : (v.get a).isFork <;> cases h2 : (v.get b).isFork <;>
    simp [Gen.Vec.overlap, BSeq.isEmpty, Gen.Vec.isEmpty, h1, h2, and_assoc]

theorem eq_of_mem_short {l : List Nat} (hl : l.length ≤ 1) {a b : Nat} (ha : a ∈ l) (hb : b ∈ l) : a = b := by
  match l, hl, ha, hb with
  | [x], _, ha, hb => simp at ha hb; rw [ha, hb]
  | _ :: _ :: _, hl, _, _ => simp at hl

end VecProofs
